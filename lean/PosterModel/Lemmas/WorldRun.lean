/-
  Lemmas/WorldRun.lean — the `select!` loop of `run()` (`World.runLoop`) taken apart: one iteration
  (`runIter`), the iterations that go on (`RunCont`), the ways a poll of the loop ends (`RunEnd`), the
  decomposition of `runLoop f w` into iterations (`Serve`) and the facts every iteration preserves.
-/
import PosterModel.Lemmas.World
import PosterModel.Lemmas.Framing

set_option linter.unusedVariables false
set_option linter.unusedSimpArgs false

namespace Poster
open Framing
namespace World

/-! ## observations added by transport writes -/

/-- only `W` / `WRAW` lines -/
def Quiet (l : List Obs) : Prop := ∀ o ∈ l, ∃ bs, o = .wire bs ∨ o = .wraw bs

theorem quiet_nil : Quiet [] := by intro o h; simp at h
theorem quiet_append {a b : List Obs} (ha : Quiet a) (hb : Quiet b) : Quiet (a ++ b) := by
  intro o h; rcases List.mem_append.mp h with h | h
  · exact ha o h
  · exact hb o h

/-- `w'` has the observations of `w` followed by `W` / `WRAW` lines only -/
def OutExt (w w' : World) : Prop := ∃ pre, Quiet pre ∧ w'.out = w.out ++ pre

theorem outExt_refl (w : World) : OutExt w w := ⟨[], quiet_nil, by simp⟩
theorem outExt_of_eq {w w' : World} (h : w'.out = w.out) : OutExt w w' := ⟨[], quiet_nil, by simp [h]⟩
theorem outExt_trans {a b c : World} (h1 : OutExt a b) (h2 : OutExt b c) : OutExt a c := by
  obtain ⟨p1, q1, e1⟩ := h1
  obtain ⟨p2, q2, e2⟩ := h2
  exact ⟨p1 ++ p2, quiet_append q1 q2, by rw [e2, e1, List.append_assoc]⟩

theorem flushWire_outExt (w : World) : OutExt w w.flushWire := by
  unfold flushWire
  split
  · refine ⟨_, ?_, rfl⟩
    intro o ho
    simp only [List.mem_map] at ho
    obtain ⟨bs, _, rfl⟩ := ho
    exact ⟨bs, Or.inl rfl⟩
  · refine ⟨_, ?_, rfl⟩
    intro o ho
    simp only [List.mem_singleton] at ho
    exact ⟨_, Or.inr ho⟩

theorem writeBytes_outExt (w : World) (bs : Bytes) : OutExt w (w.writeBytes bs) := by
  unfold writeBytes
  split
  · exact outExt_trans (outExt_of_eq rfl) (flushWire_outExt _)
  · exact outExt_trans (outExt_of_eq rfl) (flushWire_outExt _)

theorem applyEff_outExt (w : World) (e : Eff) : OutExt w (w.applyEff e) := by
  cases e with
  | write bs => exact writeBytes_outExt w bs
  | send s v => exact outExt_of_eq (by simp [applyEff])
  | dropSlot s => exact outExt_of_eq (by simp [applyEff])
  | deliver c p => exact outExt_of_eq (by simp [applyEff])
  | dropChan c => exact outExt_of_eq (by simp [applyEff])

theorem applyEffs_outExt (w : World) (es : List Eff) : OutExt w (w.applyEffs es) := by
  unfold applyEffs
  induction es generalizing w with
  | nil => exact outExt_refl w
  | cons e t ih => exact outExt_trans (applyEff_outExt w e) (ih _)

theorem runHandler_outExt (w : World) (h : Bool → Ctx × List Eff × Flow) : OutExt w (w.runHandler h).1 := by
  rw [runHandler_eq]
  exact outExt_trans (outExt_of_eq rfl) (applyEffs_outExt _ _)

@[simp] theorem runHandler_cfg (w : World) (h : Bool → Ctx × List Eff × Flow) : (w.runHandler h).1.cfg = w.cfg := by
  rw [runHandler_eq]; simp
@[simp] theorem runHandler_hasCtx (w : World) (h : Bool → Ctx × List Eff × Flow) : (w.runHandler h).1.hasCtx = w.hasCtx := by
  rw [runHandler_eq]; simp
@[simp] theorem runHandler_ctxDropped (w : World) (h : Bool → Ctx × List Eff × Flow) : (w.runHandler h).1.ctxDropped = w.ctxDropped := by
  rw [runHandler_eq]; simp
@[simp] theorem runHandler_task (w : World) (h : Bool → Ctx × List Eff × Flow) : (w.runHandler h).1.task = w.task := by
  rw [runHandler_eq]; simp
@[simp] theorem runHandler_rx (w : World) (h : Bool → Ctx × List Eff × Flow) : (w.runHandler h).1.rx = w.rx := by
  rw [runHandler_eq]; simp
@[simp] theorem runHandler_reader (w : World) (h : Bool → Ctx × List Eff × Flow) : (w.runHandler h).1.reader = w.reader := by
  rw [runHandler_eq]; simp
@[simp] theorem runHandler_readerReg (w : World) (h : Bool → Ctx × List Eff × Flow) : (w.runHandler h).1.readerReg = w.readerReg := by
  rw [runHandler_eq]; simp
@[simp] theorem runHandler_queue (w : World) (h : Bool → Ctx × List Eff × Flow) : (w.runHandler h).1.queue = w.queue := by
  rw [runHandler_eq]; simp
@[simp] theorem runHandler_queueReg (w : World) (h : Bool → Ctx × List Eff × Flow) : (w.runHandler h).1.queueReg = w.queueReg := by
  rw [runHandler_eq]; simp
@[simp] theorem runHandler_handles (w : World) (h : Bool → Ctx × List Eff × Flow) : (w.runHandler h).1.handles = w.handles := by
  rw [runHandler_eq]; simp
@[simp] theorem runHandler_ops (w : World) (h : Bool → Ctx × List Eff × Flow) : (w.runHandler h).1.ops = w.ops := by
  rw [runHandler_eq]; simp
@[simp] theorem runHandler_rsps (w : World) (h : Bool → Ctx × List Eff × Flow) : (w.runHandler h).1.rsps = w.rsps := by
  rw [runHandler_eq]; simp
@[simp] theorem runHandler_streams (w : World) (h : Bool → Ctx × List Eff × Flow) : (w.runHandler h).1.streams = w.streams := by
  rw [runHandler_eq]; simp
@[simp] theorem runHandler_pidCtr (w : World) (h : Bool → Ctx × List Eff × Flow) : (w.runHandler h).1.pidCtr = w.pidCtr := by
  rw [runHandler_eq]; simp
@[simp] theorem runHandler_subCtr (w : World) (h : Bool → Ctx × List Eff × Flow) : (w.runHandler h).1.subCtr = w.subCtr := by
  rw [runHandler_eq]; simp
@[simp] theorem runHandler_held (w : World) (h : Bool → Ctx × List Eff × Flow) : (w.runHandler h).1.held = w.held := by
  rw [runHandler_eq]; simp
@[simp] theorem runHandler_bad (w : World) (h : Bool → Ctx × List Eff × Flow) : (w.runHandler h).1.bad = w.bad := by
  rw [runHandler_eq]; simp
@[simp] theorem runHandler_senders (w : World) (h : Bool → Ctx × List Eff × Flow) : (w.runHandler h).1.senders = w.senders := by
  simp [senders]
@[simp] theorem runHandler_opSt (w : World) (h : Bool → Ctx × List Eff × Flow) (i : Nat) : (w.runHandler h).1.opSt i = w.opSt i := by
  simp [opSt]

theorem pollNext_idle_nil (s : Rx) (h : s.st = .idle) : pollNext s [] = (s, [], .pending) := by
  unfold pollNext
  split <;> simp_all

/-- one iteration of the `select!` loop of `run()`: `.inl` = go on with the next iteration, `.inr` = this poll ends -/
def runIter (w : World) : World ⊕ World :=
  match w.queue with
  | m :: q =>
    let r := ({ w with queue := q }).runHandler (fun wok => w.c.handleMsg m wok)
    match r.2 with
    | .cont => .inl r.1
    | fl => .inr (r.1.finish .run (flowRet fl))
  | [] =>
    if w.senders = 0 then .inr (w.finish .run (.err .handleClosed)) else
    match pollNext w.rx w.reader with
    | (rx', rd', .item fr) =>
      let w := { w with rx := rx', reader := rd' }
      match decodeRx fr with
      | .ok p =>
        let r := w.runHandler (fun wok => w.c.handlePkt w.chanRxAlive p wok)
        match r.2 with
        | .cont => .inl r.1
        | fl => .inr (r.1.finish .run (flowRet fl))
      | .err => .inr (w.finish .run (.err .codecError))
      | .panic => .inr (({ w with task := .none }).emit (.panic .ctx "other"))
    | (rx', rd', .none) => .inr (({ w with rx := rx', reader := rd' }).finish .run (.err .socketClosed))
    | (rx', rd', .pending) =>
      let w := { w with rx := rx', reader := rd', queueReg := true }
      .inr (if rd' = [] then { w with readerReg := true } else w.wake .ctx)

theorem runLoop_succ (f : Nat) (w : World) :
    runLoop (f + 1) w = match runIter w with
      | .inl w1 => runLoop f w1
      | .inr r => r := by
  rw [runLoop]
  unfold runIter
  cases hq : w.queue with
  | cons m q =>
    simp only
    generalize World.runHandler _ _ = r
    obtain ⟨w1, fl⟩ := r
    cases fl <;> rfl
  | nil =>
    simp only
    by_cases hs : w.senders = 0
    · simp [hs]
    · simp only [hs, ↓reduceIte]
      generalize pollNext _ _ = r
      obtain ⟨rx', rd', o⟩ := r
      cases o with
      | item fr =>
        simp only
        cases decodeRx fr with
        | ok p =>
          simp only
          generalize World.runHandler _ _ = r
          obtain ⟨w1, fl⟩ := r
          cases fl <;> rfl
        | err => rfl
        | panic => rfl
      | none => rfl
      | pending => rfl

/-! ## the iterations, relationally -/

/-- an iteration after which the loop goes on -/
inductive RunCont (w : World) : World → Prop
  | msg (m : Msg) (q : List Msg) (w1 : World) : w.queue = m :: q →
      ({ w with queue := q }).runHandler (fun wok => w.c.handleMsg m wok) = (w1, .cont) → RunCont w w1
  | pkt (rx' : Rx) (rd' : List ReadEv) (fr : Bytes) (p : RxPacket) (w1 : World) : w.queue = [] → w.senders ≠ 0 →
      pollNext w.rx w.reader = (rx', rd', .item fr) → decodeRx fr = .ok p →
      ({ w with rx := rx', reader := rd' }).runHandler (fun wok => w.c.handlePkt w.chanRxAlive p wok) = (w1, .cont) →
      RunCont w w1

/-- the ways one poll of the loop ends -/
inductive RunEnd (w : World) : World → Prop
  | msgExit (m : Msg) (q : List Msg) (w1 : World) (fl : Flow) : w.queue = m :: q →
      ({ w with queue := q }).runHandler (fun wok => w.c.handleMsg m wok) = (w1, fl) → fl ≠ .cont →
      RunEnd w (w1.finish .run (flowRet fl))
  | closed : w.queue = [] → w.senders = 0 → RunEnd w (w.finish .run (.err .handleClosed))
  | pktExit (rx' : Rx) (rd' : List ReadEv) (fr : Bytes) (p : RxPacket) (w1 : World) (fl : Flow) :
      w.queue = [] → w.senders ≠ 0 → pollNext w.rx w.reader = (rx', rd', .item fr) → decodeRx fr = .ok p →
      ({ w with rx := rx', reader := rd' }).runHandler (fun wok => w.c.handlePkt w.chanRxAlive p wok) = (w1, fl) →
      fl ≠ .cont → RunEnd w (w1.finish .run (flowRet fl))
  | codec (rx' : Rx) (rd' : List ReadEv) (fr : Bytes) : w.queue = [] → w.senders ≠ 0 →
      pollNext w.rx w.reader = (rx', rd', .item fr) → decodeRx fr = .err →
      RunEnd w (({ w with rx := rx', reader := rd' }).finish .run (.err .codecError))
  | panic (rx' : Rx) (rd' : List ReadEv) (fr : Bytes) : w.queue = [] → w.senders ≠ 0 →
      pollNext w.rx w.reader = (rx', rd', .item fr) → decodeRx fr = .panic →
      RunEnd w (({ w with rx := rx', reader := rd', task := .none }).emit (.panic .ctx "other"))
  | sock (rx' : Rx) (rd' : List ReadEv) : w.queue = [] → w.senders ≠ 0 →
      pollNext w.rx w.reader = (rx', rd', .none) →
      RunEnd w (({ w with rx := rx', reader := rd' }).finish .run (.err .socketClosed))
  | pending (rx' : Rx) (rd' : List ReadEv) : w.queue = [] → w.senders ≠ 0 →
      pollNext w.rx w.reader = (rx', rd', .pending) →
      RunEnd w (if rd' = [] then { w with rx := rx', reader := rd', queueReg := true, readerReg := true }
                else ({ w with rx := rx', reader := rd', queueReg := true }).wake .ctx)

theorem runIter_spec (w : World) :
    (∃ w1, runIter w = .inl w1 ∧ RunCont w w1) ∨ (∃ r, runIter w = .inr r ∧ RunEnd w r) := by
  unfold runIter
  split
  · rename_i m q hq
    simp only
    split
    · rename_i hfl
      exact Or.inl ⟨_, rfl, .msg m q _ hq (Prod.ext rfl hfl)⟩
    · rename_i fl hne
      exact Or.inr ⟨_, rfl, .msgExit m q _ _ hq rfl (by intro h; exact hne h)⟩
  · rename_i hq
    split
    · rename_i hs; exact Or.inr ⟨_, rfl, .closed hq hs⟩
    · rename_i hs
      split
      · rename_i rx' rd' fr hp
        simp only
        split
        · rename_i p hd
          split
          · rename_i hfl
            exact Or.inl ⟨_, rfl, .pkt rx' rd' fr p _ hq hs hp hd (Prod.ext rfl hfl)⟩
          · rename_i fl hne
            exact Or.inr ⟨_, rfl, .pktExit rx' rd' fr p _ _ hq hs hp hd rfl (by intro h; exact hne h)⟩
        · rename_i hd; exact Or.inr ⟨_, rfl, .codec rx' rd' fr hq hs hp hd⟩
        · rename_i hd; exact Or.inr ⟨_, rfl, .panic rx' rd' fr hq hs hp hd⟩
      · rename_i rx' rd' hp; exact Or.inr ⟨_, rfl, .sock rx' rd' hq hs hp⟩
      · rename_i rx' rd' hp; exact Or.inr ⟨_, rfl, .pending rx' rd' hq hs hp⟩

theorem runIter_inl {w w1 : World} (h : runIter w = .inl w1) : RunCont w w1 := by
  rcases runIter_spec w with ⟨w1', h1, h2⟩ | ⟨r, h1, _⟩
  · rw [h] at h1; cases h1; exact h2
  · rw [h] at h1; cases h1

theorem runIter_inr {w r : World} (h : runIter w = .inr r) : RunEnd w r := by
  rcases runIter_spec w with ⟨w1', h1, _⟩ | ⟨r', h1, h2⟩
  · rw [h] at h1; cases h1
  · rw [h] at h1; cases h1; exact h2

/-- zero or more iterations that go on -/
inductive Serve : World → World → Prop
  | refl (w : World) : Serve w w
  | step {w w1 w2 : World} : RunCont w w1 → Serve w1 w2 → Serve w w2

/-- `runLoop f w` = some iterations that go on, then either the fuel is used up or a final iteration -/
theorem runLoop_decomp (f : Nat) (w : World) :
    ∃ wm, Serve w wm ∧ (runLoop f w = wm ∨ RunEnd wm (runLoop f w)) := by
  induction f generalizing w with
  | zero => exact ⟨w, .refl w, Or.inl rfl⟩
  | succ f ih =>
    rw [runLoop_succ]
    cases h : runIter w with
    | inl w1 =>
      obtain ⟨wm, hs, he⟩ := ih w1
      exact ⟨wm, .step (runIter_inl h) hs, he⟩
    | inr r => exact ⟨w, .refl w, Or.inr (runIter_inr h)⟩


/-! ## what every iteration preserves -/

/-- the fuel measure of the loop: queued messages plus the framing measure -/
def loopMu (w : World) : Nat := w.queue.length + mu w.rx w.reader

theorem pollNext_item_facts {s : Rx} {rs : List ReadEv} {s' : Rx} {rs' : List ReadEv} {p : Bytes}
    (h : pollNext s rs = (s', rs', .item p)) :
    (s.Ok → s'.Ok ∧ 2 ≤ p.length ∧ mu s' rs' + 2 ≤ mu s rs) ∧ (Reach s → Reach s') := by
  refine ⟨fun hs => ?_, fun hr => ?_⟩
  · obtain ⟨_, ⟨k, hk⟩, hok⟩ := pollNext_item hs h
    have h2 := (frameLen_ok_ge _ _ _ hk).2
    have hm := pollNext_measure' h
    simp only [Out.len] at hm
    exact ⟨hok, h2, by omega⟩
  · have := Reach.poll rs hr; rw [h] at this; exact this

theorem runCont_frame {w w1 : World} (h : RunCont w w1) :
    w1.task = w.task ∧ w1.handles = w.handles ∧ w1.ops = w.ops ∧ w1.hasCtx = w.hasCtx ∧ w1.cfg = w.cfg ∧
    w1.streams = w.streams ∧ w1.rsps = w.rsps ∧ w1.held = w.held ∧ w1.bad = w.bad ∧
    OutExt w w1 ∧ (w.rx.Ok → w1.rx.Ok ∧ loopMu w1 < loopMu w) ∧ (Reach w.rx → Reach w1.rx) := by
  cases h with
  | msg m q w1 hq hr =>
    have e : w1 = (World.runHandler { w with queue := q } (fun wok => w.c.handleMsg m wok)).1 := by rw [hr]
    subst e
    refine ⟨by simp, by simp, by simp, by simp, by simp, by simp, by simp, by simp, by simp,
      outExt_trans (outExt_of_eq rfl) (runHandler_outExt _ _), ?_, ?_⟩
    · intro hok; simp [loopMu, hq]; exact hok
    · intro hr; simpa using hr
  | pkt rx' rd' fr p w1 hq hs hp hd hr =>
    have e : w1 = (World.runHandler { w with rx := rx', reader := rd' }
        (fun wok => w.c.handlePkt w.chanRxAlive p wok)).1 := by rw [hr]
    subst e
    obtain ⟨h1, h2⟩ := pollNext_item_facts hp
    refine ⟨by simp, by simp, by simp, by simp, by simp, by simp, by simp, by simp, by simp,
      outExt_trans (outExt_of_eq rfl) (runHandler_outExt _ _), ?_, ?_⟩
    · intro hok
      obtain ⟨a, _, c⟩ := h1 hok
      simp only [loopMu, runHandler_rx, runHandler_reader, runHandler_queue]
      exact ⟨a, by omega⟩
    · intro hr; simpa using h2 hr

theorem serve_frame {w wm : World} (h : Serve w wm) :
    wm.task = w.task ∧ wm.handles = w.handles ∧ wm.ops = w.ops ∧ wm.hasCtx = w.hasCtx ∧ wm.cfg = w.cfg ∧
    wm.streams = w.streams ∧ wm.rsps = w.rsps ∧ wm.held = w.held ∧ wm.bad = w.bad ∧
    OutExt w wm ∧ (w.rx.Ok → wm.rx.Ok ∧ loopMu wm ≤ loopMu w) ∧ (Reach w.rx → Reach wm.rx) := by
  induction h with
  | refl w => exact ⟨rfl, rfl, rfl, rfl, rfl, rfl, rfl, rfl, rfl, outExt_refl w, fun h => ⟨h, Nat.le_refl _⟩, id⟩
  | step hc _ ih =>
    obtain ⟨a1, a2, a3, a4, a5, a6, a7, a8, a9, a10, a11, a12⟩ := runCont_frame hc
    obtain ⟨b1, b2, b3, b4, b5, b6, b7, b8, b9, b10, b11, b12⟩ := ih
    refine ⟨b1.trans a1, b2.trans a2, b3.trans a3, b4.trans a4, b5.trans a5, b6.trans a6, b7.trans a7,
      b8.trans a8, b9.trans a9, outExt_trans a10 b10, ?_, fun h => b12 (a12 h)⟩
    intro hok
    obtain ⟨c1, c2⟩ := a11 hok
    obtain ⟨d1, d2⟩ := b11 c1
    exact ⟨d1, by omega⟩

theorem serve_senders {w wm : World} (h : Serve w wm) : wm.senders = w.senders := by
  obtain ⟨_, h2, h3, _⟩ := serve_frame h
  simp [senders, h2, h3]

/-- with enough fuel (`loopFuel` is more than enough) the loop always reaches a final iteration -/
theorem runLoop_decomp_fuel (f : Nat) (w : World) (hok : w.rx.Ok) (hf : loopMu w < f) :
    ∃ wm, Serve w wm ∧ RunEnd wm (runLoop f w) := by
  induction f generalizing w with
  | zero => omega
  | succ f ih =>
    rw [runLoop_succ]
    cases h : runIter w with
    | inl w1 =>
      have hc := runIter_inl h
      obtain ⟨h1, h2⟩ := (runCont_frame hc).2.2.2.2.2.2.2.2.2.2.1 hok
      obtain ⟨wm, hs, he⟩ := ih w1 h1 (by omega)
      exact ⟨wm, .step hc hs, he⟩
    | inr r => exact ⟨w, .refl w, runIter_inr h⟩

theorem loopMu_lt_loopFuel (w : World) : loopMu w < w.loopFuel := by
  simp only [loopMu, loopFuel, mu]; omega

/-! ## how a poll of the loop ends -/

/-- the outcomes `run()` can return with (`handleClosed` only with no sender and nothing queued) -/
def RunCause (w : World) (res : RetRes) : Prop :=
  res = .ok ∨ (∃ d, res = .disconnected d) ∨ res = .err .socketClosed ∨
  (res = .err .handleClosed ∧ w.queue = [] ∧ w.senders = 0) ∨ res = .err .codecError

theorem flowRet_cause (w : World) (fl : Flow) (h : fl ≠ .cont) :
    flowRet fl = .ok ∨ (∃ d, flowRet fl = .disconnected d) ∨ flowRet fl = .err .socketClosed := by
  cases fl with
  | cont => exact absurd rfl h
  | exitOk => exact Or.inl rfl
  | exitSocket => exact Or.inr (Or.inr rfl)
  | exitDisconnected d => exact Or.inr (Or.inl ⟨d, rfl⟩)

theorem runEnd_out {w r : World} (h : RunEnd w r) :
    (r.task = .none ∧ r.queue.length ≤ w.queue.length ∧ r.handles = w.handles ∧ r.ops = w.ops ∧
      ∃ pre last, Quiet pre ∧ r.out = w.out ++ pre ++ [last] ∧
        ((∃ res, last = .ret .run res ∧ RunCause w res) ∨
         (last = .panic .ctx "other" ∧ ∃ rx' rd' fr, pollNext w.rx w.reader = (rx', rd', .item fr) ∧
            decodeRx fr = .panic))) ∨
    (r.task = w.task ∧ r.out = w.out ∧ r.queueReg = true ∧ r.queue = [] ∧ w.queue = [] ∧ w.senders ≠ 0 ∧
      ((r.reader = [] ∧ r.readerReg = true) ∨ .ctx ∈ r.woken) ∧
      pollNext w.rx w.reader = (r.rx, r.reader, .pending)) := by
  cases h with
  | msgExit m q w1 fl hq hr hne =>
    have e : w1 = (World.runHandler { w with queue := q } (fun wok => w.c.handleMsg m wok)).1 := by rw [hr]
    obtain ⟨pre, hq1, hq2⟩ := runHandler_outExt { w with queue := q } (fun wok => w.c.handleMsg m wok)
    rw [← e] at hq2
    refine Or.inl ⟨rfl, by subst e; simp [hq], by subst e; simp, by subst e; simp, pre, .ret .run (flowRet fl), hq1,
      by simp [finish, emit, hq2], Or.inl ⟨_, rfl, ?_⟩⟩
    rcases flowRet_cause w fl hne with h | h | h
    · exact Or.inl h
    · exact Or.inr (Or.inl h)
    · exact Or.inr (Or.inr (Or.inl h))
  | closed hq hs =>
    exact Or.inl ⟨rfl, by simp, by simp, by simp, [], _, quiet_nil, by simp [finish, emit],
      Or.inl ⟨_, rfl, Or.inr (Or.inr (Or.inr (Or.inl ⟨rfl, hq, hs⟩)))⟩⟩
  | pktExit rx' rd' fr p w1 fl hq hs hp hd hr hne =>
    have e : w1 = (World.runHandler { w with rx := rx', reader := rd' }
        (fun wok => w.c.handlePkt w.chanRxAlive p wok)).1 := by rw [hr]
    obtain ⟨pre, hq1, hq2⟩ := runHandler_outExt { w with rx := rx', reader := rd' }
        (fun wok => w.c.handlePkt w.chanRxAlive p wok)
    rw [← e] at hq2
    refine Or.inl ⟨rfl, by subst e; simp, by subst e; simp, by subst e; simp, pre, .ret .run (flowRet fl), hq1,
      by simp [finish, emit, hq2], Or.inl ⟨_, rfl, ?_⟩⟩
    rcases flowRet_cause w fl hne with h | h | h
    · exact Or.inl h
    · exact Or.inr (Or.inl h)
    · exact Or.inr (Or.inr (Or.inl h))
  | codec rx' rd' fr hq hs hp hd =>
    exact Or.inl ⟨rfl, by simp, by simp, by simp, [], _, quiet_nil, by simp [finish, emit],
      Or.inl ⟨_, rfl, Or.inr (Or.inr (Or.inr (Or.inr rfl)))⟩⟩
  | panic rx' rd' fr hq hs hp hd =>
    exact Or.inl ⟨rfl, by simp, by simp, by simp, [], _, quiet_nil, by simp [emit],
      Or.inr ⟨rfl, rx', rd', fr, hp, hd⟩⟩
  | sock rx' rd' hq hs hp =>
    exact Or.inl ⟨rfl, by simp, by simp, by simp, [], _, quiet_nil, by simp [finish, emit],
      Or.inl ⟨_, rfl, Or.inr (Or.inr (Or.inl rfl))⟩⟩
  | pending rx' rd' hq hs hp =>
    refine Or.inr ?_
    by_cases hrd : rd' = []
    · rw [if_pos hrd]
      exact ⟨rfl, rfl, rfl, hq, hq, hs, Or.inl ⟨hrd, rfl⟩, hp⟩
    · rw [if_neg hrd]
      refine ⟨by simp, by simp, by simp, by simpa using hq, hq, hs, Or.inr (mem_wake_self _ _), by simpa using hp⟩

/-! ## the prelude of `run()` and of `connect()` -/

theorem foldl_writeBytes_frame (pkts : List Bytes) (w : World) :
    let w' := pkts.foldl (fun w p => w.writeBytes p) w
    w'.rx = w.rx ∧ w'.reader = w.reader ∧ w'.queue = w.queue ∧ w'.handles = w.handles ∧ w'.ops = w.ops ∧
    w'.task = w.task ∧ w'.c = w.c ∧ w'.readerReg = w.readerReg ∧ w'.queueReg = w.queueReg ∧
    w'.woken = w.woken ∧ w'.slots = w.slots ∧ w'.slotReg = w.slotReg ∧ w'.chans = w.chans ∧
    w'.hasCtx = w.hasCtx ∧ OutExt w w' := by
  induction pkts generalizing w with
  | nil => exact ⟨rfl, rfl, rfl, rfl, rfl, rfl, rfl, rfl, rfl, rfl, rfl, rfl, rfl, rfl, outExt_refl w⟩
  | cons p t ih =>
    obtain ⟨a1, a2, a3, a4, a5, a6, a7, a8, a9, a10, a11, a12, a13, a14, a15⟩ := ih (w.writeBytes p)
    simp only [List.foldl_cons]
    refine ⟨by simp [a1], by simp [a2], by simp [a3], by simp [a4], by simp [a5], by simp [a6], by simp [a7],
      by simp [a8], by simp [a9], by simp [a10], by simp [a11], by simp [a12], by simp [a13], by simp [a14],
      outExt_trans (writeBytes_outExt w p) a15⟩

/-- `run()` first polled: the session-resumption prelude leaves the framing state, the queue and the senders
    alone, adds only `W` lines, and then either enters the loop or fails on a write -/
theorem pollRun_prelude (w : World) :
    ∃ w0, w0.rx = w.rx ∧ w0.reader = w.reader ∧ w0.queue = w.queue ∧ w0.handles = w.handles ∧ w0.ops = w.ops ∧
      w0.task = .running true ∧ OutExt w w0 ∧
      (w.pollRun false = runLoop w0.loopFuel w0 ∨ w.pollRun false = w0.finish .run (.err .socketClosed)) := by
  simp only [pollRun, Bool.false_eq_true, ↓reduceIte]
  have h1 : OutExt w ({ w with c := (w.c.resume).1, task := .running true } : World) := outExt_of_eq rfl
  split
  · obtain ⟨a1, a2, a3, a4, a5, a6, _, _, _, _, _, _, _, _, a15⟩ := foldl_writeBytes_frame
      (w.c.resume).2.2 (({ w with c := (w.c.resume).1, task := .running true }).applyEffs (w.c.resume).2.1)
    refine ⟨_, ?_, ?_, ?_, ?_, ?_, ?_, ?_, Or.inl rfl⟩
    · rw [a1]; simp
    · rw [a2]; simp
    · rw [a3]; simp
    · rw [a4]; simp
    · rw [a5]; simp
    · rw [a6]; simp
    · exact outExt_trans (outExt_trans h1 (applyEffs_outExt _ _)) a15
  · refine ⟨_, ?_, ?_, ?_, ?_, ?_, ?_, ?_, Or.inr rfl⟩
    · simp
    · simp
    · simp
    · simp
    · simp
    · simp
    · exact outExt_trans (outExt_trans h1 (applyEffs_outExt _ _)) (writeBytes_outExt _ _)

/-- the ways the wait for the first response of `connect()` / `authorize()` ends -/
inductive FirstEnd (w : World) (call : Call) (t : ConnectTx) (a : AuthTx) : World → Prop
  | connack (rx' : Rx) (rd' : List ReadEv) (fr : Bytes) (k : ConnackRx) :
      pollNext w.rx w.reader = (rx', rd', .item fr) → decodeRx fr = .ok (.connack k) → k.reason < 128 →
      k.subIdAvail = true →
      FirstEnd w call t a (({ w with rx := rx', reader := rd', c := w.c.handleConnack k }).finish call (.connack k))
  | refused (rx' : Rx) (rd' : List ReadEv) (fr : Bytes) (k : ConnackRx) :
      pollNext w.rx w.reader = (rx', rd', .item fr) → decodeRx fr = .ok (.connack k) → k.reason ≥ 128 →
      FirstEnd w call t a
        (({ w with rx := rx', reader := rd', c := w.c.handleConnack k }).finish call (.connectError k))
  | assertSubId (rx' : Rx) (rd' : List ReadEv) (fr : Bytes) (k : ConnackRx) :
      pollNext w.rx w.reader = (rx', rd', .item fr) → decodeRx fr = .ok (.connack k) → k.reason < 128 →
      k.subIdAvail = false →
      FirstEnd w call t a
        (({ w with rx := rx', reader := rd', c := w.c.handleConnack k, task := .none }).emit
          (.panic .ctx "assert-subid"))
  | auth (rx' : Rx) (rd' : List ReadEv) (fr : Bytes) (au : AuthRx) :
      pollNext w.rx w.reader = (rx', rd', .item fr) → decodeRx fr = .ok (.auth au) →
      FirstEnd w call t a (({ w with rx := rx', reader := rd' }).finish call (.auth au))
  | unexpected (rx' : Rx) (rd' : List ReadEv) (fr : Bytes) (p : RxPacket) :
      pollNext w.rx w.reader = (rx', rd', .item fr) → decodeRx fr = .ok p →
      (∀ k, p ≠ .connack k) → (∀ au, p ≠ .auth au) →
      FirstEnd w call t a (({ w with rx := rx', reader := rd' }).finish call (.err .codecError))
  | codec (rx' : Rx) (rd' : List ReadEv) (fr : Bytes) :
      pollNext w.rx w.reader = (rx', rd', .item fr) → decodeRx fr = .err →
      FirstEnd w call t a (({ w with rx := rx', reader := rd' }).finish call (.err .codecError))
  | panic (rx' : Rx) (rd' : List ReadEv) (fr : Bytes) :
      pollNext w.rx w.reader = (rx', rd', .item fr) → decodeRx fr = .panic →
      FirstEnd w call t a (({ w with rx := rx', reader := rd', task := .none }).emit (.panic .ctx "other"))
  | sock (rx' : Rx) (rd' : List ReadEv) :
      pollNext w.rx w.reader = (rx', rd', .none) →
      FirstEnd w call t a (({ w with rx := rx', reader := rd' }).finish call (.err .socketClosed))
  | pending (rx' : Rx) (rd' : List ReadEv) :
      pollNext w.rx w.reader = (rx', rd', .pending) →
      FirstEnd w call t a
        (if rd' = [] then { w with rx := rx', reader := rd', task := .connecting call t a true, readerReg := true }
         else ({ w with rx := rx', reader := rd', task := .connecting call t a true }).wake .ctx)

theorem awaitFirst_spec (w : World) (call : Call) (t : ConnectTx) (a : AuthTx) :
    FirstEnd w call t a (w.awaitFirst call t a) := by
  unfold awaitFirst
  split
  · rename_i rx' rd' fr hp
    split
    · rename_i k hd
      simp only
      split
      · rename_i hk; exact .refused rx' rd' fr k hp hd hk
      · rename_i hk
        split
        · rename_i hs; exact .assertSubId rx' rd' fr k hp hd (by omega) (by simpa using hs)
        · rename_i hs; exact .connack rx' rd' fr k hp hd (by omega) (by simpa using hs)
    · rename_i au hd; exact .auth rx' rd' fr au hp hd
    · rename_i p h1 h2 hd
      exact .unexpected rx' rd' fr p hp hd (fun k hk => h1 k hk) (fun au hk => h2 au hk)
    · rename_i hd; exact .codec rx' rd' fr hp hd
    · rename_i hd; exact .panic rx' rd' fr hp hd
  · rename_i rx' rd' hp; exact .sock rx' rd' hp
  · rename_i rx' rd' hp; exact .pending rx' rd' hp

/-- the request of `connect()` (a CONNECT) resp. `authorize()` (an AUTH) can be encoded -/
def reqValid (call : Call) (t : ConnectTx) (a : AuthTx) : Bool :=
  match call with
  | .connect => t.valid
  | _ => a.valid

/-- `connect()` / `authorize()` first polled: refused before anything is written, or the request is written
    (only `W` lines added, framing state untouched) and the first response is awaited, or the write fails -/
theorem pollConnect_prelude (w : World) (call : Call) (t : ConnectTx) (a : AuthTx) :
    (reqValid call t a = false ∧
      w.pollConnect call t a false = w.finish call (.err .codecError)) ∨
    (reqValid call t a = true ∧
      ∃ w0, w0.rx = w.rx ∧ w0.reader = w.reader ∧ w0.woken = w.woken ∧ w0.readerReg = w.readerReg ∧
        w0.slots = w.slots ∧ w0.ops = w.ops ∧ OutExt w w0 ∧
        (w.pollConnect call t a false = w0.awaitFirst call t a ∨
         w.pollConnect call t a false = w0.finish call (.err .socketClosed))) := by
  cases call with
  | connect =>
    simp only [pollConnect, reqValid, Bool.false_eq_true, ↓reduceIte]
    cases hv : t.valid
    · left; simp
    · right
      simp only [Bool.not_true, Bool.false_eq_true, ↓reduceIte, true_and]
      have hx : OutExt w (World.writeBytes ({ w with c := { w.c with sei := t.sessionExpiry.getD 0 } }) t.encode) := writeBytes_outExt ({ w with c := { w.c with sei := t.sessionExpiry.getD 0 } }) t.encode
      split
      · refine ⟨_, ?_, ?_, ?_, ?_, ?_, ?_, ?_, Or.inl rfl⟩
        all_goals first | exact hx | simp
      · refine ⟨_, ?_, ?_, ?_, ?_, ?_, ?_, ?_, Or.inr rfl⟩
        all_goals first | exact hx | simp
  | authorize =>
    simp only [pollConnect, reqValid, Bool.false_eq_true, ↓reduceIte]
    cases hv : a.valid
    · left; simp
    · right
      simp only [Bool.not_true, Bool.false_eq_true, ↓reduceIte, true_and]
      have hx : OutExt w (World.writeBytes w a.encode) := writeBytes_outExt w a.encode
      split
      · refine ⟨_, ?_, ?_, ?_, ?_, ?_, ?_, ?_, Or.inl rfl⟩
        all_goals first | exact hx | simp
      · refine ⟨_, ?_, ?_, ?_, ?_, ?_, ?_, ?_, Or.inr rfl⟩
        all_goals first | exact hx | simp
  | run =>
    simp only [pollConnect, reqValid, Bool.false_eq_true, ↓reduceIte]
    cases hv : a.valid
    · left; simp
    · right
      simp only [Bool.not_true, Bool.false_eq_true, ↓reduceIte, true_and]
      have hx : OutExt w (World.writeBytes w a.encode) := writeBytes_outExt w a.encode
      split
      · refine ⟨_, ?_, ?_, ?_, ?_, ?_, ?_, ?_, Or.inl rfl⟩
        all_goals first | exact hx | simp
      · refine ⟨_, ?_, ?_, ?_, ?_, ?_, ?_, ?_, Or.inr rfl⟩
        all_goals first | exact hx | simp

theorem firstEnd_out {w : World} {call : Call} {t : ConnectTx} {a : AuthTx} {r : World}
    (h : FirstEnd w call t a r) :
    (r.task = .none ∧ r.ops = w.ops ∧ r.slots = w.slots ∧ ∃ last, r.out = w.out ++ [last] ∧
      ((∃ res, last = .ret call res) ∨
       (last = .panic .ctx "assert-subid" ∧ ∃ rx' rd' fr k, pollNext w.rx w.reader = (rx', rd', .item fr) ∧
          decodeRx fr = .ok (.connack k) ∧ k.reason < 128 ∧ k.subIdAvail = false) ∨
       (last = .panic .ctx "other" ∧ ∃ rx' rd' fr, pollNext w.rx w.reader = (rx', rd', .item fr) ∧
          decodeRx fr = .panic))) ∨
    (r.task = .connecting call t a true ∧ r.out = w.out ∧ r.ops = w.ops ∧ r.slots = w.slots ∧
      ((r.reader = [] ∧ r.readerReg = true) ∨ .ctx ∈ r.woken) ∧
      pollNext w.rx w.reader = (r.rx, r.reader, .pending)) := by
  cases h with
  | connack rx' rd' fr k hp hd hk hs => exact Or.inl ⟨rfl, rfl, rfl, _, rfl, Or.inl ⟨_, rfl⟩⟩
  | refused rx' rd' fr k hp hd hk => exact Or.inl ⟨rfl, rfl, rfl, _, rfl, Or.inl ⟨_, rfl⟩⟩
  | assertSubId rx' rd' fr k hp hd hk hs =>
    exact Or.inl ⟨rfl, rfl, rfl, _, rfl, Or.inr (Or.inl ⟨rfl, rx', rd', fr, k, hp, hd, hk, hs⟩)⟩
  | auth rx' rd' fr au hp hd => exact Or.inl ⟨rfl, rfl, rfl, _, rfl, Or.inl ⟨_, rfl⟩⟩
  | unexpected rx' rd' fr p hp hd h1 h2 => exact Or.inl ⟨rfl, rfl, rfl, _, rfl, Or.inl ⟨_, rfl⟩⟩
  | codec rx' rd' fr hp hd => exact Or.inl ⟨rfl, rfl, rfl, _, rfl, Or.inl ⟨_, rfl⟩⟩
  | panic rx' rd' fr hp hd => exact Or.inl ⟨rfl, rfl, rfl, _, rfl, Or.inr (Or.inr ⟨rfl, rx', rd', fr, hp, hd⟩)⟩
  | sock rx' rd' hp => exact Or.inl ⟨rfl, rfl, rfl, _, rfl, Or.inl ⟨_, rfl⟩⟩
  | pending rx' rd' hp =>
    refine Or.inr ?_
    by_cases hrd : rd' = []
    · rw [if_pos hrd]
      exact ⟨rfl, rfl, rfl, rfl, Or.inl ⟨hrd, rfl⟩, hp⟩
    · rw [if_neg hrd]
      exact ⟨by simp, by simp, by simp, by simp, Or.inr (mem_wake_self _ _), by simpa using hp⟩

/-- a poll of the loop with the fuel `pollRun` gives it always reaches a final iteration -/
theorem runLoop_full (w : World) (hok : w.rx.Ok) : ∃ wm, Serve w wm ∧ RunEnd wm (runLoop w.loopFuel w) :=
  runLoop_decomp_fuel _ w hok (loopMu_lt_loopFuel w)

/-- if a poll of the loop leaves `run()` pending, both wakeup sources are armed, nothing is queued, and the
    framing layer itself returned `Pending` -/
theorem runLoop_alive_facts (w : World) (hok : w.rx.Ok) (h : (runLoop w.loopFuel w).task ≠ .none) :
    (runLoop w.loopFuel w).task = w.task ∧ OutExt w (runLoop w.loopFuel w) ∧
    (runLoop w.loopFuel w).queueReg = true ∧ (runLoop w.loopFuel w).queue = [] ∧
    (((runLoop w.loopFuel w).reader = [] ∧ (runLoop w.loopFuel w).readerReg = true) ∨
      .ctx ∈ (runLoop w.loopFuel w).woken) ∧
    ∃ wm, Serve w wm ∧ wm.rx.Ok ∧ wm.senders ≠ 0 ∧
      pollNext wm.rx wm.reader = ((runLoop w.loopFuel w).rx, (runLoop w.loopFuel w).reader, .pending) := by
  obtain ⟨wm, hs, he⟩ := runLoop_full w hok
  obtain ⟨a1, _, _, _, _, _, _, _, _, a10, a11, _⟩ := serve_frame hs
  rcases runEnd_out he with ⟨h1, _⟩ | ⟨b1, b2, b3, b4, b5, b6, b7, b8⟩
  · exact absurd h1 h
  · exact ⟨b1.trans a1, outExt_trans a10 (outExt_of_eq b2), b3, b4, b7, wm, hs, (a11 hok).1, b6, b8⟩

end World
end Poster
