/-
  Lemmas/WorldCancelVeilStep.lean — `veil id` commutes with the executor (`drain`, `sweep`) and with every script event
  that addresses neither stream `id` nor an operation named `id`; two worlds that look the same once stream `id` is
  veiled stay so through a script (lockstep).
-/
import PosterModel.Lemmas.WorldCancelVeilInv
import PosterModel.Lemmas.WorldCancelScript

set_option linter.unusedVariables false
set_option linter.unusedSimpArgs false

namespace Poster
open Framing
namespace World
namespace W11

/-! ## the executor -/

theorem drain_veil (id) (f : Nat) (w : World) (h : SideV id w) : drain f (veil id w) = veil id (drain f w) := by
  induction f generalizing w with
  | zero => rfl
  | succ f ih =>
    rw [drain, drain, pick_veil id w h.frozen]
    cases hp : w.pick with
    | none => rfl
    | some t =>
      obtain ⟨ht, ho⟩ := h.frozen.not_picked t hp
      simp only
      rw [pollTask_veil id w t ht ho h.ctxOK]
      exact ih _ (h.pollTask t ht ho)

theorem SideV.drain {id : Nat} (f : Nat) {w : World} (h : SideV id w) : SideV id (drain f w) := by
  induction f generalizing w with
  | zero => exact h
  | succ f ih =>
    rw [World.drain]
    cases hp : w.pick with
    | none => exact h
    | some t =>
      obtain ⟨ht, ho⟩ := h.frozen.not_picked t hp
      exact ih (h.pollTask t ht ho)

theorem sweepF_veil_frozen {id : Nat} {w : World} (h : FrozenSt id w) :
    sweepF w (.st id) = w ∧ sweepF w (.op id) = w := by
  constructor
  · unfold sweepF
    rcases h.st with h | h
    · simp [taskLive, h]
    · simp [h]
  · unfold sweepF
    simp [taskLive, h.noOp]

theorem sweepF_veil (id) (w : World) (t : Task) (ht : t ≠ .st id) (ho : t ≠ .op id) (h : SideV id w) :
    sweepF (veil id w) t = veil id (sweepF w t) := by
  unfold sweepF
  rw [taskLive_veil id w t ht]
  have e1 : t ∈ (veil id w).woken ↔ t ∈ w.woken := mem_woken_veil id w t ht
  have e2 : t ∈ (veil id w).held ↔ t ∈ w.held := mem_held_veil id w t ht
  simp only [e1, e2]
  split
  · exact pollTask_veil id w t ht ho h.ctxOK
  · rfl

theorem SideV.sweepF {id : Nat} {w : World} (h : SideV id w) (t : Task) : SideV id (sweepF w t) := by
  by_cases ht : t = .st id
  · subst ht; rw [(sweepF_veil_frozen h.frozen).1]; exact h
  · by_cases ho : t = .op id
    · subst ho; rw [(sweepF_veil_frozen h.frozen).2]; exact h
    · unfold W11.sweepF
      split
      · exact h.pollTask t ht ho
      · exact h

theorem foldl_sweepF_veil (id) (ts : List Task) (w : World) (h : SideV id w) :
    (ts.filter (keepV id)).foldl sweepF (veil id w) = veil id (ts.foldl sweepF w) ∧ SideV id (ts.foldl sweepF w) := by
  induction ts generalizing w with
  | nil => exact ⟨rfl, h⟩
  | cons t ts ih =>
    by_cases ht : t = .st id
    · subst ht
      have : keepV id (Task.st id) = false := by simp
      simp only [List.filter_cons, this, Bool.false_eq_true, ↓reduceIte, List.foldl_cons,
        (sweepF_veil_frozen h.frozen).1]
      exact ih w h
    · have hk : keepV id t = true := by simpa using ht
      simp only [List.filter_cons, hk, ↓reduceIte, List.foldl_cons]
      by_cases ho : t = .op id
      · subst ho
        have hv : FrozenSt id (veil id w) := ⟨h.frozen.noOp, by
          rcases h.frozen.st with x | x
          · exact Or.inl (by simp [x])
          · exact Or.inl (by simp)⟩
        rw [(sweepF_veil_frozen h.frozen).2, (sweepF_veil_frozen hv).2]
        exact ih w h
      · rw [sweepF_veil id w t ht ho h]
        exact ih _ (h.sweepF t)

theorem sweep_tasks_veil (id) (w : World) :
    ([Task.ctx] ++ (sortNat ((veil id w).ops.map (·.1))).map Task.op ++ (sortNat (veil id w).streams).map Task.st) =
      ([Task.ctx] ++ (sortNat (w.ops.map (·.1))).map Task.op ++ (sortNat w.streams).map Task.st).filter (keepV id) := by
  have e2 : ∀ l : List Nat, (l.filter (keepK id)).map Task.st = (l.map Task.st).filter (keepV id) := by
    intro l
    induction l with
    | nil => rfl
    | cons a t ih =>
      by_cases ha : a = id
      · subst ha; simp [List.filter_cons, ih]
      · have h1 : keepK id a = true := by simpa using ha
        have h2 : keepV id (Task.st a) = true := by simp [ha]
        simp [List.filter_cons, h1, h2, ih]
  have e3 : ∀ l : List Nat, (l.map Task.op).filter (keepV id) = l.map Task.op := by
    intro l
    rw [List.filter_eq_self]
    intro t ht
    obtain ⟨n, _, rfl⟩ := List.mem_map.mp ht
    simp
  simp only [veil_ops, veil_streams]
  rw [sortNat_filter, e2, List.filter_append, List.filter_append, e3]
  simp

theorem sweep_veil (id) (w : World) (h : SideV id w) : (veil id w).sweep = veil id w.sweep ∧ SideV id w.sweep := by
  rw [sweep_eq_fold, sweep_eq_fold, sweep_tasks_veil]
  exact foldl_sweepF_veil id _ w h

/-! ## the script events -/

theorem feedEvents_veil (id) (w : World) (evs : List ReadEv) :
    (veil id w).feedEvents evs = veil id (w.feedEvents evs) := by
  unfold feedEvents
  w11_vln
  simp only [mk_veil]
  by_cases hr : w.readerReg = true
  · simp only [hr, ↓reduceIte]
    rw [wake_veil id _ _ (by simp)]; rfl
  · simp only [hr, Bool.false_eq_true, ↓reduceIte]
    rfl

theorem flushRaw_veil (id) (w : World) : (veil id w).flushRaw = veil id w.flushRaw := by
  unfold flushRaw
  w11_vln
  by_cases hp : w.wirePend = []
  · simp only [hp, ↓reduceIte]
  · simp only [hp, ↓reduceIte]
    rw [emit_veil id w _ rfl]; rfl

theorem badScript_veil (id) (w : World) : (veil id w).badScript = veil id w.badScript := by
  unfold badScript
  rw [emit_veil id w _ rfl]; rfl

theorem closeMsg_veil (id) (w : World) (m : Msg) : closeMsg (veil id w) m = veil id (closeMsg w m) := by
  cases m <;> simp only [closeMsg, dropSlotTx_veil, dropChanTx_veil]

theorem foldl_veil {α} (id) (f : World → α → World) (hf : ∀ w a, f (veil id w) a = veil id (f w a))
    (l : List α) (w : World) : l.foldl f (veil id w) = veil id (l.foldl f w) := by
  induction l generalizing w with
  | nil => rfl
  | cons a t ih => simp only [List.foldl_cons, hf, ih]

/-- dropping the senders of the registered channels, on a veiled world: the registrations of `id` can be skipped -/
theorem foldl_dropChanTx_subsOff (id : Nat) (subs : List (Nat × Nat)) (w : World) :
    (subsOff id subs).foldl (fun (w : World) (e : Nat × Nat) => w.dropChanTx e.2) (veil id w) =
      subs.foldl (fun (w : World) (e : Nat × Nat) => w.dropChanTx e.2) (veil id w) := by
  induction subs generalizing w with
  | nil => rfl
  | cons x t ih =>
    obtain ⟨a, b⟩ := x
    rw [subsOff_cons]
    by_cases hb : b = id
    · subst hb
      simp only [ne_eq, not_true_eq_false, ↓reduceIte, List.foldl_cons]
      rw [User.dropChanTx_none _ b (chan_veil_mine b w)]
      exact ih w
    · simp only [hb, ne_eq, not_false_eq_true, ↓reduceIte, List.foldl_cons, dropChanTx_veil]
      exact ih _

theorem dropCtxClosed_veil (id) (w : World) : dropCtxClosed (veil id w) = veil id (dropCtxClosed w) := by
  unfold dropCtxClosed
  have e : dropCtxStart (veil id w) = veil id (dropCtxStart w) := rfl
  have e1 : (veil id w).c.awaiting = w.c.awaiting := rfl
  have e2 : (veil id w).c.subs = subsOff id w.c.subs := rfl
  rw [e, e1, e2, veil_queue, foldl_veil id closeMsg (closeMsg_veil id),
    foldl_veil id _ (fun w e => dropSlotTx_veil id w e.2), foldl_dropChanTx_subsOff,
    foldl_veil id _ (fun w e => dropChanTx_veil id w e.2)]

theorem apply_dropCtx_veil (id) (w : World) : (veil id w).apply .dropCtx = veil id (w.apply .dropCtx) := by
  by_cases h : w.hasCtx = true
  · rw [apply_dropCtx _ h, apply_dropCtx _ (show (veil id w).hasCtx = true from h), dropCtxClosed_veil]
    rfl
  · have h' : (veil id w).hasCtx = false := by simpa using h
    have h'' : w.hasCtx = false := h'
    simp only [World.apply, h', h'', Bool.not_false, ↓reduceIte]
    rfl

theorem ite_veil_congr (id) (c : Prop) [Decidable c] {a b a' b' : World} (h1 : a = veil id a') (h2 : b = veil id b') :
    (if c then a else b) = veil id (if c then a' else b') := by
  split <;> assumption

theorem veil_setHeld_snoc (id : Nat) (w : World) (t : Task) (h : t ≠ .st id) :
    ({ veil id w with held := (veil id w).held ++ [t] } : World) = veil id { w with held := w.held ++ [t] } := by
  apply world_ext <;> simp only [veil_cfg, veil_hasCtx, veil_ctxDropped, veil_task, veil_c,
      veil_rx, veil_reader, veil_readerReg, veil_queue, veil_queueReg, veil_handles, veil_ops, veil_slots,
      veil_slotReg, veil_chans, veil_rsps, veil_streams, veil_pidCtr, veil_subCtr, veil_woken, veil_held,
      veil_written, veil_wirePend, veil_out, veil_bad]
  exact (filter_snoc_keep _ _ _ (by simpa using h)).symm

theorem veil_setHeld_filter (id : Nat) (w : World) (t : Task) :
    ({ veil id w with held := (veil id w).held.filter (fun x => decide (x ≠ t)) } : World) =
      veil id { w with held := w.held.filter (fun x => decide (x ≠ t)) } := by
  apply world_ext <;> simp only [veil_cfg, veil_hasCtx, veil_ctxDropped, veil_task, veil_c,
      veil_rx, veil_reader, veil_readerReg, veil_queue, veil_queueReg, veil_handles, veil_ops, veil_slots,
      veil_slotReg, veil_chans, veil_rsps, veil_streams, veil_pidCtr, veil_subCtr, veil_woken, veil_held,
      veil_written, veil_wirePend, veil_out, veil_bad]
  exact filter_filter_comm _ _ _

theorem veil_setStreams_filter (id : Nat) (w : World) (j : Nat) :
    ({ veil id w with streams := (veil id w).streams.filter (fun x => decide (x ≠ j)) } : World) =
      veil id { w with streams := w.streams.filter (fun x => decide (x ≠ j)) } := by
  apply world_ext <;> simp only [veil_cfg, veil_hasCtx, veil_ctxDropped, veil_task, veil_c,
      veil_rx, veil_reader, veil_readerReg, veil_queue, veil_queueReg, veil_handles, veil_ops, veil_slots,
      veil_slotReg, veil_chans, veil_rsps, veil_streams, veil_pidCtr, veil_subCtr, veil_woken, veil_held,
      veil_written, veil_wirePend, veil_out, veil_bad]
  exact filter_filter_comm _ _ _

theorem veil_stream_ev (id : Nat) (w : World) (j : Nat) (h : j ≠ id) :
    ({ veil id w with rsps := (veil id w).rsps.filter (fun x => decide (x ≠ j)),
                      streams := (veil id w).streams ++ [j] } : World) =
      veil id { w with rsps := w.rsps.filter (fun x => decide (x ≠ j)), streams := w.streams ++ [j] } := by
  apply world_ext <;> simp only [veil_cfg, veil_hasCtx, veil_ctxDropped, veil_task, veil_c,
      veil_rx, veil_reader, veil_readerReg, veil_queue, veil_queueReg, veil_handles, veil_ops, veil_slots,
      veil_slotReg, veil_chans, veil_rsps, veil_streams, veil_pidCtr, veil_subCtr, veil_woken, veil_held,
      veil_written, veil_wirePend, veil_out, veil_bad]
  exact (filter_snoc_keep _ _ _ (by simpa using h)).symm

theorem mineStEv_task {id : Nat} {t : Task} :
    (mineStEv id (.poll t) = false → t ≠ .st id) ∧ (mineStEv id (.hold t) = false → t ≠ .st id) ∧
    (mineStEv id (.release t) = false → t ≠ .st id) ∧ (mineStEv id (.drop t) = false → t ≠ .st id) := by
  refine ⟨?_, ?_, ?_, ?_⟩ <;> intro h e <;> subst e <;> simp [mineStEv] at h

/-- **every script event that addresses neither stream `id` nor an operation named `id` commutes with veiling** -/
theorem apply_veil (id) (w : World) (e : Ev) (hm : mineEv id e = false) (hms : mineStEv id e = false)
    (h : SideV id w) : (veil id w).apply e = veil id (w.apply e) := by
  cases e with
  | dropCtx => exact apply_dropCtx_veil id w
  | setup =>
    simp only [World.apply]
    w11_vln
    refine ite_veil_congr id _ (badScript_veil id w) ?_
    refine ite_veil_congr id _ ?_ ?_
    · refine ite_veil_congr id _ (badScript_veil id w) rfl
    · rw [flushRaw_veil]; rfl
  | connect t =>
    simp only [World.apply]
    w11_vln
    refine ite_veil_congr id _ (badScript_veil id w) ?_
    exact wake_veil id { w with task := .connecting .connect t {} false } .ctx (by simp)
  | authorize a =>
    simp only [World.apply]
    w11_vln
    refine ite_veil_congr id _ (badScript_veil id w) ?_
    exact wake_veil id { w with task := .connecting .authorize {} a false } .ctx (by simp)
  | run =>
    simp only [World.apply]
    w11_vln
    refine ite_veil_congr id _ (badScript_veil id w) ?_
    exact wake_veil id { w with task := .running false } .ctx (by simp)
  | dropFut => rfl
  | markDisc secs =>
    simp only [World.apply]
    w11_vln
    exact ite_veil_congr id _ (badScript_veil id w) rfl
  | snap => simp [mineStEv] at hms
  | feed chunks =>
    simp only [World.apply]
    w11_vln
    exact ite_veil_congr id _ (badScript_veil id w) (feedEvents_veil id w _)
  | feedEof =>
    simp only [World.apply]
    w11_vln
    exact ite_veil_congr id _ (badScript_veil id w) (feedEvents_veil id w _)
  | feedErr =>
    simp only [World.apply]
    w11_vln
    exact ite_veil_congr id _ (badScript_veil id w) (feedEvents_veil id w _)
  | op j hd req =>
    rw [apply_op_eq, apply_op_eq, opSt_veil]
    w11_vln
    refine ite_veil_congr id _ (badScript_veil id w) ?_
    have e : addOpW (veil id w) j hd req = veil id (addOpW w j hd req) := rfl
    rw [e]
    exact wake_veil id _ _ (by simp)
  | poll t =>
    have ht : t ≠ .st id := mineStEv_task.1 hms
    have ho : t ≠ .op id := mineEv_task.1 hm
    simp only [World.apply, taskLive_veil id w t ht]
    split
    · exact pollTask_veil id w t ht ho h.ctxOK
    · rfl
  | hold t =>
    have ht : t ≠ .st id := mineStEv_task.2.1 hms
    simp only [World.apply]
    have e2 : t ∈ (veil id w).held ↔ t ∈ w.held := mem_held_veil id w t ht
    simp only [e2]
    split
    · rfl
    · exact veil_setHeld_snoc id w t ht
  | release t => exact veil_setHeld_filter id w t
  | drop t =>
    have ht : t ≠ .st id := mineStEv_task.2.2.2 hms
    have ho : t ≠ .op id := mineEv_task.2.2.2 hm
    cases t with
    | ctx => rfl
    | op j => exact dropOp_veil id w j (fun e => ho (by rw [e]))
    | st j =>
      have hj : j ≠ id := fun e => ht (by rw [e])
      simp only [World.apply]
      have e2 : j ∈ (veil id w).streams ↔ j ∈ w.streams := mem_streams_veil id w j hj
      simp only [e2]
      refine ite_veil_congr id _ ?_ rfl
      rw [veil_setStreams_filter, dropChanRx_veil id _ j hj]
  | dropRsp j =>
    have hj : j ≠ id := by simpa [mineStEv] using hms
    simp only [World.apply]
    w11_vln
    refine ite_veil_congr id _ ?_ rfl
    exact dropChanRx_veil id { w with rsps := w.rsps.filter (fun x => decide (x ≠ j)) } j hj
  | stream j =>
    have hj : j ≠ id := by simpa [mineStEv] using hms
    simp only [World.apply]
    refine ite_veil_congr id _ (badScript_veil id w) ?_
    rw [veil_stream_ev id w j hj]
    exact wake_veil id _ _ (by intro e; cases e; exact hj rfl)
  | clone a b =>
    simp only [World.apply]
    w11_vln
    exact ite_veil_congr id _ (badScript_veil id w) rfl
  | dropHandle x =>
    simp only [World.apply]
    w11_vln
    refine ite_veil_congr id _ (badScript_veil id w) ?_
    exact senderGone_veil id { w with handles := w.handles.filter (fun y => decide (y ≠ x)) }

end W11
end World
end Poster
