/-
  Lemmas/WorldFuelPanic.lean — the panics a whole script can log, and where the documented assertion can come from.

  Two facts are carried together through `pollTask`, `apply`, `drain`, `sweep`, `step`, `List.foldl step` and `flushRaw`
  (the relation `W5Trk`):
  * every observation added is `PanicDoc`: no panic, or one of the three panics the model has at all;
  * for a fixed proposition `P`, the invariant `ConnOnlyIf P`: "the context task is the `connect()` / `authorize()` future, or the
    documented assertion `PANIC ctx assert-subid` is in the transcript, only if `P`" — preserved by every event `e`
    provided `P` holds whenever `e` is a `connect` / `authorize` event.
-/
import PosterModel.Lemmas.WorldReach
import PosterModel.Properties.C04
import PosterModel.Lemmas.WorldOpsEx

set_option linter.unusedVariables false
set_option linter.unusedSimpArgs false

namespace Poster
open Framing
namespace World

/-- the only panics the model can log at all -/
def PanicDoc (o : Obs) : Prop :=
  ∀ t cls, o = .panic t cls →
    (t = .ctx ∧ (cls = "assert-subid" ∨ cls = "other")) ∨ (∃ id, t = .op id ∧ cls = "unreachable")

theorem panicDoc_of_calm {o : Obs} (h : Obs.calm o) : PanicDoc o := fun t cls e => absurd e (h t cls)

/-- the context task is the `connect()` / `authorize()` future -/
def IsConn (w : World) : Prop := ∃ call t a st, w.task = .connecting call t a st

/-- the event creates a `connect()` / `authorize()` future -/
def ConnEv (e : Ev) : Prop := (∃ t, e = .connect t) ∨ (∃ a, e = .authorize a)

/-- "connecting, or the assertion was logged, only if `P`" -/
def ConnOnlyIf (P : Prop) (w : World) : Prop := (IsConn w ∨ Obs.panic .ctx "assert-subid" ∈ w.out) → P

/-- `w'` extends the transcript of `w` by documented observations only, and keeps `ConnOnlyIf P` -/
def W5Trk (P : Prop) (w w' : World) : Prop := OutExtP PanicDoc w w' ∧ (ConnOnlyIf P w → ConnOnlyIf P w')

theorem w5_trk_refl (P : Prop) (w : World) : W5Trk P w w := ⟨outExtP_refl _ _, id⟩
theorem w5_trk_trans {P : Prop} {a b c : World} (h1 : W5Trk P a b) (h2 : W5Trk P b c) : W5Trk P a c :=
  ⟨outExtP_trans h1.1 h2.1, fun h => h2.2 (h1.2 h)⟩

/-- only calm observations added, and not connecting afterwards unless connecting before -/
theorem w5_trk_of_calm {P : Prop} {w w' : World} (ho : OutExtP Obs.calm w w') (ht : IsConn w' → IsConn w) :
    W5Trk P w w' := by
  refine ⟨outExtP_mono ho (fun o => panicDoc_of_calm), fun hj h => ?_⟩
  rcases h with h | h
  · exact hj (Or.inl (ht h))
  · obtain ⟨added, e, hc⟩ := ho
    rw [e] at h
    rcases List.mem_append.mp h with h | h
    · exact hj (Or.inr h)
    · exact absurd rfl (hc _ h .ctx "assert-subid")

theorem w5_trk_of_eq {P : Prop} {w w' : World} (ho : w'.out = w.out) (ht : w'.task = w.task) : W5Trk P w w' :=
  w5_trk_of_calm (outExtP_of_eq ho) (by rintro ⟨c, t, a, s, h⟩; exact ⟨c, t, a, s, ht ▸ h⟩)

theorem w5_trk_of_none {P : Prop} {w w' : World} (ho : OutExtP Obs.calm w w') (ht : w'.task = .none) : W5Trk P w w' :=
  w5_trk_of_calm ho (by rintro ⟨c, t, a, s, h⟩; rw [ht] at h; cases h)

theorem w5_trk_of_P {P : Prop} {w w' : World} (ho : OutExtP Obs.calm w w') (hp : P) : W5Trk P w w' :=
  ⟨outExtP_mono ho (fun o => panicDoc_of_calm), fun _ _ => hp⟩

theorem w5_trk_emit {P : Prop} (w : World) (o : Obs) (ho : Obs.calm o) : W5Trk P w (w.emit o) :=
  w5_trk_of_calm (outExtP_one o rfl ho) (by rintro ⟨c, t, a, s, h⟩; exact ⟨c, t, a, s, by simpa using h⟩)

/-! ### the context task is touched by the context future and by five script events only -/

theorem w5_sendMsg_task {w w' : World} {m : Msg} (h : w.sendMsg m = some w') : w'.task = w.task := by
  rw [sendMsg_eq] at h
  split at h
  · simp only [Option.some.injEq] at h; subst h; rfl
  · cases h

theorem w5_sendAwait_task (w0 : World) (m : Msg) (id s : Nat) (k : Wait) (r : DoneRes) :
    (match w0.sendMsg m with
      | none => w0.finishOp id r
      | some w1 => w1.awaitSlot id s k).task = w0.task := by
  cases hm : w0.sendMsg m with
  | none => simp
  | some w1 => simp [w5_sendMsg_task hm]

theorem w5_startOp_task (w : World) (id : Nat) (req : Req) : (w.startOp id req).task = w.task := by
  cases req with
  | publish t =>
    simp only [startOp]
    split
    · split
      · simp
      · exact w5_sendAwait_task _ _ _ _ _ _
    · split
      · simp
      · exact w5_sendAwait_task _ _ _ _ _ _
  | subscribe t =>
    simp only [startOp]
    split
    · simp
    · cases hm : World.sendMsg _ _ with
      | none => simp
      | some w1 => simp [w5_sendMsg_task hm]
  | unsubscribe t =>
    simp only [startOp]
    split
    · simp
    · exact w5_sendAwait_task _ _ _ _ _ _
  | ping => simp only [startOp]; exact w5_sendAwait_task _ _ _ _ _ _
  | disconnect t => simp only [startOp]; exact w5_sendAwait_task _ _ _ _ _ _

theorem w5_resumeOp_task (w : World) (id s : Nat) (k : Wait) (v : SlotVal) :
    (w.resumeOp id s k v).task = w.task := by
  cases v with
  | errSize => simp [resumeOp]
  | errQuota => simp [resumeOp]
  | unit => simp only [resumeOp]; split <;> simp
  | pkt p =>
    cases k <;> cases p <;> simp only [resumeOp] <;> (try split) <;> (try simp) <;>
      first | done | exact w5_sendAwait_task _ _ _ _ _ _

theorem w5_pollOp_task (w : World) (id : Nat) : (w.pollOp id).task = w.task := by
  unfold pollOp
  split
  · rfl
  · exact w5_startOp_task _ _ _
  · split
    · exact w5_resumeOp_task _ _ _ _ _
    · simp
    · rfl

theorem w5_pollStream_task (w : World) (id : Nat) : (w.pollStream id).task = w.task := by
  unfold pollStream
  split
  · rfl
  · split
    · rfl
    · split
      · simp
      · split
        · simp
        · simp

theorem w5_dropOp_task (w : World) (id : Nat) : (w.dropOp id).task = w.task := by
  unfold dropOp
  split
  · rfl
  · simp
  · rename_i s k _; cases k <;> simp [clearSlot, dropChanRx]

/-- a poll of the `run()` loop leaves the task alone or ends it -/
theorem w5_runLoop_task (f : Nat) (w : World) : (runLoop f w).task = w.task ∨ (runLoop f w).task = .none := by
  obtain ⟨wm, hs, he⟩ := runLoop_decomp f w
  have hm := (serve_frame hs).1
  rcases he with he | he
  · rw [he]; exact Or.inl hm
  · rcases runEnd_out he with ⟨h, _⟩ | ⟨h, _⟩
    · exact Or.inr h
    · exact Or.inl (h.trans hm)

/-- a poll of the context future never turns a task that is not connecting into a connecting one -/
theorem w5_pollCtx_conn (w : World) (h : IsConn w.pollCtx) : IsConn w := by
  unfold pollCtx at h
  cases ht : w.task with
  | none => rw [ht] at h; obtain ⟨c, t, a, s, h⟩ := h; simp only [ht] at h; cases h
  | connecting call t a started => exact ⟨call, t, a, started, ht⟩
  | running started =>
    exfalso
    rw [ht] at h
    simp only at h
    obtain ⟨c, t, a, s, h⟩ := h
    cases started with
    | true =>
      simp only [pollRun, ↓reduceIte] at h
      rcases w5_runLoop_task w.loopFuel w with h1 | h1
      · rw [h1, ht] at h; cases h
      · rw [h1] at h; cases h
    | false =>
      obtain ⟨w0, _, _, _, _, _, a6, _, h2 | h2⟩ := pollRun_prelude w
      · rw [h2] at h
        rcases w5_runLoop_task w0.loopFuel w0 with h1 | h1
        · rw [h1, a6] at h; cases h
        · rw [h1] at h; cases h
      · rw [h2] at h; simp at h

theorem w5_pollTask_conn (w : World) (t : Task) (h : IsConn (w.pollTask t)) : IsConn w := by
  cases t with
  | ctx =>
    obtain ⟨c, tx, a, s, h0⟩ := w5_pollCtx_conn (w.unwake .ctx) h
    exact ⟨c, tx, a, s, by simpa using h0⟩
  | op id =>
    obtain ⟨c, tx, a, s, h0⟩ := h
    exact ⟨c, tx, a, s, by simpa [pollTask, w5_pollOp_task] using h0⟩
  | st id =>
    obtain ⟨c, tx, a, s, h0⟩ := h
    exact ⟨c, tx, a, s, by simpa [pollTask, w5_pollStream_task] using h0⟩

/-! ### one poll of any task -/

theorem w5_pollTask_doc (w : World) (t : Task) : OutExtP PanicDoc w (w.pollTask t) := by
  obtain ⟨added, e, h⟩ := world_panics_enumerated w t
  refine ⟨added, e, fun o ho tk cls eo => ?_⟩
  subst eo
  rcases h tk cls ho with ⟨_, h2, h3, _⟩ | ⟨_, h2, h3, _⟩ | ⟨id, _, _, _, _, h2, h3, _⟩
  · exact Or.inl ⟨h2, Or.inl h3⟩
  · exact Or.inl ⟨h2, Or.inr h3⟩
  · exact Or.inr ⟨id, h2, h3⟩

theorem w5_pollTask_trk (P : Prop) (w : World) (t : Task) : W5Trk P w (w.pollTask t) := by
  refine ⟨w5_pollTask_doc w t, fun hj h => ?_⟩
  rcases h with h | h
  · exact hj (Or.inl (w5_pollTask_conn w t h))
  · obtain ⟨added, e, hen⟩ := world_panics_enumerated w t
    rw [e] at h
    rcases List.mem_append.mp h with h | h
    · exact hj (Or.inr h)
    · rcases hen _ _ h with ⟨_, _, _, call, tx, a, st, _, _, _, _, ht, _⟩ | ⟨_, _, h3, _⟩ | ⟨_, _, _, _, _, h2, _⟩
      · exact hj (Or.inl ⟨call, tx, a, st, ht⟩)
      · simp at h3
      · cases h2

/-! ### script events -/

theorem w5_calm_badscript : Obs.calm .badscript := by intro t c h; cases h

theorem w5_badScript_trk (P : Prop) (w : World) : W5Trk P w w.badScript :=
  w5_trk_of_calm (outExtP_one .badscript rfl w5_calm_badscript)
    (by rintro ⟨c, t, a, s, h⟩; exact ⟨c, t, a, s, h⟩)

theorem w5_flushRaw_trk (P : Prop) (w : World) : W5Trk P w w.flushRaw := by
  unfold flushRaw
  split
  · exact w5_trk_refl P w
  · exact w5_trk_of_calm (outExtP_one (.wraw w.wirePend) rfl (by intro t c h; cases h))
      (by rintro ⟨c, t, a, s, h⟩; exact ⟨c, t, a, s, h⟩)

theorem w5_feedEvents_trk (P : Prop) (w : World) (evs : List ReadEv) : W5Trk P w (w.feedEvents evs) := by
  unfold feedEvents
  simp only
  split <;> exact w5_trk_of_eq (by simp) (by simp)

theorem w5_dropCtx_task (w : World) : (w.apply .dropCtx).task = .none := by
  cases hc : w.hasCtx with
  | false => simp [apply, hc]
  | true =>
    rw [apply_dropCtx w hc]
    have inv := closes_inv (closes_dropCtxClosed w)
    show (dropCtxClosed w).task = .none
    rw [inv.task_eq]; rfl

theorem w5_dropCtx_out (w : World) : (w.apply .dropCtx).out = w.out := by
  cases hc : w.hasCtx with
  | false => simp [apply, hc]
  | true =>
    rw [apply_dropCtx w hc]
    have inv := closes_inv (closes_dropCtxClosed w)
    show (dropCtxClosed w).out = w.out
    rw [inv.out_eq]; rfl

/-- **one script event** (before the executor runs) -/
theorem w5_apply_trk (P : Prop) (w : World) (e : Ev) (hp : ConnEv e → P) : W5Trk P w (w.apply e) := by
  cases e with
  | setup =>
    simp only [apply]
    split
    · exact w5_badScript_trk P w
    · split
      · split
        · exact w5_badScript_trk P w
        · exact w5_trk_of_eq rfl rfl
      · exact w5_trk_trans (w5_flushRaw_trk P w) (w5_trk_of_eq rfl rfl)
  | connect t =>
    have p : P := hp (Or.inl ⟨t, rfl⟩)
    simp only [apply]; split
    · exact w5_badScript_trk P w
    · exact w5_trk_of_P (outExtP_of_eq (by simp)) p
  | authorize a =>
    have p : P := hp (Or.inr ⟨a, rfl⟩)
    simp only [apply]; split
    · exact w5_badScript_trk P w
    · exact w5_trk_of_P (outExtP_of_eq (by simp)) p
  | run =>
    simp only [apply]; split
    · exact w5_badScript_trk P w
    · exact w5_trk_of_calm (outExtP_of_eq (by simp)) (by rintro ⟨c, t, a, s, h⟩; simp at h)
  | dropFut => exact w5_trk_of_none (outExtP_of_eq rfl) rfl
  | dropCtx => exact w5_trk_of_none (outExtP_of_eq (w5_dropCtx_out w)) (w5_dropCtx_task w)
  | markDisc secs =>
    simp only [apply]; split
    · exact w5_badScript_trk P w
    · exact w5_trk_of_eq rfl rfl
  | snap =>
    simp only [apply]; split
    · exact w5_badScript_trk P w
    · exact w5_trk_emit w _ (by intro t c h; cases h)
  | feed chunks =>
    simp only [apply]; split
    · exact w5_badScript_trk P w
    · exact w5_feedEvents_trk P w _
  | feedEof =>
    simp only [apply]; split
    · exact w5_badScript_trk P w
    · exact w5_feedEvents_trk P w _
  | feedErr =>
    simp only [apply]; split
    · exact w5_badScript_trk P w
    · exact w5_feedEvents_trk P w _
  | op id h req =>
    simp only [apply]; split
    · exact w5_badScript_trk P w
    · exact w5_trk_of_eq (by simp) (by simp)
  | poll t =>
    simp only [apply]; split
    · exact w5_pollTask_trk P w t
    · exact w5_trk_refl P w
  | hold t =>
    simp only [apply]; split
    · exact w5_trk_refl P w
    · exact w5_trk_of_eq rfl rfl
  | release t => exact w5_trk_of_eq rfl rfl
  | drop t =>
    cases t with
    | ctx => exact w5_trk_refl P w
    | op id => exact w5_trk_of_eq (dropOp_rx_out w id).2 (w5_dropOp_task w id)
    | st id =>
      simp only [apply]; split
      · exact w5_trk_of_eq rfl rfl
      · exact w5_trk_refl P w
  | dropRsp id =>
    simp only [apply]; split
    · exact w5_trk_of_eq rfl rfl
    · exact w5_trk_refl P w
  | stream id =>
    simp only [apply]; split
    · exact w5_badScript_trk P w
    · exact w5_trk_of_eq (by simp) (by simp)
  | clone h h2 =>
    simp only [apply]; split
    · exact w5_badScript_trk P w
    · exact w5_trk_of_eq rfl rfl
  | dropHandle h =>
    simp only [apply]; split
    · exact w5_badScript_trk P w
    · exact w5_trk_of_eq (by simp) (by simp)

/-! ### the executor, whole scripts -/

theorem w5_drain_trk (P : Prop) (f : Nat) (w : World) : W5Trk P w (drain f w) := by
  induction f generalizing w with
  | zero => exact w5_trk_refl P w
  | succ f ih =>
    simp only [drain]
    split
    · exact w5_trk_refl P w
    · rename_i t _
      exact w5_trk_trans (w5_pollTask_trk P w t) (ih _)

theorem w5_sweep_trk (P : Prop) (w : World) : W5Trk P w w.sweep := by
  unfold sweep
  simp only
  generalize ([Task.ctx] ++ List.map Task.op (sortNat (List.map (fun x => x.1) w.ops)) ++
    List.map Task.st (sortNat w.streams)) = tasks
  suffices h : ∀ (l : List Task) (w0 : World),
      W5Trk P w0 (l.foldl (fun w t => if w.taskLive t ∧ t ∉ w.woken ∧ t ∉ w.held then w.pollTask t else w) w0) from
    h tasks w
  intro l
  induction l with
  | nil => intro w0; exact w5_trk_refl P w0
  | cons t rest ih =>
    intro w0
    simp only [List.foldl_cons]
    split
    · exact w5_trk_trans (w5_pollTask_trk P w0 t) (ih _)
    · exact ih _

/-- **one script event with everything the executor does after it** -/
theorem w5_step_trk (P : Prop) (w : World) (e : Ev) (hp : ConnEv e → P) : W5Trk P w (w.step e) := by
  unfold step
  split
  · exact w5_trk_refl P w
  · have h0 : W5Trk P w (w.emit (.ev e)) := w5_trk_emit w _ (by intro t c h; cases h)
    have h1 : W5Trk P w ((w.emit (.ev e)).apply e) := w5_trk_trans h0 (w5_apply_trk P _ e hp)
    generalize (w.emit (.ev e)).apply e = w1 at h1 ⊢
    simp only
    split
    · exact h1
    · have h2 : W5Trk P w (drain w1.drainFuel w1) := w5_trk_trans h1 (w5_drain_trk P w1.drainFuel w1)
      generalize drain w1.drainFuel w1 = w2 at h2 ⊢
      have h3 : W5Trk P w (if w2.cfg.sweep = true then drain w2.sweep.drainFuel w2.sweep else w2) := by
        split
        · exact w5_trk_trans (w5_trk_trans h2 (w5_sweep_trk P w2)) (w5_drain_trk P w2.sweep.drainFuel w2.sweep)
        · exact h2
      generalize (if w2.cfg.sweep = true then drain w2.sweep.drainFuel w2.sweep else w2) = w3 at h3 ⊢
      split
      · exact w5_trk_trans h3 (w5_trk_emit _ _ (by intro t c h; cases h))
      · exact h3

theorem w5_steps_trk (P : Prop) (evs : List Ev) (w : World) (hp : ∀ e ∈ evs, ConnEv e → P) :
    W5Trk P w (evs.foldl step w) := by
  induction evs generalizing w with
  | nil => exact w5_trk_refl P w
  | cons e t ih =>
    simp only [List.foldl_cons]
    exact w5_trk_trans (w5_step_trk P w e (hp e (by simp))) (ih _ (fun e' he' => hp e' (by simp [he'])))

/-- the whole run, from the initial world to the end-of-script flush -/
theorem w5_run_trk (P : Prop) (cfg : Cfg) (evs : List Ev) (hp : ∀ e ∈ evs, ConnEv e → P) :
    W5Trk P { cfg := cfg } (evs.foldl step { cfg := cfg }).finishScript :=
  w5_trk_trans (w5_steps_trk P evs _ hp) (w5_flushRaw_trk P _)

/-- the threading of `OutExtP PanicDoc` alone, for reference -/
theorem w5_apply_doc (w : World) (e : Ev) : OutExtP PanicDoc w (w.apply e) := (w5_apply_trk True w e (fun _ => trivial)).1
theorem w5_drain_doc (f : Nat) (w : World) : OutExtP PanicDoc w (drain f w) := (w5_drain_trk True f w).1
theorem w5_sweep_doc (w : World) : OutExtP PanicDoc w w.sweep := (w5_sweep_trk True w).1
theorem w5_step_doc (w : World) (e : Ev) : OutExtP PanicDoc w (w.step e) := (w5_step_trk True w e (fun _ => trivial)).1
theorem w5_steps_doc (evs : List Ev) (w : World) : OutExtP PanicDoc w (evs.foldl step w) :=
  (w5_steps_trk True evs w (fun _ _ _ => trivial)).1
theorem w5_flushRaw_doc (w : World) : OutExtP PanicDoc w w.flushRaw := (w5_flushRaw_trk True w).1

/-- **every panic in every transcript is one of the three the model can log** -/
theorem run_panics_doc (cfg : Cfg) (evs : List Ev) : ∀ o ∈ World.run cfg evs, PanicDoc o := by
  obtain ⟨added, e, hP⟩ := (w5_run_trk True cfg evs (fun _ _ _ => trivial)).1
  unfold World.run
  rw [e]
  simp only [List.nil_append]
  exact hP

/-- **the documented assertion is logged only by scripts that call `connect()` / `authorize()`** -/
theorem run_assert_needs_connEv (cfg : Cfg) (evs : List Ev)
    (h : Obs.panic .ctx "assert-subid" ∈ World.run cfg evs) : ∃ e ∈ evs, ConnEv e := by
  have tr := w5_run_trk (∃ e ∈ evs, ConnEv e) cfg evs (fun e he hc => ⟨e, he, hc⟩)
  refine tr.2 ?_ (Or.inr h)
  rintro (⟨c, t, a, s, h0⟩ | h0)
  · cases h0
  · simp at h0

/-! ### a concrete script that logs the documented assertion (used by the non-vacuity examples of Properties/C04World.lean) -/

theorem w5_mem_out_of_outExtP {P : Obs → Prop} {w w' : World} {o : Obs} (h : OutExtP P w w') (ho : o ∈ w.out) :
    o ∈ w'.out := by
  obtain ⟨added, e, _⟩ := h
  rw [e]; exact List.mem_append_left _ ho

/-- the transcript after an event extends the transcript of the first drain (when the script is not rejected) -/
theorem w5_step_after_drain (w : World) (e : Ev) (hb : w.bad = false)
    (hab : ((w.emit (.ev e)).apply e).bad = false) :
    OutExtP PanicDoc (drain ((w.emit (.ev e)).apply e).drainFuel ((w.emit (.ev e)).apply e)) (w.step e) := by
  unfold step
  simp only [hb, Bool.false_eq_true, ↓reduceIte, hab]
  generalize drain ((w.emit (.ev e)).apply e).drainFuel ((w.emit (.ev e)).apply e) = w2
  have h3 : OutExtP PanicDoc w2 (if w2.cfg.sweep = true then drain w2.sweep.drainFuel w2.sweep else w2) := by
    split
    · exact outExtP_trans (w5_sweep_doc w2) (w5_drain_doc _ _)
    · exact outExtP_refl _ _
  generalize (if w2.cfg.sweep = true then drain w2.sweep.drainFuel w2.sweep else w2) = w3 at h3 ⊢
  split
  · exact outExtP_trans h3 (outExtP_one .stall rfl (panicDoc_of_calm (by intro t c h; cases h)))
  · exact h3

/-- `connect()` / `authorize()` polled for the first time on a transport that takes the request, with the
    CONNACK announcing no subscription-identifier support already readable: the request is written and the
    assertion fires in the same poll -/
theorem w5_pollConnect_first_assert (w : World) (call : Call) (tx : ConnectTx) (a : AuthTx) (rx' : Rx)
    (rd' : List ReadEv) (fr : Bytes) (k : ConnackRx) (hv : reqValid call tx a = true) (hw : w.cfg.wlimit = none)
    (hp : pollNext w.rx w.reader = (rx', rd', .item fr)) (hd : decodeRx fr = .ok (.connack k))
    (hk : k.reason < 128) (hs : k.subIdAvail = false) :
    ∃ pre, (w.pollConnect call tx a false).out = w.out ++ pre ++ [.panic .ctx "assert-subid"] := by
  have key : ∀ (w0 : World) (pkt : Bytes), w0.rx = w.rx → w0.reader = w.reader → w0.out = w.out →
      ∃ pre, ((w0.writeBytes pkt).awaitFirst call tx a).out = w.out ++ pre ++ [.panic .ctx "assert-subid"] := by
    intro w0 pkt h1 h2 h3
    have e := (awaitFirst_panics (w0.writeBytes pkt) call tx a).1.mpr
      ⟨rx', rd', fr, k, by simpa [h1, h2] using hp, hd, hk, hs⟩
    obtain ⟨pre, _, e2⟩ := writeBytes_outExt w0 pkt
    exact ⟨pre, by rw [e, e2, h3]⟩
  cases call with
  | connect =>
    simp only [reqValid] at hv
    simp only [pollConnect, Bool.false_eq_true, ↓reduceIte, hv, Bool.not_true, canWrite, hw]
    exact key _ _ rfl rfl rfl
  | authorize =>
    simp only [reqValid] at hv
    simp only [pollConnect, Bool.false_eq_true, ↓reduceIte, hv, Bool.not_true, canWrite, hw]
    exact key _ _ rfl rfl rfl
  | run =>
    simp only [reqValid] at hv
    simp only [pollConnect, Bool.false_eq_true, ↓reduceIte, hv, Bool.not_true, canWrite, hw]
    exact key _ _ rfl rfl rfl

/-- `SETUP`, the broker's CONNACK (no subscription-identifier support) already readable, then `connect()` -/
def evsAssert : List Ev := [.setup, .feed [Ex.connackNoSubId], .connect {}]

def w5_a2 : World :=
  { s1 with reader := [.data Ex.connackNoSubId], out := s1.out ++ [.ev (.feed [Ex.connackNoSubId])] }
def w5_a3 : World :=
  { w5_a2 with task := .connecting .connect {} {} false, woken := [.ctx], out := w5_a2.out ++ [.ev (.connect {})] }

theorem w5_stage2 : s1.step (.feed [Ex.connackNoSubId]) = w5_a2 := by decide
theorem w5_stage3 : (w5_a2.emit (.ev (.connect {}))).apply (.connect {}) = w5_a3 := by decide

theorem evsAssert_panics : Obs.panic .ctx "assert-subid" ∈ World.run {} evsAssert := by
  show _ ∈ (((({} : World).step .setup).step (.feed [Ex.connackNoSubId])).step (.connect {})).finishScript.out
  rw [stage1, w5_stage2]
  refine w5_mem_out_of_outExtP (w5_flushRaw_doc _) ?_
  refine w5_mem_out_of_outExtP (w5_step_after_drain w5_a2 _ (by decide) (by decide)) ?_
  rw [w5_stage3, drain_pick _ _ .ctx (by decide) (by decide)]
  refine w5_mem_out_of_outExtP (w5_drain_doc _ _) ?_
  obtain ⟨pre, e⟩ := w5_pollConnect_first_assert (w5_a3.unwake .ctx) .connect {} {} {} [] Ex.connackNoSubId Ex.kNoSubId
    (by decide) (by decide) Ex.pn_connackNoSubId Ex.dec_connackNoSubId (by decide) rfl
  have : w5_a3.pollTask .ctx = (w5_a3.unwake .ctx).pollConnect .connect {} {} false := rfl
  rw [this, e]
  simp

end World
end Poster
