/-
  Lemmas/WorldOwnCtx.lean — the context never loses a sender silently. Every handler (`handleMsg`, `handlePkt`,
  the prelude `resume`) either keeps a oneshot sender it was given (in `awaiting`), or completes it (`Eff.send`),
  or drops it explicitly (`Eff.dropSlot`); likewise for subscription senders (`subs` / `Eff.dropChan`).
  `Hand w w'` lifts this to worlds: `w'` is `w` after some activity of the context task.
-/
import PosterModel.Lemmas.WorldOwnAct
import PosterModel.Lemmas.UserCtx

set_option linter.unusedVariables false
set_option linter.unusedSimpArgs false

namespace Poster
open Framing

/-- the effects complete the oneshot `s` or drop its sender -/
def Settles (es : List Eff) (s : Nat) : Prop := (∃ v, Eff.send s v ∈ es) ∨ Eff.dropSlot s ∈ es

theorem mem_eraseFirst_or {β} (k a : Nat) (b : β) (l : List (Nat × β)) (h : (a, b) ∈ l) :
    (a, b) ∈ eraseFirst k l ∨ (a = k ∧ lookupFirst k l = some b) := by
  induction l with
  | nil => simp at h
  | cons x t ih =>
    obtain ⟨a', b'⟩ := x
    rw [eraseFirst_cons]
    simp only [lookupFirst]
    simp only [List.mem_cons, Prod.mk.injEq] at h
    by_cases hk : a' = k
    · simp only [hk, ↓reduceIte]
      rcases h with ⟨h1, h2⟩ | h
      · right; exact ⟨h1.trans hk, by rw [h2]⟩
      · left; exact h
    · simp only [hk, ↓reduceIte]
      rcases h with ⟨h1, h2⟩ | h
      · left; rw [h1, h2]; exact List.mem_cons_self
      · rcases ih h with h | h
        · left; exact List.mem_cons_of_mem _ h
        · right; exact h

namespace Ctx

/-! ## the handlers, oneshot senders -/

theorem complete_slots (c : Ctx) (aid : Nat) (p : RxPacket) (s : Nat) (h : ∃ e ∈ c.awaiting, e.2 = s) :
    (∃ e ∈ (c.complete aid p).1.awaiting, e.2 = s) ∨ Settles (c.complete aid p).2 s := by
  obtain ⟨⟨a, b⟩, he, rfl⟩ := h
  rw [complete_fst, complete_snd]
  rcases mem_eraseFirst_or aid a b c.awaiting he with h | ⟨_, h⟩
  · exact Or.inl ⟨(a, b), h, rfl⟩
  · right; rw [h]; exact Or.inl ⟨_, List.mem_singleton.mpr rfl⟩

theorem complete_subs' (c : Ctx) (aid : Nat) (p : RxPacket) : (c.complete aid p).1.subs = c.subs := by
  rw [complete_fst]

theorem complete_noDropChan (c : Ctx) (aid : Nat) (p : RxPacket) (ch : Nat) :
    Eff.dropChan ch ∉ (c.complete aid p).2 := by
  rw [complete_snd]; split <;> simp

/-- what `handleMsg` does with the oneshot sender of the message: completes or drops it, or files it in `awaiting` -/
theorem handleMsg_awaiting (c : Ctx) (m : Msg) (wok : Bool) :
    ((c.handleMsg m wok).1.awaiting = c.awaiting ∧ Settles (c.handleMsg m wok).2.1 m.slot) ∨
    (∃ aid, (c.handleMsg m wok).1.awaiting = c.awaiting ++ [(aid, m.slot)]) := by
  cases m with
  | ff pkt slot =>
    simp only [handleMsg, Msg.slot]
    split
    · exact Or.inl ⟨rfl, Or.inl ⟨.errSize, by simp⟩⟩
    · split
      · exact Or.inl ⟨rfl, Or.inr (by simp)⟩
      · exact Or.inl ⟨rfl, Or.inl ⟨.unit, by simp⟩⟩
  | awaitAck aid pkt slot =>
    simp only [handleMsg, Msg.slot]
    split
    · exact Or.inl ⟨rfl, Or.inl ⟨.errSize, by simp⟩⟩
    · split
      · split
        · exact Or.inl ⟨rfl, Or.inl ⟨.errQuota, by simp⟩⟩
        · split
          · exact Or.inl ⟨rfl, Or.inr (by simp)⟩
          · exact Or.inr ⟨_, rfl⟩
      · split
        · split
          · exact Or.inl ⟨rfl, Or.inr (by simp)⟩
          · exact Or.inr ⟨_, rfl⟩
        · split
          · exact Or.inl ⟨rfl, Or.inr (by simp)⟩
          · exact Or.inr ⟨_, rfl⟩
  | subscribe aid subId pkt slot chan =>
    simp only [handleMsg, Msg.slot]
    split
    · exact Or.inl ⟨rfl, Or.inl ⟨.errSize, by simp⟩⟩
    · exact Or.inr ⟨_, rfl⟩

theorem handleMsg_slots (c : Ctx) (m : Msg) (wok : Bool) (s : Nat)
    (h : m.slot = s ∨ ∃ e ∈ c.awaiting, e.2 = s) :
    (∃ e ∈ (c.handleMsg m wok).1.awaiting, e.2 = s) ∨ Settles (c.handleMsg m wok).2.1 s := by
  rcases handleMsg_awaiting c m wok with ⟨e1, e2⟩ | ⟨aid, e1⟩
  · rcases h with rfl | ⟨e, he, hs⟩
    · exact Or.inr e2
    · exact Or.inl ⟨e, by rw [e1]; exact he, hs⟩
  · rcases h with rfl | ⟨e, he, hs⟩
    · exact Or.inl ⟨(aid, m.slot), by rw [e1]; simp, rfl⟩
    · exact Or.inl ⟨e, by rw [e1]; exact List.mem_append_left _ he, hs⟩

/-- the subscription sender a message carries -/
def _root_.Poster.Msg.chan? : Msg → Option Nat
  | .subscribe _ _ _ _ ch => some ch
  | _ => none

/-- what `handleMsg` does with the subscription sender of a SUBSCRIBE: drops it, or files it in `subs` -/
theorem handleMsg_subs (c : Ctx) (m : Msg) (wok : Bool) :
    ((c.handleMsg m wok).1.subs = c.subs ∧ ∀ ch, m.chan? = some ch → Eff.dropChan ch ∈ (c.handleMsg m wok).2.1) ∨
    (∃ sid ch, m.chan? = some ch ∧ (c.handleMsg m wok).1.subs = c.subs ++ [(sid, ch)]) := by
  cases m with
  | ff pkt slot =>
    left
    refine ⟨?_, fun ch h => by simp [Msg.chan?] at h⟩
    simp only [handleMsg]
    split
    · rfl
    · split <;> rfl
  | awaitAck aid pkt slot =>
    left
    refine ⟨?_, fun ch h => by simp [Msg.chan?] at h⟩
    simp only [handleMsg]
    split
    · rfl
    · split
      · split
        · rfl
        · split <;> rfl
      · split
        · split <;> rfl
        · split <;> rfl
  | subscribe aid subId pkt slot chan =>
    simp only [handleMsg, Msg.chan?]
    split
    · left; exact ⟨rfl, fun ch h => by simp only [Option.some.injEq] at h; subst h; simp⟩
    · right; exact ⟨_, _, rfl, rfl⟩

theorem handleMsg_chans (c : Ctx) (m : Msg) (wok : Bool) (ch : Nat)
    (h : m.chan? = some ch ∨ ∃ e ∈ c.subs, e.2 = ch) :
    (∃ e ∈ (c.handleMsg m wok).1.subs, e.2 = ch) ∨ Eff.dropChan ch ∈ (c.handleMsg m wok).2.1 := by
  rcases handleMsg_subs c m wok with ⟨e1, e2⟩ | ⟨sid, ch', hm, e1⟩
  · rcases h with h | ⟨e, he, hs⟩
    · exact Or.inr (e2 ch h)
    · exact Or.inl ⟨e, by rw [e1]; exact he, hs⟩
  · rcases h with h | ⟨e, he, hs⟩
    · rw [hm] at h; simp only [Option.some.injEq] at h; subst h
      exact Or.inl ⟨(sid, ch'), by rw [e1]; simp, rfl⟩
    · exact Or.inl ⟨e, by rw [e1]; exact List.mem_append_left _ he, hs⟩

/-- the PUBLISH dispatch loop drops the sender of every subscription it removes -/
theorem dispatch_chans (alive : Nat → Bool) (p : PublishRx) (sids : List Nat) (subs : List (Nat × Nat)) (ch : Nat)
    (h : ∃ e ∈ subs, e.2 = ch) :
    (∃ e ∈ (dispatch alive p sids subs).1, e.2 = ch) ∨ Eff.dropChan ch ∈ (dispatch alive p sids subs).2 := by
  induction sids generalizing subs with
  | nil => exact Or.inl h
  | cons sid rest ih =>
    cases hl : lookupFirst sid subs with
    | none => rw [User.dispatch_cons_absent _ _ _ _ _ hl]; exact ih subs h
    | some c0 =>
      cases ha : alive c0 with
      | true =>
        rw [User.dispatch_cons_alive _ _ _ _ _ _ hl ha]
        rcases ih subs h with h1 | h1
        · exact Or.inl h1
        · exact Or.inr (List.mem_cons_of_mem _ h1)
      | false =>
        rw [User.dispatch_cons_dead _ _ _ _ _ _ hl ha]
        obtain ⟨⟨a, b⟩, he, hb⟩ := h
        simp only at hb; subst hb
        rcases mem_eraseFirst_or sid a b subs he with h1 | ⟨_, h1⟩
        · rcases ih (eraseFirst sid subs) ⟨(a, b), h1, rfl⟩ with h2 | h2
          · exact Or.inl h2
          · exact Or.inr (List.mem_cons_of_mem _ h2)
        · rw [hl] at h1; simp only [Option.some.injEq] at h1; subst h1
          exact Or.inr List.mem_cons_self

/-- the PUBLISH arm: `awaiting` untouched; `subs` is the dispatch loop's result (or untouched for a QoS 2
    redelivery) and the loop's effects are among the arm's effects -/
theorem handlePkt_publish_state (c : Ctx) (alive : Nat → Bool) (pb : PublishRx) (wok : Bool) :
    (c.handlePkt alive (.publish pb) wok).1.awaiting = c.awaiting ∧
    (((c.handlePkt alive (.publish pb) wok).1.subs = c.subs) ∨
     ((c.handlePkt alive (.publish pb) wok).1.subs = (dispatch alive pb pb.subIds c.subs).1 ∧
      ∀ e ∈ (dispatch alive pb pb.subIds c.subs).2, e ∈ (c.handlePkt alive (.publish pb) wok).2.1)) := by
  by_cases hr : (pb.qos = 2 ∧ pb.packetId.getD 0 ∈ c.inQos2)
  · refine ⟨?_, Or.inl ?_⟩ <;> cases hp : pb.packetId <;> simp [handlePkt, hr, hp] <;> simp_all
  · refine ⟨?_, Or.inr ⟨?_, ?_⟩⟩ <;>
      cases hp : pb.packetId <;> by_cases h2 : pb.qos = 2 <;> simp_all [handlePkt]

theorem handlePkt_slots (c : Ctx) (alive : Nat → Bool) (p : RxPacket) (wok : Bool) (s : Nat)
    (h : ∃ e ∈ c.awaiting, e.2 = s) :
    (∃ e ∈ (c.handlePkt alive p wok).1.awaiting, e.2 = s) ∨ Settles (c.handlePkt alive p wok).2.1 s := by
  cases p with
  | publish pb => left; rw [(handlePkt_publish_state c alive pb wok).1]; exact h
  | disconnect d => exact Or.inl h
  | connack k => exact Or.inl h
  | auth a => exact Or.inl h
  | pubrel a => exact Or.inl h
  | puback a =>
    exact complete_slots { c.bump with retx := eraseFirst (actionId 4 a.packetId) c.retx } _ _ s (by simpa using h)
  | pubrec a =>
    simp only [handlePkt]
    split
    · exact complete_slots { c.bump with retx := eraseFirst (actionId 5 a.packetId) c.bump.retx } _ _ s
        (by simpa using h)
    · exact complete_slots { c with retx := eraseFirst (actionId 5 a.packetId) c.retx } _ _ s (by simpa using h)
  | pubcomp a =>
    exact complete_slots { c.bump with retx := eraseFirst (actionId 7 a.packetId) c.retx } _ _ s (by simpa using h)
  | suback a => exact complete_slots c _ _ s h
  | unsuback a => exact complete_slots c _ _ s h
  | pingresp => exact complete_slots c _ _ s h

theorem handlePkt_chans (c : Ctx) (alive : Nat → Bool) (p : RxPacket) (wok : Bool) (ch : Nat)
    (h : ∃ e ∈ c.subs, e.2 = ch) :
    (∃ e ∈ (c.handlePkt alive p wok).1.subs, e.2 = ch) ∨ Eff.dropChan ch ∈ (c.handlePkt alive p wok).2.1 := by
  cases p with
  | publish pb =>
    rcases (handlePkt_publish_state c alive pb wok).2 with e | ⟨e1, e2⟩
    · left; rw [e]; exact h
    · rcases dispatch_chans alive pb pb.subIds c.subs ch h with hd | hd
      · left; rw [e1]; exact hd
      · exact Or.inr (e2 _ hd)
  | disconnect d => exact Or.inl h
  | connack k => exact Or.inl h
  | auth a => exact Or.inl h
  | pubrel a => exact Or.inl h
  | puback a =>
    left
    show ∃ e ∈ (Ctx.complete { c.bump with retx := eraseFirst (actionId 4 a.packetId) c.retx } _ _).1.subs, _
    rw [complete_subs']; simpa using h
  | pubrec a =>
    left
    simp only [handlePkt]
    split
    · show ∃ e ∈ (Ctx.complete { c.bump with retx := eraseFirst (actionId 5 a.packetId) c.bump.retx } _ _).1.subs, _
      rw [complete_subs']; simpa using h
    · show ∃ e ∈ (Ctx.complete { c with retx := eraseFirst (actionId 5 a.packetId) c.retx } _ _).1.subs, _
      rw [complete_subs']; simpa using h
  | pubcomp a =>
    left
    show ∃ e ∈ (Ctx.complete { c.bump with retx := eraseFirst (actionId 7 a.packetId) c.retx } _ _).1.subs, _
    rw [complete_subs']; simpa using h
  | suback a => left; show ∃ e ∈ (Ctx.complete c _ _).1.subs, _; rw [complete_subs']; exact h
  | unsuback a => left; show ∃ e ∈ (Ctx.complete c _ _).1.subs, _; rw [complete_subs']; exact h
  | pingresp => left; show ∃ e ∈ (Ctx.complete c _ _).1.subs, _; rw [complete_subs']; exact h

/-- the prelude of `run()`: a session that is reset drops every sender it owned -/
theorem resume_slots (c : Ctx) (s : Nat) (h : ∃ e ∈ c.awaiting, e.2 = s) :
    (∃ e ∈ c.resume.1.awaiting, e.2 = s) ∨ Settles c.resume.2.1 s := by
  unfold resume
  split
  · exact Or.inl h
  · simp only
    split
    · right
      obtain ⟨e, he, hs⟩ := h
      right
      simp only [resetSession, List.mem_append, List.mem_map]
      exact Or.inl ⟨e, he, by rw [hs]⟩
    · exact Or.inl h

theorem resume_chans (c : Ctx) (ch : Nat) (h : ∃ e ∈ c.subs, e.2 = ch) :
    (∃ e ∈ c.resume.1.subs, e.2 = ch) ∨ Eff.dropChan ch ∈ c.resume.2.1 := by
  unfold resume
  split
  · exact Or.inl h
  · simp only
    split
    · right
      obtain ⟨e, he, hs⟩ := h
      simp only [resetSession, List.mem_append, List.mem_map]
      exact Or.inr ⟨e, he, by rw [hs]⟩
    · exact Or.inl h

end Ctx

namespace World

/-! ## effects that settle a oneshot / shut a channel -/

/-- the sending half of channel `ch` is gone (or the channel no longer exists) -/
def TxGone (w : World) (ch : Nat) : Prop := ∀ c1, w.chan ch = some c1 → c1.txAlive = false

theorem ActInv.txGone {w w' : World} (h : ActInv w w') (ch : Nat) (hg : TxGone w ch) : TxGone w' ch := by
  intro c1 hc1
  cases hv : w.chan ch with
  | none => rw [h.chanNone ch hv] at hc1; cases hc1
  | some c0 =>
    obtain ⟨c1', e1, t1, _⟩ := h.chanSome ch c0 hv
    rw [e1] at hc1; cases hc1
    exact t1 (hg c0 hv)

theorem sendSlot_slot_ne_empty (w : World) (s : Nat) (v : SlotVal) : (w.sendSlot s v).slot s ≠ some .empty := by
  rw [sendSlot_eq]
  by_cases h : w.slot s = some .empty
  · rw [if_pos h]; simp [slot, lookupFirst_setAssoc_self]
  · rw [if_neg h]; exact h

theorem dropChanTx_txGone (w : World) (ch : Nat) : TxGone (w.dropChanTx ch) ch :=
  fun c1 hc1 => (dropChanTx_chanShut w ch c1 hc1).1

theorem applyEffs_cons (w : World) (e : Eff) (es : List Eff) :
    w.applyEffs (e :: es) = (w.applyEff e).applyEffs es := rfl

theorem applyEffs_settles (w : World) (es : List Eff) (s : Nat) (h : Settles es s) :
    (w.applyEffs es).slot s ≠ some .empty := by
  induction es generalizing w with
  | nil => rcases h with ⟨_, h⟩ | h <;> simp at h
  | cons e t ih =>
    rw [applyEffs_cons]
    have keep : (w.applyEff e).slot s ≠ some .empty → ((w.applyEff e).applyEffs t).slot s ≠ some .empty := by
      intro hne
      rw [(actInv_applyEffs _ t).slot_ne_empty s hne]; exact hne
    rcases h with ⟨v, h⟩ | h
    · simp only [List.mem_cons] at h
      rcases h with h | h
      · subst h; exact keep (sendSlot_slot_ne_empty w s v)
      · exact ih _ (Or.inl ⟨v, h⟩)
    · simp only [List.mem_cons] at h
      rcases h with h | h
      · subst h; exact keep (dropSlotTx_slot_ne_empty w s)
      · exact ih _ (Or.inr h)

theorem applyEffs_txGone (w : World) (es : List Eff) (ch : Nat) (h : Eff.dropChan ch ∈ es) :
    TxGone (w.applyEffs es) ch := by
  induction es generalizing w with
  | nil => simp at h
  | cons e t ih =>
    rw [applyEffs_cons]
    simp only [List.mem_cons] at h
    rcases h with h | h
    · subst h; exact (actInv_applyEffs _ t).txGone ch (dropChanTx_txGone w ch)
    · exact ih _ h

/-! ## `Hand` -/

/-- `w'` is `w` after some activity of the context: the plumbing changed as `ActInv` allows, and every sender
    the context owned is still owned, or its oneshot is no longer `empty` / its channel's sending half is gone -/
structure Hand (w w' : World) : Prop where
  act : ActInv w w'
  slots : ∀ s, OwnsSlot w s → OwnsSlot w' s ∨ w'.slot s ≠ some .empty
  chans : ∀ ch, OwnsChan w ch → OwnsChan w' ch ∨ TxGone w' ch

theorem hand_refl (w : World) : Hand w w := ⟨actInv_refl w, fun _ h => Or.inl h, fun _ h => Or.inl h⟩

theorem hand_trans {a b c : World} (h1 : Hand a b) (h2 : Hand b c) : Hand a c where
  act := actInv_trans h1.act h2.act
  slots := fun s hs => by
    rcases h1.slots s hs with h | h
    · exact h2.slots s h
    · right; rw [h2.act.slot_ne_empty s h]; exact h
  chans := fun ch hc => by
    rcases h1.chans ch hc with h | h
    · exact h2.chans ch h
    · exact Or.inr (h2.act.txGone ch h)

theorem ownsSlot_congr {w w' : World} (hq : w'.queue = w.queue) (ha : w'.c.awaiting = w.c.awaiting) (s : Nat) :
    OwnsSlot w' s ↔ OwnsSlot w s := by
  unfold OwnsSlot; rw [hq, ha]

theorem ownsChan_congr {w w' : World} (hq : w'.queue = w.queue) (ha : w'.c.subs = w.c.subs) (ch : Nat) :
    OwnsChan w' ch ↔ OwnsChan w ch := by
  unfold OwnsChan; rw [hq, ha]

/-- a step that touches neither the plumbing nor what the context owns -/
theorem hand_of_eq {w w' : World} (h1 : w'.hasCtx = w.hasCtx) (h2 : w'.ctxDropped = w.ctxDropped)
    (h3 : w'.ops = w.ops) (h4 : w'.streams = w.streams) (h5 : w'.rsps = w.rsps) (h6 : w'.held = w.held)
    (h7 : ∀ t, t ∈ w.woken → t ∈ w'.woken) (h8 : w'.slots = w.slots) (h9 : w'.slotReg = w.slotReg)
    (h10 : w'.chans = w.chans) (h11 : w'.queue = w.queue) (h12 : w'.c.awaiting = w.c.awaiting)
    (h13 : w'.c.subs = w.c.subs) (h14 : w'.bad = w.bad) : Hand w w' where
  act := actInv_of_eq h1 h2 h3 h4 h5 h6 h7 h8 h9 h10 h14
  slots := fun s hs => Or.inl ((ownsSlot_congr h11 h12 s).2 hs)
  chans := fun ch hc => Or.inl ((ownsChan_congr h11 h13 ch).2 hc)

theorem ownsChan_iff (w : World) (ch : Nat) :
    OwnsChan w ch ↔ (∃ m ∈ w.queue, m.chan? = some ch) ∨ (∃ e ∈ w.c.subs, e.2 = ch) := by
  unfold OwnsChan
  constructor
  · rintro (⟨aid, sid, pkt, s, h⟩ | h)
    · exact Or.inl ⟨_, h, rfl⟩
    · exact Or.inr h
  · rintro (⟨m, hm, hc⟩ | h)
    · left
      cases m with
      | ff _ _ => simp [Msg.chan?] at hc
      | awaitAck _ _ _ => simp [Msg.chan?] at hc
      | subscribe aid sid pkt s c' =>
        simp only [Msg.chan?, Option.some.injEq] at hc; subst hc
        exact ⟨aid, sid, pkt, s, hm⟩
    · exact Or.inr h

/-- a state whose plumbing is that of `w` runs a list of effects that settles every sender no longer owned -/
theorem hand_applyEffs (w w0 : World) (es : List Eff) (hact : ActInv w w0)
    (hs : ∀ s, OwnsSlot w s → OwnsSlot w0 s ∨ Settles es s)
    (hc : ∀ ch, OwnsChan w ch → OwnsChan w0 ch ∨ Eff.dropChan ch ∈ es) :
    Hand w (w0.applyEffs es) := by
  refine ⟨actInv_trans hact (actInv_applyEffs _ _), fun s hown => ?_, fun ch hown => ?_⟩
  · rcases hs s hown with h | h
    · exact Or.inl ((ownsSlot_congr (by simp) (by simp) s).2 h)
    · exact Or.inr (applyEffs_settles _ _ s h)
  · rcases hc ch hown with h | h
    · exact Or.inl ((ownsChan_congr (by simp) (by simp) ch).2 h)
    · exact Or.inr (applyEffs_txGone _ _ ch h)

macro "hand_eq" : tactic =>
  `(tactic| (refine hand_of_eq ?_ ?_ ?_ ?_ ?_ ?_ ?_ ?_ ?_ ?_ ?_ ?_ ?_ ?_ <;>
      first | rfl | (simp; done) | (intro t ht; simp [mem_wake_iff, ht]; done)))

/-- `handle_message` run by the loop -/
theorem hand_msg (w : World) (m : Msg) (q : List Msg) (hq : w.queue = m :: q) :
    Hand w (({ w with queue := q } : World).runHandler (fun wok => w.c.handleMsg m wok)).1 := by
  rw [runHandler_eq]
  simp only
  generalize ({ w with queue := q } : World).canWrite _ = wok
  apply hand_applyEffs
  · exact actInv_of_eq rfl rfl rfl rfl rfl rfl (fun _ x => x) rfl rfl rfl rfl
  · intro s hown
    rcases hown with ⟨m', hm', hs⟩ | hown
    · rw [hq] at hm'
      simp only [List.mem_cons] at hm'
      rcases hm' with rfl | hm'
      · rcases Ctx.handleMsg_slots w.c m' wok s (Or.inl hs) with h | h
        · exact Or.inl (Or.inr h)
        · exact Or.inr h
      · exact Or.inl (Or.inl ⟨m', hm', hs⟩)
    · rcases Ctx.handleMsg_slots w.c m wok s (Or.inr hown) with h | h
      · exact Or.inl (Or.inr h)
      · exact Or.inr h
  · intro ch hown
    rw [ownsChan_iff] at hown
    rcases hown with ⟨m', hm', hs⟩ | hown
    · rw [hq] at hm'
      simp only [List.mem_cons] at hm'
      rcases hm' with rfl | hm'
      · rcases Ctx.handleMsg_chans w.c m' wok ch (Or.inl hs) with h | h
        · left; rw [ownsChan_iff]; exact Or.inr h
        · exact Or.inr h
      · left; rw [ownsChan_iff]; exact Or.inl ⟨m', hm', hs⟩
    · rcases Ctx.handleMsg_chans w.c m wok ch (Or.inr hown) with h | h
      · left; rw [ownsChan_iff]; exact Or.inr h
      · exact Or.inr h

/-- `handle_packet` run by the loop -/
theorem hand_pkt (w : World) (rx' : Rx) (rd' : List ReadEv) (p : RxPacket) (alive : Nat → Bool) :
    Hand w (({ w with rx := rx', reader := rd' } : World).runHandler (fun wok => w.c.handlePkt alive p wok)).1 := by
  rw [runHandler_eq]
  simp only
  generalize ({ w with rx := rx', reader := rd' } : World).canWrite _ = wok
  apply hand_applyEffs
  · exact actInv_of_eq rfl rfl rfl rfl rfl rfl (fun _ x => x) rfl rfl rfl rfl
  · intro s hown
    rcases hown with hown | hown
    · exact Or.inl (Or.inl hown)
    · rcases Ctx.handlePkt_slots w.c alive p wok s hown with h | h
      · exact Or.inl (Or.inr h)
      · exact Or.inr h
  · intro ch hown
    rcases hown with hown | hown
    · exact Or.inl (Or.inl hown)
    · rcases Ctx.handlePkt_chans w.c alive p wok ch hown with h | h
      · exact Or.inl (Or.inr h)
      · exact Or.inr h

theorem hand_finish (w : World) (call : Call) (r : RetRes) : Hand w (w.finish call r) := by hand_eq
theorem hand_emit (w : World) (o : Obs) : Hand w (w.emit o) := by hand_eq
theorem hand_wake (w : World) (t : Task) : Hand w (w.wake t) := by hand_eq
theorem hand_writeBytes (w : World) (bs : Bytes) : Hand w (w.writeBytes bs) := by hand_eq

theorem hand_runCont {w w1 : World} (h : RunCont w w1) : Hand w w1 := by
  cases h with
  | msg m q w1 hq hr =>
    have e : w1 = (World.runHandler { w with queue := q } (fun wok => w.c.handleMsg m wok)).1 := by rw [hr]
    subst e; exact hand_msg w m q hq
  | pkt rx' rd' fr p w1 hq hs hp hd hr =>
    have e : w1 = (World.runHandler { w with rx := rx', reader := rd' }
        (fun wok => w.c.handlePkt w.chanRxAlive p wok)).1 := by rw [hr]
    subst e; exact hand_pkt w rx' rd' p _

theorem hand_runEnd {w r : World} (h : RunEnd w r) : Hand w r := by
  cases h with
  | msgExit m q w1 fl hq hh hne =>
    have e : w1 = (World.runHandler { w with queue := q } (fun wok => w.c.handleMsg m wok)).1 := by rw [hh]
    subst e; exact hand_trans (hand_msg w m q hq) (hand_finish _ _ _)
  | closed => exact hand_finish _ _ _
  | pktExit rx' rd' fr p w1 fl hq hs hp hd hh hne =>
    have e : w1 = (World.runHandler { w with rx := rx', reader := rd' }
        (fun wok => w.c.handlePkt w.chanRxAlive p wok)).1 := by rw [hh]
    subst e; exact hand_trans (hand_pkt w rx' rd' p _) (hand_finish _ _ _)
  | codec rx' rd' fr hq hs hp => hand_eq
  | panic rx' rd' fr hq hs hp => hand_eq
  | sock rx' rd' hq hs hp => hand_eq
  | pending rx' rd' hq hs hp =>
    split
    · hand_eq
    · hand_eq

theorem hand_serve {w wm : World} (h : Serve w wm) : Hand w wm := by
  induction h with
  | refl w => exact hand_refl w
  | step hc _ ih => exact hand_trans (hand_runCont hc) ih

theorem hand_runLoop (f : Nat) (w : World) : Hand w (runLoop f w) := by
  obtain ⟨wm, hs, he⟩ := runLoop_decomp f w
  rcases he with he | he
  · rw [he]; exact hand_serve hs
  · exact hand_trans (hand_serve hs) (hand_runEnd he)

theorem hand_foldl_writeBytes (pkts : List Bytes) (w : World) :
    Hand w (pkts.foldl (fun w p => w.writeBytes p) w) := by
  induction pkts generalizing w with
  | nil => exact hand_refl w
  | cons p t ih => exact hand_trans (hand_writeBytes w p) (ih _)

/-- the prelude of `run()`: a session reset drops every sender explicitly -/
theorem hand_resume (w : World) :
    Hand w (({ w with c := w.c.resume.1, task := .running true } : World).applyEffs w.c.resume.2.1) := by
  apply hand_applyEffs
  · exact actInv_of_eq rfl rfl rfl rfl rfl rfl (fun _ x => x) rfl rfl rfl rfl
  · intro s hown
    rcases hown with hown | hown
    · exact Or.inl (Or.inl hown)
    · rcases Ctx.resume_slots w.c s hown with h | h
      · exact Or.inl (Or.inr h)
      · exact Or.inr h
  · intro ch hown
    rcases hown with hown | hown
    · exact Or.inl (Or.inl hown)
    · rcases Ctx.resume_chans w.c ch hown with h | h
      · exact Or.inl (Or.inr h)
      · exact Or.inr h

theorem hand_pollRun (w : World) (started : Bool) : Hand w (w.pollRun started) := by
  unfold pollRun
  split
  · exact hand_runLoop _ w
  · simp only
    split
    · exact hand_trans (hand_trans (hand_resume w) (hand_foldl_writeBytes _ _)) (hand_runLoop _ _)
    · exact hand_trans (hand_trans (hand_resume w) (hand_writeBytes _ _)) (hand_finish _ _ _)

@[simp] theorem handleConnack_awaiting (c : Ctx) (k : ConnackRx) : (c.handleConnack k).awaiting = c.awaiting := by
  unfold Ctx.handleConnack; split <;> rfl
@[simp] theorem handleConnack_subs (c : Ctx) (k : ConnackRx) : (c.handleConnack k).subs = c.subs := by
  unfold Ctx.handleConnack; split <;> rfl

theorem hand_firstEnd {w : World} {call : Call} {t : ConnectTx} {a : AuthTx} {r : World}
    (h : FirstEnd w call t a r) : Hand w r := by
  cases h with
  | connack rx' rd' fr k hp => hand_eq
  | refused rx' rd' fr k hp => hand_eq
  | assertSubId rx' rd' fr k hp => hand_eq
  | auth rx' rd' fr au hp => hand_eq
  | unexpected rx' rd' fr p hp => hand_eq
  | codec rx' rd' fr hp => hand_eq
  | panic rx' rd' fr hp => hand_eq
  | sock rx' rd' hp => hand_eq
  | pending rx' rd' hp =>
    split
    · hand_eq
    · hand_eq

theorem hand_awaitFirst (w : World) (call : Call) (t : ConnectTx) (a : AuthTx) :
    Hand w (w.awaitFirst call t a) := hand_firstEnd (awaitFirst_spec w call t a)

theorem hand_pollConnect (w : World) (call : Call) (t : ConnectTx) (a : AuthTx) (started : Bool) :
    Hand w (w.pollConnect call t a started) := by
  cases started with
  | true => simp only [pollConnect, ↓reduceIte]; exact hand_awaitFirst _ _ _ _
  | false =>
    cases call <;> simp only [pollConnect, Bool.false_eq_true, ↓reduceIte] <;>
    (split
     · exact hand_finish _ _ _
     · split
       · refine hand_trans (hand_trans ?_ (hand_writeBytes _ _)) (hand_awaitFirst _ _ _ _)
         first | exact hand_refl _ | hand_eq
       · refine hand_trans (hand_trans ?_ (hand_writeBytes _ _)) (hand_finish _ _ _)
         first | exact hand_refl _ | hand_eq)

/-- **one poll of the context task**: nothing the context owns is lost silently -/
theorem hand_pollCtx (w : World) : Hand w w.pollCtx := by
  unfold pollCtx
  split
  · exact hand_refl w
  · exact hand_pollConnect _ _ _ _ _
  · exact hand_pollRun _ _

end World
end Poster
