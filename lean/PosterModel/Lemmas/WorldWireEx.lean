/-
  Lemmas/WorldWireEx.lean — concrete requests and scripts used by the non-vacuity examples of Properties/C01World.lean.
-/
import PosterModel.Lemmas.WorldWire
import PosterModel.Lemmas.WorldEx

set_option linter.unusedVariables false
set_option linter.unusedSimpArgs false

namespace Poster
open Framing Spec
namespace W6Ex

/-- a QoS 1 publication to "a" with payload 01 02 -/
def exPub : PublishTx := { topic := some [0x61], qos := 1, payload := some [1, 2] }
/-- a subscription to "a/#" with default options -/
def exSub : SubscribeTx := { packetId := 0, filters := [([0x61, 0x2F, 0x23], {})] }
/-- CONNECT, client identifier "c", keep alive 30 s, session expiry 60 s -/
def exConn : ConnectTx := { clientId := [0x63], keepAlive := 30, sessionExpiry := some 60 }

/-- connect, serve a publish / subscribe / ping / disconnect, lose the connection, reconnect on the same context
    (authorize, connect, run: the session is resumed) -/
def exScript : List Ev :=
  [.setup, .connect exConn, .feed [Ex.connackOk], .run,
   .op 1 0 (.publish exPub), .op 2 0 (.subscribe exSub), .op 3 0 .ping, .op 4 0 (.disconnect {}),
   .feedEof, .markDisc 5, .setup, .authorize {}, .connect exConn, .feed [Ex.connackOk], .run]

/-- two requests queued before `run()` is started: `run()` serves the PUBLISH, then the DISCONNECT ends it -/
def exShort : List Ev := [.setup, .op 1 0 (.publish exPub), .op 2 0 (.disconnect {}), .run]

theorem exPub_inDomain : ReqInDomain (.publish exPub) := by
  refine ⟨fun h => by simp [exPub] at h, fun _ pid h1 h2 => ?_⟩
  constructor <;>
    simp [exPub, StrOk, UserOk, PublishTx.remainingLen, PublishTx.propertyLen, PublishTx.topicBytes, userLen, oLen,
      strLen, varLen] <;> omega

theorem exSub_inDomain : ReqInDomain (.subscribe exSub) := by
  intro pid sid h1 h2 h3 h4
  constructor <;>
    simp [exSub, StrOk, UserOk, SubscribeTx.remainingLen, SubscribeTx.propertyLen, userLen, oLen, strLen, varLen,
      propLen, pSubId, valLen] <;> first | omega | decide | (repeat' split) <;> omega

theorem disconnect0_inDomain : DisconnectInDomain {} := by
  constructor <;> first | decide | simp [UserOk]

theorem auth0_inDomain : AuthInDomain {} := by
  constructor <;> first | decide | simp [UserOk]

theorem exConn_inDomain : ConnectInDomain exConn := by
  constructor <;> simp [exConn, StrOk, UserOk] <;> decide

theorem exScript_inDomain : ScriptInDomain exScript := by
  intro e he
  simp only [exScript, List.mem_cons, List.mem_nil_iff, or_false] at he
  rcases he with rfl | rfl | rfl | rfl | rfl | rfl | rfl | rfl | rfl | rfl | rfl | rfl | rfl | rfl | rfl
  all_goals first
    | trivial
    | exact exConn_inDomain
    | exact exPub_inDomain
    | exact exSub_inDomain
    | exact disconnect0_inDomain
    | exact auth0_inDomain

theorem exShort_inDomain : ScriptInDomain exShort := by
  intro e he
  simp only [exShort, List.mem_cons, List.mem_nil_iff, or_false] at he
  rcases he with rfl | rfl | rfl | rfl
  all_goals first
    | trivial
    | exact exPub_inDomain
    | exact disconnect0_inDomain

/-- a live context with one handle -/
def wLive : World := { hasCtx := true, handles := [0] }

end W6Ex
end Poster
