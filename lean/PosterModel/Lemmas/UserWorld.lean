/-
  Lemmas/UserWorld.lean — what the small building blocks of the user side of `World` do to the record:
  each lemma rewrites one helper (`wake`, `senderGone`, `finishOp`, `sendMsg`, …) into an explicit record update
  in which only `woken` / `queueReg` (the waker bookkeeping) are left abstract.
-/
import PosterModel.World
import PosterModel.CtxRun

namespace Poster

namespace World

/-- the common tail of every `ContextHandle` method: `sender.unbounded_send(msg)?; receiver.await` -/
def sendAwait (w : World) (m : Msg) (id s : Nat) (k : Wait) : World :=
  match w.sendMsg m with
  | none => w.finishOp id (.err .contextExited)
  | some w => w.awaitSlot id s k

/-- channel `ch` has an entry whose sending half is gone -/
def noSender (w : World) (ch : Nat) : Prop := ∃ c0, (ch, c0) ∈ w.chans ∧ c0.txAlive = false

/-- `pollStream` applied `n` times to the same stream -/
def pollStreamN (w : World) (id : Nat) : Nat → World
  | 0 => w
  | n+1 => pollStreamN (w.pollStream id) id n

end World

namespace User
open World

/-! ### association lists -/

theorem lookupFirst_setAssoc_self {β} (k : Nat) (v : β) (l : List (Nat × β)) :
    lookupFirst k (World.setAssoc k v l) = some v := by
  induction l with
  | nil => simp [World.setAssoc, lookupFirst]
  | cons h t ih =>
    obtain ⟨a, b⟩ := h
    by_cases hk : a = k <;> simp [World.setAssoc, lookupFirst, hk, ih]

theorem lookupFirst_setAssoc_ne {β} (k k' : Nat) (v : β) (l : List (Nat × β)) (h : k' ≠ k) :
    lookupFirst k' (World.setAssoc k v l) = lookupFirst k' l := by
  induction l with
  | nil =>
    have : ¬ k = k' := fun e => h e.symm
    simp [World.setAssoc, lookupFirst, this]
  | cons hd t ih =>
    obtain ⟨a, b⟩ := hd
    by_cases hk : a = k
    · subst hk
      have : ¬ a = k' := fun e => h e.symm
      simp [World.setAssoc, lookupFirst, this]
    · by_cases hk' : a = k'
      · subst hk'; simp [World.setAssoc, lookupFirst, hk]
      · simp [World.setAssoc, lookupFirst, hk, hk', ih]

theorem removeFirst_none_iff {β} (k : Nat) (l : List (Nat × β)) :
    removeFirst k l = none ↔ k ∉ l.map (·.1) := by
  induction l with
  | nil => simp [removeFirst]
  | cons h t ih =>
    obtain ⟨a, b⟩ := h
    by_cases hk : a = k
    · simp [removeFirst, hk]
    · have : ¬ k = a := fun e => hk e.symm
      simp [removeFirst, hk, ih, this]

theorem removeFirst_some_iff {β} (k : Nat) (l l' : List (Nat × β)) (v : β) :
    removeFirst k l = some (v, l') ↔
      ∃ pre post, l = pre ++ (k, v) :: post ∧ k ∉ pre.map (·.1) ∧ l' = pre ++ post := by
  induction l generalizing l' with
  | nil => simp [removeFirst]
  | cons h t ih =>
    obtain ⟨a, b⟩ := h
    by_cases hk : a = k
    · subst hk
      simp only [removeFirst, if_true, Option.some.injEq, Prod.mk.injEq]
      constructor
      · rintro ⟨rfl, rfl⟩; exact ⟨[], t, by simp⟩
      · rintro ⟨pre, post, h1, h2, h3⟩
        cases pre with
        | nil => simp at h1 h3; obtain ⟨rfl, rfl⟩ := h1; exact ⟨rfl, h3.symm⟩
        | cons p pre => simp at h1 h2; exact absurd h1.1.symm (by rw [← h1.1] at h2; simp at h2)
    · simp only [removeFirst, hk, if_false, Option.map_eq_some_iff]
      constructor
      · rintro ⟨⟨o, t'⟩, h1, h2⟩
        simp only [Prod.mk.injEq] at h2
        obtain ⟨rfl, rfl⟩ := h2
        obtain ⟨pre, post, e1, e2, e3⟩ := (ih t').1 h1
        refine ⟨(a, b) :: pre, post, by simp [e1], ?_, by simp [e3]⟩
        simp only [List.map_cons, List.mem_cons, not_or]; exact ⟨fun e => hk e.symm, e2⟩
      · rintro ⟨pre, post, h1, h2, h3⟩
        cases pre with
        | nil => simp at h1; exact absurd h1.1.1 hk
        | cons p pre =>
          simp only [List.cons_append, List.cons.injEq] at h1
          obtain ⟨rfl, h1⟩ := h1
          simp only [List.map_cons, List.mem_cons, not_or] at h2
          refine ⟨(v, pre ++ post), (ih _).2 ⟨pre, post, h1, h2.2, rfl⟩, by simp [h3]⟩

theorem lookupFirst_eq_removeFirst {β} (k : Nat) (l : List (Nat × β)) :
    lookupFirst k l = (removeFirst k l).map (·.1) := by
  induction l with
  | nil => rfl
  | cons h t ih =>
    obtain ⟨a, b⟩ := h
    by_cases hk : a = k
    · simp [lookupFirst, removeFirst, hk]
    · simp only [lookupFirst, removeFirst, hk, if_false, ih, Option.map_map]; rfl

theorem lookupFirst_none_iff {β} (k : Nat) (l : List (Nat × β)) :
    lookupFirst k l = none ↔ k ∉ l.map (·.1) := by
  rw [lookupFirst_eq_removeFirst, Option.map_eq_none_iff, removeFirst_none_iff]

theorem eraseFirst_sublist {β} (k : Nat) (l : List (Nat × β)) : (eraseFirst k l).Sublist l := by
  unfold eraseFirst
  split
  · next v l' h =>
    obtain ⟨pre, post, rfl, -, rfl⟩ := (removeFirst_some_iff _ _ _ _).1 h
    exact List.Sublist.append (List.Sublist.refl _) (List.sublist_cons_self _ _)
  · exact List.Sublist.refl _

theorem lookupFirst_eraseFirst_ne {β} (k k' : Nat) (l : List (Nat × β)) (h : k' ≠ k) :
    lookupFirst k' (eraseFirst k l) = lookupFirst k' l := by
  induction l with
  | nil => rfl
  | cons hd t ih =>
    obtain ⟨a, b⟩ := hd
    by_cases hk : a = k
    · subst hk
      have : ¬ a = k' := fun e => h e.symm
      simp [eraseFirst, removeFirst, lookupFirst, this]
    · have e : eraseFirst k ((a, b) :: t) = (a, b) :: eraseFirst k t := by
        unfold eraseFirst; simp only [removeFirst, hk, if_false]
        cases removeFirst k t <;> rfl
      rw [e]; simp only [lookupFirst, ih]

theorem eraseFirst_absent {β} (k : Nat) (l : List (Nat × β)) (h : lookupFirst k l = none) : eraseFirst k l = l := by
  rw [lookupFirst_none_iff, ← removeFirst_none_iff] at h
  simp [eraseFirst, h]

/-- with pairwise distinct keys, erasing the (first) entry of a key leaves no entry with that key -/
theorem lookupFirst_eraseFirst_self {β} (k : Nat) (l : List (Nat × β)) (hn : (l.map (·.1)).Nodup) :
    lookupFirst k (eraseFirst k l) = none := by
  unfold eraseFirst
  split
  · next v l' h =>
    obtain ⟨pre, post, rfl, hpre, rfl⟩ := (removeFirst_some_iff _ _ _ _).1 h
    rw [lookupFirst_none_iff]
    simp only [List.map_append, List.map_cons, List.nodup_append, List.nodup_cons, List.mem_cons] at hn
    simp only [List.map_append, List.mem_append, not_or]
    exact ⟨hpre, hn.2.1.1⟩
  · next h => rw [lookupFirst_eq_removeFirst, h]; rfl

/-! ### record shapes -/

theorem wake_shape (w : World) (t : Task) : ∃ wk, w.wake t = { w with woken := wk } := by
  unfold wake; split
  · exact ⟨w.woken, rfl⟩
  · exact ⟨_, rfl⟩

theorem senderGone_shape (w : World) : ∃ wk qr, w.senderGone = { w with woken := wk, queueReg := qr } := by
  unfold senderGone; split
  · obtain ⟨wk, h⟩ := wake_shape w .ctx
    exact ⟨wk, false, by rw [h]⟩
  · exact ⟨w.woken, w.queueReg, rfl⟩

theorem finishOp_shape (w : World) (id : Nat) (r : DoneRes) :
    ∃ wk qr, w.finishOp id r =
      { w with ops := eraseFirst id w.ops, out := w.out ++ [.done id r], woken := wk, queueReg := qr } := by
  unfold finishOp
  obtain ⟨wk, qr, h⟩ := senderGone_shape (({ w with ops := eraseFirst id w.ops }).emit (.done id r))
  exact ⟨wk, qr, by rw [h]; rfl⟩

theorem sendMsg_none (w : World) (m : Msg) (h : w.hasCtx = false) : w.sendMsg m = none := by
  simp [sendMsg, h]

theorem sendMsg_shape (w : World) (m : Msg) (h : w.hasCtx = true) :
    ∃ wk qr, w.sendMsg m = some { w with queue := w.queue ++ [m], woken := wk, queueReg := qr } := by
  unfold sendMsg
  have hh : (!w.hasCtx) = false := by simp [h]
  simp only [hh, Bool.false_eq_true, if_false]
  split
  · obtain ⟨wk, e⟩ := wake_shape ({ w with queue := w.queue ++ [m] } : World) .ctx
    exact ⟨wk, false, by rw [e]⟩
  · exact ⟨w.woken, w.queueReg, rfl⟩

theorem sendAwait_no_ctx (w : World) (m : Msg) (id s : Nat) (k : Wait) (h : w.hasCtx = false) :
    w.sendAwait m id s k = w.finishOp id (.err .contextExited) := by
  simp [sendAwait, sendMsg_none w m h]

theorem sendAwait_ctx (w : World) (m : Msg) (id s : Nat) (k : Wait) (h : w.hasCtx = true) :
    ∃ wk qr, w.sendAwait m id s k =
      { w with queue := w.queue ++ [m], ops := setAssoc id (.wait s k) w.ops,
               slots := setAssoc s Slot.empty w.slots,
               slotReg := if s ∈ w.slotReg then w.slotReg else w.slotReg ++ [s],
               woken := wk, queueReg := qr } := by
  obtain ⟨wk, qr, e⟩ := sendMsg_shape w m h
  exact ⟨wk, qr, by simp only [sendAwait, e]; rfl⟩

/-- the fields the tail of a handle method can change; everything else is untouched -/
theorem sendAwait_frame (w : World) (m : Msg) (id s : Nat) (k : Wait) :
    ∃ q o sl sr wk qr ou, w.sendAwait m id s k =
      { w with queue := q, ops := o, slots := sl, slotReg := sr, woken := wk, queueReg := qr, out := ou } := by
  by_cases h : w.hasCtx = true
  · obtain ⟨wk, qr, e⟩ := sendAwait_ctx w m id s k h
    exact ⟨_, _, _, _, wk, qr, w.out, e⟩
  · rw [sendAwait_no_ctx w m id s k (by simpa using h)]
    obtain ⟨wk, qr, e⟩ := finishOp_shape w id (.err .contextExited)
    exact ⟨w.queue, _, w.slots, w.slotReg, wk, qr, _, e⟩

@[simp] theorem finishOp_pidCtr (w : World) (id r) : (w.finishOp id r).pidCtr = w.pidCtr := by
  obtain ⟨_, _, e⟩ := finishOp_shape w id r; rw [e]
@[simp] theorem finishOp_subCtr (w : World) (id r) : (w.finishOp id r).subCtr = w.subCtr := by
  obtain ⟨_, _, e⟩ := finishOp_shape w id r; rw [e]
@[simp] theorem finishOp_queue (w : World) (id r) : (w.finishOp id r).queue = w.queue := by
  obtain ⟨_, _, e⟩ := finishOp_shape w id r; rw [e]
@[simp] theorem finishOp_out (w : World) (id r) : (w.finishOp id r).out = w.out ++ [.done id r] := by
  obtain ⟨_, _, e⟩ := finishOp_shape w id r; rw [e]
@[simp] theorem finishOp_ops (w : World) (id r) : (w.finishOp id r).ops = eraseFirst id w.ops := by
  obtain ⟨_, _, e⟩ := finishOp_shape w id r; rw [e]
@[simp] theorem finishOp_chans (w : World) (id r) : (w.finishOp id r).chans = w.chans := by
  obtain ⟨_, _, e⟩ := finishOp_shape w id r; rw [e]
@[simp] theorem finishOp_c (w : World) (id r) : (w.finishOp id r).c = w.c := by
  obtain ⟨_, _, e⟩ := finishOp_shape w id r; rw [e]
@[simp] theorem finishOp_slots (w : World) (id r) : (w.finishOp id r).slots = w.slots := by
  obtain ⟨_, _, e⟩ := finishOp_shape w id r; rw [e]
@[simp] theorem sendAwait_pidCtr (w : World) (m id s k) : (w.sendAwait m id s k).pidCtr = w.pidCtr := by
  obtain ⟨_, _, _, _, _, _, _, e⟩ := sendAwait_frame w m id s k; rw [e]
@[simp] theorem sendAwait_subCtr (w : World) (m id s k) : (w.sendAwait m id s k).subCtr = w.subCtr := by
  obtain ⟨_, _, _, _, _, _, _, e⟩ := sendAwait_frame w m id s k; rw [e]
@[simp] theorem sendAwait_chans (w : World) (m id s k) : (w.sendAwait m id s k).chans = w.chans := by
  obtain ⟨_, _, _, _, _, _, _, e⟩ := sendAwait_frame w m id s k; rw [e]
@[simp] theorem sendAwait_c (w : World) (m id s k) : (w.sendAwait m id s k).c = w.c := by
  obtain ⟨_, _, _, _, _, _, _, e⟩ := sendAwait_frame w m id s k; rw [e]

/-! ### `startOp`, request by request -/

theorem startOp_publish0 (w : World) (id : Nat) (t : PublishTx) (hq : t.qos = 0) :
    w.startOp id (.publish t) =
      if !t.valid then w.finishOp id (.err .codecError) else w.sendAwait (.ff t.encode (2 * id)) id (2 * id) .ff := by
  simp only [startOp, hq, if_true]; rfl

theorem startOp_publish12 (w : World) (id : Nat) (t : PublishTx) (hq : t.qos ≠ 0) :
    w.startOp id (.publish t) =
      if !({ t with packetId := some w.pidCtr } : PublishTx).valid then
        (w.allocPid.2).finishOp id (.err .codecError)
      else (w.allocPid.2).sendAwait
        (.awaitAck (actionId (if t.qos = 1 then 4 else 5) w.pidCtr) ({ t with packetId := some w.pidCtr } : PublishTx).encode (2 * id))
        id (2 * id) (if t.qos = 1 then .puback else .pubrec) := by
  simp only [startOp, hq, if_false]; rfl

theorem startOp_subscribe (w : World) (id : Nat) (t : SubscribeTx) :
    w.startOp id (.subscribe t) =
      let w1 := (w.allocPid.2).allocSub.2
      let t' : SubscribeTx := { t with packetId := w.pidCtr, subId := some w.subCtr }
      if !t'.valid then w1.finishOp id (.err .codecError) else
      match (w1.setChan id {}).sendMsg (.subscribe (actionId 9 w.pidCtr) w.subCtr t'.encode (2 * id) id) with
      | none => ((w1.setChan id {}).dropChanRx id).finishOp id (.err .contextExited)
      | some w => w.awaitSlot id (2 * id) .suback := rfl

theorem startOp_unsubscribe (w : World) (id : Nat) (t : UnsubscribeTx) :
    w.startOp id (.unsubscribe t) =
      if !({ t with packetId := w.pidCtr } : UnsubscribeTx).valid then (w.allocPid.2).finishOp id (.err .codecError)
      else (w.allocPid.2).sendAwait
        (.awaitAck (actionId 11 w.pidCtr) ({ t with packetId := w.pidCtr } : UnsubscribeTx).encode (2 * id))
        id (2 * id) .unsuback := rfl

theorem startOp_ping (w : World) (id : Nat) :
    w.startOp id .ping = w.sendAwait (.awaitAck (actionId 13 0) pingreqBytes (2 * id)) id (2 * id) .pingresp := rfl

theorem startOp_disconnect (w : World) (id : Nat) (t : DisconnectTx) :
    w.startOp id (.disconnect t) = w.sendAwait (.ff t.encode (2 * id)) id (2 * id) .ff := rfl

/-! ### subscription channels -/

theorem mem_setAssoc {β} {k k0 : Nat} {v v0 : β} {l : List (Nat × β)} (h : (k, v) ∈ setAssoc k0 v0 l) :
    (k, v) = (k0, v0) ∨ (k, v) ∈ l := by
  induction l with
  | nil => simp [setAssoc] at h; left; simp [h]
  | cons hd t ih =>
    obtain ⟨a, b⟩ := hd
    by_cases hk : a = k0
    · simp only [setAssoc, hk, if_true, List.mem_cons] at h
      rcases h with h | h
      · left; exact h
      · right; exact List.mem_cons_of_mem _ h
    · simp only [setAssoc, hk, if_false, List.mem_cons] at h
      rcases h with h | h
      · right; rw [h]; exact List.mem_cons_self
      · rcases ih h with h | h
        · left; exact h
        · right; exact List.mem_cons_of_mem _ h

theorem deliver_none (w : World) (c : Nat) (p : PublishRx) (h : w.chan c = none) : w.deliver c p = w := by
  simp [deliver, h]

theorem deliver_shape (w : World) (c : Nat) (p : PublishRx) (ch : Chan) (h : w.chan c = some ch) :
    ∃ wk, w.deliver c p =
      { w with chans := setAssoc c { ch with buf := ch.buf ++ [p], reg := false } w.chans, woken := wk } := by
  simp only [deliver, h]
  split
  · obtain ⟨wk, e⟩ := wake_shape (w.setChan c { ch with buf := ch.buf ++ [p], reg := false }) (.st c)
    exact ⟨wk, by rw [e]; rfl⟩
  · exact ⟨w.woken, rfl⟩

theorem dropChanTx_none (w : World) (c : Nat) (h : w.chan c = none) : w.dropChanTx c = w := by
  simp [dropChanTx, h]

theorem dropChanTx_shape (w : World) (c : Nat) (ch : Chan) (h : w.chan c = some ch) :
    ∃ wk, w.dropChanTx c =
      { w with chans := setAssoc c { ch with txAlive := false, reg := false } w.chans, woken := wk } := by
  simp only [dropChanTx, h]
  split
  · obtain ⟨wk, e⟩ := wake_shape (w.setChan c { ch with txAlive := false, reg := false }) (.st c)
    exact ⟨wk, by rw [e]; rfl⟩
  · exact ⟨w.woken, rfl⟩

theorem sendSlot_chans (w : World) (s : Nat) (v : SlotVal) :
    (w.sendSlot s v).chans = w.chans ∧ (w.sendSlot s v).out = w.out := by
  unfold sendSlot
  split
  · simp only []
    split
    · obtain ⟨wk, e⟩ := wake_shape (w.setSlot s (.full v)) (.op (s / 2))
      rw [e]; exact ⟨rfl, rfl⟩
    · exact ⟨rfl, rfl⟩
  · exact ⟨rfl, rfl⟩

theorem sendSlot_shape (w : World) (s : Nat) (v : SlotVal) (h : w.slot s = some .empty) :
    ∃ wk sr, w.sendSlot s v = { w with slots := setAssoc s (.full v) w.slots, woken := wk, slotReg := sr } := by
  simp only [sendSlot, h]
  split
  · obtain ⟨wk, e⟩ := wake_shape (w.setSlot s (.full v)) (.op (s / 2))
    exact ⟨wk, _, by rw [e]; rfl⟩
  · exact ⟨w.woken, w.slotReg, rfl⟩

theorem sendSlot_noop (w : World) (s : Nat) (v : SlotVal) (h : w.slot s ≠ some .empty) : w.sendSlot s v = w := by
  unfold sendSlot
  split
  · next h' => exact absurd h' h
  · rfl

theorem dropSlotTx_chans (w : World) (s : Nat) :
    (w.dropSlotTx s).chans = w.chans ∧ (w.dropSlotTx s).out = w.out := by
  unfold dropSlotTx
  split
  · simp only []
    split
    · obtain ⟨wk, e⟩ := wake_shape (w.setSlot s .closed) (.op (s / 2))
      rw [e]; exact ⟨rfl, rfl⟩
    · exact ⟨rfl, rfl⟩
  · exact ⟨rfl, rfl⟩

theorem flushWire_chans (w : World) : w.flushWire.chans = w.chans := by
  unfold flushWire; split <;> rfl

theorem writeBytes_chans (w : World) (bs : Bytes) : (w.writeBytes bs).chans = w.chans := by
  unfold writeBytes; split <;> rw [flushWire_chans]

/-! ### `pollStream`, case by case -/

theorem pollStream_noop (w : World) (id : Nat) (h : id ∉ w.streams ∨ w.chan id = none) : w.pollStream id = w := by
  unfold pollStream
  rcases h with h | h
  · simp [h]
  · split
    · rfl
    · simp [h]

theorem pollStream_item (w : World) (id : Nat) (ch : Chan) (p : PublishRx) (rest : List PublishRx)
    (hs : id ∈ w.streams) (hc : w.chan id = some ch) (hb : ch.buf = p :: rest) :
    ∃ wk, w.pollStream id =
      { w with chans := setAssoc id { ch with buf := rest } w.chans, out := w.out ++ [.item id p], woken := wk } := by
  obtain ⟨wk, e⟩ := wake_shape ((w.setChan id { ch with buf := rest }).emit (.item id p)) (.st id)
  refine ⟨wk, ?_⟩
  simp only [pollStream, hs, not_true_eq_false, if_false, hc, hb]
  rw [e]; rfl

theorem pollStream_pending (w : World) (id : Nat) (ch : Chan)
    (hs : id ∈ w.streams) (hc : w.chan id = some ch) (hb : ch.buf = []) (ht : ch.txAlive = true) :
    w.pollStream id = { w with chans := setAssoc id { ch with reg := true } w.chans } := by
  simp only [pollStream, hs, not_true_eq_false, if_false, hc, hb, ht, if_true]; rfl

theorem pollStream_end (w : World) (id : Nat) (ch : Chan)
    (hs : id ∈ w.streams) (hc : w.chan id = some ch) (hb : ch.buf = []) (ht : ch.txAlive = false) :
    w.pollStream id =
      { w with streams := w.streams.filter (· ≠ id), chans := eraseFirst id w.chans,
               out := w.out ++ [.endStream id] } := by
  simp only [pollStream, hs, not_true_eq_false, if_false, hc, hb, ht]; rfl

/-! ### `resumeOp` / `pollOp` / `dropOp` and the channels -/

theorem resumeOp_chans (w : World) (id s : Nat) (k : Wait) (v : SlotVal) : (w.resumeOp id s k v).chans = w.chans := by
  have panic : (({ (w.clearSlot s) with ops := eraseFirst id (w.clearSlot s).ops }).emit
      (.panic (.op id) "unreachable") |>.senderGone).chans = w.chans := by
    obtain ⟨wk, qr, e⟩ := senderGone_shape
      (({ (w.clearSlot s) with ops := eraseFirst id (w.clearSlot s).ops }).emit (.panic (.op id) "unreachable"))
    rw [e]; rfl
  cases v with
  | errSize => simp [resumeOp, clearSlot]
  | errQuota => simp [resumeOp, clearSlot]
  | unit => cases k <;> simp [resumeOp, clearSlot]
  | pkt p =>
    cases k <;> cases p <;>
      first
      | exact panic
      | (simp only [resumeOp, ackErr]; split <;> simp [clearSlot]; done)
      | (simp [resumeOp, clearSlot]; done)
      | skip
    next a =>
      by_cases h : a.reason ≥ 128
      · simp [resumeOp, ackErr, h, clearSlot]
      · have e0 : w.resumeOp id s .pubrec (.pkt (.pubrec a)) =
            (w.clearSlot s).sendAwait (.awaitAck (actionId 7 a.packetId) (ackBytes 0x62 a.packetId) (s + 1))
              id (s + 1) .pubcomp := by
          simp only [resumeOp, h, if_false]; rfl
        rw [e0]; simp [clearSlot]

theorem startOp_chans (w : World) (id : Nat) (req : Req) :
    (w.startOp id req).chans = w.chans ∨ (w.startOp id req).chans = setAssoc id {} w.chans ∨
    (w.startOp id req).chans = eraseFirst id (setAssoc id {} w.chans) := by
  cases req with
  | publish t =>
    left
    by_cases hq : t.qos = 0
    · rw [startOp_publish0 w id t hq]; split <;> simp
    · rw [startOp_publish12 w id t hq]; split <;> simp [allocPid]
  | subscribe t =>
    rw [startOp_subscribe]
    simp only []
    split
    · left; simp [allocPid, allocSub]
    · split
      · right; right; simp [allocPid, allocSub, dropChanRx, setChan]
      · next w' hs =>
        by_cases hc : w.hasCtx = true
        · obtain ⟨wk, qr, e⟩ := sendMsg_shape (((w.allocPid.2).allocSub.2).setChan id {})
            (.subscribe (actionId 9 w.pidCtr) w.subCtr
              ({ t with packetId := w.pidCtr, subId := some w.subCtr } : SubscribeTx).encode (2 * id) id) hc
          rw [e] at hs; cases hs
          right; left; rfl
        · rw [sendMsg_none _ _ (by simpa [setChan, allocPid, allocSub] using hc)] at hs; cases hs
  | unsubscribe t => left; rw [startOp_unsubscribe]; split <;> simp [allocPid]
  | ping => left; rw [startOp_ping]; simp
  | disconnect t => left; rw [startOp_disconnect]; simp

theorem pollOp_chans (w : World) (id : Nat) :
    (w.pollOp id).chans = w.chans ∨ (w.pollOp id).chans = setAssoc id {} w.chans ∨
    (w.pollOp id).chans = eraseFirst id (setAssoc id {} w.chans) := by
  unfold pollOp
  split
  · left; rfl
  · exact startOp_chans w id _
  · split
    · left; exact resumeOp_chans w id _ _ _
    · left; simp [clearSlot]
    · left; rfl

theorem dropOp_chans (w : World) (id : Nat) :
    (w.dropOp id).chans = w.chans ∨ (w.dropOp id).chans = eraseFirst id w.chans := by
  unfold dropOp
  split
  · left; rfl
  · left
    obtain ⟨wk, qr, e⟩ := senderGone_shape ({ w with ops := eraseFirst id w.ops })
    rw [e]
  · next s k _ =>
    cases k <;> simp only [] <;>
      first
      | (left
         obtain ⟨wk, qr, e⟩ := senderGone_shape ({ (w.clearSlot s) with ops := eraseFirst id (w.clearSlot s).ops })
         rw [e]; rfl)
      | (right
         obtain ⟨wk, qr, e⟩ := senderGone_shape
           ({ ((w.clearSlot s).dropChanRx id) with ops := eraseFirst id ((w.clearSlot s).dropChanRx id).ops })
         rw [e]; rfl)

end User
end Poster
