/-
  Lemmas/UserWorld.lean — what the small building blocks of the user side of `World` do to the record:
  each lemma rewrites one helper (`wake`, `senderGone`, `finishOp`, `sendMsg`, …) into an explicit record update
  in which only `woken` / `queueReg` (the waker bookkeeping) are left abstract.
-/
import PosterModel.World
import PosterModel.CtxRun

namespace Poster

/-! ### association lists -/

theorem lookupFirst_setAssoc_self {β} (k : Nat) (v : β) (l : List (Nat × β)) :
    lookupFirst k (World.setAssoc k v l) = some v := by
  induction l with
  | nil => simp [World.setAssoc, lookupFirst]
  | cons h t ih =>
    obtain ⟨a, b⟩ := h
    by_cases hk : a = k <;> simp [World.setAssoc, lookupFirst, hk, ih]

theorem lookupFirst_setAssoc_ne {β} (k k' : Nat) (v : β) (l : List (Nat × β)) (h : k' ≠ k) :
    lookupFirst k' (World.setAssoc k v l) = lookupFirst k' l := by
  induction l with
  | nil =>
    have : ¬ k = k' := fun e => h e.symm
    simp [World.setAssoc, lookupFirst, this]
  | cons hd t ih =>
    obtain ⟨a, b⟩ := hd
    by_cases hk : a = k
    · subst hk
      have : ¬ a = k' := fun e => h e.symm
      simp [World.setAssoc, lookupFirst, this]
    · by_cases hk' : a = k'
      · subst hk'; simp [World.setAssoc, lookupFirst, hk]
      · simp [World.setAssoc, lookupFirst, hk, hk', ih]

theorem removeFirst_none_iff {β} (k : Nat) (l : List (Nat × β)) :
    removeFirst k l = none ↔ k ∉ l.map (·.1) := by
  induction l with
  | nil => simp [removeFirst]
  | cons h t ih =>
    obtain ⟨a, b⟩ := h
    by_cases hk : a = k
    · simp [removeFirst, hk]
    · have : ¬ k = a := fun e => hk e.symm
      simp [removeFirst, hk, ih, this]

theorem removeFirst_some_iff {β} (k : Nat) (l l' : List (Nat × β)) (v : β) :
    removeFirst k l = some (v, l') ↔
      ∃ pre post, l = pre ++ (k, v) :: post ∧ k ∉ pre.map (·.1) ∧ l' = pre ++ post := by
  induction l generalizing l' with
  | nil => simp [removeFirst]
  | cons h t ih =>
    obtain ⟨a, b⟩ := h
    by_cases hk : a = k
    · subst hk
      simp only [removeFirst, if_true, Option.some.injEq, Prod.mk.injEq]
      constructor
      · rintro ⟨rfl, rfl⟩; exact ⟨[], t, by simp⟩
      · rintro ⟨pre, post, h1, h2, h3⟩
        cases pre with
        | nil => simp at h1 h3; obtain ⟨rfl, rfl⟩ := h1; exact ⟨rfl, h3.symm⟩
        | cons p pre => simp at h1 h2; exact absurd h1.1.symm (by rw [← h1.1] at h2; simp at h2)
    · simp only [removeFirst, hk, if_false, Option.map_eq_some_iff]
      constructor
      · rintro ⟨⟨o, t'⟩, h1, h2⟩
        simp only [Prod.mk.injEq] at h2
        obtain ⟨rfl, rfl⟩ := h2
        obtain ⟨pre, post, e1, e2, e3⟩ := (ih t').1 h1
        refine ⟨(a, b) :: pre, post, by simp [e1], ?_, by simp [e3]⟩
        simp only [List.map_cons, List.mem_cons, not_or]; exact ⟨fun e => hk e.symm, e2⟩
      · rintro ⟨pre, post, h1, h2, h3⟩
        cases pre with
        | nil => simp at h1; exact absurd h1.1.1 hk
        | cons p pre =>
          simp only [List.cons_append, List.cons.injEq] at h1
          obtain ⟨rfl, h1⟩ := h1
          simp only [List.map_cons, List.mem_cons, not_or] at h2
          refine ⟨(v, pre ++ post), (ih _).2 ⟨pre, post, h1, h2.2, rfl⟩, by simp [h3]⟩

theorem lookupFirst_eq_removeFirst {β} (k : Nat) (l : List (Nat × β)) :
    lookupFirst k l = (removeFirst k l).map (·.1) := by
  induction l with
  | nil => rfl
  | cons h t ih =>
    obtain ⟨a, b⟩ := h
    by_cases hk : a = k
    · simp [lookupFirst, removeFirst, hk]
    · simp only [lookupFirst, removeFirst, hk, if_false, ih, Option.map_map]; rfl

theorem lookupFirst_none_iff {β} (k : Nat) (l : List (Nat × β)) :
    lookupFirst k l = none ↔ k ∉ l.map (·.1) := by
  rw [lookupFirst_eq_removeFirst, Option.map_eq_none_iff, removeFirst_none_iff]

theorem eraseFirst_sublist {β} (k : Nat) (l : List (Nat × β)) : (eraseFirst k l).Sublist l := by
  unfold eraseFirst
  split
  · next v l' h =>
    obtain ⟨pre, post, rfl, -, rfl⟩ := (removeFirst_some_iff _ _ _ _).1 h
    exact List.Sublist.append (List.Sublist.refl _) (List.sublist_cons_self _ _)
  · exact List.Sublist.refl _

theorem lookupFirst_eraseFirst_ne {β} (k k' : Nat) (l : List (Nat × β)) (h : k' ≠ k) :
    lookupFirst k' (eraseFirst k l) = lookupFirst k' l := by
  induction l with
  | nil => rfl
  | cons hd t ih =>
    obtain ⟨a, b⟩ := hd
    by_cases hk : a = k
    · subst hk
      have : ¬ a = k' := fun e => h e.symm
      simp [eraseFirst, removeFirst, lookupFirst, this]
    · have e : eraseFirst k ((a, b) :: t) = (a, b) :: eraseFirst k t := by
        unfold eraseFirst; simp only [removeFirst, hk, if_false]
        cases removeFirst k t <;> rfl
      rw [e]; simp only [lookupFirst, ih]

theorem eraseFirst_absent {β} (k : Nat) (l : List (Nat × β)) (h : lookupFirst k l = none) : eraseFirst k l = l := by
  rw [lookupFirst_none_iff, ← removeFirst_none_iff] at h
  simp [eraseFirst, h]

/-- with pairwise distinct keys, erasing the (first) entry of a key leaves no entry with that key -/
theorem lookupFirst_eraseFirst_self {β} (k : Nat) (l : List (Nat × β)) (hn : (l.map (·.1)).Nodup) :
    lookupFirst k (eraseFirst k l) = none := by
  unfold eraseFirst
  split
  · next v l' h =>
    obtain ⟨pre, post, rfl, hpre, rfl⟩ := (removeFirst_some_iff _ _ _ _).1 h
    rw [lookupFirst_none_iff]
    simp only [List.map_append, List.map_cons, List.nodup_append, List.nodup_cons, List.mem_cons] at hn
    simp only [List.map_append, List.mem_append, not_or]
    exact ⟨hpre, hn.2.1.1⟩
  · next h => rw [lookupFirst_eq_removeFirst, h]; rfl

namespace World

/-! ### record shapes -/

theorem wake_shape (w : World) (t : Task) : ∃ wk, w.wake t = { w with woken := wk } := by
  unfold wake; split
  · exact ⟨w.woken, rfl⟩
  · exact ⟨_, rfl⟩

theorem senderGone_shape (w : World) : ∃ wk qr, w.senderGone = { w with woken := wk, queueReg := qr } := by
  unfold senderGone; split
  · obtain ⟨wk, h⟩ := w.wake_shape .ctx
    exact ⟨wk, false, by rw [h]⟩
  · exact ⟨w.woken, w.queueReg, rfl⟩

theorem finishOp_shape (w : World) (id : Nat) (r : DoneRes) :
    ∃ wk qr, w.finishOp id r =
      { w with ops := eraseFirst id w.ops, out := w.out ++ [.done id r], woken := wk, queueReg := qr } := by
  unfold finishOp
  obtain ⟨wk, qr, h⟩ := (({ w with ops := eraseFirst id w.ops }).emit (.done id r)).senderGone_shape
  exact ⟨wk, qr, by rw [h]; rfl⟩

theorem sendMsg_none (w : World) (m : Msg) (h : w.hasCtx = false) : w.sendMsg m = none := by
  simp [sendMsg, h]

theorem sendMsg_shape (w : World) (m : Msg) (h : w.hasCtx = true) :
    ∃ wk qr, w.sendMsg m = some { w with queue := w.queue ++ [m], woken := wk, queueReg := qr } := by
  unfold sendMsg
  have hh : (!w.hasCtx) = false := by simp [h]
  simp only [hh, Bool.false_eq_true, if_false]
  split
  · obtain ⟨wk, e⟩ := ({ w with queue := w.queue ++ [m] } : World).wake_shape .ctx
    exact ⟨wk, false, by rw [e]⟩
  · exact ⟨w.woken, w.queueReg, rfl⟩

/-- the common tail of every `ContextHandle` method: `sender.unbounded_send(msg)?; receiver.await` -/
def sendAwait (w : World) (m : Msg) (id s : Nat) (k : Wait) : World :=
  match w.sendMsg m with
  | none => w.finishOp id (.err .contextExited)
  | some w => w.awaitSlot id s k

theorem sendAwait_no_ctx (w : World) (m : Msg) (id s : Nat) (k : Wait) (h : w.hasCtx = false) :
    w.sendAwait m id s k = w.finishOp id (.err .contextExited) := by
  simp [sendAwait, sendMsg_none w m h]

theorem sendAwait_ctx (w : World) (m : Msg) (id s : Nat) (k : Wait) (h : w.hasCtx = true) :
    ∃ wk qr, w.sendAwait m id s k =
      { w with queue := w.queue ++ [m], ops := setAssoc id (.wait s k) w.ops,
               slots := setAssoc s Slot.empty w.slots,
               slotReg := if s ∈ w.slotReg then w.slotReg else w.slotReg ++ [s],
               woken := wk, queueReg := qr } := by
  obtain ⟨wk, qr, e⟩ := sendMsg_shape w m h
  exact ⟨wk, qr, by simp only [sendAwait, e]; rfl⟩

/-- the fields the tail of a handle method can change; everything else is untouched -/
theorem sendAwait_frame (w : World) (m : Msg) (id s : Nat) (k : Wait) :
    ∃ q o sl sr wk qr ou, w.sendAwait m id s k =
      { w with queue := q, ops := o, slots := sl, slotReg := sr, woken := wk, queueReg := qr, out := ou } := by
  by_cases h : w.hasCtx = true
  · obtain ⟨wk, qr, e⟩ := sendAwait_ctx w m id s k h
    exact ⟨_, _, _, _, wk, qr, w.out, e⟩
  · rw [sendAwait_no_ctx w m id s k (by simpa using h)]
    obtain ⟨wk, qr, e⟩ := finishOp_shape w id (.err .contextExited)
    exact ⟨w.queue, _, w.slots, w.slotReg, wk, qr, _, e⟩

@[simp] theorem finishOp_pidCtr (w : World) (id r) : (w.finishOp id r).pidCtr = w.pidCtr := by
  obtain ⟨_, _, e⟩ := finishOp_shape w id r; rw [e]
@[simp] theorem finishOp_subCtr (w : World) (id r) : (w.finishOp id r).subCtr = w.subCtr := by
  obtain ⟨_, _, e⟩ := finishOp_shape w id r; rw [e]
@[simp] theorem finishOp_queue (w : World) (id r) : (w.finishOp id r).queue = w.queue := by
  obtain ⟨_, _, e⟩ := finishOp_shape w id r; rw [e]
@[simp] theorem finishOp_out (w : World) (id r) : (w.finishOp id r).out = w.out ++ [.done id r] := by
  obtain ⟨_, _, e⟩ := finishOp_shape w id r; rw [e]
@[simp] theorem finishOp_ops (w : World) (id r) : (w.finishOp id r).ops = eraseFirst id w.ops := by
  obtain ⟨_, _, e⟩ := finishOp_shape w id r; rw [e]
@[simp] theorem finishOp_chans (w : World) (id r) : (w.finishOp id r).chans = w.chans := by
  obtain ⟨_, _, e⟩ := finishOp_shape w id r; rw [e]
@[simp] theorem finishOp_c (w : World) (id r) : (w.finishOp id r).c = w.c := by
  obtain ⟨_, _, e⟩ := finishOp_shape w id r; rw [e]
@[simp] theorem finishOp_slots (w : World) (id r) : (w.finishOp id r).slots = w.slots := by
  obtain ⟨_, _, e⟩ := finishOp_shape w id r; rw [e]
@[simp] theorem sendAwait_pidCtr (w : World) (m id s k) : (w.sendAwait m id s k).pidCtr = w.pidCtr := by
  obtain ⟨_, _, _, _, _, _, _, e⟩ := sendAwait_frame w m id s k; rw [e]
@[simp] theorem sendAwait_subCtr (w : World) (m id s k) : (w.sendAwait m id s k).subCtr = w.subCtr := by
  obtain ⟨_, _, _, _, _, _, _, e⟩ := sendAwait_frame w m id s k; rw [e]
@[simp] theorem sendAwait_chans (w : World) (m id s k) : (w.sendAwait m id s k).chans = w.chans := by
  obtain ⟨_, _, _, _, _, _, _, e⟩ := sendAwait_frame w m id s k; rw [e]
@[simp] theorem sendAwait_c (w : World) (m id s k) : (w.sendAwait m id s k).c = w.c := by
  obtain ⟨_, _, _, _, _, _, _, e⟩ := sendAwait_frame w m id s k; rw [e]

/-! ### `startOp`, request by request -/

theorem startOp_publish0 (w : World) (id : Nat) (t : PublishTx) (hq : t.qos = 0) :
    w.startOp id (.publish t) =
      if !t.valid then w.finishOp id (.err .codecError) else w.sendAwait (.ff t.encode (2 * id)) id (2 * id) .ff := by
  simp only [startOp, hq, if_true]; rfl

theorem startOp_publish12 (w : World) (id : Nat) (t : PublishTx) (hq : t.qos ≠ 0) :
    w.startOp id (.publish t) =
      if !({ t with packetId := some w.pidCtr } : PublishTx).valid then
        (w.allocPid.2).finishOp id (.err .codecError)
      else (w.allocPid.2).sendAwait
        (.awaitAck (actionId (if t.qos = 1 then 4 else 5) w.pidCtr) ({ t with packetId := some w.pidCtr } : PublishTx).encode (2 * id))
        id (2 * id) (if t.qos = 1 then .puback else .pubrec) := by
  simp only [startOp, hq, if_false]; rfl

theorem startOp_subscribe (w : World) (id : Nat) (t : SubscribeTx) :
    w.startOp id (.subscribe t) =
      let w1 := (w.allocPid.2).allocSub.2
      let t' : SubscribeTx := { t with packetId := w.pidCtr, subId := some w.subCtr }
      if !t'.valid then w1.finishOp id (.err .codecError) else
      match (w1.setChan id {}).sendMsg (.subscribe (actionId 9 w.pidCtr) w.subCtr t'.encode (2 * id) id) with
      | none => ((w1.setChan id {}).dropChanRx id).finishOp id (.err .contextExited)
      | some w => w.awaitSlot id (2 * id) .suback := rfl

theorem startOp_unsubscribe (w : World) (id : Nat) (t : UnsubscribeTx) :
    w.startOp id (.unsubscribe t) =
      if !({ t with packetId := w.pidCtr } : UnsubscribeTx).valid then (w.allocPid.2).finishOp id (.err .codecError)
      else (w.allocPid.2).sendAwait
        (.awaitAck (actionId 11 w.pidCtr) ({ t with packetId := w.pidCtr } : UnsubscribeTx).encode (2 * id))
        id (2 * id) .unsuback := rfl

theorem startOp_ping (w : World) (id : Nat) :
    w.startOp id .ping = w.sendAwait (.awaitAck (actionId 13 0) pingreqBytes (2 * id)) id (2 * id) .pingresp := rfl

theorem startOp_disconnect (w : World) (id : Nat) (t : DisconnectTx) :
    w.startOp id (.disconnect t) = w.sendAwait (.ff t.encode (2 * id)) id (2 * id) .ff := rfl

end World
end Poster
