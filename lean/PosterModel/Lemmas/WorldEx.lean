/-
  Lemmas/WorldEx.lean — concrete worlds and frames used by the non-vacuity examples of
  Properties/C04, C13, C14, C15, C16.
-/
import PosterModel.Lemmas.WorldPanic
import PosterModel.Lemmas.WorldDrop

set_option linter.unusedVariables false
set_option linter.unusedSimpArgs false

namespace Poster
open Framing
namespace Ex

/-- a serving client: one handle, operation 1 waiting (registered) for the PUBACK of packet 1, operation 5 not
    yet polled, stream 3 subscribed under identifier 7 and registered, nothing to read, framing idle -/
def wRun : World :=
  { hasCtx := true, handles := [0], task := .running true,
    ops := [(1, .wait 2 .puback), (5, .fresh 0 .ping)], slots := [(2, .empty)], slotReg := [2],
    c := { awaiting := [(actionId 4 1, 2)], subs := [(7, 3)] },
    chans := [(3, { buf := [], reg := true })], streams := [3] }

/-- CONNACK, reason 0, no properties -/
def connackOk : Bytes := [0x20, 3, 0, 0, 0]
/-- CONNACK, reason 0x87 (not authorized) -/
def connackRefused : Bytes := [0x20, 3, 0, 0x87, 0]
/-- CONNACK, reason 0, property "subscription identifiers available" = 0 -/
def connackNoSubId : Bytes := [0x20, 5, 0, 0, 2, 0x29, 0]
/-- server DISCONNECT, short form (reason 0) -/
def disconnect0 : Bytes := [0xE0, 0]
/-- server DISCONNECT, reason 0x8B (server shutting down) -/
def disconnect8B : Bytes := [0xE0, 1, 0x8B]
/-- PINGRESP -/
def pingresp : Bytes := [0xD0, 0]
/-- a PUBACK-typed frame that is too short to decode -/
def badPuback : Bytes := [0x40, 0]

/-- `connect()` awaiting its first response, with `fr` delivered by the transport in one read -/
def wConn (fr : Bytes) : World :=
  { hasCtx := true, handles := [0], task := .connecting .connect {} {} true, reader := [.data fr] }

/-- `run()` serving, one handle alive, `evs` pending at the transport -/
def wServe (evs : List ReadEv) : World :=
  { hasCtx := true, handles := [0], task := .running true, reader := evs }

/-- `run()` with the user's DISCONNECT queued (oneshot 4) and a PINGREQ behind it (oneshot 6) -/
def wBye : World :=
  { hasCtx := true, handles := [0], task := .running true,
    ops := [(2, .wait 4 .ff), (3, .wait 6 .pingresp)], slots := [(4, .empty), (6, .empty)], slotReg := [4, 6],
    queue := [.ff [0xE0, 0] 4, .awaitAck (actionId 13 0) pingreqBytes 6] }

theorem pollNext_whole (fr : Bytes) (h2 : 2 ≤ fr.length) (h512 : fr.length ≤ 512)
    (hf : frameLen fr = .ok fr.length 1) :
    pollNext {} [.data fr] = ({}, [], .item fr) := by
  have h0 : ¬ fr.length = 0 := by omega
  rw [pollNext]
  simp only [h0, cap, List.length_nil, Nat.zero_sub, Nat.zero_lt_succ, ↓reduceIte, h512,
    List.nil_append, h2, ge_iff_le, ↓reduceDIte]
  rw [pollNext]; simp only [hf]
  rw [pollNext]; simp

def kOk : ConnackRx := { sessionPresent := false, reason := 0 }
def kRefused : ConnackRx := { sessionPresent := false, reason := 0x87 }
def kNoSubId : ConnackRx := { sessionPresent := false, reason := 0, subIdAvail := false }

theorem dec_connackOk : decodeRx connackOk = .ok (.connack kOk) := by decide
theorem dec_connackRefused : decodeRx connackRefused = .ok (.connack kRefused) := by decide
theorem dec_connackNoSubId : decodeRx connackNoSubId = .ok (.connack kNoSubId) := by decide
theorem dec_disconnect0 : decodeRx disconnect0 = .ok (.disconnect {}) := by decide
theorem dec_disconnect8B : decodeRx disconnect8B = .ok (.disconnect { reason := 0x8B }) := by decide
theorem dec_pingresp : decodeRx pingresp = .ok .pingresp := by decide
theorem dec_badPuback : decodeRx badPuback = .err := by decide

theorem pn_connackOk : pollNext {} [.data connackOk] = ({}, [], .item connackOk) :=
  pollNext_whole _ (by decide) (by decide) (by decide)
theorem pn_connackRefused : pollNext {} [.data connackRefused] = ({}, [], .item connackRefused) :=
  pollNext_whole _ (by decide) (by decide) (by decide)
theorem pn_connackNoSubId : pollNext {} [.data connackNoSubId] = ({}, [], .item connackNoSubId) :=
  pollNext_whole _ (by decide) (by decide) (by decide)
theorem pn_disconnect0 : pollNext {} [.data disconnect0] = ({}, [], .item disconnect0) :=
  pollNext_whole _ (by decide) (by decide) (by decide)
theorem pn_disconnect8B : pollNext {} [.data disconnect8B] = ({}, [], .item disconnect8B) :=
  pollNext_whole _ (by decide) (by decide) (by decide)
theorem pn_pingresp : pollNext {} [.data pingresp] = ({}, [], .item pingresp) :=
  pollNext_whole _ (by decide) (by decide) (by decide)
theorem pn_badPuback : pollNext {} [.data badPuback] = ({}, [], .item badPuback) :=
  pollNext_whole _ (by decide) (by decide) (by decide)
theorem pn_eof : pollNext {} [.eof] = ({}, [.eof], .none) := by rw [pollNext]
theorem pn_pending : pollNext {} [.data [0x20]] = ({ valid := [0x20] }, [], .pending) := by
  simp [pollNext, cap]

/-- stream 3 with two messages buffered and the sending half already gone -/
def wDrain : World :=
  { streams := [3],
    chans := [(3, { buf := [{ topic := [0x61] }, { topic := [0x62] }], txAlive := false })] }

/-- a session with a flow-control window of 10 of which 4 are free, QoS 1 packet 1 in flight (waiter: oneshot 2) -/
def cFlight : Ctx :=
  { awaiting := [(actionId 4 1, 2)], retx := [(actionId 4 1, [0x32, 0])], quota := 4, recvMax := 10 }

end Ex
end Poster
