/-
  Lemmas/WorldIdsErr.lean — work package W10, part 6: where the values held by the oneshots come from (C12, item 7).

    * `FullVia P w w'`     every filled oneshot entry `(s, full v)` of `w'` was already an entry of `w`, or `P s v`
    * user side (`pollOp`, `dropOp`, `pollStream`, script events): `FullVia (fun _ _ => False)` — the user side never fills a
      oneshot
    * context side: a handler fills a oneshot only with a value it sends
    * `during_errSize_origin`   at every moment of every execution, a oneshot entry holding `MaximumPacketSizeExceeded` was
      put there by an iteration of `run()` that refused a request for its size
-/
import PosterModel.Lemmas.WorldIdsMax

set_option linter.unusedVariables false
set_option linter.unusedSimpArgs false
set_option linter.unnecessarySimpa false

namespace Poster
open Framing
namespace World
namespace W10
open W7

/-- every filled oneshot entry of `w'` was an entry of `w`, or satisfies `P` -/
def FullVia (P : Nat → SlotVal → Prop) (w w' : World) : Prop :=
  ∀ s v, (s, Slot.full v) ∈ w'.slots → (s, Slot.full v) ∈ w.slots ∨ P s v

theorem FullVia.of_slots_eq {P : Nat → SlotVal → Prop} {w w' : World} (h : w'.slots = w.slots) : FullVia P w w' :=
  fun s v hm => Or.inl (by rw [← h]; exact hm)

theorem FullVia.refl (P : Nat → SlotVal → Prop) (w : World) : FullVia P w w := .of_slots_eq rfl

theorem FullVia.trans {P : Nat → SlotVal → Prop} {a b c : World} (h1 : FullVia P a b) (h2 : FullVia P b c) :
    FullVia P a c := by
  intro s v hm
  rcases h2 s v hm with h | h
  · exact h1 s v h
  · exact Or.inr h

theorem FullVia.mono {P Q : Nat → SlotVal → Prop} {a b : World} (h : FullVia P a b) (hpq : ∀ s v, P s v → Q s v) :
    FullVia Q a b := by
  intro s v hm
  rcases h s v hm with h | h
  · exact Or.inl h
  · exact Or.inr (hpq s v h)

/-- the oneshot table loses an entry, or an entry is (re)set to something that is not a value -/
theorem FullVia.of_sublist {P : Nat → SlotVal → Prop} {w w' : World} (h : w'.slots.Sublist w.slots) : FullVia P w w' :=
  fun s v hm => Or.inl (h.subset hm)

theorem fullVia_setAssoc {P : Nat → SlotVal → Prop} {w w' : World} (k : Nat) (x : Slot)
    (h : w'.slots = setAssoc k x w.slots) (hx : ∀ v, x = .full v → P k v) : FullVia P w w' := by
  intro s v hm
  rw [h] at hm
  rcases User.mem_setAssoc hm with e | e
  · simp only [Prod.mk.injEq] at e
    obtain ⟨rfl, e2⟩ := e
    exact Or.inr (hx v e2.symm)
  · exact Or.inl e

/-! ## the context side -/

theorem sendSlot_fullVia (w : World) (s : Nat) (v : SlotVal) :
    FullVia (fun s' v' => s' = s ∧ v' = v) w (w.sendSlot s v) := by
  by_cases he : w.slot s = some .empty
  · obtain ⟨wk, sr, e⟩ := User.sendSlot_shape w s v he
    rw [e]
    exact fullVia_setAssoc s (.full v) rfl (fun v' h => by cases h; exact ⟨rfl, rfl⟩)
  · rw [User.sendSlot_noop w s v he]; exact .refl _ w

theorem dropSlotTx_fullVia (P : Nat → SlotVal → Prop) (w : World) (s : Nat) : FullVia P w (w.dropSlotTx s) := by
  rw [dropSlotTx_eq]
  split
  · exact fullVia_setAssoc s .closed rfl (fun v' h => by cases h)
  · exact .refl _ w

theorem applyEff_fullVia (w : World) (e : Eff) : FullVia (fun s v => e = .send s v) w (w.applyEff e) := by
  cases e with
  | write bs => exact .of_slots_eq (by simp [applyEff])
  | send s v => exact (sendSlot_fullVia w s v).mono (fun s' v' h => by rw [h.1, h.2])
  | dropSlot s => exact dropSlotTx_fullVia _ w s
  | deliver c p => exact .of_slots_eq (by simp [applyEff])
  | dropChan c => exact .of_slots_eq (by simp [applyEff])

theorem applyEffs_fullVia (w : World) (es : List Eff) :
    FullVia (fun s v => (s, v) ∈ sendsOf es) w (w.applyEffs es) := by
  unfold applyEffs
  induction es generalizing w with
  | nil => exact .refl _ w
  | cons e t ih =>
    simp only [List.foldl_cons]
    refine FullVia.trans ((applyEff_fullVia w e).mono ?_) ((ih (w.applyEff e)).mono ?_)
    · intro s v h; exact (mem_sendsOf_cons e t s v).2 (Or.inl h)
    · intro s v h; exact (mem_sendsOf_cons e t s v).2 (Or.inr h)

theorem runHandler_fullVia (w : World) (h : Bool → Ctx × List Eff × Flow) :
    ∃ b, FullVia (fun s v => (s, v) ∈ sendsOf (h b).2.1) w (w.runHandler h).1 := by
  refine ⟨w.canWrite (writeNeed (h true).2.1), ?_⟩
  rw [runHandler_eq]
  exact FullVia.trans (.of_slots_eq rfl) (applyEffs_fullVia ({ w with c := _ }) _)

/-- a oneshot entry holding `MaximumPacketSizeExceeded` -/
def ErrIn (w : World) (s : Nat) : Prop := (s, Slot.full SlotVal.errSize) ∈ w.slots

theorem errIn_of_slot {w : World} {s : Nat} (h : w.slot s = some (.full .errSize)) : ErrIn w s :=
  User.lookupFirst_mem s _ w.slots h

theorem errIn_congr {w w' : World} (h : w'.slots = w.slots) (s : Nat) : ErrIn w' s ↔ ErrIn w s := by
  unfold ErrIn; rw [h]

theorem msgStep_errIn (w : World) (m : Msg) (q : List Msg) (hq : w.queue = m :: q) (s : Nat)
    (h : ErrIn (headStep w m q).1 s) : ErrIn w s ∨ RefusedAt w s := by
  obtain ⟨b, hv⟩ := runHandler_fullVia ({ w with queue := q }) (fun wok => w.c.handleMsg m wok)
  rcases hv s _ h with h1 | h1
  · exact Or.inl h1
  · right
    exact ⟨m, q, hq, ((msg_replies_only_to_its_own_slot w.c m b s _ h1).1).symm,
      (handleMsg_errSize_iff w.c m b).1 ⟨s, h1⟩⟩

theorem pktStep_errIn (w : World) (rx' : Rx) (rd' : List ReadEv) (p : RxPacket) (s : Nat)
    (h : ErrIn (({ w with rx := rx', reader := rd' }).runHandler (fun wok => w.c.handlePkt w.chanRxAlive p wok)).1 s) :
    ErrIn w s := by
  obtain ⟨b, hv⟩ := runHandler_fullVia ({ w with rx := rx', reader := rd' })
    (fun wok => w.c.handlePkt w.chanRxAlive p wok)
  rcases hv s _ h with h1 | h1
  · exact h1
  · obtain ⟨h2, _⟩ := (only_own_ack_completes w.c w.chanRxAlive p b).2.2 s _ h1
    cases h2

theorem runCont_errIn {w w1 : World} (h : RunCont w w1) (s : Nat) (h1 : ErrIn w1 s) : ErrIn w s ∨ RefusedAt w s := by
  cases h with
  | msg m q w1 hq hr =>
    have e : w1 = (headStep w m q).1 := by unfold headStep; rw [hr]
    subst e; exact msgStep_errIn w m q hq s h1
  | pkt rx' rd' fr p w1 hq hs hp hd hr =>
    have e : w1 = (World.runHandler { w with rx := rx', reader := rd' }
        (fun wok => w.c.handlePkt w.chanRxAlive p wok)).1 := by rw [hr]
    subst e; exact Or.inl (pktStep_errIn w rx' rd' p s h1)

theorem runEnd_errIn {w r : World} (h : RunEnd w r) (s : Nat) (h1 : ErrIn r s) : ErrIn w s ∨ RefusedAt w s := by
  cases h with
  | msgExit m q w1 fl hq hr hne =>
    have e : w1 = (headStep w m q).1 := by unfold headStep; rw [hr]
    subst e; exact msgStep_errIn w m q hq s h1
  | closed hq hs => exact Or.inl h1
  | pktExit rx' rd' fr p w1 fl hq hs hp hd hr hne =>
    have e : w1 = (World.runHandler { w with rx := rx', reader := rd' }
        (fun wok => w.c.handlePkt w.chanRxAlive p wok)).1 := by rw [hr]
    subst e; exact Or.inl (pktStep_errIn w rx' rd' p s h1)
  | codec rx' rd' fr hq hs hp hd => exact Or.inl h1
  | panic rx' rd' fr hq hs hp hd => exact Or.inl h1
  | sock rx' rd' hq hs hp => exact Or.inl h1
  | pending rx' rd' hq hs hp =>
    left
    by_cases hrd : rd' = []
    · rw [if_pos hrd] at h1; exact h1
    · rw [if_neg hrd] at h1; exact (errIn_congr (by simp) s).1 h1

theorem serve_errIn {w wm : World} (hs : Serve w wm) (s : Nat) (h1 : ErrIn wm s) :
    ErrIn w s ∨ ∃ wk, Serve w wk ∧ RefusedAt wk s := by
  induction hs with
  | refl w => exact Or.inl h1
  | @step a b c hc hs' ih =>
    rcases ih h1 with h | ⟨wk, h2, h3⟩
    · rcases runCont_errIn hc s h with h | h
      · exact Or.inl h
      · exact Or.inr ⟨a, .refl a, h⟩
    · exact Or.inr ⟨wk, .step hc h2, h3⟩

theorem runLoop_errIn (f : Nat) (w : World) (s : Nat) (h1 : ErrIn (runLoop f w) s) :
    ErrIn w s ∨ ∃ wk, Serve w wk ∧ RefusedAt wk s := by
  obtain ⟨wm, hs, he⟩ := runLoop_decomp f w
  rcases he with he | he
  · rw [he] at h1; exact serve_errIn hs s h1
  · rcases runEnd_errIn he s h1 with h | h
    · exact serve_errIn hs s h
    · exact Or.inr ⟨wm, hs, h⟩

/-- the effects of session resumption send nothing -/
theorem resume_sends_nothing (c : Ctx) : sendsOf c.resume.2.1 = [] := by
  unfold Ctx.resume
  split
  · rfl
  · rename_i el _
    by_cases hx : c.sessionExpired el = true
    · simp only [hx, ↓reduceIte, Ctx.resetSession]
      rw [sendsOf_append]
      have h1 : ∀ (l : List (Nat × Nat)), sendsOf (l.map (fun x => Eff.dropSlot x.2)) = [] := by
        intro l; induction l with
        | nil => rfl
        | cons x t ih => simpa [sendsOf] using ih
      have h2 : ∀ (l : List (Nat × Nat)), sendsOf (l.map (fun x => Eff.dropChan x.2)) = [] := by
        intro l; induction l with
        | nil => rfl
        | cons x t ih => simpa [sendsOf] using ih
      rw [h1, h2]; rfl
    · simp [hx]

theorem resumed_errIn (w : World) (s : Nat) (h : ErrIn w.resumed s) : ErrIn w s := by
  have hv := applyEffs_fullVia ({ w with c := w.c.resume.1, task := .running true } : World) w.c.resume.2.1
  rcases hv s _ h with h1 | h1
  · exact h1
  · rw [resume_sends_nothing] at h1; cases h1

/-- **One poll of the context task creates a oneshot entry holding `MaximumPacketSizeExceeded` only by refusing a request
    for its size** (entry form of `pollCtx_errSize`). -/
theorem pollCtx_errIn (w : World) (s : Nat) (h1 : ErrIn w.pollCtx s) :
    ErrIn w s ∨ ∃ started wm, w.task = .running started ∧ InPoll w started wm ∧ RefusedAt wm s := by
  cases ht : w.task with
  | none =>
    have e : w.pollCtx = w := by simp [pollCtx, ht]
    rw [e] at h1; exact Or.inl h1
  | connecting call t a started =>
    left
    have e : w.pollCtx = w.pollConnect call t a started := by simp [pollCtx, ht]
    rw [e] at h1
    have fe : ∀ (w0 : World), (w0.awaitFirst call t a).slots = w0.slots := by
      intro w0
      rcases firstEnd_out (awaitFirst_spec w0 call t a) with ⟨_, _, a3, _⟩ | ⟨_, _, _, a4, _⟩
      · exact a3
      · exact a4
    cases started with
    | true =>
      simp only [pollConnect, ↓reduceIte] at h1
      exact (errIn_congr (fe w) s).1 h1
    | false =>
      rcases pollConnect_prelude w call t a with ⟨_, h2⟩ | ⟨_, w0, _, _, _, _, a5, _, _, h2 | h2⟩
      · rw [h2] at h1; exact (errIn_congr (by simp) s).1 h1
      · rw [h2] at h1; exact (errIn_congr a5 s).1 ((errIn_congr (fe w0) s).1 h1)
      · rw [h2] at h1
        have : (w0.finish call (.err .socketClosed)).slots = w.slots := by simpa using a5
        exact (errIn_congr this s).1 h1
  | running started =>
    have e : w.pollCtx = w.pollRun started := by simp [pollCtx, ht]
    rw [e] at h1
    cases started with
    | true =>
      simp only [pollRun, ↓reduceIte] at h1
      rcases runLoop_errIn _ w s h1 with h | ⟨wk, h2, h3⟩
      · exact Or.inl h
      · exact Or.inr ⟨true, wk, rfl, ⟨w, fun _ => rfl, fun h => (by cases h), h2⟩, h3⟩
    | false =>
      rw [pollRun_first_eq] at h1
      cases hcw : w.resumed.canWrite ((w.c.resume.2.2.map List.length).sum) with
      | true =>
        simp only [hcw, ↓reduceIte] at h1
        rcases runLoop_errIn _ w.resent s h1 with h | ⟨wk, h2, h3⟩
        · exact Or.inl (resumed_errIn w s ((errIn_congr (resent_slots w) s).1 h))
        · exact Or.inr ⟨false, wk, rfl, ⟨w.resent, fun h => (by cases h), fun _ => ⟨hcw, rfl⟩, h2⟩, h3⟩
      | false =>
        left
        simp only [hcw, Bool.false_eq_true, ↓reduceIte] at h1
        have : ((w.resumed.writeBytes w.c.resume.2.2.flatten).finish .run (.err .socketClosed)).slots =
            w.resumed.slots := by simp
        exact resumed_errIn w s ((errIn_congr this s).1 h1)

/-! ## the user side never fills a oneshot -/

abbrev NoFill : Nat → SlotVal → Prop := fun _ _ => False

theorem clearSlot_noFill (w : World) (s : Nat) : FullVia NoFill w (w.clearSlot s) :=
  .of_sublist (by simpa using User.eraseFirst_sublist s w.slots)

theorem finishOp_noFill (w : World) (id : Nat) (r : DoneRes) : FullVia NoFill w (w.finishOp id r) :=
  .of_slots_eq (by simp)

theorem sendAwait_noFill (w : World) (m : Msg) (id s : Nat) (k : Wait) : FullVia NoFill w (w.sendAwait m id s k) := by
  by_cases hc : w.hasCtx = true
  · obtain ⟨wk, qr, e⟩ := User.sendAwait_ctx w m id s k hc
    rw [e]
    exact fullVia_setAssoc s .empty rfl (fun v h => by cases h)
  · rw [User.sendAwait_no_ctx w m id s k (by simpa using hc)]
    exact finishOp_noFill _ _ _

theorem startOp_noFill (w : World) (id : Nat) (req : Req) : FullVia NoFill w (w.startOp id req) := by
  have al : FullVia NoFill w w.allocPid.2 := .of_slots_eq rfl
  cases req with
  | publish t =>
    by_cases hq : t.qos = 0
    · rw [User.startOp_publish0 w id t hq]
      split
      · exact finishOp_noFill _ _ _
      · exact sendAwait_noFill _ _ _ _ _
    · rw [User.startOp_publish12 w id t hq]
      split
      · exact al.trans (finishOp_noFill _ _ _)
      · exact al.trans (sendAwait_noFill _ _ _ _ _)
  | subscribe t =>
    rw [User.startOp_subscribe]
    simp only
    have h1 : FullVia NoFill w ((w.allocPid.2).allocSub.2) := .of_slots_eq rfl
    split
    · exact h1.trans (finishOp_noFill _ _ _)
    · have h2 : FullVia NoFill w (((w.allocPid.2).allocSub.2).setChan id {}) := .of_slots_eq rfl
      generalize ((w.allocPid.2).allocSub.2).setChan id {} = w2 at h2 ⊢
      have h3 := sendAwait_noFill w2
        (.subscribe (actionId 9 w.pidCtr) w.subCtr
          ({ t with packetId := w.pidCtr, subId := some w.subCtr } : SubscribeTx).encode (2 * id) id) id (2 * id) .suback
      cases hm : World.sendMsg w2 _ with
      | none => exact (h2.trans (.of_slots_eq (by simp [dropChanRx]))).trans (finishOp_noFill _ _ _)
      | some w3 =>
        simp only
        simp only [sendAwait, hm] at h3
        exact h2.trans h3
  | unsubscribe t =>
    rw [User.startOp_unsubscribe]
    split
    · exact al.trans (finishOp_noFill _ _ _)
    · exact al.trans (sendAwait_noFill _ _ _ _ _)
  | ping => rw [User.startOp_ping]; exact sendAwait_noFill _ _ _ _ _
  | disconnect t => rw [User.startOp_disconnect]; exact sendAwait_noFill _ _ _ _ _

theorem resumeOp_noFill (w : World) (id s : Nat) (k : Wait) (v : SlotVal) : FullVia NoFill w (w.resumeOp id s k v) := by
  have hc := clearSlot_noFill w s
  have fin : ∀ r, FullVia NoFill w ((w.clearSlot s).finishOp id r) := fun r => hc.trans (finishOp_noFill _ _ _)
  cases v with
  | errSize => exact fin _
  | errQuota => exact fin _
  | unit => simp only [resumeOp]; split <;> exact fin _
  | pkt p =>
    cases ha : Wait.accepts k p with
    | false =>
      rw [resumeOp_mismatch w id s k p ha]
      exact hc.trans (.of_slots_eq (by simp))
    | true =>
      cases k <;> cases p <;> simp [Wait.accepts] at ha <;> simp only [resumeOp]
      · split <;> exact fin _
      · rename_i a
        split
        · exact fin _
        · exact hc.trans (sendAwait_noFill (w.clearSlot s) _ id (s + 1) .pubcomp)
      · split <;> exact fin _
      · exact hc.trans (.of_slots_eq (by simp))
      · exact fin _
      · exact fin _

theorem pollOp_noFill (w : World) (id : Nat) : FullVia NoFill w (w.pollOp id) := by
  unfold pollOp
  split
  · exact .refl _ w
  · exact startOp_noFill _ _ _
  · split
    · exact resumeOp_noFill _ _ _ _ _
    · exact (clearSlot_noFill w _).trans (finishOp_noFill _ _ _)
    · exact .of_slots_eq rfl

theorem dropOp_noFill (w : World) (id : Nat) : FullVia NoFill w (w.dropOp id) := by
  unfold dropOp
  split
  · exact .refl _ w
  · exact .of_slots_eq (by simp)
  · rename_i s k _
    simp only
    refine FullVia.trans (clearSlot_noFill w s) (.of_slots_eq ?_)
    cases k <;> simp [dropChanRx]

theorem pollStream_noFill (w : World) (id : Nat) : FullVia NoFill w (w.pollStream id) :=
  .of_slots_eq (pollStream_ops_slots w id).2

theorem closes_noFill {w w' : World} (h : Closes w w') : FullVia NoFill w w' := by
  induction h with
  | refl => exact .refl _ _
  | slot s _ ih => exact ih.trans (dropSlotTx_fullVia _ _ s)
  | chan c _ ih => exact ih.trans (.of_slots_eq (by simp))

/-- a script event other than a poll never fills a oneshot -/
theorem apply_noFill (w : World) (e : Ev) (he : ∀ t, e ≠ .poll t) : FullVia NoFill w (w.apply e) := by
  cases e with
  | poll t => exact absurd rfl (he t)
  | dropCtx =>
    cases hc : w.hasCtx with
    | false => simp only [World.apply, hc, Bool.not_false, ↓reduceIte]; exact .of_slots_eq rfl
    | true =>
      rw [apply_dropCtx w hc]
      have h1 : FullVia NoFill w (dropCtxStart w) := .of_slots_eq rfl
      have h2 := closes_noFill (closes_dropCtxClosed w)
      exact (h1.trans h2).trans (.of_slots_eq rfl)
  | drop t =>
    cases t with
    | ctx => exact .refl _ w
    | op id => exact dropOp_noFill w id
    | st id => simp only [World.apply]; split <;> exact .of_slots_eq (by simp [dropChanRx])
  | setup =>
    simp only [World.apply]
    split
    · exact .of_slots_eq rfl
    · split
      · split <;> exact .of_slots_eq rfl
      · exact .of_slots_eq (by simp [(flushRaw_ops_slots w).2])
  | connect t => simp only [World.apply]; split <;> exact .of_slots_eq (by simp [badScript])
  | authorize a => simp only [World.apply]; split <;> exact .of_slots_eq (by simp [badScript])
  | run => simp only [World.apply]; split <;> exact .of_slots_eq (by simp [badScript])
  | dropFut => exact .of_slots_eq rfl
  | markDisc secs => simp only [World.apply]; split <;> exact .of_slots_eq rfl
  | snap => simp only [World.apply]; split <;> exact .of_slots_eq rfl
  | feed chunks => simp only [World.apply]; split <;> exact .of_slots_eq (by simp [badScript, (feedEvents_ops_slots _ _).2])
  | feedEof => simp only [World.apply]; split <;> exact .of_slots_eq (by simp [badScript, (feedEvents_ops_slots _ _).2])
  | feedErr => simp only [World.apply]; split <;> exact .of_slots_eq (by simp [badScript, (feedEvents_ops_slots _ _).2])
  | op id h req => simp only [World.apply]; split <;> exact .of_slots_eq (by simp [badScript])
  | hold t => simp only [World.apply]; split <;> exact .of_slots_eq rfl
  | release t => exact .of_slots_eq rfl
  | dropRsp id => simp only [World.apply]; split <;> exact .of_slots_eq (by simp [dropChanRx])
  | stream id => simp only [World.apply]; split <;> exact .of_slots_eq (by simp [badScript])
  | clone h h2 => simp only [World.apply]; split <;> exact .of_slots_eq rfl
  | dropHandle h => simp only [World.apply]; split <;> exact .of_slots_eq (by simp [badScript])

/-- **At every moment of every execution, a oneshot entry holding `MaximumPacketSizeExceeded` stems from a refusal.** There
    was an earlier moment `w0` at which `run()` was executing; in the poll of the context task from `w0`, the iteration that
    started in some world `wm` found at the head of the queue a request carrying this oneshot whose packet exceeded the
    limit in force in `wm`; and `w` is reached from the world after that poll. -/
theorem during_errSize_origin {cfg : Cfg} {w : World} (hd : During cfg w) (s : Nat) (h : ErrIn w s) :
    ∃ w0 started wm, During cfg w0 ∧ w0.task = .running started ∧ InPoll w0 started wm ∧ RefusedAt wm s ∧
      Reaches w0.pollCtx w := by
  induction hd with
  | init => simp [ErrIn] at h
  | @next w w' hd hm ih =>
    have hm0 := hm
    have old : ErrIn w s → ∃ w0 started wm, During cfg w0 ∧ w0.task = .running started ∧ InPoll w0 started wm ∧
        RefusedAt wm s ∧ Reaches w0.pollCtx w' := by
      intro h0
      obtain ⟨w0, st, wm, a1, a2, a3, a4, a5⟩ := ih h0
      exact ⟨w0, st, wm, a1, a2, a3, a4, a5.tail hm0⟩
    have viaNoFill : FullVia NoFill w w' → ∃ w0 started wm, During cfg w0 ∧ w0.task = .running started ∧
        InPoll w0 started wm ∧ RefusedAt wm s ∧ Reaches w0.pollCtx w' := by
      intro hv
      rcases hv s _ h with h0 | h0
      · exact old h0
      · exact h0.elim
    cases hm with
    | ctx =>
      rcases pollCtx_errIn w s h with h0 | ⟨st, wm, a2, a3, a4⟩
      · exact old h0
      · exact ⟨w, st, wm, hd, a2, a3, a4, .refl _⟩
    | user t ht =>
      cases t with
      | ctx => exact absurd rfl ht
      | op id => exact viaNoFill (FullVia.trans (.of_slots_eq rfl) (pollOp_noFill (w.unwake (.op id)) id))
      | st id => exact viaNoFill (FullVia.trans (.of_slots_eq rfl) (pollStream_noFill (w.unwake (.st id)) id))
    | unwake t => exact viaNoFill (.of_slots_eq rfl)
    | ev e hp hb => exact viaNoFill (FullVia.trans (.of_slots_eq rfl) (apply_noFill (w.emit (.ev e)) e hp))
    | logged t hb => exact viaNoFill (.of_slots_eq rfl)
    | stall => exact viaNoFill (.of_slots_eq rfl)
    | flush => exact viaNoFill (.of_slots_eq (flushRaw_ops_slots w).2)

end W10
end World
end Poster
