/-
  Lemmas/TxConnect.lean — CONNECT: lengths, layout, and the body parses to the caller's values.
  Split per block: properties, connect flags, will, user name / password, then the composition.
-/
import PosterModel.Lemmas.CodecTx

namespace Poster
open Spec

/-! ## properties and will properties -/

theorem connectProps_typeOk (t : ConnectTx) : ∀ p ∈ connectProps t, TypeOk p := by
  unfold connectProps; props_fields; simp [TypeOk]

theorem connect_propertyLen_eq (t : ConnectTx) : t.propertyLen = (encProps (connectProps t)).length := by
  rw [← propsLen_eq_length _ (connectProps_typeOk t)]
  simp only [ConnectTx.propertyLen, connectProps, propsLen_append, oLen_pNum, oLen_pBool, oLen_pStr, userLen_eq]

theorem willProps_typeOk (t : ConnectTx) : ∀ p ∈ willProps t, TypeOk p := by
  unfold willProps; props_fields; simp [TypeOk]

theorem connect_willPropertyLen_eq (t : ConnectTx) : t.willPropertyLen = (encProps (willProps t)).length := by
  rw [← propsLen_eq_length _ (willProps_typeOk t)]
  simp only [ConnectTx.willPropertyLen, willProps, propsLen_append, oLen_pNum, oLen_pBool, oLen_pStr, userLen_eq]

theorem connectProps_wf (t : ConnectTx) (hd : ConnectInDomain t) : ∀ p ∈ connectProps t, PropWF p := by
  unfold connectProps; props_fields
  refine ⟨?_, ?_, ?_, ?_, ?_, ?_, ?_, ?_, ?_⟩
  · intro a ha; have := hd.sessionExpiry a ha; simp [PropWF, nonZeroProp]; omega
  · intro a ha; have := hd.receiveMaximum a ha; simp [PropWF, nonZeroProp]; omega
  · intro a ha; have := hd.maxPacketSize a ha; simp [PropWF, nonZeroProp]; omega
  · intro a ha; have := hd.topicAliasMax a ha; simp [PropWF, nonZeroProp]; omega
  · intro a _; simp [PropWF]
  · intro a _; simp [PropWF]
  · intro a ha; have := hd.authMethod a ha; simp [PropWF, StrOk] at *; omega
  · intro a ha; have := hd.authData a ha; simp [PropWF, StrOk] at *; omega
  · intro kv hkv; have := hd.userProps kv hkv; simp [PropWF]; omega

theorem willProps_wf (t : ConnectTx) (hd : ConnectInDomain t) : ∀ p ∈ willProps t, PropWF p := by
  unfold willProps; props_fields
  refine ⟨?_, ?_, ?_, ?_, ?_, ?_, ?_⟩
  · intro a ha; have := hd.willDelay a ha; simp [PropWF, nonZeroProp]; omega
  · intro a _; simp [PropWF]
  · intro a ha; have := hd.willMei a ha; simp [PropWF, nonZeroProp]; omega
  · intro a ha; have := hd.willContentType a ha; simp [PropWF, StrOk] at *; omega
  · intro a ha; have := hd.willResponseTopic a ha; simp [PropWF, StrOk] at *; omega
  · intro a ha; have := hd.willCorrelationData a ha; simp [PropWF, StrOk] at *; omega
  · intro kv hkv; have := hd.willUserProps kv hkv; simp [PropWF]; omega

theorem connectProps_legal (t : ConnectTx) : propsLegal connectPropIds (connectProps t) = true := by
  apply propsLegal_of
  · unfold connectProps; props_fields; simp [connectPropIds]
  · simp [connectPropIds, connectProps, countId_append, countId_optP_ne, countId_userPs, countId_optP_le]

theorem willProps_legal (t : ConnectTx) : propsLegal willPropIds (willProps t) = true := by
  apply propsLegal_of
  · unfold willProps; props_fields; simp [willPropIds]
  · simp [willPropIds, willProps, countId_append, countId_optP_ne, countId_userPs, countId_optP_le]

/-- authentication data only together with a method: exactly what `validate` enforces -/
theorem connect_auth_check (t : ConnectTx) (hv : t.valid = true) :
    (hasId 22 (connectProps t) && !hasId 21 (connectProps t)) = false := by
  unfold ConnectTx.valid at hv
  simp only [connectProps, hasId_append, hasId_optP, hasId_userPs (show 38 ≠ 22 by decide),
    hasId_userPs (show 38 ≠ 21 by decide)]
  cases hm : t.authMethod <;> cases hdt : t.authData <;> simp [hm, hdt] at hv ⊢

/-! ## layout -/

/-- the will block of the payload: only when both will topic and will payload were given -/
def connectWillBytes (t : ConnectTx) : Bytes :=
  if t.willFlag ≠ 0 then
    encVar (encProps (willProps t)).length ++ (encProps (willProps t)
      ++ (oEnc encStr t.willTopic ++ oEnc encStr t.willPayload))
  else []

/-- everything after the remaining-length field -/
def connectBody (t : ConnectTx) : Bytes :=
  encStr [77, 81, 84, 84] ++ (encU8 5 ++ (encU8 t.payloadFlags ++ (encU16 t.keepAlive
    ++ (encVar (encProps (connectProps t)).length ++ (encProps (connectProps t)
    ++ (encStr t.clientId ++ (connectWillBytes t ++ (oEnc encStr t.username ++ oEnc encStr t.password))))))))

theorem connect_encode_eq (t : ConnectTx) :
    t.encode = UInt8.ofNat 16 :: (encVar t.remainingLen ++ connectBody t) := by
  have h1 : encProps (connectProps t) =
      oEnc (fun n => encProp (pNum 17 n)) t.sessionExpiry
      ++ oEnc (fun n => encProp (pNum 33 n)) t.receiveMaximum
      ++ oEnc (fun n => encProp (pNum 39 n)) t.maxPacketSize
      ++ oEnc (fun n => encProp (pNum 34 n)) t.topicAliasMax
      ++ oEnc (fun b => encProp (pBool 25 b)) t.reqRespInfo
      ++ oEnc (fun b => encProp (pBool 23 b)) t.reqProbInfo
      ++ oEnc (fun s => encProp (Poster.pStr 21 s)) t.authMethod
      ++ oEnc (fun s => encProp (Poster.pStr 22 s)) t.authData
      ++ userEnc t.userProps := by
    simp only [connectProps, encProps_append, oEnc_pNum, oEnc_pBool, oEnc_pStr, userEnc_eq]
  have h2 : encProps (willProps t) =
      oEnc (fun n => encProp (pNum 24 n)) t.willDelay
      ++ oEnc (fun b => encProp (pBool 1 b)) t.willPfi
      ++ oEnc (fun n => encProp (pNum 2 n)) t.willMei
      ++ oEnc (fun s => encProp (Poster.pStr 3 s)) t.willContentType
      ++ oEnc (fun s => encProp (Poster.pStr 8 s)) t.willResponseTopic
      ++ oEnc (fun s => encProp (Poster.pStr 9 s)) t.willCorrelationData
      ++ userEnc t.willUserProps := by
    simp only [willProps, encProps_append, oEnc_pNum, oEnc_pBool, oEnc_pStr, userEnc_eq]
  unfold ConnectTx.encode connectBody connectWillBytes
  rw [← connect_propertyLen_eq, ← connect_willPropertyLen_eq, h1, h2]
  split <;> simp only [encU8, List.append_assoc, List.cons_append, List.nil_append, List.append_nil]

theorem oLen_strLen (o : Option Bytes) : oLen strLen o = (oEnc encStr o).length := by
  cases o <;> simp [strLen, encStr, encU16]; omega

theorem connect_remainingLen_eq (t : ConnectTx) : t.remainingLen = (connectBody t).length := by
  simp only [ConnectTx.remainingLen, ConnectTx.payloadLen, connectBody, connectWillBytes, List.length_append,
    connect_propertyLen_eq, connect_willPropertyLen_eq, varLen_eq, oLen_strLen]
  split <;> simp [strLen, encStr, encU16, encU8] <;> omega

/-! ## the connect flags byte -/

theorem connect_flags (u p wr cs : Bool) (wq wf : Nat) (hq : wq ≤ 2) (hf : wf ≤ 1) :
    let fl := b2n u * 128 + b2n p * 64 + b2n wr * 32 + wq * 8 + wf * 4 + b2n cs * 2
    fl < 256 ∧ fl % 2 = 0 ∧ fl / 4 % 2 = wf ∧ fl / 8 % 4 = wq ∧ (fl / 32 % 2 == 1) = wr ∧ (fl / 2 % 2 == 1) = cs
      ∧ (fl / 128 % 2 == 1) = u ∧ (fl / 64 % 2 == 1) = p := by
  cases u <;> cases p <;> cases wr <;> cases cs <;> simp [b2n] <;> omega

/-! ## will, user name, password -/

theorem pOptStr_enc (o : Option Bytes) (h : ∀ s ∈ o, StrOk s) (r : Bytes) :
    pOptStr o.isSome (oEnc encStr o ++ r) = some (o, r) := by
  cases o with
  | none => simp [pOptStr]
  | some s =>
    have : s.length < 65536 := by have := h s rfl; simp [StrOk] at this; omega
    simp [pOptStr, pStr_enc _ this]

theorem pWill_enc (t : ConnectTx) (hd : ConnectInDomain t) (r : Bytes) :
    pWill (t.willFlag == 1) t.willQos t.willRetain (connectWillBytes t ++ r) = some (connectWill t, r) := by
  unfold connectWillBytes connectWill ConnectTx.willFlag
  cases hwt : t.willTopic with
  | none => simp [pWill]
  | some wt =>
    cases hwp : t.willPayload with
    | none => have := hd.willBoth; simp [hwt, hwp] at this
    | some wp =>
      have h1 : wt.length < 65536 := by have := hd.willTopic wt hwt; simp [StrOk] at this; omega
      have h2 : wp.length < 65536 := by have := hd.willPayload wp hwp; simp [StrOk] at this; omega
      have hl : (encProps (willProps t)).length < 268435456 := by
        have := hd.size; rw [connect_remainingLen_eq] at this
        simp only [connectBody, connectWillBytes, ConnectTx.willFlag, hwt, hwp, List.length_append] at this
        simp at this; omega
      simp [pWill, List.append_assoc, pPropBlock_enc _ (willProps_wf t hd) hl, willProps_legal, pStr_enc _ h1,
        pBin_enc _ h2]

/-! ## composition -/

theorem connect_body_parses (t : ConnectTx) (hv : t.valid = true) (hd : ConnectInDomain t) :
    parseBody 1 0 (connectBody t) = some (ofConnect t) := by
  have hwf : t.willFlag ≤ 1 := by unfold ConnectTx.willFlag; split <;> omega
  obtain ⟨h256, hres, hwfl, hwq, hwr, hcs, hu, hp⟩ :=
    connect_flags t.username.isSome t.password.isSome t.willRetain t.cleanStart t.willQos t.willFlag hd.willQos hwf
  have hq3 : ¬ t.willQos = 3 := by have := hd.willQos; omega
  have hka : t.keepAlive < 65536 := by have := hd.keepAlive; omega
  have hcid : t.clientId.length < 65536 := by have := hd.clientId; simp [StrOk] at this; omega
  have hl : (encProps (connectProps t)).length < 268435456 := by
    have := hd.size; rw [connect_remainingLen_eq] at this
    simp only [connectBody, List.length_append] at this; omega
  -- without a will, will QoS and will retain are clear
  have hnw : ¬ t.willFlag = 1 → t.willQos = 0 ∧ t.willRetain = false := by
    unfold ConnectTx.willFlag
    cases hwt : t.willTopic with
    | none => obtain ⟨h0, h1, -⟩ := hd.noWill hwt; simp [h0, h1]
    | some wt =>
      have := hd.willBoth; rw [hwt] at this
      simp [← this]
  have hauth := connect_auth_check t hv
  simp only [parseBody, ↓reduceIte, parseConnect, connectBody, pStr_enc [77, 81, 84, 84] (by decide),
    pU8_enc 5 (by decide), pU8_enc _ h256, ConnectTx.payloadFlags, hres, hwfl, hwq, hwr, hcs, hu, hp, hq3,
    pU16_enc _ hka, pPropBlock_enc _ (connectProps_wf t hd) hl, connectProps_legal, hauth, pStr_enc _ hcid,
    pWill_enc t hd, pOptStr_enc _ hd.username, ne_eq, not_true_eq_false, Bool.not_true, Bool.false_eq_true]
  have hpw := pOptStr_enc _ hd.password []
  simp only [List.append_nil] at hpw
  simp [hpw, ofConnect]
  exact hnw

end Poster
