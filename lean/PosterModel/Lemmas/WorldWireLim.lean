/-
  Lemmas/WorldWireLim.lean — the wire under ANY transport limit (`cfg.wlimit` arbitrary). A write the transport cuts short
  leaves a proper prefix of ONE packet on the wire and nothing is written after it on that connection; so for scripts in
  the domain every `W` line is a whole packet originating in a request of the script and every `WRAW` line (logged at a
  reconnect or at the end of the script) is a proper prefix of such a packet — never bytes of two packets, never garbage.
  The invariant `LInv` generalises `WInv` of Lemmas/WorldWire.lean and is carried through every primitive of `World`.
-/
import PosterModel.Lemmas.WorldWire

set_option linter.unusedVariables false
set_option linter.unusedSimpArgs false

namespace Poster
open Framing Spec

variable {S : Src}

/-- `bs` is a proper prefix of a packet of the class: what a write cut short by the transport leaves on the wire -/
def PartOf (S : Src) (bs : Bytes) : Prop := ∃ p, WireOf S p ∧ bs <+: p ∧ bs.length < p.length

/-- a transcript line under a limited transport: a `W` line shows a whole packet of the class, a `WRAW` line a proper
    prefix of one -/
def ObsOkL (S : Src) : Obs → Prop
  | .wire bs => WireOf S bs
  | .wraw bs => PartOf S bs
  | _ => True

/-- a proper prefix of one frame holds no complete frame -/
theorem noFrame_of_part (v p : Bytes) (hp : OneFrame p) (hpre : v <+: p) (hlt : v.length < p.length) : NoFrame v := by
  obtain ⟨t, rfl⟩ := hpre
  obtain ⟨k, hk⟩ := hp
  cases hfl : frameLen v with
  | need => exact Or.inl hfl
  | bad => rw [frameLen_bad_append v t hfl] at hk; cases hk
  | ok e k' =>
    rw [frameLen_ok_append v t e k' hfl] at hk
    simp only [VarRes.ok.injEq] at hk
    exact Or.inr ⟨e, k', hfl, by omega⟩

theorem oneFrame_length {p : Bytes} (h : OneFrame p) : 2 ≤ p.length := by
  obtain ⟨k, hk⟩ := h
  exact (frameLen_ok_ge p _ k hk).2

/-- the framing of a byte string cut out of a concatenation of whole frames: the whole frames in front, then a proper
    prefix of the next one (or nothing) -/
theorem frames_take_flatten (ps : List Bytes) (h : ∀ p ∈ ps, OneFrame p) (k : Nat) :
    ∃ j tail, frames (ps.flatten.take k) = some (ps.take j, tail) ∧
      (tail = [] ∨ ∃ p ∈ ps, tail <+: p ∧ tail.length < p.length) := by
  induction ps generalizing k with
  | nil => exact ⟨0, [], by simp [frames_nil], Or.inl rfl⟩
  | cons p ps ih =>
    have hp := h p (by simp)
    by_cases hk : p.length ≤ k
    · obtain ⟨j, tail, h1, h2⟩ := ih (fun q hq => h q (by simp [hq])) (k - p.length)
      refine ⟨j + 1, tail, ?_, ?_⟩
      · rw [List.flatten_cons, List.take_append, List.take_of_length_le hk, frames_append_oneFrame p hp, h1]
        simp
      · rcases h2 with h2 | ⟨q, hq, h3, h4⟩
        · exact Or.inl h2
        · exact Or.inr ⟨q, by simp [hq], h3, h4⟩
    · have hk' : k < p.length := by omega
      refine ⟨0, p.take k, ?_, Or.inr ⟨p, by simp, List.take_prefix k p, by simp; omega⟩⟩
      rw [List.flatten_cons, List.take_append, show k - p.length = 0 by omega]
      simp only [List.take_zero, List.append_nil]
      exact frames_of_noFrame _ (noFrame_of_part _ p hp (List.take_prefix k p) (by simp; omega))

namespace World

/-- the transport has reached its limit on this connection: every further write adds nothing -/
def Stuck (w : World) : Prop := ∃ l, w.cfg.wlimit = some l ∧ l ≤ w.written

/-- nothing is pending at the transport, or a proper prefix of one packet is and the transport has reached its limit -/
def PendOk (S : Src) (w : World) : Prop := w.wirePend = [] ∨ (PartOf S w.wirePend ∧ Stuck w)

theorem PendOk.of_eq {w w' : World} (h : PendOk S w) (e1 : w'.wirePend = w.wirePend) (e2 : w'.written = w.written)
    (e3 : w'.cfg = w.cfg) : PendOk S w' := by
  unfold PendOk Stuck at *
  rw [e1, e2, e3]; exact h

/-- the context exists (or existed): only then is anything ever written -/
def Live (w : World) : Prop := w.hasCtx = true ∨ w.ctxDropped = true

structure LInv (S : Src) (w : World) : Prop where
  pend : PendOk S w
  out : ∀ o ∈ w.out, ObsOkL S o
  queue : ∀ m ∈ w.queue, MsgWire S m
  retx : ∀ e ∈ w.c.retx, WireOf S e.2
  ops : ∀ id h req, (id, OpSt.fresh h req) ∈ w.ops → ReqOk S req
  task : TaskOk S w.task
  pid : 1 ≤ w.pidCtr ∧ w.pidCtr ≤ 65535
  sub : 1 ≤ w.subCtr ∧ w.subCtr ≤ 268435455
  slots : ∀ s p, (s, Slot.full (.pkt p)) ∈ w.slots → p.wf
  /-- before the first `setup` nothing was written and no task runs; a task runs only on a live context -/
  live : (Live w ∧ (w.task ≠ .none → w.hasCtx = true)) ∨ (w.wirePend = [] ∧ w.task = .none ∧ w.written = 0)

theorem LInv.init (S : Src) (cfg : Cfg) : LInv S { cfg := cfg } where
  pend := Or.inl rfl
  out := by intro o ho; cases ho
  queue := by intro m hm; cases hm
  retx := by intro e he; cases he
  ops := by intro id hh req hm; cases hm
  task := trivial
  pid := by show 1 ≤ 1 ∧ 1 ≤ 65535; decide
  sub := by show 1 ≤ 1 ∧ 1 ≤ 268435455; decide
  slots := by intro s p hm; cases hm
  live := Or.inr ⟨rfl, rfl, rfl⟩

/-- the invariant is carried to a world whose relevant components are old ones or new good ones -/
theorem LInv.transfer {w w' : World} (hw : LInv S w)
    (pend : PendOk S w')
    (out : ∀ o ∈ w'.out, o ∈ w.out ∨ ObsOkL S o)
    (queue : ∀ m ∈ w'.queue, m ∈ w.queue ∨ MsgWire S m)
    (retx : ∀ e ∈ w'.c.retx, e ∈ w.c.retx ∨ WireOf S e.2)
    (ops : ∀ id h req, (id, OpSt.fresh h req) ∈ w'.ops → (id, OpSt.fresh h req) ∈ w.ops ∨ ReqOk S req)
    (task : w'.task = w.task ∨ TaskOk S w'.task)
    (pid : w'.pidCtr = w.pidCtr ∨ (1 ≤ w'.pidCtr ∧ w'.pidCtr ≤ 65535))
    (sub : w'.subCtr = w.subCtr ∨ (1 ≤ w'.subCtr ∧ w'.subCtr ≤ 268435455))
    (slots : ∀ s p, (s, Slot.full (.pkt p)) ∈ w'.slots → (s, Slot.full (.pkt p)) ∈ w.slots ∨ p.wf)
    (live : (Live w' ∧ (w'.task ≠ .none → w'.hasCtx = true)) ∨
      (w'.wirePend = [] ∧ w'.task = .none ∧ w'.written = 0)) : LInv S w' where
  pend := pend
  out := fun o ho => (out o ho).elim (hw.out o) (fun x => x)
  queue := fun m hm => (queue m hm).elim (hw.queue m) (fun x => x)
  retx := fun e he => (retx e he).elim (hw.retx e) (fun x => x)
  ops := fun i h req hm => (ops i h req hm).elim (hw.ops i h req) (fun x => x)
  task := task.elim (fun e => e ▸ hw.task) (fun x => x)
  pid := pid.elim (fun e => e ▸ hw.pid) (fun x => x)
  sub := sub.elim (fun e => e ▸ hw.sub) (fun x => x)
  slots := fun s p hm => (slots s p hm).elim (hw.slots s p) (fun x => x)
  live := live

/-- the common case: nothing relevant but the listed components changes -/
theorem LInv.same {w w' : World} (hw : LInv S w)
    (cfg : w'.cfg = w.cfg) (pend : w'.wirePend = w.wirePend) (out : w'.out = w.out) (queue : w'.queue = w.queue)
    (retx : w'.c.retx = w.c.retx) (ops : w'.ops = w.ops) (task : w'.task = w.task) (pid : w'.pidCtr = w.pidCtr)
    (sub : w'.subCtr = w.subCtr) (slots : w'.slots = w.slots)
    (written : w'.written = w.written := by first | rfl | simp)
    (hasCtx : w'.hasCtx = w.hasCtx := by first | rfl | simp)
    (ctxDropped : w'.ctxDropped = w.ctxDropped := by first | rfl | simp) : LInv S w' :=
  hw.transfer (hw.pend.of_eq pend written cfg) (fun o ho => Or.inl (out ▸ ho)) (fun m hm => Or.inl (queue ▸ hm))
    (fun e he => Or.inl (retx ▸ he)) (fun id h req hm => Or.inl (ops ▸ hm)) (Or.inl task) (Or.inl pid) (Or.inl sub)
    (fun s p hm => Or.inl (slots ▸ hm))
    (by unfold Live; rw [pend, task, written, hasCtx, ctxDropped]; exact hw.live)

/-! ## transport writes under a limit -/

theorem flushWire_noFrame (w : World) (h : NoFrame w.wirePend) : w.flushWire = w := by
  unfold flushWire
  rw [frames_of_noFrame _ h]
  simp

/-- a write the transport cannot take completely: `canWrite` is false only under a limit, and afterwards the limit is
    reached -/
theorem cut_facts (w : World) (n : Nat) (hc : ¬ w.canWrite n = true) :
    ∃ l, w.cfg.wlimit = some l ∧ l < w.written + n ∧ (w.cfg.wlimit.getD 0) - w.written = l - w.written := by
  unfold canWrite at hc
  cases h : w.cfg.wlimit with
  | none => simp [h] at hc
  | some l => simp only [h, decide_eq_true_eq] at hc; exact ⟨l, rfl, by omega, rfl⟩

/-- what `writeBytes` does when nothing is pending and the transport cannot take the bytes completely -/
theorem writeBytes_cut_eq (w : World) (bs : Bytes) (hc : ¬ w.canWrite bs.length = true) (hp : w.wirePend = []) :
    w.writeBytes bs =
      flushWire { w with written := w.written + ((w.cfg.wlimit.getD 0) - w.written),
                         wirePend := bs.take ((w.cfg.wlimit.getD 0) - w.written) } := by
  unfold writeBytes
  rw [if_neg hc, hp]
  rfl

/-- … and when the limit was already reached: nothing changes -/
theorem writeBytes_stuck (w : World) (bs : Bytes) (hc : ¬ w.canWrite bs.length = true) (hs : Stuck w)
    (hn : NoFrame w.wirePend) : w.writeBytes bs = w := by
  obtain ⟨l, h1, h2⟩ := hs
  unfold writeBytes
  rw [if_neg hc]
  have hk : (w.cfg.wlimit.getD 0) - w.written = 0 := by simp [h1]; omega
  rw [hk]
  simp only [Nat.add_zero, List.take_zero, List.append_nil]
  exact flushWire_noFrame w hn

theorem PartOf.noFrame {v : Bytes} (h : PartOf S v) : NoFrame v := by
  obtain ⟨p, hp, h1, h2⟩ := h
  exact noFrame_of_part v p hp.oneFrame h1 h2

theorem PendOk.noFrame {w : World} (h : PendOk S w) : NoFrame w.wirePend := by
  rcases h with h | ⟨h, _⟩
  · rw [h]; exact noFrame_nil
  · exact PartOf.noFrame h

/-- **one write of a packet of the class, whatever the limit**: the whole packet shows as a `W` line, or a proper prefix of
    it stays pending and the limit is reached, or (limit already reached) nothing happens -/
theorem LInv.writeBytes {w : World} (hw : LInv S w) {bs : Bytes} (hb : WireOf S bs)
    (hl : Live w ∧ (w.task ≠ .none → w.hasCtx = true)) : LInv S (w.writeBytes bs) := by
  have hlen := oneFrame_length hb.oneFrame
  by_cases hc : w.canWrite bs.length = true
  · have hpe : w.wirePend = [] := by
      rcases hw.pend with h | ⟨_, l, h1, h2⟩
      · exact h
      · exfalso
        simp only [canWrite, h1, decide_eq_true_eq] at hc
        omega
    have e : w.writeBytes bs =
        { w with written := w.written + bs.length, out := w.out ++ [.wire bs], wirePend := [] } := by
      simp [World.writeBytes, hc, flushWire, hpe, frames_oneFrame bs hb.oneFrame]
    rw [e]
    refine hw.transfer (Or.inl rfl) ?_ (fun _ h => Or.inl h) (fun _ h => Or.inl h) (fun _ _ _ h => Or.inl h)
      (Or.inl rfl) (Or.inl rfl) (Or.inl rfl) (fun _ _ h => Or.inl h) (Or.inl hl)
    intro o ho
    simp only [List.mem_append, List.mem_singleton] at ho
    rcases ho with ho | rfl
    · exact Or.inl ho
    · exact Or.inr hb
  · rcases hw.pend with hpe | ⟨hpart, hst⟩
    · obtain ⟨l, h1, h2, h3⟩ := cut_facts w bs.length hc
      rw [writeBytes_cut_eq w bs hc hpe, h3]
      have hk : l - w.written < bs.length := by omega
      have hpo : PartOf S (bs.take (l - w.written)) :=
        ⟨bs, hb, List.take_prefix _ _, by simp only [List.length_take]; omega⟩
      rw [flushWire_noFrame _ (PartOf.noFrame hpo)]
      exact hw.transfer (Or.inr ⟨hpo, l, h1, by show l ≤ w.written + (l - w.written); omega⟩) (fun _ h => Or.inl h)
        (fun _ h => Or.inl h) (fun _ h => Or.inl h) (fun _ _ _ h => Or.inl h)
        (Or.inl rfl) (Or.inl rfl) (Or.inl rfl) (fun _ _ h => Or.inl h) (Or.inl hl)
    · rw [writeBytes_stuck w bs hc hst (PartOf.noFrame hpart)]; exact hw

theorem writeBytes_hasCtx' (w : World) (bs : Bytes) :
    (w.writeBytes bs).hasCtx = w.hasCtx ∧ (w.writeBytes bs).ctxDropped = w.ctxDropped ∧
    (w.writeBytes bs).task = w.task := ⟨by simp, by simp, by simp⟩

/-! ## carrying the invariant when the transport and the task are not touched -/

/-- the transport-side and task-side components are unchanged (all closed by `rfl` / `simp` at the call sites) -/
theorem LInv.transferU {w w' : World} (hw : LInv S w)
    (out : ∀ o ∈ w'.out, o ∈ w.out ∨ ObsOkL S o)
    (queue : ∀ m ∈ w'.queue, m ∈ w.queue ∨ MsgWire S m)
    (retx : ∀ e ∈ w'.c.retx, e ∈ w.c.retx ∨ WireOf S e.2)
    (ops : ∀ id h req, (id, OpSt.fresh h req) ∈ w'.ops → (id, OpSt.fresh h req) ∈ w.ops ∨ ReqOk S req)
    (pid : w'.pidCtr = w.pidCtr ∨ (1 ≤ w'.pidCtr ∧ w'.pidCtr ≤ 65535))
    (sub : w'.subCtr = w.subCtr ∨ (1 ≤ w'.subCtr ∧ w'.subCtr ≤ 268435455))
    (slots : ∀ s p, (s, Slot.full (.pkt p)) ∈ w'.slots → (s, Slot.full (.pkt p)) ∈ w.slots ∨ p.wf)
    (cfg : w'.cfg = w.cfg := by first | rfl | simp)
    (pend : w'.wirePend = w.wirePend := by first | rfl | simp)
    (written : w'.written = w.written := by first | rfl | simp)
    (hasCtx : w'.hasCtx = w.hasCtx := by first | rfl | simp)
    (ctxDropped : w'.ctxDropped = w.ctxDropped := by first | rfl | simp)
    (task : w'.task = w.task := by first | rfl | simp) : LInv S w' :=
  hw.transfer (hw.pend.of_eq pend written cfg) out queue retx ops (Or.inl task) pid sub slots
    (by unfold Live; rw [pend, task, written, hasCtx, ctxDropped]; exact hw.live)

/-- a task runs only on a live context (and the context is or was there) -/
def LiveOk (w : World) : Prop := Live w ∧ (w.task ≠ .none → w.hasCtx = true)

theorem LiveOk.of_eq {w w' : World} (h : LiveOk w) (e1 : w'.hasCtx = w.hasCtx) (e2 : w'.ctxDropped = w.ctxDropped)
    (e3 : w'.task = w.task ∨ w'.task = .none) : LiveOk w' := by
  unfold LiveOk Live at *
  rw [e1, e2]
  refine ⟨h.1, fun ht => ?_⟩
  rcases e3 with e3 | e3
  · rw [e3] at ht; exact h.2 ht
  · exact absurd e3 ht

/-- the invariant on the context side: with the knowledge that the context is live (so writing is legitimate) -/
structure CInv (S : Src) (w : World) : Prop where
  inv : LInv S w
  live : LiveOk w

theorem LInv.toC {w : World} (hw : LInv S w) (ht : w.task ≠ .none) : CInv S w := by
  refine ⟨hw, ?_⟩
  rcases hw.live with h | ⟨_, h, _⟩
  · exact h
  · exact absurd h ht

theorem CInv.same {w w' : World} (hw : CInv S w)
    (cfg : w'.cfg = w.cfg) (pend : w'.wirePend = w.wirePend) (out : w'.out = w.out) (queue : w'.queue = w.queue)
    (retx : w'.c.retx = w.c.retx) (ops : w'.ops = w.ops) (task : w'.task = w.task) (pid : w'.pidCtr = w.pidCtr)
    (sub : w'.subCtr = w.subCtr) (slots : w'.slots = w.slots)
    (written : w'.written = w.written := by first | rfl | simp)
    (hasCtx : w'.hasCtx = w.hasCtx := by first | rfl | simp)
    (ctxDropped : w'.ctxDropped = w.ctxDropped := by first | rfl | simp) : CInv S w' :=
  ⟨hw.inv.same cfg pend out queue retx ops task pid sub slots written hasCtx ctxDropped,
    hw.live.of_eq hasCtx ctxDropped (Or.inl task)⟩

theorem CInv.writeBytes {w : World} (hw : CInv S w) {bs : Bytes} (hb : WireOf S bs) : CInv S (w.writeBytes bs) :=
  ⟨hw.inv.writeBytes hb hw.live, hw.live.of_eq (by simp) (by simp) (Or.inl (by simp))⟩

/-! ## effects of a handler -/

theorem LInv.sendSlot {w : World} (hw : LInv S w) (s : Nat) (v : SlotVal) (hv : ∀ p, v = .pkt p → p.wf) :
    LInv S (w.sendSlot s v) := by
  by_cases h : w.slot s = some .empty
  · obtain ⟨wk, sr, e⟩ := User.sendSlot_shape w s v h
    rw [e]
    refine hw.transferU (fun _ h => Or.inl h) (fun _ h => Or.inl h) (fun _ h => Or.inl h)
      (fun _ _ _ h => Or.inl h) (Or.inl rfl) (Or.inl rfl) ?_
    intro s' p hm
    rcases mem_slots_setAssoc hm with e | e
    · right; exact hv p (by simpa using e.symm)
    · left; exact e
  · rw [User.sendSlot_noop w s v h]; exact hw

theorem LInv.dropSlotTx {w : World} (hw : LInv S w) (s : Nat) : LInv S (w.dropSlotTx s) := by
  rw [dropSlotTx_eq]
  split
  · refine hw.transferU (fun _ h => Or.inl h) (fun _ h => Or.inl h) (fun _ h => Or.inl h)
      (fun _ _ _ h => Or.inl h) (Or.inl rfl) (Or.inl rfl) ?_
    intro s' p hm
    rcases mem_slots_setAssoc hm with e | e
    · cases e
    · left; exact e
  · exact hw

theorem LInv.deliver {w : World} (hw : LInv S w) (c : Nat) (p : PublishRx) : LInv S (w.deliver c p) :=
  hw.same (by simp) (by simp) (by simp) (by simp) (by simp) (by simp) (by simp) (by simp) (by simp) (by simp)

theorem LInv.dropChanTx {w : World} (hw : LInv S w) (c : Nat) : LInv S (w.dropChanTx c) :=
  hw.same (by simp) (by simp) (by simp) (by simp) (by simp) (by simp) (by simp) (by simp) (by simp) (by simp)

theorem CInv.applyEff {w : World} (hw : CInv S w) (e : Eff) (he : ∀ p, e = .write p → WireOf S p)
    (hs : ∀ s q, e = .send s (.pkt q) → q.wf) : CInv S (w.applyEff e) := by
  have hlive : LiveOk (w.applyEff e) := hw.live.of_eq (by simp) (by simp) (Or.inl (by simp))
  cases e with
  | write bs => exact hw.writeBytes (he bs rfl)
  | send s v => exact ⟨hw.inv.sendSlot s v (fun p hp => hs s p (by rw [hp])), hlive⟩
  | dropSlot s => exact ⟨hw.inv.dropSlotTx s, hlive⟩
  | deliver c p => exact ⟨hw.inv.deliver c p, hlive⟩
  | dropChan c => exact ⟨hw.inv.dropChanTx c, hlive⟩

theorem CInv.applyEffs {w : World} (hw : CInv S w) (effs : List Eff) (he : ∀ p ∈ writesOf effs, WireOf S p)
    (hs : ∀ s q, Eff.send s (.pkt q) ∈ effs → q.wf) : CInv S (w.applyEffs effs) := by
  unfold World.applyEffs
  induction effs generalizing w with
  | nil => exact hw
  | cons e t ih =>
    simp only [List.foldl_cons]
    refine ih (hw.applyEff e (fun p hp => he p (by simp [hp])) (fun s q hq => hs s q (by simp [hq]))) ?_ ?_
    · intro p hp
      refine he p ?_
      cases e <;> simp [hp]
    · exact fun s q h => hs s q (List.mem_cons_of_mem _ h)

end World

/-! ## the handlers, whether or not the transport takes the write -/

namespace Ctx

theorem handleMsg_wireB (c : Ctx) (m : Msg) (wok : Bool) (hm : MsgWire S m) (hr : ∀ e ∈ c.retx, WireOf S e.2) :
    (∀ e ∈ (c.handleMsg m wok).1.retx, WireOf S e.2) ∧
    (∀ p ∈ writesOf (c.handleMsg m wok).2.1, WireOf S p) ∧
    (∀ s p, Eff.send s (.pkt p) ∉ (c.handleMsg m wok).2.1) := by
  cases wok with
  | true => exact handleMsg_wire c m hm hr
  | false =>
    cases m with
    | ff pkt slot =>
      have hm : WireOf S pkt := hm
      simp only [handleMsg]
      split
      · exact ⟨hr, by simp, by simp⟩
      · simp only [Bool.not_false, ↓reduceIte]
        exact ⟨hr, by simpa using hm, by simp⟩
    | subscribe aid sid pkt slot chan =>
      have hm : WireOf S pkt := hm
      simp only [handleMsg]
      split
      · exact ⟨hr, by simp, by simp⟩
      · exact ⟨hr, by simpa using hm, by simp⟩
    | awaitAck aid pkt slot =>
      obtain ⟨h1, h2⟩ := hm
      simp only [handleMsg]
      split
      · exact ⟨hr, by simp, by simp⟩
      · split
        · split
          · exact ⟨hr, by simp, by simp⟩
          · simp only [Bool.not_false, ↓reduceIte]
            exact ⟨hr, by simpa using h1, by simp⟩
        · split
          · simp only [Bool.not_false, ↓reduceIte]
            exact ⟨hr, by simpa using h1, by simp⟩
          · simp only [Bool.not_false, ↓reduceIte]
            exact ⟨hr, by simpa using h1, by simp⟩

end Ctx

namespace World

/-! ## small steps -/

theorem LInv.emit {w : World} (hw : LInv S w) (o : Obs) (ho : ObsOkL S o) : LInv S (w.emit o) := by
  refine hw.transferU ?_ (fun _ h => Or.inl h) (fun _ h => Or.inl h) (fun _ _ _ h => Or.inl h)
    (Or.inl rfl) (Or.inl rfl) (fun _ _ h => Or.inl h)
  intro o' ho'
  simp only [emit_out', List.mem_append, List.mem_singleton] at ho'
  rcases ho' with h | rfl
  · exact Or.inl h
  · exact Or.inr ho

theorem CInv.emit {w : World} (hw : CInv S w) (o : Obs) (ho : ObsOkL S o) : CInv S (w.emit o) :=
  ⟨hw.inv.emit o ho, hw.live.of_eq (by simp) (by simp) (Or.inl (by simp))⟩

theorem CInv.noTask {w : World} (hw : CInv S w) : CInv S { w with task := .none } :=
  ⟨hw.inv.transfer (hw.inv.pend.of_eq rfl rfl rfl) (fun _ h => Or.inl h) (fun _ h => Or.inl h) (fun _ h => Or.inl h)
      (fun _ _ _ h => Or.inl h) (Or.inr trivial) (Or.inl rfl) (Or.inl rfl) (fun _ _ h => Or.inl h)
      (Or.inl (hw.live.of_eq rfl rfl (Or.inr rfl))),
    hw.live.of_eq rfl rfl (Or.inr rfl)⟩

theorem CInv.finish {w : World} (hw : CInv S w) (call : Call) (r : RetRes) : CInv S (w.finish call r) :=
  hw.noTask.emit _ trivial

theorem CInv.wake {w : World} (hw : CInv S w) (t : Task) : CInv S (w.wake t) :=
  hw.same (by simp) (by simp) (by simp) (by simp) (by simp) (by simp) (by simp) (by simp) (by simp) (by simp)

theorem CInv.setRx {w : World} (hw : CInv S w) (rx' : Rx) (rd' : List ReadEv) :
    CInv S { w with rx := rx', reader := rd' } :=
  hw.same rfl rfl rfl rfl rfl rfl rfl rfl rfl rfl

/-! ## the `select!` loop of `run()` -/

theorem CInv.handled {w w0 : World} (hw : CInv S w) (h : Bool → Ctx × List Eff × Flow)
    (cfg : w0.cfg = w.cfg) (pend : w0.wirePend = w.wirePend) (out : w0.out = w.out)
    (queue : ∀ m ∈ w0.queue, m ∈ w.queue) (ops : w0.ops = w.ops) (task : w0.task = w.task)
    (pid : w0.pidCtr = w.pidCtr) (sub : w0.subCtr = w.subCtr) (slots : w0.slots = w.slots)
    (written : w0.written = w.written) (hasCtx : w0.hasCtx = w.hasCtx) (ctxDropped : w0.ctxDropped = w.ctxDropped)
    (hr : ∀ wok, ∀ e ∈ (h wok).1.retx, WireOf S e.2) (he : ∀ wok, ∀ p ∈ writesOf (h wok).2.1, WireOf S p)
    (hs : ∀ wok s q, Eff.send s (.pkt q) ∈ (h wok).2.1 → q.wf) : CInv S (w0.runHandler h).1 := by
  rw [runHandler_eq]
  generalize w0.canWrite (writeNeed (h true).2.1) = wok
  have h0 : CInv S ({ w0 with c := (h wok).1 } : World) :=
    ⟨hw.inv.transfer (hw.inv.pend.of_eq pend written cfg) (fun o ho => Or.inl (out ▸ ho))
        (fun m hm => Or.inl (queue m hm)) (fun e he => Or.inr (hr wok e he)) (fun i hh req hm => Or.inl (ops ▸ hm))
        (Or.inl task) (Or.inl pid) (Or.inl sub) (fun s p hm => Or.inl (slots ▸ hm))
        (Or.inl (hw.live.of_eq hasCtx ctxDropped (Or.inl task))),
      hw.live.of_eq hasCtx ctxDropped (Or.inl task)⟩
  exact h0.applyEffs _ (he wok) (hs wok)

theorem CInv.handledMsg {w : World} (hw : CInv S w) (m : Msg) (q : List Msg) (hq : w.queue = m :: q) :
    CInv S (({ w with queue := q } : World).runHandler (fun wok => w.c.handleMsg m wok)).1 := by
  have hm := hw.inv.queue m (by simp [hq])
  exact hw.handled _ rfl rfl rfl (fun m' hm' => by simp [hq, hm']) rfl rfl rfl rfl rfl rfl rfl rfl
    (fun wok => (Ctx.handleMsg_wireB w.c m wok hm hw.inv.retx).1)
    (fun wok => (Ctx.handleMsg_wireB w.c m wok hm hw.inv.retx).2.1)
    (fun wok s p hp => absurd hp ((Ctx.handleMsg_wireB w.c m wok hm hw.inv.retx).2.2 s p))

theorem CInv.handledPkt {w : World} (hw : CInv S w) (rx' : Rx) (rd' : List ReadEv) (p : RxPacket) (hp : p.wf)
    (alive : Nat → Bool) :
    CInv S (({ w with rx := rx', reader := rd' } : World).runHandler (fun wok => w.c.handlePkt alive p wok)).1 :=
  hw.handled _ rfl rfl rfl (fun m' hm' => hm') rfl rfl rfl rfl rfl rfl rfl rfl
    (fun wok => (Ctx.handlePkt_wire w.c alive p wok hp hw.inv.retx).1)
    (fun wok => (Ctx.handlePkt_wire w.c alive p wok hp hw.inv.retx).2.1)
    (fun wok s q hq => ((Ctx.handlePkt_wire w.c alive p wok hp hw.inv.retx).2.2 s q hq) ▸ hp)

theorem CInv.runCont {w w1 : World} (hw : CInv S w) (h : RunCont w w1) : CInv S w1 := by
  cases h with
  | msg m q w1 hq hr =>
    have e : w1 = (World.runHandler { w with queue := q } (fun wok => w.c.handleMsg m wok)).1 := by rw [hr]
    subst e; exact hw.handledMsg m q hq
  | pkt rx' rd' fr p w1 hq hs hp hd hr =>
    have e : w1 = (World.runHandler { w with rx := rx', reader := rd' }
        (fun wok => w.c.handlePkt w.chanRxAlive p wok)).1 := by rw [hr]
    subst e; exact hw.handledPkt rx' rd' p (decodeRx_wf_aux fr p hd) _

theorem CInv.runEnd {w r : World} (hw : CInv S w) (h : RunEnd w r) : CInv S r := by
  cases h with
  | msgExit m q w1 fl hq hr hne =>
    have e : w1 = (World.runHandler { w with queue := q } (fun wok => w.c.handleMsg m wok)).1 := by rw [hr]
    subst e; exact (hw.handledMsg m q hq).finish _ _
  | closed hq hs => exact hw.finish _ _
  | pktExit rx' rd' fr p w1 fl hq hs hp hd hr hne =>
    have e : w1 = (World.runHandler { w with rx := rx', reader := rd' }
        (fun wok => w.c.handlePkt w.chanRxAlive p wok)).1 := by rw [hr]
    subst e; exact (hw.handledPkt rx' rd' p (decodeRx_wf_aux fr p hd) _).finish _ _
  | codec rx' rd' fr hq hs hp hd => exact (hw.setRx rx' rd').finish _ _
  | panic rx' rd' fr hq hs hp hd => exact ((hw.setRx rx' rd').noTask).emit _ trivial
  | sock rx' rd' hq hs hp => exact (hw.setRx rx' rd').finish _ _
  | pending rx' rd' hq hs hp =>
    split
    · exact hw.same rfl rfl rfl rfl rfl rfl rfl rfl rfl rfl
    · exact CInv.wake (w := { w with rx := rx', reader := rd', queueReg := true })
        (hw.same rfl rfl rfl rfl rfl rfl rfl rfl rfl rfl) .ctx

theorem CInv.runLoop (f : Nat) {w : World} (hw : CInv S w) : CInv S (runLoop f w) := by
  induction f generalizing w with
  | zero => exact hw
  | succ f ih =>
    rw [runLoop_succ]
    cases h : runIter w with
    | inl w1 => exact ih (hw.runCont (runIter_inl h))
    | inr r => exact hw.runEnd (runIter_inr h)

/-! ## `run()`: session resumption under a limit -/

theorem CInv.resumed {w : World} (hw : CInv S w) (ht : w.task ≠ .none) : CInv S w.resumed := by
  unfold World.resumed
  have hc : w.hasCtx = true := hw.live.2 ht
  have hlv : LiveOk ({ w with c := w.c.resume.1, task := .running true } : World) := ⟨hw.live.1, fun _ => hc⟩
  have h0 : CInv S ({ w with c := w.c.resume.1, task := .running true } : World) :=
    ⟨hw.inv.transfer (hw.inv.pend.of_eq rfl rfl rfl) (fun _ h => Or.inl h) (fun _ h => Or.inl h)
      (fun e he => Or.inl (resume_retx_sub w.c e he)) (fun _ _ _ h => Or.inl h) (Or.inr trivial) (Or.inl rfl)
      (Or.inl rfl) (fun _ _ h => Or.inl h) (Or.inl hlv), hlv⟩
  refine h0.applyEffs _ ?_ ?_
  · rw [writesOf_quiet _ (resume_effs_quiet w.c)]; intro p hp; cases hp
  · intro s q hq
    exact absurd hq (resume_effs_nosend w.c s _)

theorem resume_pkts_wireL {w : World} (hw : LInv S w) : ∀ p ∈ w.c.resume.2.2, WireOf S p := by
  intro p hp
  obtain ⟨e, he, rfl⟩ := resume_pkts_sub w.c p hp
  exact hw.retx e he

theorem CInv.resent {w : World} (hw : CInv S w) (ht : w.task ≠ .none) : CInv S w.resent := by
  unfold World.resent
  rw [foldl_writeBytes_eq_applyEffs]
  refine (hw.resumed ht).applyEffs _ ?_ ?_
  · rw [writesOf_map_write]; exact resume_pkts_wireL hw.inv
  · intro s q hq
    simp only [List.mem_map] at hq
    obtain ⟨b, _, hb⟩ := hq
    cases hb

/-- the re-sent packets written in one go and cut by the transport: the whole packets in front show as `W` lines, a
    proper prefix of the next one stays pending -/
theorem CInv.writeFlat {w : World} (hw : CInv S w) (ps : List Bytes) (hps : ∀ p ∈ ps, WireOf S p)
    (hc : ¬ w.canWrite ps.flatten.length = true) : CInv S (w.writeBytes ps.flatten) := by
  have hlive : LiveOk (w.writeBytes ps.flatten) := hw.live.of_eq (by simp) (by simp) (Or.inl (by simp))
  refine ⟨?_, hlive⟩
  rcases hw.inv.pend with hpe | ⟨hpart, hst⟩
  · obtain ⟨l, h1, h2, h3⟩ := cut_facts w _ hc
    obtain ⟨j, tail, hf, htl⟩ := frames_take_flatten ps (fun p hp => (hps p hp).oneFrame) (l - w.written)
    rw [writeBytes_cut_eq w _ hc hpe, h3]
    unfold World.flushWire
    simp only [hf]
    refine hw.inv.transfer ?_ ?_ (fun _ h => Or.inl h) (fun _ h => Or.inl h) (fun _ _ _ h => Or.inl h)
      (Or.inl rfl) (Or.inl rfl) (Or.inl rfl) (fun _ _ h => Or.inl h) (Or.inl hw.live)
    · rcases htl with rfl | ⟨p, hp, h4, h5⟩
      · exact Or.inl rfl
      · exact Or.inr ⟨⟨p, hps p hp, h4, h5⟩, l, h1, by show l ≤ w.written + (l - w.written); omega⟩
    · intro o ho
      simp only [List.mem_append, List.mem_map] at ho
      rcases ho with ho | ⟨b, hb, rfl⟩
      · exact Or.inl ho
      · exact Or.inr (hps b (List.mem_of_mem_take hb))
  · rw [writeBytes_stuck w _ hc hst (PartOf.noFrame hpart)]; exact hw.inv

theorem CInv.pollRun {w : World} (hw : CInv S w) (started : Bool) (ht : w.task = .running started) :
    CInv S (w.pollRun started) := by
  have htn : w.task ≠ .none := by rw [ht]; exact nofun
  cases started with
  | true => simp only [World.pollRun, ↓reduceIte]; exact hw.runLoop _
  | false =>
    rw [pollRun_first_eq]
    split
    · exact (hw.resent htn).runLoop _
    · rename_i hc
      refine ((hw.resumed htn).writeFlat _ (resume_pkts_wireL hw.inv) ?_).finish _ _
      rw [List.length_flatten]
      exact hc

/-! ## `connect()` / `authorize()` under a limit -/

theorem CInv.firstEnd {w r : World} {call : Call} {t : ConnectTx} {a : AuthTx} (hw : CInv S w)
    (htk : TaskOk S (.connecting call t a true)) (hc : w.hasCtx = true) (h : FirstEnd w call t a r) : CInv S r := by
  have hk : ∀ rx' rd' (k : ConnackRx), CInv S ({ w with rx := rx', reader := rd', c := w.c.handleConnack k } : World) :=
    fun rx' rd' k => hw.same rfl rfl rfl rfl (Ctx.handleConnack_frame w.c k).2.2.2.1 rfl rfl rfl rfl rfl
  cases h with
  | connack rx' rd' fr k hp => exact (hk rx' rd' k).finish _ _
  | refused rx' rd' fr k hp => exact (hk rx' rd' k).finish _ _
  | assertSubId rx' rd' fr k hp => exact ((hk rx' rd' k).noTask).emit _ trivial
  | auth rx' rd' fr au hp => exact (hw.setRx rx' rd').finish _ _
  | unexpected rx' rd' fr p hp => exact (hw.setRx rx' rd').finish _ _
  | codec rx' rd' fr hp => exact (hw.setRx rx' rd').finish _ _
  | panic rx' rd' fr hp => exact ((hw.setRx rx' rd').noTask).emit _ trivial
  | sock rx' rd' hp => exact (hw.setRx rx' rd').finish _ _
  | pending rx' rd' hp =>
    have hlv : LiveOk ({ w with rx := rx', reader := rd', task := .connecting call t a true } : World) :=
      ⟨hw.live.1, fun _ => hc⟩
    have h0 : CInv S ({ w with rx := rx', reader := rd', task := .connecting call t a true } : World) :=
      ⟨hw.inv.transfer (hw.inv.pend.of_eq rfl rfl rfl) (fun _ h => Or.inl h) (fun _ h => Or.inl h)
        (fun _ h => Or.inl h) (fun _ _ _ h => Or.inl h) (Or.inr htk) (Or.inl rfl) (Or.inl rfl)
        (fun _ _ h => Or.inl h) (Or.inl hlv), hlv⟩
    split
    · exact h0.same rfl rfl rfl rfl rfl rfl rfl rfl rfl rfl
    · exact h0.wake .ctx

theorem CInv.awaitFirst {w : World} (hw : CInv S w) (call : Call) (t : ConnectTx) (a : AuthTx)
    (htk : TaskOk S (.connecting call t a true)) (hc : w.hasCtx = true) : CInv S (w.awaitFirst call t a) :=
  hw.firstEnd htk hc (awaitFirst_spec w call t a)

theorem CInv.connectWorld {w : World} (hw : CInv S w) (call : Call) (t : ConnectTx) :
    CInv S (connectWorld w call t) := by
  cases call
  · exact hw.same rfl rfl rfl rfl rfl rfl rfl rfl rfl rfl
  · exact hw
  · exact hw

theorem connectWorld_hasCtx (w : World) (call : Call) (t : ConnectTx) : (connectWorld w call t).hasCtx = w.hasCtx := by
  cases call <;> rfl

/-- the three ways the first poll of `connect()` / `authorize()` goes, whatever the limit -/
theorem pollConnect_first_cases (w : World) (call : Call) (t : ConnectTx) (a : AuthTx) :
    (reqValid call t a = false ∧ w.pollConnect call t a false = w.finish call (.err .codecError)) ∨
    (reqValid call t a = true ∧
      (w.pollConnect call t a false =
          ((connectWorld w call t).writeBytes (connectPkt call t a)).awaitFirst call t a ∨
       w.pollConnect call t a false =
          ((connectWorld w call t).writeBytes (connectPkt call t a)).finish call (.err .socketClosed))) := by
  cases call with
  | connect =>
    simp only [pollConnect, reqValid, connectWorld, connectPkt, Bool.false_eq_true, ↓reduceIte]
    by_cases hv : t.valid = true
    · right
      simp only [hv, Bool.not_true, Bool.false_eq_true, ↓reduceIte, true_and]
      split
      · exact Or.inl rfl
      · exact Or.inr rfl
    · have hv' : t.valid = false := by simpa using hv
      left; simp [hv']
  | authorize =>
    simp only [pollConnect, reqValid, connectWorld, connectPkt, Bool.false_eq_true, ↓reduceIte]
    by_cases hv : a.valid = true
    · right
      simp only [hv, Bool.not_true, Bool.false_eq_true, ↓reduceIte, true_and]
      split
      · exact Or.inl rfl
      · exact Or.inr rfl
    · have hv' : a.valid = false := by simpa using hv
      left; simp [hv']
  | run =>
    simp only [pollConnect, reqValid, connectWorld, connectPkt, Bool.false_eq_true, ↓reduceIte]
    by_cases hv : a.valid = true
    · right
      simp only [hv, Bool.not_true, Bool.false_eq_true, ↓reduceIte, true_and]
      split
      · exact Or.inl rfl
      · exact Or.inr rfl
    · have hv' : a.valid = false := by simpa using hv
      left; simp [hv']

theorem CInv.pollConnect {w : World} (hw : CInv S w) (call : Call) (t : ConnectTx) (a : AuthTx) (started : Bool)
    (ht : w.task = .connecting call t a started) : CInv S (w.pollConnect call t a started) := by
  have htk : TaskOk S (.connecting call t a true) := by have := hw.inv.task; rw [ht] at this; exact this
  have hc : w.hasCtx = true := hw.live.2 (by rw [ht]; exact nofun)
  cases started with
  | true =>
    simp only [World.pollConnect, ↓reduceIte]
    exact hw.awaitFirst call t a htk hc
  | false =>
    rcases pollConnect_first_cases w call t a with ⟨_, e⟩ | ⟨hv, e | e⟩
    · rw [e]; exact hw.finish _ _
    · rw [e]
      exact ((hw.connectWorld call t).writeBytes (connectPkt_wire call t a htk hv)).awaitFirst call t a htk
        (by simp [connectWorld_hasCtx, hc])
    · rw [e]
      exact ((hw.connectWorld call t).writeBytes (connectPkt_wire call t a htk hv)).finish _ _

/-- **one poll of the context task, whatever the transport limit** -/
theorem LInv.pollCtx {w : World} (hw : LInv S w) : LInv S w.pollCtx := by
  unfold World.pollCtx
  cases ht : w.task with
  | none => exact hw
  | connecting call t a started => exact ((hw.toC (by rw [ht]; exact nofun)).pollConnect call t a started ht).inv
  | running started => exact ((hw.toC (by rw [ht]; exact nofun)).pollRun started ht).inv

theorem LInv.unwake {w : World} (hw : LInv S w) (t : Task) : LInv S (w.unwake t) :=
  hw.same (by simp) (by simp) (by simp) (by simp) (by simp) (by simp) (by simp) (by simp) (by simp) (by simp)

theorem LInv.wake {w : World} (hw : LInv S w) (t : Task) : LInv S (w.wake t) :=
  hw.same (by simp) (by simp) (by simp) (by simp) (by simp) (by simp) (by simp) (by simp) (by simp) (by simp)

theorem flushRaw_hasCtx (w : World) : w.flushRaw.hasCtx = w.hasCtx := by
  unfold World.flushRaw; split <;> rfl

/-! ## handle futures -/

theorem LInv.setOps {w : World} (hw : LInv S w) (l : List (Nat × OpSt))
    (h : ∀ id hh req, (id, OpSt.fresh hh req) ∈ l → (id, OpSt.fresh hh req) ∈ w.ops) : LInv S { w with ops := l } :=
  hw.transferU (fun _ h => Or.inl h) (fun _ h => Or.inl h) (fun _ h => Or.inl h)
    (fun i hh req hm => Or.inl (h i hh req hm))  (Or.inl rfl) (Or.inl rfl) (fun _ _ h => Or.inl h)

theorem LInv.eraseOp {w : World} (hw : LInv S w) (id : Nat) : LInv S { w with ops := eraseFirst id w.ops } :=
  hw.setOps _ (fun _ _ _ hm => Ctx.mem_eraseFirst _ _ _ hm)

theorem LInv.senderGone {w : World} (hw : LInv S w) : LInv S w.senderGone := by
  obtain ⟨wk, qr, e⟩ := User.senderGone_shape w
  rw [e]; exact hw.same rfl rfl rfl rfl rfl rfl rfl rfl rfl rfl

theorem LInv.finishOp {w : World} (hw : LInv S w) (id : Nat) (r : DoneRes) : LInv S (w.finishOp id r) := by
  unfold World.finishOp
  exact ((hw.eraseOp id).emit (.done id r) trivial).senderGone

theorem LInv.unreach {w : World} (hw : LInv S w) (id : Nat) :
    LInv S ((({ w with ops := eraseFirst id w.ops } : World).emit (.panic (.op id) "unreachable")).senderGone) :=
  ((hw.eraseOp id).emit (.panic (.op id) "unreachable") trivial).senderGone

theorem LInv.clearSlot {w : World} (hw : LInv S w) (s : Nat) : LInv S (w.clearSlot s) :=
  hw.transferU (fun _ h => Or.inl h) (fun _ h => Or.inl h) (fun _ h => Or.inl h)
    (fun _ _ _ h => Or.inl h)  (Or.inl rfl) (Or.inl rfl)
    (fun _ _ hm => Or.inl (Ctx.mem_eraseFirst _ _ _ hm))

theorem LInv.setRsps {w : World} (hw : LInv S w) (l : List Nat) : LInv S { w with rsps := l } :=
  hw.same rfl rfl rfl rfl rfl rfl rfl rfl rfl rfl

theorem LInv.setStreams {w : World} (hw : LInv S w) (l : List Nat) : LInv S { w with streams := l } :=
  hw.same rfl rfl rfl rfl rfl rfl rfl rfl rfl rfl

theorem LInv.setChan {w : World} (hw : LInv S w) (c : Nat) (v : Chan) : LInv S (w.setChan c v) :=
  hw.same rfl rfl rfl rfl rfl rfl rfl rfl rfl rfl

theorem LInv.dropChanRx {w : World} (hw : LInv S w) (c : Nat) : LInv S (w.dropChanRx c) :=
  hw.same rfl rfl rfl rfl rfl rfl rfl rfl rfl rfl

theorem LInv.awaitSlot {w : World} (hw : LInv S w) (id s : Nat) (k : Wait) : LInv S (w.awaitSlot id s k) := by
  unfold World.awaitSlot
  refine hw.transferU (fun _ h => Or.inl h) (fun _ h => Or.inl h) (fun _ h => Or.inl h)
    (fun i hh req hm => Or.inl (not_fresh_mem_setAssoc_wait hm))  (Or.inl rfl) (Or.inl rfl) ?_
  intro s' p hm
  rcases mem_slots_setAssoc hm with e | e
  · cases e
  · exact Or.inl e

/-- the message of the class is queued (or the context is gone and the operation fails) -/
theorem LInv.sendMsg {w w1 : World} (hw : LInv S w) {m : Msg} (hm : MsgWire S m) (h : w.sendMsg m = some w1) : LInv S w1 := by
  rw [sendMsg_eq] at h
  split at h
  · simp only [Option.some.injEq] at h
    subst h
    refine hw.transferU (fun _ h => Or.inl h) ?_ (fun _ h => Or.inl h)
      (fun _ _ _ h => Or.inl h)  (Or.inl rfl) (Or.inl rfl) (fun _ _ h => Or.inl h)
    intro m' hm'
    simp only [List.mem_append, List.mem_singleton] at hm'
    rcases hm' with h | rfl
    · exact Or.inl h
    · exact Or.inr hm
  · cases h

theorem LInv.sendAwait {w : World} (hw : LInv S w) (m : Msg) (hm : MsgWire S m) (id s : Nat) (k : Wait) :
    LInv S (w.sendAwait m id s k) := by
  unfold World.sendAwait
  cases h : w.sendMsg m with
  | none => exact hw.finishOp _ _
  | some w1 => exact (hw.sendMsg hm h).awaitSlot id s k

theorem LInv.allocPid {w : World} (hw : LInv S w) : LInv S w.allocPid.2 := by
  refine hw.transferU (fun _ h => Or.inl h) (fun _ h => Or.inl h) (fun _ h => Or.inl h)
    (fun _ _ _ h => Or.inl h)  (Or.inr ?_) (Or.inl rfl) (fun _ _ h => Or.inl h)
  have := hw.pid
  simp only [World.allocPid]
  split <;> omega

theorem LInv.allocSub {w : World} (hw : LInv S w) : LInv S w.allocSub.2 := by
  refine hw.transferU (fun _ h => Or.inl h) (fun _ h => Or.inl h) (fun _ h => Or.inl h)
    (fun _ _ _ h => Or.inl h)  (Or.inl rfl) (Or.inr ?_) (fun _ _ h => Or.inl h)
  have := hw.sub
  simp only [World.allocSub]
  split <;> omega

/-- **a handle future first polled**: whatever it queues is a packet of the class -/
theorem LInv.startOp {w : World} (hw : LInv S w) (id : Nat) (req : Req) (hd : ReqOk S req) :
    LInv S (w.startOp id req) := by
  obtain ⟨hd, hsrc⟩ := hd
  cases req with
  | publish t =>
    obtain ⟨hd0, hd1⟩ := hd
    by_cases hq : t.qos = 0
    · rw [User.startOp_publish0 _ _ _ hq]
      split
      · exact hw.finishOp _ _
      · rename_i hv
        exact hw.sendAwait _ (MsgWire.mk_ff (WireOf.publish0 t hsrc hq (by simpa using hv) (hd0 hq)) _) _ _ _
    · rw [User.startOp_publish12 _ _ _ hq]
      split
      · exact hw.allocPid.finishOp _ _
      · rename_i hv
        have hv' : ({ t with packetId := some w.pidCtr } : PublishTx).valid = true := by simpa using hv
        have hd' := hd1 hq w.pidCtr hw.pid.1 hw.pid.2
        exact hw.allocPid.sendAwait _
          (MsgWire.mk_ack (WireOf.publish t hsrc hq _ hw.pid hv' hd')
            (fun _ => WireOf.republish t hsrc hq _ hw.pid hv' hd') _ _) _ _ _
  | subscribe t =>
    rw [User.startOp_subscribe]
    simp only
    have hd' := hd w.pidCtr w.subCtr hw.pid.1 hw.pid.2 hw.sub.1 hw.sub.2
    split
    · exact hw.allocPid.allocSub.finishOp _ _
    · rename_i hv
      have hv' : ({ t with packetId := w.pidCtr, subId := some w.subCtr } : SubscribeTx).valid = true := by
        simpa using hv
      have h1 : LInv S ((w.allocPid.2.allocSub.2).setChan id {}) := (hw.allocPid.allocSub).setChan id {}
      cases h : World.sendMsg _ _ with
      | none => exact (h1.dropChanRx id).finishOp _ _
      | some w1 =>
        exact (h1.sendMsg (MsgWire.mk_sub (WireOf.subscribe t hsrc _ _ hw.pid hw.sub hv' hd') _ _ _ _) h).awaitSlot _ _ _
  | unsubscribe t =>
    rw [User.startOp_unsubscribe]
    have hd' := hd w.pidCtr hw.pid.1 hw.pid.2
    split
    · exact hw.allocPid.finishOp _ _
    · rename_i hv
      have hv' : ({ t with packetId := w.pidCtr } : UnsubscribeTx).valid = true := by simpa using hv
      exact hw.allocPid.sendAwait _ (MsgWire.mk_ack (WireOf.unsubscribe t hsrc _ hw.pid hv' hd')
        (fun h3 => by rw [pktType_unsubscribe] at h3; cases h3) _ _) _ _ _
  | ping =>
    rw [User.startOp_ping]
    exact hw.sendAwait _ (MsgWire.mk_ack (WireOf.pingreq hsrc)
      (fun h3 => by rw [pktType_pingreq] at h3; cases h3) _ _) _ _ _
  | disconnect t =>
    rw [User.startOp_disconnect]
    exact hw.sendAwait _ (MsgWire.mk_ff (WireOf.disconnect t hsrc hd) _) _ _ _

/-- **a handle future resumed with the value of its oneshot** (a stored packet is well formed) -/
theorem LInv.resumeOp {w : World} (hw : LInv S w) (id s : Nat) (k : Wait) (v : SlotVal)
    (hv : ∀ p, v = .pkt p → p.wf) : LInv S (w.resumeOp id s k v) := by
  have hc := hw.clearSlot s
  cases v with
  | errSize => exact hc.finishOp _ _
  | errQuota => exact hc.finishOp _ _
  | unit => simp only [World.resumeOp]; split <;> exact hc.finishOp _ _
  | pkt p =>
    have hwf := hv p rfl
    cases ha : Wait.accepts k p with
    | false =>
      cases k <;> cases p <;> simp [Wait.accepts] at ha <;> simp only [World.resumeOp] <;> exact hc.unreach id
    | true =>
      cases k <;> cases p <;> simp [Wait.accepts] at ha <;> simp only [World.resumeOp]
      · split <;> exact hc.finishOp _ _
      · rename_i a
        split
        · exact hc.finishOp _ _
        · have hr : 0 < a.packetId ∧ a.packetId < 65536 := hwf
          have hm : MsgWire S (.awaitAck (actionId 7 a.packetId) (ackBytes 0x62 a.packetId) (s + 1)) :=
            ⟨WireOf.ack _ _ (Or.inr (Or.inr (Or.inl rfl))) ⟨by omega, by omega⟩,
              fun h3 => by rw [pktType_pubrel] at h3; cases h3⟩
          exact hc.sendAwait _ hm _ _ _
      · split <;> exact hc.finishOp _ _
      · exact (hc.setRsps _).finishOp _ _
      · exact hc.finishOp _ _
      · exact hc.finishOp _ _

theorem LInv.pollOp {w : World} (hw : LInv S w) (id : Nat) : LInv S (w.pollOp id) := by
  unfold World.pollOp
  split
  · exact hw
  · rename_i h req hop
    exact hw.startOp id req (hw.ops id h req (mem_of_lookupFirst hop))
  · rename_i s k hop
    split
    · rename_i v hs
      exact hw.resumeOp id s k v (fun p hp => hw.slots s p (by subst hp; exact mem_of_lookupFirst hs))
    · exact (hw.clearSlot s).finishOp _ _
    · exact hw.same rfl rfl rfl rfl rfl rfl rfl rfl rfl rfl

theorem LInv.pollStream {w : World} (hw : LInv S w) (id : Nat) : LInv S (w.pollStream id) := by
  unfold World.pollStream
  split
  · exact hw
  · split
    · exact hw
    · split
      · rename_i p rest _
        exact (((hw.setChan _ _).emit (.item id p) trivial).wake _)
      · split
        · exact hw.setChan _ _
        · exact (((hw.setStreams _).dropChanRx id).emit (.endStream id) trivial)

theorem LInv.dropOp {w : World} (hw : LInv S w) (id : Nat) : LInv S (w.dropOp id) := by
  unfold World.dropOp
  split
  · exact hw
  · exact (hw.eraseOp id).senderGone
  · rename_i s k _
    cases k <;> first
      | exact ((hw.clearSlot s).eraseOp id).senderGone
      | exact (((hw.clearSlot s).dropChanRx id).eraseOp id).senderGone


/-- **one poll of any task, whatever the limit** -/
theorem LInv.pollTask {w : World} (hw : LInv S w) (t : Task) : LInv S (w.pollTask t) := by
  cases t with
  | ctx => exact (hw.unwake .ctx).pollCtx
  | op n => exact (hw.unwake _).pollOp n
  | st n => exact (hw.unwake _).pollStream n

/-! ## the executor -/

theorem LInv.drain (f : Nat) {w : World} (hw : LInv S w) : LInv S (drain f w) := by
  induction f generalizing w with
  | zero => exact hw
  | succ f ih =>
    simp only [World.drain]
    cases hp : w.pick with
    | none => exact hw
    | some t => exact ih (hw.pollTask t)

theorem LInv.sweep {w : World} (hw : LInv S w) : LInv S w.sweep := by
  unfold World.sweep
  simp only
  generalize ([Task.ctx] ++ List.map Task.op (sortNat (List.map (fun x => x.1) w.ops)) ++
    List.map Task.st (sortNat w.streams)) = l
  induction l generalizing w with
  | nil => exact hw
  | cons t l ih =>
    simp only [List.foldl_cons]
    split
    · exact ih (hw.pollTask t)
    · exact ih hw

/-! ## script events -/

theorem LInv.badScript {w : World} (hw : LInv S w) : LInv S w.badScript := by
  unfold World.badScript
  exact (hw.emit .badscript trivial).same rfl rfl rfl rfl rfl rfl rfl rfl rfl rfl

theorem LInv.setReader {w : World} (hw : LInv S w) (rd : List ReadEv) : LInv S { w with reader := rd } :=
  hw.same rfl rfl rfl rfl rfl rfl rfl rfl rfl rfl

theorem LInv.setReaderReg {w : World} (hw : LInv S w) (b : Bool) : LInv S { w with readerReg := b } :=
  hw.same rfl rfl rfl rfl rfl rfl rfl rfl rfl rfl

theorem LInv.feedEvents {w : World} (hw : LInv S w) (evs : List ReadEv) : LInv S (w.feedEvents evs) := by
  unfold World.feedEvents
  simp only
  split
  · exact ((hw.setReader _).wake .ctx).setReaderReg false
  · exact hw.setReader _

theorem LInv.closes {a b : World} (h : Closes a b) (ha : LInv S a) : LInv S b := by
  induction h with
  | refl => exact ha
  | slot s _ ih => exact ih.dropSlotTx s
  | chan c _ ih => exact ih.dropChanTx c

/-- the task is over (dropped future, dropped context): the context existed -/
theorem LInv.endTask {w : World} (hw : LInv S w) (hc : Bool) (hd : Bool) (hlive : hc = true ∨ hd = true ∨ w.task = .none ∧
    hc = w.hasCtx ∧ hd = w.ctxDropped) (rd : List ReadEv) :
    LInv S { w with task := .none, hasCtx := hc, ctxDropped := hd, reader := rd } := by
  refine hw.transfer (hw.pend.of_eq rfl rfl rfl) (fun _ h => Or.inl h) (fun _ h => Or.inl h) (fun _ h => Or.inl h)
    (fun _ _ _ h => Or.inl h) (Or.inr trivial) (Or.inl rfl) (Or.inl rfl) (fun _ _ h => Or.inl h) ?_
  rcases hlive with h | h | ⟨h1, h2, h3⟩
  · exact Or.inl ⟨Or.inl h, fun ht => absurd rfl ht⟩
  · exact Or.inl ⟨Or.inr h, fun ht => absurd rfl ht⟩
  · rcases hw.live with ⟨hl, _⟩ | ⟨a1, _, a3⟩
    · refine Or.inl ⟨?_, fun ht => absurd rfl ht⟩
      show hc = true ∨ hd = true
      rw [h2, h3]; exact hl
    · exact Or.inr ⟨a1, rfl, a3⟩

theorem LInv.dropCtx {w : World} (hw : LInv S w) (h : w.hasCtx = true) : LInv S (w.apply .dropCtx) := by
  rw [apply_dropCtx w h]
  have h0 : LInv S (dropCtxStart w) := by
    unfold dropCtxStart
    exact hw.endTask false true (Or.inr (Or.inl rfl)) []
  have h1 : LInv S (dropCtxClosed w) := LInv.closes (closes_dropCtxClosed w) h0
  exact h1.transferU (fun _ h => Or.inl h) (fun m hm => by cases hm) (fun e he => by cases he)
    (fun _ _ _ h => Or.inl h) (Or.inl rfl) (Or.inl rfl) (fun _ _ h => Or.inl h)

/-- starting `connect()` / `authorize()` / `run()` on a live context -/
theorem LInv.startTask {w : World} (hw : LInv S w) (tk : CtxTask) (htk : TaskOk S tk) (hc : w.hasCtx = true) :
    LInv S ({ w with task := tk } : World) :=
  hw.transfer (hw.pend.of_eq rfl rfl rfl) (fun _ h => Or.inl h) (fun _ h => Or.inl h) (fun _ h => Or.inl h)
    (fun _ _ _ h => Or.inl h) (Or.inr htk) (Or.inl rfl) (Or.inl rfl) (fun _ _ h => Or.inl h)
    (Or.inl ⟨Or.inl hc, fun _ => hc⟩)

theorem LInv.flushRaw {w : World} (hw : LInv S w) : LInv S w.flushRaw ∧ w.flushRaw.wirePend = [] := by
  unfold World.flushRaw
  split
  · rename_i h; exact ⟨hw, h⟩
  · rename_i h
    refine ⟨?_, rfl⟩
    have hpart : PartOf S w.wirePend := by
      rcases hw.pend with h' | ⟨h', _⟩
      · exact absurd h' h
      · exact h'
    have hlv : Live w := by
      rcases hw.live with ⟨h', _⟩ | ⟨h', _, _⟩
      · exact h'
      · exact absurd h' h
    refine (hw.emit (.wraw w.wirePend) hpart).transfer (Or.inl rfl) (fun _ h => Or.inl h) (fun _ h => Or.inl h)
      (fun _ h => Or.inl h) (fun _ _ _ h => Or.inl h) (Or.inl rfl) (Or.inl rfl) (Or.inl rfl) (fun _ _ h => Or.inl h) ?_
    rcases hw.live with ⟨h1, h2⟩ | ⟨h', _, _⟩
    · exact Or.inl ⟨h1, h2⟩
    · exact absurd h' h

/-- **a script event whose request is in the domain** keeps the invariant, whatever the transport limit -/
theorem LInv.apply {w : World} (hw : LInv S w) (e : Ev) (hd : EvOk S e) : LInv S (w.apply e) := by
  cases e with
  | poll t =>
    simp only [World.apply]
    split
    · exact hw.pollTask t
    · exact hw
  | dropCtx =>
    by_cases h : w.hasCtx = true
    · exact hw.dropCtx h
    · have h' : w.hasCtx = false := by simpa using h
      simp only [World.apply, h', Bool.not_false, ↓reduceIte]
      have := hw.endTask w.hasCtx w.ctxDropped ?_ w.reader
      · exact this.same rfl rfl rfl rfl rfl rfl rfl rfl rfl rfl (hasCtx := h'.symm)
      · rcases hw.live with ⟨hl, _⟩ | ⟨_, a2, _⟩
        · rcases hl with hl | hl
          · exact Or.inl hl
          · exact Or.inr (Or.inl hl)
        · exact Or.inr (Or.inr ⟨a2, rfl, rfl⟩)
  | setup =>
    simp only [World.apply]
    split
    · exact hw.badScript
    · rename_i hne
      have htn : w.task = .none := by
        cases ht : w.task <;> simp [ht] at hne ⊢
      split
      · split
        · exact hw.badScript
        · rename_i hc _
          have hc' : w.hasCtx = false := by simpa using hc
          have hd' : w.ctxDropped = false := by
            cases hx : w.ctxDropped <;> simp [hx] at hne ⊢
          have hpe : w.wirePend = [] := by
            rcases hw.live with ⟨hl, _⟩ | ⟨a1, _, _⟩
            · rcases hl with hl | hl
              · rw [hc'] at hl; cases hl
              · rw [hd'] at hl; cases hl
            · exact a1
          exact hw.transfer (Or.inl hpe) (fun _ h => Or.inl h) (fun _ h => Or.inl h) (fun e he => by cases he)
            (fun _ _ _ h => Or.inl h) (Or.inl rfl) (Or.inl rfl) (Or.inl rfl) (fun _ _ h => Or.inl h)
            (Or.inl ⟨Or.inl rfl, fun _ => rfl⟩)
      · rename_i hc
        have hc' : w.hasCtx = true := by simpa using hc
        obtain ⟨h1, h2⟩ := hw.flushRaw
        exact h1.transfer (Or.inl h2) (fun _ h => Or.inl h) (fun _ h => Or.inl h) (fun _ h => Or.inl h)
          (fun _ _ _ h => Or.inl h) (Or.inl rfl) (Or.inl rfl) (Or.inl rfl) (fun _ _ h => Or.inl h)
          (Or.inl ⟨Or.inl (by rw [flushRaw_hasCtx]; exact hc'), fun _ => by rw [flushRaw_hasCtx]; exact hc'⟩)
  | connect t =>
    simp only [World.apply]
    split
    · exact hw.badScript
    · rename_i hc
      have hc' : w.hasCtx = true := by
        cases hx : w.hasCtx <;> simp [hx] at hc ⊢
      exact (hw.startTask (.connecting .connect t {} false) ⟨fun _ => hd, fun h => absurd rfl h⟩ hc').wake .ctx
  | authorize a =>
    simp only [World.apply]
    split
    · exact hw.badScript
    · rename_i hc
      have hc' : w.hasCtx = true := by
        cases hx : w.hasCtx <;> simp [hx] at hc ⊢
      exact (hw.startTask (.connecting .authorize {} a false) ⟨(fun h => by cases h), fun _ => hd⟩ hc').wake .ctx
  | run =>
    simp only [World.apply]
    split
    · exact hw.badScript
    · rename_i hc
      have hc' : w.hasCtx = true := by
        cases hx : w.hasCtx <;> simp [hx] at hc ⊢
      exact (hw.startTask (.running false) trivial hc').wake .ctx
  | dropFut =>
    have := hw.endTask w.hasCtx w.ctxDropped ?_ w.reader
    · exact this.same rfl rfl rfl rfl rfl rfl rfl rfl rfl rfl
    · rcases hw.live with ⟨hl, _⟩ | ⟨_, a2, _⟩
      · rcases hl with hl | hl
        · exact Or.inl hl
        · exact Or.inr (Or.inl hl)
      · exact Or.inr (Or.inr ⟨a2, rfl, rfl⟩)
  | markDisc secs =>
    simp only [World.apply]
    split
    · exact hw.badScript
    · exact hw.same rfl rfl rfl rfl rfl rfl rfl rfl rfl rfl
  | snap =>
    simp only [World.apply]
    split
    · exact hw.badScript
    · exact hw.emit (.state w.c) trivial
  | feed chunks =>
    simp only [World.apply]
    split
    · exact hw.badScript
    · exact hw.feedEvents _
  | feedEof =>
    simp only [World.apply]
    split
    · exact hw.badScript
    · exact hw.feedEvents _
  | feedErr =>
    simp only [World.apply]
    split
    · exact hw.badScript
    · exact hw.feedEvents _
  | op id h req =>
    simp only [World.apply]
    split
    · exact hw.badScript
    · refine LInv.wake (w := { w with ops := w.ops ++ [(id, OpSt.fresh h req)] }) ?_ (.op id)
      refine hw.transferU (fun _ h => Or.inl h) (fun _ h => Or.inl h) (fun _ h => Or.inl h)
        ?_ (Or.inl rfl) (Or.inl rfl) (fun _ _ h => Or.inl h)
      intro i hh rq hm
      simp only [List.mem_append, List.mem_singleton, Prod.mk.injEq, OpSt.fresh.injEq] at hm
      rcases hm with hm | ⟨_, _, rfl⟩
      · exact Or.inl hm
      · exact Or.inr hd
  | hold t =>
    simp only [World.apply]
    split
    · exact hw
    · exact hw.same rfl rfl rfl rfl rfl rfl rfl rfl rfl rfl
  | release t => exact hw.same rfl rfl rfl rfl rfl rfl rfl rfl rfl rfl
  | drop t =>
    cases t with
    | ctx => exact hw
    | op id => exact hw.dropOp id
    | st id =>
      simp only [World.apply]
      split
      · exact (hw.setStreams _).dropChanRx id
      · exact hw
  | dropRsp id =>
    simp only [World.apply]
    split
    · exact (hw.setRsps _).dropChanRx id
    · exact hw
  | stream id =>
    simp only [World.apply]
    split
    · exact hw.badScript
    · exact ((hw.setRsps (w.rsps.filter (· ≠ id))).setStreams (w.streams ++ [id])).wake (.st id)
  | clone h h2 =>
    simp only [World.apply]
    split
    · exact hw.badScript
    · exact hw.same rfl rfl rfl rfl rfl rfl rfl rfl rfl rfl
  | dropHandle h =>
    simp only [World.apply]
    split
    · exact hw.badScript
    · exact LInv.senderGone (w := { w with handles := _ }) (hw.same rfl rfl rfl rfl rfl rfl rfl rfl rfl rfl)

/-- **one script step, whatever the limit** -/
theorem LInv.step {w : World} (hw : LInv S w) (e : Ev) (hd : EvOk S e) : LInv S (w.step e) := by
  unfold World.step
  split
  · exact hw
  · dsimp only
    have h1 := (hw.emit (.ev e) trivial).apply e hd
    generalize (w.emit (.ev e)).apply e = w1 at h1 ⊢
    split
    · exact h1
    · have h2 := h1.drain w1.drainFuel
      generalize World.drain w1.drainFuel w1 = w2 at h2 ⊢
      have h3 : LInv S (if w2.cfg.sweep = true then World.drain w2.sweep.drainFuel w2.sweep else w2) := by
        split
        · exact h2.sweep.drain _
        · exact h2
      generalize (if w2.cfg.sweep = true then World.drain w2.sweep.drainFuel w2.sweep else w2) = w3 at h3 ⊢
      split
      · exact h3.emit .stall trivial
      · exact h3

/-- **whole scripts, whatever the limit** -/
theorem LInv.script (evs : List Ev) {w : World} (hw : LInv S w) (hd : ∀ e ∈ evs, EvOk S e) :
    LInv S (evs.foldl World.step w) := by
  induction evs generalizing w with
  | nil => exact hw
  | cons e es ih =>
    simp only [List.foldl_cons]
    exact ih (hw.step e (hd e (by simp))) (fun e' he' => hd e' (by simp [he']))

end World
end Poster
