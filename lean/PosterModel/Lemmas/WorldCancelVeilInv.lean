/-
  Lemmas/WorldCancelVeilInv.lean — the side conditions under which `veil id` commutes with the executor and the script
  events, and their preservation: stream `id` is frozen and no operation is named `id`; no queued request registers
  channel `id`; the subscription identifiers in flight are pairwise distinct; no `subscribe()` future is waiting for its
  first poll (so no new subscription identifier is allocated — the identifiers in flight can only disappear).
-/
import PosterModel.Lemmas.WorldCancelVeilUser
import PosterModel.Lemmas.WorldStreamStep

set_option linter.unusedVariables false
set_option linter.unusedSimpArgs false

namespace Poster
open Framing
namespace World
namespace W11

/-- no `subscribe()` future is waiting for its first poll -/
def NoFreshSub (w : World) : Prop := ∀ j h t, (j, OpSt.fresh h (.subscribe t)) ∉ w.ops

/-- the request is not a `subscribe()` -/
def notSubReq : Req → Bool
  | .subscribe _ => false
  | _ => true

/-- the script event issues a `subscribe()` -/
def isSubEv : Ev → Bool
  | .op _ _ (.subscribe _) => true
  | _ => false

/-- what the commutation of `veil id` needs of a world -/
structure SideV (id : Nat) (w : World) : Prop where
  frozen : FrozenSt id w
  noMsg : NoMsgFor id w
  nodup : (psids w).Nodup
  noSub : NoFreshSub w

theorem SideV.ctxOK {id : Nat} {w : World} (h : SideV id w) : CtxOK id w := ⟨h.noMsg, h.nodup⟩

/-! ## polls -/

theorem strace_subFrame {tr : List SLab} {w w' : World} (t : STrace w tr w') (h : ∀ l ∈ tr, l.started = none) :
    SubFrame w w' := by
  induction t with
  | refl => exact subFrame_refl _
  | @cons a b c l tr' m _ ih =>
    have hl : l.started = none := h l (by simp)
    rcases m.subRel with ⟨_, sf⟩ | ⟨hne, _⟩
    · exact subFrame_trans sf (ih (fun l' hl' => h l' (by simp [hl'])))
    · exact absurd hl hne

theorem pollCtx_subFrame (w : World) : SubFrame w w.pollCtx := by
  obtain ⟨tr, st, hl⟩ := pollCtx_dec w
  refine strace_subFrame st (fun l hm => ?_)
  rcases hl l hm with rfl | ⟨src, rfl⟩ <;> rfl

theorem sendAwait_queue (w : World) (m : Msg) (j s : Nat) (k : Wait) :
    (w.sendAwait m j s k).queue = w.queue ++ [m] ∨ (w.sendAwait m j s k).queue = w.queue := by
  by_cases h : w.hasCtx = true
  · obtain ⟨wk, qr, e⟩ := User.sendAwait_ctx w m j s k h
    left; rw [e]
  · right
    rw [User.sendAwait_no_ctx w m j s k (by simpa using h)]
    simp

/-- a first poll of a future that is not a `subscribe()` queues no SUBSCRIBE request -/
theorem startOp_queue_nosub (w : World) (j : Nat) (req : Req) (hr : notSubReq req = true) :
    ∀ m ∈ (w.startOp j req).queue, m ∈ w.queue ∨ ∀ id, isSubFor id m = false := by
  have key : ∀ (w0 : World) (m0 : Msg) (s : Nat) (k : Wait), w0.queue = w.queue → (∀ id, isSubFor id m0 = false) →
      ∀ m ∈ (w0.sendAwait m0 j s k).queue, m ∈ w.queue ∨ ∀ id, isSubFor id m = false := by
    intro w0 m0 s k hq hm0 m hm
    rcases sendAwait_queue w0 m0 j s k with e | e
    · rw [e, hq] at hm
      rcases List.mem_append.mp hm with h | h
      · exact Or.inl h
      · simp only [List.mem_singleton] at h; subst h; exact Or.inr hm0
    · rw [e, hq] at hm; exact Or.inl hm
  have fin : ∀ (w0 : World) (r : DoneRes), w0.queue = w.queue →
      ∀ m ∈ (w0.finishOp j r).queue, m ∈ w.queue ∨ ∀ id, isSubFor id m = false := by
    intro w0 r hq m hm
    rw [User.finishOp_queue, hq] at hm; exact Or.inl hm
  cases req with
  | publish t =>
    by_cases hq : t.qos = 0
    · rw [User.startOp_publish0 _ _ _ hq]
      split
      · exact fin w _ rfl
      · exact key w _ _ _ rfl (fun _ => rfl)
    · rw [User.startOp_publish12 _ _ _ hq]
      split
      · exact fin _ _ rfl
      · exact key _ _ _ _ rfl (fun _ => rfl)
  | subscribe t => cases hr
  | unsubscribe t =>
    rw [User.startOp_unsubscribe]
    split
    · exact fin _ _ rfl
    · exact key _ _ _ _ rfl (fun _ => rfl)
  | ping => rw [User.startOp_ping]; exact key w _ _ _ rfl (fun _ => rfl)
  | disconnect t => rw [User.startOp_disconnect]; exact key w _ _ _ rfl (fun _ => rfl)

theorem resumeOp_queue_nosub (w : World) (j s : Nat) (k : Wait) (v : SlotVal) :
    ∀ m ∈ (w.resumeOp j s k v).queue, m ∈ w.queue ∨ ∀ id, isSubFor id m = false := by
  intro m hm
  by_cases hpr : ∃ a, k = .pubrec ∧ v = .pkt (.pubrec a) ∧ ¬ a.reason ≥ 128
  · obtain ⟨a, rfl, rfl, hr⟩ := hpr
    rw [resumeOp_pubrec_eq _ _ _ _ hr] at hm
    rcases sendAwait_queue (w.clearSlot s) (.awaitAck (actionId 7 a.packetId) (ackBytes 0x62 a.packetId) (s + 1)) j
      (s + 1) .pubcomp with e | e
    · rw [e] at hm
      rcases List.mem_append.mp hm with h | h
      · exact Or.inl h
      · simp only [List.mem_singleton] at h; subst h; exact Or.inr (fun _ => rfl)
    · rw [e] at hm; exact Or.inl hm
  · have hq : (w.resumeOp j s k v).queue = w.queue := by
      cases v with
      | errSize => simp [resumeOp, clearSlot]
      | errQuota => simp [resumeOp, clearSlot]
      | unit => cases k <;> simp [resumeOp, clearSlot]
      | pkt x =>
        cases k <;> cases x <;> simp only [resumeOp] <;>
          first
          | (simp [clearSlot]; done)
          | (split <;> simp [clearSlot]; done)
          | skip
        rename_i a
        by_cases hr : a.reason ≥ 128
        · simp [hr, clearSlot]
        · exact absurd ⟨a, rfl, rfl, hr⟩ hpr
    rw [hq] at hm; exact Or.inl hm

theorem sendMsg_streams {w w1 : World} {m : Msg} (h : w.sendMsg m = some w1) : w1.streams = w.streams := by
  rw [sendMsg_eq] at h
  split at h
  · cases h; rfl
  · cases h

theorem sendAwait_streams (w : World) (m : Msg) (id s : Nat) (k : Wait) :
    (w.sendAwait m id s k).streams = w.streams := by
  unfold sendAwait
  cases h : w.sendMsg m with
  | none => simp
  | some w1 => simp [sendMsg_streams h]

theorem startOp_streams (w : World) (id : Nat) (req : Req) : (w.startOp id req).streams = w.streams := by
  cases req with
  | publish t =>
    by_cases hq : t.qos = 0
    · rw [User.startOp_publish0 _ _ _ hq]; split <;> simp [sendAwait_streams]
    · rw [User.startOp_publish12 _ _ _ hq]; split <;> simp [sendAwait_streams]
  | subscribe t =>
    rw [User.startOp_subscribe]
    simp only
    split
    · simp
    · cases h : World.sendMsg _ _ with
      | none => simp
      | some w1 => simp [sendMsg_streams h]
  | unsubscribe t => rw [User.startOp_unsubscribe]; split <;> simp [sendAwait_streams]
  | ping => rw [User.startOp_ping]; exact sendAwait_streams ..
  | disconnect t => rw [User.startOp_disconnect]; exact sendAwait_streams ..

theorem resumeOp_streams (w : World) (id s : Nat) (k : Wait) (v : SlotVal) :
    (w.resumeOp id s k v).streams = w.streams := by
  cases v with
  | errSize => simp [resumeOp]
  | errQuota => simp [resumeOp]
  | unit => cases k <;> simp [resumeOp]
  | pkt x =>
    cases k <;> cases x <;> simp only [resumeOp, apply_ite World.streams, finishOp_streams, clearSlot_streams,
      senderGone_streams, emit_streams, ite_self]
    split
    · rfl
    · cases h : World.sendMsg _ _ with
      | none => simp
      | some w1 => simp [sendMsg_streams h]

theorem pollOp_streams (w : World) (id : Nat) : (w.pollOp id).streams = w.streams := by
  unfold pollOp
  repeat' split
  all_goals simp [startOp_streams, resumeOp_streams]

theorem pollStream_streams_sub (w : World) (j n : Nat) (h : n ∈ (w.pollStream j).streams) : n ∈ w.streams := by
  unfold pollStream at h
  split at h
  · exact h
  · split at h
    · exact h
    · split at h
      · simpa using h
      · split at h
        · exact h
        · simp only [emit_streams, dropChanRx, List.mem_filter] at h
          exact h.1

theorem pollTask_streams_sub (w : World) (t : Task) (n : Nat) (h : n ∈ (w.pollTask t).streams) : n ∈ w.streams := by
  cases t with
  | ctx =>
    have : (w.pollTask .ctx).streams = w.streams := (hand_pollCtx (w.unwake .ctx)).act.streams_eq
    rw [this] at h; exact h
  | op j =>
    have : (w.pollTask (.op j)).streams = w.streams := pollOp_streams (w.unwake (.op j)) j
    rw [this] at h; exact h
  | st j => exact pollStream_streams_sub (w.unwake (.st j)) j n h

theorem apply_held_mem_task (t0 : Task) (w : World) (e : Ev) (hm : e ≠ .release t0) (h : t0 ∈ w.held) :
    t0 ∈ (w.apply e).held := by
  cases e with
  | dropCtx =>
    by_cases hc : w.hasCtx = true
    · rw [apply_dropCtx _ hc]
      show t0 ∈ (dropCtxClosed w).held
      rw [(closes_inv (closes_dropCtxClosed w)).held_eq]; exact h
    · simp only [World.apply, hc, Bool.not_eq_true, Bool.not_false, ↓reduceIte]; exact h
  | poll t =>
    simp only [World.apply]
    split
    · rw [pollTask_held]; exact h
    · exact h
  | hold t =>
    simp only [World.apply]
    split
    · exact h
    · exact List.mem_append_left _ h
  | release t =>
    have ht : t ≠ t0 := fun e' => hm (by rw [e'])
    simp only [World.apply, List.mem_filter]
    exact ⟨h, by simpa using fun e => ht e.symm⟩
  | drop t =>
    rw [(apply_drop_frame w t).2.2.2.2.2.2.2.2.2.2.2.1]; exact h
  | setup =>
    simp only [World.apply]
    split
    · exact h
    · split
      · split
        · exact h
        · exact h
      · show t0 ∈ w.flushRaw.held
        unfold flushRaw; split <;> exact h
  | feed chunks =>
    simp only [World.apply]
    split
    · exact h
    · unfold feedEvents; simp only; split <;> simpa using h
  | feedEof =>
    simp only [World.apply]
    split
    · exact h
    · unfold feedEvents; simp only; split <;> simpa using h
  | feedErr =>
    simp only [World.apply]
    split
    · exact h
    · unfold feedEvents; simp only; split <;> simpa using h
  | op j hd req =>
    rw [apply_op_eq]
    split
    · exact h
    · simpa [addOpW] using h
  | _ =>
    simp only [World.apply]
    repeat' split
    all_goals first | exact h | simpa [badScript] using h


/-! ## the side conditions through a poll -/

theorem psids_pollOp (w : World) (j : Nat) (hns : ∀ h t, w.opSt j ≠ some (.fresh h (.subscribe t))) :
    psids (w.pollOp j) = psids w := by
  unfold pollOp
  cases hst : w.opSt j with
  | none => rfl
  | some st =>
    cases st with
    | fresh hd req =>
      exact (startOp_subEq_other w j req (fun t e => hns hd t (by rw [hst, e]))).2
    | wait s k =>
      simp only
      cases hsl : w.slot s with
      | none => rfl
      | some sl =>
        cases sl with
        | empty => rfl
        | full v => exact (resumeOp_subEq w j s k v).2
        | closed => simp [psids, clearSlot]

theorem queue_pollOp_nosub (w : World) (j : Nat) (hns : ∀ h t, w.opSt j ≠ some (.fresh h (.subscribe t))) :
    ∀ m ∈ (w.pollOp j).queue, m ∈ w.queue ∨ ∀ id, isSubFor id m = false := by
  unfold pollOp
  cases hst : w.opSt j with
  | none => exact fun m hm => Or.inl hm
  | some st =>
    cases st with
    | fresh hd req =>
      apply startOp_queue_nosub w j req
      cases req with
      | subscribe t => exact absurd hst (hns hd t)
      | _ => rfl
    | wait s k =>
      simp only
      cases hsl : w.slot s with
      | none => exact fun m hm => Or.inl hm
      | some sl =>
        cases sl with
        | empty => exact fun m hm => Or.inl hm
        | full v => exact resumeOp_queue_nosub w j s k v
        | closed => intro m hm; simp [clearSlot] at hm; exact Or.inl hm

theorem NoFreshSub.opSt {w : World} (h : NoFreshSub w) (j hd : Nat) (t : SubscribeTx) :
    w.opSt j ≠ some (.fresh hd (.subscribe t)) := fun e => h j hd t (mem_of_opSt e)

theorem SideV.pollTask {id : Nat} {w : World} (h : SideV id w) (t : Task) (ht : t ≠ .st id) (ho : t ≠ .op id) :
    SideV id (w.pollTask t) := by
  have hfr : FrozenSt id (w.pollTask t) := by
    refine ⟨by rw [pollTask_opSt_ne w t id ho]; exact h.frozen.noOp, ?_⟩
    rcases h.frozen.st with hs | hs
    · exact Or.inl (fun hm => hs (pollTask_streams_sub w t id hm))
    · exact Or.inr (by rw [pollTask_held]; exact hs)
  have hns : NoFreshSub (w.pollTask t) := fun j hd tx hm => h.noSub j hd tx (W7.moves_fresh (pollTask_moves w t) hm)
  refine ⟨hfr, ?_, ?_, hns⟩
  · cases t with
    | ctx =>
      intro m hm
      exact h.noMsg m ((W7.pollCtx_retx_origin (w.unwake .ctx)).1 m hm)
    | op j =>
      intro m hm
      rcases queue_pollOp_nosub (w.unwake (.op j)) j (fun hd tx => h.noSub.opSt j hd tx) m hm with hq | hq
      · exact h.noMsg m hq
      · exact hq id
    | st j =>
      intro m hm
      have : (w.pollTask (.st j)).queue = w.queue := W7.pollStream_queue (w.unwake (.st j)) j
      rw [this] at hm; exact h.noMsg m hm
  · cases t with
    | ctx => exact (pollCtx_subFrame (w.unwake .ctx)).2.1 h.nodup
    | op j =>
      show (psids ((w.unwake (.op j)).pollOp j)).Nodup
      rw [psids_pollOp (w.unwake (.op j)) j (fun hd tx => h.noSub.opSt j hd tx)]
      exact h.nodup
    | st j =>
      have hq : (w.pollTask (.st j)).queue = w.queue := W7.pollStream_queue (w.unwake (.st j)) j
      have hc : (w.pollTask (.st j)).c = w.c := pollStream_c (w.unwake (.st j)) j
      unfold psids; rw [hq, hc]; exact h.nodup

/-! ## the side conditions through a script event -/

theorem SideV.emit {id : Nat} {w : World} (h : SideV id w) (o : Obs) : SideV id (w.emit o) :=
  ⟨⟨h.frozen.noOp, h.frozen.st⟩, h.noMsg, h.nodup, h.noSub⟩

theorem apply_streams_sub (id : Nat) (w : World) (e : Ev) (hm : mineStEv id e = false)
    (h : id ∈ (w.apply e).streams) : id ∈ w.streams := by
  cases e with
  | stream j =>
    have hj : j ≠ id := by simpa [mineStEv] using hm
    simp only [World.apply] at h
    split at h
    · exact h
    · simp only [wake_streams, List.mem_append, List.mem_singleton] at h
      rcases h with h | h
      · exact h
      · exact absurd h.symm hj
  | poll t =>
    simp only [World.apply] at h
    split at h
    · exact pollTask_streams_sub w t id h
    · exact h
  | drop t =>
    have := apply_drop_live w t (.st id) (by simpa [taskLive] using h)
    simpa [taskLive] using this
  | dropCtx =>
    by_cases hc : w.hasCtx = true
    · rw [apply_dropCtx _ hc] at h
      have e1 : (dropCtxClosed w).streams = w.streams := by
        rw [(closes_inv (closes_dropCtxClosed w)).frame]; rfl
      have : ({ dropCtxClosed w with queue := [], c := {} } : World).streams = w.streams := e1
      rw [this] at h; exact h
    · simp only [World.apply, hc, Bool.not_eq_true, Bool.not_false, ↓reduceIte] at h; exact h
  | setup =>
    simp only [World.apply] at h
    split at h
    · exact h
    · split at h
      · split at h
        · exact h
        · exact h
      · have : w.flushRaw.streams = w.streams := by unfold flushRaw; split <;> rfl
        exact this ▸ h
  | feed chunks =>
    simp only [World.apply] at h
    split at h
    · exact h
    · unfold feedEvents at h; simp only at h; split at h <;> simpa using h
  | feedEof =>
    simp only [World.apply] at h
    split at h
    · exact h
    · unfold feedEvents at h; simp only at h; split at h <;> simpa using h
  | feedErr =>
    simp only [World.apply] at h
    split at h
    · exact h
    · unfold feedEvents at h; simp only at h; split at h <;> simpa using h
  | op j hd req =>
    rw [apply_op_eq] at h
    split at h
    · exact h
    · simpa [addOpW] using h
  | dropRsp j =>
    simp only [World.apply] at h
    split at h
    · simpa [dropChanRx] using h
    · exact h
  | _ =>
    simp only [World.apply] at h
    repeat' split at h
    all_goals first | exact h | simpa [badScript] using h

theorem psids_congr {w w' : World} (hq : w'.queue = w.queue) (hs : w'.c.subs = w.c.subs) : psids w' = psids w := by
  unfold psids; rw [hq, hs]

/-- a script event other than `poll` allocates no subscription identifier: those in flight can only disappear -/
theorem apply_psids_sublist (w : World) (e : Ev) (hp : ∀ t, e ≠ .poll t) : (psids (w.apply e)).Sublist (psids w) := by
  have same : ∀ w' : World, w'.queue = w.queue → w'.c.subs = w.c.subs → (psids w').Sublist (psids w) :=
    fun w' a b => by rw [psids_congr a b]; exact List.Sublist.refl _
  cases e with
  | poll t => exact absurd rfl (hp t)
  | dropCtx =>
    by_cases hc : w.hasCtx = true
    · rw [apply_dropCtx _ hc]
      simp [psids]
    · simp only [World.apply, hc, Bool.not_eq_true, Bool.not_false, ↓reduceIte]
      exact same _ rfl rfl
  | setup =>
    simp only [World.apply]
    split
    · exact same _ rfl rfl
    · split
      · split
        · exact same _ rfl rfl
        · simp only [psids, List.map_nil, List.append_nil]
          exact List.sublist_append_left _ _
      · apply same
        · unfold flushRaw; split <;> rfl
        · unfold flushRaw; split <;> rfl
  | drop t => exact same _ (apply_drop_frame w t).2.2.2.1 (by rw [(apply_drop_frame w t).2.2.1])
  | op j hd req =>
    rw [apply_op_eq]
    split
    · exact same _ rfl rfl
    · exact same _ (by simp [addOpW]) (by simp [addOpW])
  | feed chunks =>
    simp only [World.apply]
    split
    · exact same _ rfl rfl
    · apply same <;> (unfold feedEvents; simp only; split <;> simp)
  | feedEof =>
    simp only [World.apply]
    split
    · exact same _ rfl rfl
    · apply same <;> (unfold feedEvents; simp only; split <;> simp)
  | feedErr =>
    simp only [World.apply]
    split
    · exact same _ rfl rfl
    · apply same <;> (unfold feedEvents; simp only; split <;> simp)
  | markDisc secs =>
    simp only [World.apply]
    split
    · exact same _ rfl rfl
    · exact same _ rfl rfl
  | _ =>
    simp only [World.apply]
    repeat' split
    all_goals first
      | exact same _ rfl rfl
      | exact same _ (by simp [badScript, dropChanRx]) (by simp [badScript, dropChanRx])

theorem apply_queue_nosub (id : Nat) (w : World) (e : Ev) (hp : ∀ t, e ≠ .poll t) (h : NoMsgFor id w) :
    NoMsgFor id (w.apply e) := by
  rcases W7.apply_cases w e with ⟨t, rfl, _⟩ | ⟨tk, _, _, _, h4⟩ | hpas
  · exact absurd rfl (hp t)
  · rw [h4]; intro m hm; exact h m (by simpa using hm)
  · intro m hm
    rcases hpas.queue with e1 | e1
    · rw [e1] at hm; exact h m hm
    · rw [e1] at hm; cases hm

theorem apply_noFreshSub (w : World) (e : Ev) (hs : isSubEv e = false) (h : NoFreshSub w) : NoFreshSub (w.apply e) := by
  rcases apply_decomp w e with ⟨j, hd, req, rfl, ha⟩ | hmv
  · intro j' hd' t hm
    rw [ha.ops] at hm
    rcases List.mem_append.mp hm with hm | hm
    · exact h j' hd' t hm
    · simp only [List.mem_singleton, Prod.mk.injEq, OpSt.fresh.injEq] at hm
      obtain ⟨_, _, e3⟩ := hm
      subst e3
      simp [isSubEv] at hs
  · exact fun j hd t hm => h j hd t (W7.moves_fresh hmv hm)

/-- **the side conditions are carried through every script event** that addresses neither task `op id` nor stream `id`
    and issues no `subscribe()` -/
theorem SideV.apply {id : Nat} {w : World} (h : SideV id w) (e : Ev) (hm : mineEv id e = false)
    (hms : mineStEv id e = false) (hs : isSubEv e = false) : SideV id (w.apply e) := by
  by_cases hp : ∃ t, e = .poll t
  · obtain ⟨t, rfl⟩ := hp
    have ht : t ≠ .st id := by intro e'; subst e'; simp [mineStEv] at hms
    have ho : t ≠ .op id := mineEv_task.1 hm
    simp only [World.apply]
    split
    · exact h.pollTask t ht ho
    · exact h
  · have hp' : ∀ t, e ≠ .poll t := fun t e' => hp ⟨t, e'⟩
    refine ⟨⟨apply_opSt_none id w e hm h.frozen.noOp, ?_⟩, apply_queue_nosub id w e hp' h.noMsg,
      (apply_psids_sublist w e hp').nodup h.nodup, apply_noFreshSub w e hs h.noSub⟩
    rcases h.frozen.st with hst | hst
    · exact Or.inl (fun hmem => hst (apply_streams_sub id w e hms hmem))
    · refine Or.inr (apply_held_mem_task (.st id) w e ?_ hst)
      intro e'; subst e'; simp [mineStEv] at hms

end W11
end World
end Poster
