/-
  Lemmas/WorldStreamWho.lean — which handler call delivers what into which channel, which effects close a channel,
  which moves keep a registration, which moves leave a channel alone; and the reachability invariant
  "a channel that exists belongs to an issued operation whose future has been polled".
-/
import PosterModel.Lemmas.WorldStreamStep
import PosterModel.Properties.C07

set_option linter.unusedVariables false
set_option linter.unusedSimpArgs false

namespace Poster
open Framing

/-! ## who gets delivered what (context level) -/

/-- the deliveries of the dispatch loop into channel `id`, when subscription identifiers are registered once: one
    copy of `p` for each carried identifier that is registered to `id`, if `id`'s receiver is alive -/
theorem deliversTo_dispatch_nodup (alive : Nat → Bool) (p : PublishRx) (sids : List Nat) (subs : List (Nat × Nat))
    (id : Nat) (hn : (subs.map (·.1)).Nodup) :
    deliversTo id (Ctx.dispatch alive p sids subs).2 =
      (sids.filter fun sid => lookupFirst sid subs == some id && alive id).map fun _ => p := by
  rw [deliversTo_eq, dispatch_spec_nodup alive p sids subs hn]
  induction sids with
  | nil => rfl
  | cons sid rest ih =>
    rw [List.filterMap_cons, List.filter_cons]
    cases hl : lookupFirst sid subs with
    | none => simpa using ih
    | some ch =>
      by_cases hid : ch = id
      · subst hid
        cases ha : alive ch with
        | true => simp [ha, ih]
        | false => simpa [ha] using ih
      · have hne : (some ch == some id) = false := by simpa using hid
        cases ha : alive ch with
        | true =>
          simp only [Option.bind_some, ha, if_true, List.filterMap_cons, hid, if_false, hne, Bool.false_and]
          exact ih
        | false =>
          simp only [Option.bind_some, ha, hne, Bool.false_and]
          exact ih

/-- every delivery of the dispatch loop into `id` is `p` itself, and there is one only if `id`'s receiver is alive
    and `id` is registered under an identifier `p` carries -/
theorem deliversTo_dispatch_sound (alive : Nat → Bool) (p : PublishRx) (sids : List Nat) (subs : List (Nat × Nat))
    (id : Nat) :
    (∀ q ∈ deliversTo id (Ctx.dispatch alive p sids subs).2, q = p) ∧
    (deliversTo id (Ctx.dispatch alive p sids subs).2 ≠ [] → alive id = true ∧ ∃ sid ∈ sids, (sid, id) ∈ subs) := by
  have key : ∀ q ∈ deliversTo id (Ctx.dispatch alive p sids subs).2,
      q = p ∧ alive id = true ∧ ∃ sid ∈ sids, (sid, id) ∈ subs := by
    intro q hq
    rw [deliversTo_eq] at hq
    simp only [List.mem_filterMap] at hq
    obtain ⟨d, hd, hm⟩ := hq
    by_cases h : d.1 = id
    · simp only [h, if_true, Option.some.injEq] at hm
      have := dispatch_delivers_sound alive p sids subs d.1 d.2 hd
      rw [h, hm] at this
      exact this
    · simp [h] at hm
  refine ⟨fun q hq => (key q hq).1, fun hne => ?_⟩
  cases hl : deliversTo id (Ctx.dispatch alive p sids subs).2 with
  | nil => exact absurd hl hne
  | cons q t => exact (key q (by rw [hl]; simp)).2

/-- the PUBLISH arm delivers into `id` what the dispatch loop does, unless the packet is a QoS 2 re-delivery -/
theorem deliversTo_handlePkt_publish (c : Ctx) (alive : Nat → Bool) (pb : PublishRx) (wok : Bool) (id : Nat) :
    deliversTo id (c.handlePkt alive (.publish pb) wok).2.1 =
      if pb.qos = 2 ∧ pb.packetId.getD 0 ∈ c.inQos2 then []
      else deliversTo id (Ctx.dispatch alive pb pb.subIds c.subs).2 := by
  rw [deliversTo_eq, deliversTo_eq]
  split
  · rename_i h; rw [((handlePkt_publish_dispatch c alive pb wok).1 h).2]; rfl
  · rename_i h; rw [((handlePkt_publish_dispatch c alive pb wok).2 h).2]

/-- packets other than PUBLISH deliver nothing -/
theorem deliversTo_handlePkt_other (c : Ctx) (alive : Nat → Bool) (p : RxPacket) (wok : Bool) (id : Nat)
    (hp : ∀ pb, p ≠ .publish pb) : deliversTo id (c.handlePkt alive p wok).2.1 = [] := by
  rw [deliversTo_eq]
  have : deliversOf (c.handlePkt alive p wok).2.1 = [] := by
    cases p with
    | publish pb => exact absurd rfl (hp pb)
    | pubrel a => simp [Ctx.handlePkt, deliversOf]
    | _ => simp [Ctx.handlePkt]
  rw [this]; rfl

/-- what one inbound PUBLISH `pb`, handled in context state `c` with the receivers in `dead` gone, puts into
    channel `id` -/
def pubDelivers (id : Nat) (c : Ctx) (pb : PublishRx) (dead : List Nat) : List PublishRx :=
  if pb.qos = 2 ∧ pb.packetId.getD 0 ∈ c.inQos2 then []
  else (pb.subIds.filter fun sid => lookupFirst sid c.subs == some id && decide (id ∉ dead)).map fun _ => pb

theorem deliversTo_stepIn_msg (c : Ctx) (m : Msg) (wok : Bool) (id : Nat) :
    deliversTo id (c.stepIn (.msg m wok)).2.effs = [] := by
  rw [deliversTo_eq]
  show List.filterMap _ (deliversOf (c.handleMsg m wok).2.1) = []
  rw [World.deliversOf_handleMsg]; rfl

theorem deliversTo_stepIn_other (c : Ctx) (p : RxPacket) (dead : List Nat) (wok : Bool) (id : Nat)
    (hp : ∀ pb, p ≠ .publish pb) : deliversTo id (c.stepIn (.pkt p dead wok)).2.effs = [] :=
  deliversTo_handlePkt_other c _ p wok id hp

/-- **exact**: with subscription identifiers registered once, a handled PUBLISH puts `pubDelivers` into `id` -/
theorem deliversTo_stepIn_publish (c : Ctx) (pb : PublishRx) (dead : List Nat) (wok : Bool) (id : Nat)
    (hn : (c.subs.map (·.1)).Nodup) :
    deliversTo id (c.stepIn (.pkt (.publish pb) dead wok)).2.effs = pubDelivers id c pb dead := by
  show deliversTo id (c.handlePkt (fun ch => decide (ch ∉ dead)) (.publish pb) wok).2.1 = _
  rw [deliversTo_handlePkt_publish]
  unfold pubDelivers
  split
  · rfl
  · rw [deliversTo_dispatch_nodup _ _ _ _ _ hn]

/-- **sound, no hypothesis**: everything a handled PUBLISH puts into `id` is that PUBLISH, unchanged; and it puts
    something there only if it is not a QoS 2 re-delivery, `id`'s receiver is alive and `id` is registered under a
    subscription identifier the PUBLISH carries -/
theorem deliversTo_stepIn_publish_sound (c : Ctx) (pb : PublishRx) (dead : List Nat) (wok : Bool) (id : Nat) :
    (∀ q ∈ deliversTo id (c.stepIn (.pkt (.publish pb) dead wok)).2.effs, q = pb) ∧
    (deliversTo id (c.stepIn (.pkt (.publish pb) dead wok)).2.effs ≠ [] →
      ¬ (pb.qos = 2 ∧ pb.packetId.getD 0 ∈ c.inQos2) ∧ id ∉ dead ∧ ∃ sid ∈ pb.subIds, (sid, id) ∈ c.subs) := by
  have e : deliversTo id (c.stepIn (.pkt (.publish pb) dead wok)).2.effs =
      deliversTo id (c.handlePkt (fun ch => decide (ch ∉ dead)) (.publish pb) wok).2.1 := rfl
  rw [e, deliversTo_handlePkt_publish]
  split
  · exact ⟨by simp, by simp⟩
  · rename_i h
    obtain ⟨a, b⟩ := deliversTo_dispatch_sound (fun ch => decide (ch ∉ dead)) pb pb.subIds c.subs id
    refine ⟨a, fun hne => ?_⟩
    obtain ⟨x, y⟩ := b hne
    exact ⟨h, by simpa using x, y⟩

/-- the same without any hypothesis on the identifiers, when no registered receiver is gone -/
theorem deliversTo_stepIn_publish_allAlive (c : Ctx) (pb : PublishRx) (dead : List Nat) (wok : Bool) (id : Nat)
    (hd : ∀ e ∈ c.subs, e.2 ∉ dead) :
    deliversTo id (c.stepIn (.pkt (.publish pb) dead wok)).2.effs = pubDelivers id c pb dead := by
  show deliversTo id (c.handlePkt (fun ch => decide (ch ∉ dead)) (.publish pb) wok).2.1 = _
  rw [deliversTo_handlePkt_publish]
  unfold pubDelivers
  split
  · rfl
  · rw [deliversTo_eq, (dispatch_all_alive _ pb pb.subIds c.subs (fun e he => by simpa using hd e he)).2.1]
    generalize pb.subIds = sids
    induction sids with
    | nil => rfl
    | cons sid rest ih =>
      rw [List.filterMap_cons, List.filter_cons]
      cases hl : lookupFirst sid c.subs with
      | none => simpa using ih
      | some ch =>
        have hch : ch ∉ dead := hd (sid, ch) (User.lookupFirst_mem _ _ _ hl)
        by_cases hid : ch = id
        · subst hid
          simp [hch, ih]
        · have hne : (some ch == some id) = false := by simpa using hid
          simp only [Option.map_some, List.filterMap_cons, hid, if_false, hne, Bool.false_and]
          exact ih

/-- the messages a label delivers into `id`, in closed form: a handled PUBLISH delivers `pubDelivers`, nothing else
    delivers anything -/
def World.SLab.publishes (id : Nat) : World.SLab → List PublishRx
  | .ctx (.handler c (.pkt (.publish pb) dead _)) => pubDelivers id c pb dead
  | _ => []

/-- at this label every subscription identifier is registered once, or no registered receiver is gone -/
def World.SLab.subsOnce : World.SLab → Prop
  | .ctx (.handler c (.pkt _ dead _)) => (c.subs.map (·.1)).Nodup ∨ ∀ e ∈ c.subs, e.2 ∉ dead
  | _ => True

theorem World.deliversTo_resume (c : Ctx) (id : Nat) : deliversTo id c.resume.2.1 = [] := by
  rw [deliversTo_eq, World.deliversOf_resume]; rfl

theorem World.deliversTo_closeEffs (q : List Msg) (c : Ctx) (id : Nat) : deliversTo id (World.closeEffs q c) = [] := by
  rw [deliversTo_eq, World.deliversOf_closeEffs]; rfl

/-- **the ghost in closed form**: what a label delivers into `id` -/
theorem World.SLab.effs_publishes (id : Nat) (l : World.SLab) (h : l.subsOnce) :
    deliversTo id l.effs = l.publishes id := by
  cases l with
  | ctx src =>
    cases src with
    | handler c i =>
      cases i with
      | msg m wok => exact deliversTo_stepIn_msg c m wok id
      | pkt p dead wok =>
        by_cases hp : ∃ pb, p = .publish pb
        · obtain ⟨pb, rfl⟩ := hp
          rcases h with h | h
          · exact deliversTo_stepIn_publish c pb dead wok id h
          · exact deliversTo_stepIn_publish_allAlive c pb dead wok id h
        · have : World.SLab.publishes id (.ctx (.handler c (.pkt p dead wok))) = [] := by
            cases p with
            | publish pb => exact absurd ⟨pb, rfl⟩ hp
            | _ => rfl
          rw [this]
          exact deliversTo_stepIn_other c p dead wok id (fun pb e => hp ⟨pb, e⟩)
    | resume c => exact World.deliversTo_resume c id
    | dropCtx q c => exact World.deliversTo_closeEffs q c id
    | fresh => rfl
  | _ => rfl

/-- **the ghost in closed form, along a trace** -/
theorem World.delivered_eq_publishes (id : Nat) (tr : List World.SLab) (h : ∀ l ∈ tr, l.subsOnce) :
    World.delivered id tr = tr.flatMap (World.SLab.publishes id) := by
  induction tr with
  | nil => rfl
  | cons l t ih =>
    rw [World.delivered_cons, List.flatMap_cons, World.SLab.effs_publishes id l (h l (by simp)),
      ih (fun l' hl' => h l' (by simp [hl']))]

/-! ## which effects close a channel -/

namespace World

/-- the batches of context effects that drop the sender of channel `id` while its receiver can still be there:
    the context is dropped while it owns the sender (in a queued SUBSCRIBE or in its subscription table); an expired
    session is reset on reconnection while the channel is registered; the SUBSCRIBE itself is refused for its size -/
inductive EndCause (id : Nat) : CtxSrc → Prop
  | dropCtx (q : List Msg) (c : Ctx) :
      ((∃ aid sid pkt s, Msg.subscribe aid sid pkt s id ∈ q) ∨ ∃ sid, (sid, id) ∈ c.subs) →
      EndCause id (.dropCtx q c)
  | reset (c : Ctx) (el : Nat) : c.disc = some el → c.sessionExpired el = true → (∃ sid, (sid, id) ∈ c.subs) →
      EndCause id (.resume c)
  | refused (c : Ctx) (aid sid : Nat) (pkt : Bytes) (s : Nat) (wok : Bool) : c.sizeOk pkt = false →
      EndCause id (.handler c (.msg (.subscribe aid sid pkt s id) wok))

theorem dropChan_mem_handleMsg (c : Ctx) (m : Msg) (wok : Bool) (id : Nat)
    (h : Eff.dropChan id ∈ (c.handleMsg m wok).2.1) :
    ∃ aid sid pkt s, m = .subscribe aid sid pkt s id ∧ c.sizeOk pkt = false := by
  cases m with
  | ff pkt s =>
    simp only [Ctx.handleMsg] at h
    split at h
    · simp at h
    · split at h <;> simp at h
  | awaitAck aid pkt s =>
    simp only [Ctx.handleMsg] at h
    split at h
    · simp at h
    · split at h
      · split at h
        · simp at h
        · split at h <;> simp at h
      · split at h <;> split at h <;> simp at h
  | subscribe aid sid pkt s ch =>
    simp only [Ctx.handleMsg] at h
    split at h
    · rename_i hs
      simp at h
      subst h
      exact ⟨aid, sid, pkt, s, rfl, by simpa using hs⟩
    · simp at h

theorem dropChan_not_mem_complete (c : Ctx) (aid : Nat) (p : RxPacket) (id : Nat) :
    Eff.dropChan id ∉ (c.complete aid p).2 := by
  unfold Ctx.complete; split <;> simp

theorem dropChan_mem_handlePkt (c : Ctx) (alive : Nat → Bool) (p : RxPacket) (wok : Bool) (id : Nat)
    (h : Eff.dropChan id ∈ (c.handlePkt alive p wok).2.1) : (∃ pb, p = .publish pb) ∧ alive id = false := by
  cases p with
  | publish pb =>
    obtain ⟨effs0, h1, h2, _⟩ := Ctx.handlePkt_publish c alive pb wok
    rw [h2] at h
    rcases List.mem_append.mp h with h | h
    · rcases h1 _ h with ⟨c0, e, _⟩ | ⟨c0, e, ha⟩
      · cases e
      · cases e; exact ⟨⟨pb, rfl⟩, ha⟩
    · cases hp : pb.packetId <;> rw [hp] at h <;> simp at h
  | puback a => exact absurd h (dropChan_not_mem_complete _ _ _ _)
  | pubrec a => exact absurd h (dropChan_not_mem_complete _ _ _ _)
  | pubcomp a => exact absurd h (dropChan_not_mem_complete _ _ _ _)
  | suback a => exact absurd h (dropChan_not_mem_complete _ _ _ _)
  | unsuback a => exact absurd h (dropChan_not_mem_complete _ _ _ _)
  | pingresp => exact absurd h (dropChan_not_mem_complete _ _ _ _)
  | pubrel a => simp [Ctx.handlePkt] at h
  | connack k => simp [Ctx.handlePkt] at h
  | auth a => simp [Ctx.handlePkt] at h
  | disconnect d => simp [Ctx.handlePkt] at h

theorem dropChan_mem_resume (c : Ctx) (id : Nat) (h : Eff.dropChan id ∈ c.resume.2.1) :
    ∃ el, c.disc = some el ∧ c.sessionExpired el = true ∧ ∃ sid, (sid, id) ∈ c.subs := by
  unfold Ctx.resume at h
  cases hd : c.disc with
  | none => rw [hd] at h; simp at h
  | some el =>
    rw [hd] at h
    simp only at h
    by_cases hx : c.sessionExpired el = true
    · simp only [hx, ↓reduceIte, Ctx.resetSession, List.mem_append, List.mem_map] at h
      rcases h with ⟨x, _, e⟩ | ⟨x, hx', e⟩
      · cases e
      · simp only [Eff.dropChan.injEq] at e
        exact ⟨el, rfl, hx, x.1, by rw [← e]; exact hx'⟩
    · simp [hx] at h

theorem dropChan_mem_closeEffs (q : List Msg) (c : Ctx) (id : Nat) (h : Eff.dropChan id ∈ closeEffs q c) :
    (∃ aid sid pkt s, Msg.subscribe aid sid pkt s id ∈ q) ∨ ∃ sid, (sid, id) ∈ c.subs := by
  simp only [closeEffs, List.mem_append, List.mem_flatMap, List.mem_map] at h
  rcases h with (⟨m, hm, he⟩ | ⟨x, _, e⟩) | ⟨x, hx, e⟩
  · cases m with
    | ff pkt s => simp [closeMsgEffs] at he
    | awaitAck aid pkt s => simp [closeMsgEffs] at he
    | subscribe aid sid pkt s ch =>
      simp [closeMsgEffs] at he
      subst he
      exact Or.inl ⟨aid, sid, pkt, s, hm⟩
  · cases e
  · simp only [Eff.dropChan.injEq] at e
    exact Or.inr ⟨x.1, by rw [← e]; exact hx⟩

/-- a batch of context effects that contains `dropChan id` is one of the end causes, or it is the dispatch loop
    finding the receiver of `id` already gone -/
theorem dropChan_mem_cases (src : CtxSrc) (id : Nat) (h : Eff.dropChan id ∈ src.effs) :
    EndCause id src ∨ ∃ c pb dead wok, src = .handler c (.pkt (.publish pb) dead wok) ∧ id ∈ dead := by
  cases src with
  | handler c i =>
    cases i with
    | msg m wok =>
      obtain ⟨aid, sid, pkt, s, rfl, hs⟩ := dropChan_mem_handleMsg c m wok id h
      exact Or.inl (.refused c aid sid pkt s wok hs)
    | pkt p dead wok =>
      obtain ⟨⟨pb, rfl⟩, ha⟩ := dropChan_mem_handlePkt c (fun ch => decide (ch ∉ dead)) p wok id h
      exact Or.inr ⟨c, pb, dead, wok, rfl, by simpa using ha⟩
  | resume c =>
    obtain ⟨el, a, b, d⟩ := dropChan_mem_resume c id h
    exact Or.inl (.reset c el a b d)
  | dropCtx q c => exact Or.inl (.dropCtx q c (dropChan_mem_closeEffs q c id h))
  | fresh => simp [CtxSrc.effs] at h

/-- a channel in the list of dead receivers does not exist (the table is well formed) -/
theorem not_dead_of_chan (w : World) (wf : ChanWf w) (id : Nat) (h : w.chan id ≠ none) : id ∉ w.deadOf := by
  intro hm
  simp only [deadOf, List.mem_filter, Bool.not_eq_true', Bool.not_eq_false] at hm
  have := (wf.rxAlive_iff id).mpr h
  rw [this] at hm
  exact absurd hm.2 (by simp)

/-- **a `ctx` move that closes an existing channel is an end cause** -/
theorem SMove.endCause {w w' : World} {src : CtxSrc} (m : SMove (.ctx src) w w') (wf : ChanWf w) (id : Nat)
    (hch : w.chan id ≠ none) (h : Eff.dropChan id ∈ src.effs) : EndCause id src := by
  rcases dropChan_mem_cases src id h with hc | ⟨c, pb, dead, wok, rfl, hd⟩
  · exact hc
  · exfalso
    cases m with
    | ctx _ ok =>
      obtain ⟨_, hi⟩ := ok
      rcases hi with ⟨m0, q, _, e⟩ | ⟨p, _, _, e, _⟩
      · cases e
      · simp only [inPkt, CIn.pkt.injEq] at e
        rw [e.2.1] at hd
        exact not_dead_of_chan w wf id hch hd

/-! ## which moves keep a registration -/

theorem subs_handleMsg (c : Ctx) (m : Msg) (wok : Bool) (e : Nat × Nat) (h : e ∈ c.subs) :
    e ∈ (c.handleMsg m wok).1.subs := by
  cases m with
  | subscribe aid sid pkt s ch =>
    simp only [Ctx.handleMsg]
    split
    · exact h
    · simp [h]
  | ff pkt s =>
    rw [(subs_changed_only_by_subscribe_and_dead_receivers c).1 _ wok (by intros; nofun)]; exact h
  | awaitAck aid pkt s =>
    rw [(subs_changed_only_by_subscribe_and_dead_receivers c).1 _ wok (by intros; nofun)]; exact h

theorem subs_handlePkt (c : Ctx) (alive : Nat → Bool) (p : RxPacket) (wok : Bool) (e : Nat × Nat) (h : e ∈ c.subs)
    (ha : alive e.2 = true) : e ∈ (c.handlePkt alive p wok).1.subs := by
  by_cases hp : ∃ pb, p = .publish pb
  · obtain ⟨pb, rfl⟩ := hp
    have := ((subs_changed_only_by_subscribe_and_dead_receivers c).2.2 alive pb wok).2
    have hm : e ∈ c.subs.filter (fun e => alive e.2) := List.mem_filter.mpr ⟨h, ha⟩
    rw [← this] at hm
    exact (List.mem_filter.mp hm).1
  · rw [(subs_changed_only_by_subscribe_and_dead_receivers c).2.1 alive p wok (fun pb e => hp ⟨pb, e⟩)]; exact h

/-- **a registration whose channel exists is removed only when the context is dropped or re-created, or an expired
    session is reset** — not by any handler (whatever it handles: SUBACK, UNSUBSCRIBE, UNSUBACK, other PUBLISHes, …),
    not by any handle future or stream -/
theorem SMove.registration {l : SLab} {w w' : World} (m : SMove l w w') (wf : ChanWf w) (sid id : Nat)
    (hreg : (sid, id) ∈ w.c.subs) (hch : w.chan id ≠ none) :
    (sid, id) ∈ w'.c.subs ∨ (∃ q c, l = .ctx (.dropCtx q c)) ∨ l = .ctx .fresh ∨
      (∃ c el, l = .ctx (.resume c) ∧ c.disc = some el ∧ c.sessionExpired el = true) := by
  cases m with
  | tau chans subs => left; rw [subs]; exact hreg
  | ctx src ok chans c_eq =>
    cases src with
    | handler c i =>
      left
      obtain ⟨hc, hi⟩ := ok
      subst hc
      rw [c_eq]
      rcases hi with ⟨m0, q, _, rfl⟩ | ⟨p, _, _, rfl, _⟩
      · exact subs_handleMsg _ _ _ _ hreg
      · show (sid, id) ∈ (w.c.handlePkt (fun ch => decide (ch ∉ w.deadOf)) p _).1.subs
        exact subs_handlePkt _ _ _ _ _ hreg (by simpa using not_dead_of_chan w wf id hch)
    | resume c =>
      have hc : c = w.c := ok
      subst hc
      rw [c_eq]
      show _ ∈ (w.c.resume).1.subs ∨ _
      unfold Ctx.resume
      cases hd : w.c.disc with
      | none => left; exact hreg
      | some el =>
        simp only
        by_cases hx : w.c.sessionExpired el = true
        · right; right; right; exact ⟨w.c, el, rfl, hd, hx⟩
        · left; simp only [hx]; exact hreg
    | dropCtx q c => right; left; exact ⟨q, c, rfl⟩
    | fresh => right; right; left; rfl
  | addOp id' hd req absent ops chans c_eq => left; rw [c_eq]; exact hreg
  | alloc id' hd req fresh notFresh ops chans c_eq => left; rw [c_eq]; exact hreg
  | new id' hd req fresh notFresh ops chans c_eq => left; rw [c_eq]; exact hreg
  | dropRx id' chans c_eq => left; rw [c_eq]; exact hreg
  | pop c p c0 rest hch' hbuf chans c_eq => left; rw [c_eq]; exact hreg
  | park c c0 hch' hbuf htx chans c_eq => left; rw [c_eq]; exact hreg
  | endS id' c0 hch' hbuf htx chans c_eq => left; rw [c_eq]; exact hreg

/-! ## which moves leave a channel alone -/

/-- the label does not concern channel `id`: it is no effect batch of the context, and it creates, drops, pops,
    parks or ends another channel -/
def SLab.away (id : Nat) : SLab → Prop
  | .tau => True
  | .ctx _ => False
  | .addOp _ => True
  | .alloc _ => True
  | .new c => c ≠ id
  | .dropRx c => c ≠ id
  | .pop c _ => c ≠ id
  | .park c => c ≠ id
  | .endS c => c ≠ id

/-- a move whose label does not concern `id` leaves the channel `id` (buffer, sender, receiver) and what its stream
    has yielded exactly as they were -/
theorem SMove.away {l : SLab} {w w' : World} (m : SMove l w w') (id : Nat) (h : l.away id) :
    w'.chan id = w.chan id ∧ itemsOf id w'.out = itemsOf id w.out := by
  refine ⟨?_, ?_⟩
  · cases m with
    | tau chans => exact chan_of_chans chans id
    | ctx src => exact h.elim
    | addOp id' hd req absent ops chans => exact chan_of_chans chans id
    | alloc id' hd req fresh notFresh ops chans => exact chan_of_chans chans id
    | new id' hd req fresh notFresh ops chans =>
      rw [chan_setAssoc chans]
      have : id ≠ id' := fun e => h e.symm
      simp [this]
    | dropRx id' chans => exact chan_erase_ne chans id (fun e => h e.symm)
    | pop c p c0 rest hch hbuf chans =>
      rw [chan_setAssoc chans]
      have : id ≠ c := fun e => h e.symm
      simp [this]
    | park c c0 hch hbuf htx chans =>
      rw [chan_setAssoc chans]
      have : id ≠ c := fun e => h e.symm
      simp [this]
    | endS id' c0 hch hbuf htx chans => exact chan_erase_ne chans id (fun e => h e.symm)
  · rw [m.items id]
    cases m with
    | pop c p c0 rest hch hbuf chans =>
      have : c ≠ id := h
      simp [SLab.yield, this]
    | _ => simp [SLab.yield]

theorem STrace.away {tr : List SLab} {w w' : World} (t : STrace w tr w') (id : Nat) (h : ∀ l ∈ tr, l.away id) :
    w'.chan id = w.chan id ∧ itemsOf id w'.out = itemsOf id w.out := by
  induction t with
  | refl => exact ⟨rfl, rfl⟩
  | @cons a b c l tr' m _ ih =>
    obtain ⟨x, y⟩ := m.away id (h l (by simp))
    obtain ⟨x', y'⟩ := ih (fun l' hl' => h l' (by simp [hl']))
    exact ⟨x'.trans x, y'.trans y⟩

theorem Dec.away {A : SLab → Prop} {w w' : World} (d : Dec A w w') (id : Nat) (h : ∀ l, A l → l.away id) :
    w'.chan id = w.chan id ∧ itemsOf id w'.out = itemsOf id w.out := by
  obtain ⟨tr, t, a⟩ := d
  exact t.away id (fun l hl => h l (a l hl))

theorem away_of_opLab {id id' : Nat} (hne : id' ≠ id) {l : SLab} (h : OpLab id' l) : l.away id := by
  rcases h with rfl | rfl | rfl | rfl
  · trivial
  · exact hne
  · exact hne
  · trivial

theorem away_of_stLab {id id' : Nat} (hne : id' ≠ id) {l : SLab} (h : StLab id' l) : l.away id := by
  rcases h with rfl | ⟨p, rfl⟩ | rfl | rfl
  · trivial
  · exact hne
  · exact hne
  · exact hne

/-! ## reachability: an existing channel belongs to an issued operation whose future has been polled -/

/-- the invariant of the moves -/
structure SInv (U : Nat → Prop) (w : World) : Prop where
  wf : ChanWf w
  opsU : OpsU U w
  polled : ∀ id, w.chan id ≠ none → U id ∧ NotFresh id w

theorem sInv_init (U : Nat → Prop) (cfg : Cfg) : SInv U { cfg := cfg } :=
  ⟨chanWf_init cfg, fun n h => absurd rfl h, fun id h => absurd rfl h⟩

theorem SInv.mono {U V : Nat → Prop} {w : World} (h : SInv U w) (huv : ∀ x, U x → V x) : SInv V w :=
  ⟨h.wf, fun n hn => huv n (h.opsU n hn), fun id hid => ⟨huv id (h.polled id hid).1, (h.polled id hid).2⟩⟩

theorem SInv.move {U : Nat → Prop} {l : SLab} {w w' : World} (h : SInv U w) (m : SMove l w w')
    (hnew : ∀ n, l.issued = some n → ¬ U n) : SInv (fun x => U x ∨ l.issued = some x) w' := by
  refine ⟨h.wf.move m, h.opsU.move m, fun id hid => ?_⟩
  by_cases hl : l = .new id
  · subst hl
    cases m with
    | new _ hd req fresh notFresh => exact ⟨Or.inl (h.opsU id (by rw [fresh]; simp)), notFresh⟩
  · have hw : w.chan id ≠ none := fun e => hid (m.chan_none id e hl)
    obtain ⟨a, b⟩ := h.polled id hw
    exact ⟨Or.inl a, b.move m (fun e => hnew id e a)⟩

theorem SInv.trace {U : Nat → Prop} {tr : List SLab} {w w' : World} (h : SInv U w) (t : STrace w tr w')
    (hnd : (issuedOf tr).Nodup) (hnew : ∀ n ∈ issuedOf tr, ¬ U n) : SInv (fun x => U x ∨ x ∈ issuedOf tr) w' := by
  induction t generalizing U with
  | refl => exact h.mono fun x hx => Or.inl hx
  | @cons a b c l tr' m _ ih =>
    rw [issuedOf_cons] at hnd hnew
    have h1 := h.move m (fun n hn => hnew n (by rw [hn]; simp))
    have h2 := ih h1 (List.nodup_append.mp hnd).2.1 (by
      intro n hn hx
      rcases hx with hx | hx
      · exact hnew n (List.mem_append_right _ hn) hx
      · exact (List.nodup_append.mp hnd).2.2 n (by rw [hx]; simp) n hn rfl)
    refine h2.mono fun x hx => ?_
    rw [issuedOf_cons]
    rcases hx with (hx | hx) | hx
    · exact Or.inl hx
    · exact Or.inr (by rw [hx]; simp)
    · exact Or.inr (List.mem_append_right _ hx)

end World
end Poster
