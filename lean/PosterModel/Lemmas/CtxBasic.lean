/-
  Lemmas/CtxBasic.lean — helper lemmas about the context bookkeeping model (`Ctx.lean`, `CtxRun.lean`) shared by
  the property files C08, C09, C10, C12, C17:

    * the effect projections `writesOf` / `deliversOf` / `sendsOf` (cons, append);
    * `removeFirst` / `eraseFirst` (sublist, keys, first occurrence);
    * what `dispatch` and `complete` can and cannot do (no writes, only `subs` / `awaiting` change);
    * the shape of `Ctx.serve`: `serve_cons`, every observation is one `stepIn` (`serve_obs`), and a history
      split at any observation is a served prefix followed by one `stepIn` (`serve_split`);
    * a generic induction principle for "the state is the fold of the history" statements (`serve_fold`).
-/
import PosterModel.CtxRun

set_option linter.unusedVariables false
set_option linter.unusedSimpArgs false

namespace Poster

/-! ## effect projections -/

@[simp] theorem writesOf_nil : writesOf [] = [] := rfl
@[simp] theorem deliversOf_nil : deliversOf [] = [] := rfl
@[simp] theorem sendsOf_nil : sendsOf [] = [] := rfl

@[simp] theorem writesOf_cons_write (b : Bytes) (t : List Eff) : writesOf (.write b :: t) = b :: writesOf t := rfl
@[simp] theorem writesOf_cons_send (s : Nat) (v : SlotVal) (t : List Eff) : writesOf (.send s v :: t) = writesOf t := rfl
@[simp] theorem writesOf_cons_dropSlot (s : Nat) (t : List Eff) : writesOf (.dropSlot s :: t) = writesOf t := rfl
@[simp] theorem writesOf_cons_deliver (c : Nat) (p : PublishRx) (t : List Eff) :
    writesOf (.deliver c p :: t) = writesOf t := rfl
@[simp] theorem writesOf_cons_dropChan (c : Nat) (t : List Eff) : writesOf (.dropChan c :: t) = writesOf t := rfl

@[simp] theorem deliversOf_cons_write (b : Bytes) (t : List Eff) : deliversOf (.write b :: t) = deliversOf t := rfl
@[simp] theorem deliversOf_cons_send (s : Nat) (v : SlotVal) (t : List Eff) :
    deliversOf (.send s v :: t) = deliversOf t := rfl
@[simp] theorem deliversOf_cons_dropSlot (s : Nat) (t : List Eff) : deliversOf (.dropSlot s :: t) = deliversOf t := rfl
@[simp] theorem deliversOf_cons_deliver (c : Nat) (p : PublishRx) (t : List Eff) :
    deliversOf (.deliver c p :: t) = (c, p) :: deliversOf t := rfl
@[simp] theorem deliversOf_cons_dropChan (c : Nat) (t : List Eff) : deliversOf (.dropChan c :: t) = deliversOf t := rfl

@[simp] theorem sendsOf_cons_write (b : Bytes) (t : List Eff) : sendsOf (.write b :: t) = sendsOf t := rfl
@[simp] theorem sendsOf_cons_send (s : Nat) (v : SlotVal) (t : List Eff) :
    sendsOf (.send s v :: t) = (s, v) :: sendsOf t := rfl
@[simp] theorem sendsOf_cons_dropSlot (s : Nat) (t : List Eff) : sendsOf (.dropSlot s :: t) = sendsOf t := rfl
@[simp] theorem sendsOf_cons_deliver (c : Nat) (p : PublishRx) (t : List Eff) :
    sendsOf (.deliver c p :: t) = sendsOf t := rfl
@[simp] theorem sendsOf_cons_dropChan (c : Nat) (t : List Eff) : sendsOf (.dropChan c :: t) = sendsOf t := rfl

@[simp] theorem writesOf_append (a b : List Eff) : writesOf (a ++ b) = writesOf a ++ writesOf b := by
  simp [writesOf, List.filterMap_append]
@[simp] theorem deliversOf_append (a b : List Eff) : deliversOf (a ++ b) = deliversOf a ++ deliversOf b := by
  simp [deliversOf, List.filterMap_append]
@[simp] theorem sendsOf_append (a b : List Eff) : sendsOf (a ++ b) = sendsOf a ++ sendsOf b := by
  simp [sendsOf, List.filterMap_append]

/-! ## `removeFirst` / `eraseFirst` -/

@[simp] theorem eraseFirst_nil {β} (k : Nat) : eraseFirst k ([] : List (Nat × β)) = [] := rfl

theorem eraseFirst_cons {β} (k a : Nat) (b : β) (t : List (Nat × β)) :
    eraseFirst k ((a, b) :: t) = if a = k then t else (a, b) :: eraseFirst k t := by
  by_cases hak : a = k
  · simp [eraseFirst, removeFirst, hak]
  · cases h : removeFirst k t with
    | none => simp [eraseFirst, removeFirst, hak, h]
    | some r => obtain ⟨o, t'⟩ := r; simp [eraseFirst, removeFirst, hak, h]

theorem eraseFirst_sublist {β} (k : Nat) (l : List (Nat × β)) : (eraseFirst k l).Sublist l := by
  induction l with
  | nil => simp
  | cons x t ih =>
    obtain ⟨a, b⟩ := x
    rw [eraseFirst_cons]
    split
    · exact List.sublist_cons_self _ _
    · exact ih.cons_cons _

theorem removeFirst_sublist {β} (k : Nat) (l : List (Nat × β)) (o : β) (l' : List (Nat × β))
    (h : removeFirst k l = some (o, l')) : l'.Sublist l := by
  have := eraseFirst_sublist k l
  simpa [eraseFirst, h] using this

/-- with pairwise distinct keys, erasing the first entry keyed `k` leaves no entry keyed `k` -/
theorem eraseFirst_no_key {β} (k : Nat) (l : List (Nat × β)) (hnd : (l.map (·.1)).Nodup) :
    ∀ e ∈ eraseFirst k l, e.1 ≠ k := by
  induction l with
  | nil => simp
  | cons x t ih =>
    obtain ⟨a, b⟩ := x
    simp only [List.map_cons, List.nodup_cons] at hnd
    rw [eraseFirst_cons]
    split
    · rename_i hak
      subst hak
      intro e he hek
      exact hnd.1 (by simpa using ⟨e.2, by rw [← hek]; exact he⟩)
    · rename_i hak
      intro e he
      simp only [List.mem_cons] at he
      rcases he with rfl | he
      · exact hak
      · exact ih hnd.2 e he

theorem eraseFirst_keys_nodup {β} (k : Nat) (l : List (Nat × β)) (hnd : (l.map (·.1)).Nodup) :
    ((eraseFirst k l).map (·.1)).Nodup :=
  ((eraseFirst_sublist k l).map _).nodup hnd

/-- an entry with another key survives `eraseFirst` -/
theorem mem_eraseFirst_of_ne {β} (k : Nat) (l : List (Nat × β)) (e : Nat × β) (he : e ∈ l) (hk : e.1 ≠ k) :
    e ∈ eraseFirst k l := by
  induction l with
  | nil => simp at he
  | cons x t ih =>
    obtain ⟨a, b⟩ := x
    rw [eraseFirst_cons]
    simp only [List.mem_cons] at he
    split
    · rename_i hak
      rcases he with rfl | he
      · exact absurd hak hk
      · exact he
    · rcases he with rfl | he
      · simp
      · exact List.mem_cons_of_mem _ (ih he)

/-! ## `dispatch` and `complete` -/

@[simp] theorem dispatch_writes (alive : Nat → Bool) (p : PublishRx) (ids : List Nat) (subs : List (Nat × Nat)) :
    writesOf (Ctx.dispatch alive p ids subs).2 = [] := by
  induction ids generalizing subs with
  | nil => simp [Ctx.dispatch]
  | cons sid rest ih =>
    simp only [Ctx.dispatch]
    split
    · exact ih _
    · split <;> simp [ih]

@[simp] theorem dispatch_sends (alive : Nat → Bool) (p : PublishRx) (ids : List Nat) (subs : List (Nat × Nat)) :
    sendsOf (Ctx.dispatch alive p ids subs).2 = [] := by
  induction ids generalizing subs with
  | nil => simp [Ctx.dispatch]
  | cons sid rest ih =>
    simp only [Ctx.dispatch]
    split
    · exact ih _
    · split <;> simp [ih]

namespace Ctx

theorem complete_cases (c : Ctx) (aid : Nat) (p : RxPacket) :
    (c.complete aid p = (c, [])) ∨
    (∃ slot rest, removeFirst aid c.awaiting = some (slot, rest) ∧
      c.complete aid p = ({ c with awaiting := rest }, [.send slot (.pkt p)])) := by
  unfold complete
  cases h : removeFirst aid c.awaiting with
  | none => left; rfl
  | some r => obtain ⟨s, rest⟩ := r; right; exact ⟨s, rest, rfl, rfl⟩

@[simp] theorem complete_writes (c : Ctx) (aid : Nat) (p : RxPacket) : writesOf (c.complete aid p).2 = [] := by
  rcases complete_cases c aid p with h | ⟨s, r, _, h⟩ <;> simp [h]
@[simp] theorem complete_delivers (c : Ctx) (aid : Nat) (p : RxPacket) : deliversOf (c.complete aid p).2 = [] := by
  rcases complete_cases c aid p with h | ⟨s, r, _, h⟩ <;> simp [h]
@[simp] theorem complete_quota (c : Ctx) (aid : Nat) (p : RxPacket) : (c.complete aid p).1.quota = c.quota := by
  rcases complete_cases c aid p with h | ⟨s, r, _, h⟩ <;> simp [h]
@[simp] theorem complete_recvMax (c : Ctx) (aid : Nat) (p : RxPacket) : (c.complete aid p).1.recvMax = c.recvMax := by
  rcases complete_cases c aid p with h | ⟨s, r, _, h⟩ <;> simp [h]
@[simp] theorem complete_retx (c : Ctx) (aid : Nat) (p : RxPacket) : (c.complete aid p).1.retx = c.retx := by
  rcases complete_cases c aid p with h | ⟨s, r, _, h⟩ <;> simp [h]
@[simp] theorem complete_inQos2 (c : Ctx) (aid : Nat) (p : RxPacket) : (c.complete aid p).1.inQos2 = c.inQos2 := by
  rcases complete_cases c aid p with h | ⟨s, r, _, h⟩ <;> simp [h]
@[simp] theorem complete_subs (c : Ctx) (aid : Nat) (p : RxPacket) : (c.complete aid p).1.subs = c.subs := by
  rcases complete_cases c aid p with h | ⟨s, r, _, h⟩ <;> simp [h]
@[simp] theorem complete_maxPkt (c : Ctx) (aid : Nat) (p : RxPacket) : (c.complete aid p).1.maxPkt = c.maxPkt := by
  rcases complete_cases c aid p with h | ⟨s, r, _, h⟩ <;> simp [h]

@[simp] theorem bump_retx (c : Ctx) : c.bump.retx = c.retx := by unfold bump; split <;> rfl
@[simp] theorem bump_recvMax (c : Ctx) : c.bump.recvMax = c.recvMax := by unfold bump; split <;> rfl
@[simp] theorem bump_inQos2 (c : Ctx) : c.bump.inQos2 = c.inQos2 := by unfold bump; split <;> rfl
@[simp] theorem bump_subs (c : Ctx) : c.bump.subs = c.subs := by unfold bump; split <;> rfl
@[simp] theorem bump_awaiting (c : Ctx) : c.bump.awaiting = c.awaiting := by unfold bump; split <;> rfl
@[simp] theorem bump_maxPkt (c : Ctx) : c.bump.maxPkt = c.maxPkt := by unfold bump; split <;> rfl

theorem bump_quota_le (c : Ctx) (h : c.quota ≤ c.recvMax) : c.bump.quota ≤ c.bump.recvMax := by
  unfold bump; split
  · rename_i hne; simp only; omega
  · exact h

/-! ## the serving loop -/

theorem serve_nil (c : Ctx) : c.serve [] = (c, []) := rfl

theorem serve_cons (c : Ctx) (i : CIn) (is : List CIn) :
    c.serve (i :: is) =
      if (c.stepIn i).2.flow = .cont then (((c.stepIn i).1.serve is).1, (c.stepIn i).2 :: ((c.stepIn i).1.serve is).2)
      else ((c.stepIn i).1, [(c.stepIn i).2]) := rfl

/-- every handled input of a served history is one `stepIn` of one of the inputs, from some state -/
theorem serve_obs (c : Ctx) (is : List CIn) : ∀ o ∈ (c.serve is).2, ∃ c' i, i ∈ is ∧ o = (Ctx.stepIn c' i).2 := by
  induction is generalizing c with
  | nil => simp [serve_nil]
  | cons i is ih =>
    intro o ho
    rw [serve_cons] at ho
    split at ho
    · simp only [List.mem_cons] at ho
      rcases ho with rfl | ho
      · exact ⟨c, i, by simp, rfl⟩
      · obtain ⟨c', j, hj, rfl⟩ := ih _ o ho
        exact ⟨c', j, by simp [hj], rfl⟩
    · simp only [List.mem_singleton] at ho
      exact ⟨c, i, by simp, ho⟩

/-- a history cut in front of any of its observations: the part before is itself a served history (of a prefix of the
    inputs), and the observation is the next input handled in the state that prefix leads to -/
theorem serve_split (c : Ctx) (is : List CIn) (pre post : List CObs) (o : CObs)
    (h : (c.serve is).2 = pre ++ o :: post) :
    ∃ is1 i is2, is = is1 ++ i :: is2 ∧ (c.serve is1).2 = pre ∧ o = ((c.serve is1).1.stepIn i).2 := by
  induction pre generalizing c is with
  | nil =>
    cases is with
    | nil => simp [serve_nil] at h
    | cons i is =>
      rw [serve_cons] at h
      refine ⟨[], i, is, rfl, rfl, ?_⟩
      split at h <;> simp at h <;> simp [serve_nil, h.1]
  | cons o' pre ih =>
    cases is with
    | nil => simp [serve_nil] at h
    | cons i is =>
      rw [serve_cons] at h
      split at h
      · rename_i hc
        simp only [List.cons_append, List.cons.injEq] at h
        obtain ⟨is1, j, is2, rfl, h1, h2⟩ := ih _ _ h.2
        refine ⟨i :: is1, j, is2, rfl, ?_, ?_⟩
        · rw [serve_cons]; rw [if_pos hc]; simp [h1, h.1]
        · rw [serve_cons]; rw [if_pos hc]; simp [h2]
      · simp at h

/-- "the component `f` of the state is the fold of `g` over the history": enough to check it for one step -/
theorem serve_fold {α} (f : Ctx → α) (g : α → CObs → α)
    (hstep : ∀ (c : Ctx) (i : CIn), f (c.stepIn i).1 = g (f c) (c.stepIn i).2) (c : Ctx) (is : List CIn) :
    f (c.serve is).1 = (c.serve is).2.foldl g (f c) := by
  induction is generalizing c with
  | nil => rfl
  | cons i is ih =>
    rw [serve_cons]
    split
    · simp only [List.foldl_cons]; rw [ih, hstep]
    · simp [hstep]

/-- an invariant of every step is an invariant of serving -/
theorem serve_inv (P : Ctx → Prop) (hstep : ∀ (c : Ctx) (i : CIn), P c → P (c.stepIn i).1) (c : Ctx) (is : List CIn)
    (h : P c) : P (c.serve is).1 := by
  induction is generalizing c with
  | nil => exact h
  | cons i is ih =>
    rw [serve_cons]
    split
    · exact ih _ (hstep c i h)
    · exact hstep c i h

end Ctx
end Poster
