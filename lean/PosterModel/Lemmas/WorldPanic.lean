/-
  Lemmas/WorldPanic.lean — where `Obs.panic` observations can come from: what one poll of each kind of task
  appends to the observation log.
-/
import PosterModel.Lemmas.WorldRun
import PosterModel.Properties.C03
import PosterModel.Properties.C04Decode

set_option linter.unusedVariables false
set_option linter.unusedSimpArgs false

namespace Poster
open Framing
namespace World

/-- the kind of packet a suspended handle future accepts from its oneshot -/
def Wait.accepts : Wait → RxPacket → Bool
  | .puback, .puback _ => true
  | .pubrec, .pubrec _ => true
  | .pubcomp, .pubcomp _ => true
  | .suback, .suback _ => true
  | .unsuback, .unsuback _ => true
  | .pingresp, .pingresp => true
  | _, _ => false

/-- `w'` has the observations of `w` followed by observations satisfying `P` -/
def OutExtP (P : Obs → Prop) (w w' : World) : Prop := ∃ added, w'.out = w.out ++ added ∧ ∀ o ∈ added, P o

theorem outExtP_refl (P : Obs → Prop) (w : World) : OutExtP P w w := ⟨[], by simp, by simp⟩
theorem outExtP_of_eq {P : Obs → Prop} {w w' : World} (h : w'.out = w.out) : OutExtP P w w' :=
  ⟨[], by simp [h], by simp⟩
theorem outExtP_one {P : Obs → Prop} {w w' : World} (o : Obs) (h : w'.out = w.out ++ [o]) (ho : P o) :
    OutExtP P w w' := ⟨[o], h, by simpa using ho⟩
theorem outExtP_trans {P : Obs → Prop} {a b c : World} (h1 : OutExtP P a b) (h2 : OutExtP P b c) :
    OutExtP P a c := by
  obtain ⟨p1, e1, q1⟩ := h1
  obtain ⟨p2, e2, q2⟩ := h2
  refine ⟨p1 ++ p2, by rw [e2, e1, List.append_assoc], ?_⟩
  intro o ho
  rcases List.mem_append.mp ho with ho | ho
  · exact q1 o ho
  · exact q2 o ho
theorem outExtP_mono {P Q : Obs → Prop} {a b : World} (h : OutExtP P a b) (hpq : ∀ o, P o → Q o) :
    OutExtP Q a b := by
  obtain ⟨p, e, q⟩ := h
  exact ⟨p, e, fun o ho => hpq o (q o ho)⟩
theorem outExtP_of_outExt {P : Obs → Prop} {a b : World} (h : OutExt a b)
    (hp : ∀ bs, P (.wire bs) ∧ P (.wraw bs)) : OutExtP P a b := by
  obtain ⟨p, q, e⟩ := h
  refine ⟨p, e, fun o ho => ?_⟩
  obtain ⟨bs, rfl | rfl⟩ := q o ho
  · exact (hp bs).1
  · exact (hp bs).2

/-- not a panic -/
def Obs.calm (o : Obs) : Prop := ∀ t cls, o ≠ .panic t cls

theorem sendMsg_out {w w' : World} {m : Msg} (h : w.sendMsg m = some w') :
    w'.out = w.out ∧ w'.ops = w.ops ∧ w'.slots = w.slots := by
  rw [sendMsg_eq] at h
  split at h
  · simp only [Option.some.injEq] at h; subst h; exact ⟨rfl, rfl, rfl⟩
  · cases h

/-- the tail of every handle method: send the message, then wait — or fail with `ContextExited` -/
theorem sendAwait_calm (w w0 : World) (m : Msg) (id s : Nat) (k : Wait) (h0 : w0.out = w.out) :
    OutExtP Obs.calm w (match w0.sendMsg m with
      | none => w0.finishOp id (.err .contextExited)
      | some w1 => w1.awaitSlot id s k) := by
  cases hm : w0.sendMsg m with
  | none => exact outExtP_one (.done id (.err .contextExited)) (by simp [h0]) (by intro t c h; cases h)
  | some w1 => exact outExtP_of_eq (by simp [(sendMsg_out hm).1, h0])

theorem startOp_calm (w : World) (id : Nat) (req : Req) : OutExtP Obs.calm w (w.startOp id req) := by
  have hd : ∀ (w0 : World) (r : DoneRes), w0.out = w.out → OutExtP Obs.calm w (w0.finishOp id r) :=
    fun w0 r h0 => outExtP_one (.done id r) (by simp [h0]) (by intro t c h; cases h)
  cases req with
  | publish t =>
    simp only [startOp]
    split
    · split
      · exact hd _ _ rfl
      · exact sendAwait_calm w _ _ _ _ _ rfl
    · split
      · exact hd _ _ rfl
      · exact sendAwait_calm w _ _ _ _ _ rfl
  | subscribe t =>
    simp only [startOp]
    split
    · exact hd _ _ rfl
    · cases hm : World.sendMsg _ _ with
      | none => exact hd _ _ rfl
      | some w1 => exact outExtP_of_eq (by simp [(sendMsg_out hm).1])
  | unsubscribe t =>
    simp only [startOp]
    split
    · exact hd _ _ rfl
    · exact sendAwait_calm w _ _ _ _ _ rfl
  | ping => simp only [startOp]; exact sendAwait_calm w _ _ _ _ _ rfl
  | disconnect t => simp only [startOp]; exact sendAwait_calm w _ _ _ _ _ rfl

theorem pollStream_calm (w : World) (id : Nat) : OutExtP Obs.calm w (w.pollStream id) := by
  unfold pollStream
  split
  · exact outExtP_refl _ _
  · split
    · exact outExtP_refl _ _
    · split
      · rename_i p rest _
        exact outExtP_one (.item id p) (by simp) (by intro t c h; cases h)
      · split
        · exact outExtP_of_eq rfl
        · exact outExtP_one (.endStream id) (by simp [dropChanRx]) (by intro t c h; cases h)

/-- a oneshot holding a packet of the wrong kind: the `unreachable!()` of the handle future -/
theorem resumeOp_panic (w : World) (id s : Nat) (k : Wait) (p : RxPacket) (h : Wait.accepts k p = false) :
    (w.resumeOp id s k (.pkt p)).out = w.out ++ [.panic (.op id) "unreachable"] ∧
    (w.resumeOp id s k (.pkt p)).ops = eraseFirst id w.ops := by
  cases k <;> cases p <;> simp [Wait.accepts] at h <;> simp [resumeOp, clearSlot]

theorem resumeOp_calm (w : World) (id s : Nat) (k : Wait) (v : SlotVal)
    (h : ∀ p, v = .pkt p → Wait.accepts k p = true) : OutExtP Obs.calm w (w.resumeOp id s k v) := by
  have hd : ∀ (w0 : World) (r : DoneRes), w0.out = w.out → OutExtP Obs.calm w (w0.finishOp id r) :=
    fun w0 r h0 => outExtP_one (.done id r) (by simp [h0]) (by intro t c h; cases h)
  cases v with
  | errSize => exact hd _ _ rfl
  | errQuota => exact hd _ _ rfl
  | unit => simp only [resumeOp]; split <;> exact hd _ _ rfl
  | pkt p =>
    have hp := h p rfl
    cases k <;> cases p <;> simp [Wait.accepts] at hp <;> simp only [resumeOp]
    · split <;> exact hd _ _ rfl
    · split
      · exact hd _ _ rfl
      · exact sendAwait_calm w _ _ _ _ _ rfl
    · split <;> exact hd _ _ rfl
    · exact hd _ _ rfl
    · exact hd _ _ rfl
    · exact hd _ _ rfl

/-- **one poll of a handle future**: only `DONE` lines, except the `unreachable!()` panic, which happens exactly
    when the oneshot holds a packet whose kind does not match what the operation waits for -/
theorem pollOp_panics (w : World) (id : Nat) :
    (∃ s k p, w.opSt id = some (.wait s k) ∧ w.slot s = some (.full (.pkt p)) ∧ Wait.accepts k p = false ∧
      (w.pollOp id).out = w.out ++ [.panic (.op id) "unreachable"]) ∨
    ((¬ ∃ s k p, w.opSt id = some (.wait s k) ∧ w.slot s = some (.full (.pkt p)) ∧ Wait.accepts k p = false) ∧
      OutExtP Obs.calm w (w.pollOp id)) := by
  unfold pollOp
  cases hop : w.opSt id with
  | none => exact Or.inr ⟨by simp, outExtP_refl _ _⟩
  | some st =>
    cases st with
    | fresh hd req => exact Or.inr ⟨by simp, startOp_calm w id req⟩
    | wait s k =>
      simp only
      cases hs : w.slot s with
      | none => exact Or.inr ⟨by simp [hs], outExtP_of_eq rfl⟩
      | some sl =>
        cases sl with
        | empty => exact Or.inr ⟨by simp [hs], outExtP_of_eq rfl⟩
        | closed =>
          exact Or.inr ⟨by simp [hs], outExtP_one (.done id (.err .contextExited)) (by simp)
            (by intro t c h; cases h)⟩
        | full v =>
          simp only
          by_cases hm : ∃ p, v = .pkt p ∧ Wait.accepts k p = false
          · obtain ⟨p, rfl, hp⟩ := hm
            exact Or.inl ⟨s, k, p, rfl, hs, hp, (resumeOp_panic w id s k p hp).1⟩
          · refine Or.inr ⟨?_, resumeOp_calm w id s k v ?_⟩
            · rintro ⟨s', k', p, h1, h2, h3⟩
              simp only [Option.some.injEq, OpSt.wait.injEq] at h1
              obtain ⟨rfl, rfl⟩ := h1
              rw [hs] at h2
              simp only [Option.some.injEq, Slot.full.injEq] at h2
              exact hm ⟨p, h2, h3⟩
            · intro p hv
              cases ha : Wait.accepts k p with
              | true => rfl
              | false => exact absurd ⟨p, hv, ha⟩ hm

/-- what a poll of the context future may append: no panic, or the documented assertion, or a decoder panic
    on a frame the framing layer emitted from a state reachable from the current one -/
def CtxObs (w : World) (o : Obs) : Prop :=
  Obs.calm o ∨
  (o = .panic .ctx "assert-subid" ∧ ∃ call t a st rx' rd' fr k, w.task = .connecting call t a st ∧
    pollNext w.rx w.reader = (rx', rd', .item fr) ∧ decodeRx fr = .ok (.connack k) ∧ k.reason < 128 ∧
    k.subIdAvail = false) ∨
  (o = .panic .ctx "other" ∧ ∃ rx rd rx' rd' fr, (Reach w.rx → Reach rx) ∧
    pollNext rx rd = (rx', rd', .item fr) ∧ decodeRx fr = .panic)

theorem calm_wire (bs : Bytes) : Obs.calm (.wire bs) ∧ Obs.calm (.wraw bs) :=
  ⟨(by intro t c h; cases h), (by intro t c h; cases h)⟩

theorem awaitFirst_ctxObs (w w0 : World) (call : Call) (t : ConnectTx) (a : AuthTx) (st : Bool)
    (ht : w.task = .connecting call t a st) (hrx : w0.rx = w.rx) (hrd : w0.reader = w.reader) :
    OutExtP (CtxObs w) w0 (w0.awaitFirst call t a) := by
  rcases firstEnd_out (awaitFirst_spec w0 call t a) with ⟨_, _, _, last, ho, hl⟩ | ⟨_, ho, _⟩
  · refine outExtP_one last ho ?_
    rcases hl with ⟨res, rfl⟩ | ⟨rfl, rx', rd', fr, k, hp, hd, hk, hs⟩ | ⟨rfl, rx', rd', fr, hp, hd⟩
    · exact Or.inl (by intro t c h; cases h)
    · exact Or.inr (Or.inl ⟨rfl, call, t, a, st, rx', rd', fr, k, ht, by rw [← hrx, ← hrd]; exact hp, hd, hk, hs⟩)
    · exact Or.inr (Or.inr ⟨rfl, w0.rx, w0.reader, rx', rd', fr, fun h => by rw [hrx]; exact h, hp, hd⟩)
  · exact outExtP_of_eq ho

theorem runLoop_ctxObs (w w0 : World) (f : Nat) (hrx : w0.rx = w.rx) : OutExtP (CtxObs w) w0 (runLoop f w0) := by
  obtain ⟨wm, hs, he⟩ := runLoop_decomp f w0
  obtain ⟨_, _, _, _, _, _, _, _, _, hext, _, hreach⟩ := serve_frame hs
  have h1 : OutExtP (CtxObs w) w0 wm := outExtP_of_outExt hext (fun bs => ⟨Or.inl (calm_wire bs).1, Or.inl (calm_wire bs).2⟩)
  rcases he with he | he
  · rw [he]; exact h1
  · refine outExtP_trans h1 ?_
    rcases runEnd_out he with ⟨_, _, _, _, pre, last, hq, ho, hl⟩ | ⟨_, ho, _⟩
    · refine ⟨pre ++ [last], by rw [ho, List.append_assoc], ?_⟩
      intro o hmem
      rcases List.mem_append.mp hmem with hmem | hmem
      · obtain ⟨bs, rfl | rfl⟩ := hq o hmem
        · exact Or.inl (calm_wire bs).1
        · exact Or.inl (calm_wire bs).2
      · simp only [List.mem_singleton] at hmem
        subst hmem
        rcases hl with ⟨res, rfl, _⟩ | ⟨rfl, rx', rd', fr, hp, hd⟩
        · exact Or.inl (by intro t c h; cases h)
        · exact Or.inr (Or.inr ⟨rfl, wm.rx, wm.reader, rx', rd', fr, fun h => hreach (hrx ▸ h), hp, hd⟩)
    · exact outExtP_of_eq ho

/-- **one poll of the context future** -/
theorem pollCtx_panics (w : World) : OutExtP (CtxObs w) w w.pollCtx := by
  have hcalm : ∀ {a b : World}, OutExt a b → OutExtP (CtxObs w) a b := fun h =>
    outExtP_of_outExt h (fun bs => ⟨Or.inl (calm_wire bs).1, Or.inl (calm_wire bs).2⟩)
  have hret : ∀ (w0 : World) (call : Call) (r : RetRes), OutExtP (CtxObs w) w0 (w0.finish call r) :=
    fun w0 call r => outExtP_one (.ret call r) rfl (Or.inl (by intro t c h; cases h))
  unfold pollCtx
  cases ht : w.task with
  | none => exact outExtP_refl _ _
  | connecting call t a started =>
    simp only
    cases started with
    | true =>
      simp only [pollConnect, ↓reduceIte]
      exact awaitFirst_ctxObs w w call t a true ht rfl rfl
    | false =>
      rcases pollConnect_prelude w call t a with ⟨_, h2⟩ | ⟨_, w0, a1, a2, _, _, _, _, hext, h2 | h2⟩
      · rw [h2]; exact hret _ _ _
      · rw [h2]; exact outExtP_trans (hcalm hext) (awaitFirst_ctxObs w w0 call t a false ht a1 a2)
      · rw [h2]; exact outExtP_trans (hcalm hext) (hret _ _ _)
  | running started =>
    simp only
    cases started with
    | true =>
      simp only [pollRun, ↓reduceIte]
      exact runLoop_ctxObs w w _ rfl
    | false =>
      obtain ⟨w0, a1, _, _, _, _, _, hext, h2 | h2⟩ := pollRun_prelude w
      · rw [h2]; exact outExtP_trans (hcalm hext) (runLoop_ctxObs w w0 _ a1)
      · rw [h2]; exact outExtP_trans (hcalm hext) (hret _ _ _)

/-- frames emitted from reachable framing states never make the decoder panic -/
theorem no_decoder_panic {rx : Rx} {rd : List ReadEv} {rx' : Rx} {rd' : List ReadEv} {fr : Bytes}
    (hr : Reach rx) (hp : pollNext rx rd = (rx', rd', .item fr)) : decodeRx fr ≠ .panic := by
  have h2 := (framing_index_safe rx hr).2.2.2.2 rd rx' rd' fr hp
  exact decodeRx_never_panics fr (by intro h; rw [h] at h2; simp at h2)

end World
end Poster
