/-
  Lemmas/WorldCancelVeilUser.lean — `veil id` (Lemmas/WorldCancelVeil.lean) commutes with the polls of the handle
  futures of operations other than `id`, with the polls of the other streams, and with the executor's choice.
-/
import PosterModel.Lemmas.WorldCancelVeil

set_option linter.unusedVariables false
set_option linter.unusedSimpArgs false

namespace Poster
open Framing
namespace World
namespace W11

theorem senderGone_veil (id) (w : World) : (veil id w).senderGone = veil id w.senderGone := by
  unfold senderGone
  simp only [senders_veil, veil_hasCtx, veil_queueReg]
  by_cases hc : w.senders = 0 ∧ w.hasCtx = true ∧ w.queueReg = true
  · simp only [hc, and_self, ↓reduceIte]
    rw [wake_veil id w .ctx (by simp)]; rfl
  · simp only [hc, ↓reduceIte]

theorem finishOp_veil (id) (w : World) (j : Nat) (r : DoneRes) :
    (veil id w).finishOp j r = veil id (w.finishOp j r) := by
  unfold finishOp
  have e : ({ veil id w with ops := eraseFirst j (veil id w).ops } : World) = veil id { w with ops := eraseFirst j w.ops } :=
    rfl
  rw [e, emit_veil id _ (.done j r) rfl, senderGone_veil]

theorem sendMsg_veil (id) (w : World) (m : Msg) : (veil id w).sendMsg m = (w.sendMsg m).map (veil id) := by
  rw [sendMsg_eq, sendMsg_eq]
  by_cases h : w.hasCtx = true
  · simp only [veil_hasCtx, h, ↓reduceIte, Option.map_some, Option.some.injEq]
    apply world_ext <;> simp only [veil_cfg, veil_hasCtx, veil_ctxDropped, veil_task, veil_c,
      veil_rx, veil_reader, veil_readerReg, veil_queue, veil_queueReg, veil_handles, veil_ops, veil_slots,
      veil_slotReg, veil_chans, veil_rsps, veil_streams, veil_pidCtr, veil_subCtr, veil_woken, veil_held,
      veil_written, veil_wirePend, veil_out, veil_bad]
    rw [wake_veil id w .ctx (by simp)]
    by_cases hq : w.queueReg = true
    · simp only [hq, ↓reduceIte, veil_woken]
    · simp only [hq, Bool.false_eq_true, ↓reduceIte]
  · simp only [veil_hasCtx, h, Bool.false_eq_true, ↓reduceIte, Option.map_none]

theorem awaitSlot_veil (id) (w : World) (j s : Nat) (k : Wait) :
    (veil id w).awaitSlot j s k = veil id (w.awaitSlot j s k) := rfl

theorem sendAwait_veil (id) (w : World) (m : Msg) (j s : Nat) (k : Wait) :
    (veil id w).sendAwait m j s k = veil id (w.sendAwait m j s k) := by
  unfold sendAwait
  rw [sendMsg_veil]
  cases hm : w.sendMsg m with
  | none => exact finishOp_veil id w j _
  | some w1 => rfl

theorem startOp_veil (id) (w : World) (j : Nat) (req : Req) (h : j ≠ id) :
    (veil id w).startOp j req = veil id (w.startOp j req) := by
  cases req with
  | publish t =>
    by_cases hq : t.qos = 0
    · rw [User.startOp_publish0 _ _ _ hq, User.startOp_publish0 _ _ _ hq]
      simp only [finishOp_veil, sendAwait_veil, veil_ite]
    · rw [User.startOp_publish12 _ _ _ hq, User.startOp_publish12 _ _ _ hq]
      simp only [allocPid_veil_snd, veil_pidCtr, finishOp_veil, sendAwait_veil, veil_ite]
  | subscribe t =>
    rw [User.startOp_subscribe, User.startOp_subscribe]
    simp only [allocPid_veil_snd, allocSub_veil_snd, veil_pidCtr, veil_subCtr, setChan_veil id _ j _ h, sendMsg_veil,
      dropChanRx_veil id _ j h]
    split
    · exact finishOp_veil id _ j _
    · cases hm : World.sendMsg _ _ with
      | none => exact finishOp_veil id _ j _
      | some w1 => rfl
  | unsubscribe t =>
    rw [User.startOp_unsubscribe, User.startOp_unsubscribe]
    simp only [allocPid_veil_snd, veil_pidCtr, finishOp_veil, sendAwait_veil, veil_ite]
  | ping =>
    rw [User.startOp_ping, User.startOp_ping]; exact sendAwait_veil id w _ j _ _
  | disconnect t =>
    rw [User.startOp_disconnect, User.startOp_disconnect]; exact sendAwait_veil id w _ j _ _

theorem panicOp_veil (id) (w : World) (j : Nat) :
    (({ veil id w with ops := eraseFirst j (veil id w).ops }).emit (.panic (.op j) "unreachable")).senderGone =
      veil id (({ w with ops := eraseFirst j w.ops }).emit (.panic (.op j) "unreachable")).senderGone := by
  have e : ({ veil id w with ops := eraseFirst j (veil id w).ops } : World) = veil id { w with ops := eraseFirst j w.ops } :=
    rfl
  rw [e, emit_veil id _ (.panic (.op j) "unreachable") rfl, senderGone_veil]

theorem resumeOp_veil (id) (w : World) (j s : Nat) (k : Wait) (v : SlotVal) :
    (veil id w).resumeOp j s k v = veil id (w.resumeOp j s k v) := by
  have fin : ∀ r, ((veil id w).clearSlot s).finishOp j r = veil id ((w.clearSlot s).finishOp j r) := by
    intro r; rw [clearSlot_veil]; exact finishOp_veil id _ j r
  have pan : ((({ (veil id w).clearSlot s with ops := eraseFirst j ((veil id w).clearSlot s).ops }).emit
        (.panic (.op j) "unreachable")).senderGone) =
      veil id ((({ w.clearSlot s with ops := eraseFirst j (w.clearSlot s).ops }).emit
        (.panic (.op j) "unreachable")).senderGone) := by
    rw [clearSlot_veil]; exact panicOp_veil id _ j
  cases v with
  | errSize => simp only [resumeOp, fin]
  | errQuota => simp only [resumeOp, fin]
  | unit => cases k <;> simp only [resumeOp, fin]
  | pkt x =>
    cases k <;> cases x
    all_goals first
      | exact pan
      | (simp only [resumeOp, fin, veil_ite]; done)
      | skip
    case pubrec.pubrec a =>
      by_cases hr : a.reason ≥ 128
      · simp only [resumeOp, hr, ↓reduceIte, fin]
      · rw [resumeOp_pubrec_eq _ _ _ _ hr, resumeOp_pubrec_eq _ _ _ _ hr, clearSlot_veil]
        exact sendAwait_veil id _ _ j _ _
    case suback.suback a =>
      simp only [resumeOp]
      rw [clearSlot_veil]
      exact finishOp_veil id { w.clearSlot s with rsps := (w.clearSlot s).rsps ++ [j] } j _

/-- **a poll of the future of an operation other than `id` commutes with veiling** -/
theorem pollOp_veil (id) (w : World) (j : Nat) (h : j ≠ id) : (veil id w).pollOp j = veil id (w.pollOp j) := by
  unfold pollOp
  rw [opSt_veil]
  cases hst : w.opSt j with
  | none => rfl
  | some st =>
    cases st with
    | fresh hd req => exact startOp_veil id w j req h
    | wait s k =>
      simp only [slot_veil]
      cases hsl : w.slot s with
      | none => rfl
      | some sl =>
        cases sl with
        | empty => rfl
        | full v => exact resumeOp_veil id w j s k v
        | closed =>
          simp only
          rw [clearSlot_veil]
          exact finishOp_veil id _ j _

theorem dropOp_veil (id) (w : World) (j : Nat) (h : j ≠ id) : (veil id w).dropOp j = veil id (w.dropOp j) := by
  unfold dropOp
  rw [opSt_veil]
  cases hst : w.opSt j with
  | none => rfl
  | some st =>
    cases st with
    | fresh hd req =>
      simp only
      have e : ({ veil id w with ops := eraseFirst j (veil id w).ops } : World) =
          veil id { w with ops := eraseFirst j w.ops } := rfl
      rw [e, senderGone_veil]
    | wait s k =>
      simp only
      cases k
      all_goals first
        | (have e : ({ (veil id w).clearSlot s with ops := eraseFirst j ((veil id w).clearSlot s).ops } : World) =
              veil id { w.clearSlot s with ops := eraseFirst j (w.clearSlot s).ops } := rfl
           simp only
           rw [e, senderGone_veil]
           done)
        | skip
      · simp only
        rw [clearSlot_veil, dropChanRx_veil id _ j h]
        have e : ({ veil id ((w.clearSlot s).dropChanRx j) with
            ops := eraseFirst j (veil id ((w.clearSlot s).dropChanRx j)).ops } : World) =
            veil id { (w.clearSlot s).dropChanRx j with ops := eraseFirst j ((w.clearSlot s).dropChanRx j).ops } := rfl
        rw [e, senderGone_veil]

/-- **a poll of another stream commutes with veiling** -/
theorem pollStream_veil (id) (w : World) (j : Nat) (h : j ≠ id) :
    (veil id w).pollStream j = veil id (w.pollStream j) := by
  unfold pollStream
  have hs : j ∈ (veil id w).streams ↔ j ∈ w.streams := mem_streams_veil id w j h
  by_cases hj : j ∈ w.streams
  · have hj' : j ∈ (veil id w).streams := hs.mpr hj
    simp only [hj, hj', not_true_eq_false, ↓reduceIte, chan_veil id w j h]
    cases w.chan j with
    | none => rfl
    | some ch =>
      obtain ⟨buf, tx, rxa, reg⟩ := ch
      cases buf with
      | cons x rest =>
        simp only [setChan_veil id w j _ h]
        rw [emit_veil id _ (.item j x) (by simpa [mineSt] using h), wake_veil id _ _ (by intro e; cases e; exact h rfl)]
      | nil =>
        cases tx with
        | true => exact setChan_veil id w j _ h
        | false =>
          simp only [Bool.false_eq_true, ↓reduceIte]
          have e : ({ veil id w with streams := List.filter (fun x => decide (x ≠ j)) (veil id w).streams } : World) =
              veil id { w with streams := List.filter (fun x => decide (x ≠ j)) w.streams } := by
            apply world_ext <;> simp only [veil_cfg, veil_hasCtx, veil_ctxDropped, veil_task, veil_c,
              veil_rx, veil_reader, veil_readerReg, veil_queue, veil_queueReg, veil_handles, veil_ops, veil_slots,
              veil_slotReg, veil_chans, veil_rsps, veil_streams, veil_pidCtr, veil_subCtr, veil_woken, veil_held,
              veil_written, veil_wirePend, veil_out, veil_bad]
            exact filter_filter_comm _ _ _
          rw [e, dropChanRx_veil id _ j h]
          exact emit_veil id _ (.endStream j) (by simpa [mineSt] using h)
  · have hj' : j ∉ (veil id w).streams := fun x => hj (hs.mp x)
    simp only [hj, hj', not_false_eq_true, ↓reduceIte]

/-- stream `id` is never polled by the executor (it is gone, or the script holds it), and no operation is named `id`
    (so no future will re-create channel `id`) -/
structure FrozenSt (id : Nat) (w : World) : Prop where
  noOp : w.opSt id = none
  st : id ∉ w.streams ∨ Task.st id ∈ w.held

theorem taskLive_veil (id) (w : World) (t : Task) (h : t ≠ .st id) : (veil id w).taskLive t = w.taskLive t := by
  cases t with
  | ctx => rfl
  | op n => rfl
  | st n =>
    have hn : n ≠ id := fun e => h (by rw [e])
    simp only [taskLive, mem_streams_veil id w n hn]

theorem pick_veil (id) (w : World) (hf : FrozenSt id w) : (veil id w).pick = w.pick := by
  have key : (veil id w).woken.filter (fun t => (veil id w).taskLive t ∧ t ∉ (veil id w).held) =
      w.woken.filter (fun t => w.taskLive t ∧ t ∉ w.held) := by
    simp only [veil_woken, List.filter_filter]
    apply List.filter_congr
    intro t _
    by_cases ht : t = .st id
    · subst ht
      rcases hf.st with h | h
      · simp [taskLive, h]
      · simp [h]
    · simp [taskLive_veil id w t ht, ht]
  unfold pick
  simp only [key]

theorem FrozenSt.not_picked {id : Nat} {w : World} (hf : FrozenSt id w) (t : Task) (hp : w.pick = some t) :
    t ≠ .st id ∧ t ≠ .op id := by
  obtain ⟨_, h2, h3⟩ := pick_some_spec w t hp
  constructor
  · intro e; subst e
    rcases hf.st with h | h
    · simp [taskLive, h] at h2
    · exact h3 h
  · intro e; subst e
    simp [taskLive, hf.noOp] at h2

/-- **one poll of any task other than `st id` / `op id` commutes with veiling** -/
theorem pollTask_veil (id) (w : World) (t : Task) (ht : t ≠ .st id) (ho : t ≠ .op id) (h : CtxOK id w) :
    (veil id w).pollTask t = veil id (w.pollTask t) := by
  cases t with
  | ctx =>
    simp only [pollTask, unwake_veil]
    exact pollCtx_veil id _ (h.congr rfl rfl)
  | op n =>
    have hn : n ≠ id := fun e => ho (by rw [e])
    simp only [pollTask, unwake_veil]
    exact pollOp_veil id _ n hn
  | st n =>
    have hn : n ≠ id := fun e => ht (by rw [e])
    simp only [pollTask, unwake_veil]
    exact pollStream_veil id _ n hn

end W11
end World
end Poster
