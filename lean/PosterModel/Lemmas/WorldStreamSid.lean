/-
  Lemmas/WorldStreamSid.lean — subscription identifiers are registered once: along every trace of stream moves the
  subscription identifiers in flight (those of queued SUBSCRIBE messages and those in the context's subscription table)
  are pairwise distinct, as long as the allocation counter has not wrapped around (it wraps after 268 435 455
  allocations; every allocation is the first poll of a distinct `subscribe()` future).
-/
import PosterModel.Lemmas.WorldStreamWho

set_option linter.unusedVariables false
set_option linter.unusedSimpArgs false

namespace Poster
open Framing
namespace World

/-- the identifiers in flight are pairwise distinct and were all allocated before the counter's current value -/
structure SidInv (w : World) : Prop where
  nodup : (psids w).Nodup
  lt : ∀ s ∈ psids w, s < w.subCtr

theorem sidInv_init (cfg : Cfg) : SidInv { cfg := cfg } := ⟨by simp [psids], by simp [psids]⟩

/-- what a move does to the counter and the identifiers in flight -/
theorem SMove.subRel {l : SLab} {w w' : World} (m : SMove l w w') :
    (l.started = none ∧ SubFrame w w') ∨ (l.started ≠ none ∧ NewFrame w w') := by
  cases m with
  | tau chans subs ops out sub => exact Or.inl ⟨rfl, sub⟩
  | ctx src ok chans c_eq ops out live sub => exact Or.inl ⟨rfl, sub⟩
  | addOp id hd req absent ops chans c_eq out sub => exact Or.inl ⟨rfl, sub⟩
  | alloc id hd req fresh notFresh ops chans c_eq out sub => exact Or.inr ⟨nofun, sub⟩
  | new id hd req fresh notFresh ops chans c_eq out sub => exact Or.inr ⟨nofun, sub⟩
  | dropRx id chans c_eq ops out sub => exact Or.inl ⟨rfl, sub⟩
  | pop id p ch rest hch hbuf chans c_eq ops out sub => exact Or.inl ⟨rfl, sub⟩
  | park id ch hch hbuf htx chans c_eq ops out sub => exact Or.inl ⟨rfl, sub⟩
  | endS id ch hch hbuf htx chans c_eq ops out sub => exact Or.inl ⟨rfl, sub⟩

/-- one move keeps the invariant while the counter has not reached its wrap-around value, and advances the counter by
    one exactly when it is the first poll of a `subscribe()` future -/
theorem SidInv.move {l : SLab} {w w' : World} (h : SidInv w) (m : SMove l w w') (hN : w.subCtr < 268435455) :
    SidInv w' ∧ w'.subCtr = w.subCtr + l.started.toList.length := by
  rcases m.subRel with ⟨hs, sc, nd, sub⟩ | ⟨hs, sc, nd, sub⟩
  · refine ⟨⟨nd h.nodup, fun s hm => ?_⟩, by rw [sc, hs]; rfl⟩
    rw [sc]; exact h.lt s (sub s hm)
  · have e : w'.subCtr = w.subCtr + 1 := by
      rw [sc]; unfold nextSub; split
      · omega
      · rfl
    refine ⟨⟨nd h.nodup (fun s hm e' => by have := h.lt s hm; omega), fun s hm => ?_⟩, ?_⟩
    · rw [e]
      rcases sub s hm with h1 | h1
      · have := h.lt s h1; omega
      · omega
    · rw [e]
      cases hst : l.started with
      | none => exact absurd hst hs
      | some x => rfl

/-- in a world satisfying the invariant the registered subscription identifiers are pairwise distinct -/
theorem SidInv.subs_nodup {w : World} (h : SidInv w) : (w.c.subs.map (·.1)).Nodup :=
  (List.sublist_append_right _ _).nodup h.nodup

/-- **along a trace**: while the counter stays below its wrap-around value, the invariant holds at the end, the
    counter has advanced by the number of `subscribe()` futures first polled, and at every handler call of the trace
    the subscription identifiers were registered once -/
theorem STrace.sidInv {tr : List SLab} {w w' : World} (t : STrace w tr w') (h : SidInv w)
    (hN : w.subCtr + (startedOf tr).length < 268435455) :
    SidInv w' ∧ w'.subCtr = w.subCtr + (startedOf tr).length ∧ ∀ l ∈ tr, l.subsOnce := by
  induction t with
  | refl => exact ⟨h, rfl, by simp⟩
  | @cons a b c l tr' m _ ih =>
    rw [startedOf_cons, List.length_append] at hN ⊢
    obtain ⟨hb, eb⟩ := h.move m (by omega)
    obtain ⟨x, y, z⟩ := ih hb (by rw [eb]; omega)
    refine ⟨x, by rw [y, eb]; omega, fun l' hl' => ?_⟩
    rcases List.mem_cons.mp hl' with e | e
    · subst e
      cases m with
      | ctx src ok =>
        cases src with
        | handler c0 i =>
          cases i with
          | msg m0 wok => trivial
          | pkt p dead wok =>
            obtain ⟨hc, _⟩ := ok
            exact Or.inl (by rw [hc]; exact h.subs_nodup)
        | _ => trivial
      | _ => trivial
    · exact z l' e

/-! ## every `subscribe()` future is first polled at most once -/

theorem SMove.started_fresh {l : SLab} {w w' : World} (m : SMove l w w') (id : Nat) (h : l.started = some id) :
    (∃ hd req, w.opSt id = some (.fresh hd req)) ∧ NotFresh id w' ∧ l.issued = none := by
  cases m with
  | alloc id' hd req fresh notFresh =>
    simp only [SLab.started, Option.some.injEq] at h; subst h
    exact ⟨⟨hd, req, fresh⟩, notFresh, rfl⟩
  | new id' hd req fresh notFresh =>
    simp only [SLab.started, Option.some.injEq] at h; subst h
    exact ⟨⟨hd, req, fresh⟩, notFresh, rfl⟩
  | _ => simp [SLab.started] at h

/-- once the future of `id` has been polled it is not first polled again unless the script issues `id` again -/
theorem STrace.no_start {tr : List SLab} {w w' : World} (t : STrace w tr w') (id : Nat) (h : NotFresh id w)
    (hi : id ∉ issuedOf tr) : id ∉ startedOf tr := by
  induction t with
  | refl => simp [startedOf]
  | @cons a b c l tr' m _ ih =>
    rw [issuedOf_cons] at hi
    rw [startedOf_cons]
    have hl : l.issued ≠ some id := by
      intro e; apply hi; rw [e]; simp
    intro hm
    rcases List.mem_append.mp hm with e | e
    · have hs : l.started = some id := by
        cases hst : l.started with
        | none => rw [hst] at e; simp at e
        | some x => rw [hst] at e; simp at e; rw [e]
      obtain ⟨⟨hd, req, hf⟩, _, _⟩ := m.started_fresh id hs
      exact h hd req hf
    · exact ih (h.move m hl) (fun x => hi (List.mem_append_right _ x)) e

/-- the futures first polled along a trace are pairwise distinct issued operations -/
theorem STrace.started {tr : List SLab} {w w' : World} (t : STrace w tr w') (U : Nat → Prop) (hu : OpsU U w)
    (hnd : (issuedOf tr).Nodup) (hnew : ∀ n ∈ issuedOf tr, ¬ U n) :
    (startedOf tr).Nodup ∧ ∀ n ∈ startedOf tr, U n ∨ n ∈ issuedOf tr := by
  induction t generalizing U with
  | refl => exact ⟨by simp [startedOf], by simp [startedOf]⟩
  | @cons a b c l tr' m t' ih =>
    rw [issuedOf_cons] at hnd hnew
    have hnd' : (issuedOf tr').Nodup := (List.nodup_append.mp hnd).2.1
    obtain ⟨x, y⟩ := ih (fun x => U x ∨ l.issued = some x) (hu.move m) hnd' (by
      intro n hn hx
      rcases hx with hx | hx
      · exact hnew n (List.mem_append_right _ hn) hx
      · exact (List.nodup_append.mp hnd).2.2 n (by rw [hx]; simp) n hn rfl)
    rw [startedOf_cons, issuedOf_cons]
    have ymem : ∀ n ∈ startedOf tr', U n ∨ n ∈ l.issued.toList ++ issuedOf tr' := by
      intro n hn
      rcases y n hn with (h1 | h1) | h1
      · exact Or.inl h1
      · exact Or.inr (by rw [h1]; simp)
      · exact Or.inr (List.mem_append_right _ h1)
    cases hs : l.started with
    | none => exact ⟨by simpa using x, by simpa using ymem⟩
    | some id =>
      obtain ⟨⟨hd, req, hf⟩, hnf, hiss⟩ := m.started_fresh id hs
      have hU : U id := hu id (by rw [hf]; simp)
      have hnot : id ∉ issuedOf tr' := fun hm => hnew id (List.mem_append_right _ hm) hU
      have hns : id ∉ startedOf tr' := t'.no_start id hnf hnot
      refine ⟨by simpa using ⟨hns, x⟩, fun n hn => ?_⟩
      simp only [Option.toList, List.cons_append, List.nil_append, List.mem_cons] at hn
      rcases hn with e | e
      · subst e; exact Or.inl hU
      · exact ymem n e

end World
end Poster
