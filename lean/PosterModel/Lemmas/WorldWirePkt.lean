/-
  Lemmas/WorldWirePkt.lean — every packet the client can hand to the transport is exactly ONE frame of the reference
  framing (`Framing.frames`): fixed-header byte, a minimally encoded remaining length, and exactly that many bytes.
  `WirePkt` is the class of those packets (what `startOp` / `resumeOp` / `pollConnect` / the handlers build).
-/
import PosterModel.Properties.C01
import PosterModel.Lemmas.Framing
import PosterModel.Lemmas.CtxRetx
import PosterModel.World

set_option linter.unusedVariables false
set_option linter.unusedSimpArgs false

namespace Poster
open Framing Spec

/-! ## the remaining-length field as the framing layer reads it -/

/-- the framing layer's length parse reads back the encoded remaining length (and its size), whatever follows -/
theorem w6_decVar_encVar (n : Nat) (h : n < 268435456) (r : Bytes) :
    decVar (encVar n ++ r) = .ok n (varLen n) := by
  unfold encVar varLen
  split
  · have : n % 256 < 128 := by omega
    simp [decVar, decVarAux, varMax, this]; omega
  · split
    · have h1 : ¬ (n % 128 + 128) % 256 < 128 := by omega
      have h2 : n / 128 % 128 % 256 < 128 := by omega
      simp [decVar, decVarAux, varMax, h1, h2]; omega
    · split
      · have h1 : ¬ (n % 128 + 128) % 256 < 128 := by omega
        have h2 : ¬ (n / 128 % 128 + 128) % 256 < 128 := by omega
        have h3 : n / 16384 % 128 % 256 < 128 := by omega
        simp [decVar, decVarAux, varMax, h1, h2, h3]; omega
      · have h1 : ¬ (n % 128 + 128) % 256 < 128 := by omega
        have h2 : ¬ (n / 128 % 128 + 128) % 256 < 128 := by omega
        have h3 : ¬ (n / 16384 % 128 + 128) % 256 < 128 := by omega
        have h4 : n / 2097152 % 128 % 256 < 128 := by omega
        simp [decVar, decVarAux, varMax, h1, h2, h3, h4]; omega

/-- `p` is exactly one frame: its remaining-length field is well formed and announces exactly the bytes of `p` -/
def OneFrame (p : Bytes) : Prop := ∃ k, frameLen p = .ok p.length k

/-- fixed-header byte, the encoded size of the body, the body: one frame -/
theorem oneFrame_hdr (x : UInt8) (body : Bytes) (hb : body.length < 268435456) :
    OneFrame (x :: (encVar body.length ++ body)) := by
  refine ⟨varLen body.length, ?_⟩
  rw [frameLen_cons, w6_decVar_encVar _ hb]
  simp only [List.length_cons, List.length_append, ← varLen_eq]
  congr 1; omega

/-- the reference framing splits one frame into exactly itself, nothing left over -/
theorem frames_oneFrame (p : Bytes) (h : OneFrame p) : frames p = some ([p], []) := by
  obtain ⟨k, hk⟩ := h
  have := frames_cons p [] k hk
  simpa [frames_nil] using this

/-- a list of whole frames is framed as itself -/
theorem frames_flatten_oneFrame (ps : List Bytes) (h : ∀ p ∈ ps, OneFrame p) : frames ps.flatten = some (ps, []) :=
  frames_flatten ps h

/-- a frame followed by a list of whole frames -/
theorem frames_append_oneFrame (p : Bytes) (h : OneFrame p) (rest : Bytes) :
    frames (p ++ rest) = (frames rest).map fun (ps, tl) => (p :: ps, tl) := by
  obtain ⟨k, hk⟩ := h
  exact frames_cons p rest k hk

/-- setting the DUP bit of the fixed header does not touch the framing -/
theorem oneFrame_setDup (p : Bytes) (h : OneFrame p) : OneFrame (setDup p) := by
  cases p with
  | nil => exact h
  | cons b t =>
    obtain ⟨k, hk⟩ := h
    refine ⟨k, ?_⟩
    simp only [setDup]
    rw [frameLen_cons] at hk ⊢
    simpa using hk

/-! ## every packet constructor yields one frame (only the protocol's size limit is needed) -/

theorem oneFrame_connect (t : ConnectTx) (h : t.remainingLen < 268435456) : OneFrame t.encode := by
  rw [connect_encode_eq, connect_remainingLen_eq]
  exact oneFrame_hdr _ _ (by rw [← connect_remainingLen_eq]; exact h)

theorem oneFrame_auth (t : AuthTx) (h : t.remainingLen < 268435456) : OneFrame t.encode := by
  rw [auth_encode_eq, auth_remainingLen_eq]
  exact oneFrame_hdr _ _ (by rw [← auth_remainingLen_eq]; exact h)

theorem oneFrame_publish (t : PublishTx) (h : t.remainingLen < 268435456) : OneFrame t.encode := by
  rw [publish_encode_eq, publish_remainingLen_eq]
  exact oneFrame_hdr _ _ (by rw [← publish_remainingLen_eq]; exact h)

theorem oneFrame_subscribe (t : SubscribeTx) (h : t.remainingLen < 268435456) : OneFrame t.encode := by
  rw [subscribe_encode_eq, subscribe_remainingLen_eq]
  exact oneFrame_hdr _ _ (by rw [← subscribe_remainingLen_eq]; exact h)

theorem oneFrame_unsubscribe (t : UnsubscribeTx) (h : t.remainingLen < 268435456) : OneFrame t.encode := by
  rw [unsubscribe_encode_eq, unsubscribe_remainingLen_eq]
  exact oneFrame_hdr _ _ (by rw [← unsubscribe_remainingLen_eq]; exact h)

theorem oneFrame_disconnect (t : DisconnectTx) (h : t.remainingLen < 268435456) : OneFrame t.encode := by
  rw [disconnect_encode_eq, disconnect_remainingLen_eq]
  exact oneFrame_hdr _ _ (by rw [← disconnect_remainingLen_eq]; exact h)

theorem oneFrame_ack (t : AckTx) (h : t.remainingLen < 268435456) : OneFrame t.encode := by
  rw [ack_encode_eq, ack_remainingLen_eq]
  exact oneFrame_hdr _ _ (by rw [← ack_remainingLen_eq]; exact h)

/-- the acknowledgements the library writes by itself, for ANY header byte and packet identifier -/
theorem oneFrame_ackBytes (hdr pid : Nat) : OneFrame (ackBytes hdr pid) := by
  apply oneFrame_ack
  simp [AckTx.remainingLen, AckTx.propertyLen, userLen, oLen]

theorem oneFrame_pingreq : OneFrame pingreqBytes := ⟨1, by decide⟩

/-! ## the packets of known origin -/

/-- the packets the client builds: a request of the caller that was accepted (`valid`) and that MQTT 5 can represent
    (`XInDomain`), completed with the identifiers the library assigned; the ping request; the four acknowledgements in
    their shortest form for a real packet identifier. Retransmissions are of this class too (`wirePkt_setDup_publish`). -/
inductive WirePkt : Bytes → Prop
  | connect (t : ConnectTx) (hv : t.valid = true) (hd : ConnectInDomain t) : WirePkt t.encode
  | auth (t : AuthTx) (hv : t.valid = true) (hd : AuthInDomain t) : WirePkt t.encode
  | publish (t : PublishTx) (hv : t.valid = true) (hd : PublishInDomain t) : WirePkt t.encode
  | subscribe (t : SubscribeTx) (hv : t.valid = true) (hd : SubscribeInDomain t) : WirePkt t.encode
  | unsubscribe (t : UnsubscribeTx) (hv : t.valid = true) (hd : UnsubscribeInDomain t) : WirePkt t.encode
  | disconnect (t : DisconnectTx) (hd : DisconnectInDomain t) : WirePkt t.encode
  | pingreq : WirePkt pingreqBytes
  | ack (hdr pid : Nat) (hh : hdr = 0x40 ∨ hdr = 0x50 ∨ hdr = 0x62 ∨ hdr = 0x70) (hp : 1 ≤ pid ∧ pid ≤ 65535) :
      WirePkt (ackBytes hdr pid)

/-- **every such packet is exactly one frame** -/
theorem WirePkt.oneFrame {p : Bytes} (h : WirePkt p) : OneFrame p := by
  cases h with
  | connect t hv hd => exact oneFrame_connect t hd.size
  | auth t hv hd => exact oneFrame_auth t hd.size
  | publish t hv hd => exact oneFrame_publish t hd.size
  | subscribe t hv hd => exact oneFrame_subscribe t hd.size
  | unsubscribe t hv hd => exact oneFrame_unsubscribe t hd.size
  | disconnect t hd => exact oneFrame_disconnect t hd.size
  | pingreq => exact oneFrame_pingreq
  | ack hdr pid hh hp => exact oneFrame_ackBytes hdr pid

/-- **every such packet is one well-formed MQTT 5 client packet**: the independent parser reads exactly one packet and
    leaves whatever follows untouched -/
theorem WirePkt.parses {p : Bytes} (h : WirePkt p) :
    ∃ pkt : ClientPacket, ∀ rest, parseClient (p ++ rest) = some (pkt, rest) := by
  cases h with
  | connect t hv hd => exact ⟨_, enc_connect_parses t hv hd⟩
  | auth t hv hd => exact ⟨_, enc_auth_parses t hv hd⟩
  | publish t hv hd => exact ⟨_, enc_publish_parses t hv hd⟩
  | subscribe t hv hd => exact ⟨_, enc_subscribe_parses t hv hd⟩
  | unsubscribe t hv hd => exact ⟨_, enc_unsubscribe_parses t hv hd⟩
  | disconnect t hd => exact ⟨_, enc_disconnect_parses t hd⟩
  | pingreq => exact ⟨_, enc_pingreq_parses⟩
  | ack hdr pid hh hp => exact ⟨_, enc_ackBytes_parses hdr pid hh hp⟩

/-! ## the DUP bit of a retransmitted PUBLISH -/

theorem w6_lor8 (n : Nat) (h : n < 256) : n ||| 8 = 16 * (n / 16) + 8 + n % 8 := by
  obtain ⟨h1, h2, h3, h4⟩ := lor8_bits n h
  generalize n ||| 8 = m at *
  omega

/-- `setDup` of an encoded QoS>0 PUBLISH is the encoding of the same publication with the DUP flag set -/
theorem setDup_publish_encode (t : PublishTx) (hq : t.qos ≤ 2) :
    setDup t.encode = ({ t with dup := true } : PublishTx).encode := by
  rw [publish_encode_eq, publish_encode_eq]
  have e1 : ({ t with dup := true } : PublishTx).remainingLen = t.remainingLen := rfl
  have e2 : publishBody ({ t with dup := true } : PublishTx) = publishBody t := rfl
  rw [e1, e2]
  simp only [setDup, u8_toNat_ofNat]
  congr 2
  have hlt : t.fixedHdr < 256 := by
    unfold PublishTx.fixedHdr; cases t.dup <;> cases t.retain <;> simp [b2n] <;> omega
  rw [Nat.mod_eq_of_lt hlt, w6_lor8 _ hlt]
  unfold PublishTx.fixedHdr
  cases t.dup <;> cases t.retain <;> simp [b2n] <;> omega

/-- the retransmission of an accepted QoS>0 PUBLISH is again a well-formed PUBLISH of the class -/
theorem wirePkt_setDup_publish (t : PublishTx) (hv : t.valid = true) (hd : PublishInDomain t) (hq : t.qos ≠ 0) :
    WirePkt (setDup t.encode) := by
  rw [setDup_publish_encode t hd.qos]
  refine .publish _ hv ⟨hd.qos, hd.packetId, fun h => absurd h hq, hd.topic, hd.topicAlias, hd.mei, hd.correlationData,
    hd.responseTopic, hd.contentType, hd.userProps, hd.size⟩

/-! ## packet types (first nibble) of the packets that travel as `awaitAck` messages -/

theorem pktType_unsubscribe (t : UnsubscribeTx) : pktType t.encode = 10 := by
  simp [UnsubscribeTx.encode, encU8, pktType]
theorem pktType_pingreq : pktType pingreqBytes = 12 := by decide
theorem pktType_pubrel (pid : Nat) : pktType (ackBytes 0x62 pid) = 6 := by
  simp [ackBytes, AckTx.encode, encU8, pktType]

/-! ## packets with their provenance -/

/-- where the requests of an execution come from: the CONNECT requests, the AUTH requests and the handle requests the
    callers made (for a script: the ones its events carry) -/
structure Src where
  conn : ConnectTx → Prop
  auth : AuthTx → Prop
  req : Req → Prop

/-- `WirePkt` with provenance: the bytes are the encoding of a request of `S`, accepted and in the MQTT 5 domain, completed
    with a packet identifier in 1..65535 (QoS>0 PUBLISH, SUBSCRIBE, UNSUBSCRIBE) and a subscription identifier in
    1..268435455 (SUBSCRIBE); or the retransmission (`setDup`) of such a QoS>0 PUBLISH; or the PINGREQ of a ping request of
    `S`; or one of the four acknowledgements in the shortest form for an identifier in 1..65535. -/
inductive WireOf (S : Src) : Bytes → Prop
  | connect (t : ConnectTx) (hs : S.conn t) (hv : t.valid = true) (hd : ConnectInDomain t) : WireOf S t.encode
  | auth (t : AuthTx) (hs : S.auth t) (hv : t.valid = true) (hd : AuthInDomain t) : WireOf S t.encode
  | publish0 (t : PublishTx) (hs : S.req (.publish t)) (hq : t.qos = 0) (hv : t.valid = true)
      (hd : PublishInDomain t) : WireOf S t.encode
  | publish (t : PublishTx) (hs : S.req (.publish t)) (hq : t.qos ≠ 0) (pid : Nat) (hp : 1 ≤ pid ∧ pid ≤ 65535)
      (hv : ({ t with packetId := some pid } : PublishTx).valid = true)
      (hd : PublishInDomain { t with packetId := some pid }) :
      WireOf S ({ t with packetId := some pid } : PublishTx).encode
  | republish (t : PublishTx) (hs : S.req (.publish t)) (hq : t.qos ≠ 0) (pid : Nat) (hp : 1 ≤ pid ∧ pid ≤ 65535)
      (hv : ({ t with packetId := some pid } : PublishTx).valid = true)
      (hd : PublishInDomain { t with packetId := some pid }) :
      WireOf S (setDup ({ t with packetId := some pid } : PublishTx).encode)
  | subscribe (t : SubscribeTx) (hs : S.req (.subscribe t)) (pid sid : Nat) (hp : 1 ≤ pid ∧ pid ≤ 65535)
      (hsid : 1 ≤ sid ∧ sid ≤ 268435455)
      (hv : ({ t with packetId := pid, subId := some sid } : SubscribeTx).valid = true)
      (hd : SubscribeInDomain { t with packetId := pid, subId := some sid }) :
      WireOf S ({ t with packetId := pid, subId := some sid } : SubscribeTx).encode
  | unsubscribe (t : UnsubscribeTx) (hs : S.req (.unsubscribe t)) (pid : Nat) (hp : 1 ≤ pid ∧ pid ≤ 65535)
      (hv : ({ t with packetId := pid } : UnsubscribeTx).valid = true)
      (hd : UnsubscribeInDomain { t with packetId := pid }) :
      WireOf S ({ t with packetId := pid } : UnsubscribeTx).encode
  | disconnect (t : DisconnectTx) (hs : S.req (.disconnect t)) (hd : DisconnectInDomain t) : WireOf S t.encode
  | pingreq (hs : S.req .ping) : WireOf S pingreqBytes
  | ack (hdr pid : Nat) (hh : hdr = 0x40 ∨ hdr = 0x50 ∨ hdr = 0x62 ∨ hdr = 0x70) (hp : 1 ≤ pid ∧ pid ≤ 65535) :
      WireOf S (ackBytes hdr pid)

/-- forgetting the provenance -/
theorem WireOf.wirePkt {S : Src} {p : Bytes} (h : WireOf S p) : WirePkt p := by
  cases h with
  | connect t hs hv hd => exact .connect t hv hd
  | auth t hs hv hd => exact .auth t hv hd
  | publish0 t hs hq hv hd => exact .publish t hv hd
  | publish t hs hq pid hp hv hd => exact .publish _ hv hd
  | republish t hs hq pid hp hv hd => exact wirePkt_setDup_publish _ hv hd hq
  | subscribe t hs pid sid hp hsid hv hd => exact .subscribe _ hv hd
  | unsubscribe t hs pid hp hv hd => exact .unsubscribe _ hv hd
  | disconnect t hs hd => exact .disconnect t hd
  | pingreq hs => exact .pingreq
  | ack hdr pid hh hp => exact .ack hdr pid hh hp

theorem WireOf.oneFrame {S : Src} {p : Bytes} (h : WireOf S p) : OneFrame p := h.wirePkt.oneFrame

/-- what a standard decoder sees, and where it comes from: a caller's CONNECT / AUTH; a caller's PUBLISH (QoS 0 as stated;
    QoS>0 with the assigned packet identifier, possibly as a re-delivery with DUP set); a caller's SUBSCRIBE / UNSUBSCRIBE
    with the assigned identifiers; a caller's DISCONNECT; the PINGREQ of a caller's ping; an acknowledgement (success, no
    properties) for a packet identifier in 1..65535 -/
inductive FromCaller (S : Src) : ClientPacket → Prop
  | connect (t : ConnectTx) (hs : S.conn t) : FromCaller S (ofConnect t)
  | auth (t : AuthTx) (hs : S.auth t) : FromCaller S (ofAuth t)
  | publish0 (t : PublishTx) (hs : S.req (.publish t)) (hq : t.qos = 0) : FromCaller S (ofPublish t)
  | publish (t : PublishTx) (hs : S.req (.publish t)) (hq : t.qos ≠ 0) (pid : Nat) (hp : 1 ≤ pid ∧ pid ≤ 65535) :
      FromCaller S (ofPublish { t with packetId := some pid })
  | republish (t : PublishTx) (hs : S.req (.publish t)) (hq : t.qos ≠ 0) (pid : Nat) (hp : 1 ≤ pid ∧ pid ≤ 65535) :
      FromCaller S (ofPublish { t with packetId := some pid, dup := true })
  | subscribe (t : SubscribeTx) (hs : S.req (.subscribe t)) (pid sid : Nat) (hp : 1 ≤ pid ∧ pid ≤ 65535)
      (hsid : 1 ≤ sid ∧ sid ≤ 268435455) : FromCaller S (ofSubscribe { t with packetId := pid, subId := some sid })
  | unsubscribe (t : UnsubscribeTx) (hs : S.req (.unsubscribe t)) (pid : Nat) (hp : 1 ≤ pid ∧ pid ≤ 65535) :
      FromCaller S (ofUnsubscribe { t with packetId := pid })
  | disconnect (t : DisconnectTx) (hs : S.req (.disconnect t)) : FromCaller S (ofDisconnect t)
  | pingreq (hs : S.req .ping) : FromCaller S .pingreq
  | ack (hdr pid : Nat) (hh : hdr = 0x40 ∨ hdr = 0x50 ∨ hdr = 0x62 ∨ hdr = 0x70) (hp : 1 ≤ pid ∧ pid ≤ 65535) :
      FromCaller S (ofAck { hdr := hdr, packetId := pid })

/-- **a packet with provenance decodes to the caller's values**: the independent parser reads exactly one packet, leaves
    the rest untouched, and the packet is the one expected for a request of `S` with library-assigned identifiers -/
theorem WireOf.decodes {S : Src} {p : Bytes} (h : WireOf S p) :
    ∃ pkt : ClientPacket, (∀ rest, parseClient (p ++ rest) = some (pkt, rest)) ∧ FromCaller S pkt := by
  cases h with
  | connect t hs hv hd => exact ⟨_, enc_connect_parses t hv hd, .connect t hs⟩
  | auth t hs hv hd => exact ⟨_, enc_auth_parses t hv hd, .auth t hs⟩
  | publish0 t hs hq hv hd => exact ⟨_, enc_publish_parses t hv hd, .publish0 t hs hq⟩
  | publish t hs hq pid hp hv hd => exact ⟨_, enc_publish_parses _ hv hd, .publish t hs hq pid hp⟩
  | republish t hs hq pid hp hv hd =>
    have hd' : PublishInDomain ({ t with packetId := some pid, dup := true } : PublishTx) :=
      ⟨hd.qos, hd.packetId, fun h => absurd h hq, hd.topic, hd.topicAlias, hd.mei,
        hd.correlationData, hd.responseTopic, hd.contentType, hd.userProps, hd.size⟩
    have hv' : ({ t with packetId := some pid, dup := true } : PublishTx).valid = true := hv
    refine ⟨_, fun rest => ?_, .republish t hs hq pid hp⟩
    rw [setDup_publish_encode _ hd.qos]
    exact enc_publish_parses _ hv' hd' rest
  | subscribe t hs pid sid hp hsid hv hd => exact ⟨_, enc_subscribe_parses _ hv hd, .subscribe t hs pid sid hp hsid⟩
  | unsubscribe t hs pid hp hv hd => exact ⟨_, enc_unsubscribe_parses _ hv hd, .unsubscribe t hs pid hp⟩
  | disconnect t hs hd => exact ⟨_, enc_disconnect_parses t hd, .disconnect t hs⟩
  | pingreq hs => exact ⟨_, enc_pingreq_parses, .pingreq hs⟩
  | ack hdr pid hh hp => exact ⟨_, enc_ackBytes_parses hdr pid hh hp, .ack hdr pid hh hp⟩

end Poster
