/-
  Lemmas/WorldFuelCtx.lean — the context side of the potential argument (C04, quiescence of the drain):
  the effects of a handler (`sendSlot`, `dropSlotTx`, `deliver`, `dropChanTx`, `writeBytes`) never increase the
  user part `phiU` of the potential, except that every delivered message costs 2; a PUBLISH frame pays for its
  deliveries with its bytes; hence no poll of the context task increases `phi`.
-/
import PosterModel.Lemmas.WorldFuelPot
import PosterModel.Lemmas.WorldFuelCodec

set_option linter.unusedVariables false
set_option linter.unusedSimpArgs false

namespace Poster
open Framing
namespace World
namespace W5

/-- every entry of the operation table for the owner of a registered oneshot waits on exactly that oneshot
    (entry-wise form of `RegInv`) -/
def RegE (w : World) : Prop :=
  ∀ s, s ∈ w.slotReg → ∀ id st, (id, st) ∈ w.ops → id = s / 2 → ∃ k, st = .wait s k

/-- what the context's effects leave alone -/
structure UFrame (w w' : World) : Prop where
  task_eq : w'.task = w.task
  rx_eq : w'.rx = w.rx
  reader_eq : w'.reader = w.reader
  handles_eq : w'.handles = w.handles
  ops_eq : w'.ops = w.ops
  held_eq : w'.held = w.held
  streams_eq : w'.streams = w.streams
  ctxW : Task.ctx ∈ w'.woken ↔ Task.ctx ∈ w.woken
  slotReg_sub : ∀ s, s ∈ w'.slotReg → s ∈ w.slotReg

theorem UFrame.refl (w : World) : UFrame w w :=
  ⟨rfl, rfl, rfl, rfl, rfl, rfl, rfl, Iff.rfl, fun _ h => h⟩

theorem UFrame.trans {a b c : World} (h1 : UFrame a b) (h2 : UFrame b c) : UFrame a c :=
  ⟨h2.task_eq.trans h1.task_eq, h2.rx_eq.trans h1.rx_eq, h2.reader_eq.trans h1.reader_eq,
    h2.handles_eq.trans h1.handles_eq, h2.ops_eq.trans h1.ops_eq, h2.held_eq.trans h1.held_eq,
    h2.streams_eq.trans h1.streams_eq, h2.ctxW.trans h1.ctxW, fun s h => h1.slotReg_sub s (h2.slotReg_sub s h)⟩

theorem UFrame.regE {w w' : World} (f : UFrame w w') (h : RegE w) : RegE w' := by
  intro s hs id st hm hid
  exact h s (f.slotReg_sub s hs) id st (f.ops_eq ▸ hm) hid

theorem UFrame.senders {w w' : World} (f : UFrame w w') : w'.senders = w.senders := by
  show w'.handles.length + w'.ops.length = w.handles.length + w.ops.length
  rw [f.handles_eq, f.ops_eq]

/-- `w'` is `w` after effects of the context that deliver at most `d / 2` messages -/
def EffStep (d : Nat) (w w' : World) : Prop := UFrame w w' ∧ (RegE w → phiU w' ≤ phiU w + d)

theorem EffStep.refl (w : World) : EffStep 0 w w := ⟨UFrame.refl w, fun _ => Nat.le_refl _⟩

theorem EffStep.trans {a b c : World} {d1 d2 : Nat} (h1 : EffStep d1 a b) (h2 : EffStep d2 b c) :
    EffStep (d1 + d2) a c := by
  refine ⟨h1.1.trans h2.1, fun hr => ?_⟩
  have e1 := h1.2 hr
  have e2 := h2.2 (h1.1.regE hr)
  omega

theorem EffStep.mono {a b : World} {d d' : Nat} (h : EffStep d a b) (hd : d ≤ d') : EffStep d' a b :=
  ⟨h.1, fun hr => by have := h.2 hr; omega⟩

/-! ## a oneshot is completed or closed -/

/-- the world after `sendSlot` / `dropSlotTx` on an empty oneshot -/
def fill (w : World) (s : Nat) (v : Slot) : World :=
  { w with slots := setAssoc s v w.slots,
           slotReg := if s ∈ w.slotReg then w.slotReg.filter (· ≠ s) else w.slotReg,
           woken := if s ∈ w.slotReg then (w.wake (.op (s / 2))).woken else w.woken }

theorem fill_effStep (w : World) (s : Nat) (v : Slot) (hv : v ≠ .empty) : EffStep 0 w (fill w s v) := by
  have hwk : ∀ t, t ∈ (fill w s v).woken → t = .op (s / 2) ∧ s ∈ w.slotReg ∨ t ∈ w.woken := by
    intro t ht
    simp only [fill] at ht
    split at ht
    · rename_i hs
      rcases (mem_wake_iff _ _ _).mp ht with h | h
      · exact Or.inl ⟨h, hs⟩
      · exact Or.inr h
    · exact Or.inr ht
  have hwk2 : ∀ t, t ∈ w.woken → t ∈ (fill w s v).woken := by
    intro t ht
    simp only [fill]
    split
    · exact mem_wake_of_mem _ _ _ ht
    · exact ht
  refine ⟨⟨rfl, rfl, rfl, rfl, rfl, rfl, rfl, ?_, ?_⟩, fun hr => ?_⟩
  · constructor
    · intro h
      rcases hwk _ h with ⟨h1, _⟩ | h1
      · cases h1
      · exact h1
    · exact hwk2 _
  · intro s' hs'
    simp only [fill] at hs'
    split at hs'
    · exact (List.mem_filter.mp hs').1
    · exact hs'
  · have h1 : opsPot (fill w s v) ≤ opsPot w := by
      refine opsPot_le rfl rfl (fun id s' k hm hh hw hi => ?_)
      have hne : s' ≠ s := by
        intro e
        subst e
        have : lookupFirst s' (fill w s' v).slots = some v := lookupFirst_setAssoc_self _ _ _
        rcases hi with hi | hi
        · rw [this] at hi; simp only [Option.some.injEq] at hi; exact hv hi
        · rw [this] at hi; cases hi
      have hi' : idle w.slots s' := by
        have e : lookupFirst s' (fill w s v).slots = lookupFirst s' w.slots := lookupFirst_setAssoc_ne _ _ _ _ hne
        unfold idle at hi ⊢
        rw [e] at hi; exact hi
      rcases hwk _ hw with ⟨h2, hs⟩ | h2
      · exfalso
        simp only [Task.op.injEq] at h2
        obtain ⟨k', hk'⟩ := hr s hs id _ hm h2
        simp only [OpSt.wait.injEq] at hk'
        exact hne hk'.1
      · exact ⟨h2, hi'⟩
    have h2 : stPot (fill w s v) = stPot w := by
      refine stPot_congr rfl rfl (fun n => ⟨fun h => ?_, hwk2 _⟩) rfl
      rcases hwk _ h with ⟨h1, _⟩ | h1
      · cases h1
      · exact h1
    unfold phiU; omega

theorem sendSlot_effStep (w : World) (s : Nat) (v : SlotVal) : EffStep 0 w (w.sendSlot s v) := by
  rw [sendSlot_eqQ]
  split
  · exact fill_effStep w s (.full v) (by intro h; cases h)
  · exact EffStep.refl w

theorem dropSlotTx_effStep (w : World) (s : Nat) : EffStep 0 w (w.dropSlotTx s) := by
  rw [dropSlotTx_eq]
  split
  · exact fill_effStep w s .closed (by intro h; cases h)
  · exact EffStep.refl w

/-! ## subscription channels -/

/-- the flags of operation tasks and everything else the operations' part reads is unchanged -/
theorem opsPot_le_of_woken {w w' : World} (hops : w'.ops = w.ops) (hheld : w'.held = w.held) (hs : w'.slots = w.slots)
    (hw : ∀ id, Task.op id ∈ w'.woken → Task.op id ∈ w.woken) : opsPot w' ≤ opsPot w :=
  opsPot_le hops hheld (fun id s k _ _ h1 h2 => ⟨hw id h1, hs ▸ h2⟩)

/-- the channel update shared by `deliver` and `dropChanTx`: entry `c` replaced, the stream `c` flagged if it
    was registered -/
def chanUpd (w : World) (c : Nat) (ch ch' : Chan) : World :=
  if ch.reg then (w.setChan c ch').wake (.st c) else w.setChan c ch'

theorem chanUpd_uframe (w : World) (c : Nat) (ch ch' : Chan) : UFrame w (chanUpd w c ch ch') := by
  unfold chanUpd
  split
  · refine ⟨by simp, by simp, by simp, by simp, by simp, by simp, by simp, ?_, by simp⟩
    rw [mem_wake_iff]; simp
  · exact ⟨rfl, rfl, rfl, rfl, rfl, rfl, rfl, Iff.rfl, fun _ h => h⟩

theorem chanUpd_chans (w : World) (c : Nat) (ch ch' : Chan) :
    (chanUpd w c ch ch').chans = setAssoc c ch' w.chans := by
  unfold chanUpd; split <;> simp

theorem chanUpd_woken (w : World) (c : Nat) (ch ch' : Chan) (t : Task) :
    t ∈ (chanUpd w c ch ch').woken ↔ (t = .st c ∧ ch.reg = true) ∨ t ∈ w.woken := by
  unfold chanUpd
  split
  · rename_i h; rw [mem_wake_iff]; simp [h]
  · rename_i h; simp [h]

theorem chanUpd_opsPot (w : World) (c : Nat) (ch ch' : Chan) : opsPot (chanUpd w c ch ch') ≤ opsPot w := by
  have f := chanUpd_uframe w c ch ch'
  refine opsPot_le_of_woken f.ops_eq f.held_eq ?_ (fun id h => ?_)
  · unfold chanUpd; split <;> simp
  · rcases (chanUpd_woken w c ch ch' _).mp h with ⟨h1, _⟩ | h1
    · cases h1
    · exact h1

/-- the stream cost of the channel `c` itself after the update, when the new entry is not registered and its
    sender is no more alive than before -/
theorem stCost_chanUpd_self (w : World) (c : Nat) (ch ch' : Chan) (hl : lookupFirst c w.chans = some ch)
    (hreg : ch'.reg = false) (htx : ch'.txAlive = true → ch.txAlive = true) (d : Nat)
    (hd : ch.reg = true → ch.txAlive = true → ch'.txAlive = true → 1 ≤ d) :
    stCost w.held (chanUpd w c ch ch').woken (chanUpd w c ch ch').chans c ≤ stCost w.held w.woken w.chans c + d := by
  unfold stCost
  split
  · omega
  · rw [chanUpd_chans, lookupFirst_setAssoc_self, hl]
    simp only [chanUpd_woken, hreg, Bool.false_eq_true, false_and, or_false, true_and]
    cases h1 : ch.reg <;> cases h2 : ch.txAlive <;> cases h3 : ch'.txAlive <;>
      by_cases h4 : Task.st c ∈ w.woken <;> simp_all <;> omega

theorem stCost_chanUpd_other (w : World) (c : Nat) (ch ch' : Chan) (id : Nat) (hne : id ≠ c) :
    stCost w.held (chanUpd w c ch ch').woken (chanUpd w c ch ch').chans id = stCost w.held w.woken w.chans id := by
  unfold stCost
  rw [chanUpd_chans, lookupFirst_setAssoc_ne _ _ _ _ hne]
  have : Task.st id ∈ (chanUpd w c ch ch').woken ↔ Task.st id ∈ w.woken := by
    rw [chanUpd_woken]; simp [hne]
  simp only [this]

theorem deliver_effStep (w : World) (c : Nat) (p : PublishRx) : EffStep 2 w (w.deliver c p) := by
  cases hch : w.chan c with
  | none => rw [User.deliver_none w c p hch]; exact (EffStep.refl w).mono (by omega)
  | some ch =>
    have e : w.deliver c p = chanUpd w c ch { ch with buf := ch.buf ++ [p], reg := false } := by
      simp only [deliver, hch, chanUpd]
    rw [e]
    have f := chanUpd_uframe w c ch { ch with buf := ch.buf ++ [p], reg := false }
    refine ⟨f, fun _ => ?_⟩
    have h1 := chanUpd_opsPot w c ch { ch with buf := ch.buf ++ [p], reg := false }
    have h2 : stSum (chanUpd w c ch { ch with buf := ch.buf ++ [p], reg := false }) ≤ stSum w + 1 := by
      unfold stSum
      rw [f.streams_eq, f.held_eq]
      refine sum_map_le_one (nodup_uniq _) c 1 _ _ (fun id _ hne => ?_) ?_
      · exact Nat.le_of_eq (stCost_chanUpd_other w c ch { ch with buf := ch.buf ++ [p], reg := false } id hne)
      · exact stCost_chanUpd_self w c ch { ch with buf := ch.buf ++ [p], reg := false } hch rfl (fun h => h) 1
          (fun _ _ _ => Nat.le_refl _)
    have h3 : bufSum (chanUpd w c ch { ch with buf := ch.buf ++ [p], reg := false }) = bufSum w + 1 := by
      unfold bufSum
      rw [chanUpd_chans]
      exact bufs_setAssoc_snoc c ch _ p w.chans hch rfl
    unfold phiU stPot; omega

theorem dropChanTx_effStep (w : World) (c : Nat) : EffStep 0 w (w.dropChanTx c) := by
  cases hch : w.chan c with
  | none => rw [User.dropChanTx_none w c hch]; exact EffStep.refl w
  | some ch =>
    have e : w.dropChanTx c = chanUpd w c ch { ch with txAlive := false, reg := false } := by
      simp only [dropChanTx, hch, chanUpd]
    rw [e]
    have f := chanUpd_uframe w c ch { ch with txAlive := false, reg := false }
    refine ⟨f, fun _ => ?_⟩
    have h1 := chanUpd_opsPot w c ch { ch with txAlive := false, reg := false }
    have h2 : stSum (chanUpd w c ch { ch with txAlive := false, reg := false }) ≤ stSum w := by
      refine stSum_le f.streams_eq f.held_eq (fun id _ => ?_)
      by_cases hne : id = c
      · subst hne
        have := stCost_chanUpd_self w id ch { ch with txAlive := false, reg := false } hch rfl
          (fun h => by cases h) 0 (fun _ _ h => by cases h)
        simpa using this
      · exact Nat.le_of_eq (stCost_chanUpd_other w c ch { ch with txAlive := false, reg := false } id hne)
    have h3 : bufSum (chanUpd w c ch { ch with txAlive := false, reg := false }) = bufSum w := by
      unfold bufSum
      rw [chanUpd_chans]
      exact bufs_setAssoc_same c ch _ w.chans hch rfl
    unfold phiU stPot; omega

/-! ## a handler's effects -/

theorem effStep_of_eq {w w' : World} (h1 : w'.task = w.task) (h2 : w'.rx = w.rx) (h3 : w'.reader = w.reader)
    (h4 : w'.handles = w.handles) (h5 : w'.ops = w.ops) (h6 : w'.held = w.held) (h7 : w'.streams = w.streams)
    (h8 : w'.woken = w.woken) (h9 : w'.slotReg = w.slotReg) (h10 : w'.slots = w.slots) (h11 : w'.chans = w.chans) :
    EffStep 0 w w' := by
  refine ⟨⟨h1, h2, h3, h4, h5, h6, h7, by rw [h8], fun s hs => by rw [← h9]; exact hs⟩, fun _ => ?_⟩
  have a := opsPot_congr h5 h6 h8 h10
  have b := stPot_congr h7 h6 (fun n => by rw [h8]) h11
  unfold phiU; omega

theorem writeBytes_effStep (w : World) (bs : Bytes) : EffStep 0 w (w.writeBytes bs) :=
  effStep_of_eq (by simp) (by simp) (by simp) (by simp) (by simp) (by simp) (by simp) (by simp) (by simp) (by simp)
    (by simp)

def nDeliver (es : List Eff) : Nat := (deliversOf es).length

theorem nDeliver_cons (e : Eff) (t : List Eff) : nDeliver (e :: t) = nDeliver [e] + nDeliver t := by
  cases e <;> simp [nDeliver, deliversOf] <;> omega

theorem applyEff_effStep (w : World) (e : Eff) : EffStep (2 * nDeliver [e]) w (w.applyEff e) := by
  cases e with
  | write bs => exact (writeBytes_effStep w bs).mono (by omega)
  | send s v => exact (sendSlot_effStep w s v).mono (by omega)
  | dropSlot s => exact (dropSlotTx_effStep w s).mono (by omega)
  | deliver c p => exact (deliver_effStep w c p).mono (by simp [nDeliver, deliversOf])
  | dropChan c => exact (dropChanTx_effStep w c).mono (by omega)

theorem applyEffs_effStep (w : World) (es : List Eff) : EffStep (2 * nDeliver es) w (w.applyEffs es) := by
  induction es generalizing w with
  | nil => exact EffStep.refl w
  | cons e t ih =>
    have h1 := applyEff_effStep w e
    have h2 := ih (w.applyEff e)
    have := h1.trans h2
    rw [nDeliver_cons]
    exact this.mono (by omega)

theorem runHandler_effStep (w : World) (h : Bool → Ctx × List Eff × Flow) (d : Nat)
    (hd : ∀ b, 2 * nDeliver (h b).2.1 ≤ d) : EffStep d w (w.runHandler h).1 := by
  rw [runHandler_eq]
  simp only
  have h0 : EffStep 0 w ({ w with c := (h (w.canWrite (writeNeed (h true).2.1))).1 } : World) :=
    effStep_of_eq rfl rfl rfl rfl rfl rfl rfl rfl rfl rfl rfl
  exact (h0.trans (applyEffs_effStep _ _)).mono (by have := hd (w.canWrite (writeNeed (h true).2.1)); omega)

theorem handleMsg_nDeliver (c : Ctx) (m : Msg) (wok : Bool) : nDeliver (c.handleMsg m wok).2.1 = 0 := by
  cases m with
  | ff pkt slot =>
    simp only [Ctx.handleMsg]
    split
    · rfl
    · split <;> rfl
  | awaitAck aid pkt slot =>
    simp only [Ctx.handleMsg]
    split
    · rfl
    · split
      · split
        · rfl
        · split <;> rfl
      · split
        · split <;> rfl
        · split <;> rfl
  | subscribe aid sid pkt slot ch =>
    simp only [Ctx.handleMsg]
    split <;> rfl

theorem dispatch_nDeliver (alive : Nat → Bool) (p : PublishRx) (sids : List Nat) (subs : List (Nat × Nat)) :
    nDeliver (Ctx.dispatch alive p sids subs).2 ≤ sids.length := by
  induction sids generalizing subs with
  | nil => simp [Ctx.dispatch, nDeliver, deliversOf]
  | cons sid rest ih =>
    simp only [Ctx.dispatch]
    split
    · have := ih subs; simp only [List.length_cons]; omega
    · split
      · have := ih subs
        rw [nDeliver_cons]
        simp only [List.length_cons]
        simp only [nDeliver, deliversOf, List.filterMap_cons, List.filterMap_nil, List.length_cons,
          List.length_nil] at *
        omega
      · have := ih (eraseFirst sid subs)
        rw [nDeliver_cons]
        simp only [List.length_cons]
        simp only [nDeliver, deliversOf, List.filterMap_cons, List.filterMap_nil, List.length_cons,
          List.length_nil] at *
        omega

/-- the number of subscription identifiers of an inbound packet -/
def subIdCount : RxPacket → Nat
  | .publish pb => pb.subIds.length
  | _ => 0

theorem nDeliver_append (a b : List Eff) : nDeliver (a ++ b) = nDeliver a + nDeliver b := by
  simp [nDeliver]

theorem complete_nDeliver (c : Ctx) (aid : Nat) (p : RxPacket) : nDeliver (c.complete aid p).2 = 0 := by
  simp [nDeliver]

theorem handlePkt_nDeliver (c : Ctx) (alive : Nat → Bool) (p : RxPacket) (wok : Bool) :
    nDeliver (c.handlePkt alive p wok).2.1 ≤ subIdCount p := by
  cases p with
  | publish pb =>
    obtain ⟨effs0, h0, h1, _⟩ := Ctx.handlePkt_publish c alive pb wok
    simp only [subIdCount]
    by_cases hr : (pb.qos = 2 ∧ pb.packetId.getD 0 ∈ c.inQos2)
    · have : nDeliver (c.handlePkt alive (.publish pb) wok).2.1 = 0 := by
        cases hp : pb.packetId <;> simp [Ctx.handlePkt, hr, hp, nDeliver, deliversOf] <;> simp_all
      omega
    · have e : nDeliver (c.handlePkt alive (.publish pb) wok).2.1 =
          nDeliver (Ctx.dispatch alive pb pb.subIds c.subs).2 := by
        cases hp : pb.packetId <;> by_cases h2 : pb.qos = 2 <;>
          simp_all [Ctx.handlePkt, nDeliver]
      rw [e]
      exact dispatch_nDeliver _ _ _ _
  | disconnect d => simp [Ctx.handlePkt, nDeliver, subIdCount]
  | connack k => simp [Ctx.handlePkt, nDeliver, subIdCount]
  | auth k => simp [Ctx.handlePkt, nDeliver, subIdCount]
  | puback a => simp [Ctx.handlePkt, nDeliver, subIdCount]
  | pubrec a => simp [Ctx.handlePkt, nDeliver, subIdCount]
  | pubcomp a => simp [Ctx.handlePkt, nDeliver, subIdCount]
  | suback a => simp [Ctx.handlePkt, nDeliver, subIdCount]
  | unsuback a => simp [Ctx.handlePkt, nDeliver, subIdCount]
  | pingresp => simp [Ctx.handlePkt, nDeliver, subIdCount]
  | pubrel a => simp [Ctx.handlePkt, nDeliver, subIdCount, deliversOf]

theorem decodeRx_subIdCount (fr : Bytes) (p : RxPacket) (h : decodeRx fr = .ok p) : 2 * subIdCount p ≤ fr.length := by
  cases p with
  | publish pb => exact decodeRx_publish_subIds_len fr pb h
  | _ => simp [subIdCount]

end W5
end World
end Poster
