/-
  Lemmas/CtxPkt.lean — one call of `handle_packet` / `handle_message`, case by case, in the form the property files use:
  what is written, what is delivered, which components of the state change.
  Also the two history projections of C08 (`pktWrites`, `pktOwed`).
-/
import PosterModel.Lemmas.CtxBasic

set_option linter.unusedVariables false
set_option linter.unusedSimpArgs false

namespace Poster

/-! ## C08 vocabulary: acknowledgements written / owed for the handled packets of a history, in order -/

/-- what was written while handling one inbound packet (nothing is counted for an application request) -/
def obsWrites : CObs → List Bytes
  | .pkt _ effs _ => writesOf effs
  | .msg _ _ _ => []

/-- the acknowledgement owed for one handled inbound packet -/
def obsOwed : CObs → List Bytes
  | .pkt p _ _ => ackOwed p
  | .msg _ _ _ => []

/-- everything written while handling inbound packets, in order -/
def pktWrites (t : List CObs) : List Bytes := t.flatMap obsWrites

/-- every acknowledgement owed for the inbound packets handled, in arrival order -/
def pktOwed (t : List CObs) : List Bytes := t.flatMap obsOwed

theorem ackOwed_publish_none (pb : PublishRx) (h : pb.packetId = none) : ackOwed (.publish pb) = [] := by
  unfold ackOwed; simp only [h]; split <;> simp_all

theorem ackOwed_publish_q1 (pb : PublishRx) (pid : Nat) (hq : pb.qos = 1) (h : pb.packetId = some pid) :
    ackOwed (.publish pb) = [ackBytes 0x40 pid] := by
  unfold ackOwed; simp only [h, hq]

theorem ackOwed_publish_q2 (pb : PublishRx) (pid : Nat) (hq : pb.qos = 2) (h : pb.packetId = some pid) :
    ackOwed (.publish pb) = [ackBytes 0x50 pid] := by
  unfold ackOwed; simp only [h, hq]

namespace Ctx

/-! ## the PUBLISH arm -/

/-- a QoS 2 PUBLISH whose identifier is pending: PUBREC again, nothing else -/
theorem handlePkt_publish_redelivered (c : Ctx) (alive : Nat → Bool) (pb : PublishRx) (wok : Bool) (pid : Nat)
    (hq : pb.qos = 2) (hp : pb.packetId = some pid) (hin : pid ∈ c.inQos2) :
    c.handlePkt alive (.publish pb) wok =
      (c, [.write (ackBytes 0x50 pid)], if wok then .cont else .exitSocket) := by
  simp [handlePkt, hq, hp, hin]

/-- a QoS 2 PUBLISH whose identifier is not pending: recorded, dispatched, PUBREC -/
theorem handlePkt_publish_first (c : Ctx) (alive : Nat → Bool) (pb : PublishRx) (wok : Bool) (pid : Nat)
    (hq : pb.qos = 2) (hp : pb.packetId = some pid) (hout : pid ∉ c.inQos2) :
    c.handlePkt alive (.publish pb) wok =
      ({ c with inQos2 := c.inQos2 ++ [pid], subs := (dispatch alive pb pb.subIds c.subs).1 },
       (dispatch alive pb pb.subIds c.subs).2 ++ [.write (ackBytes 0x50 pid)],
       if wok then .cont else .exitSocket) := by
  simp [handlePkt, hq, hp, hout]

/-- a PUBLISH of QoS 0 or 1: dispatched, acknowledged if it has an identifier -/
theorem handlePkt_publish_other (c : Ctx) (alive : Nat → Bool) (pb : PublishRx) (wok : Bool) (hq : pb.qos ≠ 2) :
    c.handlePkt alive (.publish pb) wok =
      match pb.packetId with
      | none => ({ c with subs := (dispatch alive pb pb.subIds c.subs).1 }, (dispatch alive pb pb.subIds c.subs).2, .cont)
      | some pid =>
        ({ c with subs := (dispatch alive pb pb.subIds c.subs).1 },
         (dispatch alive pb pb.subIds c.subs).2 ++ [.write (ackBytes (if pb.qos = 1 then 0x40 else 0x50) pid)],
         if wok then .cont else .exitSocket) := by
  cases hp : pb.packetId <;> simp [handlePkt, hq, hp]

/-- what the PUBLISH arm writes, in every case -/
theorem handlePkt_publish_writes (c : Ctx) (alive : Nat → Bool) (pb : PublishRx) (wok : Bool) :
    writesOf (c.handlePkt alive (.publish pb) wok).2.1 =
      match pb.packetId with
      | none => []
      | some pid => [ackBytes (if pb.qos = 1 then 0x40 else 0x50) pid] := by
  by_cases hq : pb.qos = 2
  · cases hp : pb.packetId with
    | none =>
      by_cases hin : (0 : Nat) ∈ c.inQos2 <;> simp [handlePkt, hq, hp, hin]
    | some pid =>
      by_cases hin : pid ∈ c.inQos2
      · rw [handlePkt_publish_redelivered c alive pb wok pid hq hp hin]; simp [hq]
      · rw [handlePkt_publish_first c alive pb wok pid hq hp hin]; simp [hq]
  · rw [handlePkt_publish_other c alive pb wok hq]
    cases hp : pb.packetId <;> simp

/-- the components of the state the PUBLISH arm never touches -/
theorem handlePkt_publish_frame (c : Ctx) (alive : Nat → Bool) (pb : PublishRx) (wok : Bool) :
    let c' := (c.handlePkt alive (.publish pb) wok).1
    c'.quota = c.quota ∧ c'.recvMax = c.recvMax ∧ c'.retx = c.retx ∧ c'.awaiting = c.awaiting ∧ c'.maxPkt = c.maxPkt := by
  by_cases hq : pb.qos = 2
  · cases hp : pb.packetId with
    | none =>
      by_cases hin : (0 : Nat) ∈ c.inQos2 <;> simp [handlePkt, hq, hp, hin]
    | some pid =>
      by_cases hin : pid ∈ c.inQos2
      · rw [handlePkt_publish_redelivered c alive pb wok pid hq hp hin]; simp
      · rw [handlePkt_publish_first c alive pb wok pid hq hp hin]; simp
  · rw [handlePkt_publish_other c alive pb wok hq]
    cases hp : pb.packetId <;> simp

/-- `inbound_qos2` after the PUBLISH arm -/
theorem handlePkt_publish_inQos2 (c : Ctx) (alive : Nat → Bool) (pb : PublishRx) (wok : Bool) :
    (c.handlePkt alive (.publish pb) wok).1.inQos2 =
      if pb.qos = 2 ∧ pb.packetId.getD 0 ∉ c.inQos2 then c.inQos2 ++ [pb.packetId.getD 0] else c.inQos2 := by
  by_cases hq : pb.qos = 2
  · cases hp : pb.packetId with
    | none =>
      by_cases hin : (0 : Nat) ∈ c.inQos2 <;> simp [handlePkt, hq, hp, hin]
    | some pid =>
      by_cases hin : pid ∈ c.inQos2
      · rw [handlePkt_publish_redelivered c alive pb wok pid hq hp hin]; simp [hq, hin]
      · rw [handlePkt_publish_first c alive pb wok pid hq hp hin]; simp [hq, hin]
  · rw [handlePkt_publish_other c alive pb wok hq]
    cases hp : pb.packetId <;> simp [hq]

/-! ## all arms: writes, quota, retransmit queue, inbound QoS 2 set -/

/-- what `handle_packet` writes -/
theorem handlePkt_writes (c : Ctx) (alive : Nat → Bool) (p : RxPacket) (wok : Bool) :
    writesOf (c.handlePkt alive p wok).2.1 =
      match p with
      | .publish pb =>
        (match pb.packetId with
         | none => []
         | some pid => [ackBytes (if pb.qos = 1 then 0x40 else 0x50) pid])
      | .pubrel a => [ackBytes 0x70 a.packetId]
      | _ => [] := by
  cases p with
  | publish pb => exact handlePkt_publish_writes c alive pb wok
  | _ => simp [handlePkt]

/-- the retransmit queue after `handle_packet` -/
theorem handlePkt_retx (c : Ctx) (alive : Nat → Bool) (p : RxPacket) (wok : Bool) :
    (c.handlePkt alive p wok).1.retx =
      match p with
      | .puback a => eraseFirst (actionId 4 a.packetId) c.retx
      | .pubrec a => eraseFirst (actionId 5 a.packetId) c.retx
      | .pubcomp a => eraseFirst (actionId 7 a.packetId) c.retx
      | _ => c.retx := by
  cases p with
  | publish pb => exact (handlePkt_publish_frame c alive pb wok).2.2.1
  | pubrec a => simp only [handlePkt]; split <;> simp
  | _ => simp [handlePkt]

/-- `remote_receive_maximum` never changes while serving -/
theorem handlePkt_recvMax (c : Ctx) (alive : Nat → Bool) (p : RxPacket) (wok : Bool) :
    (c.handlePkt alive p wok).1.recvMax = c.recvMax := by
  cases p with
  | publish pb => exact (handlePkt_publish_frame c alive pb wok).2.1
  | pubrec a => simp only [handlePkt]; split <;> simp
  | _ => simp [handlePkt]

/-- the send quota after `handle_packet` -/
theorem handlePkt_quota (c : Ctx) (alive : Nat → Bool) (p : RxPacket) (wok : Bool) :
    (c.handlePkt alive p wok).1.quota =
      match p with
      | .puback _ => c.bump.quota
      | .pubcomp _ => c.bump.quota
      | .pubrec a => if a.reason ≥ 128 then c.bump.quota else c.quota
      | _ => c.quota := by
  cases p with
  | publish pb => exact (handlePkt_publish_frame c alive pb wok).1
  | pubrec a => simp only [handlePkt]; split <;> simp
  | _ => simp [handlePkt]

/-- `remote_max_packet_size` never changes while serving -/
theorem handlePkt_maxPkt (c : Ctx) (alive : Nat → Bool) (p : RxPacket) (wok : Bool) :
    (c.handlePkt alive p wok).1.maxPkt = c.maxPkt := by
  cases p with
  | publish pb => exact (handlePkt_publish_frame c alive pb wok).2.2.2.2
  | pubrec a => simp only [handlePkt]; split <;> simp
  | _ => simp [handlePkt]

/-- `inbound_qos2` after `handle_packet` -/
theorem handlePkt_inQos2 (c : Ctx) (alive : Nat → Bool) (p : RxPacket) (wok : Bool) :
    (c.handlePkt alive p wok).1.inQos2 =
      match p with
      | .publish pb =>
        if pb.qos = 2 ∧ pb.packetId.getD 0 ∉ c.inQos2 then c.inQos2 ++ [pb.packetId.getD 0] else c.inQos2
      | .pubrel a => c.inQos2.filter (· ≠ a.packetId)
      | _ => c.inQos2 := by
  cases p with
  | publish pb => exact handlePkt_publish_inQos2 c alive pb wok
  | pubrec a => simp only [handlePkt]; split <;> simp
  | _ => simp [handlePkt]

/-! ## `handle_message` -/

/-- `handle_message` never touches these -/
theorem handleMsg_frame (c : Ctx) (m : Msg) (wok : Bool) :
    (c.handleMsg m wok).1.recvMax = c.recvMax ∧ (c.handleMsg m wok).1.maxPkt = c.maxPkt ∧
    (c.handleMsg m wok).1.inQos2 = c.inQos2 := by
  cases m <;> simp only [handleMsg] <;> (repeat' split) <;> simp

end Ctx
end Poster
