/-
  Lemmas/CodecRx.lean — helper lemmas for C02: the code-shaped decoders (Prim/Props/Rx) read back what the
  specification encoders (Spec/Server) wrote.

    * one round-trip lemma per primitive: `dX (sX v ++ r) = .ok (v, r)` under the range hypothesis of `X`
    * `dProp_sProp`: one property, for all 27 identifiers
    * `foldProps_sProps`: ONE generic lemma about the property loop — decoding the bytes of a legal list and handing
      each property to a builder `step` is the plain fold `foldO step` over the list
-/
import PosterModel.Spec.Server

namespace Poster
open Spec Spec.Server

/-! ## lengths -/

@[simp] theorem sU8_length (n : Nat) : (sU8 n).length = 1 := rfl
@[simp] theorem sU16_length (n : Nat) : (sU16 n).length = 2 := rfl
@[simp] theorem sU32_length (n : Nat) : (sU32 n).length = 4 := rfl
@[simp] theorem sStr_length (s : Bytes) : (sStr s).length = 2 + s.length := by simp [sStr]
@[simp] theorem sPair_length (k v : Bytes) : (sPair k v).length = 4 + k.length + v.length := by
  simp [sPair]; omega

/-- the four shapes of a canonical variable byte integer -/
theorem sVar_cases (n : Nat) (h : n ≤ 268435455) :
    (n < 128 ∧ sVar n = [UInt8.ofNat (n % 128)]) ∨
    (128 ≤ n ∧ n < 16384 ∧ sVar n = [UInt8.ofNat (n % 128 + 128), UInt8.ofNat (n / 128 % 128)]) ∨
    (16384 ≤ n ∧ n < 2097152 ∧
      sVar n = [UInt8.ofNat (n % 128 + 128), UInt8.ofNat (n / 128 % 128 + 128), UInt8.ofNat (n / 128 / 128 % 128)]) ∨
    (2097152 ≤ n ∧
      sVar n = [UInt8.ofNat (n % 128 + 128), UInt8.ofNat (n / 128 % 128 + 128),
                UInt8.ofNat (n / 128 / 128 % 128 + 128), UInt8.ofNat (n / 128 / 128 / 128 % 128)]) := by
  by_cases h1 : n < 128
  · left
    have : ¬ n / 128 > 0 := by omega
    simp [sVar, sVarLoop, this, h1]
  · right
    have g1 : n / 128 > 0 := by omega
    by_cases h2 : n < 16384
    · left
      have : ¬ n / 128 / 128 > 0 := by omega
      simp [sVar, sVarLoop, g1, this, h2]; omega
    · right
      have g2 : n / 128 / 128 > 0 := by omega
      by_cases h3 : n < 2097152
      · left
        have : ¬ n / 128 / 128 / 128 > 0 := by omega
        simp [sVar, sVarLoop, g1, g2, this, h3]; omega
      · right
        have g3 : n / 128 / 128 / 128 > 0 := by omega
        have : ¬ n / 128 / 128 / 128 / 128 > 0 := by omega
        simp [sVar, sVarLoop, g1, g2, g3, this]; omega

theorem sVar_length_pos (n : Nat) : 1 ≤ (sVar n).length := by
  simp only [sVar, sVarLoop]; split <;> simp

theorem sVar_length_le (n : Nat) (h : n ≤ 268435455) : (sVar n).length ≤ 4 := by
  rcases sVar_cases n h with ⟨_, e⟩ | ⟨_, _, e⟩ | ⟨_, _, e⟩ | ⟨_, e⟩ <;> simp [e]

/-! ## primitives -/

theorem tryDec_append {α} {dec : Bytes → Res α} {len : α → Nat} {e r : Bytes} {v : α}
    (hd : dec (e ++ r) = .ok v) (hl : len v = e.length) : tryDec dec len (e ++ r) = .ok (v, r) := by
  simp [tryDec, hd, hl]

theorem dU8_s (n : Nat) (h : n < 256) (r : Bytes) : dU8 (sU8 n ++ r) = .ok (n, r) := by
  apply tryDec_append
  · simp [sU8, decU8]; omega
  · rfl

theorem dU16_s (n : Nat) (h : n < 65536) (r : Bytes) : dU16 (sU16 n ++ r) = .ok (n, r) := by
  apply tryDec_append
  · simp [sU16, decU16]; omega
  · rfl

theorem dNzU16_s (n : Nat) (h0 : 0 < n) (h : n < 65536) (r : Bytes) : dNzU16 (sU16 n ++ r) = .ok (n, r) := by
  apply tryDec_append
  · have : (n / 256 % 256) * 256 + n % 256 = n := by omega
    have hn : ¬ n = 0 := by omega
    simp [sU16, decNzU16, decU16, this, hn]
  · rfl

theorem dU32_s (n : Nat) (h : n < 4294967296) (r : Bytes) : dU32 (sU32 n ++ r) = .ok (n, r) := by
  apply tryDec_append
  · simp [sU32, decU32]; omega
  · rfl

theorem dNzU32_s (n : Nat) (h0 : 0 < n) (h : n < 4294967296) (r : Bytes) : dNzU32 (sU32 n ++ r) = .ok (n, r) := by
  apply tryDec_append
  · have : (((n / 16777216 % 256) * 256 + n / 65536 % 256) * 256 + n / 256 % 256) * 256 + n % 256 = n := by omega
    have hn : ¬ n = 0 := by omega
    simp [sU32, decNzU32, decU32, this, hn]
  · rfl

theorem dBool_s (b : Bool) (r : Bytes) : dBool (sU8 (if b then 1 else 0) ++ r) = .ok (b, r) := by
  apply tryDec_append
  · cases b <;> simp [sU8, decBool]
  · rfl

theorem dQoS_s (n : Nat) (h : n ≤ 2) (r : Bytes) : dQoS (sU8 n ++ r) = .ok (n, r) := by
  apply tryDec_append
  · have h1 : n % 256 = n := by omega
    simp [sU8, decQoS, h1, h]
  · rfl

theorem decVar_s (n : Nat) (h : n ≤ 268435455) (r : Bytes) : decVar (sVar n ++ r) = .ok n (sVar n).length := by
  rcases sVar_cases n h with ⟨c1, e⟩ | ⟨c1, c2, e⟩ | ⟨c1, c2, e⟩ | ⟨c1, e⟩ <;> rw [e]
  · have h1 : n % 128 % 256 < 128 := by omega
    simp [decVar, decVarAux, varMax, h1]; omega
  · have h1 : ¬ (n % 128 + 128) % 256 < 128 := by omega
    have h2 : n / 128 % 128 % 256 < 128 := by omega
    simp [decVar, decVarAux, varMax, h1, h2]; omega
  · have h1 : ¬ (n % 128 + 128) % 256 < 128 := by omega
    have h2 : ¬ (n / 128 % 128 + 128) % 256 < 128 := by omega
    have h3 : n / 128 / 128 % 128 % 256 < 128 := by omega
    simp [decVar, decVarAux, varMax, h1, h2, h3]; omega
  · have h1 : ¬ (n % 128 + 128) % 256 < 128 := by omega
    have h2 : ¬ (n / 128 % 128 + 128) % 256 < 128 := by omega
    have h3 : ¬ (n / 128 / 128 % 128 + 128) % 256 < 128 := by omega
    have h4 : n / 128 / 128 / 128 % 128 % 256 < 128 := by omega
    simp [decVar, decVarAux, varMax, h1, h2, h3, h4]; omega

theorem dVar_s (n : Nat) (h : n ≤ 268435455) (r : Bytes) :
    dVar (sVar n ++ r) = .ok ((n, (sVar n).length), r) := by
  apply tryDec_append
  · simp [decVarR, decVar_s n h r]
  · rfl

theorem dNzVar_s (n : Nat) (h : n ≤ 268435455) (r : Bytes) :
    dNzVar (sVar n ++ r) = .ok ((n, (sVar n).length), r) := by
  apply tryDec_append
  · simp [decNzVar, decVarR, decVar_s n h r]
  · rfl

theorem decBin_s (s : Bytes) (h : s.length ≤ 65535) (r : Bytes) : decBin (sStr s ++ r) = .ok s := by
  have e : (s.length / 256 % 256) * 256 + s.length % 256 = s.length := by omega
  simp [sStr, sU16, decBin, e]

theorem dBin_s (s : Bytes) (h : s.length ≤ 65535) (r : Bytes) : dBin (sStr s ++ r) = .ok (s, r) := by
  apply tryDec_append
  · exact decBin_s s h r
  · simp [strLen]

theorem decStr_s (s : Bytes) (h : strOk s = true) (r : Bytes) : decStr (sStr s ++ r) = .ok s := by
  simp only [strOk, Bool.and_eq_true, decide_eq_true_eq] at h
  simp [decStr, decBin_s s h.1 r, h.2]

theorem dStr_s (s : Bytes) (h : strOk s = true) (r : Bytes) : dStr (sStr s ++ r) = .ok (s, r) := by
  apply tryDec_append
  · exact decStr_s s h r
  · simp [strLen]

theorem dPair_s (k v : Bytes) (hk : strOk k = true) (hv : strOk v = true) (r : Bytes) :
    dPair (sPair k v ++ r) = .ok ((k, v), r) := by
  apply tryDec_append
  · have e : (sStr k ++ (sStr v ++ r)).drop (2 + k.length) = sStr v ++ r := by
      rw [List.drop_left']; simp
    simp only [decPair, sPair, List.append_assoc, decStr_s k hk, Res.bind_ok, e, decStr_s v hv]
  · simp [pairLen]

theorem dReason_s (ok : Nat → Bool) (n : Nat) (h : n < 256) (hok : ok n = true) (r : Bytes) :
    dReason ok (sU8 n ++ r) = .ok (n, r) := by
  unfold dReason
  apply tryDec_append
  · have h1 : n % 256 = n := by omega
    simp [sU8, decU8, h1, hok]
  · rfl

/-! ## one property -/

theorem valOk_wireType {id : Nat} {v : PVal} (h : valOk id v = true) : id < 128 ∧ (wireType id).isSome := by
  unfold valOk at h
  split at h <;> first | (exact ⟨by omega, rfl⟩) | (simp at h)

theorem sVar_small (n : Nat) (h : n < 128) : sVar n = [UInt8.ofNat n] := by
  have : ¬ n / 128 > 0 := by omega
  have e : n % 128 = n := by omega
  simp [sVar, sVarLoop, this, e]

/-- a property whose value the kind's decoder reads back is read back as a whole -/
theorem dProp_of_dVal (id : Nat) (hid : id < 128) (k : PKind) (hk : propKind id = some k) (t : WireType)
    (ht : wireType id = some t) (v : PVal) (r : Bytes)
    (hv : dVal k (sVal t v ++ r) = .ok (v, r)) (hl : valLen v k = (sVal t v).length) :
    dProp (sProp ⟨id, v⟩ ++ r) = .ok (⟨id, v⟩, r) := by
  have e : sProp ⟨id, v⟩ = sU8 id ++ sVal t v := by simp [sProp, ht, sVar_small id hid, sU8]
  unfold dProp
  apply tryDec_append
  · simp [e, decProp, dU8_s id (by omega), hk, hv, Res.map]
  · simp [e, propLen, hk, hl]

theorem dVal_flag (b : Bool) (r : Bytes) : dVal .bool (sVal .byte (.bool b) ++ r) = .ok (.bool b, r) := by
  simp [dVal, sVal, dBool_s, Res.map]
theorem dVal_qos (n : Nat) (h : n ≤ 2) (r : Bytes) : dVal .qos (sVal .byte (.num n) ++ r) = .ok (.num n, r) := by
  simp [dVal, sVal, dQoS_s n h, Res.map]
theorem dVal_u16 (n : Nat) (h : n < 65536) (r : Bytes) :
    dVal .u16 (sVal .twoByte (.num n) ++ r) = .ok (.num n, r) := by
  simp [dVal, sVal, dU16_s n h, Res.map]
theorem dVal_nzu16 (n : Nat) (h0 : 0 < n) (h : n < 65536) (r : Bytes) :
    dVal .nzu16 (sVal .twoByte (.num n) ++ r) = .ok (.num n, r) := by
  simp [dVal, sVal, dNzU16_s n h0 h, Res.map]
theorem dVal_u32 (n : Nat) (h : n < 4294967296) (r : Bytes) :
    dVal .u32 (sVal .fourByte (.num n) ++ r) = .ok (.num n, r) := by
  simp [dVal, sVal, dU32_s n h, Res.map]
theorem dVal_nzu32 (n : Nat) (h0 : 0 < n) (h : n < 4294967296) (r : Bytes) :
    dVal .nzu32 (sVal .fourByte (.num n) ++ r) = .ok (.num n, r) := by
  simp [dVal, sVal, dNzU32_s n h0 h, Res.map]
theorem dVal_var (n : Nat) (h : n ≤ 268435455) (r : Bytes) :
    dVal .var (sVal .varInt (.var n (sVar n).length) ++ r) = .ok (.var n (sVar n).length, r) := by
  simp [dVal, sVal, dNzVar_s n h, Res.map]
theorem dVal_str (s : Bytes) (h : strOk s = true) (r : Bytes) :
    dVal .str (sVal .utf8 (.bytes s) ++ r) = .ok (.bytes s, r) := by
  simp [dVal, sVal, dStr_s s h, Res.map]
theorem dVal_bin (s : Bytes) (h : binOk s = true) (r : Bytes) :
    dVal .bin (sVal .binary (.bytes s) ++ r) = .ok (.bytes s, r) := by
  simp only [binOk, decide_eq_true_eq] at h
  simp [dVal, sVal, dBin_s s h, Res.map]
theorem dVal_pair (k v : Bytes) (hk : strOk k = true) (hv : strOk v = true) (r : Bytes) :
    dVal .pair (sVal .utf8Pair (.pair k v) ++ r) = .ok (.pair k v, r) := by
  simp [dVal, sVal, dPair_s k v hk hv, Res.map]

theorem dProp_flag (id : Nat) (hid : id < 128) (hk : propKind id = some .bool) (ht : wireType id = some .byte)
    (v : PVal) (h : isFlag v = true) (r : Bytes) : dProp (sProp ⟨id, v⟩ ++ r) = .ok (⟨id, v⟩, r) := by
  cases v <;> simp [isFlag] at h
  exact dProp_of_dVal id hid _ hk _ ht _ r (dVal_flag _ r) (by simp [valLen, sVal])

theorem dProp_qos (id : Nat) (hid : id < 128) (hk : propKind id = some .qos) (ht : wireType id = some .byte)
    (v : PVal) (h : isNum 0 1 v = true) (r : Bytes) : dProp (sProp ⟨id, v⟩ ++ r) = .ok (⟨id, v⟩, r) := by
  cases v <;> simp [isNum] at h
  exact dProp_of_dVal id hid _ hk _ ht _ r (dVal_qos _ (by omega) r) (by simp [valLen, sVal])

theorem dProp_u16 (id : Nat) (hid : id < 128) (hk : propKind id = some .u16) (ht : wireType id = some .twoByte)
    (v : PVal) (h : isNum 0 65535 v = true) (r : Bytes) : dProp (sProp ⟨id, v⟩ ++ r) = .ok (⟨id, v⟩, r) := by
  cases v <;> simp [isNum] at h
  exact dProp_of_dVal id hid _ hk _ ht _ r (dVal_u16 _ (by omega) r) (by simp [valLen, sVal])

theorem dProp_nzu16 (id : Nat) (hid : id < 128) (hk : propKind id = some .nzu16) (ht : wireType id = some .twoByte)
    (v : PVal) (h : isNum 1 65535 v = true) (r : Bytes) : dProp (sProp ⟨id, v⟩ ++ r) = .ok (⟨id, v⟩, r) := by
  cases v <;> simp [isNum] at h
  exact dProp_of_dVal id hid _ hk _ ht _ r (dVal_nzu16 _ (by omega) (by omega) r) (by simp [valLen, sVal])

theorem dProp_u32 (id : Nat) (hid : id < 128) (hk : propKind id = some .u32) (ht : wireType id = some .fourByte)
    (v : PVal) (h : isNum 0 4294967295 v = true) (r : Bytes) : dProp (sProp ⟨id, v⟩ ++ r) = .ok (⟨id, v⟩, r) := by
  cases v <;> simp [isNum] at h
  exact dProp_of_dVal id hid _ hk _ ht _ r (dVal_u32 _ (by omega) r) (by simp [valLen, sVal])

theorem dProp_nzu32 (id : Nat) (hid : id < 128) (hk : propKind id = some .nzu32) (ht : wireType id = some .fourByte)
    (v : PVal) (h : isNum 1 4294967295 v = true) (r : Bytes) : dProp (sProp ⟨id, v⟩ ++ r) = .ok (⟨id, v⟩, r) := by
  cases v <;> simp [isNum] at h
  exact dProp_of_dVal id hid _ hk _ ht _ r (dVal_nzu32 _ (by omega) (by omega) r) (by simp [valLen, sVal])

theorem dProp_var (id : Nat) (hid : id < 128) (hk : propKind id = some .var) (ht : wireType id = some .varInt)
    (v : PVal) (h : isSubId v = true) (r : Bytes) : dProp (sProp ⟨id, v⟩ ++ r) = .ok (⟨id, v⟩, r) := by
  cases v <;> simp [isSubId, varIntMax] at h
  obtain ⟨⟨_, h2⟩, rfl⟩ := h
  exact dProp_of_dVal id hid _ hk _ ht _ r (dVal_var _ (by simpa using h2) r) (by simp [valLen, sVal])

theorem dProp_str (id : Nat) (hid : id < 128) (hk : propKind id = some .str) (ht : wireType id = some .utf8)
    (v : PVal) (h : isStr v = true) (r : Bytes) : dProp (sProp ⟨id, v⟩ ++ r) = .ok (⟨id, v⟩, r) := by
  cases v <;> simp [isStr] at h
  exact dProp_of_dVal id hid _ hk _ ht _ r (dVal_str _ h r) (by simp [valLen, sVal, strLen])

theorem dProp_bin (id : Nat) (hid : id < 128) (hk : propKind id = some .bin) (ht : wireType id = some .binary)
    (v : PVal) (h : isBin v = true) (r : Bytes) : dProp (sProp ⟨id, v⟩ ++ r) = .ok (⟨id, v⟩, r) := by
  cases v <;> simp [isBin] at h
  exact dProp_of_dVal id hid _ hk _ ht _ r (dVal_bin _ h r) (by simp [valLen, sVal, strLen])

theorem dProp_pair (id : Nat) (hid : id < 128) (hk : propKind id = some .pair) (ht : wireType id = some .utf8Pair)
    (v : PVal) (h : isPair v = true) (r : Bytes) : dProp (sProp ⟨id, v⟩ ++ r) = .ok (⟨id, v⟩, r) := by
  cases v <;> simp [isPair] at h
  exact dProp_of_dVal id hid _ hk _ ht _ r (dVal_pair _ _ h.1 h.2 r) (by simp [valLen, sVal, pairLen])

/-- `decoder.try_decode::<Property>()` reads back a legal property and leaves the rest of the buffer
    (all 27 identifiers of the standard's table against the code's dispatch table). -/
theorem dProp_sProp (p : Property) (h : valOk p.id p.val = true) (r : Bytes) :
    dProp (sProp p ++ r) = .ok (p, r) := by
  obtain ⟨id, v⟩ := p
  simp only at h
  unfold valOk at h
  split at h
  · exact dProp_flag _ (by decide) rfl rfl v h r
  · exact dProp_u32 _ (by decide) rfl rfl v h r
  · exact dProp_str _ (by decide) rfl rfl v h r
  · exact dProp_str _ (by decide) rfl rfl v h r
  · exact dProp_bin _ (by decide) rfl rfl v h r
  · exact dProp_var _ (by decide) rfl rfl v h r
  · exact dProp_u32 _ (by decide) rfl rfl v h r
  · exact dProp_str _ (by decide) rfl rfl v h r
  · exact dProp_u16 _ (by decide) rfl rfl v h r
  · exact dProp_str _ (by decide) rfl rfl v h r
  · exact dProp_bin _ (by decide) rfl rfl v h r
  · exact dProp_flag _ (by decide) rfl rfl v h r
  · exact dProp_u32 _ (by decide) rfl rfl v h r
  · exact dProp_flag _ (by decide) rfl rfl v h r
  · exact dProp_str _ (by decide) rfl rfl v h r
  · exact dProp_str _ (by decide) rfl rfl v h r
  · exact dProp_str _ (by decide) rfl rfl v h r
  · exact dProp_nzu16 _ (by decide) rfl rfl v h r
  · exact dProp_u16 _ (by decide) rfl rfl v h r
  · exact dProp_nzu16 _ (by decide) rfl rfl v h r
  · exact dProp_qos _ (by decide) rfl rfl v h r
  · exact dProp_flag _ (by decide) rfl rfl v h r
  · exact dProp_pair _ (by decide) rfl rfl v h r
  · exact dProp_nzu32 _ (by decide) rfl rfl v h r
  · exact dProp_flag _ (by decide) rfl rfl v h r
  · exact dProp_flag _ (by decide) rfl rfl v h r
  · exact dProp_flag _ (by decide) rfl rfl v h r
  · simp at h

/-! ## the property loop -/

/-- the builder loop without the bytes: hand the properties to `step` one after another; `none` = a property the
    packet type does not take -/
def foldO {β} (step : β → Property → Option β) : β → List Property → Option β
  | b, [] => some b
  | b, p :: ps =>
    match step b p with
    | some b' => foldO step b' ps
    | none => none

def optRes {β} : Option β → Res β
  | some b => .ok b
  | none => .err

theorem sProp_length_pos (p : Property) (h : valOk p.id p.val = true) : 0 < (sProp p).length := by
  have h1 := (valOk_wireType h).1
  have h2 := (valOk_wireType h).2
  cases ht : wireType p.id with
  | none => simp [ht] at h2
  | some t => simp [sProp, ht, sVar_small p.id h1]

theorem foldProps_succ {β} (step : β → Property → Option β) (f : Nat) (bs : Bytes) (h : bs ≠ []) (b : β) :
    foldProps step (f + 1) bs b =
      match dProp bs with
      | .ok (p, r) =>
        match step b p with
        | some b' => foldProps step f r b'
        | none => .err
      | .err => .err
      | .panic => .panic := by
  cases bs with
  | nil => exact absurd rfl h
  | cons x t =>
    cases hd : dProp (x :: t) with
    | ok pr => obtain ⟨p, r⟩ := pr; cases hs : step b p <;> simp [foldProps, hd, hs]
    | err => simp [foldProps, hd]
    | panic => simp [foldProps, hd]

/-- **The generic property-loop lemma.** On the bytes of a list of legal properties (and enough fuel) the decoder's
    `for property in decoder.iter::<Property>() { builder.step(property) }` is the fold of `step` over the list. -/
theorem foldProps_sProps {β} (step : β → Property → Option β) (ps : List Property)
    (hok : ∀ p ∈ ps, valOk p.id p.val = true) (n : Nat) (hn : (sProps ps).length ≤ n) (b : β) :
    foldProps step n (sProps ps) b = optRes (foldO step b ps) := by
  induction ps generalizing n b with
  | nil => cases n <;> simp [sProps, foldProps, foldO, optRes]
  | cons p ps ih =>
    have hp := sProp_length_pos p (hok p (by simp))
    simp only [sProps, List.length_append] at hn ⊢
    cases n with
    | zero => omega
    | succ f =>
      have hne : sProp p ++ sProps ps ≠ [] := by
        intro hc; have := congrArg List.length hc
        simp only [List.length_append, List.length_nil] at this; omega
      rw [foldProps_succ step f _ hne, dProp_sProp p (hok p (by simp))]
      simp only [foldO]
      cases step b p with
      | none => simp [optRes]
      | some b' => exact ih (fun q hq => hok q (by simp [hq])) f (by omega) b'

/-! ## looking up values in a property list -/

@[simp] theorem find_nil (i : Nat) : find i [] = none := rfl
@[simp] theorem find_cons (i j : Nat) (v : PVal) (ps : List Property) :
    find i (⟨j, v⟩ :: ps) = if j = i then some v else find i ps := rfl

theorem find_none {i : Nat} {ps : List Property} (h : (ps.all fun q => q.id != i) = true) : find i ps = none := by
  induction ps with
  | nil => rfl
  | cons q qs ih =>
    obtain ⟨j, v⟩ := q
    simp only [List.all_cons, Bool.and_eq_true, bne_iff_ne, ne_eq] at h
    simp [h.1, ih h.2]

theorem getBool_none {i : Nat} {ps : List Property} (h : (ps.all fun q => q.id != i) = true) :
    getBool i ps = none := by simp [getBool, find_none h]
theorem getNum_none {i : Nat} {ps : List Property} (h : (ps.all fun q => q.id != i) = true) :
    getNum i ps = none := by simp [getNum, find_none h]
theorem getBytes_none {i : Nat} {ps : List Property} (h : (ps.all fun q => q.id != i) = true) :
    getBytes i ps = none := by simp [getBytes, find_none h]

@[simp] theorem getBool_nil (i : Nat) : getBool i [] = none := rfl
@[simp] theorem getNum_nil (i : Nat) : getNum i [] = none := rfl
@[simp] theorem getBytes_nil (i : Nat) : getBytes i [] = none := rfl
@[simp] theorem users_nil : users [] = [] := rfl
@[simp] theorem subIds_nil : subIds [] = [] := rfl

theorem getBool_cons_ne {i j : Nat} (v : PVal) (ps : List Property) (h : j ≠ i) :
    getBool i (⟨j, v⟩ :: ps) = getBool i ps := by simp [getBool, h]
theorem getNum_cons_ne {i j : Nat} (v : PVal) (ps : List Property) (h : j ≠ i) :
    getNum i (⟨j, v⟩ :: ps) = getNum i ps := by simp [getNum, h]
theorem getBytes_cons_ne {i j : Nat} (v : PVal) (ps : List Property) (h : j ≠ i) :
    getBytes i (⟨j, v⟩ :: ps) = getBytes i ps := by simp [getBytes, h]

@[simp] theorem getBool_cons_eq (i : Nat) (b : Bool) (ps : List Property) :
    getBool i (⟨i, .bool b⟩ :: ps) = some b := by simp [getBool]
@[simp] theorem getNum_cons_eq (i : Nat) (n : Nat) (ps : List Property) :
    getNum i (⟨i, .num n⟩ :: ps) = some n := by simp [getNum]
@[simp] theorem getBytes_cons_eq (i : Nat) (s : Bytes) (ps : List Property) :
    getBytes i (⟨i, .bytes s⟩ :: ps) = some s := by simp [getBytes]

@[simp] theorem users_cons_pair (k v : Bytes) (ps : List Property) :
    users (⟨38, .pair k v⟩ :: ps) = (k, v) :: users ps := by simp [users]
theorem users_cons_ne {j : Nat} (v : PVal) (ps : List Property) (h : j ≠ 38) :
    users (⟨j, v⟩ :: ps) = users ps := by
  cases v <;> simp [users, h]
@[simp] theorem subIds_cons_var (v l : Nat) (ps : List Property) :
    subIds (⟨11, .var v l⟩ :: ps) = v :: subIds ps := by simp [subIds]
theorem subIds_cons_ne {j : Nat} (v : PVal) (ps : List Property) (h : j ≠ 11) :
    subIds (⟨j, v⟩ :: ps) = subIds ps := by
  cases v <;> simp [subIds, h]

/-- `propsOk` of a non-empty list, taken apart -/
theorem propsOk_cons {legal multi : List Nat} {p : Property} {ps : List Property}
    (h : propsOk legal multi (p :: ps) = true) :
    legal.contains p.id = true ∧ valOk p.id p.val = true ∧
    (multi.contains p.id = true ∨ (ps.all fun q => q.id != p.id) = true) ∧ propsOk legal multi ps = true := by
  simp only [propsOk, List.all_cons, uniqueExcept, Bool.and_eq_true, Bool.or_eq_true] at h ⊢
  obtain ⟨⟨⟨h1, h2⟩, h3⟩, h4, h5⟩ := h
  exact ⟨h1, h2, h4, h3, h5⟩

theorem propsOk_valOk {legal multi : List Nat} {ps : List Property} (h : propsOk legal multi ps = true) :
    ∀ p ∈ ps, valOk p.id p.val = true := by
  intro p hp
  simp only [propsOk, Bool.and_eq_true, List.all_eq_true] at h
  exact (h.1 p hp).2

end Poster
