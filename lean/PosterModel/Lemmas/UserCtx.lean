/-
  Lemmas/UserCtx.lean — helper lemmas about the context's bookkeeping (`Ctx.handleMsg`, `Ctx.handlePkt`,
  `Ctx.complete`, `Ctx.dispatch`) used by the property files C05–C07.
-/
import PosterModel.CtxRun
import PosterModel.Lemmas.UserWorld

namespace Poster

/-- the action identifier a message registers in `awaiting`, if it registers one -/
def Msg.aid : Msg → Option Nat
  | .ff _ _ => none
  | .awaitAck aid _ _ => some aid
  | .subscribe aid _ _ _ _ => some aid

/-- the keys of `awaiting` other than the one all pings share -/
def nonPingKeys (l : List (Nat × Nat)) : List Nat := (l.map (·.1)).filter (· ≠ actionId 13 0)

namespace User

theorem filterMap_congr' {α β} {f g : α → Option β} {l : List α} (h : ∀ x ∈ l, f x = g x) :
    l.filterMap f = l.filterMap g := by
  induction l with
  | nil => rfl
  | cons a t ih =>
    simp only [List.filterMap_cons, h a List.mem_cons_self, ih fun x hx => h x (List.mem_cons_of_mem _ hx)]

/-! ### projections of effect lists -/

@[simp] theorem sendsOf_nil : sendsOf [] = [] := rfl
@[simp] theorem sendsOf_append (a b : List Eff) : sendsOf (a ++ b) = sendsOf a ++ sendsOf b := by
  simp [sendsOf, List.filterMap_append]
@[simp] theorem sendsOf_cons_send (s v) (t : List Eff) : sendsOf (.send s v :: t) = (s, v) :: sendsOf t := rfl
@[simp] theorem sendsOf_cons_write (b) (t : List Eff) : sendsOf (.write b :: t) = sendsOf t := rfl
@[simp] theorem sendsOf_cons_dropSlot (s) (t : List Eff) : sendsOf (.dropSlot s :: t) = sendsOf t := rfl
@[simp] theorem sendsOf_cons_deliver (c p) (t : List Eff) : sendsOf (.deliver c p :: t) = sendsOf t := rfl
@[simp] theorem sendsOf_cons_dropChan (c) (t : List Eff) : sendsOf (.dropChan c :: t) = sendsOf t := rfl

@[simp] theorem deliversOf_nil : deliversOf [] = [] := rfl
@[simp] theorem deliversOf_append (a b : List Eff) : deliversOf (a ++ b) = deliversOf a ++ deliversOf b := by
  simp [deliversOf, List.filterMap_append]
@[simp] theorem deliversOf_cons_deliver (c p) (t : List Eff) :
    deliversOf (.deliver c p :: t) = (c, p) :: deliversOf t := rfl
@[simp] theorem deliversOf_cons_send (s v) (t : List Eff) : deliversOf (.send s v :: t) = deliversOf t := rfl
@[simp] theorem deliversOf_cons_write (b) (t : List Eff) : deliversOf (.write b :: t) = deliversOf t := rfl
@[simp] theorem deliversOf_cons_dropSlot (s) (t : List Eff) : deliversOf (.dropSlot s :: t) = deliversOf t := rfl
@[simp] theorem deliversOf_cons_dropChan (c) (t : List Eff) : deliversOf (.dropChan c :: t) = deliversOf t := rfl

@[simp] theorem writesOf_nil : writesOf [] = [] := rfl
@[simp] theorem writesOf_append (a b : List Eff) : writesOf (a ++ b) = writesOf a ++ writesOf b := by
  simp [writesOf, List.filterMap_append]
@[simp] theorem writesOf_cons_write (b) (t : List Eff) : writesOf (.write b :: t) = b :: writesOf t := rfl
@[simp] theorem writesOf_cons_send (s v) (t : List Eff) : writesOf (.send s v :: t) = writesOf t := rfl
@[simp] theorem writesOf_cons_dropSlot (s) (t : List Eff) : writesOf (.dropSlot s :: t) = writesOf t := rfl
@[simp] theorem writesOf_cons_deliver (c p) (t : List Eff) : writesOf (.deliver c p :: t) = writesOf t := rfl
@[simp] theorem writesOf_cons_dropChan (c) (t : List Eff) : writesOf (.dropChan c :: t) = writesOf t := rfl

/-! ### the first byte of a packet -/

@[simp] theorem pktType_encU8_append (n : Nat) (rest : Bytes) : pktType (encU8 n ++ rest) = n % 256 / 16 := by
  simp [pktType, encU8, UInt8.toNat_ofNat']

theorem ackBytes_head (hdr pid : Nat) : ∃ rest, ackBytes hdr pid = UInt8.ofNat hdr :: rest := by
  simp [ackBytes, AckTx.encode, encU8]

theorem pktType_ackBytes (hdr pid : Nat) : pktType (ackBytes hdr pid) = hdr % 256 / 16 := by
  obtain ⟨rest, e⟩ := ackBytes_head hdr pid
  simp [e, pktType, UInt8.toNat_ofNat']

open Ctx

@[simp] theorem bump_awaiting (c : Ctx) : c.bump.awaiting = c.awaiting := by unfold bump; split <;> rfl
@[simp] theorem bump_subs (c : Ctx) : c.bump.subs = c.subs := by unfold bump; split <;> rfl
@[simp] theorem bump_inQos2 (c : Ctx) : c.bump.inQos2 = c.inQos2 := by unfold bump; split <;> rfl

theorem complete_some (c : Ctx) (aid : Nat) (p : RxPacket) (slot : Nat) (rest : List (Nat × Nat))
    (h : removeFirst aid c.awaiting = some (slot, rest)) :
    c.complete aid p = ({ c with awaiting := rest }, [.send slot (.pkt p)]) := by
  simp [complete, h]

theorem complete_none (c : Ctx) (aid : Nat) (p : RxPacket) (h : removeFirst aid c.awaiting = none) :
    c.complete aid p = (c, []) := by
  simp [complete, h]

@[simp] theorem complete_subs (c : Ctx) (aid : Nat) (p : RxPacket) : (c.complete aid p).1.subs = c.subs := by
  unfold complete; split <;> rfl

@[simp] theorem complete_writesOf (c : Ctx) (aid : Nat) (p : RxPacket) : writesOf (c.complete aid p).2 = [] := by
  unfold complete; split <;> rfl

@[simp] theorem complete_deliversOf (c : Ctx) (aid : Nat) (p : RxPacket) : deliversOf (c.complete aid p).2 = [] := by
  unfold complete; split <;> rfl

/-- what `complete` does, in terms of `removeFirst` on `awaiting` -/
theorem complete_cases (c : Ctx) (aid : Nat) (p : RxPacket) :
    (removeFirst aid c.awaiting = none ∧ (c.complete aid p).1.awaiting = c.awaiting ∧ (c.complete aid p).2 = []) ∨
    (∃ slot rest, removeFirst aid c.awaiting = some (slot, rest) ∧ (c.complete aid p).1.awaiting = rest ∧
      (c.complete aid p).2 = [.send slot (.pkt p)]) := by
  cases h : removeFirst aid c.awaiting with
  | none => left; simp [complete, h]
  | some r => obtain ⟨slot, rest⟩ := r; right; exact ⟨slot, rest, rfl, by simp [complete, h]⟩

/-! ### `dispatch` -/

theorem dispatch_nil (alive : Nat → Bool) (p : PublishRx) (subs : List (Nat × Nat)) :
    dispatch alive p [] subs = (subs, []) := rfl

theorem dispatch_cons_absent (alive : Nat → Bool) (p : PublishRx) (sid : Nat) (rest : List Nat)
    (subs : List (Nat × Nat)) (h : lookupFirst sid subs = none) :
    dispatch alive p (sid :: rest) subs = dispatch alive p rest subs := by
  simp [dispatch, h]

theorem dispatch_cons_alive (alive : Nat → Bool) (p : PublishRx) (sid ch : Nat) (rest : List Nat)
    (subs : List (Nat × Nat)) (h : lookupFirst sid subs = some ch) (ha : alive ch = true) :
    dispatch alive p (sid :: rest) subs =
      ((dispatch alive p rest subs).1, .deliver ch p :: (dispatch alive p rest subs).2) := by
  simp [dispatch, h, ha]

theorem dispatch_cons_dead (alive : Nat → Bool) (p : PublishRx) (sid ch : Nat) (rest : List Nat)
    (subs : List (Nat × Nat)) (h : lookupFirst sid subs = some ch) (ha : alive ch = false) :
    dispatch alive p (sid :: rest) subs =
      ((dispatch alive p rest (eraseFirst sid subs)).1,
       .dropChan ch :: (dispatch alive p rest (eraseFirst sid subs)).2) := by
  simp [dispatch, h, ha]

theorem dispatch_sendsOf (alive : Nat → Bool) (p : PublishRx) (sids : List Nat) (subs : List (Nat × Nat)) :
    sendsOf (dispatch alive p sids subs).2 = [] ∧ writesOf (dispatch alive p sids subs).2 = [] := by
  induction sids generalizing subs with
  | nil => exact ⟨rfl, rfl⟩
  | cons sid rest ih =>
    cases h : lookupFirst sid subs with
    | none => rw [dispatch_cons_absent _ _ _ _ _ h]; exact ih subs
    | some ch =>
      cases ha : alive ch with
      | true => rw [dispatch_cons_alive _ _ _ _ _ _ h ha]; simpa using ih subs
      | false => rw [dispatch_cons_dead _ _ _ _ _ _ h ha]; simpa using ih _

theorem lookupFirst_mem {β} (k : Nat) (v : β) (l : List (Nat × β)) (h : lookupFirst k l = some v) : (k, v) ∈ l := by
  rw [lookupFirst_eq_removeFirst, Option.map_eq_some_iff] at h
  obtain ⟨⟨v', l'⟩, h1, h2⟩ := h
  simp only at h2; subst h2
  obtain ⟨pre, post, rfl, -, -⟩ := (removeFirst_some_iff _ _ _ _).1 h1
  simp

theorem eraseFirst_filter_alive (alive : Nat → Bool) (sid ch : Nat) (subs : List (Nat × Nat))
    (h : lookupFirst sid subs = some ch) (ha : alive ch = false) :
    (eraseFirst sid subs).filter (fun e => alive e.2) = subs.filter (fun e => alive e.2) := by
  rw [lookupFirst_eq_removeFirst, Option.map_eq_some_iff] at h
  obtain ⟨⟨v', l'⟩, h1, h2⟩ := h
  simp only at h2; subst h2
  obtain ⟨pre, post, rfl, -, rfl⟩ := (removeFirst_some_iff _ _ _ _).1 h1
  simp [eraseFirst, h1, ha]

/-! ### keys of `awaiting` -/

theorem nonPingKeys_append (a b : List (Nat × Nat)) : nonPingKeys (a ++ b) = nonPingKeys a ++ nonPingKeys b := by
  simp [nonPingKeys]

theorem nonPingKeys_sublist {a b : List (Nat × Nat)} (h : a.Sublist b) : (nonPingKeys a).Sublist (nonPingKeys b) :=
  (h.map _).filter _

end User
end Poster
