/-
  Lemmas/WorldOpsEx.lean — a concrete script, evaluated stage by stage, in which an operation id is issued again
  while the context still owns the waiter of its earlier use: the PINGRESP of the first use (a ping that was
  dropped) completes the second use (a QoS 1 publish) and the handle future hits its `unreachable!()`.
  Used by Properties/C05World.lean to show that the "clean script" hypothesis cannot be dropped in the model.

  `World.step` is computable except for `Framing.pollNext` (well-founded recursion, opaque to `decide`); the
  lemmas below peel one poll of the `run()` loop at a time so that every remaining side condition is closed by
  `decide` (`World` gets a derived `DecidableEq` here).
-/
import PosterModel.Lemmas.WorldOps
import PosterModel.Lemmas.WorldEx

set_option linter.unusedVariables false
set_option linter.unusedSimpArgs false

namespace Poster
open Framing

deriving instance DecidableEq for Poster.World

namespace World

theorem pn_nil : pollNext {} [] = ({}, [], .pending) := pollNext_idle_nil {} rfl

/-- the loop finds nothing to do: both wakers are armed -/
theorem runLoop_idle (f : Nat) (w : World) (hf : 0 < f) (hq : w.queue = []) (hs : w.senders ≠ 0)
    (hrx : w.rx = {}) (hrd : w.reader = []) :
    runLoop f w = { w with queueReg := true, readerReg := true } := by
  obtain ⟨f, rfl⟩ : ∃ g, f = g + 1 := ⟨f - 1, by omega⟩
  rw [runLoop_succ]
  unfold runIter
  simp only [hq, hs, ↓reduceIte, hrx, hrd, pn_nil]

/-- the loop handles a queued message and goes on -/
theorem runLoop_msg (f : Nat) (w : World) (m : Msg) (q : List Msg) (hf : 0 < f) (hq : w.queue = m :: q)
    (hfl : (({ w with queue := q }).runHandler (fun wok => w.c.handleMsg m wok)).2 = .cont) :
    runLoop f w = runLoop (f - 1) (({ w with queue := q }).runHandler (fun wok => w.c.handleMsg m wok)).1 := by
  obtain ⟨f, rfl⟩ : ∃ g, f = g + 1 := ⟨f - 1, by omega⟩
  rw [runLoop_succ]
  unfold runIter
  simp only [hq, hfl, Nat.add_sub_cancel]

/-- the loop reads a whole frame, decodes it, handles the packet and goes on -/
theorem runLoop_pkt (f : Nat) (w : World) (fr : Bytes) (p : RxPacket) (hf : 0 < f) (hq : w.queue = [])
    (hs : w.senders ≠ 0) (hpn : pollNext w.rx w.reader = ({}, [], .item fr)) (hd : decodeRx fr = .ok p)
    (hfl : (({ w with rx := {}, reader := [] }).runHandler
      (fun wok => w.c.handlePkt w.chanRxAlive p wok)).2 = .cont) :
    runLoop f w = runLoop (f - 1) (({ w with rx := {}, reader := [] }).runHandler
      (fun wok => w.c.handlePkt w.chanRxAlive p wok)).1 := by
  obtain ⟨f, rfl⟩ : ∃ g, f = g + 1 := ⟨f - 1, by omega⟩
  have e : ({ w with rx := ({} : Rx), reader := [] } : World).chanRxAlive = w.chanRxAlive := rfl
  rw [runLoop_succ]
  unfold runIter
  simp only [hq] at hfl e
  simp only [hq, hs, ↓reduceIte, hpn, hd, e, hfl, Nat.add_sub_cancel]

theorem pollTask_ctx_running (w : World) (h : (w.unwake .ctx).task = .running true) :
    w.pollTask .ctx = runLoop (w.unwake .ctx).loopFuel (w.unwake .ctx) := by
  show (w.unwake .ctx).pollCtx = _
  unfold pollCtx
  rw [h]
  simp only [pollRun, ↓reduceIte]

theorem pollTask_ctx_start (w : World) (h : (w.unwake .ctx).task = .running false)
    (hd : (w.unwake .ctx).c.disc = none) (hw : w.cfg.wlimit = none) :
    w.pollTask .ctx = runLoop ({ w.unwake .ctx with task := .running true }).loopFuel
      { w.unwake .ctx with task := .running true } := by
  show (w.unwake .ctx).pollCtx = _
  have hw' : (w.unwake .ctx).cfg.wlimit = none := hw
  unfold pollCtx
  rw [h]
  simp only [pollRun, Bool.false_eq_true, ↓reduceIte, Ctx.resume, hd, applyEffs, List.foldl_nil, List.map_nil,
    List.sum_nil, canWrite, hw']

theorem drain_pick (f : Nat) (w : World) (t : Task) (hf : 0 < f) (h : w.pick = some t) :
    drain f w = drain (f - 1) (w.pollTask t) := by
  obtain ⟨f, rfl⟩ : ∃ g, f = g + 1 := ⟨f - 1, by omega⟩
  simp only [drain, h, Nat.add_sub_cancel]

theorem drain_none (f : Nat) (w : World) (h : w.pick = none) : drain f w = w := by
  cases f <;> simp only [drain, h]

theorem step_eq (w : World) (e : Ev) (wd : World) (hb : w.bad = false)
    (hab : ((w.emit (.ev e)).apply e).bad = false)
    (hd : drain ((w.emit (.ev e)).apply e).drainFuel ((w.emit (.ev e)).apply e) = wd)
    (hsw : wd.cfg.sweep = false) (hst : ¬ (wd.task ≠ .none ∧ wd.reader ≠ [])) : w.step e = wd := by
  unfold step
  simp only [hb, Bool.false_eq_true, ↓reduceIte, hab, hd, hsw, hst]

/-! ## the script -/

/-- a QoS 1 publish to topic "a" -/
def pubReq : Req := .publish { qos := 1, topic := some [0x61] }

/-- ping (operation 1) — dropped once its PINGREQ is on the wire — then a QoS 1 publish under the same id 1,
    then the broker's PINGRESP -/
def evsReuse : List Ev :=
  [.setup, .run, .op 1 0 .ping, .drop (.op 1), .op 1 0 pubReq, .feed [[0xD0, 0]]]

def s1 : World := { hasCtx := true, handles := [0], out := [.ev .setup] }
def s2 : World :=
  { s1 with task := .running true, readerReg := true, queueReg := true, out := [.ev .setup, .ev .run] }
def s3 : World :=
  { s2 with c := { awaiting := [(actionId 13 0, 2)] }, ops := [(1, .wait 2 .pingresp)], slots := [(2, .empty)],
            slotReg := [2], written := 2, out := s2.out ++ [.ev (.op 1 0 .ping), .wire [192, 0]] }
/-- the ping future is gone, its waiter stays registered under oneshot 2 -/
def s4 : World := { s3 with ops := [], slots := [], slotReg := [], out := s3.out ++ [.ev (.drop (.op 1))] }
/-- the publish waits on oneshot 2 as well: two waiters share the name -/
def s5 : World :=
  { s4 with
    c := { awaiting := [(actionId 13 0, 2), (actionId 4 1, 2)],
           retx := [(actionId 4 1, [58, 6, 0, 1, 97, 0, 1, 0])], quota := 65534 },
    ops := [(1, .wait 2 .puback)], slots := [(2, .empty)], slotReg := [2], pidCtr := 2, written := 10,
    out := s4.out ++ [.ev (.op 1 0 pubReq), .wire [50, 6, 0, 1, 97, 0, 1, 0]] }

theorem stage1 : ({} : World).step .setup = s1 := by decide

theorem stage2 : s1.step .run = s2 := by
  refine step_eq s1 .run s2 (by decide) (by decide) ?_ (by decide) (by decide)
  rw [drain_pick _ _ .ctx (by decide) (by decide),
    pollTask_ctx_start _ (by decide) (by decide) (by decide),
    runLoop_idle _ _ (by decide) (by decide) (by decide) (by decide) (by decide)]
  rw [drain_none _ _ (by decide)]
  decide

theorem stage3 : s2.step (.op 1 0 .ping) = s3 := by
  refine step_eq s2 _ s3 (by decide) (by decide) ?_ (by decide) (by decide)
  rw [drain_pick _ _ (.op 1) (by decide) (by decide), drain_pick _ _ .ctx (by decide) (by decide),
    pollTask_ctx_running _ (by decide),
    runLoop_msg _ _ (.awaitAck (actionId 13 0) pingreqBytes 2) [] (by decide) (by decide) (by decide),
    runLoop_idle _ _ (by decide) (by decide) (by decide) (by decide) (by decide)]
  rw [drain_none _ _ (by decide)]
  decide

theorem stage4 : s3.step (.drop (.op 1)) = s4 := by decide

theorem stage5 : s4.step (.op 1 0 pubReq) = s5 := by
  refine step_eq s4 _ s5 (by decide) (by decide) ?_ (by decide) (by decide)
  rw [drain_pick _ _ (.op 1) (by decide) (by decide), drain_pick _ _ .ctx (by decide) (by decide),
    pollTask_ctx_running _ (by decide),
    runLoop_msg _ _ (.awaitAck (actionId 4 1) [50, 6, 0, 1, 97, 0, 1, 0] 2) [] (by decide) (by decide) (by decide),
    runLoop_idle _ _ (by decide) (by decide) (by decide) (by decide) (by decide)]
  rw [drain_none _ _ (by decide)]
  decide

/-- the PINGRESP completes the first waiter registered under `actionId 13 0`: oneshot 2 — which is now the oneshot
    of the publish; the publish future finds a PINGRESP where it expects a PUBACK -/
theorem stage6 : Obs.panic (.op 1) "unreachable" ∈ (s5.step (.feed [[0xD0, 0]])).out := by
  have hd : ∃ wd, drain ((s5.emit (.ev (.feed [[0xD0, 0]]))).apply (.feed [[0xD0, 0]])).drainFuel
      ((s5.emit (.ev (.feed [[0xD0, 0]]))).apply (.feed [[0xD0, 0]])) = wd ∧ wd.cfg.sweep = false ∧
      ¬ (wd.task ≠ .none ∧ wd.reader ≠ []) ∧ Obs.panic (.op 1) "unreachable" ∈ wd.out := by
    rw [drain_pick _ _ .ctx (by decide) (by decide), pollTask_ctx_running _ (by decide),
      runLoop_pkt _ _ Ex.pingresp .pingresp (by decide) (by decide) (by decide) Ex.pn_pingresp Ex.dec_pingresp
        (by decide),
      runLoop_idle _ _ (by decide) (by decide) (by decide) (by decide) (by decide),
      drain_pick _ _ (.op 1) (by decide) (by decide)]
    rw [drain_none _ _ (by decide)]
    exact ⟨_, rfl, by decide, by decide, by decide⟩
  obtain ⟨wd, e, h1, h2, h3⟩ := hd
  rw [step_eq s5 _ wd (by decide) (by decide) e h1 h2]
  exact h3

theorem mem_flushRaw_out (w : World) (o : Obs) (h : o ∈ w.out) : o ∈ w.flushRaw.out := by
  unfold flushRaw
  split
  · exact h
  · exact List.mem_append_left _ h

theorem evsReuse_foldl5 : (evsReuse.take 5).foldl World.step {} = s5 := by
  simp only [evsReuse, List.take, List.foldl_cons, List.foldl_nil]
  rw [stage1, stage2, stage3, stage4, stage5]

/-- the script reaches the `unreachable!()` of the publish future -/
theorem evsReuse_unreachable : Obs.panic (.op 1) "unreachable" ∈ World.run {} evsReuse := by
  have h5 := evsReuse_foldl5
  simp only [evsReuse, List.take, List.foldl_cons, List.foldl_nil] at h5
  unfold run finishScript
  simp only [evsReuse, List.foldl_cons, List.foldl_nil]
  rw [h5]
  exact mem_flushRaw_out _ _ stage6

/-- …and it is not clean: the publish is issued under id 1 while the waiter of the ping (oneshot 2) is registered -/
theorem evsReuse_not_clean : ¬ Clean {} evsReuse := by
  intro h
  have h4 : CleanAt s4 (.op 1 0 pubReq) := by
    have := h.2.2.2.2.1
    rw [stage1, stage2, stage3, stage4] at this
    exact this
  exact absurd (h4 1 rfl).1 (by decide)

/-! ## a clean script that reaches a filled oneshot -/

/-- a ping whose future is held back while its PINGRESP arrives -/
def evsFill : List Ev := [.setup, .run, .op 1 0 .ping, .hold (.op 1), .feed [[0xD0, 0]]]

def f4 : World := { s3 with held := [.op 1], out := s3.out ++ [.ev (.hold (.op 1))] }
/-- the PINGRESP is in oneshot 2; operation 1 (woken, but held) still waits on it -/
def f5 : World :=
  { f4 with c := {}, slots := [(2, .full (.pkt .pingresp))], slotReg := [], woken := [.op 1],
            out := f4.out ++ [.ev (.feed [[0xD0, 0]])] }

theorem fill4 : s3.step (.hold (.op 1)) = f4 := by decide

theorem fill5 : f4.step (.feed [[0xD0, 0]]) = f5 := by
  refine step_eq f4 _ f5 (by decide) (by decide) ?_ (by decide) (by decide)
  rw [drain_pick _ _ .ctx (by decide) (by decide), pollTask_ctx_running _ (by decide),
    runLoop_pkt _ _ Ex.pingresp .pingresp (by decide) (by decide) (by decide) Ex.pn_pingresp Ex.dec_pingresp
      (by decide),
    runLoop_idle _ _ (by decide) (by decide) (by decide) (by decide) (by decide)]
  rw [drain_none _ _ (by decide)]
  decide

theorem evsFill_foldl : evsFill.foldl World.step {} = f5 := by
  simp only [evsFill, List.foldl_cons, List.foldl_nil]
  rw [stage1, stage2, stage3, fill4, fill5]

theorem evsFill_clean : Clean {} evsFill := by
  have triv : ∀ (w : World) (e : Ev), evOpId e = none → CleanAt w e := fun w e he id h => by
    rw [he] at h; cases h
  refine ⟨triv _ _ rfl, triv _ _ rfl, ?_, triv _ _ rfl, triv _ _ rfl, True.intro⟩
  rw [stage1, stage2]
  decide

/-! ## small worlds and scripts for the non-vacuity examples of Properties/C05World.lean -/

/-- two outstanding pings with distinct ids (the context is never started: both PINGREQs stay queued) -/
def evsTwoPings : List Ev := [.setup, .op 1 0 .ping, .op 2 0 .ping]

/-- `run()` serving with a PINGRESP waiting at the transport and the ping of operation 1 registered (oneshot 2) -/
def wPing : World :=
  { Ex.wServe [.data Ex.pingresp] with
    ops := [(1, .wait 2 .pingresp)], slots := [(2, .empty)], c := { awaiting := [(actionId 13 0, 2)] } }

/-- …after the PINGRESP was read and handled -/
def wPing1 : World := { wPing with reader := [], c := {}, slots := [(2, .full (.pkt .pingresp))] }

end World
end Poster
