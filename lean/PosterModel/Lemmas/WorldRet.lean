/-
  Lemmas/WorldRet.lean — helper lemmas for Properties/C13World.lean and Properties/C06World.lean (work package W7;
  everything lives in the namespace `Poster.World.W7`).

  Framework
  * `UFrame`: the fields a step of the user side (handle futures, streams, most script events) can change;
  * `Micro w w'`: the elementary transitions a script step is made of (one poll of the context task, one poll of a
    handle future / stream, one script event logged and applied, the stall marker, the final flush);
    `During cfg w`: `w` is a moment of an execution under `cfg` (closure of `Micro` from the initial world;
    `during_run`, `during_script`: the worlds a script ends in are such moments); `Reaches a b`: `b` is reached from `a`;
  * `pollCtx_shape` (what one poll of the context task appends to the transcript), `pollTask_user` / `pollOp_out3` /
    `pollStream_out3` (what the other polls append), `apply_cases` (what a script event does: a poll, the start of a
    call, or a `Passive` transition), `Micro.cases13` (the three kinds of transitions as far as calls and the transport
    are concerned).

  C13
  * `CallInv` / `during_callInv`: `RET` lines + the call in flight ≤ logged call events;
  * `during_ret_origin`: every `RET` line was logged by a poll of the context task that ended the call;
  * `EndCause`, `ReturnCause`, `runEnd_cause`, `pollRun_cause`: why `run()` returns;
    `FirstCause`, `ConnectCause`, `pollConnect_cause`: why `connect()` / `authorize()` return;
  * `during_after_ret`: after a `RET`, until the next call event, the context task is idle and nothing is handed to the
    transport; `run_pending_facts`: a poll that leaves `run()` pending found none of the causes.

  C06
  * `Held Q R` and `held_pollCtx` / `held_micro`: invariants about queued messages and PUBREL entries of the retransmit
    queue; `during_pubrelSeen`: every PUBREL the context holds stems from a PUBREC with reason < 0x80;
    `pubrel_queue_origin`, `pollCtx_retx_origin`;
  * `ResumeRes`, `resumeOp_done`, `startOp_done`, `pollOp_done_cases`, `during_done_origin`: what a `DONE` line reports
    and where it comes from;
  * `during_firstTx`: every queued PUBLISH has DUP = 0; `run_ev_lines`: the `EV` lines of a transcript are the script.
-/
import PosterModel.Lemmas.WorldOps
import PosterModel.Lemmas.WorldCtx
import PosterModel.Properties.C13
import PosterModel.Properties.C06
import PosterModel.Lemmas.CtxRetx

set_option linter.unusedVariables false
set_option linter.unusedSimpArgs false

namespace Poster
open Framing
namespace World
namespace W7

/-! ## the fields the user side can change -/

/-- `w'` differs from `w` at most in the fields a handle future / a stream / a bookkeeping script event can touch:
    the message queue and its waker, the operation table, the oneshots, the subscription channels, the identifier
    counters, the wakers, the held tasks, the handles and the transcript. The context task, the session, the framing
    state, the reader, the transport (`written`, `wirePend`) and the configuration are the same. -/
def UFrame (w w' : World) : Prop :=
  ∃ q o sl sr wk qr ou pc sc ch rs st hd hl,
    w' = { w with queue := q, ops := o, slots := sl, slotReg := sr, woken := wk, queueReg := qr, out := ou,
                  pidCtr := pc, subCtr := sc, chans := ch, rsps := rs, streams := st, held := hd, handles := hl }

theorem UFrame.refl (w : World) : UFrame w w :=
  ⟨w.queue, w.ops, w.slots, w.slotReg, w.woken, w.queueReg, w.out, w.pidCtr, w.subCtr, w.chans, w.rsps, w.streams,
    w.held, w.handles, rfl⟩

theorem UFrame.trans {a b c : World} (h1 : UFrame a b) (h2 : UFrame b c) : UFrame a c := by
  obtain ⟨q, o, sl, sr, wk, qr, ou, pc, sc, ch, rs, st, hd, hl, rfl⟩ := h1
  obtain ⟨q', o', sl', sr', wk', qr', ou', pc', sc', ch', rs', st', hd', hl', rfl⟩ := h2
  exact ⟨q', o', sl', sr', wk', qr', ou', pc', sc', ch', rs', st', hd', hl', rfl⟩

theorem UFrame.of_eq {a b : World} (h : b = a) : UFrame a b := h ▸ UFrame.refl a

theorem UFrame.task {w w' : World} (h : UFrame w w') : w'.task = w.task := by
  obtain ⟨_, _, _, _, _, _, _, _, _, _, _, _, _, _, rfl⟩ := h; rfl
theorem UFrame.c {w w' : World} (h : UFrame w w') : w'.c = w.c := by
  obtain ⟨_, _, _, _, _, _, _, _, _, _, _, _, _, _, rfl⟩ := h; rfl
theorem UFrame.wirePend {w w' : World} (h : UFrame w w') : w'.wirePend = w.wirePend := by
  obtain ⟨_, _, _, _, _, _, _, _, _, _, _, _, _, _, rfl⟩ := h; rfl
theorem UFrame.written {w w' : World} (h : UFrame w w') : w'.written = w.written := by
  obtain ⟨_, _, _, _, _, _, _, _, _, _, _, _, _, _, rfl⟩ := h; rfl
theorem UFrame.hasCtx {w w' : World} (h : UFrame w w') : w'.hasCtx = w.hasCtx := by
  obtain ⟨_, _, _, _, _, _, _, _, _, _, _, _, _, _, rfl⟩ := h; rfl
theorem UFrame.ctxDropped {w w' : World} (h : UFrame w w') : w'.ctxDropped = w.ctxDropped := by
  obtain ⟨_, _, _, _, _, _, _, _, _, _, _, _, _, _, rfl⟩ := h; rfl
theorem UFrame.cfg {w w' : World} (h : UFrame w w') : w'.cfg = w.cfg := by
  obtain ⟨_, _, _, _, _, _, _, _, _, _, _, _, _, _, rfl⟩ := h; rfl
theorem UFrame.rx {w w' : World} (h : UFrame w w') : w'.rx = w.rx := by
  obtain ⟨_, _, _, _, _, _, _, _, _, _, _, _, _, _, rfl⟩ := h; rfl
theorem UFrame.reader {w w' : World} (h : UFrame w w') : w'.reader = w.reader := by
  obtain ⟨_, _, _, _, _, _, _, _, _, _, _, _, _, _, rfl⟩ := h; rfl
theorem UFrame.readerReg {w w' : World} (h : UFrame w w') : w'.readerReg = w.readerReg := by
  obtain ⟨_, _, _, _, _, _, _, _, _, _, _, _, _, _, rfl⟩ := h; rfl
theorem UFrame.bad {w w' : World} (h : UFrame w w') : w'.bad = w.bad := by
  obtain ⟨_, _, _, _, _, _, _, _, _, _, _, _, _, _, rfl⟩ := h; rfl

theorem uframe_wake (w : World) (t : Task) : UFrame w (w.wake t) := by
  obtain ⟨wk, e⟩ := User.wake_shape w t
  rw [e]
  exact ⟨w.queue, w.ops, w.slots, w.slotReg, wk, w.queueReg, w.out, w.pidCtr, w.subCtr, w.chans, w.rsps, w.streams,
    w.held, w.handles, rfl⟩

theorem uframe_unwake (w : World) (t : Task) : UFrame w (w.unwake t) :=
  ⟨w.queue, w.ops, w.slots, w.slotReg, _, w.queueReg, w.out, w.pidCtr, w.subCtr, w.chans, w.rsps, w.streams,
    w.held, w.handles, rfl⟩

theorem uframe_emit (w : World) (o : Obs) : UFrame w (w.emit o) :=
  ⟨w.queue, w.ops, w.slots, w.slotReg, w.woken, w.queueReg, _, w.pidCtr, w.subCtr, w.chans, w.rsps, w.streams,
    w.held, w.handles, rfl⟩

theorem uframe_senderGone (w : World) : UFrame w w.senderGone := by
  obtain ⟨wk, qr, e⟩ := User.senderGone_shape w
  rw [e]
  exact ⟨w.queue, w.ops, w.slots, w.slotReg, wk, qr, w.out, w.pidCtr, w.subCtr, w.chans, w.rsps, w.streams,
    w.held, w.handles, rfl⟩

theorem uframe_finishOp (w : World) (id : Nat) (r : DoneRes) : UFrame w (w.finishOp id r) := by
  obtain ⟨wk, qr, e⟩ := User.finishOp_shape w id r
  rw [e]
  exact ⟨w.queue, _, w.slots, w.slotReg, wk, qr, _, w.pidCtr, w.subCtr, w.chans, w.rsps, w.streams,
    w.held, w.handles, rfl⟩

theorem uframe_sendAwait (w : World) (m : Msg) (id s : Nat) (k : Wait) : UFrame w (w.sendAwait m id s k) := by
  obtain ⟨q, o, sl, sr, wk, qr, ou, e⟩ := User.sendAwait_frame w m id s k
  rw [e]
  exact ⟨q, o, sl, sr, wk, qr, ou, w.pidCtr, w.subCtr, w.chans, w.rsps, w.streams, w.held, w.handles, rfl⟩

theorem uframe_clearSlot (w : World) (s : Nat) : UFrame w (w.clearSlot s) :=
  ⟨w.queue, w.ops, _, _, w.woken, w.queueReg, w.out, w.pidCtr, w.subCtr, w.chans, w.rsps, w.streams,
    w.held, w.handles, rfl⟩

theorem uframe_allocPid (w : World) : UFrame w w.allocPid.2 :=
  ⟨w.queue, w.ops, w.slots, w.slotReg, w.woken, w.queueReg, w.out, _, w.subCtr, w.chans, w.rsps, w.streams,
    w.held, w.handles, rfl⟩

theorem uframe_allocSub (w : World) : UFrame w w.allocSub.2 :=
  ⟨w.queue, w.ops, w.slots, w.slotReg, w.woken, w.queueReg, w.out, w.pidCtr, _, w.chans, w.rsps, w.streams,
    w.held, w.handles, rfl⟩

theorem uframe_setChan (w : World) (c : Nat) (v : Chan) : UFrame w (w.setChan c v) :=
  ⟨w.queue, w.ops, w.slots, w.slotReg, w.woken, w.queueReg, w.out, w.pidCtr, w.subCtr, _, w.rsps, w.streams,
    w.held, w.handles, rfl⟩

theorem uframe_dropChanRx (w : World) (c : Nat) : UFrame w (w.dropChanRx c) :=
  ⟨w.queue, w.ops, w.slots, w.slotReg, w.woken, w.queueReg, w.out, w.pidCtr, w.subCtr, _, w.rsps, w.streams,
    w.held, w.handles, rfl⟩

theorem uframe_startOp (w : World) (id : Nat) (req : Req) : UFrame w (w.startOp id req) := by
  cases req with
  | publish t =>
    by_cases hq : t.qos = 0
    · rw [User.startOp_publish0 w id t hq]
      split
      · exact uframe_finishOp _ _ _
      · exact uframe_sendAwait _ _ _ _ _
    · rw [User.startOp_publish12 w id t hq]
      split
      · exact (uframe_allocPid w).trans (uframe_finishOp _ _ _)
      · exact (uframe_allocPid w).trans (uframe_sendAwait _ _ _ _ _)
  | subscribe t =>
    rw [User.startOp_subscribe]
    simp only
    have h1 : UFrame w ((w.allocPid.2).allocSub.2) := (uframe_allocPid w).trans (uframe_allocSub _)
    split
    · exact h1.trans (uframe_finishOp _ _ _)
    · have h2 := h1.trans (uframe_setChan _ id {})
      generalize ((w.allocPid.2).allocSub.2).setChan id {} = w2 at h2 ⊢
      have h3 := uframe_sendAwait w2
        (.subscribe (actionId 9 w.pidCtr) w.subCtr
          ({ t with packetId := w.pidCtr, subId := some w.subCtr } : SubscribeTx).encode (2 * id) id) id (2 * id) .suback
      cases hm : World.sendMsg w2 _ with
      | none => exact (h2.trans (uframe_dropChanRx _ _)).trans (uframe_finishOp _ _ _)
      | some w3 =>
        simp only
        simp only [sendAwait, hm] at h3
        exact h2.trans h3
  | unsubscribe t =>
    rw [User.startOp_unsubscribe]
    split
    · exact (uframe_allocPid w).trans (uframe_finishOp _ _ _)
    · exact (uframe_allocPid w).trans (uframe_sendAwait _ _ _ _ _)
  | ping => rw [User.startOp_ping]; exact uframe_sendAwait _ _ _ _ _
  | disconnect t => rw [User.startOp_disconnect]; exact uframe_sendAwait _ _ _ _ _

theorem uframe_resumeOp (w : World) (id s : Nat) (k : Wait) (v : SlotVal) : UFrame w (w.resumeOp id s k v) := by
  have hc := uframe_clearSlot w s
  have fin : ∀ r, UFrame w ((w.clearSlot s).finishOp id r) := fun r => hc.trans (uframe_finishOp _ _ _)
  have hpanic : UFrame w (({ (w.clearSlot s) with ops := eraseFirst id (w.clearSlot s).ops }).emit
      (.panic (.op id) "unreachable")).senderGone := by
    refine (hc.trans ?_).trans (uframe_senderGone _)
    exact ⟨_, _, _, _, _, _, _, _, _, _, _, _, _, _, rfl⟩
  cases v with
  | errSize => exact fin _
  | errQuota => exact fin _
  | unit => simp only [resumeOp]; split <;> exact fin _
  | pkt p =>
    cases ha : Wait.accepts k p with
    | false => rw [resumeOp_mismatch w id s k p ha]; exact hpanic
    | true =>
      cases k <;> cases p <;> simp [Wait.accepts] at ha <;> simp only [resumeOp]
      · split <;> exact fin _
      · rename_i a
        split
        · exact fin _
        · exact hc.trans (uframe_sendAwait (w.clearSlot s) _ id (s + 1) .pubcomp)
      · split <;> exact fin _
      · refine (hc.trans ?_).trans (uframe_finishOp _ _ _)
        exact ⟨_, _, _, _, _, _, _, _, _, _, _, _, _, _, rfl⟩
      · exact fin _
      · exact fin _

theorem uframe_pollOp (w : World) (id : Nat) : UFrame w (w.pollOp id) := by
  unfold pollOp
  split
  · exact UFrame.refl w
  · exact uframe_startOp _ _ _
  · split
    · exact uframe_resumeOp _ _ _ _ _
    · exact (uframe_clearSlot w _).trans (uframe_finishOp _ _ _)
    · exact ⟨_, _, _, _, _, _, _, _, _, _, _, _, _, _, rfl⟩

theorem uframe_dropOp (w : World) (id : Nat) : UFrame w (w.dropOp id) := by
  unfold dropOp
  split
  · exact UFrame.refl w
  · refine UFrame.trans ?_ (uframe_senderGone _)
    exact ⟨_, _, _, _, _, _, _, _, _, _, _, _, _, _, rfl⟩
  · rename_i s k _
    simp only
    refine UFrame.trans ?_ (uframe_senderGone _)
    cases k <;> exact ⟨_, _, _, _, _, _, _, _, _, _, _, _, _, _, rfl⟩

theorem uframe_pollStream (w : World) (id : Nat) : UFrame w (w.pollStream id) := by
  unfold pollStream
  split
  · exact UFrame.refl w
  · split
    · exact UFrame.refl w
    · split
      · exact ((uframe_setChan w _ _).trans (uframe_emit _ _)).trans (uframe_wake _ _)
      · split
        · exact uframe_setChan _ _ _
        · refine UFrame.trans ?_ (uframe_emit _ _)
          refine UFrame.trans ?_ (uframe_dropChanRx _ _)
          exact ⟨_, _, _, _, _, _, _, _, _, _, _, _, _, _, rfl⟩

/-! ## the moments of an execution -/

/-- the elementary transitions a script step is made of -/
inductive Micro : World → World → Prop
  /-- the context task is polled -/
  | ctx (w : World) : Micro w w.pollCtx
  /-- a handle future or a stream is polled -/
  | user (w : World) (t : Task) : t ≠ .ctx → Micro w (w.pollTask t)
  /-- the executor clears the flag of the task it is about to poll -/
  | unwake (w : World) (t : Task) : Micro w (w.unwake t)
  /-- a script event other than `poll` is logged and applied -/
  | ev (w : World) (e : Ev) : (∀ t, e ≠ .poll t) → w.bad = false → Micro w ((w.emit (.ev e)).apply e)
  /-- a `poll` script event is logged (the poll itself, if the task is live, is a `ctx` / `user` transition) -/
  | logged (w : World) (t : Task) : w.bad = false → Micro w (w.emit (.ev (.poll t)))
  /-- the stall marker -/
  | stall (w : World) : Micro w (w.emit .stall)
  /-- the end of the script: pending bytes are logged -/
  | flush (w : World) : Micro w w.flushRaw

/-- `During cfg w`: the client is in state `w` at some moment of the execution of some script under the configuration
    `cfg` — initially, or one elementary transition after such a moment. The transcript `w.out` records the script
    events executed so far (`EV` lines) and everything observed. The executor's choice of the next task is left open:
    every statement proved for all such `w` holds in particular for the states the deterministic executor goes
    through (`during_run`, `during_script`). -/
inductive During (cfg : Cfg) : World → Prop
  | init : During cfg { cfg := cfg }
  | next {w w' : World} : During cfg w → Micro w w' → During cfg w'

theorem During.poll {cfg : Cfg} {w : World} (h : During cfg w) (t : Task) : During cfg (w.pollTask t) := by
  cases t with
  | ctx => exact (h.next (.unwake w .ctx)).next (.ctx _)
  | op id => exact h.next (.user w _ (by simp))
  | st id => exact h.next (.user w _ (by simp))

theorem During.event {cfg : Cfg} {w : World} (h : During cfg w) (hb : w.bad = false) (e : Ev) :
    During cfg ((w.emit (.ev e)).apply e) := by
  by_cases hp : ∃ t, e = .poll t
  · obtain ⟨t, rfl⟩ := hp
    have h1 := h.next (.logged w t hb)
    simp only [apply]
    split
    · exact h1.poll t
    · exact h1
  · exact h.next (.ev w e (fun t ht => hp ⟨t, ht⟩) hb)

theorem During.drain {cfg : Cfg} (f : Nat) {w : World} (h : During cfg w) : During cfg (World.drain f w) := by
  induction f generalizing w with
  | zero => exact h
  | succ f ih =>
    simp only [World.drain]
    split
    · exact h
    · exact ih (h.poll _)

theorem During.sweep {cfg : Cfg} {w : World} (h : During cfg w) : During cfg w.sweep := by
  unfold World.sweep
  simp only
  generalize ([Task.ctx] ++ List.map Task.op (sortNat (List.map (fun x => x.1) w.ops)) ++
    List.map Task.st (sortNat w.streams)) = tasks
  suffices hh : ∀ (l : List Task) (w0 : World), During cfg w0 →
      During cfg (l.foldl (fun w t => if w.taskLive t ∧ t ∉ w.woken ∧ t ∉ w.held then w.pollTask t else w) w0) from
    hh tasks w h
  intro l
  induction l with
  | nil => intro w0 h0; exact h0
  | cons t rest ih =>
    intro w0 h0
    simp only [List.foldl_cons]
    split
    · exact ih _ (h0.poll t)
    · exact ih _ h0

theorem During.step {cfg : Cfg} {w : World} (e : Ev) (h : During cfg w) : During cfg (w.step e) := by
  unfold World.step
  split
  · exact h
  · rename_i hb
    have h1 := h.event (by simpa using hb) e
    generalize (w.emit (.ev e)).apply e = w1 at h1 ⊢
    simp only
    split
    · exact h1
    · have h2 := h1.drain w1.drainFuel
      generalize World.drain w1.drainFuel w1 = w2 at h2 ⊢
      have h3 : During cfg (if w2.cfg.sweep = true then World.drain w2.sweep.drainFuel w2.sweep else w2) := by
        split
        · exact h2.sweep.drain _
        · exact h2
      generalize (if w2.cfg.sweep = true then World.drain w2.sweep.drainFuel w2.sweep else w2) = w3 at h3 ⊢
      split
      · exact h3.next (.stall _)
      · exact h3

theorem During.steps {cfg : Cfg} (evs : List Ev) {w : World} (h : During cfg w) :
    During cfg (evs.foldl World.step w) := by
  induction evs generalizing w with
  | nil => exact h
  | cons e t ih => simp only [List.foldl_cons]; exact ih (h.step e)

/-- the world a script ends in is a moment of an execution -/
theorem during_run (cfg : Cfg) (evs : List Ev) : During cfg (evs.foldl World.step { cfg := cfg }) :=
  (During.init (cfg := cfg)).steps evs

/-- … and so is the world whose transcript `World.run` returns -/
theorem during_script (cfg : Cfg) (evs : List Ev) :
    During cfg (evs.foldl World.step { cfg := cfg }).finishScript ∧
    World.run cfg evs = (evs.foldl World.step { cfg := cfg }).finishScript.out :=
  ⟨(during_run cfg evs).next (.flush _), rfl⟩

/-- `b` is reached from `a` by zero or more elementary transitions: `a` is an earlier moment of the same execution -/
inductive Reaches : World → World → Prop
  | refl (w : World) : Reaches w w
  | tail {a b c : World} : Reaches a b → Micro b c → Reaches a c

theorem During.reaches {cfg : Cfg} {a b : World} (h : During cfg a) (hr : Reaches a b) : During cfg b := by
  induction hr with
  | refl => exact h
  | tail _ hm ih => exact ih.next hm

/-! ## what the polls of the user side append to the transcript -/

/-- an observation of the user side: the completion of an operation, the `unreachable` panic of a handle future, an
    item or the end of a subscription stream -/
def UserObs (o : Obs) : Prop :=
  (∃ id r, o = .done id r) ∨ (∃ id, o = .panic (.op id) "unreachable") ∨ (∃ id p, o = .item id p) ∨
  (∃ id, o = .endStream id)

theorem userObs_bytes {o : Obs} (h : UserObs o) : obsBytes o = [] := by
  rcases h with ⟨_, _, rfl⟩ | ⟨_, rfl⟩ | ⟨_, _, rfl⟩ | ⟨_, rfl⟩ <;> rfl

/-- what a poll of the future of operation `id` appends: nothing, one `DONE id`, or its `unreachable` panic -/
def OpObs (id : Nat) (o : Obs) : Prop := (∃ r, o = .done id r) ∨ o = .panic (.op id) "unreachable"

theorem sendAwait_opObs (w w0 : World) (m : Msg) (id s : Nat) (k : Wait) (h0 : w0.out = w.out) :
    OutExtP (OpObs id) w (w0.sendAwait m id s k) := by
  rcases sendAwait_out w0 m id s k with h | h
  · exact outExtP_of_eq (by rw [h, h0])
  · exact outExtP_one _ (by rw [h, h0]) (Or.inl ⟨_, rfl⟩)

theorem startOp_opObs (w : World) (id : Nat) (req : Req) : OutExtP (OpObs id) w (w.startOp id req) := by
  rcases startOp_out w id req with h | ⟨k, h⟩
  · exact outExtP_of_eq h
  · exact outExtP_one _ h (Or.inl ⟨_, rfl⟩)

theorem resumeOp_opObs (w : World) (id s : Nat) (k : Wait) (v : SlotVal) :
    OutExtP (OpObs id) w (w.resumeOp id s k v) := by
  have hd : ∀ (w0 : World) (r : DoneRes), w0.out = w.out → OutExtP (OpObs id) w (w0.finishOp id r) :=
    fun w0 r h0 => outExtP_one (.done id r) (by simp [h0]) (Or.inl ⟨_, rfl⟩)
  cases v with
  | errSize => exact hd _ _ rfl
  | errQuota => exact hd _ _ rfl
  | unit => simp only [resumeOp]; split <;> exact hd _ _ rfl
  | pkt p =>
    cases ha : Wait.accepts k p with
    | false => exact outExtP_one _ (resumeOp_panic w id s k p ha).1 (Or.inr rfl)
    | true =>
      cases k <;> cases p <;> simp [Wait.accepts] at ha <;> simp only [resumeOp]
      · split <;> exact hd _ _ rfl
      · split
        · exact hd _ _ rfl
        · exact sendAwait_opObs w (w.clearSlot s) _ id (s + 1) .pubcomp rfl
      · split <;> exact hd _ _ rfl
      · exact hd _ _ rfl
      · exact hd _ _ rfl
      · exact hd _ _ rfl

theorem pollOp_opObs (w : World) (id : Nat) : OutExtP (OpObs id) w (w.pollOp id) := by
  unfold pollOp
  split
  · exact outExtP_refl _ _
  · exact startOp_opObs _ _ _
  · split
    · exact resumeOp_opObs _ _ _ _ _
    · exact outExtP_one (.done id (.err .contextExited)) (by simp [clearSlot]) (Or.inl ⟨_, rfl⟩)
    · exact outExtP_of_eq rfl

theorem pollStream_userObs (w : World) (id : Nat) : OutExtP UserObs w (w.pollStream id) := by
  unfold pollStream
  split
  · exact outExtP_refl _ _
  · split
    · exact outExtP_refl _ _
    · split
      · rename_i p rest _
        exact outExtP_one (.item id p) (by simp) (Or.inr (Or.inr (Or.inl ⟨_, _, rfl⟩)))
      · split
        · exact outExtP_of_eq rfl
        · exact outExtP_one (.endStream id) (by simp [dropChanRx]) (Or.inr (Or.inr (Or.inr ⟨_, rfl⟩)))

theorem opObs_user {id : Nat} {o : Obs} (h : OpObs id o) : UserObs o := by
  rcases h with ⟨r, rfl⟩ | rfl
  · exact Or.inl ⟨_, _, rfl⟩
  · exact Or.inr (Or.inl ⟨_, rfl⟩)

/-- a poll of a handle future or of a stream: only user-side fields change, only user-side observations are added -/
theorem pollTask_user (w : World) (t : Task) (ht : t ≠ .ctx) :
    UFrame w (w.pollTask t) ∧ OutExtP UserObs w (w.pollTask t) := by
  cases t with
  | ctx => exact absurd rfl ht
  | op id =>
    refine ⟨(uframe_unwake w _).trans (uframe_pollOp _ id), ?_⟩
    exact outExtP_mono (outExtP_trans (outExtP_of_eq rfl) (pollOp_opObs (w.unwake (.op id)) id)) (fun _ => opObs_user)
  | st id =>
    refine ⟨(uframe_unwake w _).trans (uframe_pollStream _ id), ?_⟩
    exact outExtP_trans (outExtP_of_eq rfl) (pollStream_userObs (w.unwake (.st id)) id)

/-- observations that carry no bytes leave `sent` alone -/
theorem sent_of_added {w w' : World} {P : Obs → Prop} (h : OutExtP P w w') (hb : ∀ o, P o → obsBytes o = [])
    (hw : w'.wirePend = w.wirePend) : w'.sent = w.sent := by
  obtain ⟨added, e, hP⟩ := h
  have : added.flatMap obsBytes = [] := by
    rw [List.flatMap_eq_nil_iff]
    intro o ho
    exact hb o (hP o ho)
  simp [sent, e, hw, List.flatMap_append, this]

/-! ## what a poll of the context task appends to the transcript -/

/-- the call the context task is executing -/
def taskCall : CtxTask → Option Call
  | .none => none
  | .connecting call _ _ _ => some call
  | .running _ => some .run

/-- how the context task changes while its call goes on: not at all, or "first polled" becomes "polled before" -/
def TaskNext (a b : CtxTask) : Prop :=
  b = a ∨ (∃ call t au, a = .connecting call t au false ∧ b = .connecting call t au true) ∨
  (a = .running false ∧ b = .running true)

theorem TaskNext.call {a b : CtxTask} (h : TaskNext a b) : taskCall b = taskCall a := by
  rcases h with rfl | ⟨call, t, au, rfl, rfl⟩ | ⟨rfl, rfl⟩ <;> rfl

/-- **One poll of the context task.** Either the call goes on (same call, only `W` / `WRAW` lines appended), or it
    is over (`task = none`): then `W` / `WRAW` lines were appended followed by exactly one last line, which is the
    `RET` of the call that was executing, or a panic of the context task. -/
theorem pollCtx_shape (w : World) :
    (TaskNext w.task w.pollCtx.task ∧ OutExt w w.pollCtx) ∨
    (w.pollCtx.task = .none ∧ ∃ pre last, Quiet pre ∧ w.pollCtx.out = w.out ++ pre ++ [last] ∧
       ((∃ c r, last = .ret c r ∧ taskCall w.task = some c) ∨ ∃ cls, last = .panic .ctx cls)) := by
  cases ht : w.task with
  | none =>
    left
    have e : w.pollCtx = w := by simp [pollCtx, ht]
    rw [e, ht]; exact ⟨Or.inl rfl, outExt_refl w⟩
  | connecting call t a started =>
    have e : w.pollCtx = w.pollConnect call t a started := by simp [pollCtx, ht]
    rw [e]
    cases started with
    | true =>
      simp only [pollConnect, ↓reduceIte]
      rcases firstEnd_out (awaitFirst_spec w call t a) with ⟨h1, _, _, last, ho, hl⟩ | ⟨h1, ho, _⟩
      · right
        refine ⟨h1, [], last, quiet_nil, by simpa using ho, ?_⟩
        rcases hl with ⟨res, rfl⟩ | ⟨rfl, _⟩ | ⟨rfl, _⟩
        · exact Or.inl ⟨call, res, rfl, rfl⟩
        · exact Or.inr ⟨_, rfl⟩
        · exact Or.inr ⟨_, rfl⟩
      · left; exact ⟨Or.inl h1, outExt_of_eq ho⟩
    | false =>
      rcases pollConnect_prelude w call t a with ⟨_, h2⟩ | ⟨_, w0, _, _, _, _, _, _, hext, h2 | h2⟩
      · rw [h2]; right
        exact ⟨rfl, [], .ret call (.err .codecError), quiet_nil, by simp, Or.inl ⟨call, _, rfl, rfl⟩⟩
      · rw [h2]
        obtain ⟨pre0, hq0, hp0⟩ := hext
        rcases firstEnd_out (awaitFirst_spec w0 call t a) with ⟨h1, _, _, last, ho, hl⟩ | ⟨h1, ho, _⟩
        · right
          refine ⟨h1, pre0, last, hq0, by rw [ho, hp0], ?_⟩
          rcases hl with ⟨res, rfl⟩ | ⟨rfl, _⟩ | ⟨rfl, _⟩
          · exact Or.inl ⟨call, res, rfl, rfl⟩
          · exact Or.inr ⟨_, rfl⟩
          · exact Or.inr ⟨_, rfl⟩
        · left; exact ⟨Or.inr (Or.inl ⟨call, t, a, rfl, h1⟩), pre0, hq0, by rw [ho, hp0]⟩
      · rw [h2]; right
        obtain ⟨pre0, hq0, hp0⟩ := hext
        exact ⟨rfl, pre0, .ret call (.err .socketClosed), hq0, by simp [hp0], Or.inl ⟨call, _, rfl, rfl⟩⟩
  | running s =>
    obtain ⟨h1, h2⟩ := run_poll_outcome w s ht
    by_cases hn : w.pollCtx.task = .none
    · right
      obtain ⟨pre, last, ho, hq, hl⟩ := h1 hn
      refine ⟨hn, pre, last, hq, ho, ?_⟩
      rcases hl with ⟨r, rfl, _⟩ | ⟨cls, rfl⟩
      · exact Or.inl ⟨.run, r, rfl, rfl⟩
      · exact Or.inr ⟨cls, rfl⟩
    · left
      obtain ⟨ht1, pre, ho, hq⟩ := h2 hn
      refine ⟨?_, pre, hq, ho⟩
      rw [ht1]
      cases s
      · exact Or.inr (Or.inr ⟨rfl, rfl⟩)
      · exact Or.inl rfl

/-! ## what a script event does -/

/-- the context task a `connect` / `authorize` / `run` script event installs -/
def startTask : Ev → Option CtxTask
  | .connect t => some (.connecting .connect t {} false)
  | .authorize a => some (.connecting .authorize {} a false)
  | .run => some (.running false)
  | _ => none

/-- the call a script event starts -/
def isCallEv (e : Ev) : Option Call := (startTask e).bind taskCall

/-- the lines logged by script events themselves and by the stall check -/
def Dull (o : Obs) : Prop := o = .badscript ∨ o = .stall ∨ (∃ bs, o = .wraw bs) ∨ (∃ c, o = .state c)

/-- a transition that is neither a poll nor the start of a call: the context task is left alone or dropped, nothing is
    handed to the transport, queued messages and the retransmit queue are left alone or discarded -/
structure Passive (w w' : World) : Prop where
  task : w'.task = w.task ∨ w'.task = .none
  out : OutExtP Dull w w'
  sent : w'.sent = w.sent
  queue : w'.queue = w.queue ∨ w'.queue = []
  retx : w'.c.retx = w.c.retx ∨ w'.c.retx = []
  hasCtx : w'.task = .none ∨ w'.hasCtx = w.hasCtx

theorem Passive.of_uframe {w w' : World} (h : UFrame w w') (ho : w'.out = w.out) (hq : w'.queue = w.queue) :
    Passive w w' where
  task := Or.inl h.task
  out := outExtP_of_eq ho
  sent := sent_congr ho h.wirePend
  queue := Or.inl hq
  retx := Or.inl (by rw [h.c])
  hasCtx := Or.inr h.hasCtx

theorem passive_refl (w : World) : Passive w w := Passive.of_uframe (UFrame.refl w) rfl rfl

theorem passive_badScript (w : World) : Passive w w.badScript where
  task := Or.inl rfl
  out := outExtP_one .badscript rfl (Or.inl rfl)
  sent := by simp [sent, badScript, emit, obsBytes]
  queue := Or.inl rfl
  retx := Or.inl rfl
  hasCtx := Or.inr rfl

theorem passive_emit (w : World) (o : Obs) (h : Dull o) (hb : obsBytes o = []) : Passive w (w.emit o) where
  task := Or.inl rfl
  out := outExtP_one o rfl h
  sent := sent_emit w o hb
  queue := Or.inl rfl
  retx := Or.inl rfl
  hasCtx := Or.inr rfl

theorem sent_flushRaw (w : World) : w.flushRaw.sent = w.sent := by
  unfold flushRaw
  split
  · rfl
  · simp [sent, emit, obsBytes]

theorem flushRaw_dull (w : World) : OutExtP Dull w w.flushRaw := by
  unfold flushRaw
  split
  · exact outExtP_refl _ _
  · exact outExtP_one (.wraw w.wirePend) rfl (Or.inr (Or.inr (Or.inl ⟨_, rfl⟩)))

theorem feedEvents_uframe_like (w : World) (evs : List ReadEv) :
    (w.feedEvents evs).task = w.task ∧ (w.feedEvents evs).out = w.out ∧ (w.feedEvents evs).wirePend = w.wirePend ∧
    (w.feedEvents evs).queue = w.queue ∧ (w.feedEvents evs).c = w.c ∧ (w.feedEvents evs).hasCtx = w.hasCtx := by
  unfold feedEvents
  simp only
  split <;> simp

theorem passive_feedEvents (w : World) (evs : List ReadEv) : Passive w (w.feedEvents evs) := by
  obtain ⟨h1, h2, h3, h4, h5, h6⟩ := feedEvents_uframe_like w evs
  exact ⟨Or.inl h1, outExtP_of_eq h2, sent_congr h2 h3, Or.inl h4, Or.inl (by rw [h5]), Or.inr h6⟩

/-- **What a script event does** (to the world in which it was already logged): it polls a task; or it is an accepted
    `connect` / `authorize` / `run` — possible only while no call is executing — which installs the new call and flags
    the context task; or it is passive. -/
theorem apply_cases (w : World) (e : Ev) :
    (∃ t, e = .poll t ∧ w.apply e = w.pollTask t) ∨
    (∃ tk, startTask e = some tk ∧ w.task = .none ∧ w.hasCtx = true ∧
      w.apply e = ({ w with task := tk }).wake .ctx) ∨
    Passive w (w.apply e) := by
  have call : ∀ (tk : CtxTask), startTask e = some tk →
      ((if (!w.hasCtx) = true ∨ w.task ≠ .none then w.badScript else ({ w with task := tk }).wake .ctx) = w.apply e) →
      (∃ t, e = .poll t ∧ w.apply e = w.pollTask t) ∨
      (∃ tk, startTask e = some tk ∧ w.task = .none ∧ w.hasCtx = true ∧
        w.apply e = ({ w with task := tk }).wake .ctx) ∨
      Passive w (w.apply e) := by
    intro tk h1 h3
    rw [← h3]
    split
    · exact Or.inr (Or.inr (passive_badScript w))
    · rename_i hc
      simp only [not_or, Bool.not_eq_true', Bool.not_eq_false, Decidable.not_not] at hc
      exact Or.inr (Or.inl ⟨tk, h1, hc.2, hc.1, rfl⟩)
  cases e with
  | poll t =>
    simp only [apply]
    split
    · exact Or.inl ⟨t, rfl, rfl⟩
    · exact Or.inr (Or.inr (passive_refl w))
  | connect t => exact call _ rfl rfl
  | authorize a => exact call _ rfl rfl
  | run => exact call _ rfl rfl
  | setup =>
    refine Or.inr (Or.inr ?_)
    simp only [apply]
    split
    · exact passive_badScript w
    · rename_i hc
      simp only [not_or, Decidable.not_not] at hc
      split
      · split
        · exact passive_badScript w
        · exact ⟨Or.inl rfl, outExtP_of_eq rfl, rfl, Or.inl rfl, Or.inr rfl, Or.inl hc.1⟩
      · refine ⟨Or.inl ?_, ?_, ?_, Or.inl ?_, Or.inl ?_, Or.inr ?_⟩
        · show w.flushRaw.task = w.task; unfold flushRaw; split <;> rfl
        · exact outExtP_trans (flushRaw_dull w) (outExtP_of_eq rfl)
        · exact (sent_congr rfl rfl).trans (sent_flushRaw w)
        · unfold flushRaw; split <;> rfl
        · show w.flushRaw.c.retx = w.c.retx; rw [flushRaw_c]
        · unfold flushRaw; split <;> rfl
  | dropFut =>
    exact Or.inr (Or.inr ⟨Or.inr rfl, outExtP_of_eq rfl, rfl, Or.inl rfl, Or.inl rfl, Or.inl rfl⟩)
  | dropCtx =>
    refine Or.inr (Or.inr ?_)
    cases hc : w.hasCtx with
    | false =>
      simp only [apply, hc, Bool.not_false, ↓reduceIte]
      exact ⟨Or.inr rfl, outExtP_of_eq rfl, rfl, Or.inl rfl, Or.inl rfl, Or.inl rfl⟩
    | true =>
      rw [apply_dropCtx w hc]
      have inv := closes_inv (closes_dropCtxClosed w)
      refine ⟨Or.inr ?_, outExtP_of_eq ?_, sent_congr ?_ ?_, Or.inr rfl, Or.inr rfl, Or.inl ?_⟩
      · show (dropCtxClosed w).task = _; rw [inv.task_eq]; rfl
      · show (dropCtxClosed w).out = _; rw [inv.out_eq]; rfl
      · show (dropCtxClosed w).out = _; rw [inv.out_eq]; rfl
      · show (dropCtxClosed w).wirePend = _; rw [inv.wirePend_eq]; rfl
      · show (dropCtxClosed w).task = _; rw [inv.task_eq]; rfl
  | markDisc secs =>
    refine Or.inr (Or.inr ?_)
    simp only [apply]; split
    · exact passive_badScript w
    · exact ⟨Or.inl rfl, outExtP_of_eq rfl, rfl, Or.inl rfl, Or.inl rfl, Or.inr rfl⟩
  | snap =>
    refine Or.inr (Or.inr ?_)
    simp only [apply]; split
    · exact passive_badScript w
    · exact passive_emit w _ (Or.inr (Or.inr (Or.inr ⟨_, rfl⟩))) rfl
  | feed chunks =>
    refine Or.inr (Or.inr ?_)
    simp only [apply]; split
    · exact passive_badScript w
    · exact passive_feedEvents w _
  | feedEof =>
    refine Or.inr (Or.inr ?_)
    simp only [apply]; split
    · exact passive_badScript w
    · exact passive_feedEvents w _
  | feedErr =>
    refine Or.inr (Or.inr ?_)
    simp only [apply]; split
    · exact passive_badScript w
    · exact passive_feedEvents w _
  | op id h req =>
    refine Or.inr (Or.inr ?_)
    simp only [apply]; split
    · exact passive_badScript w
    · refine Passive.of_uframe (UFrame.trans ?_ (uframe_wake _ _)) (by simp) (by simp)
      exact ⟨_, _, _, _, _, _, _, _, _, _, _, _, _, _, rfl⟩
  | hold t =>
    refine Or.inr (Or.inr ?_)
    simp only [apply]; split
    · exact passive_refl w
    · exact Passive.of_uframe ⟨_, _, _, _, _, _, _, _, _, _, _, _, _, _, rfl⟩ rfl rfl
  | release t =>
    exact Or.inr (Or.inr (Passive.of_uframe ⟨_, _, _, _, _, _, _, _, _, _, _, _, _, _, rfl⟩ rfl rfl))
  | drop t =>
    refine Or.inr (Or.inr ?_)
    cases t with
    | ctx => exact passive_refl w
    | op id =>
      refine Passive.of_uframe (uframe_dropOp w id) (dropOp_rx_out w id).2 ?_
      show (w.dropOp id).queue = w.queue
      unfold dropOp
      split
      · rfl
      · simp
      · rename_i s k _; cases k <;> simp [clearSlot, dropChanRx]
    | st id =>
      simp only [apply]; split
      · exact Passive.of_uframe ((UFrame.trans ⟨_, _, _, _, _, _, _, _, _, _, _, _, _, _, rfl⟩ (uframe_dropChanRx _ _))) rfl rfl
      · exact passive_refl w
  | dropRsp id =>
    refine Or.inr (Or.inr ?_)
    simp only [apply]; split
    · exact Passive.of_uframe ((UFrame.trans ⟨_, _, _, _, _, _, _, _, _, _, _, _, _, _, rfl⟩ (uframe_dropChanRx _ _))) rfl rfl
    · exact passive_refl w
  | stream id =>
    refine Or.inr (Or.inr ?_)
    simp only [apply]; split
    · exact passive_badScript w
    · refine Passive.of_uframe (UFrame.trans ?_ (uframe_wake _ _)) (by simp) (by simp)
      exact ⟨_, _, _, _, _, _, _, _, _, _, _, _, _, _, rfl⟩
  | clone h h2 =>
    refine Or.inr (Or.inr ?_)
    simp only [apply]; split
    · exact passive_badScript w
    · exact Passive.of_uframe ⟨_, _, _, _, _, _, _, _, _, _, _, _, _, _, rfl⟩ rfl rfl
  | dropHandle h =>
    refine Or.inr (Or.inr ?_)
    simp only [apply]; split
    · exact passive_badScript w
    · refine Passive.of_uframe (UFrame.trans ?_ (uframe_senderGone _)) (by simp) (by simp)
      exact ⟨_, _, _, _, _, _, _, _, _, _, _, _, _, _, rfl⟩

/-! ## the three kinds of elementary transitions, as far as calls and the transport are concerned -/

/-- neither a `RET` line nor a `W` line -/
def Plain (o : Obs) : Prop := (∀ c r, o ≠ .ret c r) ∧ (∀ bs, o ≠ .wire bs)

theorem plain_of_userObs {o : Obs} (h : UserObs o) : Plain o := by
  rcases h with ⟨_, _, rfl⟩ | ⟨_, rfl⟩ | ⟨_, _, rfl⟩ | ⟨_, rfl⟩ <;> exact ⟨by simp, by simp⟩

theorem plain_of_dull {o : Obs} (h : Dull o) : Plain o := by
  rcases h with rfl | rfl | ⟨_, rfl⟩ | ⟨_, rfl⟩ <;> exact ⟨by simp, by simp⟩

theorem plain_ev (e : Ev) : Plain (.ev e) := ⟨by simp, by simp⟩

/-- a transition that leaves the call and the transport alone: the context task is the same or was dropped, no `RET`
    and no `W` line is logged, nothing is handed to the transport -/
structure Still (w w' : World) : Prop where
  task : w'.task = w.task ∨ w'.task = .none
  out : OutExtP Plain w w'
  sent : w'.sent = w.sent
  hasCtx : w'.task = .none ∨ w'.hasCtx = w.hasCtx

theorem still_of_passive {w w' : World} (h : Passive w w') : Still w w' :=
  ⟨h.task, outExtP_mono h.out (fun _ => plain_of_dull), h.sent, h.hasCtx⟩

/-- **The elementary transitions, classified**: a poll of the context task; the start of a call (an accepted
    `connect` / `authorize` / `run` event, only possible while no call is executing); or a transition that leaves the
    call and the transport alone. -/
theorem Micro.cases13 {w w' : World} (h : Micro w w') :
    w' = w.pollCtx ∨
    (∃ e tk, startTask e = some tk ∧ w.task = .none ∧ w.hasCtx = true ∧
      w' = ({ (w.emit (.ev e)) with task := tk }).wake .ctx) ∨
    Still w w' := by
  cases h with
  | ctx => exact Or.inl rfl
  | user t ht =>
    obtain ⟨h1, h2⟩ := pollTask_user w t ht
    exact Or.inr (Or.inr ⟨Or.inl h1.task, outExtP_mono h2 (fun _ => plain_of_userObs),
      sent_of_added h2 (fun _ => userObs_bytes) h1.wirePend, Or.inr h1.hasCtx⟩)
  | unwake t =>
    exact Or.inr (Or.inr ⟨Or.inl rfl, outExtP_of_eq rfl, rfl, Or.inr rfl⟩)
  | ev e hp hb =>
    have h0 : Still w (w.emit (.ev e)) :=
      ⟨Or.inl rfl, outExtP_one _ rfl (plain_ev e), sent_emit w _ rfl, Or.inr rfl⟩
    rcases apply_cases (w.emit (.ev e)) e with ⟨t, rfl, _⟩ | ⟨tk, h1, h2, h3, h4⟩ | hpas
    · exact absurd rfl (hp t)
    · exact Or.inr (Or.inl ⟨e, tk, h1, h2, h3, h4⟩)
    · have h5 := still_of_passive hpas
      refine Or.inr (Or.inr ⟨?_, outExtP_trans h0.out h5.out, h5.sent.trans h0.sent, ?_⟩)
      · rcases h5.task with h | h
        · exact Or.inl h
        · exact Or.inr h
      · rcases h5.hasCtx with h | h
        · exact Or.inl h
        · exact Or.inr h
  | logged t hb =>
    exact Or.inr (Or.inr ⟨Or.inl rfl, outExtP_one _ rfl (plain_ev _), sent_emit w _ rfl, Or.inr rfl⟩)
  | stall =>
    exact Or.inr (Or.inr ⟨Or.inl rfl, outExtP_one _ rfl ⟨by simp, by simp⟩, sent_emit w _ rfl, Or.inr rfl⟩)
  | flush =>
    refine Or.inr (Or.inr ⟨Or.inl ?_, outExtP_mono (flushRaw_dull w) (fun _ => plain_of_dull), sent_flushRaw w, Or.inr ?_⟩)
    · unfold flushRaw; split <;> rfl
    · unfold flushRaw; split <;> rfl

/-! ## list splitting -/

theorem w7_append_split {α} {l added pre post : List α} {x : α} (h : l ++ added = pre ++ x :: post) :
    (∃ post1, l = pre ++ x :: post1 ∧ post = post1 ++ added) ∨
    (∃ pre2, pre = l ++ pre2 ∧ added = pre2 ++ x :: post) := by
  rcases List.append_eq_append_iff.mp h with ⟨a', h1, h2⟩ | ⟨c', h1, h2⟩
  · exact Or.inr ⟨a', h1, h2⟩
  · cases c' with
    | nil => exact Or.inr ⟨[], by simp at h1 ⊢; exact h1.symm, by simpa using h2.symm⟩
    | cons y c'' =>
      simp only [List.cons_append, List.cons.injEq] at h2
      obtain ⟨rfl, h2⟩ := h2
      exact Or.inl ⟨c'', h1, h2⟩

theorem w7_in_old {α} {l added pre post : List α} {x : α} (h : l ++ added = pre ++ x :: post) (hx : x ∉ added) :
    ∃ post1, l = pre ++ x :: post1 ∧ post = post1 ++ added := by
  rcases w7_append_split h with h1 | ⟨pre2, _, h2⟩
  · exact h1
  · exact absurd (by rw [h2]; simp) hx

theorem w7_snoc_split {α} {l p2 post : List α} {a x : α} (h : l ++ [a] = p2 ++ x :: post) (hx : x ∉ l) :
    p2 = l ∧ a = x ∧ post = [] := by
  rcases w7_append_split h with ⟨post1, h1, _⟩ | ⟨pre2, h1, h2⟩
  · exact absurd (by rw [h1]; simp) hx
  · cases pre2 with
    | nil =>
      simp only [List.nil_append, List.cons.injEq] at h2
      exact ⟨by simpa using h1, h2.1, h2.2.symm⟩
    | cons y t =>
      have := congrArg List.length h2
      simp at this

/-! ## calls and returns, counted -/

/-- not a `RET` line -/
def NoRet (o : Obs) : Prop := ∀ c r, o ≠ .ret c r

theorem noRet_of_plain {o : Obs} (h : Plain o) : NoRet o := h.1

theorem noRet_wire (bs : Bytes) : NoRet (.wire bs) ∧ NoRet (.wraw bs) :=
  ⟨(by intro c r h; cases h), (by intro c r h; cases h)⟩

/-- a `RET` line of the call `c` -/
def isRetOf (c : Call) : Obs → Bool
  | .ret c' _ => decide (c' = c)
  | _ => false

/-- the log line of a script event that starts the call `c` -/
def isCallOf (c : Call) : Obs → Bool
  | .ev e => decide (isCallEv e = some c)
  | _ => false

/-- number of `RET c _` lines -/
def retCount (c : Call) (out : List Obs) : Nat := out.countP (isRetOf c)
/-- number of logged `connect` / `authorize` / `run` events (for `c` = that call) -/
def callCount (c : Call) (out : List Obs) : Nat := out.countP (isCallOf c)
/-- 1 if the call `c` is executing -/
def inFlight (w : World) (c : Call) : Nat := if taskCall w.task = some c then 1 else 0

/-- returns logged so far, plus the call still executing, do not exceed the calls logged so far -/
def CallInv (w : World) : Prop := ∀ c, retCount c w.out + inFlight w c ≤ callCount c w.out

theorem counts_noRet {w w' : World} (h : OutExtP NoRet w w') (c : Call) :
    retCount c w'.out = retCount c w.out ∧ callCount c w.out ≤ callCount c w'.out := by
  obtain ⟨added, e, hP⟩ := h
  rw [e]
  unfold retCount callCount
  rw [List.countP_append, List.countP_append]
  have : List.countP (isRetOf c) added = 0 := by
    rw [List.countP_eq_zero]
    intro o ho
    cases o with
    | ret c' r => exact absurd rfl (hP _ ho c' r)
    | _ => simp [isRetOf]
  omega

theorem callInv_still {w w' : World} (hs : Still w w') (h : CallInv w) : CallInv w' := by
  intro c
  obtain ⟨h1, h2⟩ := counts_noRet (outExtP_mono hs.out (fun _ => noRet_of_plain)) c
  have h0 := h c
  have h3 : inFlight w' c ≤ inFlight w c := by
    unfold inFlight
    rcases hs.task with e | e <;> rw [e]
    · exact Nat.le_refl _
    · simp [taskCall]
  omega

theorem callInv_start {w : World} {e : Ev} {tk : CtxTask} (h : CallInv w) (hst : startTask e = some tk)
    (ht : w.task = .none) : CallInv (({ (w.emit (.ev e)) with task := tk }).wake .ctx) := by
  intro c
  have h0 := h c
  have e1 : ((({ (w.emit (.ev e)) with task := tk }).wake .ctx)).out = w.out ++ [.ev e] := by simp
  have e2 : ((({ (w.emit (.ev e)) with task := tk }).wake .ctx)).task = tk := by simp
  have e3 : inFlight w c = 0 := by simp [inFlight, ht, taskCall]
  have e4 : isCallEv e = taskCall tk := by simp [isCallEv, hst]
  unfold inFlight retCount callCount at *
  rw [e1, e2, List.countP_append, List.countP_append]
  simp only [List.countP_cons, List.countP_nil, isRetOf, isCallOf, e4]
  by_cases hc : taskCall tk = some c <;> simp [hc] <;> omega

theorem callInv_pollCtx {w : World} (h : CallInv w) : CallInv w.pollCtx := by
  intro c
  have h0 := h c
  rcases pollCtx_shape w with ⟨h1, h2⟩ | ⟨h1, pre, last, hq, ho, hl⟩
  · obtain ⟨h3, h4⟩ := counts_noRet (outExtP_of_outExt h2 noRet_wire) c
    have : inFlight w.pollCtx c = inFlight w c := by unfold inFlight; rw [h1.call]
    omega
  · have hpre : OutExtP NoRet w ({ w with out := w.out ++ pre } : World) :=
      ⟨pre, rfl, fun o ho => by obtain ⟨bs, rfl | rfl⟩ := hq o ho; exact (noRet_wire bs).1; exact (noRet_wire bs).2⟩
    obtain ⟨h3, h4⟩ := counts_noRet hpre c
    simp only at h3 h4
    have e0 : inFlight w.pollCtx c = 0 := by simp [inFlight, h1, taskCall]
    unfold retCount callCount at *
    rw [ho, List.countP_append, List.countP_append]
    rw [List.countP_append] at h3 h4
    rcases hl with ⟨c0, r, rfl, hc0⟩ | ⟨cls, rfl⟩
    · have : inFlight w c = if c0 = c then 1 else 0 := by simp [inFlight, hc0]
      simp only [List.countP_cons, List.countP_nil, isRetOf, isCallOf]
      by_cases hc : c0 = c <;> simp [hc] at this ⊢ <;> omega
    · simp only [List.countP_cons, List.countP_nil, isRetOf, isCallOf]
      simp
      omega

theorem callInv_micro {w w' : World} (hm : Micro w w') (h : CallInv w) : CallInv w' := by
  rcases hm.cases13 with rfl | ⟨e, tk, h1, h2, _, rfl⟩ | hs
  · exact callInv_pollCtx h
  · exact callInv_start h h1 h2
  · exact callInv_still hs h

theorem during_callInv {cfg : Cfg} {w : World} (h : During cfg w) : CallInv w := by
  induction h with
  | init => intro c; simp [retCount, callCount, inFlight, taskCall]
  | next _ hm ih => exact callInv_micro hm ih

/-! ## the context task is never a `connect()` future labelled `run` -/

def TaskOk (w : World) : Prop := ∀ t a s, w.task ≠ .connecting .run t a s

theorem taskOk_micro {w w' : World} (hm : Micro w w') (h : TaskOk w) : TaskOk w' := by
  rcases hm.cases13 with rfl | ⟨e, tk, h1, h2, _, rfl⟩ | hs
  · rcases pollCtx_shape w with ⟨h1, _⟩ | ⟨h1, _⟩
    · intro t a s hc
      rcases h1 with e | ⟨call, t', au, e1, e2⟩ | ⟨e1, e2⟩
      · rw [e] at hc; exact h t a s hc
      · rw [e2] at hc; cases hc; exact h _ _ _ e1
      · rw [e2] at hc; cases hc
    · intro t a s hc; rw [h1] at hc; cases hc
  · intro t a s hc
    simp only [wake_task] at hc
    subst hc
    cases e <;> simp [startTask] at h1
  · intro t a s hc
    rcases hs.task with e | e
    · rw [e] at hc; exact h t a s hc
    · rw [e] at hc; cases hc

theorem during_taskOk {cfg : Cfg} {w : World} (h : During cfg w) : TaskOk w := by
  induction h with
  | init => intro t a s hc; cases hc
  | next _ hm ih => exact taskOk_micro hm ih

/-- a call labelled `run` that is executing is the `run()` future -/
theorem running_of_call_run {w : World} (h : TaskOk w) (hc : taskCall w.task = some .run) :
    ∃ s, w.task = .running s := by
  cases ht : w.task with
  | none => rw [ht] at hc; cases hc
  | connecting call t a s =>
    rw [ht] at hc
    simp only [taskCall, Option.some.injEq] at hc
    subst hc
    exact absurd ht (h t a s)
  | running s => exact ⟨s, rfl⟩

/-! ## where a `RET` line of the transcript comes from -/

/-- **Every `RET` line was logged by a poll of the context task that ended the call.** If the transcript of a moment
    of an execution is `pre ++ RET c r :: post`, then there was an earlier moment `w0` at which the call `c` was
    executing and the poll of the context task from `w0` produced exactly the transcript `pre ++ [RET c r]` and ended
    the call. -/
theorem during_ret_origin {cfg : Cfg} {w : World} (h : During cfg w) {pre post : List Obs} {c : Call} {r : RetRes}
    (ho : w.out = pre ++ .ret c r :: post) :
    ∃ w0, During cfg w0 ∧ taskCall w0.task = some c ∧ w0.pollCtx.task = .none ∧
      w0.pollCtx.out = pre ++ [.ret c r] ∧ Reaches w0.pollCtx w := by
  induction h generalizing post with
  | init => simp at ho
  | @next w w' hd hm ih =>
    have old : ∀ added, w'.out = w.out ++ added → Obs.ret c r ∉ added →
        ∃ w0, During cfg w0 ∧ taskCall w0.task = some c ∧ w0.pollCtx.task = .none ∧
          w0.pollCtx.out = pre ++ [.ret c r] ∧ Reaches w0.pollCtx w' := by
      intro added e hx
      rw [e] at ho
      obtain ⟨post1, h1, _⟩ := w7_in_old ho hx
      obtain ⟨w0, a1, a2, a3, a4, a5⟩ := ih h1
      exact ⟨w0, a1, a2, a3, a4, a5.tail hm⟩
    rcases hm.cases13 with rfl | ⟨e, tk, h1, h2, _, rfl⟩ | hs
    · rcases pollCtx_shape w with ⟨_, p, hq, hp⟩ | ⟨h1, pre', last, hq, hp, hl⟩
      · refine old p hp ?_
        intro hx
        obtain ⟨bs, h | h⟩ := hq _ hx <;> cases h
      · rw [hp, List.append_assoc] at ho
        rcases w7_append_split ho with ⟨post1, h2, _⟩ | ⟨pre2, h2, h3⟩
        · obtain ⟨w0, a1, a2, a3, a4, a5⟩ := ih h2
          exact ⟨w0, a1, a2, a3, a4, a5.tail hm⟩
        · have hx : Obs.ret c r ∉ pre' := by
            intro hx
            obtain ⟨bs, h | h⟩ := hq _ hx <;> cases h
          obtain ⟨e1, e2, e3⟩ := w7_snoc_split h3 hx
          subst e1 e2 e3
          rcases hl with ⟨c0, r0, hl, hc0⟩ | ⟨cls, hl⟩
          · cases hl
            exact ⟨w, hd, hc0, h1, by rw [hp, h2], .refl _⟩
          · cases hl
    · exact old [.ev e] (by simp) (by simp)
    · obtain ⟨added, e, hP⟩ := hs.out
      exact old added e (fun hx => (hP _ hx).1 c r rfl)

/-! ## why `run()` returns -/

/-- **Why the iteration of the `select!` loop that starts in the world `wm` makes `run()` return `r`** (`fin` is the
    world after it). -/
inductive EndCause (wm fin : World) : RetRes → Prop
  /-- the user's DISCONNECT — a fire-and-forget message whose packet has type 14, within the size limit — was at the head
      of the queue and the transport took it: it is written, its caller is notified, `RET run Ok` is logged right after
      the write and the task is over; the messages behind it are not handled -/
  | userDisconnect (pkt : Bytes) (slot : Nat) (q : List Msg) :
      wm.queue = .ff pkt slot :: q → pktType pkt = 14 → wm.c.sizeOk pkt = true → wm.canWrite pkt.length = true →
      fin = ((({ wm with queue := q }).writeBytes pkt).sendSlot slot .unit).finish .run .ok →
      EndCause wm fin .ok
  /-- nothing queued; the next frame decodes to a server DISCONNECT with reason 0 -/
  | serverDisconnect0 (rx' : Rx) (rd' : List ReadEv) (fr : Bytes) (d : DisconnectRx) :
      wm.queue = [] → wm.senders ≠ 0 → pollNext wm.rx wm.reader = (rx', rd', .item fr) →
      decodeRx fr = .ok (.disconnect d) → d.reason = 0 → EndCause wm fin .ok
  /-- nothing queued; the next frame decodes to a server DISCONNECT `d` with another reason -/
  | serverDisconnect (rx' : Rx) (rd' : List ReadEv) (fr : Bytes) (d : DisconnectRx) :
      wm.queue = [] → wm.senders ≠ 0 → pollNext wm.rx wm.reader = (rx', rd', .item fr) →
      decodeRx fr = .ok (.disconnect d) → d.reason ≠ 0 → EndCause wm fin (.disconnected d)
  /-- nothing queued and no sender of the message queue left: every handle and every pending handle future is gone -/
  | handleClosed : wm.queue = [] → wm.senders = 0 → fin = wm.finish .run (.err .handleClosed) →
      EndCause wm fin (.err .handleClosed)
  /-- nothing queued; the framing layer reports the end of the stream (end of stream, read error, malformed length) -/
  | streamEnded (rx' : Rx) (rd' : List ReadEv) :
      wm.queue = [] → wm.senders ≠ 0 → pollNext wm.rx wm.reader = (rx', rd', .none) →
      EndCause wm fin (.err .socketClosed)
  /-- the request at the head of the queue had to be written and the transport refused the write -/
  | requestWriteFailed (m : Msg) (q : List Msg) :
      wm.queue = m :: q → wm.canWrite (writeNeed (wm.c.handleMsg m true).2.1) = false →
      writesOf (wm.c.handleMsg m false).2.1 ≠ [] → EndCause wm fin (.err .socketClosed)
  /-- the acknowledgement owed for the inbound packet `p` had to be written and the transport refused the write -/
  | ackWriteFailed (rx' : Rx) (rd' : List ReadEv) (fr : Bytes) (p : RxPacket) :
      wm.queue = [] → wm.senders ≠ 0 → pollNext wm.rx wm.reader = (rx', rd', .item fr) → decodeRx fr = .ok p →
      wm.canWrite (writeNeed (wm.c.handlePkt wm.chanRxAlive p true).2.1) = false →
      writesOf (wm.c.handlePkt wm.chanRxAlive p false).2.1 ≠ [] → EndCause wm fin (.err .socketClosed)
  /-- nothing queued; the next complete frame does not decode -/
  | undecodable (rx' : Rx) (rd' : List ReadEv) (fr : Bytes) :
      wm.queue = [] → wm.senders ≠ 0 → pollNext wm.rx wm.reader = (rx', rd', .item fr) → decodeRx fr = .err →
      EndCause wm fin (.err .codecError)

theorem canWrite_queue (w : World) (q : List Msg) (n : Nat) : ({ w with queue := q } : World).canWrite n = w.canWrite n := rfl
theorem canWrite_rx (w : World) (rx' : Rx) (rd' : List ReadEv) (n : Nat) :
    ({ w with rx := rx', reader := rd' } : World).canWrite n = w.canWrite n := rfl

/-- a final iteration of the loop: the task is over with a `RET run r` for a documented cause, or with a decoder
    panic, or the task stays pending -/
theorem runEnd_cause {wm fin : World} (h : RunEnd wm fin) :
    (fin.task = .none ∧ ∃ r pre, fin.out = pre ++ [.ret .run r] ∧ EndCause wm fin r) ∨
    (fin.task = .none ∧ ∃ pre, fin.out = pre ++ [.panic .ctx "other"]) ∨
    (fin.task = wm.task ∧ fin.out = wm.out) := by
  cases h with
  | msgExit m q w1 fl hq hr hne =>
    left
    refine ⟨rfl, flowRet fl, w1.out, rfl, ?_⟩
    have e := runHandler_eq ({ wm with queue := q } : World) (fun wok => wm.c.handleMsg m wok)
    rw [hr] at e
    simp only [canWrite_queue] at e
    have hfl : fl = (wm.c.handleMsg m (wm.canWrite (writeNeed (wm.c.handleMsg m true).2.1))).2.2 :=
      congrArg Prod.snd e
    have hw1 := congrArg Prod.fst e
    simp only at hw1
    obtain ⟨f1, f2, f3, f4⟩ := handleMsg_flow wm.c m (wm.canWrite (writeNeed (wm.c.handleMsg m true).2.1))
    cases fl with
    | cont => exact absurd rfl hne
    | exitOk =>
      obtain ⟨pkt, slot, rfl, h14, hs, hb⟩ := f1.mp hfl.symm
      have hn : writeNeed (wm.c.handleMsg (.ff pkt slot) true).2.1 = pkt.length := by
        simp [Ctx.handleMsg, hs, writeNeed]
      rw [hn] at hb
      refine .userDisconnect pkt slot q hq h14 hs hb ?_
      rw [hw1, hn, hb]
      simp [Ctx.handleMsg, hs, h14, applyEffs, applyEff, flowRet]
    | exitSocket =>
      obtain ⟨hb, hwr⟩ := f2.mp hfl.symm
      rw [hb] at hwr
      exact .requestWriteFailed m q hq hb hwr
    | exitDisconnected d => exact absurd hfl.symm (f3 d)
  | closed hq hs => exact Or.inl ⟨rfl, _, wm.out, rfl, .handleClosed hq hs rfl⟩
  | pktExit rx' rd' fr p w1 fl hq hs hp hd hr hne =>
    left
    refine ⟨rfl, flowRet fl, w1.out, rfl, ?_⟩
    have e := runHandler_eq ({ wm with rx := rx', reader := rd' } : World)
      (fun wok => wm.c.handlePkt wm.chanRxAlive p wok)
    rw [hr] at e
    simp only [canWrite_rx] at e
    have hfl : fl = (wm.c.handlePkt wm.chanRxAlive p
        (wm.canWrite (writeNeed (wm.c.handlePkt wm.chanRxAlive p true).2.1))).2.2 := congrArg Prod.snd e
    obtain ⟨f1, f2, f3, f4⟩ := handlePkt_flow wm.c wm.chanRxAlive p
      (wm.canWrite (writeNeed (wm.c.handlePkt wm.chanRxAlive p true).2.1))
    cases fl with
    | cont => exact absurd rfl hne
    | exitOk =>
      obtain ⟨d, rfl, hr0⟩ := f1.mp hfl.symm
      exact .serverDisconnect0 rx' rd' fr d hq hs hp hd hr0
    | exitSocket =>
      obtain ⟨hb, hwr⟩ := f3.mp hfl.symm
      rw [hb] at hwr
      exact .ackWriteFailed rx' rd' fr p hq hs hp hd hb hwr
    | exitDisconnected d =>
      obtain ⟨rfl, hr0⟩ := (f2 d).mp hfl.symm
      exact .serverDisconnect rx' rd' fr d hq hs hp hd hr0
  | codec rx' rd' fr hq hs hp hd => exact Or.inl ⟨rfl, _, wm.out, rfl, .undecodable rx' rd' fr hq hs hp hd⟩
  | panic rx' rd' fr hq hs hp hd => exact Or.inr (Or.inl ⟨rfl, wm.out, rfl⟩)
  | sock rx' rd' hq hs hp => exact Or.inl ⟨rfl, _, wm.out, rfl, .streamEnded rx' rd' hq hs hp⟩
  | pending rx' rd' hq hs hp =>
    refine Or.inr (Or.inr ?_)
    by_cases hrd : rd' = []
    · rw [if_pos hrd]; exact ⟨rfl, rfl⟩
    · rw [if_neg hrd]; exact ⟨by simp, by simp⟩

/-- **Why a poll of `run()` that starts in the world `w` returns `r`** (`started`: the future was polled before;
    `fin`: the world after the poll). -/
inductive ReturnCause (w : World) (started : Bool) (fin : World) : RetRes → Prop
  /-- first poll: the session is resumed and the transport fails while the unfinished handshakes are re-sent -/
  | resendFailed : started = false → w.resumed.canWrite ((w.c.resume.2.2.map List.length).sum) = false →
      ReturnCause w started fin (.err .socketClosed)
  /-- after zero or more iterations of the loop that go on — from `w` itself, or on a first poll from `w.resent`
      (session resumed, unfinished handshakes re-sent) — the iteration that starts in `wm` ends the call -/
  | loop (w1 wm : World) (r : RetRes) : (started = true → w1 = w) →
      (started = false → w.resumed.canWrite ((w.c.resume.2.2.map List.length).sum) = true ∧ w1 = w.resent) →
      Serve w1 wm → EndCause wm fin r → ReturnCause w started fin r

/-- `wm` is the world at the start of an iteration of the poll of `run()` that starts in `w` (`started`: the future was
    polled before): it is reached by iterations that go on from `w` itself, or — on a first poll, the transport having
    taken the re-sent packets — from `w.resent` (session resumed, unfinished handshakes re-sent) -/
def InPoll (w : World) (started : Bool) (wm : World) : Prop :=
  ∃ w1, (started = true → w1 = w) ∧
    (started = false → w.resumed.canWrite ((w.c.resume.2.2.map List.length).sum) = true ∧ w1 = w.resent) ∧
    Serve w1 wm

theorem runLoop_cause (f : Nat) (w1 : World) (ht : w1.task ≠ .none) (hn : (runLoop f w1).task = .none) :
    (∃ r pre wm, (runLoop f w1).out = pre ++ [.ret .run r] ∧ Serve w1 wm ∧ EndCause wm (runLoop f w1) r) ∨
    (∃ pre, (runLoop f w1).out = pre ++ [.panic .ctx "other"]) := by
  obtain ⟨wm, hs, he⟩ := runLoop_decomp f w1
  have htm := (serve_frame hs).1
  rcases he with he | he
  · rw [he, htm] at hn; exact absurd hn ht
  · rcases runEnd_cause he with ⟨_, r, pre, ho, hc⟩ | ⟨_, pre, ho⟩ | ⟨h1, _⟩
    · exact Or.inl ⟨r, pre, wm, ho, hs, hc⟩
    · exact Or.inr ⟨pre, ho⟩
    · rw [h1, htm] at hn; exact absurd hn ht

/-- **A poll of `run()` that ends the call** logs, as its last line, `RET run r` for a documented cause — or the
    decoder panicked (excluded for reachable framing states, C04). -/
theorem pollRun_cause (w : World) (s : Bool) (ht : w.task = .running s) (hn : w.pollCtx.task = .none) :
    (∃ r pre, w.pollCtx.out = pre ++ [.ret .run r] ∧ ReturnCause w s w.pollCtx r) ∨
    (∃ pre, w.pollCtx.out = pre ++ [.panic .ctx "other"]) := by
  have hp : w.pollCtx = w.pollRun s := by simp [pollCtx, ht]
  rw [hp] at hn ⊢
  cases s with
  | true =>
    simp only [pollRun, ↓reduceIte] at hn ⊢
    rcases runLoop_cause w.loopFuel w (by rw [ht]; simp) hn with ⟨r, pre, wm, ho, hs, hc⟩ | h
    · exact Or.inl ⟨r, pre, ho, .loop w wm r (fun _ => rfl) (fun h => by cases h) hs hc⟩
    · exact Or.inr h
  | false =>
    rw [pollRun_first_eq] at hn ⊢
    cases hcw : w.resumed.canWrite ((w.c.resume.2.2.map List.length).sum) with
    | true =>
      simp only [hcw, ↓reduceIte] at hn ⊢
      have ht1 : w.resent.task = .running true := by
        rw [resent, (foldl_writeBytes_frame _ _).2.2.2.2.2.1]; simp [resumed]
      rcases runLoop_cause w.resent.loopFuel w.resent (by rw [ht1]; simp) hn with ⟨r, pre, wm, ho, hs, hc⟩ | h
      · exact Or.inl ⟨r, pre, ho, .loop w.resent wm r (fun h => by cases h) (fun _ => ⟨hcw, rfl⟩) hs hc⟩
      · exact Or.inr h
    | false =>
      simp only [hcw, Bool.false_eq_true, ↓reduceIte]
      exact Or.inl ⟨_, _, rfl, .resendFailed rfl hcw⟩

/-! ## after a return, until the next call -/

theorem startTask_call {e : Ev} {tk : CtxTask} (h : startTask e = some tk) :
    ∃ c, isCallEv e = some c ∧ taskCall tk = some c := by
  cases e <;> simp [startTask] at h <;> subst h <;> exact ⟨_, rfl, rfl⟩

theorem quiet_no_ret {p : List Obs} (hq : Quiet p) (c : Call) (r : RetRes) : Obs.ret c r ∉ p := by
  intro hx
  obtain ⟨bs, h | h⟩ := hq _ hx <;> cases h

/-- **After a `RET`, and as long as no `connect` / `authorize` / `run` event follows, the context task is idle and
    nothing is handed to the transport.** If the transcript of a moment of an execution is `pre ++ RET c r :: mid` and
    `mid` contains no such event, then no call is executing, `mid` contains no `W` line, and the bytes handed to the
    transport are exactly those handed to it when the `RET` was logged — by the poll of the context task from the
    earlier moment `w0`, at which the call `c` was executing. -/
theorem during_after_ret {cfg : Cfg} {w : World} (h : During cfg w) {pre mid : List Obs} {c : Call} {r : RetRes}
    (ho : w.out = pre ++ .ret c r :: mid) (hmid : ∀ o ∈ mid, ∀ e, o = .ev e → isCallEv e = none) :
    w.task = .none ∧ (∀ o ∈ mid, ∀ bs, o ≠ .wire bs) ∧
    ∃ w0, During cfg w0 ∧ taskCall w0.task = some c ∧ w0.pollCtx.task = .none ∧
      w0.pollCtx.out = pre ++ [.ret c r] ∧ w.sent = w0.pollCtx.sent ∧ Reaches w0.pollCtx w := by
  induction h generalizing mid with
  | init => simp at ho
  | @next w w' hd hm ih =>
    rcases hm.cases13 with rfl | ⟨e, tk, h1, h2, _, rfl⟩ | hs
    · by_cases ht : w.task = .none
      · have e : w.pollCtx = w := by simp [pollCtx, ht]
        rw [e] at ho ⊢
        exact ih ho hmid
      · rcases pollCtx_shape w with ⟨_, p, hq, hp⟩ | ⟨h1, pre', last, hq, hp, hl⟩
        · rw [hp] at ho
          obtain ⟨mid0, h1, h2⟩ := w7_in_old ho (quiet_no_ret hq c r)
          exact absurd (ih h1 (fun o ho' => hmid o (by rw [h2]; simp [ho']))).1 ht
        · rw [hp, List.append_assoc] at ho
          rcases w7_append_split ho with ⟨mid0, h2, h3⟩ | ⟨pre2, h2, h3⟩
          · exact absurd (ih h2 (fun o ho' => hmid o (by rw [h3]; simp [ho']))).1 ht
          · obtain ⟨e1, e2, e3⟩ := w7_snoc_split h3 (quiet_no_ret hq c r)
            subst e1 e2 e3
            rcases hl with ⟨c0, r0, hl, hc0⟩ | ⟨cls, hl⟩
            · cases hl
              exact ⟨h1, by simp, w, hd, hc0, h1, by rw [hp, h2], rfl, .refl _⟩
            · cases hl
    · have e1 : ((({ (w.emit (.ev e)) with task := tk }).wake .ctx)).out = w.out ++ [.ev e] := by simp
      rw [e1] at ho
      obtain ⟨mid0, _, h4⟩ := w7_in_old ho (by simp)
      obtain ⟨c0, h5, _⟩ := startTask_call h1
      have := hmid (.ev e) (by rw [h4]; simp) e rfl
      rw [h5] at this; cases this
    · obtain ⟨added, e, hP⟩ := hs.out
      rw [e] at ho
      obtain ⟨mid0, h1, h2⟩ := w7_in_old ho (fun hx => (hP _ hx).1 c r rfl)
      obtain ⟨i1, i2, w0, i3, i4, i5, i6, i7, i8⟩ := ih h1 (fun o ho' => hmid o (by rw [h2]; simp [ho']))
      refine ⟨?_, ?_, w0, i3, i4, i5, i6, hs.sent.trans i7, i8.tail hm⟩
      · rcases hs.task with e | e
        · rw [e]; exact i1
        · exact e
      · intro o ho' bs
        rw [h2] at ho'
        rcases List.mem_append.mp ho' with ho' | ho'
        · exact i2 o ho' bs
        · exact (hP o ho').2 bs

/-- the user's DISCONNECT, written: the bytes handed to the transport end with that packet and the `RET` follows the
    write immediately -/
theorem userDisconnect_last_write {wm fin : World} {pkt : Bytes} {slot : Nat} {q : List Msg}
    (hw : wm.canWrite pkt.length = true)
    (hf : fin = ((({ wm with queue := q }).writeBytes pkt).sendSlot slot .unit).finish .run .ok) :
    fin.sent = wm.sent ++ pkt ∧
    fin.out = (({ wm with queue := q } : World).writeBytes pkt).out ++ [.ret .run .ok] := by
  subst hf
  refine ⟨?_, by simp⟩
  rw [sent_finish]
  have h1 : ((({ wm with queue := q } : World).writeBytes pkt).sendSlot slot .unit).sent =
      (({ wm with queue := q } : World).writeBytes pkt).sent := sent_congr (by simp) (by simp)
  rw [h1, (sent_writeBytes ({ wm with queue := q } : World) pkt hw).1]
  rfl

/-! ## the framing state stays reachable -/

theorem during_reach {cfg : Cfg} {w : World} (h : During cfg w) : Reach w.rx := by
  induction h with
  | init => exact Reach.init
  | next _ hm ih =>
    cases hm with
    | ctx => exact pollCtx_reach _ ih
    | user t ht => exact (pollTask_safe _ t ih).1
    | unwake t => exact ih
    | ev e hp hb => exact (apply_safe _ e (by simpa using ih)).1
    | logged t hb => exact ih
    | stall => exact ih
    | flush => exact (flushRaw_safe _ ih).1

/-! ## `run()` stays pending only while none of the causes holds -/

/-- **If a poll of `run()` leaves the future pending**, then at the last iteration of that poll (world `wm`, reached
    from the start of the poll by iterations that go on) nothing was queued, a sender of the message queue was alive,
    and the framing layer had no complete frame and no end of stream (`pollNext` returned `pending`); afterwards the
    queue is empty, the queue waker is armed and either the transport waker is armed (nothing left to read) or the
    context task is flagged again. -/
theorem run_pending_facts (w : World) (s : Bool) (ht : w.task = .running s) (hok : w.rx.Ok)
    (hn : w.pollCtx.task ≠ .none) :
    w.pollCtx.task = .running true ∧ w.pollCtx.queue = [] ∧ w.pollCtx.queueReg = true ∧ w.senders ≠ 0 ∧
    ((w.pollCtx.reader = [] ∧ w.pollCtx.readerReg = true) ∨ .ctx ∈ w.pollCtx.woken) ∧
    ∃ wm : World, InPoll w s wm ∧ wm.queue = [] ∧ wm.senders ≠ 0 ∧
      pollNext wm.rx wm.reader = (w.pollCtx.rx, w.pollCtx.reader, .pending) := by
  have hp : w.pollCtx = w.pollRun s := by simp [pollCtx, ht]
  rw [hp] at hn ⊢
  have key : ∀ w1 : World, w1.task = .running true → w1.rx.Ok → w1.senders = w.senders →
      (∀ wm, Serve w1 wm → InPoll w s wm) →
      (runLoop w1.loopFuel w1).task ≠ .none →
      (runLoop w1.loopFuel w1).task = .running true ∧ (runLoop w1.loopFuel w1).queue = [] ∧
      (runLoop w1.loopFuel w1).queueReg = true ∧ w.senders ≠ 0 ∧
      (((runLoop w1.loopFuel w1).reader = [] ∧ (runLoop w1.loopFuel w1).readerReg = true) ∨
        .ctx ∈ (runLoop w1.loopFuel w1).woken) ∧
      ∃ wm : World, InPoll w s wm ∧ wm.queue = [] ∧ wm.senders ≠ 0 ∧
        pollNext wm.rx wm.reader = ((runLoop w1.loopFuel w1).rx, (runLoop w1.loopFuel w1).reader, .pending) := by
    intro w1 ht1 hok1 hs1 hin hn1
    obtain ⟨wm, hs, he⟩ := runLoop_full w1 hok1
    rcases runEnd_out he with ⟨h1, _⟩ | ⟨b1, b2, b3, b4, b5, b6, b7, b8⟩
    · exact absurd h1 hn1
    · have hsm := serve_senders hs
      exact ⟨by rw [b1, (serve_frame hs).1, ht1], b4, b3, by rw [← hs1, ← hsm]; exact b6, b7, wm, hin wm hs, b5, b6,
        b8⟩
  cases s with
  | true =>
    simp only [pollRun, ↓reduceIte] at hn ⊢
    exact key w ht hok rfl (fun wm hs => ⟨w, fun _ => rfl, (fun h => by cases h), hs⟩) hn
  | false =>
    rw [pollRun_first_eq] at hn ⊢
    cases hcw : w.resumed.canWrite ((w.c.resume.2.2.map List.length).sum) with
    | true =>
      simp only [hcw, ↓reduceIte] at hn ⊢
      obtain ⟨a1, _, _, a4, a5, a6, _⟩ := foldl_writeBytes_frame w.c.resume.2.2 w.resumed
      refine key w.resent ?_ ?_ ?_ (fun wm hs => ⟨w.resent, (fun h => by cases h), fun _ => ⟨hcw, rfl⟩, hs⟩) hn
      · show (w.c.resume.2.2.foldl (fun w p => w.writeBytes p) w.resumed).task = _
        rw [a6]; simp [resumed]
      · show (w.c.resume.2.2.foldl (fun w p => w.writeBytes p) w.resumed).rx.Ok
        rw [a1]; simpa [resumed] using hok
      · show (w.c.resume.2.2.foldl (fun w p => w.writeBytes p) w.resumed).senders = _
        simp only [senders, a4, a5]; simp [resumed]
    | false =>
      simp only [hcw, Bool.false_eq_true, ↓reduceIte] at hn
      exact absurd rfl hn

/-! # C06 — the PUBREL of a QoS 2 publish -/

/-- the PUBREL message `publish()` sends for the packet identifier `pid`, to be acknowledged on the oneshot `s` -/
def pubrelMsg (pid s : Nat) : Msg := .awaitAck (actionId 7 pid) (ackBytes 0x62 pid) s

/-- a queued message of packet type 6 is a PUBREL built by `publish()` -/
def MsgForm (m : Msg) : Prop := pktType m.pkt = 6 → ∃ pid s, m = pubrelMsg pid s

/-- the retransmit-queue entry of such a PUBREL: stored under its PUBCOMP action identifier, bytes unchanged -/
def PubrelEntry (x : Nat × Bytes) : Prop := ∃ pid, x = (actionId 7 pid, ackBytes 0x62 pid)

/-- an entry of the retransmit queue of packet type 6 is the entry of a PUBREL built by `publish()` -/
def RetxForm (x : Nat × Bytes) : Prop := pktType x.2 = 6 → PubrelEntry x

/-- every queued message satisfies `Q`, every entry of the retransmit queue of packet type 6 satisfies `R` -/
structure Held (Q : Msg → Prop) (R : Nat × Bytes → Prop) (w : World) : Prop where
  queue : ∀ m ∈ w.queue, Q m
  retx : ∀ x ∈ w.c.retx, pktType x.2 = 6 → R x

/-- every PUBREL the context holds — queued or kept for retransmission — is one `publish()` built -/
abbrev PubrelForm (w : World) : Prop := Held MsgForm PubrelEntry w

theorem pktType_setDup (pkt : Bytes) : pktType (setDup pkt) = pktType pkt := by
  cases pkt with
  | nil => rfl
  | cons b t =>
    simp only [setDup, pktType]
    have hb : b.toNat < 256 := UInt8.toNat_lt b
    obtain ⟨_, h2, _, h4⟩ := lor8_bits b.toNat hb
    rw [UInt8.toNat_ofNat', Nat.mod_eq_of_lt h4, h2]

section HeldInv
variable {Q : Msg → Prop} {R : Nat × Bytes → Prop}

/-- the retransmit queue gains an entry of packet type 6 only by handling a queued message of packet type 6, whose
    action identifier and bytes it keeps -/
theorem retx6_stepIn (c : Ctx) (i : CIn) (h : ∀ x ∈ c.retx, pktType x.2 = 6 → R x)
    (hm : ∀ aid pkt s wok, i = .msg (.awaitAck aid pkt s) wok → pktType pkt = 6 → R (aid, pkt)) :
    ∀ x ∈ (c.stepIn i).1.retx, pktType x.2 = 6 → R x := by
  rw [step_retx]
  cases i with
  | msg m wok =>
    cases m with
    | ff pkt slot => exact h
    | subscribe aid sid pkt slot chan => exact h
    | awaitAck aid pkt slot =>
      have hf := hm aid pkt slot wok rfl
      simp only [Ctx.stepIn, retxStep]
      split
      · split
        · rename_i h3
          intro x hx
          rcases List.mem_append.mp hx with hx | hx
          · exact h x hx
          · simp only [List.mem_singleton] at hx
            subst hx
            intro h6
            simp only [pktType_setDup] at h6
            omega
        · split
          · rename_i h6
            intro x hx
            rcases List.mem_append.mp hx with hx | hx
            · exact h x hx
            · simp only [List.mem_singleton] at hx
              subst hx
              intro _
              exact hf h6
          · exact h
      · exact h
  | pkt p dead wok =>
    intro x hx
    have sub : ∀ k, x ∈ eraseFirst k c.retx → x ∈ c.retx := fun k hk => (User.eraseFirst_sublist k c.retx).subset hk
    cases p <;> simp only [Ctx.stepIn, retxStep] at hx <;> first | exact h x hx | exact h x (sub _ hx)

variable (hQR : ∀ aid pkt s, Q (.awaitAck aid pkt s) → pktType pkt = 6 → R (aid, pkt))
include hQR

theorem held_msg (w : World) (m : Msg) (q : List Msg) (hq : w.queue = m :: q) (hi : Held Q R w) :
    Held Q R (({ w with queue := q }).runHandler (fun wok => w.c.handleMsg m wok)).1 := by
  rw [runHandler_eq_stepIn_msg]
  refine ⟨?_, ?_⟩
  · intro m' hm'
    simp only [applyEffs_queue] at hm'
    exact hi.queue m' (by rw [hq]; exact List.mem_cons_of_mem _ hm')
  · intro x hx
    simp only [applyEffs_c] at hx
    refine retx6_stepIn w.c (w.inMsg m) hi.retx ?_ x hx
    intro aid pkt s wok h
    cases h
    exact hQR aid pkt s (hi.queue _ (by rw [hq]; exact List.mem_cons_self))

omit hQR in
theorem held_pkt (w : World) (rx' : Rx) (rd' : List ReadEv) (p : RxPacket) (hi : Held Q R w) :
    Held Q R (({ w with rx := rx', reader := rd' }).runHandler (fun wok => w.c.handlePkt w.chanRxAlive p wok)).1 := by
  rw [runHandler_eq_stepIn_pkt]
  refine ⟨?_, ?_⟩
  · intro m' hm'
    simp only [applyEffs_queue] at hm'
    exact hi.queue m' hm'
  · intro x hx
    simp only [applyEffs_c] at hx
    exact retx6_stepIn w.c (w.inPkt p) hi.retx (fun aid pkt s wok h => by cases h) x hx

omit hQR in
theorem held_congr {w w' : World} (hi : Held Q R w) (hq : w'.queue = w.queue) (hc : w'.c.retx = w.c.retx) :
    Held Q R w' := ⟨by rw [hq]; exact hi.queue, by rw [hc]; exact hi.retx⟩

theorem held_runCont {w w1 : World} (h : RunCont w w1) (hi : Held Q R w) : Held Q R w1 := by
  cases h with
  | msg m q w1 hq hr =>
    have e : w1 = (World.runHandler { w with queue := q } (fun wok => w.c.handleMsg m wok)).1 := by rw [hr]
    subst e; exact held_msg hQR w m q hq hi
  | pkt rx' rd' fr p w1 hq hs hp hd hr =>
    have e : w1 = (World.runHandler { w with rx := rx', reader := rd' }
        (fun wok => w.c.handlePkt w.chanRxAlive p wok)).1 := by rw [hr]
    subst e; exact held_pkt w rx' rd' p hi

theorem held_runEnd {w r : World} (h : RunEnd w r) (hi : Held Q R w) : Held Q R r := by
  cases h with
  | msgExit m q w1 fl hq hr hne =>
    have e : w1 = (World.runHandler { w with queue := q } (fun wok => w.c.handleMsg m wok)).1 := by rw [hr]
    subst e; exact held_congr (held_msg hQR w m q hq hi) rfl rfl
  | closed hq hs => exact held_congr hi rfl rfl
  | pktExit rx' rd' fr p w1 fl hq hs hp hd hr hne =>
    have e : w1 = (World.runHandler { w with rx := rx', reader := rd' }
        (fun wok => w.c.handlePkt w.chanRxAlive p wok)).1 := by rw [hr]
    subst e; exact held_congr (held_pkt w rx' rd' p hi) rfl rfl
  | codec rx' rd' fr hq hs hp hd => exact held_congr hi rfl rfl
  | panic rx' rd' fr hq hs hp hd => exact held_congr hi rfl rfl
  | sock rx' rd' hq hs hp => exact held_congr hi rfl rfl
  | pending rx' rd' hq hs hp =>
    by_cases hrd : rd' = []
    · rw [if_pos hrd]; exact held_congr hi rfl rfl
    · rw [if_neg hrd]; exact held_congr hi (by simp) (by simp)

theorem held_serve {w wm : World} (hs : Serve w wm) (hi : Held Q R w) : Held Q R wm := by
  induction hs with
  | refl => exact hi
  | step hc _ ih => exact ih (held_runCont hQR hc hi)

theorem held_runLoop (f : Nat) (w : World) (hi : Held Q R w) : Held Q R (runLoop f w) := by
  obtain ⟨wm, hs, he⟩ := runLoop_decomp f w
  have hm : Held Q R wm := held_serve hQR hs hi
  rcases he with he | he
  · rw [he]; exact hm
  · exact held_runEnd hQR he hm

omit hQR in
theorem held_firstEnd {w0 r : World} {call : Call} {t : ConnectTx} {a : AuthTx}
    (hf : FirstEnd w0 call t a r) (h0 : Held Q R w0) : Held Q R r := by
  cases hf with
  | connack rx' rd' fr k => exact held_congr h0 rfl (Ctx.handleConnack_frame _ _).2.2.2.1
  | refused rx' rd' fr k => exact held_congr h0 rfl (Ctx.handleConnack_frame _ _).2.2.2.1
  | assertSubId rx' rd' fr k => exact held_congr h0 rfl (Ctx.handleConnack_frame _ _).2.2.2.1
  | auth rx' rd' fr au => exact held_congr h0 rfl rfl
  | unexpected rx' rd' fr p => exact held_congr h0 rfl rfl
  | codec rx' rd' fr => exact held_congr h0 rfl rfl
  | panic rx' rd' fr => exact held_congr h0 rfl rfl
  | sock rx' rd' => exact held_congr h0 rfl rfl
  | pending rx' rd' =>
    by_cases hrd : rd' = []
    · rw [if_pos hrd]; exact held_congr h0 rfl rfl
    · rw [if_neg hrd]; exact held_congr h0 (by simp) (by simp)

omit hQR in
theorem resent_queue (w : World) : w.resent.queue = w.queue := by
  rw [resent, (foldl_writeBytes_frame _ _).2.2.1]; simp [resumed]

/-- one poll of the context task: queued messages can only disappear; the retransmit queue gains entries of packet type
    6 only from queued messages of packet type 6 -/
theorem held_pollCtx (w : World) (hi : Held Q R w) : Held Q R w.pollCtx := by
  unfold pollCtx
  cases ht : w.task with
  | none => exact hi
  | connecting call t a started =>
    simp only
    have fe : ∀ (w0 : World), Held Q R w0 → Held Q R (w0.awaitFirst call t a) :=
      fun w0 h0 => held_firstEnd (awaitFirst_spec w0 call t a) h0
    cases started with
    | true => simp only [pollConnect, ↓reduceIte]; exact fe w hi
    | false =>
      cases call <;> simp only [pollConnect, Bool.false_eq_true, ↓reduceIte] <;> (repeat' split) <;>
        first
        | exact held_congr hi rfl rfl
        | exact fe _ (held_congr hi (by simp) (by simp))
        | exact held_congr hi (by simp) (by simp)
  | running started =>
    simp only
    cases started with
    | true => simp only [pollRun, ↓reduceIte]; exact held_runLoop hQR _ w hi
    | false =>
      rw [pollRun_first_eq]
      have hres : ∀ x ∈ w.c.resume.1.retx, pktType x.2 = 6 → R x := by
        rcases Ctx.resume_fst_cases w.c with e | e | e <;> rw [e]
        · exact hi.retx
        · exact hi.retx
        · simp
      split
      · exact held_runLoop hQR _ _ ⟨by rw [resent_queue]; exact hi.queue, by rw [resent_c]; exact hres⟩
      · refine ⟨?_, ?_⟩
        · simp only [finish_queue, writeBytes_queue]
          simpa [resumed] using hi.queue
        · simp only [finish_c, writeBytes_c, resumed_c]; exact hres

end HeldInv

theorem pubrel_hQR : ∀ aid pkt s, MsgForm (.awaitAck aid pkt s) → pktType pkt = 6 → PubrelEntry (aid, pkt) := by
  intro aid pkt s hf h6
  obtain ⟨pid, s', e⟩ := hf h6
  simp only [pubrelMsg, Msg.awaitAck.injEq] at e
  exact ⟨pid, by rw [e.1, e.2.1]⟩

theorem pubrelForm_congr {w w' : World} (hi : PubrelForm w) (hq : w'.queue = w.queue) (hc : w'.c.retx = w.c.retx) :
    PubrelForm w' := held_congr hi hq hc

theorem pubrelForm_pollCtx (w : World) (hi : PubrelForm w) : PubrelForm w.pollCtx :=
  held_pollCtx pubrel_hQR w hi

/-- **Where the PUBREL entries of the retransmit queue come from**: after a poll of the context task, an entry of
    packet type 6 was in the retransmit queue before the poll, or it is the action identifier and the bytes, unchanged,
    of a message that was queued when the poll started. Queued messages can only disappear during the poll. -/
theorem pollCtx_retx_origin (w : World) :
    (∀ m ∈ w.pollCtx.queue, m ∈ w.queue) ∧
    ∀ x ∈ w.pollCtx.c.retx, pktType x.2 = 6 → x ∈ w.c.retx ∨ ∃ s, Msg.awaitAck x.1 x.2 s ∈ w.queue := by
  have h := held_pollCtx (Q := fun m => m ∈ w.queue)
    (R := fun x => x ∈ w.c.retx ∨ ∃ s, Msg.awaitAck x.1 x.2 s ∈ w.queue)
    (fun aid pkt s hm _ => Or.inr ⟨s, hm⟩) w ⟨fun m hm => hm, fun x hx _ => Or.inl hx⟩
  exact ⟨h.queue, h.retx⟩

/-! ## the user side and the script events -/

/-- every publish request still to be started has a QoS of the `QoS` enum (0, 1 or 2) -/
def QosOk (w : World) : Prop := ∀ id h t, (id, OpSt.fresh h (.publish t)) ∈ w.ops → t.qos ≤ 2

/-- **How a poll of a handle future changes the message queue**: not at all; or it appends one message that is not a
    PUBREL; or the future was waiting for its PUBREC, its oneshot holds a PUBREC with reason < 0x80, and it appends
    exactly the PUBREL with that PUBREC's packet identifier. -/
theorem pollOp_queue_cases (w : World) (id : Nat) (hq : QosOk w) :
    (w.pollOp id).queue = w.queue ∨ (∃ m, (w.pollOp id).queue = w.queue ++ [m] ∧ pktType m.pkt ≠ 6) ∨
    (∃ s a, w.opSt id = some (.wait s .pubrec) ∧ w.slot s = some (.full (.pkt (.pubrec a))) ∧ a.reason < 128 ∧
      w.hasCtx = true ∧ (w.pollOp id).queue = w.queue ++ [pubrelMsg a.packetId (s + 1)]) := by
  unfold pollOp
  cases hop : w.opSt id with
  | none => exact Or.inl rfl
  | some st =>
    cases st with
    | fresh h req =>
      rcases (pubrel_only_from_pubrec w id).1 req
        (fun t ht => hq id h t (by subst ht; exact mem_of_opSt hop)) with e | ⟨m, e, hm⟩
      · exact Or.inl e
      · exact Or.inr (Or.inl ⟨m, e, hm⟩)
    | wait s k =>
      simp only
      cases hs : w.slot s with
      | none => exact Or.inl rfl
      | some sl =>
        cases sl with
        | empty => exact Or.inl rfl
        | closed => exact Or.inl (by simp [clearSlot])
        | full v =>
          rcases (pubrel_only_from_pubrec w id).2 s k v with e | ⟨a, rfl, rfl, ha, hc, e⟩
          · exact Or.inl e
          · exact Or.inr (Or.inr ⟨s, a, rfl, hs, ha, hc, e⟩)

theorem pollStream_queue (w : World) (id : Nat) : (w.pollStream id).queue = w.queue := by
  unfold pollStream
  repeat' split
  all_goals simp [dropChanRx]

section HeldUser
variable {Q : Msg → Prop} {R : Nat × Bytes → Prop}

theorem held_pollTask (w : World) (t : Task) (hq : QosOk w) (hi : Held Q R w)
    (hQR : ∀ aid pkt s, Q (.awaitAck aid pkt s) → pktType pkt = 6 → R (aid, pkt))
    (hne : ∀ m, pktType m.pkt ≠ 6 → Q m)
    (hpub : ∀ id s a, w.opSt id = some (.wait s .pubrec) → w.slot s = some (.full (.pkt (.pubrec a))) →
      a.reason < 128 → Q (pubrelMsg a.packetId (s + 1))) :
    Held Q R (w.pollTask t) := by
  cases t with
  | ctx => exact held_pollCtx hQR (w.unwake .ctx) (held_congr hi rfl rfl)
  | op id =>
    show Held Q R ((w.unwake (.op id)).pollOp id)
    refine ⟨?_, by rw [pollOp_c]; exact hi.retx⟩
    rcases pollOp_queue_cases (w.unwake (.op id)) id hq with e | ⟨m, e, hm⟩ | ⟨s, a, h1, h2, h3, _, e⟩
    · rw [e]; exact hi.queue
    · rw [e]
      intro m' hm'
      rcases List.mem_append.mp hm' with h | h
      · exact hi.queue m' h
      · simp only [List.mem_singleton] at h; subst h; exact hne _ hm
    · rw [e]
      intro m' hm'
      rcases List.mem_append.mp hm' with h | h
      · exact hi.queue m' h
      · simp only [List.mem_singleton] at h; subst h; exact hpub id s a h1 h2 h3
  | st id =>
    show Held Q R ((w.unwake (.st id)).pollStream id)
    exact ⟨by rw [pollStream_queue]; exact hi.queue, by rw [pollStream_c]; exact hi.retx⟩

theorem held_passive {w w' : World} (hp : Passive w w') (hi : Held Q R w) : Held Q R w' := by
  refine ⟨?_, ?_⟩
  · rcases hp.queue with e | e <;> rw [e]
    · exact hi.queue
    · simp
  · rcases hp.retx with e | e <;> rw [e]
    · exact hi.retx
    · simp

theorem flushRaw_queue (w : World) : w.flushRaw.queue = w.queue := by unfold flushRaw; split <;> rfl

theorem held_micro {w w' : World} (hm : Micro w w') (hq : QosOk w) (hi : Held Q R w)
    (hQR : ∀ aid pkt s, Q (.awaitAck aid pkt s) → pktType pkt = 6 → R (aid, pkt))
    (hne : ∀ m, pktType m.pkt ≠ 6 → Q m)
    (hpub : ∀ id s a, w.opSt id = some (.wait s .pubrec) → w.slot s = some (.full (.pkt (.pubrec a))) →
      a.reason < 128 → Q (pubrelMsg a.packetId (s + 1))) :
    Held Q R w' := by
  cases hm with
  | ctx => exact held_pollCtx hQR w hi
  | user t ht => exact held_pollTask w t hq hi hQR hne hpub
  | unwake t => exact held_congr hi rfl rfl
  | ev e hp hb =>
    rcases apply_cases (w.emit (.ev e)) e with ⟨t, rfl, _⟩ | ⟨tk, _, _, _, h4⟩ | hpas
    · exact absurd rfl (hp t)
    · rw [h4]; exact held_congr hi (by simp) (by simp)
    · exact held_passive hpas (held_congr hi rfl rfl)
  | logged t hb => exact held_congr hi rfl rfl
  | stall => exact held_congr hi rfl rfl
  | flush => exact held_congr hi (flushRaw_queue w) (by rw [flushRaw_c])

end HeldUser

/-! ## futures not yet started were logged -/

/-- every handle future that has not been polled yet was issued by a logged `op` event with the same request -/
def FreshLogged (w : World) : Prop := ∀ id h req, (id, OpSt.fresh h req) ∈ w.ops → Obs.ev (.op id h req) ∈ w.out

theorem move_fresh {t : Option Nat} {w w' : World} (hm : Move t w w') {id h : Nat} {req : Req}
    (hmem : (id, OpSt.fresh h req) ∈ w'.ops) : (id, OpSt.fresh h req) ∈ w.ops := by
  cases hm with
  | cmsg m q hq queue ops pid out aw slots => rw [ops] at hmem; exact hmem
  | cpkt p aid slot pre post wf haid haw hpre aw queue ops pid out slots => rw [ops] at hmem; exact hmem
  | drop queue aw ops pid out slots => rw [ops] at hmem; exact hmem
  | finish j st hst ops queue aw pid slots out =>
    rw [ops] at hmem; exact (User.eraseFirst_sublist j w.ops).subset hmem
  | send j st m s k hst shape ops queue mslot aw pid slotNew slots out msgok =>
    rw [ops] at hmem
    rcases User.mem_setAssoc hmem with e | e
    · cases e
    · exact e

theorem moves_fresh {A : Option Nat → Prop} {w w' : World} (hm : Moves A w w') {id h : Nat} {req : Req}
    (hmem : (id, OpSt.fresh h req) ∈ w'.ops) : (id, OpSt.fresh h req) ∈ w.ops := by
  induction hm with
  | refl => exact hmem
  | cons _ hmv _ ih => exact move_fresh hmv (ih hmem)

theorem Micro.out_prefix {w w' : World} (hm : Micro w w') : ∃ added, w'.out = w.out ++ added := by
  rcases hm.cases13 with rfl | ⟨e, tk, _, _, _, rfl⟩ | hs
  · rcases pollCtx_shape w with ⟨_, p, _, hp⟩ | ⟨_, pre, last, _, hp, _⟩
    · exact ⟨p, hp⟩
    · exact ⟨pre ++ [last], by rw [hp, List.append_assoc]⟩
  · exact ⟨[.ev e], by simp⟩
  · obtain ⟨added, e, _⟩ := hs.out; exact ⟨added, e⟩

theorem freshLogged_micro {w w' : World} (hm : Micro w w') (h : FreshLogged w) : FreshLogged w' := by
  obtain ⟨added, eo⟩ := hm.out_prefix
  have old : (∀ id hh req, (id, OpSt.fresh hh req) ∈ w'.ops → (id, OpSt.fresh hh req) ∈ w.ops) → FreshLogged w' := by
    intro hsub id hh req hmem
    rw [eo]; exact List.mem_append_left _ (h id hh req (hsub id hh req hmem))
  cases hm with
  | ctx => exact old fun id hh req hmem => moves_fresh (pollCtx_moves w) hmem
  | user t ht => exact old fun id hh req hmem => moves_fresh (pollTask_moves w t) hmem
  | unwake t => exact old fun id hh req hmem => hmem
  | ev e hp hb =>
    rcases apply_decomp (w.emit (.ev e)) e with ⟨id0, h0, req0, rfl, ha⟩ | hmv
    · intro id hh req hmem
      rw [ha.ops] at hmem
      rcases List.mem_append.mp hmem with hmem | hmem
      · rw [eo]; exact List.mem_append_left _ (h id hh req hmem)
      · simp only [List.mem_singleton, Prod.mk.injEq, OpSt.fresh.injEq] at hmem
        obtain ⟨rfl, rfl, rfl⟩ := hmem
        rw [ha.out]; simp
    · exact old fun id hh req hmem => moves_fresh hmv hmem
  | logged t hb => exact old fun id hh req hmem => hmem
  | stall => exact old fun id hh req hmem => hmem
  | flush =>
    refine old fun id hh req hmem => ?_
    have : w.flushRaw.ops = w.ops := by unfold flushRaw; split <;> rfl
    rw [this] at hmem; exact hmem

theorem during_freshLogged {cfg : Cfg} {w : World} (h : During cfg w) : FreshLogged w := by
  induction h with
  | init => intro id hh req hmem; simp at hmem
  | next _ hm ih => exact freshLogged_micro hm ih

/-- every publish request logged in a transcript has QoS 0, 1 or 2 (all the `QoS` enum of the library has) -/
def PubQos (out : List Obs) : Prop := ∀ id h t, Obs.ev (.op id h (.publish t)) ∈ out → t.qos ≤ 2

theorem qosOk_of_logged {w : World} (h : FreshLogged w) (hq : PubQos w.out) : QosOk w :=
  fun id hh t hmem => hq id hh t (h id hh (.publish t) hmem)

/-- the origin of a PUBREL with packet identifier `pid` held at the moment `w`: an earlier moment `w0` of the same
    execution (`w` is reached from it) at which the future of a QoS 2 publish, waiting for its PUBREC, found in its
    oneshot a PUBREC with reason < 0x80 and that packet identifier -/
def PubrecSeen (cfg : Cfg) (w : World) (pid : Nat) : Prop :=
  ∃ w0 id s a, During cfg w0 ∧ Reaches w0 w ∧ w0.opSt id = some (.wait s .pubrec) ∧
    w0.slot s = some (.full (.pkt (.pubrec a))) ∧ a.reason < 128 ∧ a.packetId = pid

theorem Reaches.trans {a b c : World} (h1 : Reaches a b) (h2 : Reaches b c) : Reaches a c := by
  induction h2 with
  | refl => exact h1
  | tail _ hm ih => exact ih.tail hm

theorem PubrecSeen.mono {cfg : Cfg} {w w' : World} {pid : Nat} (h : PubrecSeen cfg w pid) (hr : Reaches w w') :
    PubrecSeen cfg w' pid := by
  obtain ⟨w0, id, s, a, h1, h2, h3⟩ := h
  exact ⟨w0, id, s, a, h1, h2.trans hr, h3⟩

/-- a queued message of packet type 6 is the PUBREL `publish()` built in answer to a successful PUBREC -/
def SeenMsg (cfg : Cfg) (w : World) (m : Msg) : Prop :=
  pktType m.pkt = 6 → ∃ pid s, m = pubrelMsg pid s ∧ PubrecSeen cfg w pid

/-- a PUBREL entry of the retransmit queue whose PUBREL was built in answer to a successful PUBREC -/
def SeenEntry (cfg : Cfg) (w : World) (x : Nat × Bytes) : Prop :=
  ∃ pid, x = (actionId 7 pid, ackBytes 0x62 pid) ∧ PubrecSeen cfg w pid

theorem Held.mono {Q Q' : Msg → Prop} {R R' : Nat × Bytes → Prop} {w : World} (h : Held Q R w)
    (hq : ∀ m, Q m → Q' m) (hr : ∀ x, R x → R' x) : Held Q' R' w :=
  ⟨fun m hm => hq m (h.queue m hm), fun x hx h6 => hr x (h.retx x hx h6)⟩

/-- **Every PUBREL the context holds — queued or kept for retransmission — was built by `publish()` in answer to a
    PUBREC with reason < 0x80 carrying its packet identifier, seen earlier in the same execution — at every moment of
    every execution** whose publish requests have a QoS of the `QoS` enum. -/
theorem during_pubrelSeen {cfg : Cfg} {w : World} (hd : During cfg w) (hq : PubQos w.out) :
    Held (SeenMsg cfg w) (SeenEntry cfg w) w := by
  induction hd with
  | init => exact ⟨by simp, by simp⟩
  | @next w w' hd hm ih =>
    obtain ⟨added, eo⟩ := hm.out_prefix
    have hq0 : PubQos w.out := fun id hh t hmem => hq id hh t (by rw [eo]; exact List.mem_append_left _ hmem)
    have hstep : Reaches w w' := .tail (.refl w) hm
    have ih' : Held (SeenMsg cfg w') (SeenEntry cfg w') w := by
      refine (ih hq0).mono ?_ ?_
      · intro m hf h6
        obtain ⟨pid, s, e, hs⟩ := hf h6
        exact ⟨pid, s, e, hs.mono hstep⟩
      · rintro x ⟨pid, e, hs⟩
        exact ⟨pid, e, hs.mono hstep⟩
    refine held_micro hm (qosOk_of_logged (during_freshLogged hd) hq0) ih' ?_ ?_ ?_
    · intro aid pkt s hf h6
      obtain ⟨pid, s', e, hseen⟩ := hf h6
      simp only [pubrelMsg, Msg.awaitAck.injEq] at e
      exact ⟨pid, by rw [e.1, e.2.1], hseen⟩
    · intro m hm6 h6; exact absurd h6 hm6
    · intro id s a h1 h2 h3 _
      exact ⟨a.packetId, s + 1, rfl, w, id, s, a, hd, hstep, h1, h2, h3, rfl⟩

theorem during_pubrelForm {cfg : Cfg} {w : World} (hd : During cfg w) (hq : PubQos w.out) : PubrelForm w := by
  have h := during_pubrelSeen hd hq
  refine ⟨fun m hm h6 => ?_, fun x hx h6 => ?_⟩
  · obtain ⟨pid, s, e, _⟩ := h.queue m hm h6; exact ⟨pid, s, e⟩
  · obtain ⟨pid, e, _⟩ := h.retx x hx h6; exact ⟨pid, e⟩

/-! ## where a queued PUBREL comes from -/

theorem move_ctx_queue {w w' : World} (hm : Move none w w') : ∀ m ∈ w'.queue, m ∈ w.queue := by
  intro m hmem
  cases hm with
  | cmsg m0 q hq queue ops pid out aw slots => rw [queue] at hmem; rw [hq]; exact List.mem_cons_of_mem _ hmem
  | cpkt p aid slot pre post wf haid haw hpre aw queue ops pid out slots => rw [queue] at hmem; exact hmem
  | drop queue aw ops pid out slots => exact queue.subset hmem

theorem moves_ctx_queue {w w' : World} (hm : Moves CtxTag w w') : ∀ m ∈ w'.queue, m ∈ w.queue := by
  induction hm with
  | refl => exact fun _ h => h
  | cons ht hmv _ ih =>
    have : _ = none := ht
    subst this
    exact fun m hmem => move_ctx_queue hmv m (ih m hmem)

/-- **A PUBREL enters the message queue only through a QoS 2 publish future that received a successful PUBREC.** For
    every elementary transition `w → w'` (from a world whose pending publish requests have a QoS of the enum): a
    message of packet type 6 that is queued in `w'` was already queued in `w`, or the transition is the poll of the
    future of an operation `id` that was waiting for its PUBREC on the oneshot `s`, that oneshot held a PUBREC `a`
    with reason < 0x80, and the message is exactly the PUBREL with `a`'s packet identifier, to be acknowledged on the
    oneshot `s + 1`. -/
theorem pubrel_queue_origin {w w' : World} (hm : Micro w w') (hq : QosOk w) :
    ∀ m ∈ w'.queue, pktType m.pkt = 6 → m ∈ w.queue ∨
      ∃ id s a, w' = w.pollTask (.op id) ∧ w.opSt id = some (.wait s .pubrec) ∧
        w.slot s = some (.full (.pkt (.pubrec a))) ∧ a.reason < 128 ∧ m = pubrelMsg a.packetId (s + 1) := by
  intro m hmem h6
  cases hm with
  | ctx => exact Or.inl (moves_ctx_queue (pollCtx_moves w) m hmem)
  | user t ht =>
    cases t with
    | ctx => exact absurd rfl ht
    | op id =>
      have hmem' : m ∈ ((w.unwake (.op id)).pollOp id).queue := hmem
      rcases pollOp_queue_cases (w.unwake (.op id)) id hq with e | ⟨m0, e, hm0⟩ | ⟨s, a, h1, h2, h3, _, e⟩
      · rw [e] at hmem'; exact Or.inl hmem'
      · rw [e] at hmem'
        rcases List.mem_append.mp hmem' with h | h
        · exact Or.inl h
        · simp only [List.mem_singleton] at h; subst h; exact absurd h6 hm0
      · rw [e] at hmem'
        rcases List.mem_append.mp hmem' with h | h
        · exact Or.inl h
        · simp only [List.mem_singleton] at h
          exact Or.inr ⟨id, s, a, rfl, h1, h2, h3, h⟩
    | st id =>
      have hmem' : m ∈ ((w.unwake (.st id)).pollStream id).queue := hmem
      rw [pollStream_queue] at hmem'; exact Or.inl hmem'
  | unwake t => exact Or.inl hmem
  | ev e hp hb =>
    rcases apply_cases (w.emit (.ev e)) e with ⟨t, rfl, _⟩ | ⟨tk, _, _, _, h4⟩ | hpas
    · exact absurd rfl (hp t)
    · rw [h4] at hmem; exact Or.inl (by simpa using hmem)
    · rcases hpas.queue with e | e <;> rw [e] at hmem
      · exact Or.inl hmem
      · simp at hmem
  | logged t hb => exact Or.inl hmem
  | stall => exact Or.inl hmem
  | flush => rw [flushRaw_queue] at hmem; exact Or.inl hmem

/-! ## the `EV` lines of a transcript are the events of the script -/

/-- not the log line of a script event -/
def NoEv (o : Obs) : Prop := ∀ e', o ≠ .ev e'

theorem noEv_wire (bs : Bytes) : NoEv (.wire bs) ∧ NoEv (.wraw bs) :=
  ⟨(by intro e h; cases h), (by intro e h; cases h)⟩

theorem noEv_of_userObs {o : Obs} (h : UserObs o) : NoEv o := by
  rcases h with ⟨_, _, rfl⟩ | ⟨_, rfl⟩ | ⟨_, _, rfl⟩ | ⟨_, rfl⟩ <;> (intro e h; cases h)

theorem noEv_of_dull {o : Obs} (h : Dull o) : NoEv o := by
  rcases h with rfl | rfl | ⟨_, rfl⟩ | ⟨_, rfl⟩ <;> (intro e h; cases h)

theorem pollTask_noEv (w : World) (t : Task) : OutExtP NoEv w (w.pollTask t) := by
  by_cases ht : t = .ctx
  · subst ht
    show OutExtP NoEv w (w.unwake .ctx).pollCtx
    rcases pollCtx_shape (w.unwake .ctx) with ⟨_, h⟩ | ⟨_, pre, last, hq, hp, hl⟩
    · exact outExtP_of_outExt h noEv_wire
    · refine ⟨pre ++ [last], by rw [hp, List.append_assoc]; rfl, ?_⟩
      intro o ho
      rcases List.mem_append.mp ho with ho | ho
      · obtain ⟨bs, rfl | rfl⟩ := hq o ho
        · exact (noEv_wire bs).1
        · exact (noEv_wire bs).2
      · simp only [List.mem_singleton] at ho
        subst ho
        rcases hl with ⟨c, r, rfl, _⟩ | ⟨cls, rfl⟩ <;> (intro e h; cases h)
  · exact outExtP_mono (pollTask_user w t ht).2 (fun _ => noEv_of_userObs)

theorem apply_noEv (w : World) (e : Ev) : OutExtP NoEv w (w.apply e) := by
  rcases apply_cases w e with ⟨t, rfl, h⟩ | ⟨tk, _, _, _, h⟩ | hp
  · rw [h]; exact pollTask_noEv w t
  · exact outExtP_of_eq (by rw [h]; simp)
  · exact outExtP_mono hp.out (fun _ => noEv_of_dull)

theorem drain_noEv (f : Nat) (w : World) : OutExtP NoEv w (World.drain f w) := by
  induction f generalizing w with
  | zero => exact outExtP_refl _ _
  | succ f ih =>
    simp only [World.drain]
    split
    · exact outExtP_refl _ _
    · exact outExtP_trans (pollTask_noEv w _) (ih _)

theorem sweep_noEv (w : World) : OutExtP NoEv w w.sweep := by
  unfold World.sweep
  simp only
  generalize ([Task.ctx] ++ List.map Task.op (sortNat (List.map (fun x => x.1) w.ops)) ++
    List.map Task.st (sortNat w.streams)) = tasks
  suffices hh : ∀ (l : List Task) (w0 : World),
      OutExtP NoEv w0 (l.foldl (fun w t => if w.taskLive t ∧ t ∉ w.woken ∧ t ∉ w.held then w.pollTask t else w) w0) from
    hh tasks w
  intro l
  induction l with
  | nil => intro w0; exact outExtP_refl _ _
  | cons t rest ih =>
    intro w0
    simp only [List.foldl_cons]
    split
    · exact outExtP_trans (pollTask_noEv w0 t) (ih _)
    · exact ih _

/-- one script step logs its own event and no other -/
theorem step_ev_lines (w : World) (e e' : Ev) (h : Obs.ev e' ∈ (w.step e).out) : Obs.ev e' ∈ w.out ∨ e' = e := by
  have key : OutExtP (fun o => ∀ e', o = .ev e' → e' = e) w (w.step e) := by
    have weak : ∀ {a b : World}, OutExtP NoEv a b → OutExtP (fun o => ∀ e', o = .ev e' → e' = e) a b :=
      fun h => outExtP_mono h (fun o ho e' he => absurd he (ho e'))
    unfold World.step
    split
    · exact outExtP_refl _ _
    · have h0 : OutExtP (fun o => ∀ e', o = .ev e' → e' = e) w (w.emit (.ev e)) :=
        outExtP_one _ rfl (fun e' he => by cases he; rfl)
      have h1 := outExtP_trans h0 (weak (apply_noEv (w.emit (.ev e)) e))
      generalize (w.emit (.ev e)).apply e = w1 at h1 ⊢
      simp only
      split
      · exact h1
      · have h2 := outExtP_trans h1 (weak (drain_noEv w1.drainFuel w1))
        generalize World.drain w1.drainFuel w1 = w2 at h2 ⊢
        have h3 : OutExtP (fun o => ∀ e', o = .ev e' → e' = e) w
            (if w2.cfg.sweep = true then World.drain w2.sweep.drainFuel w2.sweep else w2) := by
          split
          · exact outExtP_trans (outExtP_trans h2 (weak (sweep_noEv w2))) (weak (drain_noEv _ _))
          · exact h2
        generalize (if w2.cfg.sweep = true then World.drain w2.sweep.drainFuel w2.sweep else w2) = w3 at h3 ⊢
        split
        · exact outExtP_trans h3 (outExtP_one _ rfl (fun e' he => by cases he))
        · exact h3
  obtain ⟨added, eo, hP⟩ := key
  rw [eo] at h
  rcases List.mem_append.mp h with h | h
  · exact Or.inl h
  · exact Or.inr (hP _ h e' rfl)

theorem steps_ev_lines (evs : List Ev) (w : World) (e' : Ev) (h : Obs.ev e' ∈ (evs.foldl World.step w).out) :
    Obs.ev e' ∈ w.out ∨ e' ∈ evs := by
  induction evs generalizing w with
  | nil => exact Or.inl h
  | cons e t ih =>
    simp only [List.foldl_cons] at h
    rcases ih _ h with h1 | h1
    · rcases step_ev_lines w e e' h1 with h2 | h2
      · exact Or.inl h2
      · exact Or.inr (by rw [h2]; exact List.mem_cons_self)
    · exact Or.inr (List.mem_cons_of_mem _ h1)

/-- **The `EV` lines of a transcript are events of the script.** -/
theorem run_ev_lines (cfg : Cfg) (evs : List Ev) (e : Ev) (h : Obs.ev e ∈ World.run cfg evs) : e ∈ evs := by
  unfold World.run finishScript at h
  obtain ⟨added, eo, hP⟩ := flushRaw_dull (evs.foldl World.step { cfg := cfg })
  rw [eo] at h
  rcases List.mem_append.mp h with h | h
  · rcases steps_ev_lines evs _ e h with h1 | h1
    · simp at h1
    · exact h1
  · exact absurd rfl (noEv_of_dull (hP _ h) e)

/-- a script whose publish requests have a QoS of the `QoS` enum produces transcripts that say so -/
theorem pubQos_of_script (cfg : Cfg) (evs : List Ev)
    (hq : ∀ id h t, Ev.op id h (.publish t) ∈ evs → t.qos ≤ 2) :
    PubQos (World.run cfg evs) ∧ PubQos (evs.foldl World.step { cfg := cfg }).out := by
  refine ⟨fun id h t hm => hq id h t (run_ev_lines cfg evs _ hm), fun id h t hm => ?_⟩
  rcases steps_ev_lines evs _ _ hm with h1 | h1
  · simp at h1
  · exact hq id h t h1

/-! # C06 — what a `DONE` line reports -/

theorem w7_done_inj {l : List Obs} {id : Nat} {r r' : DoneRes} (h : l ++ [.done id r] = l ++ [.done id r']) :
    r = r' := by
  have := List.append_cancel_left h
  simpa using this

theorem w7_no_growth {l : List Obs} {o : Obs} (h : l = l ++ [o]) : False := by
  have := congrArg List.length h
  simp at this

/-- **What a handle future reports when it is resumed with the value `v` of its oneshot** (`k`: what it waits for,
    `ctx`: the context still exists): the local refusals (packet too large, send quota exhausted), "written" for a
    fire-and-forget request, and for an acknowledgement of its own kind: success when the reason is < 0x80 and the
    error of that kind carrying the acknowledgement's reason, reason string and user properties when it is ≥ 0x80; a
    QoS 2 publish whose PUBREC succeeded reports nothing yet (it sends the PUBREL) unless the context is gone. -/
inductive ResumeRes : Wait → SlotVal → Bool → DoneRes → Prop
  | tooLarge (k : Wait) (b : Bool) : ResumeRes k .errSize b (.err .maximumPacketSizeExceeded)
  | quota (k : Wait) (b : Bool) : ResumeRes k .errQuota b (.err .quotaExceeded)
  | written (b : Bool) : ResumeRes .ff .unit b .ok
  | internal (k : Wait) (b : Bool) : k ≠ .ff → ResumeRes k .unit b (.err .internalError)
  | pubackOk (a : AckRx) (b : Bool) : a.reason < 128 → ResumeRes .puback (.pkt (.puback a)) b .ok
  | pubackErr (a : AckRx) (b : Bool) : a.reason ≥ 128 →
      ResumeRes .puback (.pkt (.puback a)) b (.errAck .pubackError a.reason a.reasonString a.userProps)
  | pubrecErr (a : AckRx) (b : Bool) : a.reason ≥ 128 →
      ResumeRes .pubrec (.pkt (.pubrec a)) b (.errAck .pubrecError a.reason a.reasonString a.userProps)
  | pubrecNoCtx (a : AckRx) : a.reason < 128 → ResumeRes .pubrec (.pkt (.pubrec a)) false (.err .contextExited)
  | pubcompOk (a : AckRx) (b : Bool) : a.reason < 128 → ResumeRes .pubcomp (.pkt (.pubcomp a)) b .ok
  | pubcompErr (a : AckRx) (b : Bool) : a.reason ≥ 128 →
      ResumeRes .pubcomp (.pkt (.pubcomp a)) b (.errAck .pubcompError a.reason a.reasonString a.userProps)
  | suback (a : SubackRx) (b : Bool) :
      ResumeRes .suback (.pkt (.suback a)) b (.okAck false a.reasonString a.userProps a.payload)
  | unsuback (a : SubackRx) (b : Bool) :
      ResumeRes .unsuback (.pkt (.unsuback a)) b (.okAck true a.reasonString a.userProps a.payload)
  | pingresp (b : Bool) : ResumeRes .pingresp (.pkt .pingresp) b .ok

theorem resumeOp_done (w : World) (id s : Nat) (k : Wait) (v : SlotVal) (r : DoneRes)
    (h : (w.resumeOp id s k v).out = w.out ++ [.done id r]) : ResumeRes k v w.hasCtx r := by
  cases v with
  | errSize =>
    have e : (w.resumeOp id s k .errSize).out = w.out ++ [.done id (.err .maximumPacketSizeExceeded)] := by
      simp [resumeOp, clearSlot]
    rw [e] at h; rw [← w7_done_inj h]; exact .tooLarge k _
  | errQuota =>
    have e : (w.resumeOp id s k .errQuota).out = w.out ++ [.done id (.err .quotaExceeded)] := by
      simp [resumeOp, clearSlot]
    rw [e] at h; rw [← w7_done_inj h]; exact .quota k _
  | unit =>
    by_cases hk : k = .ff
    · subst hk
      have e : (w.resumeOp id s .ff .unit).out = w.out ++ [.done id .ok] := by simp [resumeOp, clearSlot]
      rw [e] at h; rw [← w7_done_inj h]; exact .written _
    · have e : (w.resumeOp id s k .unit).out = w.out ++ [.done id (.err .internalError)] := by
        cases k <;> first | exact absurd rfl hk | simp [resumeOp, clearSlot]
      rw [e] at h; rw [← w7_done_inj h]; exact .internal k _ hk
  | pkt p =>
    cases ha : Wait.accepts k p with
    | false =>
      rw [(resumeOp_panic w id s k p ha).1] at h
      have := List.append_cancel_left h
      simp at this
    | true =>
      cases k <;> cases p <;> simp [Wait.accepts] at ha
      · rename_i a
        rw [(puback_outcome w id s a).1] at h
        rw [← w7_done_inj h]
        by_cases hr : a.reason ≥ 128
        · rw [if_pos hr]; exact .pubackErr a _ hr
        · rw [if_neg hr]; exact .pubackOk a _ (by omega)
      · rename_i a
        by_cases hr : a.reason ≥ 128
        · rw [((pubrec_outcome w id s a).1 hr).1] at h
          rw [← w7_done_inj h]; exact .pubrecErr a _ hr
        · cases hc : w.hasCtx with
          | true =>
            rw [((pubrec_outcome w id s a).2 (by omega) hc).2.1] at h
            exact (w7_no_growth h).elim
          | false =>
            have e0 : w.resumeOp id s .pubrec (.pkt (.pubrec a)) =
                (w.clearSlot s).sendAwait (.awaitAck (actionId 7 a.packetId) (ackBytes 0x62 a.packetId) (s + 1))
                  id (s + 1) .pubcomp := by
              simp only [resumeOp, hr, if_false]; rfl
            rw [e0, User.sendAwait_no_ctx _ _ _ _ _ (by simpa [clearSlot] using hc)] at h
            have e : ((w.clearSlot s).finishOp id (.err .contextExited)).out =
                w.out ++ [.done id (.err .contextExited)] := by simp [clearSlot]
            rw [e] at h
            rw [← w7_done_inj h]; exact .pubrecNoCtx a (by omega)
      · rename_i a
        rw [(pubcomp_outcome w id s a).1] at h
        rw [← w7_done_inj h]
        by_cases hr : a.reason ≥ 128
        · rw [if_pos hr]; exact .pubcompErr a _ hr
        · rw [if_neg hr]; exact .pubcompOk a _ (by omega)
      · rename_i a
        rw [(resumeOp_content w id s).2.2.2.1 a] at h
        rw [← w7_done_inj h]; exact .suback a _
      · rename_i a
        rw [(resumeOp_content w id s).2.2.2.2.1 a] at h
        rw [← w7_done_inj h]; exact .unsuback a _
      · rw [(resumeOp_content w id s).2.2.2.2.2] at h
        rw [← w7_done_inj h]; exact .pingresp _

theorem sendAwait_done (w w0 : World) (m : Msg) (id s : Nat) (k : Wait) (r : DoneRes) (h0 : w0.out = w.out)
    (hc0 : w0.hasCtx = w.hasCtx) (h : (w0.sendAwait m id s k).out = w.out ++ [.done id r]) :
    r = .err .contextExited ∧ w.hasCtx = false := by
  cases hc : w.hasCtx with
  | true =>
    obtain ⟨wk, qr, e⟩ := User.sendAwait_ctx w0 m id s k (by rw [hc0, hc])
    rw [e] at h
    simp only [h0] at h
    exact (w7_no_growth h).elim
  | false =>
    rw [User.sendAwait_no_ctx w0 m id s k (by rw [hc0, hc])] at h
    simp only [User.finishOp_out, h0] at h
    exact ⟨(w7_done_inj h).symm, rfl⟩

/-- the first poll of a handle future reports only: the request cannot be encoded, or the context is gone -/
theorem startOp_done (w : World) (id : Nat) (req : Req) (r : DoneRes)
    (h : (w.startOp id req).out = w.out ++ [.done id r]) :
    r = .err .codecError ∨ (r = .err .contextExited ∧ w.hasCtx = false) := by
  have fin : ∀ w0 : World, w0.out = w.out → (w0.finishOp id (.err .codecError)).out = w.out ++ [.done id r] →
      r = .err .codecError := by
    intro w0 h0 hh
    simp only [User.finishOp_out, h0] at hh
    exact (w7_done_inj hh).symm
  cases req with
  | publish t =>
    by_cases hq : t.qos = 0
    · rw [User.startOp_publish0 w id t hq] at h
      split at h
      · exact Or.inl (fin w rfl h)
      · exact Or.inr (sendAwait_done w w _ id _ _ r rfl rfl h)
    · rw [User.startOp_publish12 w id t hq] at h
      split at h
      · exact Or.inl (fin w.allocPid.2 rfl h)
      · exact Or.inr (sendAwait_done w w.allocPid.2 _ id _ _ r rfl rfl h)
  | subscribe t =>
    rw [User.startOp_subscribe] at h
    simp only at h
    split at h
    · exact Or.inl (fin (w.allocPid.2).allocSub.2 rfl h)
    · cases hc : w.hasCtx with
      | true =>
        obtain ⟨wk, qr, e⟩ := User.sendMsg_shape (((w.allocPid.2).allocSub.2).setChan id {})
          (.subscribe (actionId 9 w.pidCtr) w.subCtr
            ({ t with packetId := w.pidCtr, subId := some w.subCtr } : SubscribeTx).encode (2 * id) id) hc
        rw [e] at h
        simp only at h
        have : (w.out : List Obs) = w.out ++ [.done id r] := h
        exact (w7_no_growth this).elim
      | false =>
        rw [User.sendMsg_none _ _ (by simpa [setChan, allocPid, allocSub] using hc)] at h
        simp only [User.finishOp_out] at h
        have : w.out ++ [Obs.done id (.err .contextExited)] = w.out ++ [.done id r] := h
        exact Or.inr ⟨(w7_done_inj this).symm, rfl⟩
  | unsubscribe t =>
    rw [User.startOp_unsubscribe] at h
    split at h
    · exact Or.inl (fin w.allocPid.2 rfl h)
    · exact Or.inr (sendAwait_done w w.allocPid.2 _ id _ _ r rfl rfl h)
  | ping => rw [User.startOp_ping] at h; exact Or.inr (sendAwait_done w w _ id _ _ r rfl rfl h)
  | disconnect t => rw [User.startOp_disconnect] at h; exact Or.inr (sendAwait_done w w _ id _ _ r rfl rfl h)

/-- **Why a poll of a handle future logs `DONE id r`.** The future had not been polled before and its request cannot
    be encoded (codec error) or the context is gone (`ContextExited`); or it was waiting on the oneshot `s` for `k`
    and the oneshot was closed (`ContextExited`: the context dropped the sender) or held the value `v` and `r` is what
    `ResumeRes` says for `k` and `v`. -/
theorem pollOp_done_cases (w : World) (id : Nat) (r : DoneRes) (h : (w.pollOp id).out = w.out ++ [.done id r]) :
    (∃ hd req, w.opSt id = some (.fresh hd req) ∧
      (r = .err .codecError ∨ (r = .err .contextExited ∧ w.hasCtx = false))) ∨
    (∃ s k, w.opSt id = some (.wait s k) ∧
      ((w.slot s = some .closed ∧ r = .err .contextExited) ∨
       ∃ v, w.slot s = some (.full v) ∧ w.pollOp id = w.resumeOp id s k v ∧ ResumeRes k v w.hasCtx r)) := by
  unfold pollOp at h ⊢
  cases hop : w.opSt id with
  | none => rw [hop] at h; exact (w7_no_growth h).elim
  | some st =>
    rw [hop] at h
    cases st with
    | fresh hd req => exact Or.inl ⟨hd, req, rfl, startOp_done w id req r h⟩
    | wait s k =>
      simp only at h ⊢
      refine Or.inr ⟨s, k, rfl, ?_⟩
      cases hs : w.slot s with
      | none => rw [hs] at h; exact (w7_no_growth h).elim
      | some sl =>
        rw [hs] at h
        cases sl with
        | empty => exact (w7_no_growth h).elim
        | closed =>
          simp only [User.finishOp_out] at h
          have : w.out ++ [Obs.done id (.err .contextExited)] = w.out ++ [.done id r] := h
          exact Or.inl ⟨rfl, (w7_done_inj this).symm⟩
        | full v => exact Or.inr ⟨v, rfl, rfl, resumeOp_done w id s k v r h⟩

/-! ## where a `DONE` line of the transcript comes from -/

theorem resumeOp_out3 (w : World) (id s : Nat) (k : Wait) (v : SlotVal) :
    (w.resumeOp id s k v).out = w.out ∨ (∃ r, (w.resumeOp id s k v).out = w.out ++ [.done id r]) ∨
    (w.resumeOp id s k v).out = w.out ++ [.panic (.op id) "unreachable"] := by
  have hd : ∀ (w0 : World) (r : DoneRes), w0.out = w.out →
      (w0.finishOp id r).out = w.out ∨ (∃ r', (w0.finishOp id r).out = w.out ++ [.done id r']) ∨
      (w0.finishOp id r).out = w.out ++ [.panic (.op id) "unreachable"] :=
    fun w0 r h0 => Or.inr (Or.inl ⟨r, by simp [h0]⟩)
  cases v with
  | errSize => exact hd _ _ rfl
  | errQuota => exact hd _ _ rfl
  | unit => simp only [resumeOp]; split <;> exact hd _ _ rfl
  | pkt p =>
    cases ha : Wait.accepts k p with
    | false => exact Or.inr (Or.inr (resumeOp_panic w id s k p ha).1)
    | true =>
      cases k <;> cases p <;> simp [Wait.accepts] at ha <;> simp only [resumeOp]
      · split <;> exact hd _ _ rfl
      · split
        · exact hd _ _ rfl
        · rcases sendAwait_out (w.clearSlot s)
            (.awaitAck (actionId 7 _) (ackBytes 0x62 _) (s + 1)) id (s + 1) .pubcomp with e | e
          · exact Or.inl e
          · exact Or.inr (Or.inl ⟨_, e⟩)
      · split <;> exact hd _ _ rfl
      · exact hd _ _ rfl
      · exact hd _ _ rfl
      · exact hd _ _ rfl

/-- one poll of a handle future appends nothing, or exactly one `DONE` line of its operation, or its `unreachable`
    panic -/
theorem pollOp_out3 (w : World) (id : Nat) :
    (w.pollOp id).out = w.out ∨ (∃ r, (w.pollOp id).out = w.out ++ [.done id r]) ∨
    (w.pollOp id).out = w.out ++ [.panic (.op id) "unreachable"] := by
  unfold pollOp
  split
  · exact Or.inl rfl
  · rcases startOp_out w id _ with e | ⟨k, e⟩
    · exact Or.inl e
    · exact Or.inr (Or.inl ⟨_, e⟩)
  · split
    · exact resumeOp_out3 _ _ _ _ _
    · exact Or.inr (Or.inl ⟨.err .contextExited, by simp [clearSlot]⟩)
    · exact Or.inl rfl

theorem pollStream_out3 (w : World) (id : Nat) :
    (w.pollStream id).out = w.out ∨ (∃ p, (w.pollStream id).out = w.out ++ [.item id p]) ∨
    (w.pollStream id).out = w.out ++ [.endStream id] := by
  unfold pollStream
  split
  · exact Or.inl rfl
  · split
    · exact Or.inl rfl
    · split
      · rename_i p rest _
        exact Or.inr (Or.inl ⟨p, by simp⟩)
      · split
        · exact Or.inl rfl
        · exact Or.inr (Or.inr (by simp [dropChanRx]))

/-- **Every `DONE` line was logged by a poll of the future of its own operation.** If the transcript of a moment of
    an execution is `pre ++ DONE id r :: post`, there was an earlier moment `w0` such that the poll of the future of
    `id` from `w0` produced exactly the transcript `pre ++ [DONE id r]`. -/
theorem during_done_origin {cfg : Cfg} {w : World} (h : During cfg w) {pre post : List Obs} {id : Nat} {r : DoneRes}
    (ho : w.out = pre ++ .done id r :: post) :
    ∃ w0, During cfg w0 ∧ (w0.pollOp id).out = pre ++ [.done id r] ∧ w0.out = pre ∧ Reaches (w0.pollOp id) w := by
  induction h generalizing post with
  | init => simp at ho
  | @next w w' hd hm ih =>
    have hm0 := hm
    have old : ∀ added, w'.out = w.out ++ added → Obs.done id r ∉ added →
        ∃ w0, During cfg w0 ∧ (w0.pollOp id).out = pre ++ [.done id r] ∧ w0.out = pre ∧
          Reaches (w0.pollOp id) w' := by
      intro added e hx
      rw [e] at ho
      obtain ⟨post1, h1, _⟩ := w7_in_old ho hx
      obtain ⟨w0, a1, a2, a3, a4⟩ := ih h1
      exact ⟨w0, a1, a2, a3, a4.tail hm0⟩
    cases hm with
    | ctx =>
      rcases pollCtx_shape w with ⟨_, p, hq, hp⟩ | ⟨_, pre', last, hq, hp, hl⟩
      · refine old p hp ?_
        intro hx; obtain ⟨bs, h | h⟩ := hq _ hx <;> cases h
      · refine old (pre' ++ [last]) (by rw [hp, List.append_assoc]) ?_
        intro hx
        rcases List.mem_append.mp hx with hx | hx
        · obtain ⟨bs, h | h⟩ := hq _ hx <;> cases h
        · simp only [List.mem_singleton] at hx
          rcases hl with ⟨c, r0, rfl, _⟩ | ⟨cls, rfl⟩ <;> cases hx
    | user t ht =>
      cases t with
      | ctx => exact absurd rfl ht
      | op id' =>
        have hu : During cfg (w.unwake (.op id')) := hd.next (.unwake w _)
        have e0 : (w.pollTask (.op id')).out = ((w.unwake (.op id')).pollOp id').out := rfl
        rcases pollOp_out3 (w.unwake (.op id')) id' with e | ⟨r', e⟩ | e
        · exact old [] (by rw [e0, e]; simp) (by simp)
        · have e1 : (w.pollTask (.op id')).out = w.out ++ [.done id' r'] := by rw [e0, e]; rfl
          rw [e1] at ho
          rcases w7_append_split ho with ⟨post1, h2, _⟩ | ⟨pre2, h2, h3⟩
          · obtain ⟨w0, a1, a2, a3, a4⟩ := ih h2
            exact ⟨w0, a1, a2, a3, a4.tail hm0⟩
          · obtain ⟨e1', e2, e3⟩ := w7_snoc_split (l := []) h3 (by simp)
            subst e1'
            cases e2
            exact ⟨w.unwake (.op id), hu, by rw [e, h2]; simp, by simp [h2], .refl _⟩
        · exact old _ (by rw [e0, e]; rfl) (by simp)
      | st id' =>
        have e0 : (w.pollTask (.st id')).out = ((w.unwake (.st id')).pollStream id').out := rfl
        rcases pollStream_out3 (w.unwake (.st id')) id' with e | ⟨p, e⟩ | e
        · exact old [] (by rw [e0, e]; simp) (by simp)
        · exact old _ (by rw [e0, e]; rfl) (by simp)
        · exact old _ (by rw [e0, e]; rfl) (by simp)
    | unwake t => exact old [] (by simp) (by simp)
    | ev e hp hb =>
      have e0 : (w.emit (.ev e)).out = w.out ++ [.ev e] := rfl
      rcases apply_cases (w.emit (.ev e)) e with ⟨t, rfl, _⟩ | ⟨tk, _, _, _, h4⟩ | hpas
      · exact absurd rfl (hp t)
      · exact old [.ev e] (by rw [h4]; simp) (by simp)
      · obtain ⟨added, e1, hP⟩ := hpas.out
        refine old ([.ev e] ++ added) (by rw [e1, e0, List.append_assoc]) ?_
        intro hx
        simp only [List.cons_append, List.nil_append, List.mem_cons, reduceCtorEq, false_or] at hx
        rcases hP _ hx with h | h | ⟨_, h⟩ | ⟨_, h⟩ <;> cases h
    | logged t hb => exact old [.ev (.poll t)] rfl (by simp)
    | stall => exact old [.stall] rfl (by simp)
    | flush =>
      obtain ⟨added, e1, hP⟩ := flushRaw_dull w
      refine old added e1 ?_
      intro hx
      rcases hP _ hx with h | h | ⟨_, h⟩ | ⟨_, h⟩ <;> cases h

/-! # C13 — why `connect()` / `authorize()` return -/

/-- the request `connect()` resp. `authorize()` writes: the encoded CONNECT resp. AUTH packet -/
def reqBytes (call : Call) (t : ConnectTx) (a : AuthTx) : Bytes :=
  match call with
  | .connect => t.encode
  | _ => a.encode

/-- `connect()` records the session expiry interval it asks for before writing -/
def seiSet (w : World) (call : Call) (t : ConnectTx) : World :=
  match call with
  | .connect => { w with c := { w.c with sei := t.sessionExpiry.getD 0 } }
  | _ => w

theorem pollConnect_false_eq (w : World) (call : Call) (t : ConnectTx) (a : AuthTx) :
    w.pollConnect call t a false =
      if !reqValid call t a then w.finish call (.err .codecError)
      else if w.canWrite (reqBytes call t a).length then
        ((seiSet w call t).writeBytes (reqBytes call t a)).awaitFirst call t a
      else ((seiSet w call t).writeBytes (reqBytes call t a)).finish call (.err .socketClosed) := by
  cases call <;> rfl

/-- **What the first response makes `connect()` / `authorize()` return** (`w0`: the world in which it is awaited). -/
inductive FirstCause (w0 : World) : RetRes → Prop
  /-- a CONNACK with reason < 0x80 (from a broker that supports subscription identifiers): `ConnectRsp` = that CONNACK -/
  | connack (rx' : Rx) (rd' : List ReadEv) (fr : Bytes) (k : ConnackRx) :
      pollNext w0.rx w0.reader = (rx', rd', .item fr) → decodeRx fr = .ok (.connack k) → k.reason < 128 →
      k.subIdAvail = true → FirstCause w0 (.connack k)
  /-- a CONNACK with reason ≥ 0x80: `ConnectError` carrying it -/
  | refused (rx' : Rx) (rd' : List ReadEv) (fr : Bytes) (k : ConnackRx) :
      pollNext w0.rx w0.reader = (rx', rd', .item fr) → decodeRx fr = .ok (.connack k) → k.reason ≥ 128 →
      FirstCause w0 (.connectError k)
  /-- an AUTH challenge: `AuthRsp` -/
  | auth (rx' : Rx) (rd' : List ReadEv) (fr : Bytes) (au : AuthRx) :
      pollNext w0.rx w0.reader = (rx', rd', .item fr) → decodeRx fr = .ok (.auth au) → FirstCause w0 (.auth au)
  /-- any other packet: a codec error -/
  | unexpected (rx' : Rx) (rd' : List ReadEv) (fr : Bytes) (p : RxPacket) :
      pollNext w0.rx w0.reader = (rx', rd', .item fr) → decodeRx fr = .ok p → (∀ k, p ≠ .connack k) →
      (∀ au, p ≠ .auth au) → FirstCause w0 (.err .codecError)
  /-- a frame that does not decode: a codec error -/
  | undecodable (rx' : Rx) (rd' : List ReadEv) (fr : Bytes) :
      pollNext w0.rx w0.reader = (rx', rd', .item fr) → decodeRx fr = .err → FirstCause w0 (.err .codecError)
  /-- the transport ends first (end of stream, read error, malformed length): `SocketClosed` -/
  | streamEnded (rx' : Rx) (rd' : List ReadEv) :
      pollNext w0.rx w0.reader = (rx', rd', .none) → FirstCause w0 (.err .socketClosed)

theorem firstEnd_cause {w0 r : World} {call : Call} {t : ConnectTx} {a : AuthTx} (h : FirstEnd w0 call t a r) :
    (r.task = .none ∧ ∃ res, r.out = w0.out ++ [.ret call res] ∧ FirstCause w0 res) ∨
    (r.task = .none ∧ ∃ cls, r.out = w0.out ++ [.panic .ctx cls]) ∨
    (r.task = .connecting call t a true ∧ r.out = w0.out) := by
  cases h with
  | connack rx' rd' fr k hp hd hk hs => exact Or.inl ⟨rfl, _, rfl, .connack rx' rd' fr k hp hd hk hs⟩
  | refused rx' rd' fr k hp hd hk => exact Or.inl ⟨rfl, _, rfl, .refused rx' rd' fr k hp hd hk⟩
  | assertSubId rx' rd' fr k hp hd hk hs => exact Or.inr (Or.inl ⟨rfl, _, rfl⟩)
  | auth rx' rd' fr au hp hd => exact Or.inl ⟨rfl, _, rfl, .auth rx' rd' fr au hp hd⟩
  | unexpected rx' rd' fr p hp hd h1 h2 => exact Or.inl ⟨rfl, _, rfl, .unexpected rx' rd' fr p hp hd h1 h2⟩
  | codec rx' rd' fr hp hd => exact Or.inl ⟨rfl, _, rfl, .undecodable rx' rd' fr hp hd⟩
  | panic rx' rd' fr hp hd => exact Or.inr (Or.inl ⟨rfl, _, rfl⟩)
  | sock rx' rd' hp => exact Or.inl ⟨rfl, _, rfl, .streamEnded rx' rd' hp⟩
  | pending rx' rd' hp =>
    refine Or.inr (Or.inr ?_)
    by_cases hrd : rd' = []
    · rw [if_pos hrd]; exact ⟨rfl, rfl⟩
    · rw [if_neg hrd]; exact ⟨by simp, by simp⟩

/-- **Why a poll of `connect()` / `authorize()` that starts in the world `w` returns `r`** (`started`: the future was
    polled before, i.e. the request is already written). -/
inductive ConnectCause (w : World) (call : Call) (t : ConnectTx) (a : AuthTx) (started : Bool) : RetRes → Prop
  /-- first poll: the request cannot be encoded; nothing is written -/
  | invalid : started = false → reqValid call t a = false → ConnectCause w call t a started (.err .codecError)
  /-- first poll: the transport refuses the request -/
  | writeFailed : started = false → reqValid call t a = true → w.canWrite (reqBytes call t a).length = false →
      ConnectCause w call t a started (.err .socketClosed)
  /-- the first response, awaited in the world `w0` — `w` itself, or on a first poll `w` after the request was written
      (same framing state and reader; the bytes handed to the transport are those of `w` followed by the request) -/
  | response (w0 : World) (r : RetRes) : (started = true → w0 = w) →
      (started = false → reqValid call t a = true ∧ w.canWrite (reqBytes call t a).length = true ∧
        w0.rx = w.rx ∧ w0.reader = w.reader ∧ w0.sent = w.sent ++ reqBytes call t a) →
      FirstCause w0 r → ConnectCause w call t a started r

theorem seiSet_facts (w : World) (call : Call) (t : ConnectTx) :
    (seiSet w call t).rx = w.rx ∧ (seiSet w call t).reader = w.reader ∧ (seiSet w call t).sent = w.sent ∧
    (seiSet w call t).out = w.out ∧ ∀ n, (seiSet w call t).canWrite n = w.canWrite n := by
  cases call <;> exact ⟨rfl, rfl, rfl, rfl, fun _ => rfl⟩

/-- **A poll of `connect()` / `authorize()` that ends the call** logs, as its last line, `RET call r` for a documented
    cause — or the context task panicked (the `subIdAvail` assertion; a decoder panic, excluded by C04). -/
theorem pollConnect_cause (w : World) (call : Call) (t : ConnectTx) (a : AuthTx) (s : Bool)
    (ht : w.task = .connecting call t a s) (hn : w.pollCtx.task = .none) :
    (∃ r pre, w.pollCtx.out = pre ++ [.ret call r] ∧ ConnectCause w call t a s r) ∨
    (∃ pre cls, w.pollCtx.out = pre ++ [.panic .ctx cls]) := by
  have hp : w.pollCtx = w.pollConnect call t a s := by simp [pollCtx, ht]
  rw [hp] at hn ⊢
  cases s with
  | true =>
    simp only [pollConnect, ↓reduceIte] at hn ⊢
    rcases firstEnd_cause (awaitFirst_spec w call t a) with ⟨_, res, ho, hc⟩ | ⟨_, cls, ho⟩ | ⟨h1, _⟩
    · exact Or.inl ⟨res, w.out, ho, .response w res (fun _ => rfl) (fun h => by cases h) hc⟩
    · exact Or.inr ⟨w.out, cls, ho⟩
    · rw [h1] at hn; cases hn
  | false =>
    rw [pollConnect_false_eq] at hn ⊢
    cases hv : reqValid call t a with
    | false =>
      simp only [hv, Bool.not_false, ↓reduceIte]
      exact Or.inl ⟨_, w.out, rfl, .invalid rfl hv⟩
    | true =>
      simp only [hv, Bool.not_true, Bool.false_eq_true, ↓reduceIte] at hn ⊢
      obtain ⟨f1, f2, f3, f4, f5⟩ := seiSet_facts w call t
      cases hcw : w.canWrite (reqBytes call t a).length with
      | false =>
        simp only [hcw, Bool.false_eq_true, ↓reduceIte]
        exact Or.inl ⟨_, _, rfl, .writeFailed rfl hv hcw⟩
      | true =>
        simp only [hcw, ↓reduceIte] at hn ⊢
        generalize hw0 : (seiSet w call t).writeBytes (reqBytes call t a) = w0 at hn ⊢
        have g1 : w0.rx = w.rx := by rw [← hw0]; simp [f1]
        have g2 : w0.reader = w.reader := by rw [← hw0]; simp [f2]
        have g3 : w0.sent = w.sent ++ reqBytes call t a := by
          rw [← hw0, (sent_writeBytes _ _ (by rw [f5]; exact hcw)).1, f3]
        rcases firstEnd_cause (awaitFirst_spec w0 call t a) with ⟨_, res, ho, hc⟩ | ⟨_, cls, ho⟩ | ⟨h1, _⟩
        · exact Or.inl ⟨res, w0.out, ho, .response w0 res (fun h => by cases h) (fun _ => ⟨hv, hcw, g1, g2, g3⟩) hc⟩
        · exact Or.inr ⟨w0.out, cls, ho⟩
        · rw [h1] at hn; cases hn

/-- a call labelled `connect` / `authorize` that is executing is the `connect()` / `authorize()` future -/
theorem connecting_of_call {w : World} {c : Call} (hc : taskCall w.task = some c) (hne : c ≠ .run) :
    ∃ t a s, w.task = .connecting c t a s := by
  cases ht : w.task with
  | none => rw [ht] at hc; cases hc
  | connecting call t a s =>
    rw [ht] at hc
    simp only [taskCall, Option.some.injEq] at hc
    subst hc
    exact ⟨t, a, s, rfl⟩
  | running s =>
    rw [ht] at hc
    simp only [taskCall, Option.some.injEq] at hc
    exact absurd hc.symm hne

/-! # C06 — DUP = 0 on the first transmission -/

/-- bit 3 of the first byte (the DUP flag of a PUBLISH) is clear -/
def DupClear (pkt : Bytes) : Prop := ∃ b rest, pkt = b :: rest ∧ b.toNat / 8 % 2 = 0

/-- bit 3 of the first byte is set -/
def DupSet (pkt : Bytes) : Prop := ∃ b rest, pkt = b :: rest ∧ b.toNat / 8 % 2 = 1

/-- every publish request still to be started has a QoS of the `QoS` enum and the DUP flag clear (`publish()` never
    sets it) -/
def PlainOk (w : World) : Prop :=
  ∀ id h t, (id, OpSt.fresh h (.publish t)) ∈ w.ops → t.qos ≤ 2 ∧ t.dup = false

/-- every publish request logged in a transcript has QoS 0, 1 or 2 and the DUP flag clear -/
def PubPlain (out : List Obs) : Prop :=
  ∀ id h t, Obs.ev (.op id h (.publish t)) ∈ out → t.qos ≤ 2 ∧ t.dup = false

theorem plainOk_of_logged {w : World} (h : FreshLogged w) (hq : PubPlain w.out) : PlainOk w :=
  fun id hh t hmem => hq id hh t (h id hh (.publish t) hmem)

theorem PlainOk.qos {w : World} (h : PlainOk w) : QosOk w := fun id hh t hmem => (h id hh t hmem).1

theorem dupClear_encode (t : PublishTx) (hd : t.dup = false) (hq : t.qos ≤ 2) :
    DupClear t.encode ∧ pktType t.encode = 3 := by
  obtain ⟨rest, e, _, h3, h4⟩ := encode_dup_clear t hd hq
  refine ⟨⟨_, rest, e, ?_⟩, h4⟩
  rw [h3]
  have hr : b2n t.retain ≤ 1 := by unfold b2n; split <;> omega
  omega

/-- a PUBLISH message as `publish()` queues it: packet type 3 with the DUP flag clear -/
def FirstTx (m : Msg) : Prop := pktType m.pkt = 3 → DupClear m.pkt

/-- **How a poll of a handle future changes the message queue, as far as PUBLISH packets are concerned**: it appends
    at most one message, and if that message carries a packet of type 3 its DUP flag is clear. -/
theorem pollOp_queue_firstTx (w : World) (id : Nat) (hq : PlainOk w) :
    (w.pollOp id).queue = w.queue ∨ ∃ m, (w.pollOp id).queue = w.queue ++ [m] ∧ FirstTx m := by
  have sa : ∀ (w0 : World) (m : Msg) (s : Nat) (k : Wait), w0.queue = w.queue → FirstTx m →
      (w0.sendAwait m id s k).queue = w.queue ∨ ∃ m', (w0.sendAwait m id s k).queue = w.queue ++ [m'] ∧ FirstTx m' := by
    intro w0 m s k h0 hm
    by_cases hc : w0.hasCtx = true
    · obtain ⟨wk, qr, e⟩ := User.sendAwait_ctx w0 m id s k hc
      right; exact ⟨m, by rw [e, ← h0], hm⟩
    · left; rw [User.sendAwait_no_ctx w0 m id s k (by simpa using hc)]; simpa using h0
  have ne3 : ∀ m : Msg, pktType m.pkt ≠ 3 → FirstTx m := fun m h h3 => absurd h3 h
  unfold pollOp
  cases hop : w.opSt id with
  | none => exact Or.inl rfl
  | some st =>
    cases st with
    | fresh h req =>
      show (w.startOp id req).queue = w.queue ∨ ∃ m, (w.startOp id req).queue = w.queue ++ [m] ∧ FirstTx m
      cases req with
      | publish t =>
        obtain ⟨hq2, hd⟩ := hq id h t (mem_of_opSt hop)
        by_cases hq0 : t.qos = 0
        · rw [User.startOp_publish0 w id t hq0]
          split
          · left; simp
          · exact sa w _ _ _ rfl (fun _ => (dupClear_encode t hd hq2).1)
        · rw [User.startOp_publish12 w id t hq0]
          split
          · left; simp [allocPid]
          · exact sa (w.allocPid.2) _ _ _ rfl
              (fun _ => (dupClear_encode ({ t with packetId := some w.pidCtr } : PublishTx) hd hq2).1)
      | subscribe t =>
        rw [User.startOp_subscribe]
        simp only []
        split
        · left; simp [allocPid, allocSub]
        · split
          · left; simp [allocPid, allocSub, dropChanRx, setChan]
          · next w' hs =>
            by_cases hc : w.hasCtx = true
            · obtain ⟨wk, qr, e⟩ := User.sendMsg_shape (((w.allocPid.2).allocSub.2).setChan id {})
                (.subscribe (actionId 9 w.pidCtr) w.subCtr
                  ({ t with packetId := w.pidCtr, subId := some w.subCtr } : SubscribeTx).encode (2 * id) id) hc
              rw [e] at hs; cases hs
              right
              refine ⟨_, rfl, ne3 _ ?_⟩
              simp [Msg.pkt, SubscribeTx.encode]
            · rw [User.sendMsg_none _ _ (by simpa [setChan, allocPid, allocSub] using hc)] at hs; cases hs
      | unsubscribe t =>
        rw [User.startOp_unsubscribe]
        split
        · left; simp [allocPid]
        · exact sa (w.allocPid.2) _ _ _ rfl (ne3 _ (by simp [Msg.pkt, UnsubscribeTx.encode]))
      | ping => rw [User.startOp_ping]; exact sa w _ _ _ rfl (ne3 _ (by simp [Msg.pkt, pingreqBytes, pktType]))
      | disconnect t =>
        rw [User.startOp_disconnect]
        exact sa w _ _ _ rfl (ne3 _ (by simp [Msg.pkt, DisconnectTx.encode]))
    | wait s k =>
      simp only
      cases hs : w.slot s with
      | none => exact Or.inl rfl
      | some sl =>
        cases sl with
        | empty => exact Or.inl rfl
        | closed => exact Or.inl (by simp [clearSlot])
        | full v =>
          rcases (pubrel_only_from_pubrec w id).2 s k v with e | ⟨a, rfl, rfl, ha, hc, e⟩
          · exact Or.inl e
          · refine Or.inr ⟨_, e, ne3 _ ?_⟩
            simp only [Msg.pkt]
            rw [User.pktType_ackBytes]; decide

/-- **Every queued PUBLISH has DUP = 0, at every moment of every execution** whose publish requests have a QoS of the
    enum and the DUP flag clear (`publish()` never sets it): the packet a publish hands to the context — which the
    context writes as given (`handleMsg_writes`) — is a first transmission. -/
theorem during_firstTx {cfg : Cfg} {w : World} (hd : During cfg w) (hq : PubPlain w.out) :
    ∀ m ∈ w.queue, FirstTx m := by
  induction hd with
  | init => simp
  | @next w w' hd hm ih =>
    obtain ⟨added, eo⟩ := hm.out_prefix
    have hq0 : PubPlain w.out := fun id hh t hmem => hq id hh t (by rw [eo]; exact List.mem_append_left _ hmem)
    have ih0 := ih hq0
    have hpl := plainOk_of_logged (during_freshLogged hd) hq0
    cases hm with
    | ctx => exact fun m hmem => ih0 m (moves_ctx_queue (pollCtx_moves w) m hmem)
    | user t ht =>
      cases t with
      | ctx => exact absurd rfl ht
      | op id =>
        show ∀ m ∈ ((w.unwake (.op id)).pollOp id).queue, FirstTx m
        rcases pollOp_queue_firstTx (w.unwake (.op id)) id hpl with e | ⟨m0, e, hm0⟩
        · rw [e]; exact ih0
        · rw [e]
          intro m hmem
          rcases List.mem_append.mp hmem with h | h
          · exact ih0 m h
          · simp only [List.mem_singleton] at h; subst h; exact hm0
      | st id =>
        show ∀ m ∈ ((w.unwake (.st id)).pollStream id).queue, FirstTx m
        rw [pollStream_queue]; exact ih0
    | unwake t => exact ih0
    | ev e hp hb =>
      rcases apply_cases (w.emit (.ev e)) e with ⟨t, rfl, _⟩ | ⟨tk, _, _, _, h4⟩ | hpas
      · exact absurd rfl (hp t)
      · rw [h4]; simpa using ih0
      · rcases hpas.queue with e | e <;> rw [e]
        · exact ih0
        · simp
    | logged t hb => exact ih0
    | stall => exact ih0
    | flush => rw [flushRaw_queue]; exact ih0

theorem dupSet_setDup (pkt : Bytes) (h : pkt ≠ []) : DupSet (setDup pkt) := by
  cases pkt with
  | nil => exact absurd rfl h
  | cons b t =>
    refine ⟨_, t, rfl, ?_⟩
    have hb : b.toNat < 256 := UInt8.toNat_lt b
    obtain ⟨_, _, h3, h4⟩ := lor8_bits b.toNat hb
    rw [UInt8.toNat_ofNat', Nat.mod_eq_of_lt h4, h3]

/-- the loop pops the message it handles: a queued message is handled at most once -/
theorem runCont_queue {w w1 : World} (h : RunCont w w1) : (∃ m, w.queue = m :: w1.queue) ∨ w1.queue = w.queue := by
  cases h with
  | msg m q w1 hq hr =>
    have e : w1 = (World.runHandler { w with queue := q } (fun wok => w.c.handleMsg m wok)).1 := by rw [hr]
    subst e; exact Or.inl ⟨m, by simp [hq]⟩
  | pkt rx' rd' fr p w1 hq hs hp hd hr =>
    have e : w1 = (World.runHandler { w with rx := rx', reader := rd' }
        (fun wok => w.c.handlePkt w.chanRxAlive p wok)).1 := by rw [hr]
    subst e; exact Or.inr (by simp)

theorem pubPlain_of_script (cfg : Cfg) (evs : List Ev)
    (hq : ∀ id h t, Ev.op id h (.publish t) ∈ evs → t.qos ≤ 2 ∧ t.dup = false) :
    PubPlain (evs.foldl World.step { cfg := cfg }).out := by
  intro id h t hm
  rcases steps_ev_lines evs _ _ hm with h1 | h1
  · simp at h1
  · exact hq id h t h1

/-! # C06 — `InternalError` is never reported when operation ids are not reused

  The bookkeeping invariants of Lemmas/WorldOps.lean (`Good`: the oneshots the context owns belong to the operation that
  created them and have its kind) are carried along `During`, for executions whose logged `op` events carry pairwise
  distinct ids; with them, "written" (`SlotVal.unit`) only ever reaches the oneshot of a fire-and-forget operation. -/

/-- the operation ids of the `op` events logged in a transcript -/
def loggedIds (out : List Obs) : List Nat :=
  out.filterMap fun o => match o with
    | .ev (.op id _ _) => some id
    | _ => none

theorem loggedIds_append (a b : List Obs) : loggedIds (a ++ b) = loggedIds a ++ loggedIds b := by
  simp [loggedIds, List.filterMap_append]

theorem move_unwake (w : World) (t : Task) : Move none w (w.unwake t) :=
  .quiet (by simp) (fun _ => by simp) (by simp) (by simp) (by simp) (outExtP_of_eq (by simp))

theorem move_stall (w : World) : Move none w (w.emit .stall) :=
  .quiet rfl (fun _ => rfl) rfl rfl rfl (outExtP_one .stall rfl ⟨by simp, by simp⟩)

/-- **The bookkeeping invariants hold at every moment of an execution whose operation ids are pairwise distinct.** -/
theorem during_good {cfg : Cfg} {w : World} (hd : During cfg w) (hn : (loggedIds w.out).Nodup) :
    Good (· ∈ loggedIds w.out) w := by
  induction hd with
  | init => exact Good.init _ cfg
  | @next w w' hd hm ih =>
    obtain ⟨added, eo⟩ := hm.out_prefix
    have hn0 : (loggedIds w.out).Nodup := by
      rw [eo, loggedIds_append] at hn
      exact (List.nodup_append.mp hn).1
    have h0 := ih hn0
    have grow : ∀ x, x ∈ loggedIds w.out → x ∈ loggedIds w'.out := by
      intro x hx; rw [eo, loggedIds_append]; exact List.mem_append_left _ hx
    cases hm with
    | ctx => exact (h0.moves (pollCtx_moves w)).mono grow
    | user t ht => exact (h0.moves (pollTask_moves w t)).mono grow
    | unwake t => exact (h0.move (move_unwake w t)).mono grow
    | ev e hp hb =>
      have h1 := h0.move (emit_ev_move w e)
      rcases apply_decomp (w.emit (.ev e)) e with ⟨id, hh, req, rfl, ha⟩ | hmv
      · have eout : ((w.emit (.ev (.op id hh req))).apply (.op id hh req)).out = w.out ++ [.ev (.op id hh req)] := by
          rw [ha.out]; rfl
        have hfresh : id ∉ loggedIds w.out := by
          rw [eout, loggedIds_append] at hn
          have := (List.nodup_append.mp hn).2.2 id
          intro hx
          exact this hx id (by simp [loggedIds]) rfl
        have h2 : Good (fun x => x ∈ loggedIds w.out ∨ x = id)
            ((w.emit (.ev (.op id hh req))).apply (.op id hh req)) :=
          ⟨h1.ops.addOp ha, h1.kind.addOp ha hfresh, fun j => by rw [ha.out]; exact h1.noUnr j⟩
        refine h2.mono ?_
        rintro x (hx | rfl)
        · exact grow x hx
        · rw [eout, loggedIds_append]; simp [loggedIds]
      · exact (h1.moves hmv).mono grow
    | logged t hb => exact (h0.move (emit_ev_move w _)).mono grow
    | stall => exact (h0.move (move_stall w)).mono grow
    | flush => exact (h0.move (flushRaw_move w)).mono grow

/-- "written" is only ever found in the oneshot of an operation waiting for it (a fire-and-forget request) -/
def UnitOk (w : World) : Prop :=
  ∀ id s k, (id, OpSt.wait s k) ∈ w.ops → w.slot s = some (.full .unit) → k = .ff

theorem unitOk_congr {w w' : World} (hu : UnitOk w)
    (hops : ∀ id s k, (id, OpSt.wait s k) ∈ w'.ops → (id, OpSt.wait s k) ∈ w.ops)
    (hs : ∀ s, w'.slot s = some (.full .unit) → w.slot s = some (.full .unit)) : UnitOk w' :=
  fun id s k hm hsl => hu id s k (hops id s k hm) (hs s hsl)

theorem unitOk_same {w w' : World} (hu : UnitOk w) (hops : w'.ops = w.ops) (hs : ∀ s, w'.slot s = w.slot s) :
    UnitOk w' :=
  unitOk_congr hu (fun id s k hm => by rw [hops] at hm; exact hm) (fun s h => by rw [hs s] at h; exact h)

theorem unitOk_of_slotRel {P : Nat → SlotVal → Prop} {w w' : World} (hu : UnitOk w) (hops : w'.ops = w.ops)
    (hs : SlotRel P w w') (hP : ∀ s, P s .unit → ∀ id k, (id, OpSt.wait s k) ∈ w.ops → k = .ff) : UnitOk w' := by
  intro id s k hm hsl
  rw [hops] at hm
  rcases hs s with e | ⟨_, e | ⟨v, e, hv⟩⟩
  · exact hu id s k hm (by rw [← e]; exact hsl)
  · rw [e] at hsl; cases hsl
  · rw [e] at hsl
    simp only [Option.some.injEq, Slot.full.injEq] at hsl
    subst hsl
    exact hP s hv id k hm

theorem unitOk_msg {U : Nat → Prop} (w : World) (m : Msg) (q : List Msg) (hq : w.queue = m :: q) (hk : KInv U w)
    (hu : UnitOk w) : UnitOk (({ w with queue := q }).runHandler (fun wok => w.c.handleMsg m wok)).1 := by
  obtain ⟨b, _, _, hs, ho, _, _, _⟩ := runHandler_rel ({ w with queue := q }) (fun wok => w.c.handleMsg m wok)
  have hu0 : UnitOk ({ w with queue := q } : World) := hu
  refine unitOk_of_slotRel hu0 ho hs ?_
  intro s hmem id k hop
  obtain ⟨h1, _, h3⟩ := msg_replies_only_to_its_own_slot w.c m b s .unit hmem
  obtain ⟨⟨pkt, s', rfl⟩, _⟩ := h3 rfl
  have hop' : (id, OpSt.wait (Msg.ff pkt s').slot k) ∈ w.ops := by rw [← h1]; exact hop
  exact hk.qmsg (.ff pkt s') (by rw [hq]; exact List.mem_cons_self) id k hop'

theorem unitOk_pkt (w : World) (rx' : Rx) (rd' : List ReadEv) (p : RxPacket) (hu : UnitOk w) :
    UnitOk (({ w with rx := rx', reader := rd' }).runHandler (fun wok => w.c.handlePkt w.chanRxAlive p wok)).1 := by
  obtain ⟨b, _, _, hs, ho, _, _, _⟩ :=
    runHandler_rel ({ w with rx := rx', reader := rd' }) (fun wok => w.c.handlePkt w.chanRxAlive p wok)
  have hu0 : UnitOk ({ w with rx := rx', reader := rd' } : World) := hu
  refine unitOk_of_slotRel hu0 ho hs ?_
  intro s hmem
  rcases ack_completion_cases w.c w.chanRxAlive p b with ⟨h1, _⟩ | ⟨aid, slot, rest, _, _, h1, _⟩
  · rw [h1] at hmem; cases hmem
  · rw [h1] at hmem; simp at hmem

theorem unitOk_runCont {U : Nat → Prop} {w w1 : World} (h : RunCont w w1) (hk : KInv U w) (hu : UnitOk w) :
    UnitOk w1 := by
  cases h with
  | msg m q w1 hq hr =>
    have e : w1 = (World.runHandler { w with queue := q } (fun wok => w.c.handleMsg m wok)).1 := by rw [hr]
    subst e; exact unitOk_msg w m q hq hk hu
  | pkt rx' rd' fr p w1 hq hs hp hd hr =>
    have e : w1 = (World.runHandler { w with rx := rx', reader := rd' }
        (fun wok => w.c.handlePkt w.chanRxAlive p wok)).1 := by rw [hr]
    subst e; exact unitOk_pkt w rx' rd' p hu

theorem unitOk_runEnd {U : Nat → Prop} {w r : World} (h : RunEnd w r) (hk : KInv U w) (hu : UnitOk w) :
    UnitOk r := by
  cases h with
  | msgExit m q w1 fl hq hr hne =>
    have e : w1 = (World.runHandler { w with queue := q } (fun wok => w.c.handleMsg m wok)).1 := by rw [hr]
    subst e; exact unitOk_same (unitOk_msg w m q hq hk hu) rfl (fun _ => rfl)
  | closed hq hs => exact unitOk_same hu rfl (fun _ => rfl)
  | pktExit rx' rd' fr p w1 fl hq hs hp hd hr hne =>
    have e : w1 = (World.runHandler { w with rx := rx', reader := rd' }
        (fun wok => w.c.handlePkt w.chanRxAlive p wok)).1 := by rw [hr]
    subst e; exact unitOk_same (unitOk_pkt w rx' rd' p hu) rfl (fun _ => rfl)
  | codec rx' rd' fr hq hs hp hd => exact unitOk_same hu rfl (fun _ => rfl)
  | panic rx' rd' fr hq hs hp hd => exact unitOk_same hu rfl (fun _ => rfl)
  | sock rx' rd' hq hs hp => exact unitOk_same hu rfl (fun _ => rfl)
  | pending rx' rd' hq hs hp =>
    by_cases hrd : rd' = []
    · rw [if_pos hrd]; exact unitOk_same hu rfl (fun _ => rfl)
    · rw [if_neg hrd]; exact unitOk_same hu (by simp) (fun _ => by simp [slot])

theorem unitOk_runLoop {U : Nat → Prop} (f : Nat) (w : World) (hg : Good U w) (hu : UnitOk w) :
    UnitOk (runLoop f w) := by
  obtain ⟨wm, hs, he⟩ := runLoop_decomp f w
  have hm : Good U wm ∧ UnitOk wm := by
    clear he
    induction hs with
    | refl => exact ⟨hg, hu⟩
    | step hc _ ih => exact ih (hg.move (runCont_move hc)) (unitOk_runCont hc hg.kind hu)
  rcases he with he | he
  · rw [he]; exact hm.2
  · exact unitOk_runEnd he hm.1.kind hm.2

theorem move_resumed (w : World) : Move none w w.resumed := by
  obtain ⟨hsub, hsend⟩ := resume_facts w.c
  refine .drop (by simp [resumed]) (by simpa [resumed] using hsub) (by simp [resumed]) (by simp [resumed])
    (outExtP_neutral_of_outExt (outExt_trans (outExt_of_eq rfl) (applyEffs_outExt _ _))) ?_
  have := applyEffs_slotRel ({ w with c := (w.c.resume).1, task := .running true } : World) (w.c.resume).2.1
  refine slotRel_mono this ?_
  intro s v hm
  rw [hsend] at hm; cases hm

theorem unitOk_resumed (w : World) (hu : UnitOk w) : UnitOk w.resumed := by
  obtain ⟨_, hsend⟩ := resume_facts w.c
  have := applyEffs_slotRel ({ w with c := (w.c.resume).1, task := .running true } : World) (w.c.resume).2.1
  have hu0 : UnitOk ({ w with c := (w.c.resume).1, task := .running true } : World) := hu
  refine unitOk_of_slotRel hu0 (by simp [resumed]) this ?_
  intro s hm
  rw [hsend] at hm; cases hm

theorem move_resent (w : World) : Move none w.resumed w.resent := by
  obtain ⟨_, _, a3, _, a5, _, a7, _, _, _, a11, _, _, _, a15⟩ := foldl_writeBytes_frame (w.c.resume).2.2 w.resumed
  exact .quiet a5 (fun s => by simp only [slot, resent, a11]) a3 (by rw [resent, a7])
    (foldl_writeBytes_pidCtr _ _) (outExtP_neutral_of_outExt a15)

theorem unitOk_pollCtx {U : Nat → Prop} (w : World) (hg : Good U w) (hu : UnitOk w) : UnitOk w.pollCtx := by
  unfold pollCtx
  cases ht : w.task with
  | none => exact hu
  | connecting call t a started =>
    simp only
    have fe : ∀ (w0 : World), UnitOk w0 → UnitOk (w0.awaitFirst call t a) := by
      intro w0 h0
      rcases firstEnd_out (awaitFirst_spec w0 call t a) with ⟨_, h1, h2, _⟩ | ⟨_, _, h1, h2, _⟩
      · exact unitOk_same h0 h1 (fun s => by simp only [slot, h2])
      · exact unitOk_same h0 h1 (fun s => by simp only [slot, h2])
    cases started with
    | true => simp only [pollConnect, ↓reduceIte]; exact fe w hu
    | false =>
      rcases pollConnect_prelude w call t a with ⟨_, h2⟩ | ⟨_, w0, _, _, _, _, a5, a6, _, h2 | h2⟩
      · rw [h2]; exact unitOk_same hu rfl (fun _ => rfl)
      · rw [h2]; exact fe w0 (unitOk_same hu a6 (fun s => by simp only [slot, a5]))
      · rw [h2]; exact unitOk_same hu (by simpa using a6) (fun s => by simp only [slot, finish_slots, a5])
  | running started =>
    simp only
    cases started with
    | true => simp only [pollRun, ↓reduceIte]; exact unitOk_runLoop _ w hg hu
    | false =>
      rw [pollRun_first_eq]
      have hu1 := unitOk_resumed w hu
      split
      · have hg2 : Good U w.resent := (hg.move (move_resumed w)).move (move_resent w)
        obtain ⟨_, _, _, _, a5, _, _, _, _, _, a11, _⟩ := foldl_writeBytes_frame (w.c.resume).2.2 w.resumed
        exact unitOk_runLoop _ _ hg2 (unitOk_same hu1 a5 (fun s => by simp only [slot, resent, a11]))
      · exact unitOk_same hu1 (by simp) (fun s => by simp)

theorem unitOk_move_some {id : Nat} {w w' : World} (hm : Move (some id) w w') (hi : OpsInv w) (hu : UnitOk w) :
    UnitOk w' := by
  cases hm with
  | finish j st hst ops queue aw pid slots out =>
    intro i s k hmem hsl
    rw [ops] at hmem
    obtain ⟨hne, hmem'⟩ := mem_eraseFirst_ne id i _ w.ops hi.nodup hmem
    have := slots s (hi.other_slot hst hne hmem')
    rw [this] at hsl
    exact hu i s k hmem' hsl
  | send j st m s k hst shape ops queue mslot aw pid slotNew slots out msgok =>
    intro i s' k' hmem hsl
    rw [ops] at hmem
    rcases mem_setAssoc_nodup id i _ st _ w.ops hi.nodup hst hmem with ⟨rfl, e⟩ | ⟨hne, hmem'⟩
    · cases e
      rw [slotNew] at hsl; cases hsl
    · have hs' : s' ≠ s := by
        have h2 := hi.owner hmem'
        rcases shape with ⟨h, r, _, rfl, _⟩ | ⟨s0, rfl, rfl, _⟩
        · omega
        · have h1 := (hi.shape _ s0 .pubrec (mem_of_opSt hst)).1
          rcases h1 with ⟨h1, _⟩ | ⟨_, h1⟩
          · omega
          · cases h1
      have := slots s' hs' (hi.other_slot hst hne hmem')
      rw [this] at hsl
      exact hu i s' k' hmem' hsl

theorem unitOk_pollOp (w : World) (id : Nat) (hi : OpsInv w) (hu : UnitOk w) : UnitOk (w.pollOp id) := by
  unfold pollOp
  cases hop : w.opSt id with
  | none => exact hu
  | some st =>
    cases st with
    | fresh h req => exact unitOk_move_some (startOp_move w id h req hop) hi hu
    | wait s k =>
      simp only
      cases hs : w.slot s with
      | none => exact unitOk_same hu rfl (fun _ => rfl)
      | some sl =>
        cases sl with
        | empty => exact unitOk_same hu rfl (fun _ => rfl)
        | full v => exact unitOk_move_some (resumeOp_move w id s k v hop hs) hi hu
        | closed =>
          refine unitOk_move_some (finishOp_move w _ id _ _ hop rfl rfl rfl (fun hp => hp) ?_ rfl) hi hu
          intro s' h2
          refine clearSlot_slot_ne w s s' ?_
          intro e; subst e; exact h2 k rfl

theorem pollStream_ops_slots (w : World) (id : Nat) :
    (w.pollStream id).ops = w.ops ∧ (w.pollStream id).slots = w.slots := by
  unfold pollStream
  repeat' split
  all_goals simp [dropChanRx]

theorem unitOk_dropOp (w : World) (id : Nat) (hi : OpsInv w) (hu : UnitOk w) : UnitOk (w.dropOp id) := by
  unfold dropOp
  cases hop : w.opSt id with
  | none => exact hu
  | some st =>
    cases st with
    | fresh h req =>
      simp only
      refine unitOk_congr hu ?_ (fun s hs => by simpa [slot] using hs)
      intro i s k hmem
      simp only [senderGone_ops] at hmem
      exact (mem_eraseFirst_ne id i _ w.ops hi.nodup hmem).2
    | wait s k =>
      simp only
      intro i s' k' hmem hsl
      have hmem0 : (i, OpSt.wait s' k') ∈ eraseFirst id w.ops := by
        cases k <;> simpa [clearSlot, dropChanRx] using hmem
      obtain ⟨hne, hmem'⟩ := mem_eraseFirst_ne id i _ w.ops hi.nodup hmem0
      have hs' : s' ≠ s := by
        have h1 := hi.owner (mem_of_opSt hop)
        have h2 := hi.owner hmem'
        omega
      have hsl0 : (w.clearSlot s).slot s' = some (.full .unit) := by
        cases k <;> simpa [slot, dropChanRx] using hsl
      rw [clearSlot_slot_ne w s s' hs'] at hsl0
      exact hu i s' k' hmem' hsl0

theorem flushRaw_ops_slots (w : World) : w.flushRaw.ops = w.ops ∧ w.flushRaw.slots = w.slots := by
  unfold flushRaw; split <;> exact ⟨rfl, rfl⟩

theorem feedEvents_ops_slots (w : World) (evs : List ReadEv) :
    (w.feedEvents evs).ops = w.ops ∧ (w.feedEvents evs).slots = w.slots := by
  unfold feedEvents
  simp only
  split <;> simp

/-- a script event other than `poll` keeps `UnitOk` -/
theorem unitOk_apply (w : World) (e : Ev) (he : ∀ t, e ≠ .poll t) (hi : OpsInv w) (hu : UnitOk w) :
    UnitOk (w.apply e) := by
  have same : ∀ w' : World, w'.ops = w.ops → w'.slots = w.slots → UnitOk w' :=
    fun w' h1 h2 => unitOk_same hu h1 (fun s => by simp only [slot, h2])
  have bad : UnitOk w.badScript := same _ rfl rfl
  cases e with
  | poll t => exact absurd rfl (he t)
  | setup =>
    simp only [apply]
    split
    · exact bad
    · split
      · split
        · exact bad
        · exact same _ rfl rfl
      · exact same _ (flushRaw_ops_slots w).1 (flushRaw_ops_slots w).2
  | connect t => simp only [apply]; split; exact bad; exact same _ (by simp) (by simp)
  | authorize a => simp only [apply]; split; exact bad; exact same _ (by simp) (by simp)
  | run => simp only [apply]; split; exact bad; exact same _ (by simp) (by simp)
  | dropFut => exact same _ rfl rfl
  | dropCtx =>
    cases hc : w.hasCtx with
    | false => simp only [apply, hc, Bool.not_false, ↓reduceIte]; exact same _ rfl rfl
    | true =>
      rw [apply_dropCtx w hc]
      have inv := closes_inv (closes_dropCtxClosed w)
      refine unitOk_congr hu (fun id s k hm => ?_) (fun s hs => ?_)
      · have : (dropCtxClosed w).ops = w.ops := inv.ops_eq
        have hm' : (id, OpSt.wait s k) ∈ (dropCtxClosed w).ops := hm
        rw [this] at hm'; exact hm'
      · have hs' : (dropCtxClosed w).slot s = some (.full .unit) := hs
        have e0 : (dropCtxStart w).slot s = w.slot s := rfl
        cases hv : w.slot s with
        | none => rw [inv.slotNone s (e0.trans hv)] at hs'; cases hs'
        | some sl =>
          cases sl with
          | empty =>
            rcases inv.slotEmpty s (e0.trans hv) with h | h <;> rw [h] at hs' <;> cases hs'
          | full v => rw [inv.slotFull s v (e0.trans hv)] at hs'; exact hs'
          | closed => rw [inv.slotClosed s (e0.trans hv)] at hs'; cases hs'
  | markDisc secs => simp only [apply]; split; exact bad; exact same _ rfl rfl
  | snap => simp only [apply]; split; exact bad; exact same _ rfl rfl
  | feed chunks =>
    simp only [apply]; split; exact bad
    exact same _ (feedEvents_ops_slots w _).1 (feedEvents_ops_slots w _).2
  | feedEof =>
    simp only [apply]; split; exact bad
    exact same _ (feedEvents_ops_slots w _).1 (feedEvents_ops_slots w _).2
  | feedErr =>
    simp only [apply]; split; exact bad
    exact same _ (feedEvents_ops_slots w _).1 (feedEvents_ops_slots w _).2
  | op id h req =>
    simp only [apply]; split; exact bad
    refine unitOk_congr hu (fun i s k hm => ?_) (fun s hs => by simpa [slot] using hs)
    simp only [wake_ops, List.mem_append, List.mem_singleton, Prod.mk.injEq, reduceCtorEq, and_false, or_false] at hm
    exact hm
  | hold t => simp only [apply]; split; exact hu; exact same _ rfl rfl
  | release t => exact same _ rfl rfl
  | drop t =>
    cases t with
    | ctx => exact hu
    | op id => exact unitOk_dropOp w id hi hu
    | st id =>
      simp only [apply]; split
      · exact same _ rfl rfl
      · exact hu
  | dropRsp id =>
    simp only [apply]; split
    · exact same _ rfl rfl
    · exact hu
  | stream id => simp only [apply]; split; exact bad; exact same _ (by simp) (by simp)
  | clone h h2 => simp only [apply]; split; exact bad; exact same _ rfl rfl
  | dropHandle h => simp only [apply]; split; exact bad; exact same _ (by simp) (by simp)

/-- **"Written" only ever reaches the oneshot of a fire-and-forget operation**, at every moment of an execution whose
    logged operation ids are pairwise distinct. -/
theorem during_unitOk {cfg : Cfg} {w : World} (hd : During cfg w) (hn : (loggedIds w.out).Nodup) : UnitOk w := by
  induction hd with
  | init => intro id s k hm; simp at hm
  | @next w w' hd hm ih =>
    obtain ⟨added, eo⟩ := hm.out_prefix
    have hn0 : (loggedIds w.out).Nodup := by
      rw [eo, loggedIds_append] at hn
      exact (List.nodup_append.mp hn).1
    have hu := ih hn0
    have hg := during_good hd hn0
    cases hm with
    | ctx => exact unitOk_pollCtx w hg hu
    | user t ht =>
      cases t with
      | ctx => exact absurd rfl ht
      | op id =>
        show UnitOk ((w.unwake (.op id)).pollOp id)
        exact unitOk_pollOp _ id (hg.move (move_unwake w _)).ops (unitOk_same hu rfl (fun _ => rfl))
      | st id =>
        show UnitOk ((w.unwake (.st id)).pollStream id)
        obtain ⟨h1, h2⟩ := pollStream_ops_slots (w.unwake (.st id)) id
        exact unitOk_same hu h1 (fun s => by simp only [slot, h2]; rfl)
    | unwake t => exact unitOk_same hu rfl (fun _ => rfl)
    | ev e hp hb =>
      exact unitOk_apply (w.emit (.ev e)) e hp (hg.move (emit_ev_move w e)).ops (unitOk_same hu rfl (fun _ => rfl))
    | logged t hb => exact unitOk_same hu rfl (fun _ => rfl)
    | stall => exact unitOk_same hu rfl (fun _ => rfl)
    | flush => exact unitOk_same hu (flushRaw_ops_slots w).1 (fun s => by simp only [slot, (flushRaw_ops_slots w).2])

/-! ## the logged operation ids are those of the script -/

theorem loggedIds_noEv {l : List Obs} (h : ∀ o ∈ l, NoEv o) : loggedIds l = [] := by
  unfold loggedIds
  rw [List.filterMap_eq_nil_iff]
  intro o ho
  cases o with
  | ev e => exact absurd rfl (h _ ho e)
  | _ => rfl

/-- one script step appends nothing, or the log line of its event followed by lines that are not event lines -/
theorem step_out_shape (w : World) (e : Ev) :
    (w.step e).out = w.out ∨ ∃ rest, (w.step e).out = w.out ++ .ev e :: rest ∧ ∀ o ∈ rest, NoEv o := by
  unfold World.step
  split
  · exact Or.inl rfl
  · right
    have h1 : OutExtP NoEv (w.emit (.ev e)) ((w.emit (.ev e)).apply e) := apply_noEv _ e
    generalize (w.emit (.ev e)).apply e = w1 at h1 ⊢
    have fin : ∀ w3 : World, OutExtP NoEv (w.emit (.ev e)) w3 →
        ∃ rest, w3.out = w.out ++ .ev e :: rest ∧ ∀ o ∈ rest, NoEv o := by
      intro w3 ⟨added, eo, hP⟩
      exact ⟨added, by rw [eo]; simp, hP⟩
    simp only
    split
    · exact fin _ h1
    · have h2 := outExtP_trans h1 (drain_noEv w1.drainFuel w1)
      generalize World.drain w1.drainFuel w1 = w2 at h2 ⊢
      have h3 : OutExtP NoEv (w.emit (.ev e))
          (if w2.cfg.sweep = true then World.drain w2.sweep.drainFuel w2.sweep else w2) := by
        split
        · exact outExtP_trans (outExtP_trans h2 (sweep_noEv w2)) (drain_noEv _ _)
        · exact h2
      generalize (if w2.cfg.sweep = true then World.drain w2.sweep.drainFuel w2.sweep else w2) = w3 at h3 ⊢
      split
      · exact fin _ (outExtP_trans h3 (outExtP_one _ rfl (by intro e' h; cases h)))
      · exact fin _ h3

theorem loggedIds_steps (evs : List Ev) (w : World) :
    ∃ l, loggedIds (evs.foldl World.step w).out = loggedIds w.out ++ l ∧ l.Sublist (opIds evs) := by
  induction evs generalizing w with
  | nil => exact ⟨[], by simp, List.Sublist.refl _⟩
  | cons e t ih =>
    simp only [List.foldl_cons]
    obtain ⟨l, h1, h2⟩ := ih (w.step e)
    have hcons : opIds (e :: t) = (evOpId e).toList ++ opIds t := by
      unfold opIds; rw [List.filterMap_cons]; cases evOpId e <;> rfl
    rcases step_out_shape w e with h | ⟨rest, h, hr⟩
    · refine ⟨l, by rw [h1, h], ?_⟩
      rw [hcons]; exact h2.trans (List.sublist_append_right _ _)
    · refine ⟨(evOpId e).toList ++ l, ?_, ?_⟩
      · rw [h1, h, loggedIds_append]
        have : loggedIds (Obs.ev e :: rest) = (evOpId e).toList := by
          have e1 : loggedIds (Obs.ev e :: rest) = loggedIds [Obs.ev e] ++ loggedIds rest := by
            rw [← loggedIds_append]; rfl
          rw [e1, loggedIds_noEv hr, List.append_nil]
          cases e <;> rfl
        rw [this, List.append_assoc]
      · rw [hcons]; exact List.Sublist.append (List.Sublist.refl _) h2

/-- the operation ids logged in the transcript of a script are among those the script issues, in order: if the script
    issues every id at most once, so does the transcript -/
theorem loggedIds_nodup_of_script (cfg : Cfg) (evs : List Ev) (hn : (opIds evs).Nodup) :
    (loggedIds (World.run cfg evs)).Nodup := by
  obtain ⟨l, h1, h2⟩ := loggedIds_steps evs { cfg := cfg }
  unfold World.run finishScript
  obtain ⟨added, eo, hP⟩ := flushRaw_dull (evs.foldl World.step { cfg := cfg })
  rw [eo, loggedIds_append, loggedIds_noEv (fun o ho => noEv_of_dull (hP o ho)), List.append_nil, h1]
  simpa [loggedIds] using h2.nodup hn

/-! # C06 — one PUBLISH per publish -/

/-- the message `publish()` queues at the first poll of its future, for the request `t` of operation `id` when the
    packet-identifier counter stands at `pid`: fire-and-forget for QoS 0, otherwise the PUBLISH carrying `pid`,
    registered for `PUBACK pid` (QoS 1) resp. `PUBREC pid` (QoS 2) -/
def publishMsg (t : PublishTx) (id pid : Nat) : Msg :=
  if t.qos = 0 then .ff t.encode (2 * id)
  else .awaitAck (actionId (if t.qos = 1 then 4 else 5) pid) ({ t with packetId := some pid } : PublishTx).encode (2 * id)

/-- **How a poll of a handle future changes the message queue, as far as PUBLISH packets are concerned**: it appends
    at most one message, and if that message carries a packet of type 3 then the future was a publish that had not
    been polled before, the message is exactly `publishMsg` of its request, and the future is no longer "not polled". -/
theorem pollOp_queue_publish (w : World) (id : Nat) :
    (w.pollOp id).queue = w.queue ∨ ∃ m, (w.pollOp id).queue = w.queue ++ [m] ∧
      (pktType m.pkt ≠ 3 ∨ ∃ h t, w.opSt id = some (.fresh h (.publish t)) ∧ m = publishMsg t id w.pidCtr ∧
        ∃ k, (w.pollOp id).opSt id = some (.wait (2 * id) k)) := by
  have sa : ∀ (w0 : World) (m : Msg) (s : Nat) (k : Wait), w0.queue = w.queue →
      (w0.sendAwait m id s k).queue = w.queue ∨
      ((w0.sendAwait m id s k).queue = w.queue ++ [m] ∧ (w0.sendAwait m id s k).opSt id = some (.wait s k)) := by
    intro w0 m s k h0
    by_cases hc : w0.hasCtx = true
    · obtain ⟨wk, qr, e⟩ := User.sendAwait_ctx w0 m id s k hc
      right; rw [e]; exact ⟨by simp [h0], User.lookupFirst_setAssoc_self _ _ _⟩
    · left; rw [User.sendAwait_no_ctx w0 m id s k (by simpa using hc)]; simpa using h0
  unfold pollOp
  cases hop : w.opSt id with
  | none => exact Or.inl rfl
  | some st =>
    cases st with
    | fresh h req =>
      show (w.startOp id req).queue = w.queue ∨ ∃ m, (w.startOp id req).queue = w.queue ++ [m] ∧
        (pktType m.pkt ≠ 3 ∨ ∃ h' t, some (OpSt.fresh h req) = some (.fresh h' (.publish t)) ∧ m = publishMsg t id w.pidCtr ∧
          ∃ k, (w.startOp id req).opSt id = some (.wait (2 * id) k))
      have ne3 : ∀ (w0 : World) (m : Msg) (s : Nat) (k : Wait), w0.queue = w.queue → pktType m.pkt ≠ 3 →
          (w0.sendAwait m id s k).queue = w.queue ∨ ∃ m', (w0.sendAwait m id s k).queue = w.queue ++ [m'] ∧
            (pktType m'.pkt ≠ 3 ∨ ∃ h' t, some (OpSt.fresh h req) = some (.fresh h' (.publish t)) ∧
              m' = publishMsg t id w.pidCtr ∧ ∃ k', (w0.sendAwait m id s k).opSt id = some (.wait (2 * id) k')) := by
        intro w0 m s k h0 hm
        rcases sa w0 m s k h0 with e | ⟨e, _⟩
        · exact Or.inl e
        · exact Or.inr ⟨m, e, Or.inl hm⟩
      cases req with
      | publish t =>
        by_cases hq0 : t.qos = 0
        · rw [User.startOp_publish0 w id t hq0]
          split
          · left; simp
          · rcases sa w (.ff t.encode (2 * id)) (2 * id) .ff rfl with e | ⟨e, e2⟩
            · exact Or.inl e
            · exact Or.inr ⟨_, e, Or.inr ⟨h, t, rfl, by simp [publishMsg, hq0], _, e2⟩⟩
        · rw [User.startOp_publish12 w id t hq0]
          split
          · left; simp [allocPid]
          · rcases sa (w.allocPid.2) (.awaitAck (actionId (if t.qos = 1 then 4 else 5) w.pidCtr)
                ({ t with packetId := some w.pidCtr } : PublishTx).encode (2 * id)) (2 * id)
                (if t.qos = 1 then .puback else .pubrec) rfl with e | ⟨e, e2⟩
            · exact Or.inl e
            · exact Or.inr ⟨_, e, Or.inr ⟨h, t, rfl, by simp [publishMsg, hq0], _, e2⟩⟩
      | subscribe t =>
        rw [User.startOp_subscribe]
        simp only []
        split
        · left; simp [allocPid, allocSub]
        · split
          · left; simp [allocPid, allocSub, dropChanRx, setChan]
          · next w' hs =>
            by_cases hc : w.hasCtx = true
            · obtain ⟨wk, qr, e⟩ := User.sendMsg_shape (((w.allocPid.2).allocSub.2).setChan id {})
                (.subscribe (actionId 9 w.pidCtr) w.subCtr
                  ({ t with packetId := w.pidCtr, subId := some w.subCtr } : SubscribeTx).encode (2 * id) id) hc
              rw [e] at hs; cases hs
              right
              refine ⟨_, rfl, Or.inl ?_⟩
              simp [Msg.pkt, SubscribeTx.encode]
            · rw [User.sendMsg_none _ _ (by simpa [setChan, allocPid, allocSub] using hc)] at hs; cases hs
      | unsubscribe t =>
        rw [User.startOp_unsubscribe]
        split
        · left; simp [allocPid]
        · refine ne3 (w.allocPid.2) _ _ _ rfl ?_
          simp [Msg.pkt, UnsubscribeTx.encode]
      | ping =>
        rw [User.startOp_ping]
        refine ne3 w _ _ _ rfl ?_
        simp [Msg.pkt, pingreqBytes, pktType]
      | disconnect t =>
        rw [User.startOp_disconnect]
        refine ne3 w _ _ _ rfl ?_
        simp [Msg.pkt, DisconnectTx.encode]
    | wait s k =>
      simp only
      cases hs : w.slot s with
      | none => exact Or.inl rfl
      | some sl =>
        cases sl with
        | empty => exact Or.inl rfl
        | closed => exact Or.inl (by simp [clearSlot])
        | full v =>
          rcases (pubrel_only_from_pubrec w id).2 s k v with e | ⟨a, rfl, rfl, ha, hc, e⟩
          · exact Or.inl e
          · refine Or.inr ⟨_, e, Or.inl ?_⟩
            simp only [Msg.pkt]
            rw [User.pktType_ackBytes]; decide

/-- **A PUBLISH enters the message queue only at the first poll of a publish future, and it is that publish's own
    packet.** For every elementary transition `w → w'`: a message of packet type 3 queued in `w'` was already queued
    in `w`, or the transition is the first poll of the future of a publish operation `id` (request `t`), the message is
    `publishMsg t id w.pidCtr` — the encoded request, for QoS > 0 with the packet identifier just taken — and
    afterwards the future waits (it is not "not polled yet" any more, so it never queues a second PUBLISH). -/
theorem publish_queue_origin {w w' : World} (hm : Micro w w') :
    ∀ m ∈ w'.queue, pktType m.pkt = 3 → m ∈ w.queue ∨
      ∃ id h t, w' = w.pollTask (.op id) ∧ w.opSt id = some (.fresh h (.publish t)) ∧
        m = publishMsg t id w.pidCtr ∧ ∃ k, w'.opSt id = some (.wait (2 * id) k) := by
  intro m hmem h3
  cases hm with
  | ctx => exact Or.inl (moves_ctx_queue (pollCtx_moves w) m hmem)
  | user t ht =>
    cases t with
    | ctx => exact absurd rfl ht
    | op id =>
      have hmem' : m ∈ ((w.unwake (.op id)).pollOp id).queue := hmem
      rcases pollOp_queue_publish (w.unwake (.op id)) id with e | ⟨m0, e, hm0⟩
      · rw [e] at hmem'; exact Or.inl hmem'
      · rw [e] at hmem'
        rcases List.mem_append.mp hmem' with h | h
        · exact Or.inl h
        · simp only [List.mem_singleton] at h
          subst h
          rcases hm0 with hne | ⟨hh, t, h1, h2, k, h4⟩
          · exact absurd h3 hne
          · exact Or.inr ⟨id, hh, t, rfl, h1, h2, k, h4⟩
    | st id =>
      have hmem' : m ∈ ((w.unwake (.st id)).pollStream id).queue := hmem
      rw [pollStream_queue] at hmem'; exact Or.inl hmem'
  | unwake t => exact Or.inl hmem
  | ev e hp hb =>
    rcases apply_cases (w.emit (.ev e)) e with ⟨t, rfl, _⟩ | ⟨tk, _, _, _, h4⟩ | hpas
    · exact absurd rfl (hp t)
    · rw [h4] at hmem; exact Or.inl (by simpa using hmem)
    · rcases hpas.queue with e | e <;> rw [e] at hmem
      · exact Or.inl hmem
      · simp at hmem
  | logged t hb => exact Or.inl hmem
  | stall => exact Or.inl hmem
  | flush => rw [flushRaw_queue] at hmem; exact Or.inl hmem

end W7
end World
end Poster
