/-
  Lemmas/WorldCancelStep.lean — `hide id` (Lemmas/WorldCancelHide.lean) commutes with the executor (`pollTask`,
  `drain`, `sweep`) and with every script event that does not address task `op id`, as long as a handle is alive
  and task `op id` is frozen (its future is gone, or the script holds it).
-/
import PosterModel.Lemmas.WorldCancelHide
import PosterModel.Lemmas.WorldOps

set_option linter.unusedVariables false
set_option linter.unusedSimpArgs false

namespace Poster
open Framing
namespace World
namespace W11

/-! ## nothing but a script event touches the handles -/

theorem runEnd_handles {w r : World} (h : RunEnd w r) : r.handles = w.handles := by
  cases h with
  | msgExit m q w1 fl hq hr hne =>
    have e : w1 = (World.runHandler { w with queue := q } (fun wok => w.c.handleMsg m wok)).1 := by rw [hr]
    subst e; simp
  | closed => simp
  | pktExit rx' rd' fr pk w1 fl hq hs hp hd hr hne =>
    have e : w1 = (World.runHandler { w with rx := rx', reader := rd' }
        (fun wok => w.c.handlePkt w.chanRxAlive pk wok)).1 := by rw [hr]
    subst e; simp
  | codec => simp
  | panic => simp
  | sock => simp
  | pending rx' rd' => split <;> simp

theorem runLoop_handles (f : Nat) (w : World) : (runLoop f w).handles = w.handles := by
  obtain ⟨wm, hs, he⟩ := runLoop_decomp f w
  have h1 : wm.handles = w.handles := (serve_frame hs).2.1
  rcases he with he | he
  · rw [he, h1]
  · rw [runEnd_handles he, h1]

theorem foldl_writeBytes_handles (pkts : List Bytes) (w : World) :
    (pkts.foldl (fun w x => w.writeBytes x) w).handles = w.handles :=
  (foldl_writeBytes_frame pkts w).2.2.2.1

theorem pollRun_handles (w : World) (started : Bool) : (w.pollRun started).handles = w.handles := by
  unfold pollRun
  split
  · exact runLoop_handles _ _
  · simp only
    split
    · simp [runLoop_handles, foldl_writeBytes_handles]
    · simp

theorem awaitFirst_handles (w : World) (call : Call) (t : ConnectTx) (a : AuthTx) :
    (w.awaitFirst call t a).handles = w.handles := by
  unfold awaitFirst
  repeat' split
  all_goals simp

theorem pollConnect_handles (w : World) (call : Call) (t : ConnectTx) (a : AuthTx) (started : Bool) :
    (w.pollConnect call t a started).handles = w.handles := by
  cases started with
  | true => simp only [pollConnect, ↓reduceIte, awaitFirst_handles]
  | false =>
    cases call <;>
    · simp only [pollConnect, Bool.false_eq_true, ↓reduceIte, apply_ite World.handles, awaitFirst_handles,
        finish_handles, writeBytes_handles, ite_self]

theorem pollCtx_handles (w : World) : w.pollCtx.handles = w.handles := by
  unfold pollCtx
  split
  · rfl
  · exact pollConnect_handles ..
  · exact pollRun_handles ..

theorem sendMsg_handles {w w1 : World} {m : Msg} (h : w.sendMsg m = some w1) : w1.handles = w.handles := by
  rw [sendMsg_eq] at h
  split at h
  · cases h; rfl
  · cases h

theorem sendAwait_handles (w : World) (m : Msg) (id s : Nat) (k : Wait) :
    (w.sendAwait m id s k).handles = w.handles := by
  unfold sendAwait
  cases h : w.sendMsg m with
  | none => simp
  | some w1 => simp [sendMsg_handles h]

theorem startOp_handles (w : World) (id : Nat) (req : Req) : (w.startOp id req).handles = w.handles := by
  cases req with
  | publish t =>
    by_cases hq : t.qos = 0
    · rw [User.startOp_publish0 _ _ _ hq]; split <;> simp [sendAwait_handles]
    · rw [User.startOp_publish12 _ _ _ hq]; split <;> simp [sendAwait_handles]
  | subscribe t =>
    rw [User.startOp_subscribe]
    simp only
    split
    · simp
    · cases h : World.sendMsg _ _ with
      | none => simp
      | some w1 => simp [sendMsg_handles h]
  | unsubscribe t => rw [User.startOp_unsubscribe]; split <;> simp [sendAwait_handles]
  | ping => rw [User.startOp_ping]; exact sendAwait_handles ..
  | disconnect t => rw [User.startOp_disconnect]; exact sendAwait_handles ..

theorem resumeOp_handles (w : World) (id s : Nat) (k : Wait) (v : SlotVal) :
    (w.resumeOp id s k v).handles = w.handles := by
  cases v with
  | errSize => simp [resumeOp]
  | errQuota => simp [resumeOp]
  | unit => cases k <;> simp [resumeOp]
  | pkt x =>
    cases k <;> cases x <;> simp only [resumeOp, apply_ite World.handles, finishOp_handles, clearSlot_handles,
      senderGone_handles, emit_handles, ite_self]
    split
    · rfl
    · cases h : World.sendMsg _ _ with
      | none => simp
      | some w1 => simp [sendMsg_handles h]

theorem pollOp_handles (w : World) (id : Nat) : (w.pollOp id).handles = w.handles := by
  unfold pollOp
  repeat' split
  all_goals simp [startOp_handles, resumeOp_handles]

theorem pollStream_handles (w : World) (id : Nat) : (w.pollStream id).handles = w.handles := by
  unfold pollStream
  repeat' split
  all_goals simp

theorem pollTask_handles (w : World) (t : Task) : (w.pollTask t).handles = w.handles := by
  cases t <;> simp [pollTask, pollCtx_handles, pollOp_handles, pollStream_handles]

theorem pollTask_held (w : World) (t : Task) : (w.pollTask t).held = w.held := by
  cases t with
  | ctx => exact (hand_pollCtx (w.unwake .ctx)).act.held_eq
  | op n => exact W5.pollOp_held (w.unwake (.op n)) n
  | st n => exact (W5.pollStream_ops_held (w.unwake (.st n)) n).2

theorem drain_handles (f : Nat) (w : World) : (drain f w).handles = w.handles := by
  induction f generalizing w with
  | zero => rfl
  | succ f ih =>
    rw [drain]
    split
    · rfl
    · rw [ih, pollTask_handles]

/-! ## the side conditions of the commutation -/

/-- an operation other than `id` is not touched by the polls of the other tasks -/
theorem moves_opSt_ne {A : Option Nat → Prop} {w w' : World} (m : Moves A w w') (id : Nat)
    (hA : ∀ t, A t → t ≠ some id) : w'.opSt id = w.opSt id := by
  induction m with
  | refl => rfl
  | @cons t a b c ht mv _ ih =>
    rw [ih]
    have hne := hA t ht
    cases mv with
    | cmsg m q hq queue ops => simp only [opSt, ops]
    | cpkt p aid slot pre post wf haid haw hpre aw queue ops => simp only [opSt, ops]
    | drop queue aw ops => simp only [opSt, ops]
    | finish j st hst ops =>
      have : id ≠ j := fun e => hne (by rw [e])
      simp only [opSt, ops, lookupFirst_eraseFirst_ne _ _ _ this]
    | send j st m s k hst shape ops =>
      have : id ≠ j := fun e => hne (by rw [e])
      simp only [opSt, ops, lookupFirst_setAssoc_ne _ _ _ _ this]

theorem pollTask_opSt_ne (w : World) (t : Task) (id : Nat) (h : t ≠ .op id) :
    (w.pollTask t).opSt id = w.opSt id := by
  refine moves_opSt_ne (pollTask_moves w t) id ?_
  intro x hx
  cases t with
  | ctx => intro e; rw [hx] at e; cases e
  | st n => intro e; rw [hx] at e; cases e
  | op n =>
    rcases hx with hx | hx
    · intro e; rw [hx] at e; cases e
    · intro e; rw [hx] at e; cases e; exact h rfl

/-- what the commutation needs of a world: a handle is alive (so no sender count reaches zero), the operation table is
    well formed (every operation waits on one of its own two oneshots), task `op id` is frozen -/
structure Side (id : Nat) (w : World) : Prop where
  handles : w.handles ≠ []
  ops : OpsInv w
  frozen : Frozen id w

theorem Side.pollTask {id : Nat} {w : World} (h : Side id w) (t : Task) (ht : t ≠ .op id) : Side id (w.pollTask t) := by
  refine ⟨by rw [pollTask_handles]; exact h.handles, h.ops.moves (pollTask_moves w t), ?_⟩
  rcases h.frozen with hf | hf
  · exact Or.inl (by rw [pollTask_held]; exact hf)
  · exact Or.inr (by rw [pollTask_opSt_ne w t id ht]; exact hf)

theorem Side.own {id : Nat} {w : World} (h : Side id w) {j s : Nat} {k : Wait} (hj : j ≠ id)
    (hst : w.opSt j = some (.wait s k)) : s / 2 ≠ id ∧ (k = .pubrec → (s + 1) / 2 ≠ id) := by
  have hm := mem_of_opSt hst
  have hsh := (h.ops.shape j s k hm).1
  constructor
  · rcases hsh with ⟨e, _⟩ | ⟨e, _⟩ <;> omega
  · intro hk
    rcases hsh with ⟨e, _⟩ | ⟨_, e⟩
    · omega
    · rw [hk] at e; cases e

/-- **one poll of any task other than `op id` commutes with hiding** -/
theorem pollTask_hide (id) (w : World) (t : Task) (ht : t ≠ .op id) (h : Side id w) :
    (hide id w).pollTask t = hide id (w.pollTask t) := by
  cases t with
  | ctx =>
    simp only [pollTask, unwake_hide]
    exact pollCtx_hide id _ (by simpa using h.handles)
  | op n =>
    have hn : n ≠ id := fun e => ht (by rw [e])
    simp only [pollTask, unwake_hide]
    exact pollOp_hide id _ n hn (by simpa using h.handles) (fun s k hst => h.own hn hst)
  | st n =>
    simp only [pollTask, unwake_hide, pollStream_hide]

theorem Frozen.not_picked {id : Nat} {w : World} (hf : Frozen id w) (t : Task) (hp : w.pick = some t) :
    t ≠ .op id := by
  obtain ⟨_, h2, h3⟩ := pick_some_spec w t hp
  intro e
  subst e
  rcases hf with hf | hf
  · exact h3 hf
  · simp [taskLive, hf] at h2

/-- **draining commutes with hiding** (same fuel on both sides) -/
theorem drain_hide (id) (f : Nat) (w : World) (h : Side id w) : drain f (hide id w) = hide id (drain f w) := by
  induction f generalizing w with
  | zero => rfl
  | succ f ih =>
    rw [drain, drain, pick_hide id w h.frozen]
    cases hp : w.pick with
    | none => rfl
    | some t =>
      have ht := h.frozen.not_picked t hp
      simp only
      rw [pollTask_hide id w t ht h]
      exact ih _ (h.pollTask t ht)

theorem Side.drain {id : Nat} (f : Nat) {w : World} (h : Side id w) : Side id (drain f w) := by
  induction f generalizing w with
  | zero => exact h
  | succ f ih =>
    rw [World.drain]
    cases hp : w.pick with
    | none => exact h
    | some t => exact ih (h.pollTask t (h.frozen.not_picked t hp))

/-- draining further from a quiescent world changes nothing -/
theorem drain_add_of_quiet (f g : Nat) (w : World) (h : (drain f w).pick = none) : drain (f + g) w = drain f w := by
  induction f generalizing w with
  | zero =>
    simp only [drain] at h
    rw [Nat.zero_add, drain_of_idle g w h]; rfl
  | succ f ih =>
    rw [Nat.succ_add, drain, drain]
    cases hp : w.pick with
    | none => rfl
    | some t =>
      simp only
      rw [drain, hp] at h
      exact ih _ h

/-- two drains that both reach quiescence end in the same world, whatever their fuels -/
theorem drain_unique (f g : Nat) (w : World) (hf : (drain f w).pick = none) (hg : (drain g w).pick = none) :
    drain f w = drain g w := by
  rcases Nat.le_total f g with hle | hle
  · obtain ⟨k, rfl⟩ := Nat.exists_eq_add_of_le hle
    exact (drain_add_of_quiet f k w hf).symm
  · obtain ⟨k, rfl⟩ := Nat.exists_eq_add_of_le hle
    exact drain_add_of_quiet g k w hg

end W11
end World
end Poster
