/-
  Lemmas/WorldSelectInv.lean — what one poll of the context task preserves UNDER ANY SCHEDULER: the per-poll
  relations from which the whole-client invariants are derived,
    `Hand`   (Lemmas/WorldOwnCtx: no sender is lost silently          → `OwnInv`),
    `Moves`  (Lemmas/WorldOps: the poll is a sequence of context moves → `OpsInv`, `KInv`, `Good`),
    `RegSub` (Lemmas/WorldFuelReg: registrations only shrink          → `RegInv`),
  the framing state stays reachable, the only observations added are `W` lines, one `RET run …` or the decoder panic
  (excluded from reachable framing states), and a poll that leaves `run()` pending has armed a transport wake-up.
  They are re-proved for the steps `SCont` / `SEnd` of Lemmas/WorldSelect.lean — the handlers `hand_msg`, `hand_pkt`,
  `handleMsg_move`, `handlePkt_move`, … never needed "the queue is empty" to handle a packet.
-/
import PosterModel.Lemmas.WorldSelectHist
import PosterModel.Lemmas.WorldFuelReg
import PosterModel.Lemmas.WorldFuelStall
import PosterModel.Lemmas.WorldOps

set_option linter.unusedVariables false
set_option linter.unusedSimpArgs false

namespace Poster
open Framing
namespace World

/-! ## `Hand` -/

theorem hand_armReader (w : World) : Hand w (armReader w) :=
  hand_of_eq (by simp) (by simp) (by simp) (by simp) (by simp) (by simp) (armReader_woken_sub w) (by simp) (by simp)
    (by simp) (by simp) (by simp) (by simp) (by simp)

theorem hand_sCont {w w1 : World} (h : SCont w w1) : Hand w w1 := by
  cases h with
  | msg m q w1 hq hr =>
    have e : w1 = (World.runHandler { w with queue := q } (fun wok => w.c.handleMsg m wok)).1 := by rw [hr]
    subst e; exact hand_msg w m q hq
  | pkt rx' rd' fr p w1 hp hd hr =>
    have e : w1 = (World.runHandler { w with rx := rx', reader := rd' }
        (fun wok => w.c.handlePkt w.chanRxAlive p wok)).1 := by rw [hr]
    subst e; exact hand_pkt w rx' rd' p _
  | arm rx' rd' hp =>
    refine hand_trans ?_ (hand_armReader _)
    hand_eq

theorem hand_sEnd {w r : World} (h : SEnd w r) : Hand w r := by
  cases h with
  | msgExit m q w1 fl hq hh hne =>
    have e : w1 = (World.runHandler { w with queue := q } (fun wok => w.c.handleMsg m wok)).1 := by rw [hh]
    subst e; exact hand_trans (hand_msg w m q hq) (hand_finish _ _ _)
  | closed => exact hand_finish _ _ _
  | pktExit rx' rd' fr p w1 fl hp hd hh hne =>
    have e : w1 = (World.runHandler { w with rx := rx', reader := rd' }
        (fun wok => w.c.handlePkt w.chanRxAlive p wok)).1 := by rw [hh]
    subst e; exact hand_trans (hand_pkt w rx' rd' p _) (hand_finish _ _ _)
  | codec rx' rd' fr hp => hand_eq
  | panic rx' rd' fr hp => hand_eq
  | sock rx' rd' hp => hand_eq
  | park rx' rd' hq hs hp =>
    refine hand_trans ?_ (hand_armReader _)
    hand_eq

theorem hand_sServe {w wm : World} (h : SServe w wm) : Hand w wm := by
  induction h with
  | refl w => exact hand_refl w
  | step hc _ ih => exact hand_trans (hand_sCont hc) ih

theorem hand_runLoopS (sched : Nat → Bool) (f : Nat) (w : World) : Hand w (runLoopS sched f w) := by
  obtain ⟨wm, hs, he⟩ := runLoopS_decomp sched f w
  rcases he with he | he
  · rw [he]; exact hand_sServe hs
  · exact hand_trans (hand_sServe hs) (hand_sEnd he)

theorem hand_pollRunS (sched : Nat → Bool) (w : World) (started : Bool) : Hand w (w.pollRunS sched started) := by
  unfold pollRunS
  split
  · exact hand_runLoopS _ _ w
  · split
    · exact hand_trans (hand_trans (hand_resume w) (hand_foldl_writeBytes _ _)) (hand_runLoopS _ _ _)
    · exact hand_trans (hand_trans (hand_resume w) (hand_writeBytes _ _)) (hand_finish _ _ _)

/-- **one poll of the context task, any scheduler**: nothing the context owns is lost silently -/
theorem hand_pollCtxS (sched : Nat → Bool) (w : World) : Hand w (w.pollCtxS sched) := by
  unfold pollCtxS
  split
  · exact hand_refl w
  · exact hand_pollConnect _ _ _ _ _
  · exact hand_pollRunS _ _ _

theorem own_pollCtxS (sched : Nat → Bool) (w : World) (h : OwnInv w) : OwnInv (w.pollCtxS sched) := by
  cases hc : w.hasCtx with
  | false =>
    have : w.pollCtxS sched = w := by simp [pollCtxS, h.noTask hc]
    rw [this]; exact h
  | true =>
    refine own_of_hand h (hand_pollCtxS sched w) (fun hc' => ?_)
    rw [(hand_pollCtxS sched w).act.hasCtx_eq, hc] at hc'; cases hc'

/-! ## `Moves` -/

theorem armReader_move (w : World) : Move none w (armReader w) :=
  .quiet (by simp) (fun _ => by simp [slot]) (by simp) (by simp) (by simp) (outExtP_of_eq (by simp))

theorem sCont_move {w w1 : World} (h : SCont w w1) : Moves CtxTag w w1 := by
  cases h with
  | msg m q w1 hq hr =>
    have e : w1 = (World.runHandler { w with queue := q } (fun wok => w.c.handleMsg m wok)).1 := by rw [hr]
    subst e; exact .one (handleMsg_move w m q hq)
  | pkt rx' rd' fr p w1 hp hd hr =>
    have e : w1 = (World.runHandler { w with rx := rx', reader := rd' }
        (fun wok => w.c.handlePkt w.chanRxAlive p wok)).1 := by rw [hr]
    subst e; exact .one (handlePkt_move w rx' rd' p (decodeRx_wf_aux fr p hd))
  | arm rx' rd' hp =>
    have h1 : Move none w ({ w with rx := rx', reader := rd' } : World) :=
      .quiet rfl (fun _ => rfl) rfl rfl rfl (outExtP_of_eq rfl)
    exact .step h1 (.one (armReader_move _))

theorem sServe_moves {w wm : World} (h : SServe w wm) : Moves CtxTag w wm := by
  induction h with
  | refl w => exact .refl w
  | step hc _ ih => exact (sCont_move hc).trans ih

theorem sEnd_moves {w r : World} (h : SEnd w r) : Moves CtxTag w r := by
  cases h with
  | msgExit m q w1 fl hq hr hne =>
    have e : w1 = (World.runHandler { w with queue := q } (fun wok => w.c.handleMsg m wok)).1 := by rw [hr]
    subst e
    exact .step (handleMsg_move w m q hq) (.one (move_finish _ _ _))
  | closed hq hs => exact .one (move_finish _ _ _)
  | pktExit rx' rd' fr p w1 fl hp hd hr hne =>
    have e : w1 = (World.runHandler { w with rx := rx', reader := rd' }
        (fun wok => w.c.handlePkt w.chanRxAlive p wok)).1 := by rw [hr]
    subst e
    exact .step (handlePkt_move w rx' rd' p (decodeRx_wf_aux fr p hd)) (.one (move_finish _ _ _))
  | codec rx' rd' fr hp hd =>
    exact .one (.quiet rfl (fun _ => rfl) rfl rfl rfl (outExtP_one _ rfl (neutral_ret _ _)))
  | panic rx' rd' fr hp hd =>
    exact .one (.quiet rfl (fun _ => rfl) rfl rfl rfl (outExtP_one _ rfl (neutral_panic_ctx _)))
  | sock rx' rd' hp =>
    exact .one (.quiet rfl (fun _ => rfl) rfl rfl rfl (outExtP_one _ rfl (neutral_ret _ _)))
  | park rx' rd' hq hs hp =>
    have h1 : Move none w ({ w with rx := rx', reader := rd', queueReg := true } : World) :=
      .quiet rfl (fun _ => rfl) rfl rfl rfl (outExtP_of_eq rfl)
    exact .step h1 (.one (armReader_move _))

theorem runLoopS_moves (sched : Nat → Bool) (f : Nat) (w : World) : Moves CtxTag w (runLoopS sched f w) := by
  obtain ⟨wm, hs, he⟩ := runLoopS_decomp sched f w
  rcases he with he | he
  · rw [he]; exact sServe_moves hs
  · exact (sServe_moves hs).trans (sEnd_moves he)

theorem pollRunS_moves (sched : Nat → Bool) (w : World) (started : Bool) :
    Moves CtxTag w (w.pollRunS sched started) := by
  cases started with
  | true => simp only [pollRunS, ↓reduceIte]; exact runLoopS_moves _ _ w
  | false =>
    simp only [pollRunS, Bool.false_eq_true, ↓reduceIte]
    obtain ⟨hsub, hsend⟩ := resume_facts w.c
    have h1 : Move none w w.resumed := by
      refine .drop (by simp [resumed]) (by simpa [resumed] using hsub) (by simp [resumed]) (by simp [resumed])
        (outExtP_neutral_of_outExt (outExt_trans (outExt_of_eq rfl) (applyEffs_outExt _ _))) ?_
      have := applyEffs_slotRel ({ w with c := (w.c.resume).1, task := .running true } : World) (w.c.resume).2.1
      refine slotRel_mono this ?_
      intro s v hm
      rw [hsend] at hm; cases hm
    refine .step h1 ?_
    split
    · obtain ⟨_, _, a3, _, a5, _, a7, _, _, _, a11, _, _, _, a15⟩ := foldl_writeBytes_frame (w.c.resume).2.2 w.resumed
      refine .step (.quiet a5 (fun s => by simp only [slot, a11]) a3 (by rw [a7]) ?_
        (outExtP_neutral_of_outExt a15)) (runLoopS_moves _ _ _)
      exact foldl_writeBytes_pidCtr _ _
    · exact .step (writeBytes_move _ _) (.one (move_finish _ _ _))

/-- **one poll of the context task, any scheduler**, is a sequence of context moves -/
theorem pollCtxS_moves (sched : Nat → Bool) (w : World) : Moves CtxTag w (w.pollCtxS sched) := by
  unfold pollCtxS
  split
  · exact .refl w
  · exact pollConnect_moves w _ _ _ _
  · exact pollRunS_moves sched w _

/-! ## `RegSub` -/

theorem w14_regSub_armReader (w : World) : RegSub w (armReader w) := w5_regSub_of_eq (by simp) (by simp)

theorem w14_regSub_sCont {w w1 : World} (h : SCont w w1) : RegSub w w1 := by
  cases h with
  | msg m q w1 hq hr =>
    have e : w1 = (World.runHandler { w with queue := q } (fun wok => w.c.handleMsg m wok)).1 := by rw [hr]
    subst e; exact w5_regSub_runHandler' (by exact w5_regSub_of_eq rfl rfl) _
  | pkt rx' rd' fr p w1 hp hd hr =>
    have e : w1 = (World.runHandler { w with rx := rx', reader := rd' }
        (fun wok => w.c.handlePkt w.chanRxAlive p wok)).1 := by rw [hr]
    subst e; exact w5_regSub_runHandler' (by exact w5_regSub_of_eq rfl rfl) _
  | arm rx' rd' hp => exact w5_regSub_trans (by exact w5_regSub_of_eq rfl rfl) (w14_regSub_armReader _)

theorem w14_regSub_sEnd {w r : World} (h : SEnd w r) : RegSub w r := by
  cases h with
  | msgExit m q w1 fl hq hh hne =>
    have e : w1 = (World.runHandler { w with queue := q } (fun wok => w.c.handleMsg m wok)).1 := by rw [hh]
    subst e
    exact w5_regSub_finish' (w5_regSub_runHandler' (by exact w5_regSub_of_eq rfl rfl) _) _ _
  | closed => exact w5_regSub_finish _ _ _
  | pktExit rx' rd' fr p w1 fl hp hd hh hne =>
    have e : w1 = (World.runHandler { w with rx := rx', reader := rd' }
        (fun wok => w.c.handlePkt w.chanRxAlive p wok)).1 := by rw [hh]
    subst e
    exact w5_regSub_finish' (w5_regSub_runHandler' (by exact w5_regSub_of_eq rfl rfl) _) _ _
  | codec rx' rd' fr hp => w5_regsub_eq
  | panic rx' rd' fr hp => w5_regsub_eq
  | sock rx' rd' hp => w5_regsub_eq
  | park rx' rd' hq hs hp => exact w5_regSub_trans (by exact w5_regSub_of_eq rfl rfl) (w14_regSub_armReader _)

theorem w14_regSub_sServe {w wm : World} (h : SServe w wm) : RegSub w wm := by
  induction h with
  | refl w => exact w5_regSub_refl w
  | step hc _ ih => exact w5_regSub_trans (w14_regSub_sCont hc) ih

theorem w14_regSub_runLoopS (sched : Nat → Bool) (f : Nat) (w : World) : RegSub w (runLoopS sched f w) := by
  obtain ⟨wm, hs, he⟩ := runLoopS_decomp sched f w
  rcases he with he | he
  · rw [he]; exact w14_regSub_sServe hs
  · exact w5_regSub_trans (w14_regSub_sServe hs) (w14_regSub_sEnd he)

theorem w14_regSub_pollRunS (sched : Nat → Bool) (w : World) (started : Bool) :
    RegSub w (w.pollRunS sched started) := by
  unfold pollRunS
  split
  · exact w14_regSub_runLoopS _ _ w
  · split
    · exact w5_regSub_trans (w5_regSub_trans (w5_regSub_resume w) (w5_regSub_foldl_writeBytes _ _))
        (w14_regSub_runLoopS _ _ _)
    · exact w5_regSub_trans (w5_regSub_trans (w5_regSub_resume w) (w5_regSub_writeBytes _ _))
        (w5_regSub_finish _ _ _)

/-- **one poll of the context task, any scheduler**, removes registrations at most and leaves the operations alone -/
theorem w14_regSub_pollCtxS (sched : Nat → Bool) (w : World) : RegSub w (w.pollCtxS sched) := by
  unfold pollCtxS
  split
  · exact w5_regSub_refl w
  · exact w5_regSub_pollConnect _ _ _ _ _
  · exact w14_regSub_pollRunS _ _ _

/-! ## the framing state, the observations, and what a pending `run()` has armed -/

theorem sEnd_reach {w r : World} (h : SEnd w r) (hr : Reach w.rx) : Reach r.rx := by
  have key : ∀ {rx' rd' o}, pollNext w.rx w.reader = (rx', rd', o) → Reach rx' := by
    intro rx' rd' o hp
    have := Reach.poll w.reader hr; rw [hp] at this; exact this
  cases h with
  | msgExit m q w1 fl hq hh hne =>
    have e : w1 = (World.runHandler { w with queue := q } (fun wok => w.c.handleMsg m wok)).1 := by rw [hh]
    subst e; simpa using hr
  | closed => exact hr
  | pktExit rx' rd' fr p w1 fl hp hd hh hne =>
    have e : w1 = (World.runHandler { w with rx := rx', reader := rd' }
        (fun wok => w.c.handlePkt w.chanRxAlive p wok)).1 := by rw [hh]
    subst e; simpa using key hp
  | codec rx' rd' fr hp => exact key hp
  | panic rx' rd' fr hp => exact key hp
  | sock rx' rd' hp => exact key hp
  | park rx' rd' hq hs hp => simpa using key hp

theorem runLoopS_reach (sched : Nat → Bool) (f : Nat) (w : World) (hr : Reach w.rx) :
    Reach (runLoopS sched f w).rx := by
  obtain ⟨wm, hs, he⟩ := runLoopS_decomp sched f w
  have hm := (sServe_frame hs).2.2.2.2.2.2.2.2.2.2.2 hr
  rcases he with he | he
  · rw [he]; exact hm
  · exact sEnd_reach he hm

theorem pollRunS_reach (sched : Nat → Bool) (w : World) (started : Bool) (hr : Reach w.rx) :
    Reach (w.pollRunS sched started).rx := by
  unfold pollRunS
  split
  · exact runLoopS_reach _ _ w hr
  · have h1 : w.resumed.rx = w.rx := by simp [resumed]
    split
    · refine runLoopS_reach _ _ _ ?_
      rw [resent, (foldl_writeBytes_frame _ _).1, h1]; exact hr
    · simpa [h1] using hr

theorem pollCtxS_reach (sched : Nat → Bool) (w : World) (hr : Reach w.rx) : Reach (w.pollCtxS sched).rx := by
  have h0 := pollCtx_reach w hr
  unfold pollCtxS
  unfold pollCtx at h0
  cases ht : w.task with
  | none => exact hr
  | connecting call t a started => rw [ht] at h0; exact h0
  | running started => exact pollRunS_reach sched w started hr

/-- how a final step ends, in observations -/
theorem sEnd_out {w r : World} (h : SEnd w r) :
    (r.task = .none ∧ ∃ pre last, Quiet pre ∧ r.out = w.out ++ pre ++ [last] ∧
        ((∃ res, last = .ret .run res) ∨
         (last = .panic .ctx "other" ∧ ∃ rx' rd' fr, pollNext w.rx w.reader = (rx', rd', .item fr) ∧
            decodeRx fr = .panic))) ∨
    (r.task = w.task ∧ r.out = w.out ∧ r.queueReg = true ∧ r.queue = [] ∧
      ((r.reader = [] ∧ r.readerReg = true) ∨ .ctx ∈ r.woken)) := by
  cases h with
  | msgExit m q w1 fl hq hr hne =>
    have e : w1 = (World.runHandler { w with queue := q } (fun wok => w.c.handleMsg m wok)).1 := by rw [hr]
    obtain ⟨pre, hq1, hq2⟩ := runHandler_outExt { w with queue := q } (fun wok => w.c.handleMsg m wok)
    rw [← e] at hq2
    exact Or.inl ⟨rfl, pre, .ret .run (flowRet fl), hq1, by simp [finish, emit, hq2], Or.inl ⟨_, rfl⟩⟩
  | closed hq hs =>
    exact Or.inl ⟨rfl, [], .ret .run (.err .handleClosed), quiet_nil, by simp [finish, emit], Or.inl ⟨_, rfl⟩⟩
  | pktExit rx' rd' fr p w1 fl hp hd hr hne =>
    have e : w1 = (World.runHandler { w with rx := rx', reader := rd' }
        (fun wok => w.c.handlePkt w.chanRxAlive p wok)).1 := by rw [hr]
    obtain ⟨pre, hq1, hq2⟩ := runHandler_outExt { w with rx := rx', reader := rd' }
        (fun wok => w.c.handlePkt w.chanRxAlive p wok)
    rw [← e] at hq2
    exact Or.inl ⟨rfl, pre, .ret .run (flowRet fl), hq1, by simp [finish, emit, hq2], Or.inl ⟨_, rfl⟩⟩
  | codec rx' rd' fr hp hd =>
    exact Or.inl ⟨rfl, [], .ret .run (.err .codecError), quiet_nil, by simp [finish, emit], Or.inl ⟨_, rfl⟩⟩
  | panic rx' rd' fr hp hd =>
    exact Or.inl ⟨rfl, [], .panic .ctx "other", quiet_nil, by simp [emit], Or.inr ⟨rfl, rx', rd', fr, hp, hd⟩⟩
  | sock rx' rd' hp =>
    exact Or.inl ⟨rfl, [], .ret .run (.err .socketClosed), quiet_nil, by simp [finish, emit], Or.inl ⟨_, rfl⟩⟩
  | park rx' rd' hq hs hp =>
    exact Or.inr ⟨by simp, by simp, by simp, by simpa using hq, armReader_armed _⟩

theorem runLoopS_ctxObs (sched : Nat → Bool) (w w0 : World) (f : Nat) (hrx : w0.rx = w.rx) :
    OutExtP (CtxObs w) w0 (runLoopS sched f w0) := by
  obtain ⟨wm, hs, he⟩ := runLoopS_decomp sched f w0
  obtain ⟨_, _, _, _, _, _, _, _, _, hext, _, hreach⟩ := sServe_frame hs
  have h1 : OutExtP (CtxObs w) w0 wm :=
    outExtP_of_outExt hext (fun bs => ⟨Or.inl (calm_wire bs).1, Or.inl (calm_wire bs).2⟩)
  rcases he with he | he
  · rw [he]; exact h1
  · refine outExtP_trans h1 ?_
    rcases sEnd_out he with ⟨_, pre, last, hq, ho, hl⟩ | ⟨_, ho, _⟩
    · refine ⟨pre ++ [last], by rw [ho, List.append_assoc], ?_⟩
      intro o hmem
      rcases List.mem_append.mp hmem with hmem | hmem
      · obtain ⟨bs, rfl | rfl⟩ := hq o hmem
        · exact Or.inl (calm_wire bs).1
        · exact Or.inl (calm_wire bs).2
      · simp only [List.mem_singleton] at hmem
        subst hmem
        rcases hl with ⟨res, rfl⟩ | ⟨rfl, rx', rd', fr, hp, hd⟩
        · exact Or.inl (by intro t c h; cases h)
        · exact Or.inr (Or.inr ⟨rfl, wm.rx, wm.reader, rx', rd', fr, fun h => hreach (hrx ▸ h), hp, hd⟩)
    · exact outExtP_of_eq ho

/-- **one poll of the context future, any scheduler**: the observations it adds -/
theorem pollCtxS_panics (sched : Nat → Bool) (w : World) : OutExtP (CtxObs w) w (w.pollCtxS sched) := by
  have hcalm : ∀ {a b : World}, OutExt a b → OutExtP (CtxObs w) a b := fun h =>
    outExtP_of_outExt h (fun bs => ⟨Or.inl (calm_wire bs).1, Or.inl (calm_wire bs).2⟩)
  have hret : ∀ (w0 : World) (call : Call) (r : RetRes), OutExtP (CtxObs w) w0 (w0.finish call r) :=
    fun w0 call r => outExtP_one (.ret call r) rfl (Or.inl (by intro t c h; cases h))
  have h0 := pollCtx_panics w
  unfold pollCtxS
  unfold pollCtx at h0
  cases ht : w.task with
  | none => exact outExtP_refl _ _
  | connecting call t a started => rw [ht] at h0; exact h0
  | running started =>
    simp only
    cases started with
    | true =>
      simp only [pollRunS, ↓reduceIte]
      exact runLoopS_ctxObs sched w w _ rfl
    | false =>
      simp only [pollRunS, Bool.false_eq_true, ↓reduceIte]
      have hx1 : OutExt w w.resumed := outExt_trans (outExt_of_eq rfl) (applyEffs_outExt _ _)
      split
      · have hx2 : OutExt w w.resent := outExt_trans hx1 (foldl_writeBytes_frame _ _).2.2.2.2.2.2.2.2.2.2.2.2.2.2
        refine outExtP_trans (hcalm hx2) (runLoopS_ctxObs sched w w.resent _ ?_)
        rw [resent, (foldl_writeBytes_frame _ _).1]; simp [resumed]
      · exact outExtP_trans (hcalm (outExt_trans hx1 (writeBytes_outExt _ _))) (hret _ _ _)

/-- if a poll of the loop leaves `run()` pending — under any scheduler —, both wake-up sources are armed and nothing is
    queued -/
theorem runLoopS_alive_facts (sched : Nat → Bool) (w : World) (hok : w.rx.Ok)
    (h : (runLoopS sched w.loopFuel w).task ≠ .none) :
    (runLoopS sched w.loopFuel w).task = w.task ∧ OutExt w (runLoopS sched w.loopFuel w) ∧
    (runLoopS sched w.loopFuel w).queueReg = true ∧ (runLoopS sched w.loopFuel w).queue = [] ∧
    (((runLoopS sched w.loopFuel w).reader = [] ∧ (runLoopS sched w.loopFuel w).readerReg = true) ∨
      .ctx ∈ (runLoopS sched w.loopFuel w).woken) := by
  obtain ⟨wm, hs, he⟩ := runLoopS_full sched w hok
  obtain ⟨a1, _, _, _, _, _, _, _, _, a10, _, _⟩ := sServe_frame hs
  rcases sEnd_out he with ⟨h1, _⟩ | ⟨b1, b2, b3, b4, b5⟩
  · exact absurd h1 h
  · exact ⟨b1.trans a1, outExt_trans a10 (outExt_of_eq b2), b3, b4, b5⟩

/-- **a poll that leaves the context future alive — under any scheduler — has read everything and registered the
    transport waker, or the future has flagged itself** -/
theorem pollCtxS_parked (sched : Nat → Bool) (w : World) (hok : w.rx.Ok) (h : (w.pollCtxS sched).task ≠ .none) :
    ((w.pollCtxS sched).reader = [] ∧ (w.pollCtxS sched).readerReg = true) ∨ Task.ctx ∈ (w.pollCtxS sched).woken := by
  have h0 := W5.w5s_pollCtx_parked w hok
  unfold pollCtxS at h ⊢
  unfold pollCtx at h0
  cases ht : w.task with
  | none => simp [ht] at h
  | connecting call t a started => rw [ht] at h0 h; exact h0 h
  | running started =>
    simp only [ht] at h ⊢
    cases started with
    | true =>
      simp only [pollRunS, ↓reduceIte] at h ⊢
      exact (runLoopS_alive_facts sched w hok h).2.2.2.2
    | false =>
      simp only [pollRunS, Bool.false_eq_true, ↓reduceIte] at h ⊢
      split at h
      · rename_i hc
        rw [if_pos hc]
        refine (runLoopS_alive_facts sched w.resent ?_ h).2.2.2.2
        rw [resent, (foldl_writeBytes_frame _ _).1]; simpa [resumed] using hok
      · exact absurd rfl h

end World
end Poster
