/-
  Lemmas/TxSubscribe.lean — SUBSCRIBE and UNSUBSCRIBE: lengths, layout, and the body parses to the caller's values.
-/
import PosterModel.Lemmas.CodecTx

namespace Poster
open Spec

/-! ## UNSUBSCRIBE -/

theorem userPs_typeOk (u : List (Bytes × Bytes)) : ∀ p ∈ userPs u, TypeOk p := by
  rw [forall_mem_userPs]; simp [TypeOk]

theorem userPs_wf (u : List (Bytes × Bytes)) (h : UserOk u) : ∀ p ∈ userPs u, PropWF p := by
  rw [forall_mem_userPs]; intro kv hkv; have := h kv hkv; simp [PropWF]; omega

theorem unsubscribe_propertyLen_eq (t : UnsubscribeTx) : t.propertyLen = (encProps (userPs t.userProps)).length := by
  rw [← propsLen_eq_length _ (userPs_typeOk _)]
  simp only [UnsubscribeTx.propertyLen, userLen_eq]

def unsubscribeBody (t : UnsubscribeTx) : Bytes :=
  encU16 t.packetId ++ (encVar (encProps (userPs t.userProps)).length ++ (encProps (userPs t.userProps)
    ++ (t.filters.map encStr).flatten))

theorem unsubscribe_encode_eq (t : UnsubscribeTx) :
    t.encode = UInt8.ofNat 162 :: (encVar t.remainingLen ++ unsubscribeBody t) := by
  simp only [UnsubscribeTx.encode, unsubscribeBody, unsubscribe_propertyLen_eq, userEnc_eq, encU8,
    List.append_assoc, List.cons_append, List.nil_append]

theorem strLen_sum (fs : List Bytes) : (fs.map strLen).sum = ((fs.map encStr).flatten).length := by
  induction fs with
  | nil => rfl
  | cons f fs ih => simp [ih, strLen, encStr, encU16]; omega

theorem unsubscribe_remainingLen_eq (t : UnsubscribeTx) : t.remainingLen = (unsubscribeBody t).length := by
  simp only [UnsubscribeTx.remainingLen, unsubscribeBody, List.length_append, unsubscribe_propertyLen_eq, varLen_eq,
    strLen_sum]
  simp [encU16]; omega

theorem unsubscribeProps_legal (t : UnsubscribeTx) : propsLegal unsubscribePropIds (userPs t.userProps) = true := by
  apply propsLegal_of
  · rw [forall_mem_userPs]; simp [unsubscribePropIds]
  · simp [unsubscribePropIds]

theorem unsubscribe_body_parses (t : UnsubscribeTx) (hv : t.valid = true) (hd : UnsubscribeInDomain t) :
    parseBody 10 2 (unsubscribeBody t) = some (ofUnsubscribe t) := by
  obtain ⟨hp1, hp2⟩ := hd.packetId
  have hp0 : ¬ t.packetId = 0 := by omega
  have hl : (encProps (userPs t.userProps)).length < 268435456 := by
    have := hd.size; rw [unsubscribe_remainingLen_eq] at this
    simp only [unsubscribeBody, List.length_append] at this; omega
  have hb := pPropBlock_enc _ (userPs_wf _ hd.userProps) hl ((t.filters.map encStr).flatten)
  have hf : pMany Spec.pStr ((t.filters.map encStr).flatten) = some (t.filters.map id) :=
    pMany_enc Spec.pStr encStr id t.filters
      (fun f hf r => pStr_enc f (by have := hd.filters f hf; simp [StrOk] at this; omega) r)
      (fun f _ => by simp [encStr, encU16])
  have hne : ¬ t.filters = [] := by simpa [UnsubscribeTx.valid] using hv
  simp [parseBody, parseUnsubscribe, unsubscribeBody, pPacketId, pU16_enc _ (show t.packetId < 65536 by omega), hp0,
    hb, unsubscribeProps_legal, hf, hne, ofUnsubscribe]

/-! ## SUBSCRIBE -/

theorem subscribeProps_typeOk (t : SubscribeTx) : ∀ p ∈ subscribeProps t, TypeOk p := by
  unfold subscribeProps; props_fields; simp [TypeOk, subIdVal, varLen_eq_varSize]

theorem subscribe_propertyLen_eq (t : SubscribeTx) : t.propertyLen = (encProps (subscribeProps t)).length := by
  rw [← propsLen_eq_length _ (subscribeProps_typeOk t)]
  simp only [SubscribeTx.propertyLen, subscribeProps, propsLen_append, oLen_pSubId, userLen_eq]

/-- one topic filter with its options byte, as `encode` writes it -/
def encSubFilter (fo : Bytes × SubOpts) : Bytes := encStr fo.1 ++ encU8 fo.2.byte

theorem subFilters_len (fs : List (Bytes × SubOpts)) :
    (fs.map fun (f, _) => strLen f + 1).sum = ((fs.map encSubFilter).flatten).length := by
  induction fs with
  | nil => rfl
  | cons fo fs ih =>
    obtain ⟨f, o⟩ := fo
    simp only [List.map_cons, List.sum_cons, List.flatten_cons, List.length_append, ih]
    simp [encSubFilter, strLen, encStr, encU16, encU8]; omega

def subscribeBody (t : SubscribeTx) : Bytes :=
  encU16 t.packetId ++ (encVar (encProps (subscribeProps t)).length ++ (encProps (subscribeProps t)
    ++ (t.filters.map encSubFilter).flatten))

theorem subscribe_encode_eq (t : SubscribeTx) :
    t.encode = UInt8.ofNat 130 :: (encVar t.remainingLen ++ subscribeBody t) := by
  simp only [SubscribeTx.encode, subscribeBody, subscribe_propertyLen_eq, subscribeProps, encProps_append, oEnc_pSubId,
    userEnc_eq, encU8, List.append_assoc, List.cons_append, List.nil_append]
  rfl

theorem subscribe_remainingLen_eq (t : SubscribeTx) : t.remainingLen = (subscribeBody t).length := by
  simp only [SubscribeTx.remainingLen, subscribeBody, List.length_append, subscribe_propertyLen_eq, varLen_eq,
    subFilters_len]
  simp [encU16]; omega

theorem subscribeProps_wf (t : SubscribeTx) (hd : SubscribeInDomain t) : ∀ p ∈ subscribeProps t, PropWF p := by
  unfold subscribeProps; props_fields
  refine ⟨?_, ?_⟩
  · intro a ha; have := hd.subId a ha; simp [PropWF, nonZeroProp, subIdVal]; omega
  · intro kv hkv; have := hd.userProps kv hkv; simp [PropWF]; omega

theorem subscribeProps_legal (t : SubscribeTx) : propsLegal subscribePropIds (subscribeProps t) = true := by
  apply propsLegal_of
  · unfold subscribeProps; props_fields; simp [subscribePropIds]
  · simp [subscribePropIds, subscribeProps, countId_append, countId_userPs, countId_optP_le]

/-- the options byte carries the four fields at the bit positions of §3.8.3.1 -/
theorem subOpts_bits (q rh : Nat) (nl rap : Bool) (hq : q ≤ 2) (hrh : rh ≤ 2) :
    let o := q + b2n nl * 4 + b2n rap * 8 + rh * 16
    o < 256 ∧ o / 64 = 0 ∧ o % 4 = q ∧ (o / 4 % 2 == 1) = nl ∧ (o / 8 % 2 == 1) = rap ∧ o / 16 % 4 = rh := by
  cases nl <;> cases rap <;> simp [b2n] <;> omega

theorem pSubFilter_enc (fo : Bytes × SubOpts) (hs : StrOk fo.1) (hq : fo.2.maxQos ≤ 2) (hrh : fo.2.retainHandling ≤ 2)
    (r : Bytes) :
    pSubFilter (encSubFilter fo ++ r) =
      some ({ filter := fo.1, maxQos := fo.2.maxQos, noLocal := fo.2.noLocal,
              retainAsPublished := fo.2.retainAsPublished, retainHandling := fo.2.retainHandling }, r) := by
  obtain ⟨f, o⟩ := fo
  simp only at hs hq hrh
  obtain ⟨h256, h64, hq', hnl, hrap, hrh'⟩ := subOpts_bits o.maxQos o.retainHandling o.noLocal o.retainAsPublished hq hrh
  have hl : f.length < 65536 := by simp [StrOk] at hs; omega
  have hq3 : ¬ o.maxQos = 3 := by omega
  have hrh3 : ¬ o.retainHandling = 3 := by omega
  simp [pSubFilter, encSubFilter, List.append_assoc, pStr_enc _ hl, SubOpts.byte, pU8_enc _ h256, h64, hq', hnl, hrap,
    hrh', hq3, hrh3]

theorem subscribe_body_parses (t : SubscribeTx) (hv : t.valid = true) (hd : SubscribeInDomain t) :
    parseBody 8 2 (subscribeBody t) = some (ofSubscribe t) := by
  obtain ⟨hp1, hp2⟩ := hd.packetId
  have hp0 : ¬ t.packetId = 0 := by omega
  have hl : (encProps (subscribeProps t)).length < 268435456 := by
    have := hd.size; rw [subscribe_remainingLen_eq] at this
    simp only [subscribeBody, List.length_append] at this; omega
  have hb := pPropBlock_enc _ (subscribeProps_wf t hd) hl ((t.filters.map encSubFilter).flatten)
  have hf := pMany_enc pSubFilter encSubFilter
      (fun fo => { filter := fo.1, maxQos := fo.2.maxQos, noLocal := fo.2.noLocal,
                   retainAsPublished := fo.2.retainAsPublished, retainHandling := fo.2.retainHandling })
      t.filters
      (fun fo hfo r => pSubFilter_enc fo (hd.filters fo hfo).1 (hd.filters fo hfo).2.1 (hd.filters fo hfo).2.2 r)
      (fun fo _ => by simp [encSubFilter, encU8])
  have hne : ¬ t.filters = [] := by simpa [SubscribeTx.valid] using hv
  simp [parseBody, parseSubscribe, subscribeBody, pPacketId, pU16_enc _ (show t.packetId < 65536 by omega), hp0,
    hb, subscribeProps_legal, hf, hne, ofSubscribe]

end Poster
