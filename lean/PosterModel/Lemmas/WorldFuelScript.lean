/-
  Lemmas/WorldFuelScript.lean — C04, script level: after every step of every script the executor is quiescent
  (both drains of the step reach `pick = none` within `drainFuel`), so the fuel side conditions of the C16
  theorems (`stepFuelOk`, `stepsFuelOk`) always hold.
-/
import PosterModel.Lemmas.WorldFuel
import PosterModel.Lemmas.WorldQuietIds

set_option linter.unusedVariables false
set_option linter.unusedSimpArgs false

namespace Poster
open Framing
namespace World
namespace W5

/-- the script has gone `bad` (it is over), or the executor is idle -/
def Quiet (w : World) : Prop := w.bad = true ∨ w.pick = none

/-- **both drains of a step reach quiescence.** From a quiescent reachable world, whatever the event: the drain that
    follows the event ends with nothing left to poll, and so does the drain that follows the sweep. -/
theorem step_drains_quiet (w : World) (e : Ev) (ho : OwnInv w) (hr : RegInv w) (hq : w.pick = none) :
    (drain ((w.emit (.ev e)).apply e).drainFuel ((w.emit (.ev e)).apply e)).pick = none ∧
    (drain (drain ((w.emit (.ev e)).apply e).drainFuel ((w.emit (.ev e)).apply e)).sweep.drainFuel
      (drain ((w.emit (.ev e)).apply e).drainFuel ((w.emit (.ev e)).apply e)).sweep).pick = none := by
  have ho0 : OwnInv (w.emit (.ev e)) := own_emit w _ ho
  have hr0 : RegInv (w.emit (.ev e)) := regInv_emit w _ hr
  have hn0 : nFresh (w.emit (.ev e)) = 0 := nFresh_zero_of_quiet _ ho0 (by rw [pick_emit]; exact hq)
  have ho1 : OwnInv ((w.emit (.ev e)).apply e) := own_apply _ e ho0
  have hr1 : RegInv ((w.emit (.ev e)).apply e) := regInv_apply _ e ho0 hr0
  have hn1 : nFresh ((w.emit (.ev e)).apply e) ≤ 1 := by
    have := nFresh_apply (w.emit (.ev e)) e ho0; omega
  generalize (w.emit (.ev e)).apply e = w1 at ho1 hr1 hn1 ⊢
  have d1 : (drain w1.drainFuel w1).pick = none := drain_fuel_quiet' w1 ho1 hr1 (by omega)
  have ho2 : OwnInv (drain w1.drainFuel w1) := own_drain _ _ ho1
  have hr2 : RegInv (drain w1.drainFuel w1) := regInv_drain _ _ ho1 hr1
  have hn2 : nFresh (drain w1.drainFuel w1) = 0 := nFresh_zero_of_quiet _ ho2 d1
  generalize drain w1.drainFuel w1 = w2 at d1 ho2 hr2 hn2 ⊢
  refine ⟨d1, ?_⟩
  have ho3 : OwnInv w2.sweep := own_sweep w2 ho2
  have hr3 : RegInv w2.sweep := regInv_sweep w2 ho2 hr2
  have hn3 : nFresh w2.sweep ≤ 0 := by have := nFresh_sweep w2; omega
  exact drain_fuel_quiet' _ ho3 hr3 (by omega)

/-- the fuel side condition of `stepOk` (Lemmas/WorldQuiet.lean) is a theorem -/
theorem stepFuelOk_of_quiet (w : World) (e : Ev) (ho : OwnInv w) (hr : RegInv w) (hq : Quiet w) :
    stepFuelOk w e = true := by
  unfold stepFuelOk
  rcases hq with hb | hp
  · simp [hb]
  · have := (step_drains_quiet w e ho hr hp).1
    simp [this]

/-- a step from a quiescent world ends quiescent -/
theorem step_quiet' (w : World) (e : Ev) (ho : OwnInv w) (hr : RegInv w) (hq : Quiet w) : Quiet (w.step e) := by
  unfold World.step
  split
  · rename_i hb; exact Or.inl hb
  · rename_i hb0
    have hp : w.pick = none := by
      rcases hq with h | h
      · exact absurd h hb0
      · exact h
    obtain ⟨d1, d2⟩ := step_drains_quiet w e ho hr hp
    generalize (w.emit (.ev e)).apply e = w1 at d1 d2 ⊢
    simp only
    split
    · rename_i hb1; exact Or.inl hb1
    · generalize drain w1.drainFuel w1 = w2 at d1 d2 ⊢
      have q3 : (if w2.cfg.sweep = true then drain w2.sweep.drainFuel w2.sweep else w2).pick = none := by
        split
        · exact d2
        · exact d1
      generalize (if w2.cfg.sweep = true then drain w2.sweep.drainFuel w2.sweep else w2) = w3 at q3 ⊢
      split
      · right; rw [pick_emit]; exact q3
      · exact Or.inr q3

theorem steps_quiet' (evs : List Ev) (w : World) (ho : OwnInv w) (hr : RegInv w) (hq : Quiet w) :
    Quiet (evs.foldl step w) := by
  induction evs generalizing w with
  | nil => exact hq
  | cons e t ih => exact ih _ (own_step w e ho) (regInv_step w e ho hr) (step_quiet' w e ho hr hq)

theorem quiet_init (cfg : Cfg) : Quiet { cfg := cfg } := Or.inr (by simp [pick, minNat])

/-- **after every step of every script the executor is quiescent** (or the script was refused as malformed) -/
theorem quiet_script' (cfg : Cfg) (evs : List Ev) : Quiet (evs.foldl step { cfg := cfg }) :=
  steps_quiet' evs _ (ownInv_init cfg) (regInv_init cfg) (quiet_init cfg)

theorem stepsFuelOk_of_quiet : ∀ (evs : List Ev) (w : World), OwnInv w → RegInv w → Quiet w →
    stepsFuelOk w evs = true
  | [], _, _, _, _ => rfl
  | e :: es, w, ho, hr, hq => by
    simp only [stepsFuelOk, Bool.and_eq_true]
    exact ⟨stepFuelOk_of_quiet w e ho hr hq,
      stepsFuelOk_of_quiet es _ (own_step w e ho) (regInv_step w e ho hr) (step_quiet' w e ho hr hq)⟩

/-- **the drain fuel suffices at every step of every script** -/
theorem stepsFuelOk_script (cfg : Cfg) (evs : List Ev) : stepsFuelOk { cfg := cfg } evs = true :=
  stepsFuelOk_of_quiet evs _ (ownInv_init cfg) (regInv_init cfg) (quiet_init cfg)

/-- a refused script stays where it is -/
theorem foldl_step_of_bad (evs : List Ev) (w : World) (h : w.bad = true) : evs.foldl World.step w = w := by
  induction evs with
  | nil => rfl
  | cons e t ih => simp only [List.foldl_cons, World.step_of_bad w e h, ih]

end W5
end World
end Poster
