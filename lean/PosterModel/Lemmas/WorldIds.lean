/-
  Lemmas/WorldIds.lean — work package W10 (C11 and C12 for whole scripts), part 1: the Maximum Packet Size check in the
  whole-client machine. Everything of the package lives in the namespace `Poster.World.W10`.

  The package's lemma files:
    * `Lemmas/WorldIds.lean`      (this file) `TooBig`, `refusalEffs`, `handleMsg_tooBig` / `handleMsg_fits`: `handle_message`,
                                  exactly, in the two cases; `headStep w m q`: the world after the loop of `run()` handled the
                                  first queued message; `headStep_tooBig` / `headStep_fits`; `pollOp_errSize`
    * `Lemmas/WorldIdsMax.lean`   `announcedMax`, `MaxInv`, `during_maxInv`: the limit in force is the one of the last logged
                                  CONNACK that carried one; `pollCtx_errSize`
    * `Lemmas/WorldIdsErr.lean`   `FullVia`, `during_errSize_origin`: a oneshot holds `MaximumPacketSizeExceeded` only because
                                  a request was refused for its size
    * `Lemmas/WorldIdsEx.lean`    a script with a CONNACK announcing Maximum Packet Size 4, evaluated stage by stage
    * `Lemmas/WorldIdsOut.lean`   `Outstanding`, `Shrinks`, `IdStep`, `micro_idStep`: identifiers become outstanding only by
                                  allocation
    * `Lemmas/WorldIdsPath.lean`  `Exec`, `allocAge`, `WindowOk`, `exec_unique`, `exec_alloc_bound`, `exec_allocated_nodup`,
                                  `subscribe_queue_origin`, `exec_subAllocated_nodup`
    * `Lemmas/WorldIdsSub.lean`   `SubOk`, subscription identifiers along traces of stream moves
    * `Lemmas/WorldIdsForm.lean`  `SlotWf`, `AidForm`, `KeyForm`: the form of the action identifiers the client holds
-/
import PosterModel.Lemmas.WorldRet
import PosterModel.Lemmas.WorldWireSent
import PosterModel.Properties.C12
import PosterModel.Properties.CtxLift

set_option linter.unusedVariables false
set_option linter.unusedSimpArgs false

namespace Poster
open Framing
namespace World
namespace W10
open W7

/-! ## `handle_message` and the size limit -/

/-- a Maximum Packet Size `M` is in force and the packet is longer than `M` -/
def TooBig (c : Ctx) (pkt : Bytes) : Prop := ∃ M, c.maxPkt = some M ∧ M < pkt.length

instance (c : Ctx) (pkt : Bytes) : Decidable (TooBig c pkt) := by
  unfold TooBig
  cases h : c.maxPkt with
  | none => exact isFalse (by simp)
  | some M =>
    by_cases hl : M < pkt.length
    · exact isTrue ⟨M, rfl, hl⟩
    · exact isFalse (by rintro ⟨M', e, h'⟩; cases e; exact hl h')

/-- what a refused request causes: the caller's oneshot receives `MaximumPacketSizeExceeded`; the subscription sender
    a SUBSCRIBE message carries is dropped (its stream ends) -/
def refusalEffs : Msg → List Eff
  | .ff _ s => [.send s .errSize]
  | .awaitAck _ _ s => [.send s .errSize]
  | .subscribe _ _ _ s ch => [.send s .errSize, .dropChan ch]

theorem sizeOk_false_iff (c : Ctx) (pkt : Bytes) : c.sizeOk pkt = false ↔ TooBig c pkt := by
  unfold Ctx.sizeOk TooBig
  cases h : c.maxPkt with
  | none => simp
  | some M => simp

theorem sizeOk_true_iff (c : Ctx) (pkt : Bytes) : c.sizeOk pkt = true ↔ ¬ TooBig c pkt := by
  rw [← sizeOk_false_iff]; cases c.sizeOk pkt <;> simp

/-- **too big**: the handler returns the unchanged context, exactly the refusal effects, and `run()` goes on — whatever
    the transport would have done with a write -/
theorem handleMsg_tooBig (c : Ctx) (m : Msg) (wok : Bool) (h : TooBig c m.pkt) :
    c.handleMsg m wok = (c, refusalEffs m, .cont) := by
  have hs := (sizeOk_false_iff c m.pkt).2 h
  cases m <;> simp only [Msg.pkt] at hs <;> simp [Ctx.handleMsg, hs, refusalEffs]

/-- **fits**: nobody is told `MaximumPacketSizeExceeded` -/
theorem handleMsg_fits_no_errSize (c : Ctx) (m : Msg) (wok : Bool) (h : ¬ TooBig c m.pkt) :
    ∀ s, (s, SlotVal.errSize) ∉ sendsOf (c.handleMsg m wok).2.1 := by
  have hs := (sizeOk_true_iff c m.pkt).2 h
  intro s
  cases m with
  | ff pkt slot =>
    simp only [Msg.pkt] at hs
    cases wok <;> simp [Ctx.handleMsg, hs, sendsOf]
  | subscribe aid sid pkt slot chan =>
    simp only [Msg.pkt] at hs
    simp [Ctx.handleMsg, hs, sendsOf]
  | awaitAck aid pkt slot =>
    simp only [Msg.pkt] at hs
    by_cases h3 : pktType pkt = 3
    · by_cases hq : c.quota = 0
      · simp [Ctx.handleMsg, hs, h3, hq, sendsOf]
      · cases wok <;> simp [Ctx.handleMsg, hs, h3, hq, sendsOf]
    · by_cases h6 : pktType pkt = 6
      · cases wok <;> simp [Ctx.handleMsg, hs, h3, h6, sendsOf]
      · cases wok <;> simp [Ctx.handleMsg, hs, h3, h6, sendsOf]

/-- **the refusal is exact**: `MaximumPacketSizeExceeded` is sent (to anybody) iff the packet is too big -/
theorem handleMsg_errSize_iff (c : Ctx) (m : Msg) (wok : Bool) :
    (∃ s, (s, SlotVal.errSize) ∈ sendsOf (c.handleMsg m wok).2.1) ↔ TooBig c m.pkt := by
  constructor
  · rintro ⟨s, hs⟩
    by_cases h : TooBig c m.pkt
    · exact h
    · exact absurd hs (handleMsg_fits_no_errSize c m wok h s)
  · intro h
    rw [handleMsg_tooBig c m wok h]
    refine ⟨m.slot, ?_⟩
    cases m <;> simp [refusalEffs, Msg.slot, sendsOf]

/-- a QoS > 0 PUBLISH message that finds the send quota exhausted -/
def QuotaRefused (c : Ctx) (m : Msg) : Prop := pktType m.pkt = 3 ∧ c.quota = 0 ∧ ∃ aid pkt slot, m = .awaitAck aid pkt slot

/-- **fits**: the handler writes the packet whole (one `write` of exactly the bytes of the packet), unless it is a
    QoS > 0 PUBLISH refused for the send quota (then nothing is written and the context is unchanged) -/
theorem handleMsg_fits (c : Ctx) (m : Msg) (wok : Bool) (h : ¬ TooBig c m.pkt) :
    (QuotaRefused c m ∧ c.handleMsg m wok = (c, [.send m.slot .errQuota], .cont)) ∨
    (¬ QuotaRefused c m ∧ writesOf (c.handleMsg m wok).2.1 = [m.pkt] ∧
      ((c.handleMsg m wok).2.2 = .exitSocket ↔ wok = false)) := by
  have hs := (sizeOk_true_iff c m.pkt).2 h
  cases m with
  | ff pkt slot =>
    right
    simp only [Msg.pkt] at hs
    refine ⟨by (rintro ⟨_, _, aid, p, s, e⟩; cases e), ?_⟩
    cases wok
    · simp [Ctx.handleMsg, hs, Msg.pkt]
    · simp only [Ctx.handleMsg, hs, Msg.pkt]
      by_cases h14 : pktType pkt = 14 <;> simp [h14]
  | subscribe aid sid pkt slot chan =>
    right
    simp only [Msg.pkt] at hs
    refine ⟨by (rintro ⟨_, _, aid, p, s, e⟩; cases e), ?_⟩
    cases wok <;> simp [Ctx.handleMsg, hs, Msg.pkt]
  | awaitAck aid pkt slot =>
    simp only [Msg.pkt] at hs
    by_cases h3 : pktType pkt = 3
    · by_cases hq : c.quota = 0
      · left
        exact ⟨⟨h3, hq, aid, pkt, slot, rfl⟩, by simp [Ctx.handleMsg, hs, h3, hq, Msg.slot]⟩
      · right
        refine ⟨fun hh => hq hh.2.1, ?_⟩
        cases wok <;> simp [Ctx.handleMsg, hs, h3, hq, Msg.pkt]
    · right
      refine ⟨fun hh => h3 hh.1, ?_⟩
      by_cases h6 : pktType pkt = 6
      · cases wok <;> simp [Ctx.handleMsg, hs, h3, h6, Msg.pkt]
      · cases wok <;> simp [Ctx.handleMsg, hs, h3, h6, Msg.pkt]

/-- the bytes a handler needs the transport to take: the length of the packet when it fits and is not refused for the
    quota -/
theorem writeNeed_of_writes {effs : List Eff} {b : Bytes} (h : writesOf effs = [b]) : writeNeed effs = b.length := by
  induction effs with
  | nil => simp at h
  | cons e t ih =>
    cases e with
    | write bs =>
      simp only [writesOf_cons_write, List.cons.injEq] at h
      obtain ⟨rfl, ht⟩ := h
      rw [writeNeed_cons_write]
      have : writeNeed t = 0 := by
        clear ih
        induction t with
        | nil => rfl
        | cons e' t' ih' =>
          cases e' with
          | write bs' => simp at ht
          | _ =>
            rw [writeNeed_cons_quiet _ _ rfl]
            exact ih' (by simpa using ht)
      omega
    | send s v => rw [writeNeed_cons_quiet _ _ rfl]; exact ih (by simpa using h)
    | dropSlot s => rw [writeNeed_cons_quiet _ _ rfl]; exact ih (by simpa using h)
    | deliver c p => rw [writeNeed_cons_quiet _ _ rfl]; exact ih (by simpa using h)
    | dropChan c => rw [writeNeed_cons_quiet _ _ rfl]; exact ih (by simpa using h)

/-! ## the loop of `run()` handling the first queued message -/

/-- the world after the loop of `run()` has taken the message `m` from the head of the queue (rest `q`) and
    `handle_message` has run on it, and what `run()` does next -/
def headStep (w : World) (m : Msg) (q : List Msg) : World × Flow :=
  ({ w with queue := q }).runHandler (fun wok => w.c.handleMsg m wok)

/-- an iteration of the loop on a queued message is `headStep` -/
theorem runIter_msg (w : World) (m : Msg) (q : List Msg) (hq : w.queue = m :: q) :
    runIter w = match (headStep w m q).2 with
      | .cont => .inl (headStep w m q).1
      | fl => .inr ((headStep w m q).1.finish .run (flowRet fl)) := by
  unfold runIter headStep
  split
  · rename_i m' q' h'
    rw [hq] at h'; cases h'; rfl
  · rename_i h'
    rw [hq] at h'; cases h'

theorem headStep_runCont (w : World) (m : Msg) (q : List Msg) (hq : w.queue = m :: q)
    (hf : (headStep w m q).2 = .cont) : RunCont w (headStep w m q).1 :=
  .msg m q _ hq (Prod.ext rfl hf)

theorem headStep_runEnd (w : World) (m : Msg) (q : List Msg) (hq : w.queue = m :: q)
    (hf : (headStep w m q).2 ≠ .cont) : RunEnd w ((headStep w m q).1.finish .run (flowRet (headStep w m q).2)) :=
  .msgExit m q _ _ hq rfl hf

theorem sent_queue (w : World) (q : List Msg) : ({ w with queue := q } : World).sent = w.sent := rfl

/-- **too big, in the world**: the message is popped; the context (quota, pending acknowledgements, subscriptions,
    retransmit queue, …) is unchanged; not one byte is handed to the transport and nothing is logged; the caller's
    oneshot, if still open, now holds `MaximumPacketSizeExceeded`; `run()` goes on. -/
theorem headStep_tooBig (w : World) (m : Msg) (q : List Msg) (h : TooBig w.c m.pkt) :
    headStep w m q = (({ w with queue := q } : World).applyEffs (refusalEffs m), .cont) ∧
    (headStep w m q).1.c = w.c ∧ (headStep w m q).1.sent = w.sent ∧ (headStep w m q).1.out = w.out ∧
    (headStep w m q).1.written = w.written ∧ (headStep w m q).1.queue = q ∧ (headStep w m q).1.ops = w.ops ∧
    (w.slot m.slot = some .empty → (headStep w m q).1.slot m.slot = some (.full .errSize)) ∧
    (∀ s, s ≠ m.slot → (headStep w m q).1.slot s = w.slot s) := by
  have e : headStep w m q = (({ w with queue := q } : World).applyEffs (refusalEffs m), .cont) := by
    unfold headStep
    rw [runHandler_eq]
    simp only [handleMsg_tooBig w.c m _ h]
  have hquiet : ∀ e ∈ refusalEffs m, Eff.quiet e = true := by
    cases m <;> simp [refusalEffs, Eff.quiet]
  have hw : writesOf (refusalEffs m) = [] := by cases m <;> rfl
  have hneed : writeNeed (refusalEffs m) = 0 := by cases m <;> rfl
  refine ⟨e, ?_, ?_, ?_, ?_, ?_, ?_, ?_, ?_⟩
  · rw [e]; simp
  · rw [e]
    exact (applyEffs_quiet _ _ hquiet).1.trans (sent_queue w q)
  · rw [e]
    cases m <;> simp [refusalEffs, applyEffs, applyEff]
  · rw [e]
    exact (applyEffs_quiet _ _ hquiet).2
  · rw [e]; simp
  · rw [e]; simp
  · intro hs
    rw [e]
    cases m <;> simp only [refusalEffs, applyEffs, List.foldl, applyEff, Msg.slot] at hs ⊢
    · rw [sendSlot_slot]; simp [slot] at hs ⊢; simp [hs]
    · rw [sendSlot_slot]; simp [slot] at hs ⊢; simp [hs]
    · rw [dropChanTx_slot, sendSlot_slot]; simp [slot] at hs ⊢; simp [hs]
  · intro s hs
    rw [e]
    cases m <;> simp only [refusalEffs, applyEffs, List.foldl, applyEff, Msg.slot] at hs ⊢
    · rw [sendSlot_slot]; simp [hs, slot]
    · rw [sendSlot_slot]; simp [hs, slot]
    · rw [dropChanTx_slot, sendSlot_slot]; simp [hs, slot]


/-- a write the transport cuts short hands a proper prefix of the bytes to the transport -/
theorem sent_writeBytes_cut (w : World) (bs : Bytes) (h : w.canWrite bs.length = false) :
    ∃ k, (bs ≠ [] → k < bs.length) ∧ (w.writeBytes bs).sent = w.sent ++ bs.take k := by
  unfold writeBytes
  rw [if_neg (by simp [h])]
  refine ⟨(w.cfg.wlimit.getD 0) - w.written, ?_, ?_⟩
  · unfold canWrite at h
    split at h
    · cases h
    · rename_i l hl
      simp only [decide_eq_false_iff_not] at h
      rw [hl]; simp only [Option.getD_some]
      intro hne
      have : 0 < bs.length := List.length_pos_iff.mpr hne
      omega
  · rw [sent_flushWire]; simp only [sent, List.append_assoc]

/-- effects with exactly one write `b`: the bytes handed to the transport grow by `b` (whole) if the transport can take
    `b.length` more bytes, by a proper prefix of `b` otherwise -/
theorem sent_applyEffs_one (w : World) (effs : List Eff) (b : Bytes) (h : writesOf effs = [b]) :
    (w.canWrite b.length = true → (w.applyEffs effs).sent = w.sent ++ b) ∧
    (w.canWrite b.length = false → ∃ k, (b ≠ [] → k < b.length) ∧ (w.applyEffs effs).sent = w.sent ++ b.take k) := by
  unfold applyEffs
  induction effs generalizing w with
  | nil => simp at h
  | cons e t ih =>
    simp only [List.foldl_cons]
    by_cases hq : Eff.quiet e = true
    · obtain ⟨h1, h2⟩ := applyEff_quiet w e hq
      have hc : (w.applyEff e).canWrite b.length = w.canWrite b.length := canWrite_congr (applyEff_cfg w e) h2 _
      obtain ⟨i1, i2⟩ := ih (w.applyEff e) (by rw [writesOf_cons_quiet e t hq] at h; exact h)
      rw [hc, h1] at i1 i2
      exact ⟨i1, i2⟩
    · cases e with
      | write bs =>
        simp only [writesOf_cons_write, List.cons.injEq] at h
        obtain ⟨rfl, ht⟩ := h
        have hrest : ∀ (w0 : World), (List.foldl applyEff w0 t).sent = w0.sent := by
          intro w0
          have hqt : ∀ e ∈ t, Eff.quiet e = true := by
            intro e he
            cases e with
            | write b' =>
              exfalso
              have : b' ∈ writesOf t := by
                simp only [writesOf, List.mem_filterMap]
                exact ⟨_, he, rfl⟩
              rw [ht] at this; cases this
            | _ => rfl
          exact (applyEffs_quiet w0 t hqt).1
        show (_ → (List.foldl applyEff (w.writeBytes bs) t).sent = _) ∧
          (_ → ∃ k, (bs ≠ [] → k < bs.length) ∧ (List.foldl applyEff (w.writeBytes bs) t).sent = _)
        rw [hrest]
        exact ⟨fun hc => (sent_writeBytes w bs hc).1, fun hc => sent_writeBytes_cut w bs hc⟩
      | _ => simp [Eff.quiet] at hq

/-- **fits, in the world**: a QoS > 0 PUBLISH that finds the send quota exhausted is refused with `QuotaExceeded`
    (context and transport untouched); every other request whose packet passes the size check is handed to the transport:
    whole — exactly the bytes of the packet appended to what the transport was handed before — when the transport can
    take it, and otherwise (the write limit of the transport is hit) a proper prefix of it, after which `run()` ends
    with the socket error. -/
theorem headStep_fits (w : World) (m : Msg) (q : List Msg) (h : ¬ TooBig w.c m.pkt) :
    (QuotaRefused w.c m ∧ (headStep w m q).1.c = w.c ∧ (headStep w m q).1.sent = w.sent ∧
      (headStep w m q).2 = .cont) ∨
    (¬ QuotaRefused w.c m ∧
      (w.canWrite m.pkt.length = true →
        (headStep w m q).1.sent = w.sent ++ m.pkt ∧ (headStep w m q).2 ≠ .exitSocket) ∧
      (w.canWrite m.pkt.length = false →
        (∃ k, (m.pkt ≠ [] → k < m.pkt.length) ∧ (headStep w m q).1.sent = w.sent ++ m.pkt.take k) ∧
        (headStep w m q).2 = .exitSocket)) := by
  unfold headStep
  rw [runHandler_eq]
  rcases handleMsg_fits w.c m true h with ⟨hq, e⟩ | ⟨hq, hw, hfl⟩
  · left
    have e' : ∀ b, w.c.handleMsg m b = (w.c, [.send m.slot .errQuota], .cont) := by
      intro b
      rcases handleMsg_fits w.c m b h with ⟨_, e'⟩ | ⟨hn, _⟩
      · exact e'
      · exact absurd hq hn
    simp only [e']
    refine ⟨hq, by simp, ?_, trivial⟩
    exact (applyEffs_quiet _ _ (by simp [Eff.quiet])).1.trans (sent_queue w q)
  · right
    refine ⟨hq, ?_, ?_⟩
    · intro hc
      have hc' : ({ w with queue := q } : World).canWrite (writeNeed (w.c.handleMsg m true).2.1) = true := by
        rw [writeNeed_of_writes hw]; exact hc
      simp only [hc']
      refine ⟨?_, ?_⟩
      · have := (sent_applyEffs_one ({ w with queue := q, c := (w.c.handleMsg m true).1 } : World) _ _ hw).1 hc
        rw [this]; rfl
      · intro hx; have := hfl.1 hx; cases this
    · intro hc
      have hc' : ({ w with queue := q } : World).canWrite (writeNeed (w.c.handleMsg m true).2.1) = false := by
        rw [writeNeed_of_writes hw]; exact hc
      simp only [hc']
      rcases handleMsg_fits w.c m false h with ⟨hq', _⟩ | ⟨_, hw', hfl'⟩
      · exact absurd hq' hq
      · refine ⟨?_, hfl'.2 rfl⟩
        obtain ⟨k, hk, e⟩ := (sent_applyEffs_one ({ w with queue := q, c := (w.c.handleMsg m false).1 } : World) _ _ hw').2 hc
        exact ⟨k, hk, by rw [e]; rfl⟩

/-! ## the future that finds `MaximumPacketSizeExceeded` in its oneshot -/

/-- A handle future waiting on the oneshot `s` that holds `MaximumPacketSizeExceeded`, polled: it completes with
    `MaximumPacketSizeExceeded` (exactly that line is logged), leaves the operation table, its oneshot is consumed;
    nothing is queued, nothing reaches the transport, the context is untouched. -/
theorem pollOp_errSize (w : World) (id s : Nat) (k : Wait) (hop : w.opSt id = some (.wait s k))
    (hs : w.slot s = some (.full .errSize)) :
    w.pollOp id = (w.clearSlot s).finishOp id (.err .maximumPacketSizeExceeded) ∧
    (w.pollOp id).out = w.out ++ [.done id (.err .maximumPacketSizeExceeded)] ∧
    (w.pollOp id).ops = eraseFirst id w.ops ∧ (w.pollOp id).queue = w.queue ∧ (w.pollOp id).c = w.c ∧
    (w.pollOp id).sent = w.sent ∧ (w.pollOp id).pidCtr = w.pidCtr := by
  have e : w.pollOp id = (w.clearSlot s).finishOp id (.err .maximumPacketSizeExceeded) := by
    simp only [pollOp, hop, hs, resumeOp]
  refine ⟨e, by rw [e]; simp [clearSlot], by rw [e]; simp [clearSlot], by rw [e]; simp [clearSlot],
    by rw [e]; simp [clearSlot], ?_, by rw [e]; simp [clearSlot]⟩
  rw [e, finishOp_sent]
  exact sent_congr rfl rfl



/-- the length of the packet of a (completed) request, by the library's `packet_len()` formulas -/
def reqPacketLen : Req → Nat
  | .publish t => t.packetLen
  | .subscribe t => t.packetLen
  | .unsubscribe t => t.packetLen
  | .ping => 2
  | .disconnect t => t.packetLen


end W10
end World
end Poster
