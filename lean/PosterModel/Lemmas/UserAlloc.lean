/-
  Lemmas/UserAlloc.lean — the identifier counters of `ContextHandle` (`packet_id` / `sub_id`, both an
  `AtomicU*::fetch_update` that cycles through 1..=MAX) as pure successor functions, and their closed forms.
-/
import PosterModel.World

namespace Poster

/-- one `fetch_update` step of the packet identifier counter: 1, 2, …, 65535, 1, 2, … -/
def nextPid (c : Nat) : Nat := if c ≥ 65535 then 1 else c + 1

/-- one `fetch_update` step of the subscription identifier counter: 1, 2, …, 268435455, 1, … -/
def nextSub (c : Nat) : Nat := if c ≥ 268435455 then 1 else c + 1

/-- `iter f k a` = `f` applied `k` times to `a` (`Nat.iterate` of Mathlib; core has no such function) -/
def iter {α} (f : α → α) : Nat → α → α
  | 0, a => a
  | k+1, a => iter f k (f a)

namespace User

theorem iter_succ' {α} (f : α → α) (k : Nat) (a : α) : iter f (k+1) a = f (iter f k a) := by
  induction k generalizing a with
  | zero => rfl
  | succ k ih => exact ih (f a)

theorem iter_add {α} (f : α → α) (i j : Nat) (a : α) : iter f (i + j) a = iter f j (iter f i a) := by
  induction i generalizing a with
  | zero => simp [iter]
  | succ i ih =>
    have : i + 1 + j = (i + j) + 1 := by omega
    rw [this]; exact ih (f a)

theorem nextPid_range (c : Nat) : 1 ≤ nextPid c ∧ nextPid c ≤ 65535 := by
  unfold nextPid; split <;> omega

theorem nextSub_range (c : Nat) : 1 ≤ nextSub c ∧ nextSub c ≤ 268435455 := by
  unfold nextSub; split <;> omega

theorem nextPid_closed (c k : Nat) (h : 1 ≤ c ∧ c ≤ 65535) : iter nextPid k c = (c - 1 + k) % 65535 + 1 := by
  induction k generalizing c with
  | zero => simp only [iter]; omega
  | succ k ih =>
    simp only [iter]
    rw [ih _ (nextPid_range c)]; unfold nextPid; split <;> omega

theorem nextSub_closed (c k : Nat) (h : 1 ≤ c ∧ c ≤ 268435455) :
    iter nextSub k c = (c - 1 + k) % 268435455 + 1 := by
  induction k generalizing c with
  | zero => simp only [iter]; omega
  | succ k ih =>
    simp only [iter]
    rw [ih _ (nextSub_range c)]; unfold nextSub; split <;> omega

end User
end Poster
