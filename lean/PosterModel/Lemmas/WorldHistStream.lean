/-
  Lemmas/WorldHistStream.lean — the history of the context (Lemmas/WorldHist.lean) and the stream traces
  (Lemmas/WorldStream*.lean) describe the same execution (work package W9, for C09).

  `steps_dec` (Lemmas/WorldStreamStep.lean) shows that every script is SOME trace of stream moves. Here the decomposition is
  repeated keeping track of the `.ctx src` labels: every script is a trace of stream moves whose `.ctx` labels are, in
  order, exactly the effectful events of its history (`HEv.src?`: handler calls, `run()` preludes, the drop and the
  creation of the context). Hence `delivered id tr`, the ghost of the conservation law of C07World, is what the handler
  calls of the history deliver into `id`.
-/
import PosterModel.Lemmas.WorldHist
import PosterModel.Lemmas.WorldStreamWho
import PosterModel.Lemmas.WorldStreamSid

set_option linter.unusedVariables false
set_option linter.unusedSimpArgs false

namespace Poster
open Framing

/-- the events of the history that the stream traces label `.ctx src` -/
def HEv.src? : HEv → Option World.CtxSrc
  | .handler c i => some (.handler c i)
  | .resume c => some (.resume c)
  | .dropCtx q c => some (.dropCtx q c)
  | .fresh => some .fresh
  | _ => none

/-- the effectful events of a history, as sources of context effects -/
def evSrcs (h : List HEv) : List World.CtxSrc := h.filterMap HEv.src?

@[simp] theorem evSrcs_nil : evSrcs [] = [] := rfl
@[simp] theorem evSrcs_append (a b : List HEv) : evSrcs (a ++ b) = evSrcs a ++ evSrcs b := by
  simp [evSrcs, List.filterMap_append]
theorem evSrcs_cons (e : HEv) (t : List HEv) : evSrcs (e :: t) = e.src?.toList ++ evSrcs t := by
  simp only [evSrcs, List.filterMap_cons]
  cases e.src? <;> rfl

namespace World
open W7

/-- the source of a `.ctx` label -/
def SLab.src? : SLab → Option CtxSrc
  | .ctx s => some s
  | _ => none

/-- the sources of the `.ctx` labels of a trace, in order -/
def ctxSrcs (tr : List SLab) : List CtxSrc := tr.filterMap SLab.src?

@[simp] theorem ctxSrcs_nil : ctxSrcs [] = [] := rfl
@[simp] theorem ctxSrcs_append (a b : List SLab) : ctxSrcs (a ++ b) = ctxSrcs a ++ ctxSrcs b := by
  simp [ctxSrcs, List.filterMap_append]

/-- `w'` is reached from `w` by a trace of stream moves that issues the operations `iss` and whose `.ctx` labels are `L` -/
def TrH (w w' : World) (iss : List Nat) (L : List CtxSrc) : Prop :=
  ∃ tr, STrace w tr w' ∧ issuedOf tr = iss ∧ ctxSrcs tr = L

theorem TrH.refl (w : World) : TrH w w [] [] := ⟨[], .refl w, rfl, rfl⟩

theorem TrH.of_eq {w w' : World} (h : w' = w) : TrH w w' [] [] := h ▸ TrH.refl w

theorem TrH.trans {a b c : World} {i1 i2 : List Nat} {L1 L2 : List CtxSrc} (h1 : TrH a b i1 L1) (h2 : TrH b c i2 L2) :
    TrH a c (i1 ++ i2) (L1 ++ L2) := by
  obtain ⟨t1, s1, a1, b1⟩ := h1
  obtain ⟨t2, s2, a2, b2⟩ := h2
  exact ⟨t1 ++ t2, s1.trans s2, by rw [issuedOf_append, a1, a2], by rw [ctxSrcs_append, b1, b2]⟩

/-- composition when the first part issues nothing and has no `.ctx` label -/
theorem TrH.trans0 {a b c : World} {i2 : List Nat} {L2 : List CtxSrc} (h1 : TrH a b [] []) (h2 : TrH b c i2 L2) :
    TrH a c i2 L2 := by simpa using h1.trans h2

/-- composition when the second part issues nothing and has no `.ctx` label -/
theorem TrH.trans1 {a b c : World} {i1 : List Nat} {L1 : List CtxSrc} (h1 : TrH a b i1 L1) (h2 : TrH b c [] []) :
    TrH a c i1 L1 := by simpa using h1.trans h2

theorem TrH.tau {w w' : World} (m : SMove .tau w w') : TrH w w' [] [] := ⟨[.tau], .one m, rfl, rfl⟩

theorem TrH.ctx {w w' : World} {src : CtxSrc} (m : SMove (.ctx src) w w') : TrH w w' [] [src] :=
  ⟨[.ctx src], .one m, rfl, rfl⟩

theorem TrH.addOp {w w' : World} {id : Nat} (m : SMove (.addOp id) w w') : TrH w w' [id] [] :=
  ⟨[.addOp id], .one m, rfl, rfl⟩

/-- moves of a class without `addOp` and `.ctx` labels -/
theorem TrH.of_dec {A : SLab → Prop} {w w' : World} (d : Dec A w w')
    (hA : ∀ l, A l → l.issued = none ∧ l.src? = none) : TrH w w' [] [] := by
  obtain ⟨tr, st, ha⟩ := d
  refine ⟨tr, st, issuedOf_of_noAdd (fun l hl => (hA l (ha l hl)).1), ?_⟩
  unfold ctxSrcs
  rw [List.filterMap_eq_nil_iff]
  intro l hl
  exact (hA l (ha l hl)).2

theorem TrH.quiet {w w' : World} (chans : w'.chans = w.chans) (c_eq : w'.c = w.c) (ops : w'.ops = w.ops)
    (out : w'.out = w.out) (q : w'.queue = w.queue := by first | rfl | (simp; done))
    (sc : w'.subCtr = w.subCtr := by first | rfl | (simp; done)) : TrH w w' [] [] :=
  .tau (.quiet chans c_eq ops out q sc)

theorem w9_opLab_plain {id : Nat} {l : SLab} (h : OpLab id l) : l.issued = none ∧ l.src? = none := by
  rcases h with rfl | rfl | rfl | rfl <;> exact ⟨rfl, rfl⟩

theorem w9_stLab_plain {id : Nat} {l : SLab} (h : StLab id l) : l.issued = none ∧ l.src? = none := by
  rcases h with rfl | ⟨p, rfl⟩ | rfl | rfl <;> exact ⟨rfl, rfl⟩

/-! ## the context task -/

theorem trH_finish (w : World) (call : Call) (r : RetRes) : TrH w (w.finish call r) [] [] :=
  .tau (smove_finish w call r)

theorem trH_writeBytes (w : World) (bs : Bytes) : TrH w (w.writeBytes bs) [] [] := .tau (smove_writeBytes w bs)

theorem trH_foldl_writeBytes (pkts : List Bytes) (w : World) :
    TrH w (pkts.foldl (fun w p => w.writeBytes p) w) [] [] := by
  induction pkts generalizing w with
  | nil => exact .refl w
  | cons p t ih => exact (trH_writeBytes w p).trans0 (ih _)

/-- an iteration after which the loop goes on: the handler call on the input `iterIn` -/
theorem runCont_trH {w w1 : World} (h : RunCont w w1) :
    ∃ i, w.iterIn = some i ∧ TrH w w1 [] [.handler w.c i] ∧ w1.c = (w.c.stepIn i).1 := by
  cases h with
  | msg m q w1 hq hr =>
    rw [runHandler_eq_stepIn_msg] at hr
    simp only [Prod.mk.injEq] at hr
    obtain ⟨rfl, _⟩ := hr
    exact ⟨w.inMsg m, by simp [iterIn, hq], .ctx (smove_handler_msg w m q hq), by simp⟩
  | pkt rx' rd' fr p w1 hq hs hp hd hr =>
    rw [runHandler_eq_stepIn_pkt] at hr
    simp only [Prod.mk.injEq] at hr
    obtain ⟨rfl, _⟩ := hr
    exact ⟨w.inPkt p, by simp [iterIn, hq, hs, hp, hd], .ctx (smove_handler_pkt w rx' rd' fr p hq hp hd), by simp⟩

/-- the final iteration of a poll: no handler is called, or exactly the one on the input `iterIn` -/
theorem runEnd_trH {w r : World} (h : RunEnd w r) :
    (w.iterIn = none ∧ TrH w r [] []) ∨ (∃ i, w.iterIn = some i ∧ TrH w r [] [.handler w.c i]) := by
  cases h with
  | msgExit m q w1 fl hq hr hne =>
    rw [runHandler_eq_stepIn_msg] at hr
    simp only [Prod.mk.injEq] at hr
    obtain ⟨rfl, _⟩ := hr
    exact Or.inr ⟨w.inMsg m, by simp [iterIn, hq],
      (TrH.ctx (smove_handler_msg w m q hq)).trans1 (trH_finish _ _ _)⟩
  | closed hq hs => exact Or.inl ⟨by simp [iterIn, hq, hs], trH_finish _ _ _⟩
  | pktExit rx' rd' fr p w1 fl hq hs hp hd hr hne =>
    rw [runHandler_eq_stepIn_pkt] at hr
    simp only [Prod.mk.injEq] at hr
    obtain ⟨rfl, _⟩ := hr
    exact Or.inr ⟨w.inPkt p, by simp [iterIn, hq, hs, hp, hd],
      (TrH.ctx (smove_handler_pkt w rx' rd' fr p hq hp hd)).trans1 (trH_finish _ _ _)⟩
  | codec rx' rd' fr hq hs hp hd =>
    have h0 : TrH w ({ w with rx := rx', reader := rd' } : World) [] [] := .quiet rfl rfl rfl rfl
    exact Or.inl ⟨by simp [iterIn, hq, hs, hp, hd], h0.trans0 (trH_finish _ _ _)⟩
  | panic rx' rd' fr hq hs hp hd =>
    exact Or.inl ⟨by simp [iterIn, hq, hs, hp, hd],
      .tau (.tau rfl rfl (opsKeep_of_eq rfl) (outExtP_one _ rfl (sq_panic _ _)))⟩
  | sock rx' rd' hq hs hp =>
    have h0 : TrH w ({ w with rx := rx', reader := rd' } : World) [] [] := .quiet rfl rfl rfl rfl
    exact Or.inl ⟨by simp [iterIn, hq, hs, hp], h0.trans0 (trH_finish _ _ _)⟩
  | pending rx' rd' hq hs hp =>
    refine Or.inl ⟨by simp [iterIn, hq, hs, hp], ?_⟩
    split
    · exact .quiet rfl rfl rfl rfl
    · exact .quiet (by simp) (by simp) (by simp) (by simp)

theorem evSrcs_histEvs_cons (c : Ctx) (i : CIn) (is : List CIn) :
    evSrcs (histEvs c (i :: is)) = .handler c i :: evSrcs (histEvs (c.stepIn i).1 is) := by
  simp [histEvs, evSrcs, HEv.src?]

/-- one poll of the `select!` loop: the `.ctx` labels are the handler calls of its history -/
theorem runLoop_trH (f : Nat) (w : World) : TrH w (runLoop f w) [] (evSrcs (histEvs w.c (loopHist f w))) := by
  induction f generalizing w with
  | zero => exact .refl w
  | succ f ih =>
    rw [runLoop_succ, loopHist_succ]
    cases h : runIter w with
    | inl w1 =>
      obtain ⟨i, hi, hm, hc⟩ := runCont_trH (runIter_inl h)
      simp only [hi]
      rw [evSrcs_histEvs_cons, ← hc]
      exact hm.trans (ih w1)
    | inr r =>
      rcases runEnd_trH (runIter_inr h) with ⟨hi, hm⟩ | ⟨i, hi, hm⟩
      · simp only [hi]; exact hm
      · simp only [hi]
        rw [evSrcs_histEvs_cons]
        simpa [histEvs] using hm

theorem pollRun_trH (w : World) (started : Bool) (ht : w.task = .running started) :
    TrH w (w.pollRun started) [] (evSrcs w.ctxEvs) := by
  cases started with
  | true =>
    simp only [pollRun, ↓reduceIte]
    rw [ctxEvs_running w true ht]
    exact runLoop_trH _ w
  | false =>
    rw [ctxEvs_running w false ht, pollRun_first_eq]
    have h1 : TrH w w.resumed [] [.resume w.c] :=
      .ctx (smove_applyEffs w ({ w with c := w.c.resume.1, task := .running true } : World) (.resume w.c) rfl rfl rfl
        rfl rfl (by
          intro ch q h
          have : deliversOf (CtxSrc.resume w.c).effs = [] := deliversOf_resume w.c
          rw [this] at h; cases h) (subFrame_resume w))
    simp only [Bool.false_eq_true, ↓reduceIte]
    rw [evSrcs_cons]
    show TrH _ _ _ (CtxSrc.resume w.c :: _)
    split
    · have h2 : TrH w.resumed w.resent [] [] := trH_foldl_writeBytes _ _
      have h3 := runLoop_trH w.resent.loopFuel w.resent
      rw [resent_c] at h3
      exact (h1.trans1 h2).trans h3
    · have h2 : TrH w.resumed ((w.resumed.writeBytes w.c.resume.2.2.flatten).finish .run (.err .socketClosed)) [] [] :=
        (trH_writeBytes _ _).trans0 (trH_finish _ _ _)
      simpa using h1.trans1 h2

theorem firstEnd_trH {w : World} {call : Call} {t : ConnectTx} {a : AuthTx} {r : World}
    (h : FirstEnd w call t a r) : TrH w r [] [] := by
  have hk : ∀ (k : ConnackRx) (rx' : Rx) (rd' : List ReadEv),
      TrH w ({ w with rx := rx', reader := rd', c := w.c.handleConnack k } : World) [] [] :=
    fun k rx' rd' => .tau (.tau rfl (Ctx.handleConnack_frame w.c k).2.2.1 (opsKeep_of_eq rfl) (outExtP_of_eq rfl)
      (subFrame_of_eq rfl rfl (Ctx.handleConnack_frame w.c k).2.2.1))
  have hq : ∀ (rx' : Rx) (rd' : List ReadEv), TrH w ({ w with rx := rx', reader := rd' } : World) [] [] :=
    fun rx' rd' => .quiet rfl rfl rfl rfl
  cases h with
  | connack rx' rd' fr k hp hd hk' hs => exact (hk k rx' rd').trans0 (trH_finish _ _ _)
  | refused rx' rd' fr k hp hd hk' => exact (hk k rx' rd').trans0 (trH_finish _ _ _)
  | assertSubId rx' rd' fr k hp hd hk' hs =>
    exact (hk k rx' rd').trans0 (.tau (.tau rfl rfl (opsKeep_of_eq rfl) (outExtP_one _ rfl (sq_panic _ _))))
  | auth rx' rd' fr au hp hd => exact (hq rx' rd').trans0 (trH_finish _ _ _)
  | unexpected rx' rd' fr p hp hd h1 h2 => exact (hq rx' rd').trans0 (trH_finish _ _ _)
  | codec rx' rd' fr hp hd => exact (hq rx' rd').trans0 (trH_finish _ _ _)
  | panic rx' rd' fr hp hd => exact .tau (.tau rfl rfl (opsKeep_of_eq rfl) (outExtP_one _ rfl (sq_panic _ _)))
  | sock rx' rd' hp => exact (hq rx' rd').trans0 (trH_finish _ _ _)
  | pending rx' rd' hp =>
    split
    · exact .quiet rfl rfl rfl rfl
    · exact .quiet (by simp) (by simp) (by simp) (by simp)

theorem pollConnect_trH (w : World) (call : Call) (t : ConnectTx) (a : AuthTx) (started : Bool) :
    TrH w (w.pollConnect call t a started) [] [] := by
  cases started with
  | true => simp only [pollConnect, ↓reduceIte]; exact firstEnd_trH (awaitFirst_spec w call t a)
  | false =>
    rw [pollConnect_false_eq]
    split
    · exact trH_finish _ _ _
    · have h0 : TrH w (seiSet w call t) [] [] := by
        cases call with
        | connect => exact .tau (.tau rfl rfl (opsKeep_of_eq rfl) (outExtP_of_eq rfl))
        | authorize => exact .refl w
        | run => exact .refl w
      split
      · exact (h0.trans0 (trH_writeBytes _ _)).trans0 (firstEnd_trH (awaitFirst_spec _ call t a))
      · exact (h0.trans0 (trH_writeBytes _ _)).trans0 (trH_finish _ _ _)

theorem evSrcs_firstEvs (w : World) : evSrcs w.firstEvs = [] := by
  unfold firstEvs
  split
  · split <;> simp [evSrcs, HEv.src?]
  · rfl

/-- **one poll of the context task**: the `.ctx` labels are the effectful events of the poll -/
theorem pollCtx_trH (w : World) : TrH w w.pollCtx [] (evSrcs w.ctxEvs) := by
  cases ht : w.task with
  | none =>
    have e : w.pollCtx = w := by simp [pollCtx, ht]
    have e2 : w.ctxEvs = [] := by simp [ctxEvs, ht]
    rw [e, e2]; exact .refl w
  | connecting call t a started =>
    have e : w.pollCtx = w.pollConnect call t a started := by simp [pollCtx, ht]
    have e2 : evSrcs w.ctxEvs = [] := by
      simp only [ctxEvs, ht]
      cases started with
      | true => simp [evSrcs_firstEvs]
      | false =>
        simp only [Bool.false_eq_true, ↓reduceIte]
        split
        · rfl
        · rw [evSrcs_cons]
          split
          · simp [HEv.src?, evSrcs_firstEvs]
          · simp [HEv.src?]
    rw [e, e2]; exact pollConnect_trH w call t a started
  | running started =>
    have e : w.pollCtx = w.pollRun started := by simp [pollCtx, ht]
    rw [e]; exact pollRun_trH w started ht

/-! ## tasks, the executor, script events -/

theorem pollTask_trH (w : World) (t : Task) (hi : OpsInv w) : TrH w (w.pollTask t) [] (evSrcs (w.taskEvs t)) := by
  have h0 : TrH w (w.unwake t) [] [] := .quiet rfl rfl rfl rfl
  cases t with
  | ctx => exact h0.trans0 (pollCtx_trH _)
  | op id => exact h0.trans0 (.of_dec (pollOp_dec _ id (opsInv_unwake w _ hi)) (fun _ => w9_opLab_plain))
  | st id => exact h0.trans0 (.of_dec (pollStream_dec _ id) (fun _ => w9_stLab_plain))

theorem drain_trH (f : Nat) (w : World) (hi : OpsInv w) :
    TrH w (drain f w) [] (evSrcs (drainEvs f w)) ∧ OpsInv (drain f w) := by
  induction f generalizing w with
  | zero => exact ⟨.refl w, hi⟩
  | succ f ih =>
    simp only [drain, drainEvs]
    cases hp : w.pick with
    | none => exact ⟨.refl w, hi⟩
    | some t =>
      obtain ⟨a, b⟩ := ih (w.pollTask t) (opsInv_pollTask w t hi)
      simp only [evSrcs_append]
      exact ⟨by simpa using (pollTask_trH w t hi).trans a, b⟩

theorem sweepList_trH (l : List Task) (w : World) (hi : OpsInv w) :
    TrH w (l.foldl (fun w t => if w.taskLive t ∧ t ∉ w.woken ∧ t ∉ w.held then w.pollTask t else w) w) []
      (evSrcs (sweepListEvs l w)) ∧
    OpsInv (l.foldl (fun w t => if w.taskLive t ∧ t ∉ w.woken ∧ t ∉ w.held then w.pollTask t else w) w) := by
  induction l generalizing w with
  | nil => exact ⟨.refl w, hi⟩
  | cons t l ih =>
    simp only [List.foldl_cons, sweepListEvs]
    split
    · obtain ⟨a, b⟩ := ih (w.pollTask t) (opsInv_pollTask w t hi)
      simp only [evSrcs_append]
      exact ⟨by simpa using (pollTask_trH w t hi).trans a, b⟩
    · exact ih w hi

theorem sweep_trH (w : World) (hi : OpsInv w) : TrH w w.sweep [] (evSrcs w.sweepEvs) ∧ OpsInv w.sweep :=
  sweepList_trH w.sweepTasks w hi

/-- **one script event**: an accepted `op` event issues its operation; every other event issues nothing; the `.ctx`
    labels are the effectful events of the event -/
theorem apply_trH (w : World) (e : Ev) (hi : OpsInv w) :
    ∃ iss, TrH w (w.apply e) iss (evSrcs (w.applyEvs e)) ∧ (iss = [] ∨ ∃ id, evOpId e = some id ∧ iss = [id]) := by
  have bad : TrH w w.badScript [] [] := .tau (badScript_smove w)
  have plain : (evSrcs (w.applyEvs e) = []) → TrH w (w.apply e) [] [] →
      ∃ iss, TrH w (w.apply e) iss (evSrcs (w.applyEvs e)) ∧ (iss = [] ∨ ∃ id, evOpId e = some id ∧ iss = [id]) := by
    intro h1 h2
    rw [h1]; exact ⟨[], h2, Or.inl rfl⟩
  cases e with
  | setup =>
    refine ⟨[], ?_, Or.inl rfl⟩
    simp only [apply, applyEvs]
    split
    · exact bad
    · split
      · split
        · exact bad
        · refine .ctx (.ctx .fresh trivial rfl rfl rfl (outExtP_of_eq rfl) ?_
            (subFrame_of_sublist rfl (by simp [psids])))
          intro ch q h; cases h
      · exact (TrH.tau (flushRaw_smove w)).trans0 (.quiet (by simp) (by simp) (by simp) (by simp))
  | connect t =>
    refine plain rfl ?_
    simp only [apply]; split
    · exact bad
    · exact .quiet (by simp) (by simp) (by simp) (by simp)
  | authorize a =>
    refine plain rfl ?_
    simp only [apply]; split
    · exact bad
    · exact .quiet (by simp) (by simp) (by simp) (by simp)
  | run =>
    refine plain rfl ?_
    simp only [apply]; split
    · exact bad
    · exact .quiet (by simp) (by simp) (by simp) (by simp)
  | dropFut => exact plain rfl (.quiet rfl rfl rfl rfl)
  | dropCtx =>
    refine ⟨[], ?_, Or.inl rfl⟩
    cases hc : w.hasCtx with
    | false =>
      have e : w.apply .dropCtx = { w with task := .none } := by simp [apply, hc]
      simp only [applyEvs, hc]
      rw [e]; exact .quiet rfl rfl rfl rfl
    | true =>
      rw [apply_dropCtx w hc]
      simp only [applyEvs, hc, ↓reduceIte]
      have inv := closes_inv (closes_dropCtxClosed w)
      refine .ctx (.ctx (.dropCtx w.queue w.c) ⟨rfl, rfl⟩ ?_ rfl ?_ ?_ ?_ ?_)
      · exact dropCtxClosed_chans w
      · exact inv.ops_eq
      · exact outExtP_of_eq inv.out_eq
      · intro ch q h
        have : deliversOf (CtxSrc.dropCtx w.queue w.c).effs = [] := deliversOf_closeEffs _ _
        rw [this] at h; cases h
      · exact subFrame_of_sublist inv.subCtr_eq (by simp [psids])
  | markDisc secs =>
    refine plain (by simp only [applyEvs]; split <;> rfl) ?_
    simp only [apply]; split
    · exact bad
    · exact .tau (.tau rfl rfl (opsKeep_of_eq rfl) (outExtP_of_eq rfl))
  | snap =>
    refine plain rfl ?_
    simp only [apply]; split
    · exact bad
    · exact .tau (.tau rfl rfl (opsKeep_of_eq rfl) (outExtP_one (.state w.c) rfl ⟨nofun, nofun⟩))
  | feed chunks =>
    refine plain rfl ?_
    simp only [apply]; split
    · exact bad
    · exact .tau (feedEvents_smove w _)
  | feedEof =>
    refine plain rfl ?_
    simp only [apply]; split
    · exact bad
    · exact .tau (feedEvents_smove w _)
  | feedErr =>
    refine plain rfl ?_
    simp only [apply]; split
    · exact bad
    · exact .tau (feedEvents_smove w _)
  | op id h req =>
    simp only [apply, applyEvs]
    split
    · exact ⟨[], bad, Or.inl rfl⟩
    · rename_i hc
      refine ⟨[id], .addOp (.addOp id h req ?_ (by simp) (by simp) (by simp) (by simp)), Or.inr ⟨id, rfl, rfl⟩⟩
      cases ho : w.opSt id with
      | none => rfl
      | some st => exact absurd (Or.inr (by simp [ho])) hc
  | poll t =>
    refine ⟨[], ?_, Or.inl rfl⟩
    simp only [apply, applyEvs]; split
    · exact pollTask_trH w t hi
    · exact .refl w
  | hold t =>
    refine plain rfl ?_
    simp only [apply]; split
    · exact .refl w
    · exact .quiet rfl rfl rfl rfl
  | release t => exact plain rfl (.quiet rfl rfl rfl rfl)
  | drop t =>
    refine plain rfl ?_
    cases t with
    | ctx => exact .refl w
    | op id => exact .of_dec (dropOp_dec w id hi) (fun _ => w9_opLab_plain)
    | st id =>
      simp only [apply]; split
      · exact ⟨[.dropRx id], .one (.dropRx id rfl rfl (opsKeep_of_eq rfl) rfl), rfl, rfl⟩
      · exact .refl w
  | dropRsp id =>
    refine plain rfl ?_
    simp only [apply]; split
    · exact ⟨[.dropRx id], .one (.dropRx id rfl rfl (opsKeep_of_eq rfl) rfl), rfl, rfl⟩
    · exact .refl w
  | stream id =>
    refine plain rfl ?_
    simp only [apply]; split
    · exact bad
    · exact .quiet (by simp) (by simp) (by simp) (by simp)
  | clone h h2 =>
    refine plain rfl ?_
    simp only [apply]; split
    · exact bad
    · exact .quiet rfl rfl rfl rfl
  | dropHandle h =>
    refine plain rfl ?_
    simp only [apply]; split
    · exact bad
    · have h0 : TrH w ({ w with handles := w.handles.filter (· ≠ h) } : World) [] [] := .quiet rfl rfl rfl rfl
      exact h0.trans0 (.tau (senderGone_smove _))

/-- what follows the script event inside `step` -/
theorem step_tail_trH (w1 : World) (hi : OpsInv w1) :
    TrH w1 (let w := drain w1.drainFuel w1
      let w := if w.cfg.sweep then (let w := w.sweep; drain w.drainFuel w) else w
      if w.task ≠ .none ∧ w.reader ≠ [] then w.emit .stall else w) []
      (evSrcs (let w2 := drain w1.drainFuel w1
        drainEvs w1.drainFuel w1 ++
          (if w2.cfg.sweep then w2.sweepEvs ++ drainEvs w2.sweep.drainFuel w2.sweep else []))) := by
  simp only
  obtain ⟨h2, i2⟩ := drain_trH w1.drainFuel w1 hi
  generalize drain w1.drainFuel w1 = w2 at h2 i2 ⊢
  have h3 : TrH w2 (if w2.cfg.sweep = true then drain w2.sweep.drainFuel w2.sweep else w2) []
      (evSrcs (if w2.cfg.sweep = true then w2.sweepEvs ++ drainEvs w2.sweep.drainFuel w2.sweep else [])) := by
    split
    · obtain ⟨a, b⟩ := sweep_trH w2 i2
      rw [evSrcs_append]
      simpa using a.trans (drain_trH _ _ b).1
    · exact .refl w2
  generalize (if w2.cfg.sweep = true then drain w2.sweep.drainFuel w2.sweep else w2) = w3 at h3 ⊢
  rw [evSrcs_append]
  have h23 := h2.trans h3
  simp only [List.append_nil] at h23
  split
  · exact h23.trans1 (.tau (.tau rfl rfl (opsKeep_of_eq rfl) (outExtP_one .stall rfl ⟨nofun, nofun⟩)))
  · exact h23

/-- **one script step** -/
theorem step_trH (w : World) (e : Ev) (hi : OpsInv w) :
    ∃ iss, TrH w (w.step e) iss (evSrcs (w.stepEvs e)) ∧ (iss = [] ∨ ∃ id, evOpId e = some id ∧ iss = [id]) := by
  unfold step stepEvs
  split
  · exact ⟨[], .refl w, Or.inl rfl⟩
  · have m0 : TrH w (w.emit (.ev e)) [] [] :=
      .tau (.tau rfl rfl (opsKeep_of_eq rfl) (outExtP_one _ rfl (sq_ev e)))
    have hi0 := opsInv_emit w (.ev e) hi
    have hi1 : OpsInv ((w.emit (.ev e)).apply e) := by
      rcases apply_decomp (w.emit (.ev e)) e with ⟨id, h, req, _, ha⟩ | hm
      · exact hi0.addOp ha
      · exact hi0.moves hm
    obtain ⟨iss, ha, hiss⟩ := apply_trH (w.emit (.ev e)) e hi0
    refine ⟨iss, ?_, hiss⟩
    dsimp only
    rw [evSrcs_append]
    split
    · simpa using m0.trans0 ha
    · have := (m0.trans0 ha).trans (step_tail_trH _ hi1)
      simpa using this

/-- **a whole script** is a trace of stream moves issuing a sublist of the script's operation identifiers whose `.ctx`
    labels are exactly the effectful events of its history -/
theorem steps_trH (evs : List Ev) (w : World) (hi : OpsInv w) :
    ∃ iss, TrH w (evs.foldl step w) iss (evSrcs (scriptEvs w evs)) ∧ iss.Sublist (opIds evs) := by
  induction evs generalizing w with
  | nil => exact ⟨[], .refl w, by simp⟩
  | cons e t ih =>
    obtain ⟨i1, s1, a1⟩ := step_trH w e hi
    obtain ⟨i2, s2, a2⟩ := ih (w.step e) (hi.step e)
    refine ⟨i1 ++ i2, ?_, ?_⟩
    · simp only [List.foldl_cons, scriptEvs, evSrcs_append]
      exact s1.trans s2
    · have hsplit : opIds (e :: t) = (evOpId e).toList ++ opIds t := by
        simp only [opIds, List.filterMap_cons]
        cases evOpId e <;> rfl
      rw [hsplit]
      refine List.Sublist.append ?_ a2
      rcases a1 with a1 | ⟨id, h1, h2⟩
      · rw [a1]; exact List.nil_sublist _
      · rw [h1, h2]; exact List.Sublist.refl _

/-! ## what the trace delivers is what the handler calls of the history deliver -/

theorem w9_delivered_eq_srcs (id : Nat) (tr : List SLab) :
    delivered id tr = (ctxSrcs tr).flatMap fun s => deliversTo id s.effs := by
  induction tr with
  | nil => rfl
  | cons l t ih =>
    have hc : ctxSrcs (l :: t) = l.src?.toList ++ ctxSrcs t := by
      simp only [ctxSrcs, List.filterMap_cons]
      cases l.src? <;> rfl
    rw [delivered_cons, ih, hc, List.flatMap_append]
    congr 1
    cases l <;> simp [SLab.src?, SLab.effs]

end World

/-- the messages the event puts into channel `id`: those of the `deliver id` effects of a handler call -/
def HEv.gives (id : Nat) : HEv → List PublishRx
  | .handler c i => deliversTo id (c.stepIn i).2.effs
  | _ => []

namespace World

theorem w9_srcs_gives (id : Nat) (h : List HEv) :
    (evSrcs h).flatMap (fun s => deliversTo id s.effs) = h.flatMap (HEv.gives id) := by
  induction h with
  | nil => rfl
  | cons e t ih =>
    rw [evSrcs_cons, List.flatMap_append, ih, List.flatMap_cons]
    congr 1
    cases e with
    | handler c i => simp [HEv.src?, HEv.gives, CtxSrc.effs]
    | resume c => simp [HEv.src?, HEv.gives, CtxSrc.effs, deliversTo_resume]
    | dropCtx q c => simp [HEv.src?, HEv.gives, CtxSrc.effs, deliversTo_closeEffs]
    | fresh => simp [HEv.src?, HEv.gives, CtxSrc.effs]
    | _ => simp [HEv.src?, HEv.gives]

/-- **every script is a trace of stream moves whose context labels are the effectful events of its history**; with
    pairwise distinct `OP` identifiers it issues each identifier at most once, and what it delivers into a channel is what
    the handler calls of the history deliver into it -/
theorem script_trace_of_history (cfg : Cfg) (evs : List Ev) (hn : (opIds evs).Nodup) :
    ∃ tr, STrace { cfg := cfg } tr (evs.foldl step { cfg := cfg }) ∧ (issuedOf tr).Nodup ∧
      (issuedOf tr).Sublist (opIds evs) ∧ ctxSrcs tr = evSrcs (history cfg evs) ∧
      ∀ id, delivered id tr = (history cfg evs).flatMap (HEv.gives id) := by
  obtain ⟨iss, ⟨tr, st, hi, hs⟩, hsub⟩ := steps_trH evs { cfg := cfg } (OpsInv.init cfg)
  subst hi
  refine ⟨tr, st, hsub.nodup hn, hsub, hs, fun id => ?_⟩
  rw [w9_delivered_eq_srcs, hs]
  exact w9_srcs_gives id _

theorem sessionObs_snoc_handler (a : List HEv) (c : Ctx) (i : CIn) :
    sessionObs (a ++ [.handler c i]) = sessionObs a ++ [(c.stepIn i).2] := by
  unfold sessionObs
  rw [sessFrom_append]
  simp [sessFrom, HEv.resets, HEv.obs?]

theorem w9_flatMap_gives_remove (id : Nat) (a b : List HEv) (e : HEv) (h : e.gives id = []) :
    (a ++ e :: b).flatMap (HEv.gives id) = (a ++ b).flatMap (HEv.gives id) := by
  simp [List.flatMap_append, h]

end World
end Poster
