/-
  Lemmas/WorldHistEx.lean — concrete scripts, worlds and their histories, used by the non-vacuity examples of
  Properties/HistWorld.lean (work package W9). `decide` cannot evaluate the framing machine `pollNext`, so the scripts that
  feed bytes are evaluated stage by stage with the helper lemmas of Lemmas/WorldOpsEx.lean and their ghost counterparts.
-/
import PosterModel.Lemmas.WorldHistStream
import PosterModel.Lemmas.WorldOpsEx

set_option linter.unusedVariables false
set_option linter.unusedSimpArgs false

namespace Poster
open Framing

namespace World

/-! ## evaluating the ghost functions stage by stage -/

theorem drainEvs_pick (f : Nat) (w : World) (t : Task) (hf : 0 < f) (h : w.pick = some t) :
    drainEvs f w = w.taskEvs t ++ drainEvs (f - 1) (w.pollTask t) := by
  obtain ⟨f, rfl⟩ : ∃ g, f = g + 1 := ⟨f - 1, by omega⟩
  simp only [drainEvs, h, Nat.add_sub_cancel]

theorem drainEvs_none (f : Nat) (w : World) (h : w.pick = none) : drainEvs f w = [] := by
  cases f <;> simp only [drainEvs, h]

theorem stepEvs_eq (w : World) (e : Ev) (L : List HEv) (hb : w.bad = false)
    (hab : ((w.emit (.ev e)).apply e).bad = false) (hsw : w.cfg.sweep = false)
    (hL : (w.emit (.ev e)).applyEvs e ++
      drainEvs ((w.emit (.ev e)).apply e).drainFuel ((w.emit (.ev e)).apply e) = L) : w.stepEvs e = L := by
  have hs : (drain ((w.emit (.ev e)).apply e).drainFuel ((w.emit (.ev e)).apply e)).cfg.sweep = false := by
    rw [drain_cfg, apply_cfg, emit_cfg]; exact hsw
  unfold stepEvs
  simp only [hb, Bool.false_eq_true, ↓reduceIte, hab, hs, List.append_nil]
  exact hL

theorem taskEvs_ctx_running (w : World) (h : (w.unwake .ctx).task = .running true) :
    w.taskEvs .ctx = histEvs (w.unwake .ctx).c (loopHist (w.unwake .ctx).loopFuel (w.unwake .ctx)) := by
  show (w.unwake .ctx).ctxEvs = _
  rw [ctxEvs_running _ true h]; rfl

theorem taskEvs_ctx_start (w : World) (h : (w.unwake .ctx).task = .running false)
    (hc : (w.unwake .ctx).resumed.canWrite (((w.unwake .ctx).c.resume.2.2.map List.length).sum) = true) :
    w.taskEvs .ctx = .resume (w.unwake .ctx).c ::
      histEvs (w.unwake .ctx).c.resume.1 (loopHist (w.unwake .ctx).resent.loopFuel (w.unwake .ctx).resent) := by
  show (w.unwake .ctx).ctxEvs = _
  rw [ctxEvs_running _ false h]
  simp only [Bool.false_eq_true, ↓reduceIte, hc]

/-- the loop finds nothing to do: no handler is called -/
theorem w9_loopHist_idle (f : Nat) (w : World) (hq : w.queue = []) (hrx : w.rx = {}) (hrd : w.reader = []) :
    loopHist f w = [] := by
  cases f with
  | zero => rfl
  | succ f =>
    have : w.iterIn = none := by simp [iterIn, hq, hrx, hrd, pollNext_idle_nil]
    rw [loopHist_succ, this]

/-- nothing queued, a sender alive, exactly one whole frame at the transport which decodes to `p`: with the fuel of the
    poll, its history is that packet -/
theorem w9_loopHist_fuel_one_frame (w : World) (fr : Bytes) (p : RxPacket) (hq : w.queue = []) (hs : w.senders ≠ 0)
    (hp : pollNext w.rx w.reader = ({}, [], .item fr)) (hd : decodeRx fr = .ok p) :
    loopHist w.loopFuel w = [w.inPkt p] := by
  have : w.loopFuel = (w.queue.length + 2 * (evBytes w.reader + w.reader.length + w.rx.valid.length) + 2) + 2 := rfl
  rw [this]
  exact loopHist_one_frame _ w fr p hq hs hp hd

theorem w9_loopHist_fuel_one_msg (w : World) (m : Msg) (hq : w.queue = [m]) (hrx : w.rx = {}) (hrd : w.reader = []) :
    loopHist w.loopFuel w = [w.inMsg m] := by
  have : w.loopFuel = (w.queue.length + 2 * (evBytes w.reader + w.reader.length + w.rx.valid.length) + 2) + 2 := rfl
  rw [this]
  exact w9_loopHist_one_msg _ w m hq hrx hrd

theorem w9_pollTask_ctx_connecting (w : World) (call : Call) (t : ConnectTx) (a : AuthTx) (started : Bool)
    (h : (w.unwake .ctx).task = .connecting call t a started) :
    w.pollTask .ctx = (w.unwake .ctx).pollConnect call t a started := by
  show (w.unwake .ctx).pollCtx = _
  unfold pollCtx
  rw [h]

theorem taskEvs_ctx_connecting (w : World) (call : Call) (t : ConnectTx) (a : AuthTx) (started : Bool)
    (h : (w.unwake .ctx).task = .connecting call t a started) :
    w.taskEvs .ctx =
      if started then (w.unwake .ctx).firstEvs else
      if !reqValid call t a then [] else
        .request (w.unwake .ctx).c (reqSei call t) (W7.reqBytes call t a) ::
          (if (w.unwake .ctx).canWrite (W7.reqBytes call t a).length then
             ((W7.seiSet (w.unwake .ctx) call t).writeBytes (W7.reqBytes call t a)).firstEvs
           else []) := by
  show (w.unwake .ctx).ctxEvs = _
  simp only [ctxEvs, h]

theorem w9_pollConnect_true_eq (w : World) (call : Call) (t : ConnectTx) (a : AuthTx) :
    w.pollConnect call t a true = w.awaitFirst call t a := rfl

/-- nothing at the transport yet: `connect()` / `authorize()` stays pending -/
theorem w9_awaitFirst_idle (w : World) (call : Call) (t : ConnectTx) (a : AuthTx) (hrx : w.rx = {}) (hrd : w.reader = []) :
    w.awaitFirst call t a =
      { w with rx := {}, reader := [], task := .connecting call t a true, readerReg := true } := by
  unfold awaitFirst
  simp only [hrx, hrd, pn_nil, ↓reduceIte]

theorem firstEvs_idle (w : World) (hrx : w.rx = {}) (hrd : w.reader = []) : w.firstEvs = [] := by
  unfold firstEvs
  simp only [hrx, hrd, pn_nil]

/-- the CONNACK (accepted, subscription identifiers available) arrives as one whole frame -/
theorem w9_awaitFirst_connack (w : World) (call : Call) (t : ConnectTx) (a : AuthTx) (fr : Bytes) (k : ConnackRx)
    (hp : pollNext w.rx w.reader = ({}, [], .item fr)) (hd : decodeRx fr = .ok (.connack k)) (hr : ¬ k.reason ≥ 128)
    (hs : k.subIdAvail = true) :
    w.awaitFirst call t a =
      ({ w with rx := {}, reader := [], c := w.c.handleConnack k } : World).finish call (.connack k) := by
  unfold awaitFirst
  simp only [hp, hd, hr, ↓reduceIte, hs, Bool.not_true, Bool.false_eq_true]

theorem firstEvs_connack (w : World) (fr : Bytes) (k : ConnackRx)
    (hp : pollNext w.rx w.reader = ({}, [], .item fr)) (hd : decodeRx fr = .ok (.connack k)) :
    w.firstEvs = [.connack w.c k] := by
  unfold firstEvs
  simp only [hp, hd]

/-- the first poll of `run()`, the transport taking the re-sent packets: the prelude, then the loop -/
theorem w9_pollTask_ctx_first (w : World) (h : (w.unwake .ctx).task = .running false)
    (hc : (w.unwake .ctx).resumed.canWrite (((w.unwake .ctx).c.resume.2.2.map List.length).sum) = true) :
    w.pollTask .ctx = runLoop (w.unwake .ctx).resent.loopFuel (w.unwake .ctx).resent := by
  show (w.unwake .ctx).pollCtx = _
  unfold pollCtx
  rw [h]
  show (w.unwake .ctx).pollRun false = _
  rw [pollRun_first_eq, if_pos hc]

end World

namespace HistEx
open Ex World

/-! ## scripts evaluated by `decide` (no byte is ever read) -/

/-- a QoS 1 PUBLISH request -/
def pubQ1 : Req := .publish { topic := some [0x61], qos := 1 }
/-- a first connection without CONNECT: a QoS 1 PUBLISH and a DISCONNECT are requested, then `run()` serves both and
    returns -/
def scrA : List Ev := [.setup, .op 1 0 pubQ1, .op 2 0 (.disconnect {}), .run]
/-- … then the disconnection is recorded, a new transport is set up, `connect()` asks for a 60 s session (its write
    fails on this transport, which takes 12 bytes), another transport is set up, a DISCONNECT is requested and `run()` is
    called again: it resumes the session -/
def scrB : List Ev :=
  scrA ++ [.markDisc 5, .setup, .connect { clientId := [0x63], sessionExpiry := some 60 }, .setup,
    .op 3 0 (.disconnect {}), .run]
/-- the context after the PUBLISH was written: one waiter, one entry (DUP set) in the retransmit queue, one slot taken -/
def cPub : Ctx :=
  { awaiting := [(actionId 4 1, 2)], retx := [(actionId 4 1, [0x3A, 6, 0, 1, 0x61, 0, 1, 0])], quota := 65534 }

/-! ## a resumed session whose quota was re-armed by the CONNACK -/

/-- CONNACK with Receive Maximum 1 -/
def k1 : ConnackRx := { sessionPresent := true, reason := 0, receiveMax := 1 }
/-- a second QoS 1 PUBLISH (identifier 2), as queued by its handle future -/
def pub2 : Msg := .awaitAck (actionId 4 2) [0x32, 6, 0, 1, 0x61, 0, 2, 0] 4
/-- reconnected within the session: the CONNACK with Receive Maximum 1 has been handled (quota re-armed to 1), the QoS 1
    PUBLISH 1 is still unacknowledged, a disconnection 5 s ago is recorded, the session lasts 60 s -/
def cRe : Ctx :=
  { awaiting := [(actionId 4 1, 2)], retx := [(actionId 4 1, [0x3A, 6, 0, 1, 0x61, 0, 1, 0])], quota := 1, recvMax := 1,
    sei := 60, disc := some 5 }
/-- `run()` called on it and not polled yet, the second PUBLISH queued -/
def wRe : World :=
  { hasCtx := true, handles := [0], task := .running false, c := cRe, queue := [pub2],
    ops := [(1, .wait 2 .puback), (2, .wait 4 .puback)], slots := [(2, .empty), (4, .empty)], slotReg := [2, 4] }

/-- the first poll of `run()` in `wRe`: the prelude, then the handler call for the second PUBLISH -/
theorem wRe_evs : World.ctxEvs wRe = [.resume cRe, .handler { cRe with disc := none } (.msg pub2 true)] := by
  have h : World.loopHist 5 wRe.resent = [wRe.resent.inMsg pub2] :=
    World.w9_loopHist_one_msg 3 _ pub2 (by decide) (by decide) (by decide)
  have hf : wRe.resent.loopFuel = 5 := by decide
  have hi : wRe.resent.inMsg pub2 = .msg pub2 true := by decide
  have hc : wRe.resumed.canWrite ((wRe.c.resume.2.2.map List.length).sum) = true := by decide
  rw [World.ctxEvs_running _ false rfl]
  simp only [Bool.false_eq_true, ↓reduceIte, hc, hf, h, hi]
  rfl

/-! ## a script that reads bytes: an inbound QoS 2 message, its re-delivery, its release, and a new message -/

/-- PUBREL for packet identifier 9 -/
def pubrel9 : Bytes := [0x62, 2, 0, 9]
theorem dec_pubrel9 : decodeRx pubrel9 = .ok (.pubrel { packetId := 9 }) := by decide
theorem pn_pubrel9 : pollNext {} [.data pubrel9] = ({}, [], .item pubrel9) :=
  pollNext_whole pubrel9 (by decide) (by decide) (by decide)

/-- `run()` serves; the broker sends a QoS 2 PUBLISH (identifier 9), sends it again, releases it, and sends a new
    PUBLISH with the same identifier -/
def scrQ2 : List Ev := [.setup, .run, .feed [q2frame], .feed [q2frame], .feed [pubrel9], .feed [q2frame]]

/-- the context with identifier 9 pending -/
def c9 : Ctx := { inQos2 := [9] }

def t3 : World :=
  { s2 with c := c9, written := 4, out := s2.out ++ [.ev (.feed [q2frame]), .wire [0x50, 2, 0, 9]] }
def t4 : World :=
  { t3 with written := 8, out := t3.out ++ [.ev (.feed [q2frame]), .wire [0x50, 2, 0, 9]] }
def t5 : World :=
  { t4 with c := {}, written := 12, out := t4.out ++ [.ev (.feed [pubrel9]), .wire [0x70, 2, 0, 9]] }
def t6 : World :=
  { t5 with c := c9, written := 16, out := t5.out ++ [.ev (.feed [q2frame]), .wire [0x50, 2, 0, 9]] }

theorem q2stage3 : s2.step (.feed [q2frame]) = t3 := by
  refine step_eq s2 _ t3 (by decide) (by decide) ?_ (by decide) (by decide)
  rw [drain_pick _ _ .ctx (by decide) (by decide), pollTask_ctx_running _ (by decide),
    runLoop_pkt _ _ q2frame (.publish q2pub) (by decide) (by decide) (by decide) pn_q2 dec_q2 (by decide),
    runLoop_idle _ _ (by decide) (by decide) (by decide) (by decide) (by decide)]
  rw [drain_none _ _ (by decide)]
  decide

theorem q2stage4 : t3.step (.feed [q2frame]) = t4 := by
  refine step_eq t3 _ t4 (by decide) (by decide) ?_ (by decide) (by decide)
  rw [drain_pick _ _ .ctx (by decide) (by decide), pollTask_ctx_running _ (by decide),
    runLoop_pkt _ _ q2frame (.publish q2pub) (by decide) (by decide) (by decide) pn_q2 dec_q2 (by decide),
    runLoop_idle _ _ (by decide) (by decide) (by decide) (by decide) (by decide)]
  rw [drain_none _ _ (by decide)]
  decide

theorem q2stage5 : t4.step (.feed [pubrel9]) = t5 := by
  refine step_eq t4 _ t5 (by decide) (by decide) ?_ (by decide) (by decide)
  rw [drain_pick _ _ .ctx (by decide) (by decide), pollTask_ctx_running _ (by decide),
    runLoop_pkt _ _ pubrel9 (.pubrel { packetId := 9 }) (by decide) (by decide) (by decide) pn_pubrel9 dec_pubrel9
      (by decide),
    runLoop_idle _ _ (by decide) (by decide) (by decide) (by decide) (by decide)]
  rw [drain_none _ _ (by decide)]
  decide

theorem q2evs1 : ({} : World).stepEvs .setup = [.fresh] := by decide

theorem q2evs2 : s1.stepEvs .run = [.resume {}] := by
  refine stepEvs_eq s1 _ _ (by decide) (by decide) (by decide) ?_
  rw [drainEvs_pick _ _ .ctx (by decide) (by decide), taskEvs_ctx_start _ (by decide) (by decide),
    w9_loopHist_idle _ _ (by decide) (by decide) (by decide),
    pollTask_ctx_start _ (by decide) (by decide) (by decide),
    runLoop_idle _ _ (by decide) (by decide) (by decide) (by decide) (by decide),
    drainEvs_none _ _ (by decide)]
  decide

theorem q2evs3 : s2.stepEvs (.feed [q2frame]) = [.handler {} (.pkt (.publish q2pub) [] true)] := by
  refine stepEvs_eq s2 _ _ (by decide) (by decide) (by decide) ?_
  rw [drainEvs_pick _ _ .ctx (by decide) (by decide), taskEvs_ctx_running _ (by decide),
    w9_loopHist_fuel_one_frame _ q2frame (.publish q2pub) (by decide) (by decide) pn_q2 dec_q2,
    pollTask_ctx_running _ (by decide),
    runLoop_pkt _ _ q2frame (.publish q2pub) (by decide) (by decide) (by decide) pn_q2 dec_q2 (by decide),
    runLoop_idle _ _ (by decide) (by decide) (by decide) (by decide) (by decide),
    drainEvs_none _ _ (by decide)]
  decide

theorem q2evs4 : t3.stepEvs (.feed [q2frame]) = [.handler c9 (.pkt (.publish q2pub) [] true)] := by
  refine stepEvs_eq t3 _ _ (by decide) (by decide) (by decide) ?_
  rw [drainEvs_pick _ _ .ctx (by decide) (by decide), taskEvs_ctx_running _ (by decide),
    w9_loopHist_fuel_one_frame _ q2frame (.publish q2pub) (by decide) (by decide) pn_q2 dec_q2,
    pollTask_ctx_running _ (by decide),
    runLoop_pkt _ _ q2frame (.publish q2pub) (by decide) (by decide) (by decide) pn_q2 dec_q2 (by decide),
    runLoop_idle _ _ (by decide) (by decide) (by decide) (by decide) (by decide),
    drainEvs_none _ _ (by decide)]
  decide

theorem q2evs5 : t4.stepEvs (.feed [pubrel9]) = [.handler c9 (.pkt (.pubrel { packetId := 9 }) [] true)] := by
  refine stepEvs_eq t4 _ _ (by decide) (by decide) (by decide) ?_
  rw [drainEvs_pick _ _ .ctx (by decide) (by decide), taskEvs_ctx_running _ (by decide),
    w9_loopHist_fuel_one_frame _ pubrel9 (.pubrel { packetId := 9 }) (by decide) (by decide) pn_pubrel9 dec_pubrel9,
    pollTask_ctx_running _ (by decide),
    runLoop_pkt _ _ pubrel9 (.pubrel { packetId := 9 }) (by decide) (by decide) (by decide) pn_pubrel9 dec_pubrel9
      (by decide),
    runLoop_idle _ _ (by decide) (by decide) (by decide) (by decide) (by decide),
    drainEvs_none _ _ (by decide)]
  decide

theorem q2evs6 : t5.stepEvs (.feed [q2frame]) = [.handler {} (.pkt (.publish q2pub) [] true)] := by
  refine stepEvs_eq t5 _ _ (by decide) (by decide) (by decide) ?_
  rw [drainEvs_pick _ _ .ctx (by decide) (by decide), taskEvs_ctx_running _ (by decide),
    w9_loopHist_fuel_one_frame _ q2frame (.publish q2pub) (by decide) (by decide) pn_q2 dec_q2,
    pollTask_ctx_running _ (by decide),
    runLoop_pkt _ _ q2frame (.publish q2pub) (by decide) (by decide) (by decide) pn_q2 dec_q2 (by decide),
    runLoop_idle _ _ (by decide) (by decide) (by decide) (by decide) (by decide),
    drainEvs_none _ _ (by decide)]
  decide

/-- **the history of `scrQ2`**: creation, the prelude of `run()`, and one handler call per frame fed — the first PUBLISH
    in the fresh context, its re-delivery and the PUBREL with identifier 9 pending, the last PUBLISH with nothing pending -/
theorem scrQ2_history : World.history {} scrQ2 =
    [.fresh, .resume {}, .handler {} (.pkt (.publish q2pub) [] true), .handler c9 (.pkt (.publish q2pub) [] true),
     .handler c9 (.pkt (.pubrel { packetId := 9 }) [] true), .handler {} (.pkt (.publish q2pub) [] true)] := by
  show World.scriptEvs {} scrQ2 = _
  simp only [scrQ2, World.scriptEvs]
  rw [stage1, q2evs1, stage2, q2evs2, q2stage3, q2evs3, q2stage4, q2evs4, q2stage5, q2evs5, q2evs6]
  rfl

/-! ## a first connection: CONNECT, CONNACK, `run()`, a QoS 1 PUBLISH -/

/-- `connect()` with the default request, the broker's CONNACK, `run()`, then a QoS 1 PUBLISH is requested and served -/
def scrC : List Ev := [.setup, .connect {}, .feed [connackOk], .run, .op 1 0 pubQ1]

/-- the CONNECT packet of the default request -/
def connectBytes : Bytes := [16, 13, 0, 4, 77, 81, 84, 84, 5, 0, 0, 0, 0, 0, 0]

def u2 : World :=
  { s1 with task := .connecting .connect {} {} true, readerReg := true, written := 15,
            out := s1.out ++ [.ev (.connect {}), .wire connectBytes] }
def u3 : World :=
  { u2 with task := .none, readerReg := false,
            out := u2.out ++ [.ev (.feed [connackOk]), .ret .connect (.connack kOk)] }
def u4 : World :=
  { u3 with task := .running true, readerReg := true, queueReg := true, out := u3.out ++ [.ev .run] }

theorem cstage2 : s1.step (.connect {}) = u2 := by
  refine step_eq s1 _ u2 (by decide) (by decide) ?_ (by decide) (by decide)
  rw [drain_pick _ _ .ctx (by decide) (by decide), w9_pollTask_ctx_connecting _ .connect {} {} false (by decide),
    W7.pollConnect_false_eq, if_neg (by decide), if_pos (by decide), w9_awaitFirst_idle _ _ _ _ (by decide) (by decide)]
  rw [drain_none _ _ (by decide)]
  decide

theorem cstage3 : u2.step (.feed [connackOk]) = u3 := by
  refine step_eq u2 _ u3 (by decide) (by decide) ?_ (by decide) (by decide)
  rw [drain_pick _ _ .ctx (by decide) (by decide), w9_pollTask_ctx_connecting _ .connect {} {} true (by decide),
    w9_pollConnect_true_eq, w9_awaitFirst_connack _ _ _ _ connackOk kOk pn_connackOk dec_connackOk (by decide) (by decide)]
  rw [drain_none _ _ (by decide)]
  decide

theorem cstage4 : u3.step .run = u4 := by
  refine step_eq u3 .run u4 (by decide) (by decide) ?_ (by decide) (by decide)
  rw [drain_pick _ _ .ctx (by decide) (by decide),
    pollTask_ctx_start _ (by decide) (by decide) (by decide),
    runLoop_idle _ _ (by decide) (by decide) (by decide) (by decide) (by decide)]
  rw [drain_none _ _ (by decide)]
  decide

theorem cevs2 : s1.stepEvs (.connect {}) = [.request {} (some 0) connectBytes] := by
  refine stepEvs_eq s1 _ _ (by decide) (by decide) (by decide) ?_
  rw [drainEvs_pick _ _ .ctx (by decide) (by decide), taskEvs_ctx_connecting _ .connect {} {} false (by decide),
    if_neg (by decide), if_neg (by decide), if_pos (by decide), firstEvs_idle _ (by decide) (by decide),
    w9_pollTask_ctx_connecting _ .connect {} {} false (by decide),
    W7.pollConnect_false_eq, if_neg (by decide), if_pos (by decide), w9_awaitFirst_idle _ _ _ _ (by decide) (by decide),
    drainEvs_none _ _ (by decide)]
  decide

theorem cevs3 : u2.stepEvs (.feed [connackOk]) = [.connack {} kOk] := by
  refine stepEvs_eq u2 _ _ (by decide) (by decide) (by decide) ?_
  rw [drainEvs_pick _ _ .ctx (by decide) (by decide), taskEvs_ctx_connecting _ .connect {} {} true (by decide),
    if_pos rfl, firstEvs_connack _ connackOk kOk pn_connackOk dec_connackOk,
    w9_pollTask_ctx_connecting _ .connect {} {} true (by decide),
    w9_pollConnect_true_eq, w9_awaitFirst_connack _ _ _ _ connackOk kOk pn_connackOk dec_connackOk (by decide) (by decide),
    drainEvs_none _ _ (by decide)]
  decide

theorem cevs4 : u3.stepEvs .run = [.resume {}] := by
  refine stepEvs_eq u3 _ _ (by decide) (by decide) (by decide) ?_
  rw [drainEvs_pick _ _ .ctx (by decide) (by decide), taskEvs_ctx_start _ (by decide) (by decide),
    w9_loopHist_idle _ _ (by decide) (by decide) (by decide),
    pollTask_ctx_start _ (by decide) (by decide) (by decide),
    runLoop_idle _ _ (by decide) (by decide) (by decide) (by decide) (by decide),
    drainEvs_none _ _ (by decide)]
  decide

theorem cevs5 : u4.stepEvs (.op 1 0 pubQ1) =
    [.handler {} (.msg (.awaitAck (actionId 4 1) [0x32, 6, 0, 1, 0x61, 0, 1, 0] 2) true)] := by
  refine stepEvs_eq u4 _ _ (by decide) (by decide) (by decide) ?_
  rw [drainEvs_pick _ _ (.op 1) (by decide) (by decide), drainEvs_pick _ _ .ctx (by decide) (by decide),
    taskEvs_ctx_running _ (by decide),
    w9_loopHist_fuel_one_msg _ (.awaitAck (actionId 4 1) [50, 6, 0, 1, 97, 0, 1, 0] 2) (by decide) (by decide) (by decide),
    pollTask_ctx_running _ (by decide),
    runLoop_msg _ _ (.awaitAck (actionId 4 1) [50, 6, 0, 1, 97, 0, 1, 0] 2) [] (by decide) (by decide) (by decide),
    runLoop_idle _ _ (by decide) (by decide) (by decide) (by decide) (by decide),
    drainEvs_none _ _ (by decide)]
  decide

/-- **the history of `scrC`**: creation, the CONNECT request (session expiry 0 recorded), the CONNACK, the prelude of
    `run()`, the handler call for the PUBLISH -/
theorem scrC_history : World.history {} scrC =
    [.fresh, .request {} (some 0) connectBytes, .connack {} kOk, .resume {},
     .handler {} (.msg (.awaitAck (actionId 4 1) [0x32, 6, 0, 1, 0x61, 0, 1, 0] 2) true)] := by
  show World.scriptEvs {} scrC = _
  simp only [scrC, World.scriptEvs]
  rw [stage1, q2evs1, cstage2, cevs2, cstage3, cevs3, cstage4, cevs4, cevs5]
  rfl

/-! ## a reconnect within the session, Receive Maximum 1: the quota is re-armed while the re-sent PUBLISH is in flight -/

/-- CONNECT asking for a 60 s session -/
def t60 : ConnectTx := { sessionExpiry := some 60 }
/-- its packet -/
def connect60 : Bytes := [16, 18, 0, 4, 77, 81, 84, 84, 5, 0, 0, 0, 5, 17, 0, 0, 0, 60, 0, 0]
/-- CONNACK, reason 0, Receive Maximum 1 -/
def connackR1 : Bytes := [0x20, 6, 0, 0, 3, 0x21, 0, 1]
def kR1 : ConnackRx := { sessionPresent := false, reason := 0, receiveMax := 1 }
theorem dec_connackR1 : decodeRx connackR1 = .ok (.connack kR1) := by decide
theorem pn_connackR1 : pollNext {} [.data connackR1] = ({}, [], .item connackR1) :=
  pollNext_whole connackR1 (by decide) (by decide) (by decide)

/-- connect, CONNACK (Receive Maximum 1), `run()`, a QoS 1 PUBLISH is served (the only slot is taken); `run()` is
    cancelled, the disconnection is recorded, a new transport is set up, connect again, CONNACK (Receive Maximum 1) again,
    a second QoS 1 PUBLISH is requested, `run()` is called -/
def scrR : List Ev :=
  [.setup, .connect t60, .feed [connackR1], .run, .op 1 0 pubQ1, .dropFut, .markDisc 5, .setup, .connect t60,
   .feed [connackR1], .op 2 0 pubQ1, .run]

def c60 : Ctx := { sei := 60 }
def c60k : Ctx := { sei := 60, quota := 1, recvMax := 1 }
/-- PUBLISH 1 written: the only slot taken -/
def c60p : Ctx :=
  { awaiting := [(actionId 4 1, 2)], retx := [(actionId 4 1, [0x3A, 6, 0, 1, 0x61, 0, 1, 0])], quota := 0, recvMax := 1,
    sei := 60 }

def r2 : World :=
  { s1 with task := .connecting .connect t60 {} true, c := c60, readerReg := true, written := 20,
            out := s1.out ++ [.ev (.connect t60), .wire connect60] }
def r3 : World :=
  { r2 with task := .none, c := c60k, readerReg := false,
            out := r2.out ++ [.ev (.feed [connackR1]), .ret .connect (.connack kR1)] }
def r4 : World :=
  { r3 with task := .running true, readerReg := true, queueReg := true, out := r3.out ++ [.ev .run] }
def r5 : World :=
  { r4 with c := c60p, ops := [(1, .wait 2 .puback)], slots := [(2, .empty)], slotReg := [2], pidCtr := 2,
            written := 28, out := r4.out ++ [.ev (.op 1 0 pubQ1), .wire [0x32, 6, 0, 1, 0x61, 0, 1, 0]] }
def r6 : World := { r5 with task := .none, out := r5.out ++ [.ev .dropFut] }
def r7 : World := { r6 with c := { c60p with disc := some 5 }, out := r6.out ++ [.ev (.markDisc 5)] }
def r8 : World := { r7 with readerReg := false, written := 0, out := r7.out ++ [.ev .setup] }
def r9 : World :=
  { r8 with task := .connecting .connect t60 {} true, readerReg := true, written := 20,
            out := r8.out ++ [.ev (.connect t60), .wire connect60] }
def r10 : World :=
  { r9 with task := .none, c := cRe, readerReg := false,
            out := r9.out ++ [.ev (.feed [connackR1]), .ret .connect (.connack kR1)] }
def r11 : World :=
  { r10 with queue := [pub2], queueReg := false, ops := [(1, .wait 2 .puback), (2, .wait 4 .puback)],
             slots := [(2, .empty), (4, .empty)], slotReg := [2, 4], pidCtr := 3, woken := [.ctx],
             out := r10.out ++ [.ev (.op 2 0 pubQ1)] }

theorem rstage2 : s1.step (.connect t60) = r2 := by
  refine step_eq s1 _ r2 (by decide) (by decide) ?_ (by decide) (by decide)
  rw [drain_pick _ _ .ctx (by decide) (by decide), w9_pollTask_ctx_connecting _ .connect t60 {} false (by decide),
    W7.pollConnect_false_eq, if_neg (by decide), if_pos (by decide), w9_awaitFirst_idle _ _ _ _ (by decide) (by decide)]
  rw [drain_none _ _ (by decide)]
  decide

theorem rstage3 : r2.step (.feed [connackR1]) = r3 := by
  refine step_eq r2 _ r3 (by decide) (by decide) ?_ (by decide) (by decide)
  rw [drain_pick _ _ .ctx (by decide) (by decide), w9_pollTask_ctx_connecting _ .connect t60 {} true (by decide),
    w9_pollConnect_true_eq,
    w9_awaitFirst_connack _ _ _ _ connackR1 kR1 pn_connackR1 dec_connackR1 (by decide) (by decide)]
  rw [drain_none _ _ (by decide)]
  decide

theorem rstage4 : r3.step .run = r4 := by
  refine step_eq r3 .run r4 (by decide) (by decide) ?_ (by decide) (by decide)
  rw [drain_pick _ _ .ctx (by decide) (by decide),
    pollTask_ctx_start _ (by decide) (by decide) (by decide),
    runLoop_idle _ _ (by decide) (by decide) (by decide) (by decide) (by decide)]
  rw [drain_none _ _ (by decide)]
  decide

theorem rstage5 : r4.step (.op 1 0 pubQ1) = r5 := by
  refine step_eq r4 _ r5 (by decide) (by decide) ?_ (by decide) (by decide)
  rw [drain_pick _ _ (.op 1) (by decide) (by decide), drain_pick _ _ .ctx (by decide) (by decide),
    pollTask_ctx_running _ (by decide),
    runLoop_msg _ _ (.awaitAck (actionId 4 1) [50, 6, 0, 1, 97, 0, 1, 0] 2) [] (by decide) (by decide) (by decide),
    runLoop_idle _ _ (by decide) (by decide) (by decide) (by decide) (by decide)]
  rw [drain_none _ _ (by decide)]
  decide

theorem rstage6 : r5.step .dropFut = r6 := by decide
theorem rstage7 : r6.step (.markDisc 5) = r7 := by decide
theorem rstage8 : r7.step .setup = r8 := by decide

theorem rstage9 : r8.step (.connect t60) = r9 := by
  refine step_eq r8 _ r9 (by decide) (by decide) ?_ (by decide) (by decide)
  rw [drain_pick _ _ .ctx (by decide) (by decide), w9_pollTask_ctx_connecting _ .connect t60 {} false (by decide),
    W7.pollConnect_false_eq, if_neg (by decide), if_pos (by decide), w9_awaitFirst_idle _ _ _ _ (by decide) (by decide)]
  rw [drain_none _ _ (by decide)]
  decide

theorem rstage10 : r9.step (.feed [connackR1]) = r10 := by
  refine step_eq r9 _ r10 (by decide) (by decide) ?_ (by decide) (by decide)
  rw [drain_pick _ _ .ctx (by decide) (by decide), w9_pollTask_ctx_connecting _ .connect t60 {} true (by decide),
    w9_pollConnect_true_eq,
    w9_awaitFirst_connack _ _ _ _ connackR1 kR1 pn_connackR1 dec_connackR1 (by decide) (by decide)]
  rw [drain_none _ _ (by decide)]
  decide

theorem rstage11 : r10.step (.op 2 0 pubQ1) = r11 := by decide

theorem revs2 : s1.stepEvs (.connect t60) = [.request {} (some 60) connect60] := by
  refine stepEvs_eq s1 _ _ (by decide) (by decide) (by decide) ?_
  rw [drainEvs_pick _ _ .ctx (by decide) (by decide), taskEvs_ctx_connecting _ .connect t60 {} false (by decide),
    if_neg (by decide), if_neg (by decide), if_pos (by decide), firstEvs_idle _ (by decide) (by decide),
    w9_pollTask_ctx_connecting _ .connect t60 {} false (by decide),
    W7.pollConnect_false_eq, if_neg (by decide), if_pos (by decide), w9_awaitFirst_idle _ _ _ _ (by decide) (by decide),
    drainEvs_none _ _ (by decide)]
  decide

theorem revs3 : r2.stepEvs (.feed [connackR1]) = [.connack c60 kR1] := by
  refine stepEvs_eq r2 _ _ (by decide) (by decide) (by decide) ?_
  rw [drainEvs_pick _ _ .ctx (by decide) (by decide), taskEvs_ctx_connecting _ .connect t60 {} true (by decide),
    if_pos rfl, firstEvs_connack _ connackR1 kR1 pn_connackR1 dec_connackR1,
    w9_pollTask_ctx_connecting _ .connect t60 {} true (by decide),
    w9_pollConnect_true_eq,
    w9_awaitFirst_connack _ _ _ _ connackR1 kR1 pn_connackR1 dec_connackR1 (by decide) (by decide),
    drainEvs_none _ _ (by decide)]
  decide

theorem revs4 : r3.stepEvs .run = [.resume c60k] := by
  refine stepEvs_eq r3 _ _ (by decide) (by decide) (by decide) ?_
  rw [drainEvs_pick _ _ .ctx (by decide) (by decide), taskEvs_ctx_start _ (by decide) (by decide),
    w9_loopHist_idle _ _ (by decide) (by decide) (by decide),
    pollTask_ctx_start _ (by decide) (by decide) (by decide),
    runLoop_idle _ _ (by decide) (by decide) (by decide) (by decide) (by decide),
    drainEvs_none _ _ (by decide)]
  decide

theorem revs5 : r4.stepEvs (.op 1 0 pubQ1) =
    [.handler c60k (.msg (.awaitAck (actionId 4 1) [0x32, 6, 0, 1, 0x61, 0, 1, 0] 2) true)] := by
  refine stepEvs_eq r4 _ _ (by decide) (by decide) (by decide) ?_
  rw [drainEvs_pick _ _ (.op 1) (by decide) (by decide), drainEvs_pick _ _ .ctx (by decide) (by decide),
    taskEvs_ctx_running _ (by decide),
    w9_loopHist_fuel_one_msg _ (.awaitAck (actionId 4 1) [50, 6, 0, 1, 97, 0, 1, 0] 2) (by decide) (by decide)
      (by decide),
    pollTask_ctx_running _ (by decide),
    runLoop_msg _ _ (.awaitAck (actionId 4 1) [50, 6, 0, 1, 97, 0, 1, 0] 2) [] (by decide) (by decide) (by decide),
    runLoop_idle _ _ (by decide) (by decide) (by decide) (by decide) (by decide),
    drainEvs_none _ _ (by decide)]
  decide

theorem revs6 : r5.stepEvs .dropFut = [] := by decide
theorem revs7 : r6.stepEvs (.markDisc 5) = [.disc c60p 5] := by decide
theorem revs8 : r7.stepEvs .setup = [] := by decide

theorem revs9 : r8.stepEvs (.connect t60) = [.request { c60p with disc := some 5 } (some 60) connect60] := by
  refine stepEvs_eq r8 _ _ (by decide) (by decide) (by decide) ?_
  rw [drainEvs_pick _ _ .ctx (by decide) (by decide), taskEvs_ctx_connecting _ .connect t60 {} false (by decide),
    if_neg (by decide), if_neg (by decide), if_pos (by decide), firstEvs_idle _ (by decide) (by decide),
    w9_pollTask_ctx_connecting _ .connect t60 {} false (by decide),
    W7.pollConnect_false_eq, if_neg (by decide), if_pos (by decide), w9_awaitFirst_idle _ _ _ _ (by decide) (by decide),
    drainEvs_none _ _ (by decide)]
  decide

theorem revs10 : r9.stepEvs (.feed [connackR1]) = [.connack { c60p with disc := some 5 } kR1] := by
  refine stepEvs_eq r9 _ _ (by decide) (by decide) (by decide) ?_
  rw [drainEvs_pick _ _ .ctx (by decide) (by decide), taskEvs_ctx_connecting _ .connect t60 {} true (by decide),
    if_pos rfl, firstEvs_connack _ connackR1 kR1 pn_connackR1 dec_connackR1,
    w9_pollTask_ctx_connecting _ .connect t60 {} true (by decide),
    w9_pollConnect_true_eq,
    w9_awaitFirst_connack _ _ _ _ connackR1 kR1 pn_connackR1 dec_connackR1 (by decide) (by decide),
    drainEvs_none _ _ (by decide)]
  decide

theorem revs11 : r10.stepEvs (.op 2 0 pubQ1) = [] := by decide

theorem revs12 : r11.stepEvs .run = [.resume cRe, .handler { cRe with disc := none } (.msg pub2 true)] := by
  refine stepEvs_eq r11 _ _ (by decide) (by decide) (by decide) ?_
  rw [drainEvs_pick _ _ .ctx (by decide) (by decide), taskEvs_ctx_start _ (by decide) (by decide),
    w9_loopHist_fuel_one_msg _ pub2 (by decide) (by decide) (by decide),
    w9_pollTask_ctx_first _ (by decide) (by decide),
    runLoop_msg _ _ pub2 [] (by decide) (by decide) (by decide),
    runLoop_idle _ _ (by decide) (by decide) (by decide) (by decide) (by decide),
    drainEvs_none _ _ (by decide)]
  decide

/-- **the history of `scrR`** -/
theorem scrR_history : World.history {} scrR =
    [.fresh, .request {} (some 60) connect60, .connack c60 kR1, .resume c60k,
     .handler c60k (.msg (.awaitAck (actionId 4 1) [0x32, 6, 0, 1, 0x61, 0, 1, 0] 2) true),
     .disc c60p 5, .request { c60p with disc := some 5 } (some 60) connect60,
     .connack { c60p with disc := some 5 } kR1, .resume cRe,
     .handler { cRe with disc := none } (.msg pub2 true)] := by
  show World.scriptEvs {} scrR = _
  simp only [scrR, World.scriptEvs]
  rw [stage1, q2evs1, rstage2, revs2, rstage3, revs3, rstage4, revs4, rstage5, revs5, rstage6, revs6, rstage7, revs7,
    rstage8, revs8, rstage9, revs9, rstage10, revs10, rstage11, revs11, revs12]
  rfl

end HistEx
end Poster
