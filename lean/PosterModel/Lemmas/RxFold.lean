/-
  Lemmas/RxFold.lean — what each builder holds after a legal property list has been folded into it (C02).

  For every packet type: folding `step` over a list that satisfies `propsOk` (only the type's identifiers, legal values,
  no identifier twice except the repeatable ones) succeeds, and each field of the result is the value found in the
  list under the field's identifier (the previous value where there is none); repeatable properties are appended in
  wire order.
-/
import PosterModel.Lemmas.CodecRx

set_option linter.unusedSimpArgs false

namespace Poster
open Spec Spec.Server

/-- the identifier of the head does not occur in the tail (unless it is repeatable) -/
theorem uniq_head {multi : List Nat} {i : Nat} {ps : List Property}
    (hu : multi.contains i = true ∨ (ps.all fun q => q.id != i) = true) (hm : ¬ multi.contains i = true) :
    (ps.all fun q => q.id != i) = true := hu.resolve_left hm

theorem foldO_ack (ps : List Property) (h : propsOk ackPropIds [38] ps = true) (b : AckRx) :
    foldO AckRx.step b ps = some
      { packetId := b.packetId, reason := b.reason
        reasonString := (getBytes 31 ps).or b.reasonString
        userProps := b.userProps ++ users ps } := by
  induction ps generalizing b with
  | nil => simp [foldO]
  | cons p ps ih =>
    obtain ⟨hl, hv, hu, hps⟩ := propsOk_cons h
    obtain ⟨id, v⟩ := p
    simp only [ackPropIds, List.contains_cons, List.contains_nil, Bool.or_false, Bool.or_eq_true, beq_iff_eq] at hl
    rcases hl with rfl | rfl
    all_goals
      simp only [valOk] at hv
      cases v <;> simp only [isFlag, isNum, isSubId, isStr, isBin, isPair, Bool.false_eq_true] at hv
    all_goals rcases hu with hu | hn
    all_goals first
      | (simp at hu; done)
      | (simp [foldO, AckRx.step, ih hps, getBool_none hn, getNum_none hn, getBytes_none hn, getBool_cons_ne,
           getNum_cons_ne, getBytes_cons_ne, users_cons_ne, subIds_cons_ne]
         done)
      | (simp [foldO, AckRx.step, ih hps, getBool_cons_ne, getNum_cons_ne, getBytes_cons_ne, users_cons_ne,
           subIds_cons_ne]
         done)

theorem foldO_suback (ps : List Property) (h : propsOk subackPropIds [38] ps = true) (b : SubackRx) :
    foldO SubackRx.step b ps = some
      { packetId := b.packetId, payload := b.payload
        reasonString := (getBytes 31 ps).or b.reasonString
        userProps := b.userProps ++ users ps } := by
  induction ps generalizing b with
  | nil => simp [foldO]
  | cons p ps ih =>
    obtain ⟨hl, hv, hu, hps⟩ := propsOk_cons h
    obtain ⟨id, v⟩ := p
    simp only [subackPropIds, List.contains_cons, List.contains_nil, Bool.or_false, Bool.or_eq_true, beq_iff_eq] at hl
    rcases hl with rfl | rfl
    all_goals
      simp only [valOk] at hv
      cases v <;> simp only [isFlag, isNum, isSubId, isStr, isBin, isPair, Bool.false_eq_true] at hv
    all_goals rcases hu with hu | hn
    all_goals first
      | (simp at hu; done)
      | (simp [foldO, SubackRx.step, ih hps, getBool_none hn, getNum_none hn, getBytes_none hn, getBool_cons_ne,
           getNum_cons_ne, getBytes_cons_ne, users_cons_ne, subIds_cons_ne]
         done)
      | (simp [foldO, SubackRx.step, ih hps, getBool_cons_ne, getNum_cons_ne, getBytes_cons_ne, users_cons_ne,
           subIds_cons_ne]
         done)

theorem foldO_disconnect (ps : List Property) (h : propsOk disconnectPropIds [38] ps = true) (b : DisconnectRx) :
    foldO DisconnectRx.step b ps = some
      { reason := b.reason, sessionExpiry := b.sessionExpiry
        reasonString := (getBytes 31 ps).or b.reasonString
        serverReference := (getBytes 28 ps).or b.serverReference
        userProps := b.userProps ++ users ps } := by
  induction ps generalizing b with
  | nil => simp [foldO]
  | cons p ps ih =>
    obtain ⟨hl, hv, hu, hps⟩ := propsOk_cons h
    obtain ⟨id, v⟩ := p
    simp only [disconnectPropIds, List.contains_cons, List.contains_nil, Bool.or_false, Bool.or_eq_true, beq_iff_eq] at hl
    rcases hl with rfl | rfl | rfl
    all_goals
      simp only [valOk] at hv
      cases v <;> simp only [isFlag, isNum, isSubId, isStr, isBin, isPair, Bool.false_eq_true] at hv
    all_goals rcases hu with hu | hn
    all_goals first
      | (simp at hu; done)
      | (simp [foldO, DisconnectRx.step, ih hps, getBool_none hn, getNum_none hn, getBytes_none hn, getBool_cons_ne,
           getNum_cons_ne, getBytes_cons_ne, users_cons_ne, subIds_cons_ne]
         done)
      | (simp [foldO, DisconnectRx.step, ih hps, getBool_cons_ne, getNum_cons_ne, getBytes_cons_ne, users_cons_ne,
           subIds_cons_ne]
         done)

theorem foldO_auth (ps : List Property) (h : propsOk authPropIds [38] ps = true) (b : AuthRx) :
    foldO AuthRx.step b ps = some
      { reason := b.reason
        authMethod := (getBytes 21 ps).or b.authMethod
        authData := (getBytes 22 ps).or b.authData
        reasonString := (getBytes 31 ps).or b.reasonString
        userProps := b.userProps ++ users ps } := by
  induction ps generalizing b with
  | nil => simp [foldO]
  | cons p ps ih =>
    obtain ⟨hl, hv, hu, hps⟩ := propsOk_cons h
    obtain ⟨id, v⟩ := p
    simp only [authPropIds, List.contains_cons, List.contains_nil, Bool.or_false, Bool.or_eq_true, beq_iff_eq] at hl
    rcases hl with rfl | rfl | rfl | rfl
    all_goals
      simp only [valOk] at hv
      cases v <;> simp only [isFlag, isNum, isSubId, isStr, isBin, isPair, Bool.false_eq_true] at hv
    all_goals rcases hu with hu | hn
    all_goals first
      | (simp at hu; done)
      | (simp [foldO, AuthRx.step, ih hps, getBool_none hn, getNum_none hn, getBytes_none hn, getBool_cons_ne,
           getNum_cons_ne, getBytes_cons_ne, users_cons_ne, subIds_cons_ne]
         done)
      | (simp [foldO, AuthRx.step, ih hps, getBool_cons_ne, getNum_cons_ne, getBytes_cons_ne, users_cons_ne,
           subIds_cons_ne]
         done)

theorem foldO_publish (ps : List Property) (h : propsOk publishPropIds [38, 11] ps = true) (b : PublishRx) :
    foldO PublishRx.step b ps = some
      { dup := b.dup, retain := b.retain, qos := b.qos, topic := b.topic, packetId := b.packetId, payload := b.payload
        pfi := (getBool 1 ps).or b.pfi
        topicAlias := (getNum 35 ps).or b.topicAlias
        mei := (getNum 2 ps).or b.mei
        subIds := b.subIds ++ subIds ps
        correlationData := (getBytes 9 ps).or b.correlationData
        responseTopic := (getBytes 8 ps).or b.responseTopic
        contentType := (getBytes 3 ps).or b.contentType
        userProps := b.userProps ++ users ps } := by
  induction ps generalizing b with
  | nil => simp [foldO]
  | cons p ps ih =>
    obtain ⟨hl, hv, hu, hps⟩ := propsOk_cons h
    obtain ⟨id, v⟩ := p
    simp only [publishPropIds, List.contains_cons, List.contains_nil, Bool.or_false, Bool.or_eq_true, beq_iff_eq] at hl
    rcases hl with rfl | rfl | rfl | rfl | rfl | rfl | rfl | rfl
    all_goals
      simp only [valOk] at hv
      cases v <;> simp only [isFlag, isNum, isSubId, isStr, isBin, isPair, Bool.false_eq_true] at hv
    all_goals rcases hu with hu | hn
    all_goals first
      | (simp at hu; done)
      | (simp [foldO, PublishRx.step, ih hps, getBool_none hn, getNum_none hn, getBytes_none hn, getBool_cons_ne,
           getNum_cons_ne, getBytes_cons_ne, users_cons_ne, subIds_cons_ne]
         done)
      | (simp [foldO, PublishRx.step, ih hps, getBool_cons_ne, getNum_cons_ne, getBytes_cons_ne, users_cons_ne,
           subIds_cons_ne]
         done)

theorem foldO_connack (ps : List Property) (h : propsOk connackPropIds [38] ps = true) (b : ConnackRx) :
    foldO ConnackRx.step b ps = some
      { sessionPresent := b.sessionPresent, reason := b.reason
        wildcardSubAvail := (getBool 40 ps).getD b.wildcardSubAvail
        subIdAvail := (getBool 41 ps).getD b.subIdAvail
        sharedSubAvail := (getBool 42 ps).getD b.sharedSubAvail
        maxQos := (getNum 36 ps).getD b.maxQos
        retainAvail := (getBool 37 ps).getD b.retainAvail
        serverKeepAlive := (getNum 19 ps).or b.serverKeepAlive
        receiveMax := (getNum 33 ps).getD b.receiveMax
        topicAliasMax := (getNum 34 ps).getD b.topicAliasMax
        sessionExpiry := (getNum 17 ps).or b.sessionExpiry
        maxPacketSize := (getNum 39 ps).or b.maxPacketSize
        authData := (getBytes 22 ps).or b.authData
        assignedClientId := (getBytes 18 ps).or b.assignedClientId
        reasonString := (getBytes 31 ps).or b.reasonString
        responseInfo := (getBytes 26 ps).or b.responseInfo
        serverReference := (getBytes 28 ps).or b.serverReference
        authMethod := (getBytes 21 ps).or b.authMethod
        userProps := b.userProps ++ users ps } := by
  induction ps generalizing b with
  | nil => simp [foldO]
  | cons p ps ih =>
    obtain ⟨hl, hv, hu, hps⟩ := propsOk_cons h
    obtain ⟨id, v⟩ := p
    simp only [connackPropIds, List.contains_cons, List.contains_nil, Bool.or_false, Bool.or_eq_true, beq_iff_eq] at hl
    rcases hl with rfl | rfl | rfl | rfl | rfl | rfl | rfl | rfl | rfl | rfl | rfl | rfl | rfl | rfl | rfl | rfl | rfl
    all_goals
      simp only [valOk] at hv
      cases v <;> simp only [isFlag, isNum, isSubId, isStr, isBin, isPair, Bool.false_eq_true] at hv
    all_goals rcases hu with hu | hn
    all_goals first
      | (simp at hu; done)
      | (simp [foldO, ConnackRx.step, ih hps, getBool_none hn, getNum_none hn, getBytes_none hn, getBool_cons_ne,
           getNum_cons_ne, getBytes_cons_ne, users_cons_ne, subIds_cons_ne]
         done)
      | (simp [foldO, ConnackRx.step, ih hps, getBool_cons_ne, getNum_cons_ne, getBytes_cons_ne, users_cons_ne,
           subIds_cons_ne]
         done)

end Poster
