/-
  Lemmas/WorldStreamStep.lean — script events, the executor and whole script steps as sequences of stream moves
  (continuation of Lemmas/WorldStreamDec.lean), and the trace of a whole script.
-/
import PosterModel.Lemmas.WorldStreamDec

set_option linter.unusedVariables false
set_option linter.unusedSimpArgs false

namespace Poster
open Framing
namespace World

/-! ## dropping the context -/

theorem w8_foldl_chans {α} (step : World → α → World) (g : α → List Eff)
    (hstep : ∀ w x, (step w x).chans = chEffs w.chans (g x)) (l : List α) (w : World) :
    (l.foldl step w).chans = chEffs w.chans (l.flatMap g) := by
  induction l generalizing w with
  | nil => rfl
  | cons x t ih => rw [List.foldl_cons, ih, hstep, List.flatMap_cons, chEffs_append]

theorem w8_flatMap_single {α β} (f : α → β) (l : List α) : l.flatMap (fun x => [f x]) = l.map f := by
  induction l with
  | nil => rfl
  | cons x t ih => simp [List.flatMap_cons, ih]

theorem closeMsg_chans (w : World) (m : Msg) : (closeMsg w m).chans = chEffs w.chans (closeMsgEffs m) := by
  cases m with
  | ff pkt s => exact (User.dropSlotTx_chans w s).1
  | awaitAck aid pkt s => exact (User.dropSlotTx_chans w s).1
  | subscribe aid sid pkt s ch =>
    show ((w.dropSlotTx s).dropChanTx ch).chans = _
    rw [dropChanTx_chans_eq, (User.dropSlotTx_chans w s).1]
    rfl

/-- the senders dropped with the context, as effects on the channel table -/
theorem dropCtxClosed_chans (w : World) : (dropCtxClosed w).chans = chEffs w.chans (closeEffs w.queue w.c) := by
  unfold dropCtxClosed closeEffs
  rw [w8_foldl_chans (fun (w : World) (e : Nat × Nat) => w.dropChanTx e.2) (fun e => [Eff.dropChan e.2])
      (fun w e => by rw [dropChanTx_chans_eq]; rfl),
    w8_foldl_chans (fun (w : World) (e : Nat × Nat) => w.dropSlotTx e.2) (fun e => [Eff.dropSlot e.2])
      (fun w e => (User.dropSlotTx_chans w e.2).1),
    w8_foldl_chans closeMsg closeMsgEffs closeMsg_chans]
  rw [w8_flatMap_single, w8_flatMap_single, ← chEffs_append, ← chEffs_append, List.append_assoc]
  rfl

theorem deliversOf_closeEffs (q : List Msg) (c : Ctx) : deliversOf (closeEffs q c) = [] := by
  unfold closeEffs deliversOf
  rw [List.filterMap_eq_nil_iff]
  intro e he
  simp only [List.mem_append, List.mem_flatMap, List.mem_map] at he
  rcases he with (⟨m, _, hm⟩ | ⟨x, _, rfl⟩) | ⟨x, _, rfl⟩
  · cases m <;> simp [closeMsgEffs] at hm
    · subst hm; rfl
    · subst hm; rfl
    · rcases hm with rfl | rfl <;> rfl
  · rfl
  · rfl

theorem dropCtx_dec (w : World) : Dec CtxLab w (w.apply .dropCtx) := by
  cases hc : w.hasCtx with
  | false =>
    have e : w.apply .dropCtx = { w with task := .none } := by simp [apply, hc]
    rw [e]; exact Dec.quiet ctxLab_tau rfl rfl rfl rfl
  | true =>
    rw [apply_dropCtx w hc]
    have inv := closes_inv (closes_dropCtxClosed w)
    refine .one (.ctx (.dropCtx w.queue w.c) ⟨rfl, rfl⟩ ?_ rfl ?_ ?_ ?_ ?_) (ctxLab_ctx _)
    · exact dropCtxClosed_chans w
    · exact inv.ops_eq
    · exact outExtP_of_eq inv.out_eq
    · intro ch q h
      have : deliversOf (CtxSrc.dropCtx w.queue w.c).effs = [] := deliversOf_closeEffs _ _
      rw [this] at h; cases h
    · exact subFrame_of_sublist inv.subCtr_eq (by simp [psids])

/-! ## script events -/

theorem sq_badscript : StreamQuiet .badscript := ⟨nofun, nofun⟩

theorem badScript_smove (w : World) : SMove .tau w w.badScript :=
  .tau rfl rfl (opsKeep_of_eq rfl) (outExtP_one .badscript rfl sq_badscript)

theorem flushRaw_smove (w : World) : SMove .tau w w.flushRaw := by
  unfold flushRaw
  split
  · exact .quiet rfl rfl rfl rfl
  · exact .tau rfl rfl (opsKeep_of_eq rfl) (outExtP_one (.wraw w.wirePend) rfl (streamQuiet_wire _).2)

theorem feedEvents_smove (w : World) (evs : List ReadEv) : SMove .tau w (w.feedEvents evs) := by
  unfold feedEvents
  simp only
  split
  · exact .quiet (by simp) (by simp) (by simp) (by simp)
  · exact .quiet rfl rfl rfl rfl

theorem senderGone_smove (w : World) : SMove .tau w w.senderGone :=
  .quiet (by simp) (by simp) (by simp) (by simp)

/-- the labels a script event can produce (besides issuing an operation) -/
def EvLab : Ev → SLab → Prop
  | .poll t => TaskLab t
  | .drop (.op id) => OpLab id
  | .drop (.st id) => fun l => l = .dropRx id
  | .dropRsp id => fun l => l = .dropRx id
  | _ => CtxLab

theorem noAdd_of_evLab {e : Ev} {l : SLab} (h : EvLab e l) : NoAdd l := by
  cases e with
  | poll t => exact noAdd_of_taskLab h
  | drop t =>
    cases t with
    | ctx => exact noAdd_of_ctxLab h
    | op id => exact noAdd_of_opLab h
    | st id => have : l = .dropRx id := h; subst this; rfl
  | dropRsp id => have : l = .dropRx id := h; subst this; rfl
  | _ => exact noAdd_of_ctxLab h

/-- **one script event**: an accepted `op` event issues its operation; every other event is a sequence of moves of
    its kind -/
theorem apply_dec (w : World) (e : Ev) (hi : OpsInv w) :
    (∃ id h req, e = .op id h req ∧ SMove (.addOp id) w (w.apply e)) ∨ Dec (EvLab e) w (w.apply e) := by
  have bad : Dec CtxLab w w.badScript := .one (badScript_smove w) ctxLab_tau
  cases e with
  | setup =>
    right
    simp only [apply]
    split
    · exact bad
    · split
      · split
        · exact bad
        · refine .one (.ctx .fresh trivial rfl rfl rfl (outExtP_of_eq rfl) ?_
            (subFrame_of_sublist rfl (by simp [psids]))) (ctxLab_ctx _)
          intro ch q h; cases h
      · exact (Dec.one (flushRaw_smove w) ctxLab_tau).trans
          (Dec.quiet ctxLab_tau (by simp) (by simp) (by simp) (by simp))
  | connect t =>
    right; simp only [apply]; split
    · exact bad
    · exact Dec.quiet ctxLab_tau (by simp) (by simp) (by simp) (by simp)
  | authorize a =>
    right; simp only [apply]; split
    · exact bad
    · exact Dec.quiet ctxLab_tau (by simp) (by simp) (by simp) (by simp)
  | run =>
    right; simp only [apply]; split
    · exact bad
    · exact Dec.quiet ctxLab_tau (by simp) (by simp) (by simp) (by simp)
  | dropFut => right; exact Dec.quiet ctxLab_tau rfl rfl rfl rfl
  | dropCtx => right; exact dropCtx_dec w
  | markDisc secs =>
    right; simp only [apply]; split
    · exact bad
    · exact .one (.tau rfl rfl (opsKeep_of_eq rfl) (outExtP_of_eq rfl)) ctxLab_tau
  | snap =>
    right; simp only [apply]; split
    · exact bad
    · exact .one (.tau rfl rfl (opsKeep_of_eq rfl) (outExtP_one (.state w.c) rfl ⟨nofun, nofun⟩)) ctxLab_tau
  | feed chunks =>
    right; simp only [apply]; split
    · exact bad
    · exact .one (feedEvents_smove w _) ctxLab_tau
  | feedEof =>
    right; simp only [apply]; split
    · exact bad
    · exact .one (feedEvents_smove w _) ctxLab_tau
  | feedErr =>
    right; simp only [apply]; split
    · exact bad
    · exact .one (feedEvents_smove w _) ctxLab_tau
  | op id h req =>
    simp only [apply]
    split
    · right; exact bad
    · rename_i hc
      left
      refine ⟨id, h, req, rfl, .addOp id h req ?_ (by simp) (by simp) (by simp) (by simp)⟩
      cases ho : w.opSt id with
      | none => rfl
      | some st => exact absurd (Or.inr (by simp [ho])) hc
  | poll t =>
    right; simp only [apply]; split
    · exact pollTask_dec w t hi
    · exact .refl _ w
  | hold t =>
    right; simp only [apply]; split
    · exact .refl _ w
    · exact Dec.quiet ctxLab_tau rfl rfl rfl rfl
  | release t => right; exact Dec.quiet ctxLab_tau rfl rfl rfl rfl
  | drop t =>
    right
    cases t with
    | ctx => exact .refl _ w
    | op id => exact dropOp_dec w id hi
    | st id =>
      simp only [apply]; split
      · exact .one (.dropRx id rfl rfl (opsKeep_of_eq rfl) rfl) rfl
      · exact .refl _ w
  | dropRsp id =>
    right; simp only [apply]; split
    · exact .one (.dropRx id rfl rfl (opsKeep_of_eq rfl) rfl) rfl
    · exact .refl _ w
  | stream id =>
    right; simp only [apply]; split
    · exact bad
    · exact Dec.quiet ctxLab_tau (by simp) (by simp) (by simp) (by simp)
  | clone h h2 =>
    right; simp only [apply]; split
    · exact bad
    · exact Dec.quiet ctxLab_tau rfl rfl rfl rfl
  | dropHandle h =>
    right; simp only [apply]; split
    · exact bad
    · have h0 : Dec CtxLab w ({ w with handles := w.handles.filter (· ≠ h) } : World) :=
        Dec.quiet ctxLab_tau rfl rfl rfl rfl
      exact h0.trans (.one (senderGone_smove _) ctxLab_tau)

/-! ## the executor, whole steps -/

theorem opsInv_pollTask (w : World) (t : Task) (hi : OpsInv w) : OpsInv (w.pollTask t) :=
  hi.moves (pollTask_moves w t)

theorem drain_dec (f : Nat) (w : World) (hi : OpsInv w) : Dec NoAdd w (drain f w) ∧ OpsInv (drain f w) := by
  induction f generalizing w with
  | zero => exact ⟨.refl _ w, hi⟩
  | succ f ih =>
    simp only [drain]
    split
    · exact ⟨.refl _ w, hi⟩
    · rename_i t _
      obtain ⟨a, b⟩ := ih (w.pollTask t) (opsInv_pollTask w t hi)
      exact ⟨((pollTask_dec w t hi).mono fun _ h => noAdd_of_taskLab h).trans a, b⟩

theorem sweep_dec (w : World) (hi : OpsInv w) : Dec NoAdd w w.sweep ∧ OpsInv w.sweep := by
  unfold sweep
  simp only
  generalize ([Task.ctx] ++ List.map Task.op (sortNat (List.map (fun x => x.1) w.ops)) ++
    List.map Task.st (sortNat w.streams)) = tasks
  suffices h : ∀ (l : List Task) (w0 : World), OpsInv w0 →
      Dec NoAdd w0 (l.foldl (fun w t => if w.taskLive t ∧ t ∉ w.woken ∧ t ∉ w.held then w.pollTask t else w) w0) ∧
      OpsInv (l.foldl (fun w t => if w.taskLive t ∧ t ∉ w.woken ∧ t ∉ w.held then w.pollTask t else w) w0) from
    h tasks w hi
  intro l
  induction l with
  | nil => intro w0 h0; exact ⟨.refl _ w0, h0⟩
  | cons t rest ih =>
    intro w0 h0
    simp only [List.foldl_cons]
    split
    · obtain ⟨a, b⟩ := ih (w0.pollTask t) (opsInv_pollTask w0 t h0)
      exact ⟨((pollTask_dec w0 t h0).mono fun _ h => noAdd_of_taskLab h).trans a, b⟩
    · exact ih w0 h0

/-- what follows the script event inside `step` -/
theorem step_tail_dec (w1 : World) (hi : OpsInv w1) :
    Dec NoAdd w1 (let w := drain w1.drainFuel w1
      let w := if w.cfg.sweep then (let w := w.sweep; drain w.drainFuel w) else w
      if w.task ≠ .none ∧ w.reader ≠ [] then w.emit .stall else w) := by
  simp only
  obtain ⟨h2, i2⟩ := drain_dec w1.drainFuel w1 hi
  generalize drain w1.drainFuel w1 = w2 at h2 i2 ⊢
  have h3 : Dec NoAdd w1 (if w2.cfg.sweep = true then drain w2.sweep.drainFuel w2.sweep else w2) := by
    split
    · obtain ⟨a, b⟩ := sweep_dec w2 i2
      exact (h2.trans a).trans (drain_dec _ _ b).1
    · exact h2
  generalize (if w2.cfg.sweep = true then drain w2.sweep.drainFuel w2.sweep else w2) = w3 at h3 ⊢
  split
  · exact h3.trans (.one (.tau rfl rfl (opsKeep_of_eq rfl) (outExtP_one .stall rfl ⟨nofun, nofun⟩)) rfl)
  · exact h3

theorem opsInv_emit (w : World) (o : Obs) (hi : OpsInv w) : OpsInv (w.emit o) := ⟨hi.nodup, hi.shape, hi.pid⟩

/-- **one script step** is a trace of stream moves; it issues the identifier of its `op` event if that is accepted,
    and nothing otherwise -/
theorem step_dec (w : World) (e : Ev) (hi : OpsInv w) :
    ∃ tr, STrace w tr (w.step e) ∧ (issuedOf tr = [] ∨ ∃ id, evOpId e = some id ∧ issuedOf tr = [id]) := by
  unfold step
  split
  · exact ⟨[], .refl w, Or.inl rfl⟩
  · have m0 : SMove .tau w (w.emit (.ev e)) :=
      .tau rfl rfl (opsKeep_of_eq rfl) (outExtP_one _ rfl (sq_ev e))
    have hi0 := opsInv_emit w (.ev e) hi
    have hi1 : OpsInv ((w.emit (.ev e)).apply e) := by
      rcases apply_decomp (w.emit (.ev e)) e with ⟨id, h, req, _, ha⟩ | hm
      · exact hi0.addOp ha
      · exact hi0.moves hm
    rcases apply_dec (w.emit (.ev e)) e hi0 with ⟨id, h, req, he, ha⟩ | hd
    · -- an accepted `op`
      have tail : ∀ w', Dec NoAdd ((w.emit (.ev e)).apply e) w' →
          ∃ tr, STrace w tr w' ∧ (issuedOf tr = [] ∨ ∃ id, evOpId e = some id ∧ issuedOf tr = [id]) := by
        intro w' ⟨t2, s2, a2⟩
        refine ⟨.tau :: .addOp id :: t2, .cons m0 (.cons ha s2), Or.inr ⟨id, by rw [he]; rfl, ?_⟩⟩
        rw [issuedOf_cons, issuedOf_cons, issuedOf_of_noAdd a2]; rfl
      simp only
      split
      · exact tail _ (.refl _ _)
      · exact tail _ (step_tail_dec _ hi1)
    · have tail : ∀ w', Dec NoAdd ((w.emit (.ev e)).apply e) w' →
          ∃ tr, STrace w tr w' ∧ (issuedOf tr = [] ∨ ∃ id, evOpId e = some id ∧ issuedOf tr = [id]) := by
        intro w' h2
        obtain ⟨t2, s2, a2⟩ := (hd.mono fun _ h => noAdd_of_evLab h).trans h2
        refine ⟨.tau :: t2, .cons m0 s2, Or.inl ?_⟩
        rw [issuedOf_cons, issuedOf_of_noAdd a2]; rfl
      simp only
      split
      · exact tail _ (.refl _ _)
      · exact tail _ (step_tail_dec _ hi1)

/-- **a whole script** is a trace of stream moves issuing a sublist of the script's operation identifiers (an `op`
    event the script is not allowed to issue issues nothing) -/
theorem steps_dec (evs : List Ev) (w : World) (hi : OpsInv w) :
    ∃ tr, STrace w tr (evs.foldl step w) ∧ (issuedOf tr).Sublist (opIds evs) := by
  induction evs generalizing w with
  | nil => exact ⟨[], .refl w, by simp⟩
  | cons e t ih =>
    obtain ⟨t1, s1, a1⟩ := step_dec w e hi
    obtain ⟨t2, s2, a2⟩ := ih (w.step e) (hi.step e)
    refine ⟨t1 ++ t2, s1.trans s2, ?_⟩
    rw [issuedOf_append]
    have hsplit : opIds (e :: t) = (evOpId e).toList ++ opIds t := by
      simp only [opIds, List.filterMap_cons]
      cases evOpId e <;> rfl
    rw [hsplit]
    refine List.Sublist.append ?_ a2
    rcases a1 with a1 | ⟨id, h1, h2⟩
    · rw [a1]; exact List.nil_sublist _
    · rw [h1, h2]; exact List.Sublist.refl _

end World
end Poster
