/-
  Lemmas/CodecTx.lean — the packet encoders of `Tx.lean` against `Spec.parseClient`.

  Generic part: property lists (`encProps`/`propsLen` of the expected list `Spec.xProps t`), the property block,
  "which properties / at most once", and the fixed-header frame. Then, per packet kind K:

    K_propertyLen_eq   : t.propertyLen  = (encProps (Spec.KProps t)).length      -- catches a term missing from property_len
    K_encode_eq        : t.encode       = hdr :: (encVar t.remainingLen ++ KBody t)
    K_remainingLen_eq  : t.remainingLen = (KBody t).length                        -- catches a term missing from remaining_len
    K_body_parses      : Spec.parseBody type flags (KBody t) = some (Spec.ofK t)  -- under `valid` and the domain
-/
import PosterModel.Lemmas.CodecPrim

namespace Poster
open Spec

/-! ## optional fields -/

@[simp] theorem oEnc_none {α} (f : α → Bytes) : oEnc f none = [] := rfl
@[simp] theorem oEnc_some {α} (f : α → Bytes) (a : α) : oEnc f (some a) = f a := rfl
@[simp] theorem oLen_none {α} (f : α → Nat) : oLen f none = 0 := rfl
@[simp] theorem oLen_some {α} (f : α → Nat) (a : α) : oLen f (some a) = f a := rfl
theorem oEnc_id (o : Option Bytes) : oEnc id o = o.getD [] := by cases o <;> rfl

/-! ## property lists -/

@[simp] theorem encProps_nil : encProps [] = [] := rfl
@[simp] theorem encProps_cons (p : Property) (ps : List Property) : encProps (p :: ps) = encProp p ++ encProps ps := by
  simp [encProps]
theorem encProps_append (a b : List Property) : encProps (a ++ b) = encProps a ++ encProps b := by
  simp [encProps]
@[simp] theorem propsLen_nil : propsLen [] = 0 := rfl
@[simp] theorem propsLen_cons (p : Property) (ps : List Property) : propsLen (p :: ps) = propLen p + propsLen ps := by
  simp [propsLen]
theorem propsLen_append (a b : List Property) : propsLen (a ++ b) = propsLen a + propsLen b := by
  simp [propsLen]

/-- the value has the shape the model's table gives the identifier (no ranges) -/
def TypeOk (p : Property) : Prop :=
  match propKind p.id, p.val with
  | some .bool, .bool _ => True
  | some .u16, .num _ => True
  | some .nzu16, .num _ => True
  | some .u32, .num _ => True
  | some .nzu32, .num _ => True
  | some .qos, .num _ => True
  | some .var, .var v l => l = varLen v
  | some .str, .bytes _ => True
  | some .bin, .bytes _ => True
  | some .pair, .pair _ _ => True
  | _, _ => False

/-- `byte_len()` of a property is the number of bytes its `encode` writes -/
theorem propLen_eq_length (p : Property) (h : TypeOk p) : propLen p = (encProp p).length := by
  obtain ⟨id, val⟩ := p
  unfold TypeOk at h
  unfold propLen encProp
  simp only at h ⊢
  cases hk : propKind id with
  | none => simp [hk] at h
  | some k =>
    cases k <;> cases val <;> simp [hk] at h <;>
    simp [valLen, encVal, encU8, encU16, encU32, encStr, encPair, strLen, pairLen, h, varLen_eq] <;> omega

theorem propsLen_eq_length (ps : List Property) (h : ∀ p ∈ ps, TypeOk p) : propsLen ps = (encProps ps).length := by
  induction ps with
  | nil => rfl
  | cons p ps ih =>
    simp only [propsLen_cons, encProps_cons, List.length_append]
    rw [propLen_eq_length p (h p (by simp)), ih (fun q hq => h q (by simp [hq]))]

/-! the model's optional / repeated property fields, as lists of properties -/

theorem oEnc_pNum (id : Nat) (o : Option Nat) : oEnc (fun n => encProp (pNum id n)) o = encProps (optP id .num o) := by
  cases o <;> simp [oEnc, optP, pNum]
theorem oEnc_pBool (id : Nat) (o : Option Bool) :
    oEnc (fun b => encProp (pBool id b)) o = encProps (optP id .bool o) := by
  cases o <;> simp [oEnc, optP, pBool]
theorem oEnc_pStr (id : Nat) (o : Option Bytes) :
    oEnc (fun s => encProp (Poster.pStr id s)) o = encProps (optP id .bytes o) := by
  cases o <;> simp [oEnc, optP, Poster.pStr]
theorem oEnc_pSubId (o : Option Nat) : oEnc (fun v => encProp (pSubId v)) o = encProps (optP 11 subIdVal o) := by
  cases o <;> simp [oEnc, optP, pSubId, subIdVal, varLen_eq_varSize]
theorem userEnc_eq (u : List (Bytes × Bytes)) : userEnc u = encProps (userPs u) := by
  induction u with
  | nil => rfl
  | cons kv u ih =>
    obtain ⟨k, v⟩ := kv
    simp only [userEnc, userPs, List.map_cons, List.flatten_cons, encProps_cons] at ih ⊢
    rw [ih]; rfl

theorem oLen_pNum (id : Nat) (o : Option Nat) : oLen (fun n => propLen (pNum id n)) o = propsLen (optP id .num o) := by
  cases o <;> simp [oLen, optP, pNum]
theorem oLen_pBool (id : Nat) (o : Option Bool) :
    oLen (fun b => propLen (pBool id b)) o = propsLen (optP id .bool o) := by
  cases o <;> simp [oLen, optP, pBool]
theorem oLen_pStr (id : Nat) (o : Option Bytes) :
    oLen (fun s => propLen (Poster.pStr id s)) o = propsLen (optP id .bytes o) := by
  cases o <;> simp [oLen, optP, Poster.pStr]
theorem oLen_pSubId (o : Option Nat) : oLen (fun v => propLen (pSubId v)) o = propsLen (optP 11 subIdVal o) := by
  cases o <;> simp [oLen, optP, pSubId, subIdVal, varLen_eq_varSize]
theorem userLen_eq (u : List (Bytes × Bytes)) : userLen u = propsLen (userPs u) := by
  induction u with
  | nil => rfl
  | cons kv u ih =>
    obtain ⟨k, v⟩ := kv
    simp only [userLen, userPs, List.map_cons, List.sum_cons, propsLen_cons] at ih ⊢
    rw [ih]; rfl

theorem forall_mem_optP {α} (q : Property → Prop) (id : Nat) (mk : α → PVal) (o : Option α) :
    (∀ p ∈ optP id mk o, q p) ↔ ∀ a ∈ o, q ⟨id, mk a⟩ := by
  cases o <;> simp [optP]
theorem forall_mem_userPs (q : Property → Prop) (u : List (Bytes × Bytes)) :
    (∀ p ∈ userPs u, q p) ↔ ∀ kv ∈ u, q ⟨38, .pair kv.1 kv.2⟩ := by
  constructor
  · intro h kv hkv
    exact h _ (List.mem_map.mpr ⟨kv, hkv, rfl⟩)
  · intro h p hp
    obtain ⟨kv, hkv, rfl⟩ := List.mem_map.mp hp
    exact h kv hkv

/-- simp set turning a statement about all properties of an expected list into statements about the fields -/
macro "props_fields" : tactic =>
  `(tactic| simp only [List.forall_mem_append, forall_mem_optP, forall_mem_userPs, and_assoc])

/-! ## the property block -/

theorem encProp_length_pos (p : Property) (h : PropWF p) : 0 < (encProp p).length := by
  have := pProp_enc p h []
  cases he : encProp p with
  | nil => simp [he, pProp, pVar, pVarAux] at this
  | cons b t => simp

theorem parseProps_enc (ps : List Property) (h : ∀ p ∈ ps, PropWF p) : parseProps (encProps ps) = some ps := by
  have := pMany_enc pProp encProp id ps (fun p hp r => pProp_enc p (h p hp) r)
    (fun p hp => encProp_length_pos p (h p hp))
  simpa [parseProps, encProps] using this

/-- property length, then the properties: what `encode` writes is what the standard's block parser reads -/
theorem pPropBlock_enc (ps : List Property) (h : ∀ p ∈ ps, PropWF p) (hl : (encProps ps).length < 268435456)
    (r : Bytes) : pPropBlock (encVar (encProps ps).length ++ (encProps ps ++ r)) = some (ps, r) := by
  simp [pPropBlock, pVar_enc _ hl, parseProps_enc ps h]

/-! ## which properties, and at most once -/

theorem countId_append (id : Nat) (a b : List Property) : countId id (a ++ b) = countId id a + countId id b := by
  induction a with
  | nil => simp [countId]
  | cons p a ih => simp only [List.cons_append, countId, ih]; omega

theorem countId_optP_ne {α} {id j : Nat} (h : j ≠ id) (mk : α → PVal) (o : Option α) :
    countId id (optP j mk o) = 0 := by
  cases o <;> simp [optP, countId, h]

theorem countId_optP_le {α} (id j : Nat) (mk : α → PVal) (o : Option α) : countId id (optP j mk o) ≤ 1 := by
  cases o <;> simp [optP, countId]; split <;> omega

theorem countId_userPs {id : Nat} (h : 38 ≠ id) (u : List (Bytes × Bytes)) : countId id (userPs u) = 0 := by
  induction u with
  | nil => rfl
  | cons kv u ih => simp only [userPs, List.map_cons, countId] at ih ⊢; simp [h, ih]

theorem countId_pos_of_mem {p : Property} {ps : List Property} (h : p ∈ ps) : 0 < countId p.id ps := by
  induction ps with
  | nil => cases h
  | cons q ps ih =>
    rcases List.mem_cons.mp h with rfl | h'
    · simp only [countId, ↓reduceIte]; omega
    · have := ih h'; simp only [countId]; omega

theorem propsLegal_of (allowed : List Nat) (ps : List Property) (h1 : ∀ p ∈ ps, p.id ∈ allowed)
    (h2 : ∀ id ∈ allowed, id ≠ 38 → countId id ps ≤ 1) : propsLegal allowed ps = true := by
  unfold propsLegal
  rw [List.all_eq_true]
  intro p hp
  have hpos := countId_pos_of_mem hp
  have hin := h1 p hp
  by_cases h38 : p.id = 38
  · simp [h38] at hin ⊢; exact hin
  · have := h2 p.id hin h38
    have : countId p.id ps = 1 := by omega
    simp [hin, this]

theorem hasId_append (id : Nat) (a b : List Property) : hasId id (a ++ b) = (hasId id a || hasId id b) := by
  simp only [hasId, countId_append]
  cases ha : countId id a <;> cases hb : countId id b <;> simp

theorem hasId_optP {α} (id j : Nat) (mk : α → PVal) (o : Option α) :
    hasId id (optP j mk o) = (j == id && o.isSome) := by
  cases o <;> simp [optP, hasId, countId]
  split <;> simp [*]

theorem hasId_userPs {id : Nat} (h : 38 ≠ id) (u : List (Bytes × Bytes)) : hasId id (userPs u) = false := by
  simp [hasId, countId_userPs h]

/-! ## the fixed header -/

/-- byte 1, the remaining length of the body, the body, and whatever follows: the frame is recognised and the
    body handed to the parser of the packet type -/
theorem parseClient_frame (n : Nat) (hn : n < 256) (body rest : Bytes) (hb : body.length < 268435456) :
    parseClient (UInt8.ofNat n :: (encVar body.length ++ body) ++ rest) =
      (parseBody (n / 16) (n % 16) body).map fun pkt => (pkt, rest) := by
  have hn' : n % 256 = n := Nat.mod_eq_of_lt hn
  simp only [parseClient, List.cons_append, List.append_assoc, pVar_enc _ hb, u8_toNat_ofNat, hn',
    List.length_append, Nat.not_lt.mpr (Nat.le_add_right _ _), ↓reduceIte, List.take_left', List.drop_left']
  cases parseBody (n / 16) (n % 16) body <;> rfl

end Poster
