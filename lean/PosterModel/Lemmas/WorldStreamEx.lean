/-
  Lemmas/WorldStreamEx.lean — concrete worlds and facts used by the non-vacuity examples of Properties/C07World.
-/
import PosterModel.Lemmas.WorldStreamSid
import PosterModel.Lemmas.WorldOwnEx
import PosterModel.Lemmas.WorldEx

set_option linter.unusedVariables false
set_option linter.unusedSimpArgs false

namespace Poster
open Framing World
namespace Ex

/-- a PUBLISH, QoS 0, topic "a", subscription identifier 1, empty payload -/
def pubFrame : Bytes := [0x30, 6, 0, 1, 0x61, 2, 0x0B, 1]
/-- … decoded -/
def pubA : PublishRx := { topic := [0x61], subIds := [1] }

theorem dec_pubFrame : decodeRx pubFrame = .ok (.publish pubA) := by
  simp [pubFrame, pubA, decodeRx, decPublish, dU8, dVar, dStr, dNzU16, tryDec, decU8, decVarR, decVar, decVarAux,
    varMax, decStr, decBin, utf8Valid, strLen, decNzU16, decU16, Res.map, foldProps, advanceBy, dProp, decProp, propLen,
    PublishRx.step, propKind, dVal, dNzVar, decNzVar, valLen, Res.bind]
theorem pn_pubFrame : pollNext {} [.data pubFrame] = ({}, [], .item pubFrame) :=
  pollNext_whole _ (by decide) (by decide) (by decide)

/-- `wSub` (stream 1 asleep on its empty channel, registered under subscription identifier 1) with that PUBLISH
    pending at the transport -/
def wPub : World := { wSub with reader := [.data pubFrame] }

/-- `wSub` satisfies the invariant of the stream moves, with the identifier 1 issued -/
theorem wSub_sInv : SInv (· = 1) wSub where
  wf := ⟨by decide, fun id ch h => by
    simp only [wSub, chan, lookupFirst] at h
    split at h
    · cases h; rfl
    · cases h⟩
  opsU := fun n h => by simp [wSub, opSt, lookupFirst] at h
  polled := fun id h => by
    refine ⟨?_, fun hd r => by simp [wSub, opSt, lookupFirst]⟩
    simp only [wSub, chan, lookupFirst] at h
    split at h
    · rename_i e; exact e.symm
    · exact absurd rfl h

/-- the invariant only reads the channel table and the operation table -/
theorem sInv_congr {U : Nat → Prop} {w w' : World} (h : SInv U w) (h1 : w'.chans = w.chans) (h2 : w'.ops = w.ops) :
    SInv U w' := by
  have hc : ∀ n, w'.chan n = w.chan n := fun n => by simp [chan, h1]
  have ho : ∀ n, w'.opSt n = w.opSt n := fun n => by simp [opSt, h2]
  exact ⟨chanWf_of_eq h.wf h1, fun n hn => h.opsU n (by rw [← ho]; exact hn),
    fun id hid => ⟨(h.polled id (by rw [← hc]; exact hid)).1, fun hd r => by
      rw [ho]; exact (h.polled id (by rw [← hc]; exact hid)).2 hd r⟩⟩

theorem wPub_sInv : SInv (· = 1) wPub := sInv_congr wSub_sInv rfl rfl

theorem wSub_opsInv : OpsInv wSub :=
  ⟨by decide, fun id s k h => by simp [wSub] at h, ⟨by decide, by decide⟩⟩

/-- `subscribe()` call 1 has been sent and registered (subscription identifier 1) but its SUBACK has not arrived: the
    future still waits on its oneshot; `stream()` cannot have been called yet -/
def wWaitSub : World :=
  { hasCtx := true, handles := [0], task := .running true, ops := [(1, .wait 2 .suback)], slots := [(2, .empty)],
    slotReg := [2], c := { awaiting := [(actionId 9 1, 2)], subs := [(1, 1)] }, chans := [(1, {})],
    pidCtr := 2, subCtr := 2 }

theorem wWaitSub_wf : ChanWf wWaitSub :=
  ⟨by decide, fun id ch h => by
    simp only [wWaitSub, chan, lookupFirst] at h
    split at h
    · cases h; rfl
    · cases h⟩

theorem wPub_opsInv : OpsInv wPub :=
  ⟨by decide, fun id s k h => by simp [wPub, wSub] at h, ⟨by decide, by decide⟩⟩

/-! ### one script step evaluated by hand: `POLL ctx` from `wPub` (the kernel cannot evaluate the framing machine, so
    the two iterations of the loop are rewritten with `pn_pubFrame` / `dec_pubFrame`) -/

def wPubO (o : List Obs) : World := { wPub with out := o }

/-- `wPub` after the context task was polled: the PUBLISH is in the buffer of channel 1, the stream is woken -/
def wPub1O (o : List Obs) : World :=
  { wSub with chans := [(1, { buf := [pubA], reg := false })], woken := [.st 1], out := o }

theorem wPub_it1 (o : List Obs) : runIter (wPubO o) = .inl (wPub1O o) := by
  unfold runIter
  simp [wPubO, wPub, wSub, senders, pn_pubFrame, dec_pubFrame]
  rfl

theorem wPub_it2 (o : List Obs) : runIter (wPub1O o) = .inr (wPub1O o) := by
  unfold runIter
  simp [wPub1O, wSub, senders, pollNext_idle_nil]

theorem wPub_pollCtx (o : List Obs) : (wPubO o).pollCtx = wPub1O o := by
  have h0 : (wPubO o).pollCtx = runLoop (wPubO o).loopFuel (wPubO o) := rfl
  have hf : (wPubO o).loopFuel = 20 + 1 + 1 := by rfl
  rw [h0, hf, runLoop_succ, wPub_it1]
  simp only
  rw [runLoop_succ, wPub_it2]

/-- **the step `POLL ctx` from `wPub`**: the context reads the PUBLISH and delivers it into channel 1, the executor then
    polls the woken stream, which yields it (`ITEM 1`) and parks again on its empty channel -/
theorem wPub_step : (wPub.step (.poll .ctx)).out = [.ev (.poll .ctx), .item 1 pubA] ∧
    (wPub.step (.poll .ctx)).chan 1 = some { buf := [], reg := true } := by
  have e1 : (wPub.emit (.ev (.poll .ctx))).apply (.poll .ctx) = wPub1O [.ev (.poll .ctx)] := by
    have : (wPub.emit (.ev (.poll .ctx))).apply (.poll .ctx) = (wPubO [.ev (.poll .ctx)]).pollCtx := rfl
    rw [this, wPub_pollCtx]
  have e2 : wPub.step (.poll .ctx) =
      (let w := wPub1O [.ev (.poll .ctx)]
       if w.bad then w else
       let w := drain w.drainFuel w
       let w := if w.cfg.sweep then (let w := w.sweep; drain w.drainFuel w) else w
       if w.task ≠ .none ∧ w.reader ≠ [] then w.emit .stall else w) := by
    rw [← e1]; rfl
  rw [e2]
  decide

/-- in `wSub` the subscription identifier in flight is 1, below the counter 2 -/
theorem wSub_sidInv : SidInv wSub := ⟨by decide, by decide⟩

end Ex
end Poster
