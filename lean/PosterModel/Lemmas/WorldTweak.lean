/-
  Lemmas/WorldTweak.lean — `tweak b p w` is `w` with the `sweep` switch of its configuration set to `b` and
  `p` put in front of its transcript. Every state-transforming function of `World` commutes with `tweak`
  (nothing reads `cfg.sweep` except `step`, and the transcript is only ever appended to).
-/
import PosterModel.Lemmas.WorldRun
import PosterModel.Lemmas.WorldDrop
import PosterModel.Lemmas.UserWorld

set_option linter.unusedVariables false
set_option linter.unusedSimpArgs false

namespace Poster
open Framing
namespace World

/-- the same world with the `sweep` switch of the configuration set to `b` and `p` put in front of the transcript -/
def tweak (b : Bool) (p : List Obs) (w : World) : World :=
  { w with cfg := { w.cfg with sweep := b }, out := p ++ w.out }

/-- `step` without the sweep phase -/
def stepN (w : World) (e : Ev) : World :=
  if w.bad then w else
  let w := (w.emit (.ev e)).apply e
  if w.bad then w else
  let w := drain w.drainFuel w
  if w.task ≠ .none ∧ w.reader ≠ [] then w.emit .stall else w

/-! ## projections -/

@[simp] theorem tweak_hasCtx (b p) (w : World) : (tweak b p w).hasCtx = w.hasCtx := rfl
@[simp] theorem tweak_ctxDropped (b p) (w : World) : (tweak b p w).ctxDropped = w.ctxDropped := rfl
@[simp] theorem tweak_task (b p) (w : World) : (tweak b p w).task = w.task := rfl
@[simp] theorem tweak_c (b p) (w : World) : (tweak b p w).c = w.c := rfl
@[simp] theorem tweak_rx (b p) (w : World) : (tweak b p w).rx = w.rx := rfl
@[simp] theorem tweak_reader (b p) (w : World) : (tweak b p w).reader = w.reader := rfl
@[simp] theorem tweak_readerReg (b p) (w : World) : (tweak b p w).readerReg = w.readerReg := rfl
@[simp] theorem tweak_queue (b p) (w : World) : (tweak b p w).queue = w.queue := rfl
@[simp] theorem tweak_queueReg (b p) (w : World) : (tweak b p w).queueReg = w.queueReg := rfl
@[simp] theorem tweak_handles (b p) (w : World) : (tweak b p w).handles = w.handles := rfl
@[simp] theorem tweak_ops (b p) (w : World) : (tweak b p w).ops = w.ops := rfl
@[simp] theorem tweak_slots (b p) (w : World) : (tweak b p w).slots = w.slots := rfl
@[simp] theorem tweak_slotReg (b p) (w : World) : (tweak b p w).slotReg = w.slotReg := rfl
@[simp] theorem tweak_chans (b p) (w : World) : (tweak b p w).chans = w.chans := rfl
@[simp] theorem tweak_rsps (b p) (w : World) : (tweak b p w).rsps = w.rsps := rfl
@[simp] theorem tweak_streams (b p) (w : World) : (tweak b p w).streams = w.streams := rfl
@[simp] theorem tweak_pidCtr (b p) (w : World) : (tweak b p w).pidCtr = w.pidCtr := rfl
@[simp] theorem tweak_subCtr (b p) (w : World) : (tweak b p w).subCtr = w.subCtr := rfl
@[simp] theorem tweak_woken (b p) (w : World) : (tweak b p w).woken = w.woken := rfl
@[simp] theorem tweak_held (b p) (w : World) : (tweak b p w).held = w.held := rfl
@[simp] theorem tweak_written (b p) (w : World) : (tweak b p w).written = w.written := rfl
@[simp] theorem tweak_wirePend (b p) (w : World) : (tweak b p w).wirePend = w.wirePend := rfl
@[simp] theorem tweak_bad (b p) (w : World) : (tweak b p w).bad = w.bad := rfl
@[simp] theorem tweak_out (b p) (w : World) : (tweak b p w).out = p ++ w.out := rfl
@[simp] theorem tweak_cfg_sweep (b p) (w : World) : (tweak b p w).cfg.sweep = b := rfl
@[simp] theorem tweak_cfg_fill (b p) (w : World) : (tweak b p w).cfg.fill = w.cfg.fill := rfl
@[simp] theorem tweak_cfg_rdp (b p) (w : World) : (tweak b p w).cfg.rdp = w.cfg.rdp := rfl
@[simp] theorem tweak_cfg_wlimit (b p) (w : World) : (tweak b p w).cfg.wlimit = w.cfg.wlimit := rfl

/-! ## derived readers -/

@[simp] theorem slot_tweak (b p) (w : World) (s : Nat) : (tweak b p w).slot s = w.slot s := rfl
@[simp] theorem chan_tweak (b p) (w : World) (c : Nat) : (tweak b p w).chan c = w.chan c := rfl
@[simp] theorem opSt_tweak (b p) (w : World) (id : Nat) : (tweak b p w).opSt id = w.opSt id := rfl
@[simp] theorem senders_tweak (b p) (w : World) : (tweak b p w).senders = w.senders := rfl
@[simp] theorem canWrite_tweak (b p) (w : World) (n : Nat) : (tweak b p w).canWrite n = w.canWrite n := rfl
@[simp] theorem chanRxAlive_tweak (b p) (w : World) (c : Nat) : (tweak b p w).chanRxAlive c = w.chanRxAlive c := rfl
@[simp] theorem chanRxAlive_tweak' (b p) (w : World) : (tweak b p w).chanRxAlive = w.chanRxAlive := rfl
@[simp] theorem taskLive_tweak (b p) (w : World) (t : Task) : (tweak b p w).taskLive t = w.taskLive t := by
  cases t <;> rfl
@[simp] theorem pick_tweak (b p) (w : World) : (tweak b p w).pick = w.pick := by
  simp only [pick, taskLive_tweak, tweak_woken, tweak_held]
@[simp] theorem loopFuel_tweak (b p) (w : World) : (tweak b p w).loopFuel = w.loopFuel := rfl
@[simp] theorem drainFuel_tweak (b p) (w : World) : (tweak b p w).drainFuel = w.drainFuel := rfl

/-! ## primitives -/

theorem emit_tweak (b p) (w : World) (o : Obs) : (tweak b p w).emit o = tweak b p (w.emit o) := by
  simp [emit, tweak]

theorem wake_tweak (b p) (w : World) (t : Task) : (tweak b p w).wake t = tweak b p (w.wake t) := by
  by_cases h : t ∈ w.woken
  · simp only [wake, tweak_woken, h, ↓reduceIte]
  · simp only [wake, tweak_woken, h, ↓reduceIte]; rfl

theorem unwake_tweak (b p) (w : World) (t : Task) : (tweak b p w).unwake t = tweak b p (w.unwake t) := rfl

theorem setSlot_tweak (b p) (w : World) (s : Nat) (v : Slot) :
    (tweak b p w).setSlot s v = tweak b p (w.setSlot s v) := rfl

theorem setChan_tweak (b p) (w : World) (c : Nat) (v : Chan) :
    (tweak b p w).setChan c v = tweak b p (w.setChan c v) := rfl

theorem senderGone_tweak (b p) (w : World) : (tweak b p w).senderGone = tweak b p w.senderGone := by
  by_cases h : w.senders = 0 ∧ w.hasCtx ∧ w.queueReg
  · simp only [senderGone, senders_tweak, tweak_hasCtx, tweak_queueReg, h, and_self, ↓reduceIte, wake_tweak]; rfl
  · simp only [senderGone, senders_tweak, tweak_hasCtx, tweak_queueReg, h, ↓reduceIte]

theorem allocPid_tweak (b p) (w : World) : (tweak b p w).allocPid = (w.allocPid.1, tweak b p w.allocPid.2) := rfl
theorem allocSub_tweak (b p) (w : World) : (tweak b p w).allocSub = (w.allocSub.1, tweak b p w.allocSub.2) := rfl

theorem flushWire_tweak (b p) (w : World) : (tweak b p w).flushWire = tweak b p w.flushWire := by
  unfold flushWire
  simp only [tweak_wirePend]
  cases h : frames w.wirePend with
  | none => simp [tweak]
  | some r => obtain ⟨ps, tl⟩ := r; simp [tweak]

theorem writeBytes_tweak (b p) (w : World) (bs : Bytes) :
    (tweak b p w).writeBytes bs = tweak b p (w.writeBytes bs) := by
  cases h : w.canWrite bs.length
  · simp only [writeBytes, canWrite_tweak, h, Bool.false_eq_true, ↓reduceIte]
    exact flushWire_tweak b p
      { w with written := w.written + (w.cfg.wlimit.getD 0 - w.written),
               wirePend := w.wirePend ++ bs.take (w.cfg.wlimit.getD 0 - w.written) }
  · simp only [writeBytes, canWrite_tweak, h, ↓reduceIte]
    exact flushWire_tweak b p { w with written := w.written + bs.length, wirePend := w.wirePend ++ bs }

/-! ## channel effects -/

theorem sendSlot_tweak (b p) (w : World) (s : Nat) (v : SlotVal) :
    (tweak b p w).sendSlot s v = tweak b p (w.sendSlot s v) := by
  unfold sendSlot
  rw [slot_tweak]
  cases h : w.slot s with
  | none => rfl
  | some sl =>
    cases sl with
    | full _ => rfl
    | closed => rfl
    | empty =>
      have e : (w.setSlot s (.full v)).slotReg = w.slotReg := rfl
      by_cases hm : s ∈ w.slotReg
      · simp only [setSlot_tweak, tweak_slotReg, e, hm, ↓reduceIte, wake_tweak]; rfl
      · simp only [setSlot_tweak, tweak_slotReg, e, hm, ↓reduceIte]

theorem dropSlotTx_tweak (b p) (w : World) (s : Nat) :
    (tweak b p w).dropSlotTx s = tweak b p (w.dropSlotTx s) := by
  unfold dropSlotTx
  rw [slot_tweak]
  cases h : w.slot s with
  | none => rfl
  | some sl =>
    cases sl with
    | full _ => rfl
    | closed => rfl
    | empty =>
      have e : (w.setSlot s .closed).slotReg = w.slotReg := rfl
      by_cases hm : s ∈ w.slotReg
      · simp only [setSlot_tweak, tweak_slotReg, e, hm, ↓reduceIte, wake_tweak]; rfl
      · simp only [setSlot_tweak, tweak_slotReg, e, hm, ↓reduceIte]

theorem deliver_tweak (b p) (w : World) (c : Nat) (x : PublishRx) :
    (tweak b p w).deliver c x = tweak b p (w.deliver c x) := by
  unfold deliver
  rw [chan_tweak]
  cases h : w.chan c with
  | none => rfl
  | some ch =>
    cases hr : ch.reg
    · simp only [setChan_tweak, hr, Bool.false_eq_true, ↓reduceIte]
    · simp only [setChan_tweak, hr, ↓reduceIte, wake_tweak]

theorem dropChanTx_tweak (b p) (w : World) (c : Nat) :
    (tweak b p w).dropChanTx c = tweak b p (w.dropChanTx c) := by
  unfold dropChanTx
  rw [chan_tweak]
  cases h : w.chan c with
  | none => rfl
  | some ch =>
    cases hr : ch.reg
    · simp only [setChan_tweak, hr, Bool.false_eq_true, ↓reduceIte]
    · simp only [setChan_tweak, hr, ↓reduceIte, wake_tweak]

theorem dropChanRx_tweak (b p) (w : World) (c : Nat) :
    (tweak b p w).dropChanRx c = tweak b p (w.dropChanRx c) := rfl

theorem clearSlot_tweak (b p) (w : World) (s : Nat) :
    (tweak b p w).clearSlot s = tweak b p (w.clearSlot s) := rfl

theorem applyEff_tweak (b p) (w : World) (e : Eff) :
    (tweak b p w).applyEff e = tweak b p (w.applyEff e) := by
  cases e with
  | write bs => exact writeBytes_tweak b p w bs
  | send s v => exact sendSlot_tweak b p w s v
  | dropSlot s => exact dropSlotTx_tweak b p w s
  | deliver c x => exact deliver_tweak b p w c x
  | dropChan c => exact dropChanTx_tweak b p w c

theorem applyEffs_tweak (b p) (w : World) (es : List Eff) :
    (tweak b p w).applyEffs es = tweak b p (w.applyEffs es) := by
  unfold applyEffs
  induction es generalizing w with
  | nil => rfl
  | cons e t ih => simp only [List.foldl_cons, applyEff_tweak, ih]

theorem runHandler_tweak (b p) (w : World) (h : Bool → Ctx × List Eff × Flow) :
    (tweak b p w).runHandler h = (tweak b p (w.runHandler h).1, (w.runHandler h).2) := by
  rw [runHandler_eq, runHandler_eq]
  simp only [canWrite_tweak]
  generalize h (w.canWrite (writeNeed (h true).2.1)) = r
  exact congrArg (fun x => (x, r.2.2)) (applyEffs_tweak b p { w with c := r.1 } r.2.1)

theorem runHandler_tweak_fst (b p) (w : World) (h : Bool → Ctx × List Eff × Flow) :
    ((tweak b p w).runHandler h).1 = tweak b p (w.runHandler h).1 := by rw [runHandler_tweak]
theorem runHandler_tweak_snd (b p) (w : World) (h : Bool → Ctx × List Eff × Flow) :
    ((tweak b p w).runHandler h).2 = (w.runHandler h).2 := by rw [runHandler_tweak]

/-! ## the context task -/

theorem finish_tweak (b p) (w : World) (call : Call) (r : RetRes) :
    (tweak b p w).finish call r = tweak b p (w.finish call r) := by
  unfold finish
  exact emit_tweak b p { w with task := .none } _

/-- normalise the projections of `tweak b p w` (also inside record literals) -/
local syntax "twn" (Lean.Parser.Tactic.location)? : tactic
macro_rules
  | `(tactic| twn $[$loc]?) => `(tactic| simp only [tweak_hasCtx, tweak_ctxDropped, tweak_task, tweak_c, tweak_rx,
      tweak_reader, tweak_readerReg, tweak_queue, tweak_queueReg, tweak_handles, tweak_ops, tweak_slots,
      tweak_slotReg, tweak_chans, tweak_rsps, tweak_streams, tweak_pidCtr, tweak_subCtr, tweak_woken, tweak_held,
      tweak_written, tweak_wirePend, tweak_bad, tweak_out, tweak_cfg_sweep, tweak_cfg_fill, tweak_cfg_rdp,
      tweak_cfg_wlimit, slot_tweak, chan_tweak, opSt_tweak, senders_tweak, canWrite_tweak, chanRxAlive_tweak,
      chanRxAlive_tweak', taskLive_tweak, loopFuel_tweak, drainFuel_tweak] $[$loc]?)

/-- a record built over the fields of `tweak b p w` is the `tweak` of the record built over `w` -/
theorem mk_tweak (b p) (w : World) (hasCtx ctxDropped task c rx reader readerReg queue queueReg handles ops slots slotReg
    chans rsps streams pidCtr subCtr woken held written wirePend out bad) :
    (⟨(tweak b p w).cfg, hasCtx, ctxDropped, task, c, rx, reader, readerReg, queue, queueReg, handles, ops, slots,
      slotReg, chans, rsps, streams, pidCtr, subCtr, woken, held, written, wirePend, p ++ out, bad⟩ : World) =
    tweak b p ⟨w.cfg, hasCtx, ctxDropped, task, c, rx, reader, readerReg, queue, queueReg, handles, ops, slots,
      slotReg, chans, rsps, streams, pidCtr, subCtr, woken, held, written, wirePend, out, bad⟩ := rfl

theorem runIter_tweak (b p) (w : World) :
    runIter (tweak b p w) =
      match runIter w with
      | .inl x => .inl (tweak b p x)
      | .inr x => .inr (tweak b p x) := by
  unfold runIter
  twn
  cases hq : w.queue with
  | cons m q =>
    simp only [mk_tweak, runHandler_tweak]
    generalize World.runHandler _ _ = r
    obtain ⟨w1, fl⟩ := r
    cases fl <;> simp only [finish_tweak]
  | nil =>
    simp only
    by_cases hs : w.senders = 0
    · simp only [hs, ↓reduceIte, finish_tweak]
    · simp only [hs, ↓reduceIte]
      generalize pollNext w.rx w.reader = r
      obtain ⟨rx', rd', res⟩ := r
      cases res with
      | none => simp only [mk_tweak, finish_tweak]
      | pending =>
        by_cases hr : rd' = []
        · simp only [hr, ↓reduceIte, mk_tweak]
        · simp only [hr, ↓reduceIte, mk_tweak, wake_tweak]
      | item fr =>
        simp only [mk_tweak]
        cases hd : decodeRx fr with
        | err => simp only [finish_tweak]
        | panic => simp only [emit_tweak]
        | ok pk =>
          simp only [tweak_c, chanRxAlive_tweak', runHandler_tweak]
          generalize World.runHandler _ _ = r
          obtain ⟨w1, fl⟩ := r
          cases fl <;> simp only [finish_tweak]

theorem runLoop_tweak (b p) (f : Nat) (w : World) : runLoop f (tweak b p w) = tweak b p (runLoop f w) := by
  induction f generalizing w with
  | zero => rfl
  | succ f ih =>
    rw [runLoop_succ, runLoop_succ, runIter_tweak]
    cases runIter w with
    | inl x => exact ih x
    | inr x => rfl

theorem foldl_writeBytes_tweak (b p) (pkts : List Bytes) (w : World) :
    pkts.foldl (fun w x => w.writeBytes x) (tweak b p w) = tweak b p (pkts.foldl (fun w x => w.writeBytes x) w) := by
  induction pkts generalizing w with
  | nil => rfl
  | cons x t ih => simp only [List.foldl_cons, writeBytes_tweak, ih]

theorem pollRun_tweak (b p) (w : World) (started : Bool) :
    (tweak b p w).pollRun started = tweak b p (w.pollRun started) := by
  cases started with
  | true => simp only [pollRun, ↓reduceIte, loopFuel_tweak, runLoop_tweak]
  | false =>
    simp only [pollRun, Bool.false_eq_true, ↓reduceIte]
    twn
    simp only [mk_tweak, applyEffs_tweak, canWrite_tweak]
    split
    · simp only [foldl_writeBytes_tweak, loopFuel_tweak, runLoop_tweak]
    · simp only [writeBytes_tweak, finish_tweak]

theorem awaitFirst_tweak (b p) (w : World) (call : Call) (t : ConnectTx) (a : AuthTx) :
    (tweak b p w).awaitFirst call t a = tweak b p (w.awaitFirst call t a) := by
  unfold awaitFirst
  twn
  generalize pollNext w.rx w.reader = r
  obtain ⟨rx', rd', res⟩ := r
  cases res with
  | none => simp only [mk_tweak, finish_tweak]
  | pending =>
    by_cases hr : rd' = []
    · simp only [hr, ↓reduceIte, mk_tweak]
    · simp only [hr, ↓reduceIte, mk_tweak, wake_tweak]
  | item fr =>
    simp only [mk_tweak]
    cases hd : decodeRx fr with
    | err => simp only [finish_tweak]
    | panic => simp only [emit_tweak]
    | ok pk =>
      cases pk <;> simp only [finish_tweak]
      case connack k =>
        by_cases h1 : k.reason ≥ 128
        · simp only [h1, ↓reduceIte]
        · by_cases h2 : (!k.subIdAvail) = true
          · simp only [h1, h2, ↓reduceIte, emit_tweak]
          · simp only [h1, h2, Bool.false_eq_true, ↓reduceIte]

theorem pollConnect_tweak (b p) (w : World) (call : Call) (t : ConnectTx) (a : AuthTx) (started : Bool) :
    (tweak b p w).pollConnect call t a started = tweak b p (w.pollConnect call t a started) := by
  cases started with
  | true => simp only [pollConnect, ↓reduceIte, awaitFirst_tweak]
  | false =>
    cases call <;>
    · simp only [pollConnect, Bool.false_eq_true, ↓reduceIte]
      twn
      simp only [mk_tweak, canWrite_tweak, writeBytes_tweak, awaitFirst_tweak, finish_tweak, apply_ite (tweak b p)]

theorem pollCtx_tweak (b p) (w : World) : (tweak b p w).pollCtx = tweak b p w.pollCtx := by
  unfold pollCtx
  twn
  cases w.task with
  | none => rfl
  | connecting call t a started => exact pollConnect_tweak b p w call t a started
  | running started => exact pollRun_tweak b p w started

/-! ## handle futures -/

theorem finishOp_tweak (b p) (w : World) (id : Nat) (r : DoneRes) :
    (tweak b p w).finishOp id r = tweak b p (w.finishOp id r) := by
  unfold finishOp
  twn
  simp only [mk_tweak, emit_tweak, senderGone_tweak]

theorem sendMsg_tweak (b p) (w : World) (m : Msg) : (tweak b p w).sendMsg m = (w.sendMsg m).map (tweak b p) := by
  rw [sendMsg_eq, sendMsg_eq]
  twn
  by_cases h : w.hasCtx = true
  · simp only [h, ↓reduceIte, Option.map_some, wake_tweak, tweak_woken, mk_tweak]
  · simp only [h, Bool.false_eq_true, ↓reduceIte, Option.map_none]

theorem awaitSlot_tweak (b p) (w : World) (id s : Nat) (k : Wait) :
    (tweak b p w).awaitSlot id s k = tweak b p (w.awaitSlot id s k) := rfl

theorem sendAwait_tweak (b p) (w : World) (m : Msg) (id s : Nat) (k : Wait) :
    (tweak b p w).sendAwait m id s k = tweak b p (w.sendAwait m id s k) := by
  unfold sendAwait
  rw [sendMsg_tweak]
  cases w.sendMsg m with
  | none => exact finishOp_tweak b p w id _
  | some w1 => exact awaitSlot_tweak b p w1 id s k

theorem allocPid_tweak_snd (b p) (w : World) : (tweak b p w).allocPid.2 = tweak b p w.allocPid.2 := rfl
theorem allocSub_tweak_snd (b p) (w : World) : (tweak b p w).allocSub.2 = tweak b p w.allocSub.2 := rfl

theorem startOp_tweak (b p) (w : World) (id : Nat) (req : Req) :
    (tweak b p w).startOp id req = tweak b p (w.startOp id req) := by
  cases req with
  | publish t =>
    by_cases hq : t.qos = 0
    · rw [User.startOp_publish0 _ _ _ hq, User.startOp_publish0 _ _ _ hq]
      simp only [finishOp_tweak, sendAwait_tweak, apply_ite (tweak b p)]
    · rw [User.startOp_publish12 _ _ _ hq, User.startOp_publish12 _ _ _ hq]
      simp only [allocPid_tweak_snd, tweak_pidCtr, finishOp_tweak, sendAwait_tweak, apply_ite (tweak b p)]
  | subscribe t =>
    rw [User.startOp_subscribe, User.startOp_subscribe]
    simp only [allocPid_tweak_snd, allocSub_tweak_snd, tweak_pidCtr, tweak_subCtr, setChan_tweak, sendMsg_tweak,
      dropChanRx_tweak, finishOp_tweak]
    split
    · rfl
    · cases World.sendMsg _ _ with
      | none => rfl
      | some w1 => rfl
  | unsubscribe t =>
    rw [User.startOp_unsubscribe, User.startOp_unsubscribe]
    simp only [allocPid_tweak_snd, tweak_pidCtr, finishOp_tweak, sendAwait_tweak, apply_ite (tweak b p)]
  | ping =>
    rw [User.startOp_ping, User.startOp_ping]; exact sendAwait_tweak ..
  | disconnect t =>
    rw [User.startOp_disconnect, User.startOp_disconnect]; exact sendAwait_tweak ..

theorem tweak_ite (b p) (c : Prop) [Decidable c] (x y : World) :
    tweak b p (if c then x else y) = if c then tweak b p x else tweak b p y := apply_ite _ _ _ _

/-- `simp only` with the projections of `tweak`, `mk_tweak`, the commutation lemmas of the primitives, and more -/
local syntax "tws" "[" Lean.Parser.Tactic.simpLemma,* "]" : tactic
macro_rules
  | `(tactic| tws [$ls,*]) => `(tactic| simp only [tweak_hasCtx, tweak_ctxDropped, tweak_task, tweak_c, tweak_rx,
      tweak_reader, tweak_readerReg, tweak_queue, tweak_queueReg, tweak_handles, tweak_ops, tweak_slots,
      tweak_slotReg, tweak_chans, tweak_rsps, tweak_streams, tweak_pidCtr, tweak_subCtr, tweak_woken, tweak_held,
      tweak_written, tweak_wirePend, tweak_bad, tweak_out, tweak_cfg_sweep, tweak_cfg_fill, tweak_cfg_rdp,
      tweak_cfg_wlimit, slot_tweak, chan_tweak, opSt_tweak, senders_tweak, canWrite_tweak, chanRxAlive_tweak,
      chanRxAlive_tweak', taskLive_tweak, loopFuel_tweak, drainFuel_tweak, mk_tweak, emit_tweak, wake_tweak,
      unwake_tweak, setSlot_tweak, setChan_tweak, senderGone_tweak, dropChanRx_tweak, clearSlot_tweak,
      finish_tweak, finishOp_tweak, tweak_ite, Bool.false_eq_true, ↓reduceIte, $ls,*])

theorem sendMsg_match_tweak (b p) (w : World) (m : Msg) (id s : Nat) (k : Wait) (x : World) :
    (match (tweak b p w).sendMsg m with
      | none => tweak b p x
      | some w1 => w1.awaitSlot id s k) =
    tweak b p (match w.sendMsg m with
      | none => x
      | some w1 => w1.awaitSlot id s k) := by
  rw [sendMsg_tweak]
  cases w.sendMsg m with
  | none => rfl
  | some w1 => rfl

theorem resumeOp_tweak (b p) (w : World) (id s : Nat) (k : Wait) (v : SlotVal) :
    (tweak b p w).resumeOp id s k v = tweak b p (w.resumeOp id s k v) := by
  cases v with
  | errSize => simp only [resumeOp, clearSlot_tweak, finishOp_tweak]
  | errQuota => simp only [resumeOp, clearSlot_tweak, finishOp_tweak]
  | unit => cases k <;> simp only [resumeOp, clearSlot_tweak, finishOp_tweak]
  | pkt x =>
    cases k <;> cases x <;> tws [resumeOp, sendMsg_tweak]
    cases World.sendMsg _ _ <;> rfl


theorem pollOp_tweak (b p) (w : World) (id : Nat) : (tweak b p w).pollOp id = tweak b p (w.pollOp id) := by
  unfold pollOp
  rw [opSt_tweak]
  cases w.opSt id with
  | none => rfl
  | some st =>
    cases st with
    | fresh h req => exact startOp_tweak b p w id req
    | wait s k =>
      simp only [slot_tweak]
      cases w.slot s with
      | none => rfl
      | some sl =>
        cases sl with
        | empty => rfl
        | full v => exact resumeOp_tweak b p w id s k v
        | closed => tws []

theorem dropOp_tweak (b p) (w : World) (id : Nat) : (tweak b p w).dropOp id = tweak b p (w.dropOp id) := by
  unfold dropOp
  rw [opSt_tweak]
  cases w.opSt id with
  | none => rfl
  | some st =>
    cases st with
    | fresh h req => tws []
    | wait s k => cases k <;> tws []

/-! ## subscription streams, the executor -/

theorem pollStream_tweak (b p) (w : World) (id : Nat) :
    (tweak b p w).pollStream id = tweak b p (w.pollStream id) := by
  unfold pollStream
  by_cases hs : id ∈ w.streams
  · tws [hs, not_true_eq_false]
    cases w.chan id with
    | none => rfl
    | some ch =>
      simp only
      cases ch.buf with
      | cons x rest => tws []
      | nil => tws []
  · tws [hs, not_false_eq_true]

theorem pollTask_tweak (b p) (w : World) (t : Task) : (tweak b p w).pollTask t = tweak b p (w.pollTask t) := by
  cases t with
  | ctx => simp only [pollTask, unwake_tweak, pollCtx_tweak]
  | op n => simp only [pollTask, unwake_tweak, pollOp_tweak]
  | st n => simp only [pollTask, unwake_tweak, pollStream_tweak]

theorem drain_tweak (b p) (f : Nat) (w : World) : drain f (tweak b p w) = tweak b p (drain f w) := by
  induction f generalizing w with
  | zero => rfl
  | succ f ih =>
    rw [drain, drain, pick_tweak]
    cases w.pick with
    | none => rfl
    | some t => simp only [pollTask_tweak, ih]

theorem sweepFold_tweak (b p) (ts : List Task) (w : World) :
    ts.foldl (fun w t => if w.taskLive t ∧ t ∉ w.woken ∧ t ∉ w.held then w.pollTask t else w) (tweak b p w) =
      tweak b p (ts.foldl (fun w t => if w.taskLive t ∧ t ∉ w.woken ∧ t ∉ w.held then w.pollTask t else w) w) := by
  induction ts generalizing w with
  | nil => rfl
  | cons t ts ih =>
    simp only [List.foldl_cons, taskLive_tweak, tweak_woken, tweak_held]
    by_cases h : w.taskLive t = true ∧ t ∉ w.woken ∧ t ∉ w.held
    · simp only [h, and_self, not_false_eq_true, ↓reduceIte, if_true, pollTask_tweak, ih]
    · simp only [h, ↓reduceIte, if_false, ih]

theorem sweep_tweak (b p) (w : World) : (tweak b p w).sweep = tweak b p w.sweep := by
  unfold sweep
  simp only [tweak_ops, tweak_streams]
  exact sweepFold_tweak b p _ w

/-! ## events -/

theorem feedEvents_tweak (b p) (w : World) (evs : List ReadEv) :
    (tweak b p w).feedEvents evs = tweak b p (w.feedEvents evs) := by
  unfold feedEvents
  tws []
  rfl

theorem flushRaw_tweak (b p) (w : World) : (tweak b p w).flushRaw = tweak b p w.flushRaw := by
  unfold flushRaw
  tws []

theorem badScript_tweak (b p) (w : World) : (tweak b p w).badScript = tweak b p w.badScript := by
  unfold badScript
  tws []

theorem finishScript_tweak (b p) (w : World) : (tweak b p w).finishScript = tweak b p w.finishScript :=
  flushRaw_tweak b p w

/-! ## `DROPCTX` -/

theorem closeMsg_tweak (b p) (w : World) (m : Msg) : closeMsg (tweak b p w) m = tweak b p (closeMsg w m) := by
  cases m <;> simp only [closeMsg, dropSlotTx_tweak, dropChanTx_tweak]

theorem dropCtxStart_tweak (b p) (w : World) : dropCtxStart (tweak b p w) = tweak b p (dropCtxStart w) := rfl

theorem foldl_tweak {α} (b p) (f : World → α → World) (hf : ∀ w a, f (tweak b p w) a = tweak b p (f w a))
    (l : List α) (w : World) : l.foldl f (tweak b p w) = tweak b p (l.foldl f w) := by
  induction l generalizing w with
  | nil => rfl
  | cons a t ih => simp only [List.foldl_cons, hf, ih]

theorem dropCtxClosed_tweak (b p) (w : World) : dropCtxClosed (tweak b p w) = tweak b p (dropCtxClosed w) := by
  unfold dropCtxClosed
  simp only [tweak_c, tweak_queue, dropCtxStart_tweak]
  rw [foldl_tweak b p closeMsg (closeMsg_tweak b p),
    foldl_tweak b p _ (fun w e => dropSlotTx_tweak b p w e.2),
    foldl_tweak b p _ (fun w e => dropChanTx_tweak b p w e.2)]

theorem apply_dropCtx_tweak (b p) (w : World) : (tweak b p w).apply .dropCtx = tweak b p (w.apply .dropCtx) := by
  by_cases h : w.hasCtx = true
  · rw [apply_dropCtx _ h, apply_dropCtx _ (show (tweak b p w).hasCtx = true from h), dropCtxClosed_tweak]
    rfl
  · have h' : (tweak b p w).hasCtx = false := by simpa using h
    have h'' : w.hasCtx = false := h'
    simp only [World.apply, h', h'', Bool.not_false, ↓reduceIte]
    rfl

/-! ## events -/

theorem apply_tweak (b p) (w : World) (e : Ev) : (tweak b p w).apply e = tweak b p (w.apply e) := by
  cases e with
  | dropCtx => exact apply_dropCtx_tweak b p w
  | setup => tws [World.apply, badScript_tweak, flushRaw_tweak]
  | connect t => tws [World.apply, badScript_tweak]
  | authorize a => tws [World.apply, badScript_tweak]
  | run => tws [World.apply, badScript_tweak]
  | dropFut => rfl
  | markDisc secs => tws [World.apply, badScript_tweak]
  | snap => tws [World.apply, badScript_tweak]
  | feed chunks => tws [World.apply, badScript_tweak, feedEvents_tweak]
  | feedEof => tws [World.apply, badScript_tweak, feedEvents_tweak]
  | feedErr => tws [World.apply, badScript_tweak, feedEvents_tweak]
  | op id h req => tws [World.apply, badScript_tweak]
  | poll t => tws [World.apply, pollTask_tweak]
  | hold t => tws [World.apply]; rfl
  | release t => rfl
  | drop t =>
    cases t <;> tws [World.apply, dropOp_tweak]
    rfl
  | dropRsp id => tws [World.apply]; rfl
  | stream id => tws [World.apply, badScript_tweak]
  | clone h h2 => tws [World.apply, badScript_tweak]
  | dropHandle h => tws [World.apply, badScript_tweak]

theorem stepN_tweak (b p) (w : World) (e : Ev) : stepN (tweak b p w) e = tweak b p (stepN w e) := by
  unfold stepN
  simp only [tweak_bad, emit_tweak, apply_tweak, drainFuel_tweak, drain_tweak, tweak_task, tweak_reader, tweak_ite]

theorem stepsN_tweak (b p) (evs : List Ev) (w : World) :
    evs.foldl stepN (tweak b p w) = tweak b p (evs.foldl stepN w) :=
  foldl_tweak b p stepN (stepN_tweak b p) evs w

/-! ## the `sweep` switch is only read by `step` -/

theorem tweak_self (w : World) : tweak w.cfg.sweep [] w = w := rfl

/-- a function that commutes with `tweak` cannot change the `sweep` switch -/
theorem cfg_sweep_of_tweak (f : World → World) (hf : ∀ b w, f (tweak b [] w) = tweak b [] (f w)) (w : World) :
    (f w).cfg.sweep = w.cfg.sweep := by
  have h := hf w.cfg.sweep w
  rw [tweak_self] at h
  rw [h]
  rfl

theorem apply_cfg_sweep (w : World) (e : Ev) : (w.apply e).cfg.sweep = w.cfg.sweep :=
  cfg_sweep_of_tweak (·.apply e) (fun b w => apply_tweak b [] w e) w

theorem drain_cfg_sweep (f : Nat) (w : World) : (drain f w).cfg.sweep = w.cfg.sweep :=
  cfg_sweep_of_tweak (drain f) (fun b w => drain_tweak b [] f w) w

theorem step_eq_stepN_of_nosweep (w : World) (e : Ev) (h : w.cfg.sweep = false) : w.step e = stepN w e := by
  have hs : (drain ((w.emit (.ev e)).apply e).drainFuel ((w.emit (.ev e)).apply e)).cfg.sweep = false := by
    rw [drain_cfg_sweep, apply_cfg_sweep]; exact h
  unfold step stepN
  simp only [hs, Bool.false_eq_true, ↓reduceIte]

/-! ## the configuration never changes -/

theorem runEnd_cfg {w r : World} (h : RunEnd w r) : r.cfg = w.cfg := by
  cases h with
  | msgExit m q w1 fl hq hr hne =>
    have e : w1 = (World.runHandler { w with queue := q } (fun wok => w.c.handleMsg m wok)).1 := by rw [hr]
    subst e; simp
  | closed => simp
  | pktExit rx' rd' fr pk w1 fl hq hs hp hd hr hne =>
    have e : w1 = (World.runHandler { w with rx := rx', reader := rd' }
        (fun wok => w.c.handlePkt w.chanRxAlive pk wok)).1 := by rw [hr]
    subst e; simp
  | codec => simp
  | panic => simp
  | sock => simp
  | pending rx' rd' => split <;> simp

theorem runLoop_cfg (f : Nat) (w : World) : (runLoop f w).cfg = w.cfg := by
  obtain ⟨wm, hs, he⟩ := runLoop_decomp f w
  have h1 : wm.cfg = w.cfg := (serve_frame hs).2.2.2.2.1
  rcases he with he | he
  · rw [he, h1]
  · rw [runEnd_cfg he, h1]

theorem foldl_writeBytes_cfg (pkts : List Bytes) (w : World) :
    (pkts.foldl (fun w x => w.writeBytes x) w).cfg = w.cfg := by
  induction pkts generalizing w with
  | nil => rfl
  | cons x t ih => simp only [List.foldl_cons, ih, writeBytes_cfg]

theorem pollRun_cfg (w : World) (started : Bool) : (w.pollRun started).cfg = w.cfg := by
  unfold pollRun
  split
  · exact runLoop_cfg _ _
  · simp only
    split
    · simp [runLoop_cfg, foldl_writeBytes_cfg]
    · simp

theorem awaitFirst_cfg (w : World) (call : Call) (t : ConnectTx) (a : AuthTx) :
    (w.awaitFirst call t a).cfg = w.cfg := by
  unfold awaitFirst
  repeat' split
  all_goals simp

theorem pollConnect_cfg (w : World) (call : Call) (t : ConnectTx) (a : AuthTx) (started : Bool) :
    (w.pollConnect call t a started).cfg = w.cfg := by
  cases started with
  | true => simp only [pollConnect, ↓reduceIte, awaitFirst_cfg]
  | false =>
    cases call <;>
    · simp only [pollConnect, Bool.false_eq_true, ↓reduceIte, apply_ite World.cfg, awaitFirst_cfg, finish_cfg,
        writeBytes_cfg, ite_self]

theorem pollCtx_cfg (w : World) : w.pollCtx.cfg = w.cfg := by
  unfold pollCtx
  split
  · rfl
  · exact pollConnect_cfg ..
  · exact pollRun_cfg ..

theorem sendMsg_cfg {w w1 : World} {m : Msg} (h : w.sendMsg m = some w1) : w1.cfg = w.cfg := by
  rw [sendMsg_eq] at h
  split at h
  · cases h; rfl
  · cases h

theorem sendAwait_cfg (w : World) (m : Msg) (id s : Nat) (k : Wait) : (w.sendAwait m id s k).cfg = w.cfg := by
  unfold sendAwait
  cases h : w.sendMsg m with
  | none => simp
  | some w1 => simp [sendMsg_cfg h]

theorem startOp_cfg (w : World) (id : Nat) (req : Req) : (w.startOp id req).cfg = w.cfg := by
  cases req with
  | publish t =>
    by_cases hq : t.qos = 0
    · rw [User.startOp_publish0 _ _ _ hq]; split <;> simp [sendAwait_cfg]
    · rw [User.startOp_publish12 _ _ _ hq]; split <;> simp [sendAwait_cfg]
  | subscribe t =>
    rw [User.startOp_subscribe]
    simp only
    split
    · simp
    · cases h : World.sendMsg _ _ with
      | none => simp
      | some w1 => simp [sendMsg_cfg h]
  | unsubscribe t => rw [User.startOp_unsubscribe]; split <;> simp [sendAwait_cfg]
  | ping => rw [User.startOp_ping]; exact sendAwait_cfg ..
  | disconnect t => rw [User.startOp_disconnect]; exact sendAwait_cfg ..

theorem resumeOp_cfg (w : World) (id s : Nat) (k : Wait) (v : SlotVal) : (w.resumeOp id s k v).cfg = w.cfg := by
  cases v with
  | errSize => simp [resumeOp]
  | errQuota => simp [resumeOp]
  | unit => cases k <;> simp [resumeOp]
  | pkt x =>
    cases k <;> cases x <;> simp only [resumeOp, apply_ite World.cfg, finishOp_cfg, clearSlot_cfg, senderGone_cfg,
      emit_cfg, ite_self]
    split
    · rfl
    · cases h : World.sendMsg _ _ with
      | none => simp
      | some w1 => simp [sendMsg_cfg h]

theorem pollOp_cfg (w : World) (id : Nat) : (w.pollOp id).cfg = w.cfg := by
  unfold pollOp
  repeat' split
  all_goals simp [startOp_cfg, resumeOp_cfg]

theorem dropOp_cfg (w : World) (id : Nat) : (w.dropOp id).cfg = w.cfg := by
  unfold dropOp
  repeat' split
  all_goals simp

theorem pollStream_cfg (w : World) (id : Nat) : (w.pollStream id).cfg = w.cfg := by
  unfold pollStream
  repeat' split
  all_goals simp

theorem pollTask_cfg (w : World) (t : Task) : (w.pollTask t).cfg = w.cfg := by
  cases t <;> simp [pollTask, pollCtx_cfg, pollOp_cfg, pollStream_cfg]

theorem drain_cfg (f : Nat) (w : World) : (drain f w).cfg = w.cfg := by
  induction f generalizing w with
  | zero => rfl
  | succ f ih =>
    rw [drain]
    split
    · rfl
    · rw [ih, pollTask_cfg]

theorem feedEvents_cfg (w : World) (evs : List ReadEv) : (w.feedEvents evs).cfg = w.cfg := by
  unfold feedEvents
  simp only
  split <;> simp

theorem flushRaw_cfg (w : World) : w.flushRaw.cfg = w.cfg := by
  unfold flushRaw
  split <;> simp

theorem badScript_cfg (w : World) : w.badScript.cfg = w.cfg := rfl

theorem dropCtxClosed_cfg (w : World) : (dropCtxClosed w).cfg = w.cfg :=
  (closes_inv (closes_dropCtxClosed w)).cfg_eq

theorem apply_cfg (w : World) (e : Ev) : (w.apply e).cfg = w.cfg := by
  cases e with
  | dropCtx =>
    by_cases h : w.hasCtx = true
    · rw [apply_dropCtx _ h]; exact dropCtxClosed_cfg w
    · simp only [World.apply, h, Bool.not_eq_true, Bool.not_false, ↓reduceIte]
  | drop t =>
    cases t
    · rfl
    · exact dropOp_cfg ..
    · simp only [World.apply]; split <;> simp
  | _ =>
    simp only [World.apply]
    repeat' split
    all_goals simp [badScript_cfg, flushRaw_cfg, feedEvents_cfg, pollTask_cfg]

theorem stepN_cfg (w : World) (e : Ev) : (stepN w e).cfg = w.cfg := by
  unfold stepN
  simp only [apply_ite World.cfg, emit_cfg, apply_cfg, drain_cfg, ite_self]

end World
end Poster

#print axioms Poster.World.apply_tweak
#print axioms Poster.World.drain_tweak
#print axioms Poster.World.sweep_tweak
#print axioms Poster.World.stepN_tweak
#print axioms Poster.World.stepsN_tweak
#print axioms Poster.World.finishScript_tweak
#print axioms Poster.World.step_eq_stepN_of_nosweep
#print axioms Poster.World.stepN_cfg
