/-
  Lemmas/WorldStream.lean — subscription channels and streams, as a labelled transition system.

  Everything the whole-client machine `World` does to the table of subscription channels (`World.chans`) and to the
  `ITEM` / `END` lines of the log is one of a few *moves* (`SMove`): the context applies the effects of one handler
  call (or of a session reset, or of being dropped), `subscribe()` creates its channel, a receiver is dropped, a stream
  yields the head of its buffer, parks on an empty buffer, or ends. A `STrace` is a sequence of such moves with their
  labels; `Lemmas/WorldStreamDec.lean` shows that every primitive of `World` (up to a whole script step) is such a
  sequence. This file defines the vocabulary and proves what every move — hence every trace — preserves:

    * `ChanWf`      the channel table has one entry per channel, all with a live receiving half;
    * `SMove.hist`  the conservation law: items yielded so far ++ buffer grows exactly by the deliveries of the move;
    * `FrInv`       a `subscribe()` not yet polled has no channel (channels are named after operation identifiers);
    * `closed`      a channel loses its sender only by a `dropChan` effect of the context.

  Every move also records what it does to the subscription-identifier counter and to the identifiers in flight
  (`SubFrame` / `NewFrame`), used by Lemmas/WorldStreamSid.lean.

  Note on intermediate worlds. A trace is a chain of `SMove`s between worlds; the decomposition lemmas are free to choose
  the intermediate worlds, and for `subscribe()` first polled without a context they pass through two worlds that order
  the field updates of `startOp` differently from the code (channel created and future retired, then channel dropped,
  then `DONE` logged). Only the end points of a trace are worlds of the machine; all theorems speak about those.
-/
import PosterModel.Lemmas.WorldCtx
import PosterModel.Lemmas.WorldOps
import PosterModel.Lemmas.ScriptIds
import PosterModel.Lemmas.UserAlloc

set_option linter.unusedVariables false
set_option linter.unusedSimpArgs false

namespace Poster
open Framing

/-! ## the pure channel table -/

/-- the messages stream `id` has yielded, in order: the `ITEM id p` lines of a log -/
def itemsOf (id : Nat) (out : List Obs) : List PublishRx :=
  out.filterMap fun o => match o with
    | .item i p => if i = id then some p else none
    | _ => none

/-- the messages the effects `es` push into channel `id`, in order -/
def deliversTo (id : Nat) (es : List Eff) : List PublishRx :=
  es.filterMap fun e => match e with
    | .deliver c p => if c = id then some p else none
    | _ => none

@[simp] theorem itemsOf_nil (id : Nat) : itemsOf id [] = [] := rfl
@[simp] theorem itemsOf_append (id : Nat) (a b : List Obs) : itemsOf id (a ++ b) = itemsOf id a ++ itemsOf id b := by
  simp [itemsOf, List.filterMap_append]
@[simp] theorem deliversTo_nil (id : Nat) : deliversTo id [] = [] := rfl
@[simp] theorem deliversTo_append (id : Nat) (a b : List Eff) :
    deliversTo id (a ++ b) = deliversTo id a ++ deliversTo id b := by
  simp [deliversTo, List.filterMap_append]
theorem deliversTo_cons (id : Nat) (e : Eff) (t : List Eff) :
    deliversTo id (e :: t) = deliversTo id [e] ++ deliversTo id t := by
  rw [← deliversTo_append]; rfl
@[simp] theorem itemsOf_item_self (id : Nat) (p : PublishRx) : itemsOf id [.item id p] = [p] := by
  simp [itemsOf]
theorem itemsOf_item_ne (id c : Nat) (p : PublishRx) (h : c ≠ id) : itemsOf id [.item c p] = [] := by
  simp [itemsOf, h]

/-- `deliversTo` in terms of `deliversOf` -/
theorem deliversTo_eq (id : Nat) (es : List Eff) :
    deliversTo id es = (deliversOf es).filterMap fun d => if d.1 = id then some d.2 else none := by
  induction es with
  | nil => rfl
  | cons e t ih =>
    rw [deliversTo_cons, ih]
    cases e with
    | deliver c p =>
      by_cases h : c = id <;> simp [deliversTo, deliversOf, h]
    | _ => simp [deliversTo, deliversOf]

/-- neither an `ITEM` nor an `END` line -/
def StreamQuiet (o : Obs) : Prop := (∀ id p, o ≠ .item id p) ∧ (∀ id, o ≠ .endStream id)

theorem itemsOf_streamQuiet (id : Nat) (l : List Obs) (h : ∀ o ∈ l, StreamQuiet o) : itemsOf id l = [] := by
  induction l with
  | nil => rfl
  | cons o t ih =>
    have h1 := h o (by simp)
    have h2 := ih (fun o' ho' => h o' (by simp [ho']))
    show itemsOf id ([o] ++ t) = []
    rw [itemsOf_append, h2]
    cases o <;> simp [itemsOf]
    rename_i i p
    exact absurd rfl (h1.1 i p)

abbrev Chans := List (Nat × Chan)

/-- `World.deliver` on the table -/
def chDeliver (chs : Chans) (c : Nat) (p : PublishRx) : Chans :=
  match lookupFirst c chs with
  | some ch => World.setAssoc c { ch with buf := ch.buf ++ [p], reg := false } chs
  | none => chs

/-- `World.dropChanTx` on the table -/
def chDropTx (chs : Chans) (c : Nat) : Chans :=
  match lookupFirst c chs with
  | some ch => World.setAssoc c { ch with txAlive := false, reg := false } chs
  | none => chs

/-- one effect of the context on the table -/
def chEff (chs : Chans) : Eff → Chans
  | .deliver c p => chDeliver chs c p
  | .dropChan c => chDropTx chs c
  | _ => chs

def chEffs (chs : Chans) (es : List Eff) : Chans := es.foldl chEff chs

@[simp] theorem chEffs_nil (chs : Chans) : chEffs chs [] = chs := rfl
@[simp] theorem chEffs_cons (chs : Chans) (e : Eff) (t : List Eff) : chEffs chs (e :: t) = chEffs (chEff chs e) t := rfl
theorem chEffs_append (chs : Chans) (a b : List Eff) : chEffs chs (a ++ b) = chEffs (chEffs chs a) b := by
  simp [chEffs, List.foldl_append]

theorem lookup_setAssoc (k j : Nat) (v : Chan) (chs : Chans) :
    lookupFirst j (World.setAssoc k v chs) = if j = k then some v else lookupFirst j chs := by
  by_cases h : j = k
  · subst h; simp [User.lookupFirst_setAssoc_self]
  · simp [h, User.lookupFirst_setAssoc_ne k j v chs h]

theorem lookup_chDeliver (chs : Chans) (c j : Nat) (p : PublishRx) :
    lookupFirst j (chDeliver chs c p) =
      if j = c then (lookupFirst j chs).map (fun ch => { ch with buf := ch.buf ++ [p], reg := false })
      else lookupFirst j chs := by
  unfold chDeliver
  cases h : lookupFirst c chs with
  | none =>
    by_cases hj : j = c
    · subst hj; simp [h]
    · simp [hj]
  | some ch =>
    simp only [lookup_setAssoc]
    by_cases hj : j = c
    · subst hj; simp [h]
    · simp [hj]

theorem lookup_chDropTx (chs : Chans) (c j : Nat) :
    lookupFirst j (chDropTx chs c) =
      if j = c then (lookupFirst j chs).map (fun ch => { ch with txAlive := false, reg := false })
      else lookupFirst j chs := by
  unfold chDropTx
  cases h : lookupFirst c chs with
  | none =>
    by_cases hj : j = c
    · subst hj; simp [h]
    · simp [hj]
  | some ch =>
    simp only [lookup_setAssoc]
    by_cases hj : j = c
    · subst hj; simp [h]
    · simp [hj]

/-- replacing the value of an existing key leaves the keys alone -/
theorem setAssoc_keys_same (k : Nat) (v v0 : Chan) (chs : Chans) (h : lookupFirst k chs = some v0) :
    (World.setAssoc k v chs).map (·.1) = chs.map (·.1) := by
  induction chs with
  | nil => simp [lookupFirst] at h
  | cons x t ih =>
    obtain ⟨a, b⟩ := x
    by_cases hk : a = k
    · simp [World.setAssoc, hk]
    · simp only [lookupFirst, hk, if_false] at h
      simp [World.setAssoc, hk, ih h]

/-- adding a new key appends it -/
theorem setAssoc_keys_new (k : Nat) (v : Chan) (chs : Chans) (h : lookupFirst k chs = none) :
    (World.setAssoc k v chs).map (·.1) = chs.map (·.1) ++ [k] := by
  induction chs with
  | nil => simp [World.setAssoc]
  | cons x t ih =>
    obtain ⟨a, b⟩ := x
    by_cases hk : a = k
    · simp [lookupFirst, hk] at h
    · simp only [lookupFirst, hk, if_false] at h
      simp [World.setAssoc, hk, ih h]

theorem chEff_keys (chs : Chans) (e : Eff) : (chEff chs e).map (·.1) = chs.map (·.1) := by
  cases e with
  | deliver c p =>
    simp only [chEff, chDeliver]
    cases h : lookupFirst c chs with
    | none => rfl
    | some ch => exact setAssoc_keys_same _ _ _ _ h
  | dropChan c =>
    simp only [chEff, chDropTx]
    cases h : lookupFirst c chs with
    | none => rfl
    | some ch => exact setAssoc_keys_same _ _ _ _ h
  | _ => rfl

theorem chEffs_keys (chs : Chans) (es : List Eff) : (chEffs chs es).map (·.1) = chs.map (·.1) := by
  induction es generalizing chs with
  | nil => rfl
  | cons e t ih => rw [chEffs_cons, ih, chEff_keys]

/-- what the effects do to the entry of channel `j`: the buffer grows at its end by the deliveries into `j`, the
    receiving half is untouched, the sending half is gone iff it was or one of the effects drops it -/
theorem lookup_chEffs (chs : Chans) (es : List Eff) (j : Nat) :
    (lookupFirst j chs = none → lookupFirst j (chEffs chs es) = none) ∧
    (∀ ch, lookupFirst j chs = some ch → ∃ ch', lookupFirst j (chEffs chs es) = some ch' ∧
      ch'.buf = ch.buf ++ deliversTo j es ∧ ch'.rxAlive = ch.rxAlive ∧
      (ch'.txAlive = (ch.txAlive && !(es.contains (.dropChan j))))) := by
  induction es generalizing chs with
  | nil =>
    refine ⟨fun h => h, fun ch h => ⟨ch, h, by simp, rfl, by simp⟩⟩
  | cons e t ih =>
    rw [chEffs_cons]
    obtain ⟨ih1, ih2⟩ := ih (chEff chs e)
    constructor
    · intro h
      apply ih1
      cases e with
      | deliver c p => simp only [chEff, lookup_chDeliver, h]; split <;> rfl
      | dropChan c => simp only [chEff, lookup_chDropTx, h]; split <;> rfl
      | _ => exact h
    · intro ch h
      cases e with
      | deliver c p =>
        by_cases hj : j = c
        · subst hj
          have h' : lookupFirst j (chEff chs (.deliver j p)) = some { ch with buf := ch.buf ++ [p], reg := false } := by
            simp [chEff, lookup_chDeliver, h]
          obtain ⟨ch', a, b, c, d⟩ := ih2 _ h'
          refine ⟨ch', a, ?_, c, ?_⟩
          · rw [b, deliversTo_cons j (.deliver j p)]; simp [deliversTo]
          · rw [d]; simp
        · have h' : lookupFirst j (chEff chs (.deliver c p)) = some ch := by
            simp [chEff, lookup_chDeliver, hj, h]
          obtain ⟨ch', a, b, c', d⟩ := ih2 _ h'
          refine ⟨ch', a, ?_, c', ?_⟩
          · rw [b, deliversTo_cons j (.deliver c p)]
            have : ¬ c = j := fun e => hj e.symm
            simp [deliversTo, this]
          · rw [d]; simp
      | dropChan c =>
        by_cases hj : j = c
        · subst hj
          have h' : lookupFirst j (chEff chs (.dropChan j)) = some { ch with txAlive := false, reg := false } := by
            simp [chEff, lookup_chDropTx, h]
          obtain ⟨ch', a, b, c, d⟩ := ih2 _ h'
          refine ⟨ch', a, ?_, c, ?_⟩
          · rw [b, deliversTo_cons j (.dropChan j)]; simp [deliversTo]
          · rw [d]; simp
        · have h' : lookupFirst j (chEff chs (.dropChan c)) = some ch := by
            simp [chEff, lookup_chDropTx, hj, h]
          obtain ⟨ch', a, b, c', d⟩ := ih2 _ h'
          refine ⟨ch', a, ?_, c', ?_⟩
          · rw [b, deliversTo_cons j (.dropChan c)]; simp [deliversTo]
          · rw [d]
            simp [hj]
      | write bs =>
        obtain ⟨ch', a, b, c', d⟩ := ih2 _ (show lookupFirst j (chEff chs (.write bs)) = some ch from h)
        exact ⟨ch', a, by rw [b, deliversTo_cons j (.write bs)]; simp [deliversTo], c', by rw [d]; simp⟩
      | send s v =>
        obtain ⟨ch', a, b, c', d⟩ := ih2 _ (show lookupFirst j (chEff chs (.send s v)) = some ch from h)
        exact ⟨ch', a, by rw [b, deliversTo_cons j (.send s v)]; simp [deliversTo], c', by rw [d]; simp⟩
      | dropSlot s =>
        obtain ⟨ch', a, b, c', d⟩ := ih2 _ (show lookupFirst j (chEff chs (.dropSlot s)) = some ch from h)
        exact ⟨ch', a, by rw [b, deliversTo_cons j (.dropSlot s)]; simp [deliversTo], c', by rw [d]; simp⟩

namespace World

/-! ## the primitives of `World` on the table -/

theorem deliver_chans_eq (w : World) (c : Nat) (p : PublishRx) : (w.deliver c p).chans = chDeliver w.chans c p := by
  have e : w.chan c = lookupFirst c w.chans := rfl
  unfold deliver chDeliver
  rw [e]
  cases h : lookupFirst c w.chans with
  | none => rfl
  | some ch =>
    simp only
    split <;> simp [setChan]

theorem dropChanTx_chans_eq (w : World) (c : Nat) : (w.dropChanTx c).chans = chDropTx w.chans c := by
  have e : w.chan c = lookupFirst c w.chans := rfl
  unfold dropChanTx chDropTx
  rw [e]
  cases h : lookupFirst c w.chans with
  | none => rfl
  | some ch =>
    simp only
    split <;> simp [setChan]

theorem applyEff_chans_eq (w : World) (e : Eff) : (w.applyEff e).chans = chEff w.chans e := by
  cases e with
  | write bs => exact User.writeBytes_chans w bs
  | send s v => exact (User.sendSlot_chans w s v).1
  | dropSlot s => exact (User.dropSlotTx_chans w s).1
  | deliver c p => exact deliver_chans_eq w c p
  | dropChan c => exact dropChanTx_chans_eq w c

theorem applyEffs_chans_eq (w : World) (es : List Eff) : (w.applyEffs es).chans = chEffs w.chans es := by
  unfold applyEffs
  induction es generalizing w with
  | nil => rfl
  | cons e t ih => rw [List.foldl_cons, ih, applyEff_chans_eq]; rfl

/-! ## labels -/

/-- what every sender the context owns on behalf of the queued message `m` is: its oneshot, and for a SUBSCRIBE its
    subscription sender -/
def closeMsgEffs : Msg → List Eff
  | .ff _ s => [.dropSlot s]
  | .awaitAck _ _ s => [.dropSlot s]
  | .subscribe _ _ _ s ch => [.dropSlot s, .dropChan ch]

/-- the senders dropped together with the context: those of the queued messages, of `awaiting_ack`, of `subscriptions` -/
def closeEffs (q : List Msg) (c : Ctx) : List Eff :=
  q.flatMap closeMsgEffs ++ c.awaiting.map (fun e => Eff.dropSlot e.2) ++ c.subs.map (fun e => Eff.dropChan e.2)

/-- where a batch of effects of the context comes from -/
inductive CtxSrc where
  /-- `handle_message` / `handle_packet` called in context state `c` on the input `i` -/
  | handler (c : Ctx) (i : CIn)
  /-- the prelude of `run()` in context state `c` (session resumption; a reset drops the session's senders) -/
  | resume (c : Ctx)
  /-- the context is dropped with the messages `q` still queued and in state `c` -/
  | dropCtx (q : List Msg) (c : Ctx)
  /-- a new `Context` is created (`setup`) -/
  | fresh

/-- the effects, in order -/
def CtxSrc.effs : CtxSrc → List Eff
  | .handler c i => (c.stepIn i).2.effs
  | .resume c => c.resume.2.1
  | .dropCtx q c => closeEffs q c
  | .fresh => []

/-- the context state afterwards -/
def CtxSrc.after : CtxSrc → Ctx
  | .handler c i => (c.stepIn i).1
  | .resume c => c.resume.1
  | .dropCtx _ _ => {}
  | .fresh => {}

/-- the source is what the world `w` says: the handler is called in `w`'s context state on the first queued message, or
    (nothing queued) on the packet decoded from the next frame the framing layer yields from `w`'s transport — with the
    write bit and the dead channels of `w` -/
def SrcOk (w : World) : CtxSrc → Prop
  | .handler c i => c = w.c ∧
      ((∃ m q, w.queue = m :: q ∧ i = w.inMsg m) ∨
       (∃ p, p.wf ∧ w.queue = [] ∧ i = w.inPkt p ∧
          ∃ rx' rd' fr, pollNext w.rx w.reader = (rx', rd', .item fr) ∧ decodeRx fr = .ok p))
  | .resume c => c = w.c
  | .dropCtx q c => q = w.queue ∧ c = w.c
  | .fresh => True

/-- the labels of the moves -/
inductive SLab where
  /-- nothing that concerns subscription channels or the stream lines of the log -/
  | tau
  /-- the context applies a batch of effects -/
  | ctx (src : CtxSrc)
  /-- the script issues operation `id` -/
  | addOp (id : Nat)
  /-- `subscribe()` first polled, identifiers allocated, but the request cannot be encoded: it fails at once -/
  | alloc (id : Nat)
  /-- `subscribe()` first polled: the channel `id` of operation `id` is created (empty, both halves alive) -/
  | new (id : Nat)
  /-- the receiving half of channel `id` is dropped (with whatever is still buffered) -/
  | dropRx (id : Nat)
  /-- stream `id` yields `p`, the head of its buffer -/
  | pop (id : Nat) (p : PublishRx)
  /-- stream `id` finds its buffer empty and the sender alive: it registers its waker -/
  | park (id : Nat)
  /-- stream `id` finds its buffer empty and the sender gone: it ends -/
  | endS (id : Nat)

/-- the effects a label stands for -/
def SLab.effs : SLab → List Eff
  | .ctx src => src.effs
  | _ => []

/-- the operation identifier a label issues -/
def SLab.issued : SLab → Option Nat
  | .addOp id => some id
  | _ => none

/-- the operation whose `subscribe()` future a label polls for the first time (allocating its identifiers) -/
def SLab.started : SLab → Option Nat
  | .new id => some id
  | .alloc id => some id
  | _ => none

/-- the `subscribe()` futures first polled along a trace -/
def startedOf (tr : List SLab) : List Nat := tr.filterMap SLab.started

theorem startedOf_cons (l : SLab) (tr : List SLab) : startedOf (l :: tr) = l.started.toList ++ startedOf tr := by
  simp only [startedOf, List.filterMap_cons]
  cases l.started <;> rfl

/-- the identifiers issued along a trace -/
def issuedOf (tr : List SLab) : List Nat := tr.filterMap SLab.issued

/-- **the ghost**: all messages the context pushed into channel `id` along a trace, in order -/
def delivered (id : Nat) (tr : List SLab) : List PublishRx := tr.flatMap fun l => deliversTo id l.effs

@[simp] theorem delivered_nil (id : Nat) : delivered id [] = [] := rfl
@[simp] theorem delivered_cons (id : Nat) (l : SLab) (tr : List SLab) :
    delivered id (l :: tr) = deliversTo id l.effs ++ delivered id tr := by simp [delivered]
@[simp] theorem delivered_append (id : Nat) (a b : List SLab) :
    delivered id (a ++ b) = delivered id a ++ delivered id b := by simp [delivered]
@[simp] theorem issuedOf_nil : issuedOf [] = [] := rfl
@[simp] theorem issuedOf_append (a b : List SLab) : issuedOf (a ++ b) = issuedOf a ++ issuedOf b := by
  simp [issuedOf, List.filterMap_append]
theorem issuedOf_cons (l : SLab) (tr : List SLab) : issuedOf (l :: tr) = l.issued.toList ++ issuedOf tr := by
  simp only [issuedOf, List.filterMap_cons]
  cases l.issued <;> rfl

/-! ## moves -/

/-- no handle future becomes "not yet polled" again: every entry of the operation table is unchanged, or it existed
    and is now something else than a fresh future (waiting, or gone) -/
def OpsKeep (w w' : World) : Prop :=
  ∀ n, w'.opSt n = w.opSt n ∨ (w.opSt n ≠ none ∧ ∀ h r, w'.opSt n ≠ some (.fresh h r))

theorem opsKeep_of_eq {w w' : World} (h : w'.ops = w.ops) : OpsKeep w w' := fun n => Or.inl (by simp [opSt, h])
theorem opsKeep_refl (w : World) : OpsKeep w w := fun _ => Or.inl rfl
theorem opsKeep_trans {a b c : World} (h1 : OpsKeep a b) (h2 : OpsKeep b c) : OpsKeep a c := by
  intro n
  rcases h2 n with e2 | ⟨x2, y2⟩
  · rcases h1 n with e1 | ⟨x1, y1⟩
    · exact Or.inl (e2.trans e1)
    · exact Or.inr ⟨x1, fun h r => by rw [e2]; exact y1 h r⟩
  · rcases h1 n with e1 | ⟨x1, _⟩
    · exact Or.inr ⟨by rw [← e1]; exact x2, y2⟩
    · exact Or.inr ⟨x1, y2⟩

abbrev SQExt (w w' : World) : Prop := OutExtP StreamQuiet w w'

/-! ### subscription identifiers in flight -/

/-- the subscription identifier a queued message will register -/
def _root_.Poster.Msg.sid? : Msg → Option Nat
  | .subscribe _ sid _ _ _ => some sid
  | _ => none

/-- the subscription identifiers in flight: those of the queued SUBSCRIBE messages, then those registered -/
def psids (w : World) : List Nat := w.queue.filterMap Msg.sid? ++ w.c.subs.map (·.1)

/-- nothing is allocated; the identifiers in flight are, up to order, some of those that were -/
def SubFrame (w w' : World) : Prop :=
  w'.subCtr = w.subCtr ∧ ((psids w).Nodup → (psids w').Nodup) ∧ ∀ s ∈ psids w', s ∈ psids w

/-- one subscription identifier (the counter's value) is allocated and possibly put in flight -/
def NewFrame (w w' : World) : Prop :=
  w'.subCtr = nextSub w.subCtr ∧ ((psids w).Nodup → (∀ s ∈ psids w, s ≠ w.subCtr) → (psids w').Nodup) ∧
    ∀ s ∈ psids w', s ∈ psids w ∨ s = w.subCtr

theorem subFrame_refl (w : World) : SubFrame w w := ⟨rfl, id, fun _ h => h⟩

theorem subFrame_of_psids {w w' : World} (sc : w'.subCtr = w.subCtr) (h : psids w' = psids w) : SubFrame w w' :=
  ⟨sc, by rw [h]; exact id, by rw [h]; exact fun _ h => h⟩

theorem subFrame_of_eq {w w' : World} (sc : w'.subCtr = w.subCtr) (q : w'.queue = w.queue)
    (su : w'.c.subs = w.c.subs) : SubFrame w w' :=
  subFrame_of_psids sc (by simp [psids, q, su])

theorem subFrame_of_sublist {w w' : World} (sc : w'.subCtr = w.subCtr) (h : (psids w').Sublist (psids w)) :
    SubFrame w w' := ⟨sc, fun hn => h.nodup hn, fun s hs => h.subset hs⟩

theorem subFrame_trans {a b c : World} (h1 : SubFrame a b) (h2 : SubFrame b c) : SubFrame a c :=
  ⟨h2.1.trans h1.1, fun hn => h2.2.1 (h1.2.1 hn), fun s hs => h1.2.2 s (h2.2.2 s hs)⟩

/-- discharges `SubFrame w w'` when queue, subscription table and counter are visibly unchanged -/
macro "sub_frame" : tactic =>
  `(tactic| first
    | exact subFrame_refl _
    | exact subFrame_of_eq (by first | rfl | (simp; done)) (by first | rfl | (simp; done))
        (by first | rfl | (simp; done)))

/-- **the moves**: everything `World` does, as far as subscription channels, the stream lines of the log, the
    subscription table of the context and the freshness of handle futures are concerned -/
inductive SMove : SLab → World → World → Prop
  | tau {w w' : World} (chans : w'.chans = w.chans) (subs : w'.c.subs = w.c.subs) (ops : OpsKeep w w')
      (out : SQExt w w') (sub : SubFrame w w' := by sub_frame) : SMove .tau w w'
  | ctx {w w' : World} (src : CtxSrc) (ok : SrcOk w src) (chans : w'.chans = chEffs w.chans src.effs)
      (c_eq : w'.c = src.after) (ops : w'.ops = w.ops) (out : SQExt w w')
      (live : ∀ ch q, (ch, q) ∈ deliversOf src.effs → w.chan ch ≠ none) (sub : SubFrame w w' := by sub_frame) :
      SMove (.ctx src) w w'
  | addOp {w w' : World} (id h : Nat) (req : Req) (absent : w.opSt id = none)
      (ops : w'.ops = w.ops ++ [(id, .fresh h req)]) (chans : w'.chans = w.chans) (c_eq : w'.c = w.c)
      (out : w'.out = w.out) (sub : SubFrame w w' := by sub_frame) : SMove (.addOp id) w w'
  | alloc {w w' : World} (id h : Nat) (req : Req) (fresh : w.opSt id = some (.fresh h req))
      (notFresh : ∀ h r, w'.opSt id ≠ some (.fresh h r)) (ops : OpsKeep w w') (chans : w'.chans = w.chans)
      (c_eq : w'.c = w.c) (out : SQExt w w') (sub : NewFrame w w') : SMove (.alloc id) w w'
  | new {w w' : World} (id h : Nat) (req : Req) (fresh : w.opSt id = some (.fresh h req))
      (notFresh : ∀ h r, w'.opSt id ≠ some (.fresh h r)) (ops : OpsKeep w w')
      (chans : w'.chans = setAssoc id {} w.chans) (c_eq : w'.c = w.c) (out : w'.out = w.out)
      (sub : NewFrame w w') : SMove (.new id) w w'
  | dropRx {w w' : World} (id : Nat) (chans : w'.chans = eraseFirst id w.chans) (c_eq : w'.c = w.c)
      (ops : OpsKeep w w') (out : w'.out = w.out) (sub : SubFrame w w' := by sub_frame) : SMove (.dropRx id) w w'
  | pop {w w' : World} (id : Nat) (p : PublishRx) (ch : Chan) (rest : List PublishRx) (hch : w.chan id = some ch)
      (hbuf : ch.buf = p :: rest) (chans : w'.chans = setAssoc id { ch with buf := rest } w.chans)
      (c_eq : w'.c = w.c) (ops : OpsKeep w w') (out : w'.out = w.out ++ [.item id p])
      (sub : SubFrame w w' := by sub_frame) : SMove (.pop id p) w w'
  | park {w w' : World} (id : Nat) (ch : Chan) (hch : w.chan id = some ch) (hbuf : ch.buf = [])
      (htx : ch.txAlive = true) (chans : w'.chans = setAssoc id { ch with reg := true } w.chans)
      (c_eq : w'.c = w.c) (ops : OpsKeep w w') (out : w'.out = w.out) (sub : SubFrame w w' := by sub_frame) :
      SMove (.park id) w w'
  | endS {w w' : World} (id : Nat) (ch : Chan) (hch : w.chan id = some ch) (hbuf : ch.buf = [])
      (htx : ch.txAlive = false) (chans : w'.chans = eraseFirst id w.chans)
      (c_eq : w'.c = w.c) (ops : OpsKeep w w') (out : w'.out = w.out ++ [.endStream id])
      (sub : SubFrame w w' := by sub_frame) : SMove (.endS id) w w'

/-- a sequence of moves with its labels -/
inductive STrace : World → List SLab → World → Prop
  | refl (w : World) : STrace w [] w
  | cons {a b c : World} {l : SLab} {tr : List SLab} : SMove l a b → STrace b tr c → STrace a (l :: tr) c

theorem STrace.one {l : SLab} {a b : World} (h : SMove l a b) : STrace a [l] b := .cons h (.refl b)

theorem STrace.trans {a b c : World} {t1 t2 : List SLab} (h1 : STrace a t1 b) (h2 : STrace b t2 c) :
    STrace a (t1 ++ t2) c := by
  induction h1 with
  | refl => exact h2
  | cons hm _ ih => exact .cons hm (ih h2)

theorem STrace.split {a c : World} {t1 t2 : List SLab} (h : STrace a (t1 ++ t2) c) :
    ∃ b, STrace a t1 b ∧ STrace b t2 c := by
  induction t1 generalizing a with
  | nil => exact ⟨a, .refl a, h⟩
  | cons l t ih =>
    cases h with
    | cons hm ht =>
      obtain ⟨b, h1, h2⟩ := ih ht
      exact ⟨b, .cons hm h1, h2⟩

theorem STrace.split_at {a c : World} {t1 t2 : List SLab} {l : SLab} (h : STrace a (t1 ++ l :: t2) c) :
    ∃ b b', STrace a t1 b ∧ SMove l b b' ∧ STrace b' t2 c := by
  obtain ⟨b, h1, h2⟩ := h.split
  cases h2 with
  | cons hm ht => exact ⟨b, _, h1, hm, ht⟩

/-- `w'` is reached from `w` by moves whose labels all satisfy `A` -/
def Dec (A : SLab → Prop) (w w' : World) : Prop := ∃ tr, STrace w tr w' ∧ ∀ l ∈ tr, A l

theorem Dec.refl (A : SLab → Prop) (w : World) : Dec A w w := ⟨[], .refl w, by simp⟩
theorem Dec.of_eq {A : SLab → Prop} {w w' : World} (h : w' = w) : Dec A w w' := h ▸ Dec.refl A w
theorem Dec.one {A : SLab → Prop} {l : SLab} {w w' : World} (h : SMove l w w') (hl : A l) : Dec A w w' :=
  ⟨[l], .one h, by simpa using hl⟩
theorem Dec.trans {A : SLab → Prop} {a b c : World} (h1 : Dec A a b) (h2 : Dec A b c) : Dec A a c := by
  obtain ⟨t1, s1, a1⟩ := h1
  obtain ⟨t2, s2, a2⟩ := h2
  refine ⟨t1 ++ t2, s1.trans s2, fun l hl => ?_⟩
  rcases List.mem_append.mp hl with h | h
  · exact a1 l h
  · exact a2 l h
theorem Dec.mono {A B : SLab → Prop} {a b : World} (h : Dec A a b) (hab : ∀ l, A l → B l) : Dec B a b := by
  obtain ⟨t, s, a1⟩ := h
  exact ⟨t, s, fun l hl => hab l (a1 l hl)⟩

/-- label classes -/
def CtxLab (l : SLab) : Prop := l = .tau ∨ ∃ src, l = .ctx src
def OpLab (id : Nat) (l : SLab) : Prop := l = .tau ∨ l = .new id ∨ l = .dropRx id ∨ l = .alloc id
def StLab (id : Nat) (l : SLab) : Prop := l = .tau ∨ (∃ p, l = .pop id p) ∨ l = .park id ∨ l = .endS id
def TaskLab : Task → SLab → Prop
  | .ctx => CtxLab
  | .op id => OpLab id
  | .st id => StLab id
/-- anything but the script issuing an operation -/
def NoAdd (l : SLab) : Prop := l.issued = none

theorem noAdd_of_ctxLab {l : SLab} (h : CtxLab l) : NoAdd l := by
  rcases h with rfl | ⟨src, rfl⟩ <;> rfl
theorem noAdd_of_opLab {id : Nat} {l : SLab} (h : OpLab id l) : NoAdd l := by
  rcases h with rfl | rfl | rfl | rfl <;> rfl
theorem noAdd_of_stLab {id : Nat} {l : SLab} (h : StLab id l) : NoAdd l := by
  rcases h with rfl | ⟨p, rfl⟩ | rfl | rfl <;> rfl
theorem noAdd_of_taskLab {t : Task} {l : SLab} (h : TaskLab t l) : NoAdd l := by
  cases t with
  | ctx => exact noAdd_of_ctxLab h
  | op id => exact noAdd_of_opLab h
  | st id => exact noAdd_of_stLab h

theorem issuedOf_of_noAdd {tr : List SLab} (h : ∀ l ∈ tr, NoAdd l) : issuedOf tr = [] := by
  induction tr with
  | nil => rfl
  | cons l t ih =>
    rw [issuedOf_cons, ih (fun l' hl' => h l' (by simp [hl']))]
    have : l.issued = none := h l (by simp)
    simp [this]

/-- a quiet step: only fields no move looks at change -/
theorem SMove.quiet {w w' : World} (chans : w'.chans = w.chans) (c_eq : w'.c = w.c) (ops : w'.ops = w.ops)
    (out : w'.out = w.out) (q : w'.queue = w.queue := by first | rfl | (simp; done))
    (sc : w'.subCtr = w.subCtr := by first | rfl | (simp; done)) : SMove .tau w w' :=
  .tau chans (by rw [c_eq]) (opsKeep_of_eq ops) (outExtP_of_eq out) (subFrame_of_eq sc q (by rw [c_eq]))

theorem Dec.quiet {A : SLab → Prop} (hA : A .tau) {w w' : World} (chans : w'.chans = w.chans) (c_eq : w'.c = w.c)
    (ops : w'.ops = w.ops) (out : w'.out = w.out) (q : w'.queue = w.queue := by first | rfl | (simp; done))
    (sc : w'.subCtr = w.subCtr := by first | rfl | (simp; done)) : Dec A w w' :=
  .one (.quiet chans c_eq ops out q sc) hA

theorem streamQuiet_wire (bs : Bytes) : StreamQuiet (.wire bs) ∧ StreamQuiet (.wraw bs) :=
  ⟨⟨nofun, nofun⟩, ⟨nofun, nofun⟩⟩

theorem sqExt_of_outExt {a b : World} (h : OutExt a b) : SQExt a b := outExtP_of_outExt h streamQuiet_wire

end World
end Poster
