/-
  Lemmas/WorldFuelStall.lean — C04, "never stalls with unread input", over whole scripts.

  `World.step` appends `Obs.stall` exactly when, after the executor has run, the context future is alive with
  unread transport events. Here:
    * `stalled_ctx_is_held`: in a world satisfying the registration invariant with an idle executor, such a
      context future is one the SCRIPT holds (`hold ctx`);
    * `no_stall_of_distinct_ids`: a script with pairwise distinct operation identifiers that never holds the
      context task never logs a stall.
    * `no_stall`: the same without the condition on identifiers, from the invariant `StallInv` (an alive context
      future that is not flagged woken has read everything and has the transport waker registered), which holds in
      every world of every script (`stallInv_script`).
  Two facts are carried through `pollTask`, `apply`, `drain`, `sweep`, `step` (`STrk` / `ATrk`):
    * no primitive other than the stall check of `step` appends `Obs.stall` (`OutExtP NotStall`);
    * the set `held` is changed by `hold` / `release` events only.
-/
import PosterModel.Lemmas.WorldFuelScript
import PosterModel.Lemmas.WorldReach
import PosterModel.Properties.C04
import PosterModel.Properties.C16World

set_option linter.unusedVariables false
set_option linter.unusedSimpArgs false

namespace Poster
open Framing
namespace World
namespace W5

/-! ## the stalled context future of a quiescent world is held -/

/-- in a reachable quiescent world a stalled context future is one the script holds -/
theorem stalled_ctx_is_held (w : World) (hi : Inv NoE w) (hq : w.pick = none)
    (hs : w.task ≠ .none ∧ w.reader ≠ []) : Task.ctx ∈ w.held := by
  apply Classical.byContradiction
  intro hh
  have hl : w.taskLive .ctx = true := by simpa [taskLive] using hs.1
  have hw := not_woken_of_idle w .ctx hq hl hh
  have hp : CtxParked w := hi.ok .ctx hw (fun x => x) hs.1
  exact hs.2 hp.1

/-! ## no primitive appends `stall`, no poll touches `held` -/

/-- not the stall marker -/
def NotStall (o : Obs) : Prop := o ≠ .stall

theorem w5s_ns_wire (bs : Bytes) : NotStall (.wire bs) ∧ NotStall (.wraw bs) :=
  ⟨(by intro h; cases h), (by intro h; cases h)⟩

/-- `w'` extends the transcript of `w` without a stall marker and has the same `held` set -/
def STrk (w w' : World) : Prop := OutExtP NotStall w w' ∧ w'.held = w.held

theorem w5s_strk_refl (w : World) : STrk w w := ⟨outExtP_refl _ _, rfl⟩
theorem w5s_strk_trans {a b c : World} (h1 : STrk a b) (h2 : STrk b c) : STrk a c :=
  ⟨outExtP_trans h1.1 h2.1, h2.2.trans h1.2⟩
theorem w5s_strk_of_eq {w w' : World} (ho : w'.out = w.out) (hh : w'.held = w.held) : STrk w w' :=
  ⟨outExtP_of_eq ho, hh⟩
theorem w5s_strk_emit (w : World) (o : Obs) (ho : NotStall o) : STrk w (w.emit o) :=
  ⟨outExtP_one o rfl ho, rfl⟩

/-! ### handle futures and streams -/

theorem w5s_sendAwait_ns (w w0 : World) (m : Msg) (id s : Nat) (k : Wait) (h0 : w0.out = w.out) :
    OutExtP NotStall w (match w0.sendMsg m with
      | none => w0.finishOp id (.err .contextExited)
      | some w1 => w1.awaitSlot id s k) := by
  cases hm : w0.sendMsg m with
  | none => exact outExtP_one (.done id (.err .contextExited)) (by simp [h0]) (by intro h; cases h)
  | some w1 => exact outExtP_of_eq (by simp [(sendMsg_out hm).1, h0])

theorem w5s_startOp_ns (w : World) (id : Nat) (req : Req) : OutExtP NotStall w (w.startOp id req) := by
  have hd : ∀ (w0 : World) (r : DoneRes), w0.out = w.out → OutExtP NotStall w (w0.finishOp id r) :=
    fun w0 r h0 => outExtP_one (.done id r) (by simp [h0]) (by intro h; cases h)
  cases req with
  | publish t =>
    simp only [startOp]
    split
    · split
      · exact hd _ _ rfl
      · exact w5s_sendAwait_ns w _ _ _ _ _ rfl
    · split
      · exact hd _ _ rfl
      · exact w5s_sendAwait_ns w _ _ _ _ _ rfl
  | subscribe t =>
    simp only [startOp]
    split
    · exact hd _ _ rfl
    · cases hm : World.sendMsg _ _ with
      | none => exact hd _ _ rfl
      | some w1 => exact outExtP_of_eq (by simp [(sendMsg_out hm).1])
  | unsubscribe t =>
    simp only [startOp]
    split
    · exact hd _ _ rfl
    · exact w5s_sendAwait_ns w _ _ _ _ _ rfl
  | ping => simp only [startOp]; exact w5s_sendAwait_ns w _ _ _ _ _ rfl
  | disconnect t => simp only [startOp]; exact w5s_sendAwait_ns w _ _ _ _ _ rfl

theorem w5s_pollStream_ns (w : World) (id : Nat) : OutExtP NotStall w (w.pollStream id) := by
  unfold pollStream
  split
  · exact outExtP_refl _ _
  · split
    · exact outExtP_refl _ _
    · split
      · rename_i p rest _
        exact outExtP_one (.item id p) (by simp) (by intro h; cases h)
      · split
        · exact outExtP_of_eq rfl
        · exact outExtP_one (.endStream id) (by simp [dropChanRx]) (by intro h; cases h)

theorem w5s_resumeOp_ns (w : World) (id s : Nat) (k : Wait) (v : SlotVal) :
    OutExtP NotStall w (w.resumeOp id s k v) := by
  have hd : ∀ (w0 : World) (r : DoneRes), w0.out = w.out → OutExtP NotStall w (w0.finishOp id r) :=
    fun w0 r h0 => outExtP_one (.done id r) (by simp [h0]) (by intro h; cases h)
  by_cases hm : ∃ p, v = .pkt p ∧ Wait.accepts k p = false
  · obtain ⟨p, rfl, hp⟩ := hm
    exact outExtP_one _ (resumeOp_panic w id s k p hp).1 (by intro h; cases h)
  · cases v with
    | errSize => exact hd _ _ rfl
    | errQuota => exact hd _ _ rfl
    | unit => simp only [resumeOp]; split <;> exact hd _ _ rfl
    | pkt p =>
      have hp : Wait.accepts k p = true := by
        cases ha : Wait.accepts k p with
        | true => rfl
        | false => exact absurd ⟨p, rfl, ha⟩ hm
      cases k <;> cases p <;> simp [Wait.accepts] at hp <;> simp only [resumeOp]
      · split <;> exact hd _ _ rfl
      · split
        · exact hd _ _ rfl
        · exact w5s_sendAwait_ns w _ _ _ _ _ rfl
      · split <;> exact hd _ _ rfl
      · exact hd _ _ rfl
      · exact hd _ _ rfl
      · exact hd _ _ rfl

theorem w5s_pollOp_ns (w : World) (id : Nat) : OutExtP NotStall w (w.pollOp id) := by
  unfold pollOp
  split
  · exact outExtP_refl _ _
  · exact w5s_startOp_ns _ _ _
  · split
    · exact w5s_resumeOp_ns _ _ _ _ _
    · exact outExtP_one (.done id (.err .contextExited)) (by simp) (by intro h; cases h)
    · exact outExtP_of_eq rfl

/-! ### the context future -/

theorem w5s_awaitFirst_ns (w0 : World) (call : Call) (t : ConnectTx) (a : AuthTx) :
    OutExtP NotStall w0 (w0.awaitFirst call t a) := by
  rcases firstEnd_out (awaitFirst_spec w0 call t a) with ⟨_, _, _, last, ho, hl⟩ | ⟨_, ho, _⟩
  · refine outExtP_one last ho ?_
    rcases hl with ⟨res, rfl⟩ | ⟨rfl, _⟩ | ⟨rfl, _⟩ <;> (intro h; cases h)
  · exact outExtP_of_eq ho

theorem w5s_runLoop_ns (f : Nat) (w0 : World) : OutExtP NotStall w0 (runLoop f w0) := by
  obtain ⟨wm, hs, he⟩ := runLoop_decomp f w0
  obtain ⟨_, _, _, _, _, _, _, _, _, hext, _, _⟩ := serve_frame hs
  have h1 : OutExtP NotStall w0 wm := outExtP_of_outExt hext w5s_ns_wire
  rcases he with he | he
  · rw [he]; exact h1
  · refine outExtP_trans h1 ?_
    rcases runEnd_out he with ⟨_, _, _, _, pre, last, hq, ho, hl⟩ | ⟨_, ho, _⟩
    · refine ⟨pre ++ [last], by rw [ho, List.append_assoc], ?_⟩
      intro o hmem
      rcases List.mem_append.mp hmem with hmem | hmem
      · obtain ⟨bs, rfl | rfl⟩ := hq o hmem
        · exact (w5s_ns_wire bs).1
        · exact (w5s_ns_wire bs).2
      · simp only [List.mem_singleton] at hmem
        subst hmem
        rcases hl with ⟨res, rfl, _⟩ | ⟨rfl, _⟩ <;> (intro h; cases h)
    · exact outExtP_of_eq ho

/-- **one poll of the context future** appends no stall marker -/
theorem w5s_pollCtx_ns (w : World) : OutExtP NotStall w w.pollCtx := by
  have hq : ∀ {a b : World}, OutExt a b → OutExtP NotStall a b := fun h => outExtP_of_outExt h w5s_ns_wire
  have hret : ∀ (w0 : World) (call : Call) (r : RetRes), OutExtP NotStall w0 (w0.finish call r) :=
    fun w0 call r => outExtP_one (.ret call r) rfl (by intro h; cases h)
  unfold pollCtx
  cases ht : w.task with
  | none => exact outExtP_refl _ _
  | connecting call t a started =>
    simp only
    cases started with
    | true =>
      simp only [pollConnect, ↓reduceIte]
      exact w5s_awaitFirst_ns w call t a
    | false =>
      rcases pollConnect_prelude w call t a with ⟨_, h2⟩ | ⟨_, w0, a1, a2, _, _, _, _, hext, h2 | h2⟩
      · rw [h2]; exact hret _ _ _
      · rw [h2]; exact outExtP_trans (hq hext) (w5s_awaitFirst_ns w0 call t a)
      · rw [h2]; exact outExtP_trans (hq hext) (hret _ _ _)
  | running started =>
    simp only
    cases started with
    | true =>
      simp only [pollRun, ↓reduceIte]
      exact w5s_runLoop_ns _ w
    | false =>
      obtain ⟨w0, a1, _, _, _, _, _, hext, h2 | h2⟩ := pollRun_prelude w
      · rw [h2]; exact outExtP_trans (hq hext) (w5s_runLoop_ns _ w0)
      · rw [h2]; exact outExtP_trans (hq hext) (hret _ _ _)

/-! ### one poll of any task, the executor -/

theorem w5s_pollTask_trk (w : World) (t : Task) : STrk w (w.pollTask t) := by
  cases t with
  | ctx =>
    obtain ⟨added, e, hP⟩ := w5s_pollCtx_ns (w.unwake .ctx)
    refine ⟨⟨added, by simpa [pollTask] using e, hP⟩, ?_⟩
    have a := (hand_pollCtx (w.unwake .ctx)).act.held_eq
    simpa [pollTask] using a
  | op id =>
    obtain ⟨added, e, hP⟩ := w5s_pollOp_ns (w.unwake (.op id)) id
    refine ⟨⟨added, by simpa [pollTask] using e, hP⟩, ?_⟩
    have a := pollOp_held (w.unwake (.op id)) id
    simpa [pollTask] using a
  | st id =>
    obtain ⟨added, e, hP⟩ := w5s_pollStream_ns (w.unwake (.st id)) id
    refine ⟨⟨added, by simpa [pollTask] using e, hP⟩, ?_⟩
    have a := (pollStream_ops_held (w.unwake (.st id)) id).2
    simpa [pollTask] using a

theorem w5s_drain_trk (f : Nat) (w : World) : STrk w (drain f w) := by
  induction f generalizing w with
  | zero => exact w5s_strk_refl w
  | succ f ih =>
    simp only [drain]
    split
    · exact w5s_strk_refl w
    · rename_i t _
      exact w5s_strk_trans (w5s_pollTask_trk w t) (ih _)

theorem w5s_sweep_trk (w : World) : STrk w w.sweep := by
  unfold sweep
  simp only
  generalize ([Task.ctx] ++ List.map Task.op (sortNat (List.map (fun x => x.1) w.ops)) ++
    List.map Task.st (sortNat w.streams)) = tasks
  suffices h : ∀ (l : List Task) (w0 : World),
      STrk w0 (l.foldl (fun w t => if w.taskLive t ∧ t ∉ w.woken ∧ t ∉ w.held then w.pollTask t else w) w0) from
    h tasks w
  intro l
  induction l with
  | nil => intro w0; exact w5s_strk_refl w0
  | cons t rest ih =>
    intro w0
    simp only [List.foldl_cons]
    split
    · exact w5s_strk_trans (w5s_pollTask_trk w0 t) (ih _)
    · exact ih _

/-! ### script events -/

/-- `w'` extends the transcript of `w` without a stall marker; unless the event is `hold ctx`, the context task
    is not held afterwards if it was not held before -/
def ATrk (e : Ev) (w w' : World) : Prop :=
  OutExtP NotStall w w' ∧ (e ≠ .hold .ctx → Task.ctx ∉ w.held → Task.ctx ∉ w'.held)

theorem w5s_atrk_of_strk {e : Ev} {w w' : World} (h : STrk w w') : ATrk e w w' :=
  ⟨h.1, fun _ hh => by rw [h.2]; exact hh⟩

theorem w5s_badScript_trk (w : World) : STrk w w.badScript :=
  ⟨outExtP_one .badscript rfl (by intro h; cases h), rfl⟩

theorem w5s_flushRaw_trk (w : World) : STrk w w.flushRaw := by
  unfold flushRaw
  split
  · exact w5s_strk_refl w
  · exact ⟨outExtP_one (.wraw w.wirePend) rfl (by intro h; cases h), rfl⟩

theorem w5s_feedEvents_trk (w : World) (evs : List ReadEv) : STrk w (w.feedEvents evs) := by
  unfold feedEvents
  simp only
  split <;> exact w5s_strk_of_eq (by simp) (by simp)

theorem w5s_dropCtx_held (w : World) : (w.apply .dropCtx).held = w.held := by
  cases hc : w.hasCtx with
  | false => simp [apply, hc]
  | true =>
    rw [apply_dropCtx w hc]
    have inv := closes_inv (closes_dropCtxClosed w)
    show (dropCtxClosed w).held = w.held
    rw [inv.held_eq]; rfl

theorem w5s_dropCtx_out (w : World) : (w.apply .dropCtx).out = w.out := by
  cases hc : w.hasCtx with
  | false => simp [apply, hc]
  | true =>
    rw [apply_dropCtx w hc]
    have inv := closes_inv (closes_dropCtxClosed w)
    show (dropCtxClosed w).out = w.out
    rw [inv.out_eq]; rfl

theorem w5s_dropOp_held (w : World) (id : Nat) : (w.dropOp id).held = w.held := by
  unfold dropOp
  split
  · rfl
  · simp
  · rename_i s k _; cases k <;> simp [clearSlot, dropChanRx]

/-- **one script event** (before the executor runs) -/
theorem w5s_apply_trk (w : World) (e : Ev) : ATrk e w (w.apply e) := by
  cases e with
  | setup =>
    simp only [apply]
    split
    · exact w5s_atrk_of_strk (w5s_badScript_trk w)
    · split
      · split
        · exact w5s_atrk_of_strk (w5s_badScript_trk w)
        · exact w5s_atrk_of_strk (w5s_strk_of_eq rfl rfl)
      · exact w5s_atrk_of_strk (w5s_strk_trans (w5s_flushRaw_trk w) (w5s_strk_of_eq rfl rfl))
  | connect t =>
    simp only [apply]; split
    · exact w5s_atrk_of_strk (w5s_badScript_trk w)
    · exact w5s_atrk_of_strk (w5s_strk_of_eq (by simp) (by simp))
  | authorize a =>
    simp only [apply]; split
    · exact w5s_atrk_of_strk (w5s_badScript_trk w)
    · exact w5s_atrk_of_strk (w5s_strk_of_eq (by simp) (by simp))
  | run =>
    simp only [apply]; split
    · exact w5s_atrk_of_strk (w5s_badScript_trk w)
    · exact w5s_atrk_of_strk (w5s_strk_of_eq (by simp) (by simp))
  | dropFut => exact w5s_atrk_of_strk (w5s_strk_of_eq rfl rfl)
  | dropCtx => exact w5s_atrk_of_strk (w5s_strk_of_eq (w5s_dropCtx_out w) (w5s_dropCtx_held w))
  | markDisc secs =>
    simp only [apply]; split
    · exact w5s_atrk_of_strk (w5s_badScript_trk w)
    · exact w5s_atrk_of_strk (w5s_strk_of_eq rfl rfl)
  | snap =>
    simp only [apply]; split
    · exact w5s_atrk_of_strk (w5s_badScript_trk w)
    · exact w5s_atrk_of_strk (w5s_strk_emit w _ (by intro h; cases h))
  | feed chunks =>
    simp only [apply]; split
    · exact w5s_atrk_of_strk (w5s_badScript_trk w)
    · exact w5s_atrk_of_strk (w5s_feedEvents_trk w _)
  | feedEof =>
    simp only [apply]; split
    · exact w5s_atrk_of_strk (w5s_badScript_trk w)
    · exact w5s_atrk_of_strk (w5s_feedEvents_trk w _)
  | feedErr =>
    simp only [apply]; split
    · exact w5s_atrk_of_strk (w5s_badScript_trk w)
    · exact w5s_atrk_of_strk (w5s_feedEvents_trk w _)
  | op id h req =>
    simp only [apply]; split
    · exact w5s_atrk_of_strk (w5s_badScript_trk w)
    · exact w5s_atrk_of_strk (w5s_strk_of_eq (by simp) (by simp))
  | poll t =>
    simp only [apply]; split
    · exact w5s_atrk_of_strk (w5s_pollTask_trk w t)
    · exact w5s_atrk_of_strk (w5s_strk_refl w)
  | hold t =>
    simp only [apply]; split
    · exact w5s_atrk_of_strk (w5s_strk_refl w)
    · refine ⟨outExtP_of_eq rfl, fun hne hh => ?_⟩
      show Task.ctx ∉ w.held ++ [t]
      simp only [List.mem_append, List.mem_singleton, not_or]
      exact ⟨hh, fun h => hne (by rw [h])⟩
  | release t =>
    refine ⟨outExtP_of_eq rfl, fun _ hh => ?_⟩
    show Task.ctx ∉ w.held.filter (· ≠ t)
    intro h
    exact hh (List.mem_filter.mp h).1
  | drop t =>
    cases t with
    | ctx => exact w5s_atrk_of_strk (w5s_strk_refl w)
    | op id => exact w5s_atrk_of_strk (w5s_strk_of_eq (dropOp_rx_out w id).2 (w5s_dropOp_held w id))
    | st id =>
      simp only [apply]; split
      · exact w5s_atrk_of_strk (w5s_strk_of_eq rfl rfl)
      · exact w5s_atrk_of_strk (w5s_strk_refl w)
  | dropRsp id =>
    simp only [apply]; split
    · exact w5s_atrk_of_strk (w5s_strk_of_eq rfl rfl)
    · exact w5s_atrk_of_strk (w5s_strk_refl w)
  | stream id =>
    simp only [apply]; split
    · exact w5s_atrk_of_strk (w5s_badScript_trk w)
    · exact w5s_atrk_of_strk (w5s_strk_of_eq (by simp) (by simp))
  | clone h h2 =>
    simp only [apply]; split
    · exact w5s_atrk_of_strk (w5s_badScript_trk w)
    · exact w5s_atrk_of_strk (w5s_strk_of_eq rfl rfl)
  | dropHandle h =>
    simp only [apply]; split
    · exact w5s_atrk_of_strk (w5s_badScript_trk w)
    · exact w5s_atrk_of_strk (w5s_strk_of_eq (by simp) (by simp))

/-! ### a whole step -/

/-- `held` after a step: only `hold ctx` can put the context task into it -/
theorem w5s_step_held (w : World) (e : Ev) (he : e ≠ .hold .ctx) (hh : Task.ctx ∉ w.held) :
    Task.ctx ∉ (w.step e).held := by
  unfold step
  split
  · exact hh
  · have h1 : Task.ctx ∉ ((w.emit (.ev e)).apply e).held := (w5s_apply_trk (w.emit (.ev e)) e).2 he hh
    generalize (w.emit (.ev e)).apply e = w1 at h1 ⊢
    simp only
    split
    · exact h1
    · have h2 : Task.ctx ∉ (drain w1.drainFuel w1).held := by rw [(w5s_drain_trk _ w1).2]; exact h1
      generalize drain w1.drainFuel w1 = w2 at h2 ⊢
      have h3 : Task.ctx ∉ (if w2.cfg.sweep = true then drain w2.sweep.drainFuel w2.sweep else w2).held := by
        split
        · rw [(w5s_drain_trk _ w2.sweep).2, (w5s_sweep_trk w2).2]; exact h2
        · exact h2
      generalize (if w2.cfg.sweep = true then drain w2.sweep.drainFuel w2.sweep else w2) = w3 at h3 ⊢
      split
      · exact h3
      · exact h3

/-- a step logs no stall marker — or the stall check fired: then, the step having started from a quiescent world,
    the executor is idle, the context future is alive and there is unread input -/
theorem w5s_step_cases (w : World) (e : Ev) (ho : OwnInv w) (hr : RegInv w) (hq : Quiet w) :
    OutExtP NotStall w (w.step e) ∨
      ((w.step e).pick = none ∧ (w.step e).task ≠ .none ∧ (w.step e).reader ≠ []) := by
  unfold step
  split
  · exact Or.inl (outExtP_refl _ _)
  · rename_i hb0
    have hp : w.pick = none := by
      rcases hq with h | h
      · exact absurd h hb0
      · exact h
    obtain ⟨d1, d2⟩ := step_drains_quiet w e ho hr hp
    have h1 : OutExtP NotStall w ((w.emit (.ev e)).apply e) :=
      outExtP_trans (w5s_strk_emit w (.ev e) (by intro h; cases h)).1 (w5s_apply_trk _ e).1
    generalize (w.emit (.ev e)).apply e = w1 at d1 d2 h1 ⊢
    simp only
    split
    · exact Or.inl h1
    · have h2 : OutExtP NotStall w (drain w1.drainFuel w1) := outExtP_trans h1 (w5s_drain_trk _ w1).1
      generalize drain w1.drainFuel w1 = w2 at d1 d2 h2 ⊢
      have q3 : (if w2.cfg.sweep = true then drain w2.sweep.drainFuel w2.sweep else w2).pick = none := by
        split
        · exact d2
        · exact d1
      have h3 : OutExtP NotStall w (if w2.cfg.sweep = true then drain w2.sweep.drainFuel w2.sweep else w2) := by
        split
        · exact outExtP_trans (outExtP_trans h2 (w5s_sweep_trk w2).1) (w5s_drain_trk _ w2.sweep).1
        · exact h2
      generalize (if w2.cfg.sweep = true then drain w2.sweep.drainFuel w2.sweep else w2) = w3 at q3 h3 ⊢
      split
      · rename_i hst
        exact Or.inr ⟨by rw [pick_emit]; exact q3, by simpa using hst.1, by simpa using hst.2⟩
      · exact Or.inl h3

/-! ## along a script -/

/-- what the script-level induction carries -/
structure SInv (w : World) : Prop where
  inv : Inv NoE w
  reach : Reach w.rx
  own : OwnInv w
  reg : RegInv w
  quiet : Quiet w
  nheld : Task.ctx ∉ w.held

theorem w5s_sinv_init (cfg : Cfg) : SInv { cfg := cfg } :=
  ⟨Inv.init cfg, Reach.init, ownInv_init cfg, regInv_init cfg, quiet_init cfg, by simp⟩

/-- **one step**: from a world of a script that never held the context task, an event other than `hold ctx` (whose
    SUBSCRIBE identifier, if any, is not in use) logs no stall marker -/
theorem w5s_step (w : World) (e : Ev) (h : SInv w) (hev : evOk w e = true) (he : e ≠ .hold .ctx) :
    SInv (w.step e) ∧ OutExtP NotStall w (w.step e) := by
  obtain ⟨hi1, hr1⟩ := h.inv.step h.reach e hev
  have hh1 := w5s_step_held w e he h.nheld
  refine ⟨⟨hi1, hr1, own_step w e h.own, regInv_step w e h.own h.reg, step_quiet' w e h.own h.reg h.quiet, hh1⟩, ?_⟩
  rcases w5s_step_cases w e h.own h.reg h.quiet with hx | ⟨hp, ht, hrd⟩
  · exact hx
  · exact absurd (stalled_ctx_is_held _ hi1 hp ⟨ht, hrd⟩) hh1

theorem w5s_steps : ∀ (evs : List Ev) (w : World), SInv w → evsOk w evs = true → (∀ e ∈ evs, e ≠ .hold .ctx) →
    SInv (evs.foldl step w) ∧ OutExtP NotStall w (evs.foldl step w)
  | [], w, h, _, _ => ⟨h, outExtP_refl _ _⟩
  | e :: es, w, h, hok, hh => by
    simp only [evsOk, Bool.and_eq_true] at hok
    obtain ⟨h1, x1⟩ := w5s_step w e h hok.1 (hh e (by simp))
    obtain ⟨h2, x2⟩ := w5s_steps es (w.step e) h1 hok.2 (fun e' he' => hh e' (by simp [he']))
    exact ⟨h2, outExtP_trans x1 x2⟩

/-- MAIN: a script with pairwise distinct op ids that never holds the context task never logs a stall -/
theorem no_stall_of_distinct_ids (cfg : Cfg) (evs : List Ev) (hd : (World.opIds evs).Nodup)
    (hh : ∀ e ∈ evs, e ≠ .hold .ctx) : Obs.stall ∉ World.run cfg evs := by
  have hok : evsOk { cfg := cfg } evs = true := evsOk_init_of_distinct cfg evs hd
  obtain ⟨_, x⟩ := w5s_steps evs { cfg := cfg } (w5s_sinv_init cfg) hok hh
  obtain ⟨added, e, hP⟩ := outExtP_trans x (w5s_flushRaw_trk _).1
  unfold World.run finishScript
  rw [e]
  simp only [List.nil_append]
  intro hmem
  exact hP _ hmem rfl

/-- the same under the executable side condition `evsOk` (no SUBSCRIBE re-uses the identifier of a live stream) -/
theorem no_stall_of_evsOk (cfg : Cfg) (evs : List Ev) (hok : evsOk { cfg := cfg } evs = true)
    (hh : ∀ e ∈ evs, e ≠ .hold .ctx) : Obs.stall ∉ World.run cfg evs := by
  obtain ⟨_, x⟩ := w5s_steps evs { cfg := cfg } (w5s_sinv_init cfg) hok hh
  obtain ⟨added, e, hP⟩ := outExtP_trans x (w5s_flushRaw_trk _).1
  unfold World.run finishScript
  rw [e]
  simp only [List.nil_append]
  intro hmem
  exact hP _ hmem rfl

/-! ## without the condition on operation identifiers

  The registration invariant `Inv` of C16 needs `evOk` (and so distinct identifiers); the part of it the stall check
  reads does not. `StallInv`: an alive context future that is not flagged woken has read everything and has the
  transport waker registered. -/

/-- the context future, if alive and not flagged, has nothing to read and the transport waker registered -/
def StallInv (w : World) : Prop :=
  w.task ≠ .none → Task.ctx ∉ w.woken → (w.reader = [] ∧ w.readerReg = true)

/-- `w'` is `w` after something that is not a poll of the context future and feeds nothing: the context task, the
    unread input and the transport registration are as before, and the context's flag is not taken away -/
structure SFrame (w w' : World) : Prop where
  task_eq : w'.task = w.task
  reader_eq : w'.reader = w.reader
  readerReg_eq : w'.readerReg = w.readerReg
  wk : Task.ctx ∈ w.woken → Task.ctx ∈ w'.woken

theorem w5s_uf_refl (w : World) : SFrame w w := ⟨rfl, rfl, rfl, id⟩
theorem w5s_uf_trans {a b c : World} (h1 : SFrame a b) (h2 : SFrame b c) : SFrame a c :=
  ⟨h2.task_eq.trans h1.task_eq, h2.reader_eq.trans h1.reader_eq, h2.readerReg_eq.trans h1.readerReg_eq,
    fun h => h2.wk (h1.wk h)⟩
theorem w5s_uf_then {a b c : World} (h2 : SFrame b c) (h1 : SFrame a b) : SFrame a c := w5s_uf_trans h1 h2
theorem w5s_uf_of_eq {w w' : World} (h1 : w'.task = w.task) (h2 : w'.reader = w.reader)
    (h3 : w'.readerReg = w.readerReg) (h4 : w'.woken = w.woken) : SFrame w w' :=
  ⟨h1, h2, h3, fun h => by rw [h4]; exact h⟩

local macro "uf_rfl" : term => `(w5s_uf_of_eq rfl rfl rfl rfl)

theorem StallInv.of_uf {w w' : World} (h : StallInv w) (f : SFrame w w') : StallInv w' := by
  intro hne hnw
  have := h (by rw [← f.task_eq]; exact hne) (fun x => hnw (f.wk x))
  rw [f.reader_eq, f.readerReg_eq]; exact this

theorem w5s_stallInv_of_none {w : World} (h : w.task = .none) : StallInv w := fun hne _ => absurd h hne
theorem w5s_stallInv_of_woken {w : World} (h : Task.ctx ∈ w.woken) : StallInv w := fun _ hnw => absurd h hnw

theorem w5s_uf_wake (w : World) (t : Task) : SFrame w (w.wake t) :=
  ⟨by simp, by simp, by simp, mem_wake_of_mem w t .ctx⟩

theorem w5s_uf_unwake (w : World) (t : Task) (ht : t ≠ .ctx) : SFrame w (w.unwake t) := by
  refine ⟨by simp, by simp, by simp, fun h => ?_⟩
  show Task.ctx ∈ w.woken.filter (· ≠ t)
  exact List.mem_filter.mpr ⟨h, by simpa using fun e => ht e.symm⟩

theorem w5s_uf_senderGone (w : World) : SFrame w w.senderGone := by
  refine ⟨by simp, by simp, by simp, ?_⟩
  unfold senderGone
  split
  · exact mem_wake_of_mem w .ctx .ctx
  · exact id

theorem w5s_uf_finishOp (w : World) (id : Nat) (r : DoneRes) : SFrame w (w.finishOp id r) := by
  show SFrame w ((({ w with ops := eraseFirst id w.ops }).emit (.done id r)).senderGone)
  exact w5s_uf_then (w5s_uf_senderGone _) uf_rfl

theorem w5s_uf_sendMsg {w w' : World} {m : Msg} (h : w.sendMsg m = some w') : SFrame w w' := by
  rw [sendMsg_eq] at h
  split at h
  · simp only [Option.some.injEq] at h; subst h
    refine ⟨rfl, rfl, rfl, ?_⟩
    show _ → Task.ctx ∈ (if w.queueReg then (w.wake .ctx).woken else w.woken)
    split
    · exact mem_wake_of_mem w .ctx .ctx
    · exact id
  · cases h

theorem w5s_uf_sendAwait (w w0 : World) (m : Msg) (id s : Nat) (k : Wait) (r : DoneRes) (h0 : SFrame w w0) :
    SFrame w (match w0.sendMsg m with
      | none => w0.finishOp id r
      | some w1 => w1.awaitSlot id s k) := by
  cases hm : w0.sendMsg m with
  | none => exact w5s_uf_trans h0 (w5s_uf_finishOp _ _ _)
  | some w1 => exact w5s_uf_trans h0 (w5s_uf_trans (w5s_uf_sendMsg hm) uf_rfl)

theorem w5s_uf_startOp (w : World) (id : Nat) (req : Req) : SFrame w (w.startOp id req) := by
  have hf : ∀ (w0 : World) (r : DoneRes), SFrame w w0 → SFrame w (w0.finishOp id r) :=
    fun w0 r h0 => w5s_uf_trans h0 (w5s_uf_finishOp _ _ _)
  cases req with
  | publish t =>
    simp only [startOp]
    split
    · split
      · exact hf _ _ uf_rfl
      · exact w5s_uf_sendAwait w _ _ _ _ _ _ uf_rfl
    · split
      · exact hf _ _ uf_rfl
      · exact w5s_uf_sendAwait w _ _ _ _ _ _ uf_rfl
  | subscribe t =>
    rw [User.startOp_subscribe w id t]
    simp only
    have h1 : SFrame w ((w.allocPid.2).allocSub.2) := uf_rfl
    generalize (w.allocPid.2).allocSub.2 = w1 at h1 ⊢
    split
    · exact hf _ _ h1
    · have h2 : SFrame w (w1.setChan id {}) := w5s_uf_trans h1 uf_rfl
      generalize w1.setChan id {} = w2 at h2 ⊢
      split
      · exact hf _ _ (w5s_uf_trans h2 uf_rfl)
      · rename_i w3 hm
        exact w5s_uf_trans (w5s_uf_trans h2 (w5s_uf_sendMsg hm)) uf_rfl
  | unsubscribe t =>
    simp only [startOp]
    split
    · exact hf _ _ uf_rfl
    · exact w5s_uf_sendAwait w _ _ _ _ _ _ uf_rfl
  | ping => simp only [startOp]; exact w5s_uf_sendAwait w _ _ _ _ _ _ uf_rfl
  | disconnect t => simp only [startOp]; exact w5s_uf_sendAwait w _ _ _ _ _ _ uf_rfl

theorem w5s_uf_resumeOp (w : World) (id s : Nat) (k : Wait) (v : SlotVal) : SFrame w (w.resumeOp id s k v) := by
  have hf : ∀ (w0 : World) (r : DoneRes), SFrame w w0 → SFrame w (w0.finishOp id r) :=
    fun w0 r h0 => w5s_uf_trans h0 (w5s_uf_finishOp _ _ _)
  have hg : ∀ (w0 : World), SFrame w w0 → SFrame w w0.senderGone :=
    fun w0 h0 => w5s_uf_trans h0 (w5s_uf_senderGone _)
  cases v with
  | errSize => simp only [resumeOp]; exact hf _ _ uf_rfl
  | errQuota => simp only [resumeOp]; exact hf _ _ uf_rfl
  | unit => simp only [resumeOp]; split <;> exact hf _ _ uf_rfl
  | pkt p =>
    cases k <;> cases p <;> simp only [resumeOp] <;> (try split) <;>
      first
        | exact hf _ _ uf_rfl
        | exact w5s_uf_sendAwait w _ _ _ _ _ _ uf_rfl
        | exact hg _ uf_rfl

theorem w5s_uf_pollOp (w : World) (id : Nat) : SFrame w (w.pollOp id) := by
  unfold pollOp
  split
  · exact w5s_uf_refl w
  · exact w5s_uf_startOp _ _ _
  · split
    · exact w5s_uf_resumeOp _ _ _ _ _
    · exact w5s_uf_trans (uf_rfl : SFrame w (w.clearSlot _)) (w5s_uf_finishOp _ _ _)
    · exact uf_rfl

theorem w5s_uf_pollStream (w : World) (id : Nat) : SFrame w (w.pollStream id) := by
  unfold pollStream
  split
  · exact w5s_uf_refl w
  · split
    · exact w5s_uf_refl w
    · split
      · exact w5s_uf_then (w5s_uf_wake _ _) uf_rfl
      · split
        · exact uf_rfl
        · exact uf_rfl

theorem w5s_uf_dropOp (w : World) (id : Nat) : SFrame w (w.dropOp id) := by
  unfold dropOp
  split
  · exact w5s_uf_refl w
  · exact w5s_uf_then (w5s_uf_senderGone _) uf_rfl
  · rename_i s k _
    cases k <;> exact w5s_uf_then (w5s_uf_senderGone _) uf_rfl

/-- a poll that leaves the context future alive has read everything and registered the transport waker, or the
    future has flagged itself (`stall_impossible_after_pending` with the registration) -/
theorem w5s_pollCtx_parked (w : World) (hok : w.rx.Ok) (h : (w.pollCtx).task ≠ .none) :
    ((w.pollCtx).reader = [] ∧ (w.pollCtx).readerReg = true) ∨ Task.ctx ∈ (w.pollCtx).woken := by
  unfold World.pollCtx at h ⊢
  cases ht : w.task with
  | none => simp [ht] at h
  | connecting call t a started =>
    simp only [ht] at h ⊢
    cases started with
    | true =>
      simp only [World.pollConnect, ↓reduceIte] at h ⊢
      rcases World.firstEnd_out (World.awaitFirst_spec w call t a) with ⟨h1, _⟩ | ⟨_, _, _, _, h5, _⟩
      · exact absurd h1 h
      · exact h5
    | false =>
      rcases World.pollConnect_prelude w call t a with ⟨_, h2⟩ | ⟨_, w0, a1, _, _, _, _, _, _, h2 | h2⟩
      · rw [h2] at h; exact absurd rfl h
      · rw [h2] at h ⊢
        rcases World.firstEnd_out (World.awaitFirst_spec w0 call t a) with ⟨h1, _⟩ | ⟨_, _, _, _, h5, _⟩
        · exact absurd h1 h
        · exact h5
      · rw [h2] at h; exact absurd rfl h
  | running started =>
    simp only [ht] at h ⊢
    cases started with
    | true =>
      simp only [World.pollRun, ↓reduceIte] at h ⊢
      exact (World.runLoop_alive_facts w hok h).2.2.2.2.1
    | false =>
      obtain ⟨w0, a1, _, _, _, _, _, _, h2 | h2⟩ := World.pollRun_prelude w
      · rw [h2] at h ⊢
        exact (World.runLoop_alive_facts w0 (a1 ▸ hok) h).2.2.2.2.1
      · rw [h2] at h; exact absurd rfl h

/-- reachable framing state, and `StallInv` -/
structure TInv (w : World) : Prop where
  reach : Reach w.rx
  st : StallInv w

theorem w5s_emit_tinv {w : World} (h : TInv w) (o : Obs) : TInv (w.emit o) := ⟨h.reach, h.st.of_uf uf_rfl⟩

/-- **one poll of any task** -/
theorem w5s_pollTask_tinv (w : World) (t : Task) (h : TInv w) : TInv (w.pollTask t) := by
  refine ⟨(pollTask_safe w t h.reach).1, ?_⟩
  cases t with
  | ctx =>
    intro hne hnw
    have hok : (w.unwake .ctx).rx.Ok := reach_ok h.reach
    rcases w5s_pollCtx_parked (w.unwake .ctx) hok hne with h1 | h1
    · exact h1
    · exact absurd h1 hnw
  | op id =>
    show StallInv ((w.unwake (.op id)).pollOp id)
    exact h.st.of_uf (w5s_uf_trans (w5s_uf_unwake w _ (by intro e; cases e)) (w5s_uf_pollOp _ _))
  | st id =>
    show StallInv ((w.unwake (.st id)).pollStream id)
    exact h.st.of_uf (w5s_uf_trans (w5s_uf_unwake w _ (by intro e; cases e)) (w5s_uf_pollStream _ _))

theorem w5s_feedEvents_st (w : World) (evs : List ReadEv) (h : StallInv w) : StallInv (w.feedEvents evs) := by
  unfold feedEvents
  simp only
  split
  · exact w5s_stallInv_of_woken (mem_wake_self _ _)
  · rename_i hreg
    intro hne hnw
    exact absurd (h hne hnw).2 hreg

theorem w5s_dropCtx_task (w : World) : (w.apply .dropCtx).task = .none := by
  cases hc : w.hasCtx with
  | false => simp [apply, hc]
  | true =>
    rw [apply_dropCtx w hc]
    have inv := closes_inv (closes_dropCtxClosed w)
    show (dropCtxClosed w).task = .none
    rw [inv.task_eq]; rfl

/-- **one script event** (before the executor runs) -/
theorem w5s_apply_tinv (w : World) (e : Ev) (h : TInv w) : TInv (w.apply e) := by
  refine ⟨(apply_safe w e h.reach).1, ?_⟩
  have hs := h.st
  have hb : StallInv w.badScript := hs.of_uf uf_rfl
  cases e with
  | setup =>
    simp only [apply]
    split
    · exact hb
    · rename_i hn
      have ht : w.task = .none := Classical.byContradiction (fun x => hn (Or.inl x))
      split
      · split
        · exact hb
        · exact w5s_stallInv_of_none ht
      · exact w5s_stallInv_of_none (by show w.flushRaw.task = .none; rw [flushRaw_task]; exact ht)
  | connect t =>
    simp only [apply]; split
    · exact hb
    · exact w5s_stallInv_of_woken (mem_wake_self _ _)
  | authorize a =>
    simp only [apply]; split
    · exact hb
    · exact w5s_stallInv_of_woken (mem_wake_self _ _)
  | run =>
    simp only [apply]; split
    · exact hb
    · exact w5s_stallInv_of_woken (mem_wake_self _ _)
  | dropFut => exact w5s_stallInv_of_none rfl
  | dropCtx => exact w5s_stallInv_of_none (w5s_dropCtx_task w)
  | markDisc secs =>
    simp only [apply]; split
    · exact hb
    · exact hs.of_uf uf_rfl
  | snap =>
    simp only [apply]; split
    · exact hb
    · exact hs.of_uf uf_rfl
  | feed chunks =>
    simp only [apply]; split
    · exact hb
    · exact w5s_feedEvents_st w _ hs
  | feedEof =>
    simp only [apply]; split
    · exact hb
    · exact w5s_feedEvents_st w _ hs
  | feedErr =>
    simp only [apply]; split
    · exact hb
    · exact w5s_feedEvents_st w _ hs
  | op id hd req =>
    simp only [apply]; split
    · exact hb
    · exact hs.of_uf (w5s_uf_then (w5s_uf_wake _ _) uf_rfl)
  | poll t =>
    simp only [apply]; split
    · exact (w5s_pollTask_tinv w t h).st
    · exact hs
  | hold t =>
    simp only [apply]; split
    · exact hs
    · exact hs.of_uf uf_rfl
  | release t => exact hs.of_uf uf_rfl
  | drop t =>
    cases t with
    | ctx => exact hs
    | op id => exact hs.of_uf (w5s_uf_dropOp w id)
    | st id =>
      simp only [apply]; split
      · exact hs.of_uf uf_rfl
      · exact hs
  | dropRsp id =>
    simp only [apply]; split
    · exact hs.of_uf uf_rfl
    · exact hs
  | stream id =>
    simp only [apply]; split
    · exact hb
    · exact hs.of_uf (w5s_uf_then (w5s_uf_wake _ _) uf_rfl)
  | clone hd h2 =>
    simp only [apply]; split
    · exact hb
    · exact hs.of_uf uf_rfl
  | dropHandle hd =>
    simp only [apply]; split
    · exact hb
    · exact hs.of_uf (w5s_uf_then (w5s_uf_senderGone _) uf_rfl)

theorem w5s_drain_tinv (f : Nat) (w : World) (h : TInv w) : TInv (drain f w) := by
  induction f generalizing w with
  | zero => exact h
  | succ f ih =>
    simp only [drain]
    split
    · exact h
    · rename_i t _
      exact ih _ (w5s_pollTask_tinv w t h)

theorem w5s_sweep_tinv (w : World) (h : TInv w) : TInv w.sweep := by
  unfold sweep
  simp only
  generalize ([Task.ctx] ++ List.map Task.op (sortNat (List.map (fun x => x.1) w.ops)) ++
    List.map Task.st (sortNat w.streams)) = tasks
  suffices hh : ∀ (l : List Task) (w0 : World), TInv w0 →
      TInv (l.foldl (fun w t => if w.taskLive t ∧ t ∉ w.woken ∧ t ∉ w.held then w.pollTask t else w) w0) from
    hh tasks w h
  intro l
  induction l with
  | nil => intro w0 h0; exact h0
  | cons t rest ih =>
    intro w0 h0
    simp only [List.foldl_cons]
    split
    · exact ih _ (w5s_pollTask_tinv w0 t h0)
    · exact ih _ h0

/-- **one script step** -/
theorem w5s_step_tinv (w : World) (e : Ev) (h : TInv w) : TInv (w.step e) := by
  unfold step
  split
  · exact h
  · have h1 : TInv ((w.emit (.ev e)).apply e) := w5s_apply_tinv _ e (w5s_emit_tinv h _)
    generalize (w.emit (.ev e)).apply e = w1 at h1 ⊢
    simp only
    split
    · exact h1
    · have h2 : TInv (drain w1.drainFuel w1) := w5s_drain_tinv _ w1 h1
      generalize drain w1.drainFuel w1 = w2 at h2 ⊢
      have h3 : TInv (if w2.cfg.sweep = true then drain w2.sweep.drainFuel w2.sweep else w2) := by
        split
        · exact w5s_drain_tinv _ _ (w5s_sweep_tinv w2 h2)
        · exact h2
      generalize (if w2.cfg.sweep = true then drain w2.sweep.drainFuel w2.sweep else w2) = w3 at h3 ⊢
      split
      · exact w5s_emit_tinv h3 _
      · exact h3

theorem w5s_tinv_init (cfg : Cfg) : TInv { cfg := cfg } := ⟨Reach.init, w5s_stallInv_of_none rfl⟩

/-- **`StallInv` holds in every world a script can produce** -/
theorem stallInv_script (cfg : Cfg) (evs : List Ev) : StallInv (evs.foldl step { cfg := cfg }) := by
  suffices h : ∀ (evs : List Ev) (w : World), TInv w → TInv (evs.foldl step w) from
    (h evs _ (w5s_tinv_init cfg)).st
  intro evs
  induction evs with
  | nil => intro w h; exact h
  | cons e t ih => intro w h; exact ih _ (w5s_step_tinv w e h)

/-- what the script-level induction carries when nothing is assumed about operation identifiers -/
structure SInv2 (w : World) : Prop where
  tinv : TInv w
  own : OwnInv w
  reg : RegInv w
  quiet : Quiet w
  nheld : Task.ctx ∉ w.held

theorem w5s_step2 (w : World) (e : Ev) (h : SInv2 w) (he : e ≠ .hold .ctx) :
    SInv2 (w.step e) ∧ OutExtP NotStall w (w.step e) := by
  have t1 := w5s_step_tinv w e h.tinv
  have hh1 := w5s_step_held w e he h.nheld
  refine ⟨⟨t1, own_step w e h.own, regInv_step w e h.own h.reg, step_quiet' w e h.own h.reg h.quiet, hh1⟩, ?_⟩
  rcases w5s_step_cases w e h.own h.reg h.quiet with hx | ⟨hp, ht, hrd⟩
  · exact hx
  · have hl : (w.step e).taskLive .ctx = true := by simpa [taskLive] using ht
    have hw := not_woken_of_idle _ .ctx hp hl hh1
    exact absurd (t1.st ht hw).1 hrd

theorem w5s_steps2 : ∀ (evs : List Ev) (w : World), SInv2 w → (∀ e ∈ evs, e ≠ .hold .ctx) →
    SInv2 (evs.foldl step w) ∧ OutExtP NotStall w (evs.foldl step w)
  | [], w, h, _ => ⟨h, outExtP_refl _ _⟩
  | e :: es, w, h, hh => by
    obtain ⟨h1, x1⟩ := w5s_step2 w e h (hh e (by simp))
    obtain ⟨h2, x2⟩ := w5s_steps2 es (w.step e) h1 (fun e' he' => hh e' (by simp [he']))
    exact ⟨h2, outExtP_trans x1 x2⟩

/-- **STRETCH: a script that never holds the context task never logs a stall** — whatever the configuration, the
    bytes fed, the operations and their identifiers -/
theorem no_stall (cfg : Cfg) (evs : List Ev) (hh : ∀ e ∈ evs, e ≠ .hold .ctx) :
    Obs.stall ∉ World.run cfg evs := by
  obtain ⟨_, x⟩ := w5s_steps2 evs { cfg := cfg }
    ⟨w5s_tinv_init cfg, ownInv_init cfg, regInv_init cfg, quiet_init cfg, by simp⟩ hh
  obtain ⟨added, e, hP⟩ := outExtP_trans x (w5s_flushRaw_trk _).1
  unfold World.run finishScript
  rw [e]
  simp only [List.nil_append]
  intro hmem
  exact hP _ hmem rfl

/-! ## non-vacuity -/

/-- the hypothesis `hh` cannot be dropped: a held context future with unread input is reported as stalled -/
example : Obs.stall ∈ World.run {} [.setup, .hold .ctx, .connect {}, .feed [[0x20]]] := by decide

/-- a script with pairwise distinct operation identifiers and no `hold ctx` (it holds an operation), to which MAIN
    applies -/
example : Obs.stall ∉ World.run {}
    [.setup, .op 1 0 .ping, .op 2 0 (.subscribe Poster.sub1), .hold (.op 3), .op 3 0 .ping] :=
  no_stall_of_distinct_ids {} _ (by decide) (by decide)

/-- `stalled_ctx_is_held`: the world reached by the first script above satisfies its hypotheses -/
example : (([.setup, .hold .ctx, .connect {}, .feed [[0x20]]] : List Ev).foldl World.step {}).pick = none ∧
    (([.setup, .hold .ctx, .connect {}, .feed [[0x20]]] : List Ev).foldl World.step {}).task ≠ .none ∧
    (([.setup, .hold .ctx, .connect {}, .feed [[0x20]]] : List Ev).foldl World.step {}).reader ≠ [] ∧
    Task.ctx ∈ (([.setup, .hold .ctx, .connect {}, .feed [[0x20]]] : List Ev).foldl World.step {}).held := by
  decide

/-- `no_stall` needs nothing about identifiers: here operation identifier 1 is used twice (`opIds` has a duplicate) -/
example : ¬ (World.opIds [.setup, .connect {}, .op 1 0 .ping, .feed [[0x20]], .op 1 0 .ping, .feedEof]).Nodup ∧
    Obs.stall ∉ World.run { sweep := true }
      [.setup, .connect {}, .op 1 0 .ping, .feed [[0x20]], .op 1 0 .ping, .feedEof] :=
  ⟨by decide, no_stall _ _ (by decide)⟩

end W5
end World
end Poster

#print axioms Poster.World.W5.stalled_ctx_is_held
#print axioms Poster.World.W5.no_stall_of_distinct_ids
#print axioms Poster.World.W5.no_stall_of_evsOk
#print axioms Poster.World.W5.stallInv_script
#print axioms Poster.World.W5.no_stall
