/-
  Lemmas/WorldIdsMax.lean — work package W10, part 2: where the Maximum Packet Size limit in force comes from.
-/
import PosterModel.Lemmas.WorldIds
import PosterModel.Properties.C13

set_option linter.unusedVariables false
set_option linter.unusedSimpArgs false

namespace Poster
open Framing
namespace World
namespace W10
open W7

/-! ## where the limit comes from: the last CONNACK that carried one -/

/-- how one line of the transcript changes the limit in force: a CONNACK — logged with the return of `connect()` /
    `authorize()`, accepted or refused — that carries a Maximum Packet Size replaces it, one that carries none keeps it;
    dropping the context forgets it; nothing else touches it (in particular not the `connect` event with the client's own
    CONNECT options) -/
def maxStep (acc : Option Nat) : Obs → Option Nat
  | .ret _ (.connack k) => k.maxPacketSize
  | .ret _ (.connectError k) => k.maxPacketSize
  | .ev .dropCtx => none
  | _ => acc

/-- **the limit in force according to the transcript**: the Maximum Packet Size of the most recent CONNACK (absent there =
    no limit) since the context was created -/
def announcedMax (out : List Obs) : Option Nat := out.foldl maxStep none

/-- the one line after which the transcript no longer tells the limit: the CONNACK that made `connect()` panic
    (subscription identifiers not available) was handled — `handle_connack` ran — but is not logged -/
def subidPanic : Obs := .panic .ctx "assert-subid"

/-- a line that does not touch the limit -/
def MaxNeutral (o : Obs) : Prop := ∀ acc, maxStep acc o = acc

theorem foldl_maxNeutral (l : List Obs) (h : ∀ o ∈ l, MaxNeutral o) (acc : Option Nat) : l.foldl maxStep acc = acc := by
  induction l generalizing acc with
  | nil => rfl
  | cons o t ih =>
    rw [List.foldl_cons, h o (by simp) acc]
    exact ih (fun o' ho' => h o' (by simp [ho'])) acc

theorem maxNeutral_quiet {l : List Obs} (h : Quiet l) : ∀ o ∈ l, MaxNeutral o := by
  intro o ho acc
  obtain ⟨bs, rfl | rfl⟩ := h o ho <;> rfl

theorem maxNeutral_dull {o : Obs} (h : Dull o) : MaxNeutral o := by
  intro acc
  rcases h with rfl | rfl | ⟨bs, rfl⟩ | ⟨c, rfl⟩ <;> rfl

/-- what one transition does to the limit, as far as the transcript tells: the context object exists as before, a call is
    executing afterwards only if one was before, and — unless the transition logs the `assert-subid` panic — the limit
    afterwards is the limit before, updated by the lines the transition logged -/
structure MaxRel (w w' : World) : Prop where
  hasCtx : w'.hasCtx = w.hasCtx
  task : w'.task ≠ .none → w.task ≠ .none
  ext : ∃ added, w'.out = w.out ++ added ∧ (subidPanic ∉ added → w'.c.maxPkt = added.foldl maxStep w.c.maxPkt)

theorem MaxRel.refl (w : World) : MaxRel w w := ⟨rfl, id, [], by simp, fun _ => rfl⟩

theorem MaxRel.trans {a b c : World} (h1 : MaxRel a b) (h2 : MaxRel b c) : MaxRel a c := by
  obtain ⟨p1, e1, f1⟩ := h1.ext
  obtain ⟨p2, e2, f2⟩ := h2.ext
  refine ⟨h2.hasCtx.trans h1.hasCtx, fun h => h1.task (h2.task h), p1 ++ p2, by rw [e2, e1, List.append_assoc], ?_⟩
  intro hn
  rw [List.foldl_append, f2 (fun h => hn (List.mem_append_right _ h)), f1 (fun h => hn (List.mem_append_left _ h))]

/-- a transition that only logs lines which do not touch the limit, and leaves the limit alone -/
theorem MaxRel.of_neutral {w w' : World} (hc : w'.hasCtx = w.hasCtx) (ht : w'.task ≠ .none → w.task ≠ .none)
    (added : List Obs) (ho : w'.out = w.out ++ added) (hn : ∀ o ∈ added, MaxNeutral o)
    (hm : w'.c.maxPkt = w.c.maxPkt) : MaxRel w w' :=
  ⟨hc, ht, added, ho, fun _ => by rw [foldl_maxNeutral added hn, hm]⟩

theorem MaxRel.of_outExt {w w' : World} (hc : w'.hasCtx = w.hasCtx) (ht : w'.task ≠ .none → w.task ≠ .none)
    (ho : OutExt w w') (hm : w'.c.maxPkt = w.c.maxPkt) : MaxRel w w' := by
  obtain ⟨pre, hq, e⟩ := ho
  exact .of_neutral hc ht pre e (maxNeutral_quiet hq) hm

theorem handleConnack_maxPkt (c : Ctx) (k : ConnackRx) : (c.handleConnack k).maxPkt = k.maxPacketSize :=
  (maxPkt_from_connack c k).1

theorem firstEnd_maxRel {w r : World} {call : Call} {t : ConnectTx} {a : AuthTx} (h : FirstEnd w call t a r)
    (ht : w.task ≠ .none) : MaxRel w r := by
  have ret : ∀ (w0 : World) (res : RetRes), w0.hasCtx = w.hasCtx → w0.out = w.out → w0.c.maxPkt = w.c.maxPkt →
      (∀ k, res ≠ .connack k) → (∀ k, res ≠ .connectError k) → MaxRel w (w0.finish call res) := by
    intro w0 res h1 h2 h3 h4 h5
    refine .of_neutral h1 (fun h => absurd rfl h) [.ret call res] (by simp [h2]) ?_ h3
    intro o ho acc
    simp only [List.mem_singleton] at ho; subst ho
    cases res <;> first | rfl | exact absurd rfl (h4 _) | exact absurd rfl (h5 _)
  cases h with
  | connack rx' rd' fr k hp hd hk hs =>
    refine ⟨rfl, fun h => absurd rfl h, [.ret call (.connack k)], rfl, fun _ => ?_⟩
    simp only [finish_c, List.foldl_cons, List.foldl_nil, maxStep]
    exact handleConnack_maxPkt w.c k
  | refused rx' rd' fr k hp hd hk =>
    refine ⟨rfl, fun h => absurd rfl h, [.ret call (.connectError k)], rfl, fun _ => ?_⟩
    simp only [finish_c, List.foldl_cons, List.foldl_nil, maxStep]
    exact handleConnack_maxPkt w.c k
  | assertSubId rx' rd' fr k hp hd hk hs =>
    exact ⟨rfl, fun h => absurd rfl h, [subidPanic], rfl, fun h => absurd (by simp) h⟩
  | auth rx' rd' fr au hp hd => exact ret { w with rx := rx', reader := rd' } (.auth au) rfl rfl rfl (fun _ h => by cases h) (fun _ h => by cases h)
  | unexpected rx' rd' fr p hp hd h1 h2 =>
    exact ret { w with rx := rx', reader := rd' } (.err .codecError) rfl rfl rfl (fun _ h => by cases h) (fun _ h => by cases h)
  | codec rx' rd' fr hp hd => exact ret { w with rx := rx', reader := rd' } (.err .codecError) rfl rfl rfl (fun _ h => by cases h) (fun _ h => by cases h)
  | panic rx' rd' fr hp hd =>
    exact .of_neutral rfl (fun h => absurd rfl h) [.panic .ctx "other"] rfl
      (by intro o ho acc; simp only [List.mem_singleton] at ho; subst ho; rfl) rfl
  | sock rx' rd' hp => exact ret { w with rx := rx', reader := rd' } (.err .socketClosed) rfl rfl rfl (fun _ h => by cases h) (fun _ h => by cases h)
  | pending rx' rd' hp =>
    by_cases hrd : rd' = []
    · rw [if_pos hrd]; exact .of_neutral rfl (fun _ => ht) [] (by simp) (by simp) rfl
    · rw [if_neg hrd]; exact .of_neutral (by simp) (fun _ => ht) [] (by simp) (by simp) (by simp)

theorem runEnd_hasCtx {w r : World} (h : RunEnd w r) : r.hasCtx = w.hasCtx := by
  cases h with
  | msgExit m q w1 fl hq hr hne =>
    have e : w1 = (World.runHandler { w with queue := q } (fun wok => w.c.handleMsg m wok)).1 := by rw [hr]
    subst e; simp
  | closed hq hs => rfl
  | pktExit rx' rd' fr p w1 fl hq hs hp hd hr hne =>
    have e : w1 = (World.runHandler { w with rx := rx', reader := rd' }
        (fun wok => w.c.handlePkt w.chanRxAlive p wok)).1 := by rw [hr]
    subst e; simp
  | codec rx' rd' fr hq hs hp hd => rfl
  | panic rx' rd' fr hq hs hp hd => rfl
  | sock rx' rd' hq hs hp => rfl
  | pending rx' rd' hq hs hp => split <;> simp

theorem runLoop_hasCtx (f : Nat) (w : World) : (runLoop f w).hasCtx = w.hasCtx := by
  obtain ⟨wm, hs, he⟩ := runLoop_decomp f w
  have a := (serve_frame hs).2.2.2.1
  rcases he with he | he
  · rw [he]; exact a
  · exact (runEnd_hasCtx he).trans a

theorem pollRun_hasCtx (w : World) (s : Bool) : (w.pollRun s).hasCtx = w.hasCtx := by
  cases s with
  | true => simp only [pollRun, ↓reduceIte]; exact runLoop_hasCtx _ w
  | false =>
    rw [pollRun_first_eq]
    have hr : w.resent.hasCtx = w.hasCtx := by
      rw [resent, (foldl_writeBytes_frame _ _).2.2.2.2.2.2.2.2.2.2.2.2.2.1]; simp [resumed]
    split
    · rw [runLoop_hasCtx, hr]
    · simp [resumed]

theorem pollRun_maxPkt (w : World) (s : Bool) : (w.pollRun s).c.maxPkt = w.c.maxPkt := by
  have hres : w.c.resume.1.maxPkt = w.c.maxPkt := by
    rcases Ctx.resume_fst_cases w.c with e | e | e <;> rw [e]
  cases s with
  | true => simp only [pollRun, ↓reduceIte]; exact world_poll_maxPkt _ w
  | false =>
    rw [pollRun_first_eq]
    split
    · rw [world_poll_maxPkt, resent_c, hres]
    · simp only [finish_c, writeBytes_c, resumed_c]; exact hres

/-- **one poll of the context task and the limit** -/
theorem pollCtx_maxRel (w : World) : MaxRel w w.pollCtx := by
  cases ht : w.task with
  | none =>
    have e : w.pollCtx = w := by simp [pollCtx, ht]
    rw [e]; exact .refl w
  | connecting call t a started =>
    have e : w.pollCtx = w.pollConnect call t a started := by simp [pollCtx, ht]
    rw [e]
    have fe : ∀ (w0 : World), w0.task ≠ .none → MaxRel w0 (w0.awaitFirst call t a) :=
      fun w0 h0 => firstEnd_maxRel (awaitFirst_spec w0 call t a) h0
    have hne : w.task ≠ .none := by rw [ht]; exact fun h => by cases h
    cases started with
    | true => simp only [pollConnect, ↓reduceIte]; exact fe w hne
    | false =>
      have wr : ∀ (w0 : World) (pkt : Bytes), w0.hasCtx = w.hasCtx → w0.out = w.out → w0.c.maxPkt = w.c.maxPkt →
          MaxRel w (w0.writeBytes pkt) := by
        intro w0 pkt h1 h2 h3
        obtain ⟨pre, hq, e⟩ := writeBytes_outExt w0 pkt
        exact .of_neutral (by simp [h1]) (fun _ => hne) pre (by rw [e, h2]) (maxNeutral_quiet hq) (by simp [h3])
      have fin : ∀ (w0 : World) (res : ErrKind), MaxRel w w0 → MaxRel w (w0.finish call (.err res)) := by
        intro w0 res h0
        refine h0.trans (.of_neutral rfl (fun h => absurd rfl h) [.ret call (.err res)] rfl ?_ rfl)
        intro o ho acc; simp only [List.mem_singleton] at ho; subst ho; rfl
      cases call <;> simp only [pollConnect, Bool.false_eq_true, ↓reduceIte] <;> (repeat' split) <;>
        first
        | exact fin _ _ (.refl w)
        | (refine (wr _ _ ?_ ?_ ?_).trans (fe _ (by simpa using hne)) <;> rfl)
        | (refine fin _ _ (wr _ _ ?_ ?_ ?_) <;> rfl)
  | running s =>
    have e : w.pollCtx = w.pollRun s := by simp [pollCtx, ht]
    have hne : w.task ≠ .none := by rw [ht]; exact fun h => by cases h
    have hc : w.pollCtx.hasCtx = w.hasCtx := by rw [e]; exact pollRun_hasCtx w s
    have hm : w.pollCtx.c.maxPkt = w.c.maxPkt := by rw [e]; exact pollRun_maxPkt w s
    obtain ⟨h1, h2⟩ := run_poll_outcome w s ht
    by_cases hn : w.pollCtx.task = .none
    · obtain ⟨pre, last, ho, hq, hl⟩ := h1 hn
      refine .of_neutral hc (fun _ => hne) (pre ++ [last]) (by rw [ho, List.append_assoc]) ?_ hm
      intro o ho'
      rcases List.mem_append.mp ho' with h | h
      · exact maxNeutral_quiet hq o h
      · simp only [List.mem_singleton] at h; subst h
        intro acc
        rcases hl with ⟨r, rfl, hr⟩ | ⟨cls, rfl⟩
        · rcases hr with rfl | ⟨d, rfl⟩ | rfl | rfl | rfl <;> rfl
        · rfl
    · obtain ⟨_, pre, ho, hq⟩ := h2 hn
      exact .of_neutral hc (fun _ => hne) pre ho (maxNeutral_quiet hq) hm


/-! ## the invariant -/

/-- **the limit in force is the one the transcript tells**: a call is executing only on an existing context; without
    a context no limit is in force; and — as long as the transcript has no `assert-subid` panic — `remote_max_packet_size`
    is the Maximum Packet Size of the most recent logged CONNACK that carried one (none if there was none) -/
structure MaxInv (w : World) : Prop where
  hasCtx : w.task ≠ .none → w.hasCtx = true
  noCtx : w.hasCtx = false → w.c.maxPkt = none
  max : subidPanic ∉ w.out → w.c.maxPkt = announcedMax w.out

theorem MaxInv.init (cfg : Cfg) : MaxInv { cfg := cfg } := ⟨fun h => absurd rfl h, fun _ => rfl, fun _ => rfl⟩

/-- a transition that logs only lines which do not touch the limit and leaves the limit alone -/
theorem MaxInv.same {w w' : World} (h : MaxInv w) (hc : w'.c.maxPkt = w.c.maxPkt)
    (hh : w'.hasCtx = false → w.hasCtx = false) (ht : w'.task ≠ .none → w'.hasCtx = true)
    (added : List Obs) (ho : w'.out = w.out ++ added) (hn : ∀ o ∈ added, MaxNeutral o) : MaxInv w' := by
  refine ⟨ht, fun h0 => by rw [hc]; exact h.noCtx (hh h0), fun hp => ?_⟩
  rw [ho] at hp
  rw [hc, h.max (fun hx => hp (List.mem_append_left _ hx)), ho, announcedMax, announcedMax, List.foldl_append,
    foldl_maxNeutral added hn]

theorem MaxInv.of_maxRel {w w' : World} (h : MaxInv w) (r : MaxRel w w') (hn : w.hasCtx = false → w' = w) : MaxInv w' := by
  obtain ⟨added, ho, hf⟩ := r.ext
  refine ⟨fun ht => by rw [r.hasCtx]; exact h.hasCtx (r.task ht), fun h0 => ?_, fun hp => ?_⟩
  · have := hn (by rw [← r.hasCtx]; exact h0)
    rw [this]; exact h.noCtx (by rw [← r.hasCtx]; exact h0)
  · rw [ho] at hp
    rw [hf (fun hx => hp (List.mem_append_right _ hx)), h.max (fun hx => hp (List.mem_append_left _ hx)), ho,
      announcedMax, announcedMax, List.foldl_append]

theorem MaxInv.pollCtx {w : World} (h : MaxInv w) : MaxInv w.pollCtx := by
  refine h.of_maxRel (pollCtx_maxRel w) (fun hc => ?_)
  have : w.task = .none := by
    cases ht : w.task with
    | none => rfl
    | _ => have := h.hasCtx (by rw [ht]; exact fun h => by cases h); rw [hc] at this; cases this
  simp [World.pollCtx, this]

theorem maxNeutral_userObs {o : Obs} (h : UserObs o) : MaxNeutral o := by
  intro acc
  rcases h with ⟨_, _, rfl⟩ | ⟨_, rfl⟩ | ⟨_, _, rfl⟩ | ⟨_, rfl⟩ <;> rfl

theorem maxNeutral_ev {e : Ev} (h : e ≠ .dropCtx) : MaxNeutral (.ev e) := by
  intro acc
  cases e <;> first | rfl | exact absurd rfl h

theorem MaxInv.uframe {w w' : World} (h : MaxInv w) (u : UFrame w w') (added : List Obs) (ho : w'.out = w.out ++ added)
    (hn : ∀ o ∈ added, MaxNeutral o) : MaxInv w' :=
  h.same (by rw [u.c]) (fun h0 => by rw [← u.hasCtx]; exact h0)
    (fun ht => by rw [u.hasCtx]; exact h.hasCtx (by rw [← u.task]; exact ht)) added ho hn

/-- the world a script event other than a poll is applied to: the event was logged -/
theorem MaxInv.apply {w : World} (h : MaxInv w) (e : Ev) (he : ∀ t, e ≠ .poll t) :
    MaxInv ((w.emit (.ev e)).apply e) := by
  -- events that are passive for the context: handled through `UFrame` or directly
  have emitted : e ≠ .dropCtx → MaxInv (w.emit (.ev e)) := fun hne =>
    h.same rfl id h.hasCtx [.ev e] rfl (by intro o ho; simp only [List.mem_singleton] at ho; subst ho; exact maxNeutral_ev hne)
  have bad : ∀ (w0 : World), MaxInv w0 → MaxInv w0.badScript := fun w0 h0 =>
    h0.same rfl id h0.hasCtx [.badscript] rfl (by intro o ho; simp only [List.mem_singleton] at ho; subst ho; intro acc; rfl)
  have quiet : ∀ (w0 w' : World), MaxInv w0 → w'.c.maxPkt = w0.c.maxPkt → w'.hasCtx = w0.hasCtx →
      (w'.task = w0.task ∨ w'.task = .none ∨ w0.hasCtx = true) → w'.out = w0.out → MaxInv w' := by
    intro w0 w' h0 a b c d
    refine h0.same a (fun x => by rw [← b]; exact x) (fun ht => ?_) [] (by simp [d]) (by simp)
    rcases c with c | c | c
    · rw [b]; exact h0.hasCtx (by rw [← c]; exact ht)
    · exact absurd c ht
    · rw [b]; exact c
  cases e with
  | poll t => exact absurd rfl (he t)
  | dropCtx =>
    have e1 : ((w.emit (.ev .dropCtx)).apply .dropCtx).out = w.out ++ [.ev .dropCtx] := by
      cases hc : w.hasCtx with
      | false => simp [World.apply, emit, hc]
      | true =>
        rw [apply_dropCtx _ (by simpa [emit] using hc)]
        have inv := closes_inv (closes_dropCtxClosed (w.emit (.ev .dropCtx)))
        show (dropCtxClosed (w.emit (.ev .dropCtx))).out = _
        rw [inv.out_eq]; rfl
    have e2 : ((w.emit (.ev .dropCtx)).apply .dropCtx).c.maxPkt = none := by
      cases hc : w.hasCtx with
      | false =>
        have : ((w.emit (.ev .dropCtx)).apply .dropCtx).c = w.c := by simp [World.apply, emit, hc]
        rw [this]; exact h.noCtx hc
      | true => rw [apply_dropCtx _ (by simpa [emit] using hc)]
    have e3 : ((w.emit (.ev .dropCtx)).apply .dropCtx).task = .none := by
      cases hc : w.hasCtx with
      | false => simp [World.apply, emit, hc]
      | true =>
        rw [apply_dropCtx _ (by simpa [emit] using hc)]
        have inv := closes_inv (closes_dropCtxClosed (w.emit (.ev .dropCtx)))
        show (dropCtxClosed (w.emit (.ev .dropCtx))).task = _
        rw [inv.task_eq]; rfl
    refine ⟨fun ht => absurd e3 ht, fun _ => e2, fun _ => ?_⟩
    rw [e2, e1, announcedMax, List.foldl_append]; rfl
  | setup =>
    have h1 := emitted (by simp)
    simp only [World.apply]
    split
    · exact bad _ h1
    · rename_i hc
      simp only [not_or, Decidable.not_not] at hc
      split
      · rename_i hnc
        split
        · exact bad _ h1
        · refine h1.same ?_ (fun x => by simp at x) (fun _ => rfl) [] (by simp) (by simp)
          show ({} : Ctx).maxPkt = _
          exact (h1.noCtx (by simpa using hnc)).symm
      · rename_i hnc
        obtain ⟨added, ea, hd⟩ := flushRaw_dull (w.emit (.ev .setup))
        refine h1.same (by simp [flushRaw_c]) (fun x => ?_) (fun ht => ?_) added (by simpa using ea)
          (fun o ho => maxNeutral_dull (hd o ho))
        · have : (w.emit (.ev .setup)).flushRaw.hasCtx = (w.emit (.ev .setup)).hasCtx := by unfold flushRaw; split <;> rfl
          simp only at x; rw [this] at x; exact x
        · have : (w.emit (.ev .setup)).flushRaw.task = (w.emit (.ev .setup)).task := by unfold flushRaw; split <;> rfl
          simp only at ht; rw [this] at ht
          exact absurd hc.1 ht
  | connect t =>
    have h1 := emitted (by simp)
    simp only [World.apply]
    split
    · exact bad _ h1
    · rename_i hc
      simp only [not_or, Bool.not_eq_true', Bool.not_eq_false, Decidable.not_not] at hc
      exact quiet _ _ h1 (by simp) (by simp) (Or.inr (Or.inr hc.1)) (by simp)
  | authorize a =>
    have h1 := emitted (by simp)
    simp only [World.apply]
    split
    · exact bad _ h1
    · rename_i hc
      simp only [not_or, Bool.not_eq_true', Bool.not_eq_false, Decidable.not_not] at hc
      exact quiet _ _ h1 (by simp) (by simp) (Or.inr (Or.inr hc.1)) (by simp)
  | run =>
    have h1 := emitted (by simp)
    simp only [World.apply]
    split
    · exact bad _ h1
    · rename_i hc
      simp only [not_or, Bool.not_eq_true', Bool.not_eq_false, Decidable.not_not] at hc
      exact quiet _ _ h1 (by simp) (by simp) (Or.inr (Or.inr hc.1)) (by simp)
  | dropFut => exact quiet _ _ (emitted (by simp)) rfl rfl (Or.inr (Or.inl rfl)) rfl
  | markDisc secs =>
    have h1 := emitted (by simp)
    simp only [World.apply]
    split
    · exact bad _ h1
    · exact quiet _ _ h1 rfl rfl (Or.inl rfl) rfl
  | snap =>
    have h1 := emitted (by simp)
    simp only [World.apply]
    split
    · exact bad _ h1
    · exact h1.same rfl id h1.hasCtx [.state w.c] rfl
        (by intro o ho; simp only [List.mem_singleton] at ho; subst ho; intro acc; rfl)
  | feed chunks =>
    have h1 := emitted (by simp)
    simp only [World.apply]
    split
    · exact bad _ h1
    · obtain ⟨a1, a2, a3, a4, a5, a6⟩ := feedEvents_uframe_like (w.emit (.ev (.feed chunks))) (chunks.map ReadEv.data)
      exact quiet _ _ h1 (by rw [a5]) a6 (Or.inl a1) a2
  | feedEof =>
    have h1 := emitted (by simp)
    simp only [World.apply]
    split
    · exact bad _ h1
    · obtain ⟨a1, a2, a3, a4, a5, a6⟩ := feedEvents_uframe_like (w.emit (.ev .feedEof)) [.eof]
      exact quiet _ _ h1 (by rw [a5]) a6 (Or.inl a1) a2
  | feedErr =>
    have h1 := emitted (by simp)
    simp only [World.apply]
    split
    · exact bad _ h1
    · obtain ⟨a1, a2, a3, a4, a5, a6⟩ := feedEvents_uframe_like (w.emit (.ev .feedErr)) [.err]
      exact quiet _ _ h1 (by rw [a5]) a6 (Or.inl a1) a2
  | op id hd req =>
    have h1 := emitted (by simp)
    simp only [World.apply]
    split
    · exact bad _ h1
    · exact quiet _ _ h1 (by simp) (by simp) (Or.inl (by simp)) (by simp)
  | hold t =>
    have h1 := emitted (by simp)
    simp only [World.apply]
    split
    · exact h1
    · exact quiet _ _ h1 rfl rfl (Or.inl rfl) rfl
  | release t => exact quiet _ _ (emitted (by simp)) rfl rfl (Or.inl rfl) rfl
  | drop t =>
    have h1 := emitted (by simp)
    cases t with
    | ctx => exact h1
    | op id =>
      show MaxInv ((w.emit (.ev (.drop (.op id)))).dropOp id)
      exact h1.uframe (uframe_dropOp _ id) [] (by simpa using (dropOp_rx_out (w.emit (.ev (.drop (.op id)))) id).2) (by simp)
    | st id =>
      simp only [World.apply]
      split
      · exact quiet _ _ h1 (by simp [dropChanRx]) (by simp [dropChanRx]) (Or.inl (by simp [dropChanRx])) (by simp [dropChanRx])
      · exact h1
  | dropRsp id =>
    have h1 := emitted (by simp)
    simp only [World.apply]
    split
    · exact quiet _ _ h1 (by simp [dropChanRx]) (by simp [dropChanRx]) (Or.inl (by simp [dropChanRx])) (by simp [dropChanRx])
    · exact h1
  | stream id =>
    have h1 := emitted (by simp)
    simp only [World.apply]
    split
    · exact bad _ h1
    · exact quiet _ _ h1 (by simp) (by simp) (Or.inl (by simp)) (by simp)
  | clone hd h2 =>
    have h1 := emitted (by simp)
    simp only [World.apply]
    split
    · exact bad _ h1
    · exact quiet _ _ h1 rfl rfl (Or.inl rfl) rfl
  | dropHandle hd =>
    have h1 := emitted (by simp)
    simp only [World.apply]
    split
    · exact bad _ h1
    · exact quiet _ _ h1 (by simp) (by simp) (Or.inl (by simp)) (by simp)

/-- **the invariant holds at every moment of every execution** -/
theorem MaxInv.micro {w w' : World} (h : MaxInv w) (hm : Micro w w') : MaxInv w' := by
  cases hm with
  | ctx => exact h.pollCtx
  | user t ht =>
    obtain ⟨u, added, ho, hu⟩ := pollTask_user w t ht
    exact h.uframe u added ho (fun o ho' => maxNeutral_userObs (hu o ho'))
  | unwake t => exact h.same rfl id h.hasCtx [] (by simp) (by simp)
  | ev e hp hb => exact h.apply e hp
  | logged t hb =>
    exact h.same rfl id h.hasCtx [.ev (.poll t)] rfl
      (by intro o ho; simp only [List.mem_singleton] at ho; subst ho; exact maxNeutral_ev (by simp))
  | stall =>
    exact h.same rfl id h.hasCtx [.stall] rfl (by intro o ho; simp only [List.mem_singleton] at ho; subst ho; intro acc; rfl)
  | flush =>
    obtain ⟨added, ea, hd⟩ := flushRaw_dull w
    refine h.same (by rw [flushRaw_c]) (fun x => ?_) (fun ht => ?_) added ea (fun o ho => maxNeutral_dull (hd o ho))
    · have : w.flushRaw.hasCtx = w.hasCtx := by unfold flushRaw; split <;> rfl
      rw [this] at x; exact x
    · have e1 : w.flushRaw.hasCtx = w.hasCtx := by unfold flushRaw; split <;> rfl
      have e2 : w.flushRaw.task = w.task := by unfold flushRaw; split <;> rfl
      rw [e1]; exact h.hasCtx (by rw [← e2]; exact ht)

theorem during_maxInv {cfg : Cfg} {w : World} (h : During cfg w) : MaxInv w := by
  induction h with
  | init => exact MaxInv.init cfg
  | next _ hm ih => exact ih.micro hm


/-! ## a oneshot holds `MaximumPacketSizeExceeded` only because a request was refused for its size -/

/-- the iteration that starts in `wm` refuses the request at the head of the queue for its size, and that request's
    oneshot is `s` -/
def RefusedAt (wm : World) (s : Nat) : Prop := ∃ m q, wm.queue = m :: q ∧ m.slot = s ∧ TooBig wm.c m.pkt

/-- the slot `s` holds `MaximumPacketSizeExceeded` in `w'` but did not in `w` -/
def NewErr (w w' : World) (s : Nat) : Prop :=
  w'.slot s = some (.full .errSize) ∧ w.slot s ≠ some (.full .errSize)

theorem slot_of_slots_eq {w w' : World} (h : w'.slots = w.slots) (s : Nat) : w'.slot s = w.slot s := by
  simp [slot, h]

/-- handling an inbound packet never puts `MaximumPacketSizeExceeded` into a oneshot -/
theorem pktStep_errSize (w : World) (rx' : Rx) (rd' : List ReadEv) (p : RxPacket) (s : Nat) :
    (({ w with rx := rx', reader := rd' }).runHandler (fun wok => w.c.handlePkt w.chanRxAlive p wok)).1.slot s =
      some (.full .errSize) → w.slot s = some (.full .errSize) := by
  intro h
  obtain ⟨b, _, _, hs, _⟩ := runHandler_rel ({ w with rx := rx', reader := rd' })
    (fun wok => w.c.handlePkt w.chanRxAlive p wok)
  rcases hs s with e | ⟨_, e | ⟨v, e, hv⟩⟩
  · rw [e] at h; exact h
  · rw [e] at h; cases h
  · rw [e] at h
    simp only [Option.some.injEq, Slot.full.injEq] at h
    subst h
    obtain ⟨h1, _⟩ := (only_own_ack_completes w.c w.chanRxAlive p b).2.2 s _ hv
    cases h1

/-- handling a queued message puts `MaximumPacketSizeExceeded` into a oneshot only by refusing it for its size -/
theorem msgStep_errSize (w : World) (m : Msg) (q : List Msg) (hq : w.queue = m :: q) (s : Nat)
    (h : (headStep w m q).1.slot s = some (.full .errSize)) :
    w.slot s = some (.full .errSize) ∨ RefusedAt w s := by
  obtain ⟨b, _, _, hs, _⟩ := runHandler_rel ({ w with queue := q }) (fun wok => w.c.handleMsg m wok)
  unfold headStep at h
  rcases hs s with e | ⟨_, e | ⟨v, e, hv⟩⟩
  · left; rw [e] at h; exact h
  · rw [e] at h; cases h
  · rw [e] at h
    simp only [Option.some.injEq, Slot.full.injEq] at h
    subst h
    right
    exact ⟨m, q, hq, ((msg_replies_only_to_its_own_slot w.c m b s _ hv).1).symm,
      (handleMsg_errSize_iff w.c m b).1 ⟨s, hv⟩⟩

theorem runCont_errSize {w w1 : World} (h : RunCont w w1) (s : Nat) (h1 : w1.slot s = some (.full .errSize)) :
    w.slot s = some (.full .errSize) ∨ RefusedAt w s := by
  cases h with
  | msg m q w1 hq hr =>
    have e : w1 = (headStep w m q).1 := by unfold headStep; rw [hr]
    subst e; exact msgStep_errSize w m q hq s h1
  | pkt rx' rd' fr p w1 hq hs hp hd hr =>
    have e : w1 = (World.runHandler { w with rx := rx', reader := rd' }
        (fun wok => w.c.handlePkt w.chanRxAlive p wok)).1 := by rw [hr]
    subst e; exact Or.inl (pktStep_errSize w rx' rd' p s h1)

theorem runEnd_errSize {w r : World} (h : RunEnd w r) (s : Nat) (h1 : r.slot s = some (.full .errSize)) :
    w.slot s = some (.full .errSize) ∨ RefusedAt w s := by
  cases h with
  | msgExit m q w1 fl hq hr hne =>
    have e : w1 = (headStep w m q).1 := by unfold headStep; rw [hr]
    subst e; exact msgStep_errSize w m q hq s h1
  | closed hq hs => exact Or.inl h1
  | pktExit rx' rd' fr p w1 fl hq hs hp hd hr hne =>
    have e : w1 = (World.runHandler { w with rx := rx', reader := rd' }
        (fun wok => w.c.handlePkt w.chanRxAlive p wok)).1 := by rw [hr]
    subst e; exact Or.inl (pktStep_errSize w rx' rd' p s h1)
  | codec rx' rd' fr hq hs hp hd => exact Or.inl h1
  | panic rx' rd' fr hq hs hp hd => exact Or.inl h1
  | sock rx' rd' hq hs hp => exact Or.inl h1
  | pending rx' rd' hq hs hp =>
    left
    by_cases hrd : rd' = []
    · rw [if_pos hrd] at h1; exact h1
    · rw [if_neg hrd] at h1; simpa [slot] using h1

/-- along the iterations of one poll of the loop: the oneshot held the value at the start, or some iteration refused
    its request for its size -/
theorem serve_errSize {w wm : World} (hs : Serve w wm) (s : Nat) (h1 : wm.slot s = some (.full .errSize)) :
    w.slot s = some (.full .errSize) ∨ ∃ wk, Serve w wk ∧ RefusedAt wk s := by
  induction hs with
  | refl w => exact Or.inl h1
  | @step a b c hc hs' ih =>
    rcases ih h1 with h | ⟨wk, h2, h3⟩
    · rcases runCont_errSize hc s h with h | h
      · exact Or.inl h
      · exact Or.inr ⟨a, .refl a, h⟩
    · exact Or.inr ⟨wk, .step hc h2, h3⟩

theorem runLoop_errSize (f : Nat) (w : World) (s : Nat) (h1 : (runLoop f w).slot s = some (.full .errSize)) :
    w.slot s = some (.full .errSize) ∨ ∃ wk, Serve w wk ∧ RefusedAt wk s := by
  obtain ⟨wm, hs, he⟩ := runLoop_decomp f w
  rcases he with he | he
  · rw [he] at h1; exact serve_errSize hs s h1
  · rcases runEnd_errSize he s h1 with h | h
    · exact serve_errSize hs s h
    · exact Or.inr ⟨wm, hs, h⟩

/-- session resumption only ever closes oneshots -/
theorem resumed_slot_full (w : World) (s : Nat) (v : SlotVal) (h : w.resumed.slot s = some (.full v)) :
    w.slot s = some (.full v) := by
  have hs := applyEffs_slotRel ({ w with c := w.c.resume.1, task := .running true } : World) w.c.resume.2.1
  rcases hs s with e | ⟨_, e | ⟨v', e, hv⟩⟩
  · rw [resumed, e] at h; exact h
  · rw [resumed, e] at h; cases h
  · exfalso
    have hq := resume_effs_quiet w.c
    have : ∀ (es : List Eff), (∀ e ∈ es, ∀ s v, e ≠ .send s v) → sendsOf es = [] := by
      intro es hn
      induction es with
      | nil => rfl
      | cons e t ih =>
        cases e with
        | send s0 v0 => exact absurd rfl (hn _ (by simp) s0 v0)
        | _ => exact ih (fun e he => hn e (by simp [he]))
    have hns : ∀ e ∈ w.c.resume.2.1, ∀ s v, e ≠ .send s v := by
      intro e he s0 v0 h0
      subst h0
      unfold Ctx.resume at he
      split at he
      · simp at he
      · rename_i el _
        by_cases hx : w.c.sessionExpired el = true
        · simp [hx, Ctx.resetSession] at he
        · simp [hx] at he
    rw [this _ hns] at hv
    cases hv

theorem resent_slots (w : World) : w.resent.slots = w.resumed.slots := by
  rw [resent, (foldl_writeBytes_frame _ _).2.2.2.2.2.2.2.2.2.2.1]

/-- **One poll of the context task puts `MaximumPacketSizeExceeded` into a oneshot only by refusing a request for its
    size.** If after the poll the oneshot `s` holds `MaximumPacketSizeExceeded` and did not before, then `run()` was
    executing, and the iteration that started in some world `wm` of this poll (`InPoll`) found at the head of the queue a
    message carrying the oneshot `s` whose packet exceeds the limit in force in `wm`. -/
theorem pollCtx_errSize (w : World) (s : Nat) (h : NewErr w w.pollCtx s) :
    ∃ started wm, w.task = .running started ∧ InPoll w started wm ∧ RefusedAt wm s := by
  obtain ⟨h1, h0⟩ := h
  cases ht : w.task with
  | none =>
    have e : w.pollCtx = w := by simp [pollCtx, ht]
    rw [e] at h1; exact absurd h1 h0
  | connecting call t a started =>
    exfalso
    have e : w.pollCtx = w.pollConnect call t a started := by simp [pollCtx, ht]
    rw [e] at h1
    have fe : ∀ (w0 : World), (w0.awaitFirst call t a).slots = w0.slots := by
      intro w0
      rcases firstEnd_out (awaitFirst_spec w0 call t a) with ⟨_, _, a3, _⟩ | ⟨_, _, _, a4, _⟩
      · exact a3
      · exact a4
    cases started with
    | true =>
      simp only [pollConnect, ↓reduceIte] at h1
      rw [slot_of_slots_eq (fe w)] at h1; exact h0 h1
    | false =>
      rcases pollConnect_prelude w call t a with ⟨_, h2⟩ | ⟨_, w0, _, _, _, _, a5, _, _, h2 | h2⟩
      · rw [h2] at h1; exact h0 (by simpa [slot] using h1)
      · rw [h2, slot_of_slots_eq (fe w0), slot_of_slots_eq a5] at h1; exact h0 h1
      · rw [h2] at h1
        have : (w0.finish call (.err .socketClosed)).slots = w.slots := by simpa using a5
        rw [slot_of_slots_eq this] at h1; exact h0 h1
  | running started =>
    have e : w.pollCtx = w.pollRun started := by simp [pollCtx, ht]
    rw [e] at h1
    refine ⟨started, ?_⟩
    cases started with
    | true =>
      simp only [pollRun, ↓reduceIte] at h1
      rcases runLoop_errSize _ w s h1 with h | ⟨wk, h2, h3⟩
      · exact absurd h h0
      · exact ⟨wk, rfl, ⟨w, fun _ => rfl, fun h => (by cases h), h2⟩, h3⟩
    | false =>
      rw [pollRun_first_eq] at h1
      cases hcw : w.resumed.canWrite ((w.c.resume.2.2.map List.length).sum) with
      | true =>
        simp only [hcw, ↓reduceIte] at h1
        rcases runLoop_errSize _ w.resent s h1 with h | ⟨wk, h2, h3⟩
        · rw [slot_of_slots_eq (resent_slots w)] at h
          exact absurd (resumed_slot_full w s _ h) h0
        · exact ⟨wk, rfl, ⟨w.resent, fun h => (by cases h), fun _ => ⟨hcw, rfl⟩, h2⟩, h3⟩
      | false =>
        exfalso
        simp only [hcw, Bool.false_eq_true, ↓reduceIte] at h1
        have : ((w.resumed.writeBytes w.c.resume.2.2.flatten).finish .run (.err .socketClosed)).slots = w.resumed.slots := by
          simp
        rw [slot_of_slots_eq this] at h1
        exact h0 (resumed_slot_full w s _ h1)

end W10
end World
end Poster
