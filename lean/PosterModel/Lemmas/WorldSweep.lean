/-
  Lemmas/WorldSweep.lean — a sweep (every live, non-flagged task polled once) over a quiescent world changes
  nothing but waker registrations.
-/
import PosterModel.Lemmas.WorldRun

set_option linter.unusedVariables false
set_option linter.unusedSimpArgs false

namespace Poster
open Framing
namespace World

/-- the world with every waker registration erased: transport waker, queue waker, oneshot wakers, stream wakers -/
def eraseRegs (w : World) : World :=
  { w with readerReg := false, queueReg := false, slotReg := [],
           chans := w.chans.map fun kc => (kc.1, { kc.2 with reg := false }) }

/-- every live task is waiting and nothing it waits for has happened -/
structure Quiescent (w : World) : Prop where
  ctx : w.task = .none ∨
    (w.task = .running true ∧ w.queue = [] ∧ w.reader = [] ∧ 0 < w.senders ∧ w.rx.st = .idle) ∨
    (∃ call t a, w.task = .connecting call t a true ∧ w.reader = [] ∧ w.rx.st = .idle)
  ops : ∀ id st, w.opSt id = some st → ∃ s k, st = .wait s k ∧ w.slot s = some .empty
  sts : ∀ id, id ∈ w.streams → ∃ ch, w.chan id = some ch ∧ ch.buf = [] ∧ ch.txAlive = true

theorem lookupFirst_map_eraseReg (id : Nat) (l : List (Nat × Chan)) :
    lookupFirst id (l.map fun kc => (kc.1, { kc.2 with reg := false })) =
      (lookupFirst id l).map fun c => { c with reg := false } := by
  induction l with
  | nil => rfl
  | cons x t ih =>
    obtain ⟨a, b⟩ := x
    simp only [List.map_cons, lookupFirst]
    split
    · rfl
    · exact ih

theorem map_eraseReg_setAssoc (id : Nat) (ch : Chan) (r : Bool) (l : List (Nat × Chan))
    (h : lookupFirst id l = some ch) :
    (setAssoc id { ch with reg := r } l).map (fun kc => (kc.1, { kc.2 with reg := false })) =
      l.map fun kc => (kc.1, { kc.2 with reg := false }) := by
  induction l with
  | nil => simp [lookupFirst] at h
  | cons x t ih =>
    obtain ⟨a, b⟩ := x
    simp only [lookupFirst] at h
    simp only [setAssoc]
    split at h
    · rename_i hak
      simp only [Option.some.injEq] at h
      subst h; subst hak
      simp
    · rename_i hak
      simp only [hak, ↓reduceIte, List.map_cons, List.cons.injEq, true_and]
      exact ih h

theorem unwake_of_not_mem (w : World) (t : Task) (h : t ∉ w.woken) : w.unwake t = w := by
  have : w.woken.filter (· ≠ t) = w.woken := by
    rw [List.filter_eq_self]
    intro a ha
    simp only [ne_eq, decide_not, Bool.not_eq_eq_eq_not, Bool.not_true, decide_eq_false_iff_not]
    intro e; subst e; exact h ha
  simp only [unwake, this]

theorem quiescent_of_eraseRegs {w w' : World} (h : eraseRegs w' = eraseRegs w) (hq : Quiescent w) :
    Quiescent w' := by
  have htask : w'.task = w.task := by
    have := congrArg World.task h; exact this
  have hqueue : w'.queue = w.queue := by
    have := congrArg World.queue h; exact this
  have hreader : w'.reader = w.reader := by
    have := congrArg World.reader h; exact this
  have hrx : w'.rx = w.rx := by
    have := congrArg World.rx h; exact this
  have hops : w'.ops = w.ops := by
    have := congrArg World.ops h; exact this
  have hhandles : w'.handles = w.handles := by
    have := congrArg World.handles h; exact this
  have hslots : w'.slots = w.slots := by
    have := congrArg World.slots h; exact this
  have hstreams : w'.streams = w.streams := by
    have := congrArg World.streams h; exact this
  have hchans : w'.chans.map (fun kc => (kc.1, { kc.2 with reg := false })) =
      w.chans.map (fun kc => (kc.1, { kc.2 with reg := false })) := by
    have := congrArg World.chans h; exact this
  refine ⟨?_, ?_, ?_⟩
  · simpa [htask, hqueue, hreader, hrx, senders, hops, hhandles] using hq.ctx
  · intro id st hst
    simpa [opSt, slot, hops, hslots] using hq.ops id st (by simpa [opSt, hops] using hst)
  · intro id hid
    obtain ⟨ch, h1, h2, h3⟩ := hq.sts id (hstreams ▸ hid)
    have e := lookupFirst_map_eraseReg id w'.chans
    rw [hchans, lookupFirst_map_eraseReg] at e
    have h1' : lookupFirst id w.chans = some ch := h1
    rw [h1'] at e
    cases hc : lookupFirst id w'.chans with
    | none => rw [hc] at e; cases e
    | some ch' =>
      rw [hc] at e
      simp only [Option.map_some, Option.some.injEq, Chan.mk.injEq, and_true] at e
      exact ⟨ch', hc, by rw [← e.1]; exact h2, by rw [← e.2.1]; exact h3⟩

/-- a poll of a live, non-flagged task of a quiescent world only sets registrations -/
theorem pollTask_quiescent (w : World) (t : Task) (hq : Quiescent w) (hl : w.taskLive t = true)
    (hw : t ∉ w.woken) : eraseRegs (w.pollTask t) = eraseRegs w := by
  unfold pollTask
  simp only [unwake_of_not_mem w t hw]
  cases t with
  | ctx =>
    simp only
    rcases hq.ctx with h | ⟨h1, h2, h3, h4, h5⟩ | ⟨call, t, a, h1, h2, h3⟩
    · simp [pollCtx, h]
    · have hp := pollNext_idle_nil w.rx h5
      have hf : w.loopFuel = (w.loopFuel - 1) + 1 := by simp only [loopFuel]; omega
      have hs' : w.senders ≠ 0 := by omega
      have e : w.pollCtx = { w with readerReg := true, queueReg := true } := by
        simp only [pollCtx, h1, pollRun, ↓reduceIte]
        rw [hf, runLoop_succ]
        simp only [runIter, h2, hs', h3, hp, ↓reduceIte]
        simp [h1]
      rw [e]; rfl
    · have hp := pollNext_idle_nil w.rx h3
      have e : w.pollCtx = { w with readerReg := true } := by
        simp only [pollCtx, h1, pollConnect, ↓reduceIte, awaitFirst, h2, hp]
      rw [e]; rfl
  | op n =>
    simp only
    simp only [taskLive, Option.isSome_iff_exists] at hl
    obtain ⟨st, hst⟩ := hl
    obtain ⟨s, k, rfl, hs⟩ := hq.ops n st hst
    have e : w.pollOp n = { w with slotReg := if s ∈ w.slotReg then w.slotReg else w.slotReg ++ [s] } := by
      simp [pollOp, hst, hs]
    rw [e]; rfl
  | st n =>
    simp only
    have hn : n ∈ w.streams := by simpa [taskLive] using hl
    obtain ⟨ch, h1, h2, h3⟩ := hq.sts n hn
    have e : w.pollStream n = { w with chans := setAssoc n { ch with reg := true } w.chans } := by
      simp [pollStream, hn, h1, h2, h3, setChan]
    rw [e]
    simp only [eraseRegs, map_eraseReg_setAssoc n ch true w.chans h1]

theorem sweep_quiescent (w : World) (hq : Quiescent w) : eraseRegs w.sweep = eraseRegs w := by
  unfold sweep
  simp only
  generalize ([Task.ctx] ++ List.map Task.op (sortNat (List.map (fun x => x.1) w.ops)) ++
    List.map Task.st (sortNat w.streams)) = tasks
  suffices h : ∀ (l : List Task) (w0 : World), Quiescent w0 →
      eraseRegs (l.foldl (fun w t => if w.taskLive t ∧ t ∉ w.woken ∧ t ∉ w.held then w.pollTask t else w) w0) =
        eraseRegs w0 from h tasks w hq
  intro l
  induction l with
  | nil => intro w0 _; rfl
  | cons t rest ih =>
    intro w0 h0
    simp only [List.foldl_cons]
    split
    · rename_i hc
      have h1 := pollTask_quiescent w0 t h0 hc.1 hc.2.1
      rw [ih _ (quiescent_of_eraseRegs h1 h0), h1]
    · exact ih _ h0

end World
end Poster
