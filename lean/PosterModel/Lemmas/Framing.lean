/-
  Lemmas/Framing.lean — helper lemmas for the framing properties (C03, framing parts of C04/C16):
    * prefix stability of the variable-byte-integer parse and of `frameLen`
    * unfolding / uniqueness lemmas for the reference framing `frames`
    * the state invariant `Rx.Ok`, `dataOf`, the one-call specification of `pollNext`
    * the consumer loop `collect` and the stream-level inductions
  Core Lean only.
-/
import PosterModel.Framing

set_option linter.unusedVariables false
set_option linter.unusedSimpArgs false

namespace Poster.Framing
open Poster

/-! ## prefix stability of the length parse -/

theorem decVarAux_ok_append (idx mult acc : Nat) (a b : Bytes) (n k : Nat)
    (h : decVarAux idx mult acc a = .ok n k) : decVarAux idx mult acc (a ++ b) = .ok n k := by
  induction a generalizing idx mult acc with
  | nil => simp [decVarAux] at h
  | cons x xs ih =>
    simp only [List.cons_append, decVarAux] at h ⊢
    split at h
    · simp at h
    · rename_i hm
      simp only [hm, ↓reduceIte]
      split at h
      · rename_i hx; simp only [hx, ↓reduceIte]; exact h
      · rename_i hx; simp only [hx, ↓reduceIte]; exact ih _ _ _ h

theorem decVarAux_bad_append (idx mult acc : Nat) (a b : Bytes)
    (h : decVarAux idx mult acc a = .bad) : decVarAux idx mult acc (a ++ b) = .bad := by
  induction a generalizing idx mult acc with
  | nil => simp [decVarAux] at h
  | cons x xs ih =>
    simp only [List.cons_append, decVarAux] at h ⊢
    split at h
    · rename_i hm; simp [hm]
    · rename_i hm
      simp only [hm, ↓reduceIte]
      split at h
      · rename_i hx; simp only [hx, ↓reduceIte]; exact h
      · rename_i hx; simp only [hx, ↓reduceIte]; exact ih _ _ _ h

theorem decVarAux_idx_lt (idx mult acc : Nat) (a : Bytes) (n k : Nat)
    (h : decVarAux idx mult acc a = .ok n k) : idx < k ∧ k ≤ idx + a.length := by
  induction a generalizing idx mult acc with
  | nil => simp [decVarAux] at h
  | cons x xs ih =>
    simp only [decVarAux] at h
    split at h
    · simp at h
    · split at h
      · split at h
        · simp only [VarRes.ok.injEq] at h; simp; omega
        · simp at h
      · have := ih _ _ _ h; simp; omega

theorem decVarAux_ok_take (idx mult acc : Nat) (a : Bytes) (n k m : Nat)
    (h : decVarAux idx mult acc a = .ok n k) (hm : k ≤ idx + m) :
    decVarAux idx mult acc (a.take m) = .ok n k := by
  induction a generalizing idx mult acc m with
  | nil => simp [decVarAux] at h
  | cons x xs ih =>
    have hlt := decVarAux_idx_lt _ _ _ _ _ _ h
    cases m with
    | zero => omega
    | succ m' =>
      simp only [List.take_succ_cons, decVarAux] at h ⊢
      split at h
      · simp at h
      · rename_i hmu
        simp only [hmu, ↓reduceIte]
        split at h
        · rename_i hx; simp only [hx, ↓reduceIte]; exact h
        · rename_i hx; simp only [hx, ↓reduceIte]; exact ih _ _ _ _ h (by omega)

/-! ## `frameLen` -/

theorem frameLen_cons (x : UInt8) (t : Bytes) :
    frameLen (x :: t) = match decVar t with | .ok n k => .ok (1 + k + n) k | r => r := by
  simp only [frameLen, List.drop_succ_cons, List.drop_zero]
  cases decVar t <;> rfl

theorem frameLen_short (v : Bytes) (h : v.length < 2) : frameLen v = .need := by
  match v, h with
  | [], _ => simp [frameLen, decVar, decVarAux]
  | [x], _ => simp [frameLen, decVar, decVarAux]

theorem frameLen_ok_append (a b : Bytes) (e k : Nat) (h : frameLen a = .ok e k) :
    frameLen (a ++ b) = .ok e k := by
  cases a with
  | nil => simp [frameLen_short] at h
  | cons x xs =>
    simp only [frameLen_cons, List.cons_append] at h ⊢
    cases hp : decVar xs with
    | ok n k' =>
      rw [hp] at h
      have := decVarAux_ok_append 0 1 0 xs b n k' hp
      simp only [decVar] at *
      rw [this]; exact h
    | need => rw [hp] at h; simp at h
    | bad => rw [hp] at h; simp at h

theorem frameLen_bad_append (a b : Bytes) (h : frameLen a = .bad) : frameLen (a ++ b) = .bad := by
  cases a with
  | nil => simp [frameLen_short] at h
  | cons x xs =>
    simp only [frameLen_cons, List.cons_append] at h ⊢
    cases hp : decVar xs with
    | ok n k' => rw [hp] at h; simp at h
    | need => rw [hp] at h; simp at h
    | bad =>
      have := decVarAux_bad_append 0 1 0 xs b hp
      simp only [decVar] at *
      rw [this]

/-- a determined frame length is at least 2 (fixed header + at least one length byte). -/
theorem frameLen_ok_ge (v : Bytes) (e k : Nat) (h : frameLen v = .ok e k) : 2 ≤ e ∧ 2 ≤ v.length := by
  cases v with
  | nil => simp [frameLen_short] at h
  | cons x xs =>
    simp only [frameLen_cons] at h
    cases hp : decVar xs with
    | ok n k' =>
      rw [hp] at h
      simp only [VarRes.ok.injEq] at h
      have := decVarAux_idx_lt 0 1 0 xs n k' hp
      simp; omega
    | need => rw [hp] at h; simp at h
    | bad => rw [hp] at h; simp at h

theorem frameLen_ok_take (v : Bytes) (e k : Nat) (h : frameLen v = .ok e k) (he : e ≤ v.length) :
    frameLen (v.take e) = .ok e k ∧ (v.take e).length = e := by
  cases v with
  | nil => simp [frameLen_short] at h
  | cons x xs =>
    simp only [frameLen_cons] at h
    cases hp : decVar xs with
    | ok n k' =>
      rw [hp] at h
      simp only [VarRes.ok.injEq] at h
      obtain ⟨h1, h2⟩ := h
      subst h2
      have hb := decVarAux_idx_lt 0 1 0 xs n k' hp
      have : e = (e - 1) + 1 := by omega
      rw [this, List.take_succ_cons]
      have ht := decVarAux_ok_take 0 1 0 xs n k' (e - 1) hp (by omega)
      simp only [frameLen_cons, decVar, ht]
      simp at he
      refine ⟨by simp; omega, by simp; omega⟩
    | need => rw [hp] at h; simp at h
    | bad => rw [hp] at h; simp at h

/-! ## the reference framing `frames` -/

theorem framesAux_fuel (f g : Nat) (bs : Bytes) (hf : bs.length ≤ f) (hg : bs.length ≤ g) :
    framesAux f bs = framesAux g bs := by
  induction f generalizing g bs with
  | zero =>
    have : bs = [] := List.eq_nil_of_length_eq_zero (by omega)
    subst this
    cases g <;> simp [framesAux]
  | succ f ih =>
    cases g with
    | zero =>
      have : bs = [] := List.eq_nil_of_length_eq_zero (by omega)
      subst this
      simp [framesAux]
    | succ g =>
      cases bs with
      | nil => simp [framesAux]
      | cons x t =>
        simp only [framesAux]
        cases decVar t with
        | bad => rfl
        | need => rfl
        | ok n k =>
          simp only
          split
          · rfl
          · rw [ih g ((x :: t).drop (1 + k + n))]
            · simp at hf ⊢; omega
            · simp at hg ⊢; omega

/-- `frames` unfolded once, in terms of `frameLen`. -/
theorem frames_unfold (bs : Bytes) :
    frames bs =
      match frameLen bs with
      | .bad => none
      | .need => some ([], bs)
      | .ok e _ =>
        if bs.length < e then some ([], bs)
        else (frames (bs.drop e)).map fun (ps, tl) => (bs.take e :: ps, tl) := by
  cases bs with
  | nil => simp [frames, framesAux, frameLen_short]
  | cons x t =>
    simp only [frames, List.length_cons, framesAux, frameLen_cons]
    cases decVar t with
    | bad => rfl
    | need => rfl
    | ok n k =>
      simp only
      split
      · rfl
      · rw [framesAux_fuel t.length ((x :: t).drop (1 + k + n)).length _ (by simp; omega) (Nat.le_refl _)]

/-- `v` holds no complete frame: its length field is incomplete, or announces more bytes than `v` has. -/
def NoFrame (v : Bytes) : Prop :=
  frameLen v = .need ∨ ∃ e k, frameLen v = .ok e k ∧ v.length < e

theorem frames_of_noFrame (v : Bytes) (h : NoFrame v) : frames v = some ([], v) := by
  rw [frames_unfold]
  rcases h with h | ⟨e, k, h, hl⟩
  · rw [h]
  · rw [h]; simp [hl]

theorem noFrame_nil : NoFrame [] := Or.inl (frameLen_short _ (by simp))

theorem noFrame_short (v : Bytes) (h : v.length < 2) : NoFrame v := Or.inl (frameLen_short _ h)

/-- uniqueness of the greedy split: a complete frame in front is split off. -/
theorem frames_cons (p rest : Bytes) (k : Nat) (h : frameLen p = .ok p.length k) :
    frames (p ++ rest) = (frames rest).map fun (ps, tl) => (p :: ps, tl) := by
  rw [frames_unfold, frameLen_ok_append p rest _ _ h]
  have : ¬ (p ++ rest).length < p.length := by simp
  simp only [this, ↓reduceIte, List.drop_left, List.take_left]

theorem frames_bad (v x : Bytes) (h : frameLen v = .bad) : frames (v ++ x) = none := by
  rw [frames_unfold, frameLen_bad_append v x h]

theorem frames_nil : frames [] = some ([], []) := by simp [frames, framesAux]

/-- a list of complete frames is its own framing. -/
theorem frames_flatten (ps : List Bytes) (h : ∀ p ∈ ps, ∃ k, frameLen p = .ok p.length k) :
    frames ps.flatten = some (ps, []) := by
  induction ps with
  | nil => simp [frames_nil]
  | cons p ps ih =>
    obtain ⟨k, hk⟩ := h p (by simp)
    rw [List.flatten_cons, frames_cons p _ k hk, ih (fun q hq => h q (by simp [hq]))]
    simp

/-! ## reader scripts -/

/-- an event that makes `poll_next` report end-of-stream: `Ready(Ok(0))`, `Ready(Err)`, a zero-length read. -/
def ReadEv.isEnd : ReadEv → Bool
  | .data bs => decide (bs.length = 0)
  | .pending => false
  | .eof => true
  | .err => true

/-- the script contains an end-of-stream event. -/
def hasEnd : List ReadEv → Bool
  | [] => false
  | e :: rs => e.isEnd || hasEnd rs

/-- the script consists of non-empty `data` events and `pending` events only. -/
def Clean (rs : List ReadEv) : Prop := hasEnd rs = false

instance (rs : List ReadEv) : Decidable (Clean rs) := by unfold Clean; infer_instance

/-- the next event is an end-of-stream event. -/
def atEnd : List ReadEv → Bool
  | [] => false
  | e :: _ => e.isEnd

/-- the script consists of non-empty `data` events only. -/
def AllData : List ReadEv → Prop
  | [] => True
  | .data bs :: rs => bs.length ≠ 0 ∧ AllData rs
  | _ :: _ => False

def nPending : List ReadEv → Nat
  | [] => 0
  | .pending :: rs => nPending rs + 1
  | _ :: rs => nPending rs

/-- the bytes the transport delivers before it ends: the concatenation of the `data` events up to the first
    end-of-stream event. -/
def dataOf : List ReadEv → Bytes
  | [] => []
  | .data bs :: rs => if bs.length = 0 then [] else bs ++ dataOf rs
  | .pending :: rs => dataOf rs
  | .eof :: _ => []
  | .err :: _ => []

theorem dataOf_atEnd (rs : List ReadEv) (h : atEnd rs = true) : dataOf rs = [] := by
  cases rs with
  | nil => simp [atEnd] at h
  | cons e t => cases e <;> simp_all [atEnd, ReadEv.isEnd, dataOf]

theorem dataOf_split (bs : Bytes) (c : Nat) (rs : List ReadEv) (hc : 0 < c) (hb : c < bs.length) :
    bs.take c ++ dataOf (.data (bs.drop c) :: rs) = dataOf (.data bs :: rs) := by
  have h1 : ¬ bs.length = 0 := by omega
  have h2 : ¬ bs.length - c = 0 := by omega
  simp [dataOf, h1, h2, ← List.append_assoc, List.take_append_drop]

theorem dataOf_append (a b : List ReadEv) (h : Clean a) : dataOf (a ++ b) = dataOf a ++ dataOf b := by
  induction a with
  | nil => simp [dataOf]
  | cons e t ih =>
    cases e with
    | data bs =>
      simp only [Clean, hasEnd, ReadEv.isEnd, Bool.or_eq_false_iff, decide_eq_false_iff_not] at h
      simp [dataOf, h.1, ih h.2]
    | pending =>
      simp only [Clean, hasEnd, ReadEv.isEnd, Bool.false_or] at h
      simp [dataOf, ih h]
    | eof => simp [Clean, hasEnd, ReadEv.isEnd] at h
    | err => simp [Clean, hasEnd, ReadEv.isEnd] at h

theorem hasEnd_append (a b : List ReadEv) : hasEnd (a ++ b) = (hasEnd a || hasEnd b) := by
  induction a with
  | nil => simp [hasEnd]
  | cons e t ih => simp [hasEnd, ih, Bool.or_assoc]

theorem allData_clean (rs : List ReadEv) (h : AllData rs) : Clean rs ∧ nPending rs = 0 := by
  induction rs with
  | nil => simp [Clean, hasEnd, nPending]
  | cons e t ih =>
    cases e with
    | data bs =>
      simp only [AllData] at h
      have := ih h.2
      simp [Clean, hasEnd, ReadEv.isEnd, nPending, h.1, this.2]
      exact this.1
    | pending => simp [AllData] at h
    | eof => simp [AllData] at h
    | err => simp [AllData] at h

theorem nPending_append (a b : List ReadEv) : nPending (a ++ b) = nPending a + nPending b := by
  induction a with
  | nil => simp [nPending]
  | cons e t ih => cases e <;> simp [nPending, ih] <;> omega

/-! ## the state invariant -/

/-- State invariant of `RxPacketStream`:
    a non-zero `packet.end` is the frame length determined by the received bytes; in `ReadPacketData` it is;
    in `ReadPacketLen` at least one byte is buffered (so `&buf[1..size]` is a valid range);
    in `Idle` no complete packet is buffered. -/
def Rx.Ok (s : Rx) : Prop :=
  (s.pend = 0 ∨ ∃ k, frameLen s.valid = .ok s.pend k) ∧
  (s.st = .data → ∃ k, frameLen s.valid = .ok s.pend k) ∧
  (s.st = .len → 1 ≤ s.valid.length) ∧
  (s.st = .idle → NoFrame s.valid)

theorem ok_init : Rx.Ok {} := ⟨Or.inl rfl, by simp, by simp, fun _ => noFrame_nil⟩

theorem ok_pend_append (s : Rx) (b : Bytes) (hs : s.Ok) :
    s.pend = 0 ∨ ∃ k, frameLen (s.valid ++ b) = .ok s.pend k := by
  rcases hs.1 with h0 | ⟨k, hk⟩
  · exact Or.inl h0
  · exact Or.inr ⟨k, frameLen_ok_append _ _ _ _ hk⟩

/-- What one call of `pollNext` guarantees. -/
theorem pollNext_spec_aux (s : Rx) (rs : List ReadEv) (hs : s.Ok) :
    match pollNext s rs with
    | (s', rs', .item p) =>
        s.valid ++ dataOf rs = p ++ (s'.valid ++ dataOf rs') ∧ (∃ k, frameLen p = .ok p.length k) ∧ s'.Ok
    | (s', rs', .pending) =>
        s.valid ++ dataOf rs = s'.valid ++ dataOf rs' ∧ s'.Ok ∧ s'.st = .idle
    | (s', rs', .none) =>
        s.valid ++ dataOf rs = s'.valid ++ dataOf rs' ∧ s'.Ok ∧
          ((s'.st = .idle ∧ atEnd rs' = true) ∨ (s'.st = .len ∧ frameLen s'.valid = .bad)) := by
  fun_induction pollNext s rs with
  | case1 s h => simp [dataOf]; exact ⟨hs, h⟩
  | case2 s h rs' => simp [dataOf]; exact ⟨hs, h⟩
  | case3 s h rs' => exact ⟨rfl, hs, Or.inl ⟨h, rfl⟩⟩
  | case4 s h rs' => exact ⟨rfl, hs, Or.inl ⟨h, rfl⟩⟩
  | case5 s h bs rs' hb0 => exact ⟨rfl, hs, Or.inl ⟨h, by simp [atEnd, ReadEv.isEnd, hb0]⟩⟩
  | case6 s h bs rs' hb0 c hb v hv ih =>
    have hok : Rx.Ok { s with valid := v, st := .len } :=
      ⟨ok_pend_append s bs hs, by simp, by simp; omega, by simp⟩
    have := ih hok
    revert this
    generalize pollNext _ rs' = r
    rcases r with ⟨s', rs'', o⟩
    cases o <;> simp [v, dataOf, hb0, List.append_assoc] <;> intro h <;> exact h
  | case7 s h bs rs' hb0 c hb v hv ih =>
    have hok : Rx.Ok { s with valid := v } :=
      ⟨ok_pend_append s bs hs, by simp [h], by simp [h], fun _ => noFrame_short v (by omega)⟩
    have := ih hok
    revert this
    generalize pollNext _ rs' = r
    rcases r with ⟨s', rs'', o⟩
    cases o <;> simp [v, dataOf, hb0, List.append_assoc] <;> intro h <;> exact h
  | case8 s h bs rs' hb0 c hb v hv ih =>
    have hok : Rx.Ok { s with valid := v, st := .len } :=
      ⟨ok_pend_append s _ hs, by simp, by simp; omega, by simp⟩
    have := ih hok
    revert this
    generalize pollNext _ _ = r
    rcases r with ⟨s', rs'', o⟩
    have e := dataOf_split bs c rs' (cap_pos _ _) (by omega)
    cases o <;> simp only [v, List.append_assoc] <;> rw [← e] <;> simp [List.append_assoc] <;> intro h <;> exact h
  | case9 s h bs rs' hb0 c hb v hv ih =>
    have hok : Rx.Ok { s with valid := v } :=
      ⟨ok_pend_append s _ hs, by simp [h], by simp [h], fun _ => noFrame_short v (by omega)⟩
    have := ih hok
    revert this
    generalize pollNext _ _ = r
    rcases r with ⟨s', rs'', o⟩
    have e := dataOf_split bs c rs' (cap_pos _ _) (by omega)
    cases o <;> simp only [v, List.append_assoc] <;> rw [← e] <;> simp [List.append_assoc] <;> intro h <;> exact h
  | case10 s rs h e k hf ih =>
    exact ih ⟨Or.inr ⟨k, hf⟩, fun _ => ⟨k, hf⟩, by simp, by simp⟩
  | case11 s rs h hf ih =>
    exact ih ⟨hs.1, by simp, by simp, fun _ => Or.inl hf⟩
  | case12 s rs h hf => exact ⟨rfl, hs, Or.inr ⟨h, hf⟩⟩
  | case13 s rs h hlt ih =>
    obtain ⟨k, hk⟩ := hs.2.1 h
    exact ih ⟨hs.1, by simp, by simp, fun _ => Or.inr ⟨_, k, hk, hlt⟩⟩
  | case14 s rs h hge pkt rest =>
    obtain ⟨k, hk⟩ := hs.2.1 h
    refine ⟨?_, ?_, ?_⟩
    · simp [pkt, rest, ← List.append_assoc, List.take_append_drop]
    · have := frameLen_ok_take s.valid s.pend k hk (by omega)
      exact ⟨k, by simp only [pkt]; rw [this.2]; exact this.1⟩
    · refine ⟨Or.inl rfl, ?_, ?_, ?_⟩
      · simp only; split <;> simp
      · simp only; split <;> simp; omega
      · simp only; split
        · simp
        · intro _
          have : rest = [] := List.eq_nil_of_length_eq_zero (by omega)
          rw [this]; exact noFrame_nil

/-! ## what one call does to the reader script -/

/-- end-of-stream events are sticky, and none is invented. -/
theorem pollNext_hasEnd (s : Rx) (rs : List ReadEv) : hasEnd (pollNext s rs).2.1 = hasEnd rs := by
  fun_induction pollNext s rs with
  | case1 => rfl
  | case2 => simp [hasEnd, ReadEv.isEnd]
  | case3 => rfl
  | case4 => rfl
  | case5 => rfl
  | case6 s h bs rs' hb0 c hb v hv ih => rw [ih]; simp [hasEnd, ReadEv.isEnd, hb0]
  | case7 s h bs rs' hb0 c hb v hv ih => rw [ih]; simp [hasEnd, ReadEv.isEnd, hb0]
  | case8 s h bs rs' hb0 c hb v hv ih =>
    rw [ih]; have : ¬ bs.length - c = 0 := by omega
    simp [hasEnd, ReadEv.isEnd, hb0, this]
  | case9 s h bs rs' hb0 c hb v hv ih =>
    rw [ih]; have : ¬ bs.length - c = 0 := by omega
    simp [hasEnd, ReadEv.isEnd, hb0, this]
  | case10 s rs h e k hf ih => exact ih
  | case11 s rs h hf ih => exact ih
  | case12 => rfl
  | case13 s rs h hlt ih => exact ih
  | case14 => rfl

def Out.len : Out → Nat
  | .item p => p.length
  | _ => 0

/-- progress measure of the consumer loop -/
def mu (s : Rx) (rs : List ReadEv) : Nat := evBytes rs + rs.length + s.valid.length

/-- no byte is lost or invented, the script never grows, and a consumed `pending` event is paid for. -/
theorem pollNext_measure (s : Rx) (rs : List ReadEv) :
    nPending (pollNext s rs).2.1 ≤ nPending rs ∧
    mu (pollNext s rs).1 (pollNext s rs).2.1 + nPending rs + (pollNext s rs).2.2.len
      ≤ mu s rs + nPending (pollNext s rs).2.1 := by
  fun_induction pollNext s rs with
  | case1 => simp [mu, Out.len]
  | case2 => simp [mu, Out.len, nPending, evBytes]; omega
  | case3 => simp [mu, Out.len]
  | case4 => simp [mu, Out.len]
  | case5 => simp [mu, Out.len]
  | case6 s h bs rs' hb0 c hb v hv ih =>
    simp only [mu, v, evBytes, nPending, List.length_cons, List.length_append] at ih ⊢; omega
  | case7 s h bs rs' hb0 c hb v hv ih =>
    simp only [mu, v, evBytes, nPending, List.length_cons, List.length_append] at ih ⊢; omega
  | case8 s h bs rs' hb0 c hb v hv ih =>
    simp only [mu, v, evBytes, nPending, List.length_cons, List.length_append, List.length_take,
      List.length_drop] at ih ⊢; omega
  | case9 s h bs rs' hb0 c hb v hv ih =>
    simp only [mu, v, evBytes, nPending, List.length_cons, List.length_append, List.length_take,
      List.length_drop] at ih ⊢; omega
  | case10 s rs h e k hf ih => simpa [mu] using ih
  | case11 s rs h hf ih => simpa [mu] using ih
  | case12 => simp [mu, Out.len]
  | case13 s rs h hlt ih => simpa [mu] using ih
  | case14 s rs h hge pkt rest =>
    simp only [mu, Out.len, pkt, rest, List.length_take, List.length_drop]; omega

/-- Shape of a call that returns `Pending`: either the script is exhausted and consisted of data only,
    all of which is now buffered; or exactly one `pending` event was consumed, after data events only,
    all of whose bytes are now buffered. -/
theorem pollNext_pending_shape (s : Rx) (rs : List ReadEv) :
    ∀ s' rs', pollNext s rs = (s', rs', .pending) →
      (rs' = [] ∧ AllData rs ∧ s'.valid = s.valid ++ dataOf rs) ∨
      (∃ pre, rs = pre ++ .pending :: rs' ∧ AllData pre ∧ s'.valid = s.valid ++ dataOf pre) := by
  fun_induction pollNext s rs with
  | case1 s h => intro s' rs' he; simp at he; obtain ⟨rfl, rfl⟩ := he; left; simp [AllData, dataOf]
  | case2 s h rs0 =>
    intro s' rs' he; simp at he; obtain ⟨rfl, rfl⟩ := he; right
    exact ⟨[], by simp, trivial, by simp [dataOf]⟩
  | case3 => intro s' rs' he; simp at he
  | case4 => intro s' rs' he; simp at he
  | case5 => intro s' rs' he; simp at he
  | case6 s h bs rs0 hb0 c hb v hv ih =>
    intro s' rs' he
    rcases ih s' rs' he with ⟨h1, h2, h3⟩ | ⟨pre, h1, h2, h3⟩
    · left; exact ⟨h1, ⟨hb0, h2⟩, by simp [h3, v, dataOf, hb0]⟩
    · right; exact ⟨.data bs :: pre, by simp [h1], ⟨hb0, h2⟩, by simp [h3, v, dataOf, hb0]⟩
  | case7 s h bs rs0 hb0 c hb v hv ih =>
    intro s' rs' he
    rcases ih s' rs' he with ⟨h1, h2, h3⟩ | ⟨pre, h1, h2, h3⟩
    · left; exact ⟨h1, ⟨hb0, h2⟩, by simp [h3, v, dataOf, hb0]⟩
    · right; exact ⟨.data bs :: pre, by simp [h1], ⟨hb0, h2⟩, by simp [h3, v, dataOf, hb0]⟩
  | case8 s h bs rs0 hb0 c hb v hv ih =>
    intro s' rs' he
    have e := dataOf_split bs c
    rcases ih s' rs' he with ⟨h1, h2, h3⟩ | ⟨pre, h1, h2, h3⟩
    · left
      refine ⟨h1, ⟨hb0, h2.2⟩, ?_⟩
      rw [h3, ← e rs0 (cap_pos _ _) (by omega)]; simp [v]
    · right
      cases pre with
      | nil => simp at h1
      | cons x pre' =>
        simp only [List.cons_append, List.cons.injEq] at h1
        obtain ⟨hx, h1⟩ := h1
        subst hx
        refine ⟨.data bs :: pre', by simp [h1], ⟨hb0, h2.2⟩, ?_⟩
        rw [h3, ← e pre' (cap_pos _ _) (by omega)]; simp [v]
  | case9 s h bs rs0 hb0 c hb v hv ih =>
    intro s' rs' he
    have e := dataOf_split bs c
    rcases ih s' rs' he with ⟨h1, h2, h3⟩ | ⟨pre, h1, h2, h3⟩
    · left
      refine ⟨h1, ⟨hb0, h2.2⟩, ?_⟩
      rw [h3, ← e rs0 (cap_pos _ _) (by omega)]; simp [v]
    · right
      cases pre with
      | nil => simp at h1
      | cons x pre' =>
        simp only [List.cons_append, List.cons.injEq] at h1
        obtain ⟨hx, h1⟩ := h1
        subst hx
        refine ⟨.data bs :: pre', by simp [h1], ⟨hb0, h2.2⟩, ?_⟩
        rw [h3, ← e pre' (cap_pos _ _) (by omega)]; simp [v]
  | case10 s rs h e k hf ih => intro s' rs' he; exact ih s' rs' he
  | case11 s rs h hf ih => intro s' rs' he; exact ih s' rs' he
  | case12 => intro s' rs' he; simp at he
  | case13 s rs h hlt ih => intro s' rs' he; exact ih s' rs' he
  | case14 => intro s' rs' he; simp at he

/-! ## equational forms of the one-call facts -/

theorem pollNext_item {s : Rx} {rs : List ReadEv} {s' : Rx} {rs' : List ReadEv} {p : Bytes}
    (hs : s.Ok) (h : pollNext s rs = (s', rs', .item p)) :
    s.valid ++ dataOf rs = p ++ (s'.valid ++ dataOf rs') ∧ (∃ k, frameLen p = .ok p.length k) ∧ s'.Ok := by
  have := pollNext_spec_aux s rs hs; rw [h] at this; exact this

theorem pollNext_pending {s : Rx} {rs : List ReadEv} {s' : Rx} {rs' : List ReadEv}
    (hs : s.Ok) (h : pollNext s rs = (s', rs', .pending)) :
    s.valid ++ dataOf rs = s'.valid ++ dataOf rs' ∧ s'.Ok ∧ s'.st = .idle := by
  have := pollNext_spec_aux s rs hs; rw [h] at this; exact this

theorem pollNext_none {s : Rx} {rs : List ReadEv} {s' : Rx} {rs' : List ReadEv}
    (hs : s.Ok) (h : pollNext s rs = (s', rs', .none)) :
    s.valid ++ dataOf rs = s'.valid ++ dataOf rs' ∧ s'.Ok ∧
      ((s'.st = .idle ∧ atEnd rs' = true) ∨ (s'.st = .len ∧ frameLen s'.valid = .bad)) := by
  have := pollNext_spec_aux s rs hs; rw [h] at this; exact this

theorem pollNext_ok (s : Rx) (rs : List ReadEv) (hs : s.Ok) : (pollNext s rs).1.Ok := by
  have := pollNext_spec_aux s rs hs
  revert this
  generalize pollNext s rs = r
  rcases r with ⟨s', rs', o⟩
  cases o <;> simp <;> intros <;> assumption

theorem pollNext_measure' {s : Rx} {rs : List ReadEv} {s' : Rx} {rs' : List ReadEv} {o : Out}
    (h : pollNext s rs = (s', rs', o)) :
    nPending rs' ≤ nPending rs ∧ mu s' rs' + nPending rs + o.len ≤ mu s rs + nPending rs' := by
  have := pollNext_measure s rs; rw [h] at this; exact this

theorem pollNext_hasEnd' {s : Rx} {rs : List ReadEv} {s' : Rx} {rs' : List ReadEv} {o : Out}
    (h : pollNext s rs = (s', rs', o)) : hasEnd rs' = hasEnd rs := by
  have := pollNext_hasEnd s rs; rw [h] at this; exact this

theorem atEnd_hasEnd (rs : List ReadEv) (h : atEnd rs = true) : hasEnd rs = true := by
  cases rs with
  | nil => simp [atEnd] at h
  | cons e t => simp only [atEnd] at h; simp [hasEnd, h]

/-- a `Pending` that consumed no `pending` event left the script empty. -/
theorem pollNext_pending_asleep {s : Rx} {rs : List ReadEv} {s' : Rx} {rs' : List ReadEv}
    (h : pollNext s rs = (s', rs', .pending)) (hn : ¬ nPending rs' < nPending rs) : rs' = [] := by
  rcases pollNext_pending_shape s rs s' rs' h with ⟨h1, _, _⟩ | ⟨pre, h1, h2, _⟩
  · exact h1
  · exfalso; apply hn
    rw [h1, nPending_append]; simp [nPending]; omega

/-! ## the consumer loop -/

/-- why the consumer loop stopped -/
inductive Stop where
  | asleep   -- `Pending` with the reader holding the waker: the task sleeps until the transport has more
  | ended    -- `Ready(None)`: end of stream
  | fuel     -- out of fuel (never happens with enough fuel, see `collect_fuel`)
deriving Repr, DecidableEq

/-- The client's run loop over the packet stream, under a waker-strict executor, with all transport events
    already queued: poll; record an item and poll again; on `Pending` poll again only if the reader woke the
    task itself (a `ReadEv.pending` event was consumed), otherwise sleep; stop at `None`. -/
def collect : Nat → Rx → List ReadEv → List Bytes × Rx × List ReadEv × Stop
  | 0, s, rs => ([], s, rs, .fuel)
  | n+1, s, rs =>
    match pollNext s rs with
    | (s', rs', .item f) => let r := collect n s' rs'; (f :: r.1, r.2)
    | (s', rs', .pending) =>
      if nPending rs' < nPending rs then collect n s' rs' else ([], s', rs', .asleep)
    | (s', rs', .none) => ([], s', rs', .ended)

/-- Fuel is irrelevant above `mu s rs`. -/
theorem collect_fuel (n m : Nat) (s : Rx) (rs : List ReadEv) (hs : s.Ok)
    (hn : mu s rs < n) (hm : mu s rs < m) : collect n s rs = collect m s rs := by
  induction n generalizing m s rs with
  | zero => omega
  | succ n ih =>
    cases m with
    | zero => omega
    | succ m =>
      simp only [collect]
      cases hr : pollNext s rs with
      | mk s' r2 =>
      cases r2 with
      | mk rs' o =>
      have hmu := pollNext_measure' hr
      cases o with
      | item p =>
        obtain ⟨_, ⟨k, hk⟩, hok⟩ := pollNext_item hs hr
        have := (frameLen_ok_ge p _ _ hk).2
        simp only [Out.len] at hmu
        simp only
        rw [ih m s' rs' hok (by omega) (by omega)]
      | pending =>
        obtain ⟨_, hok, _⟩ := pollNext_pending hs hr
        simp only [Out.len] at hmu
        simp only
        split
        · exact ih m s' rs' hok (by omega) (by omega)
        · rfl
      | none => rfl

/-- Stream-level induction, transport still open: exactly the reference frames, then asleep. -/
theorem collect_clean (n : Nat) (s : Rx) (rs : List ReadEv) (ps : List Bytes) (tl : Bytes) (hs : s.Ok)
    (hn : mu s rs < n) (hc : Clean rs) (hf : frames (s.valid ++ dataOf rs) = some (ps, tl)) :
    ∃ s', collect n s rs = (ps, s', [], .asleep) ∧ s'.valid = tl ∧ s'.st = .idle ∧ s'.Ok := by
  induction n generalizing s rs ps with
  | zero => omega
  | succ n ih =>
    simp only [collect]
    cases hr : pollNext s rs with
    | mk s' r2 =>
    cases r2 with
    | mk rs' o =>
    have hmu := pollNext_measure' hr
    have hc' : Clean rs' := by unfold Clean; rw [pollNext_hasEnd' hr]; exact hc
    cases o with
    | item p =>
      obtain ⟨hcons, ⟨k, hk⟩, hok⟩ := pollNext_item hs hr
      have := (frameLen_ok_ge p _ _ hk).2
      simp only [Out.len] at hmu
      rw [hcons, frames_cons p _ k hk] at hf
      cases hfr : frames (s'.valid ++ dataOf rs') with
      | none => rw [hfr] at hf; simp at hf
      | some q =>
        obtain ⟨ps', tl'⟩ := q
        rw [hfr] at hf
        simp only [Option.map_some, Option.some.injEq, Prod.mk.injEq] at hf
        obtain ⟨rfl, rfl⟩ := hf
        obtain ⟨sf, h1, h2⟩ := ih s' rs' ps' hok (by omega) hc' hfr
        exact ⟨sf, by simp only [h1], h2⟩
    | pending =>
      obtain ⟨hcons, hok, hidle⟩ := pollNext_pending hs hr
      simp only [Out.len] at hmu
      simp only
      split
      · rw [hcons] at hf
        exact ih s' rs' ps hok (by omega) hc' hf
      · rename_i hnp
        have hnil := pollNext_pending_asleep hr hnp
        subst hnil
        rw [hcons] at hf
        simp only [dataOf, List.append_nil] at hf
        rw [frames_of_noFrame _ (hok.2.2.2 hidle)] at hf
        simp only [Option.some.injEq, Prod.mk.injEq] at hf
        obtain ⟨rfl, rfl⟩ := hf
        exact ⟨s', rfl, rfl, hidle, hok⟩
    | none =>
      obtain ⟨hcons, hok, hor⟩ := pollNext_none hs hr
      exfalso
      rcases hor with ⟨_, he⟩ | ⟨_, hb⟩
      · have := atEnd_hasEnd _ he
        rw [hc'] at this; simp at this
      · rw [hcons, frames_bad _ _ hb] at hf; simp at hf

/-- Stream-level induction, transport ends: exactly the reference frames, then end-of-stream, reported
    from `Idle` with no complete packet buffered and the end event at the head of the script. -/
theorem collect_end (n : Nat) (s : Rx) (rs : List ReadEv) (ps : List Bytes) (tl : Bytes) (hs : s.Ok)
    (hn : mu s rs < n) (hc : hasEnd rs = true) (hf : frames (s.valid ++ dataOf rs) = some (ps, tl)) :
    ∃ s' rs', collect n s rs = (ps, s', rs', .ended) ∧ s'.valid = tl ∧ s'.st = .idle ∧ atEnd rs' = true := by
  induction n generalizing s rs ps with
  | zero => omega
  | succ n ih =>
    simp only [collect]
    cases hr : pollNext s rs with
    | mk s' r2 =>
    cases r2 with
    | mk rs' o =>
    have hmu := pollNext_measure' hr
    have hc' : hasEnd rs' = true := by rw [pollNext_hasEnd' hr]; exact hc
    cases o with
    | item p =>
      obtain ⟨hcons, ⟨k, hk⟩, hok⟩ := pollNext_item hs hr
      have := (frameLen_ok_ge p _ _ hk).2
      simp only [Out.len] at hmu
      rw [hcons, frames_cons p _ k hk] at hf
      cases hfr : frames (s'.valid ++ dataOf rs') with
      | none => rw [hfr] at hf; simp at hf
      | some q =>
        obtain ⟨ps', tl'⟩ := q
        rw [hfr] at hf
        simp only [Option.map_some, Option.some.injEq, Prod.mk.injEq] at hf
        obtain ⟨rfl, rfl⟩ := hf
        obtain ⟨sf, rf, h1, h2⟩ := ih s' rs' ps' hok (by omega) hc' hfr
        exact ⟨sf, rf, by simp only [h1], h2⟩
    | pending =>
      obtain ⟨hcons, hok, hidle⟩ := pollNext_pending hs hr
      simp only [Out.len] at hmu
      simp only
      split
      · rw [hcons] at hf
        exact ih s' rs' ps hok (by omega) hc' hf
      · rename_i hnp
        have hnil := pollNext_pending_asleep hr hnp
        subst hnil
        simp [hasEnd] at hc'
    | none =>
      obtain ⟨hcons, hok, hor⟩ := pollNext_none hs hr
      rcases hor with ⟨hidle, he⟩ | ⟨_, hb⟩
      · rw [hcons, dataOf_atEnd _ he, List.append_nil, frames_of_noFrame _ (hok.2.2.2 hidle)] at hf
        simp only [Option.some.injEq, Prod.mk.injEq] at hf
        obtain ⟨rfl, rfl⟩ := hf
        exact ⟨s', rs', rfl, rfl, hidle, he⟩
      · rw [hcons, frames_bad _ _ hb] at hf; simp at hf

/-- Stream-level induction, malformed length field somewhere in the stream: the loop emits the complete
    frames in front of it and then reports end-of-stream from `ReadPacketLen`, with the malformed length
    field at the front of the buffer. -/
theorem collect_malformed (n : Nat) (s : Rx) (rs : List ReadEv) (hs : s.Ok)
    (hn : mu s rs < n) (hf : frames (s.valid ++ dataOf rs) = none) :
    ∃ ps s' rs', collect n s rs = (ps, s', rs', .ended) ∧ s'.st = .len ∧ frameLen s'.valid = .bad ∧
      s.valid ++ dataOf rs = ps.flatten ++ (s'.valid ++ dataOf rs') ∧
      ∀ p ∈ ps, ∃ k, frameLen p = .ok p.length k := by
  induction n generalizing s rs with
  | zero => omega
  | succ n ih =>
    simp only [collect]
    cases hr : pollNext s rs with
    | mk s' r2 =>
    cases r2 with
    | mk rs' o =>
    have hmu := pollNext_measure' hr
    cases o with
    | item p =>
      obtain ⟨hcons, ⟨k, hk⟩, hok⟩ := pollNext_item hs hr
      have := (frameLen_ok_ge p _ _ hk).2
      simp only [Out.len] at hmu
      rw [hcons, frames_cons p _ k hk] at hf
      have hfr : frames (s'.valid ++ dataOf rs') = none := by
        cases hfr : frames (s'.valid ++ dataOf rs') with
        | none => rfl
        | some q => rw [hfr] at hf; simp at hf
      obtain ⟨ps', sf, rf, h1, h2, h3, h4, h5⟩ := ih s' rs' hok (by omega) hfr
      refine ⟨p :: ps', sf, rf, by simp only [h1], h2, h3, ?_, ?_⟩
      · rw [hcons, h4]; simp
      · intro q hq
        rcases List.mem_cons.mp hq with rfl | hq
        · exact ⟨k, hk⟩
        · exact h5 q hq
    | pending =>
      obtain ⟨hcons, hok, hidle⟩ := pollNext_pending hs hr
      simp only [Out.len] at hmu
      simp only
      split
      · rw [hcons] at hf ⊢
        exact ih s' rs' hok (by omega) hf
      · rename_i hnp
        have hnil := pollNext_pending_asleep hr hnp
        subst hnil
        rw [hcons] at hf
        simp only [dataOf, List.append_nil] at hf
        rw [frames_of_noFrame _ (hok.2.2.2 hidle)] at hf
        simp at hf
    | none =>
      obtain ⟨hcons, hok, hor⟩ := pollNext_none hs hr
      rcases hor with ⟨hidle, he⟩ | ⟨hl, hb⟩
      · rw [hcons, dataOf_atEnd _ he, List.append_nil, frames_of_noFrame _ (hok.2.2.2 hidle)] at hf
        simp at hf
      · exact ⟨[], s', rs', rfl, hl, hb, by simpa using hcons, by simp⟩

/-! ## the loop body, iteration by iteration (for the index-safety obligations) -/

/-- One iteration of the `loop` in `poll_next`: `inl` = the call returns, `inr` = next iteration. -/
def loopStep (s : Rx) (rs : List ReadEv) : (Rx × List ReadEv × Out) ⊕ (Rx × List ReadEv) :=
  match s.st with
  | .idle =>
    match rs with
    | [] => .inl (s, [], .pending)
    | .pending :: rs' => .inl (s, rs', .pending)
    | .eof :: _ => .inl (s, rs, .none)
    | .err :: _ => .inl (s, rs, .none)
    | .data bs :: rs' =>
      if bs.length = 0 then .inl (s, rs, .none)
      else
      let c := cap s.pend s.valid.length
      if bs.length ≤ c then
        let v := s.valid ++ bs
        if v.length ≥ 2 then .inr ({ s with valid := v, st := .len }, rs')
        else .inr ({ s with valid := v }, rs')
      else
        let v := s.valid ++ bs.take c
        if v.length ≥ 2 then .inr ({ s with valid := v, st := .len }, .data (bs.drop c) :: rs')
        else .inr ({ s with valid := v }, .data (bs.drop c) :: rs')
  | .len =>
    match frameLen s.valid with
    | .ok e _ => .inr ({ s with pend := e, st := .data }, rs)
    | .need => .inr ({ s with st := .idle }, rs)
    | .bad => .inl (s, rs, .none)
  | .data =>
    if s.valid.length < s.pend then .inr ({ s with st := .idle }, rs)
    else
      let pkt := s.valid.take s.pend
      let rest := s.valid.drop s.pend
      .inl ({ valid := rest, pend := 0, st := if rest.length ≠ 0 then .len else .idle }, rs, .item pkt)

/-- `pollNext` is the iteration of `loopStep`. -/
theorem pollNext_loopStep (s : Rx) (rs : List ReadEv) :
    pollNext s rs = match loopStep s rs with
      | .inl r => r
      | .inr (t, rs2) => pollNext t rs2 := by
  fun_induction pollNext s rs with
  | case1 s h => simp only [loopStep, h]
  | case2 s h rs' => simp only [loopStep, h]
  | case3 s h rs' => simp only [loopStep, h]
  | case4 s h rs' => simp only [loopStep, h]
  | case5 s h bs rs' hb0 => simp only [loopStep, h, hb0, ↓reduceIte]
  | case6 s h bs rs' hb0 c hb v hv ih =>
    simp only [c] at hb; simp only [v] at hv
    simp only [loopStep, h, hb0, hb, hv, ↓reduceIte, v]
  | case7 s h bs rs' hb0 c hb v hv ih =>
    simp only [c] at hb; simp only [v] at hv
    simp only [loopStep, h, hb0, hb, hv, ↓reduceIte, v]
  | case8 s h bs rs' hb0 c hb v hv ih =>
    simp only [c] at hb; simp only [v, c] at hv
    simp only [loopStep, h, hb0, hb, hv, ↓reduceIte, v, c]
  | case9 s h bs rs' hb0 c hb v hv ih =>
    simp only [c] at hb; simp only [v, c] at hv
    simp only [loopStep, h, hb0, hb, hv, ↓reduceIte, v, c]
  | case10 s rs h e k hf ih => simp only [loopStep, h, hf]
  | case11 s rs h hf ih => simp only [loopStep, h, hf]
  | case12 s rs h hf => simp only [loopStep, h, hf]
  | case13 s rs h hlt ih => simp only [loopStep, h, hlt, ↓reduceIte]
  | case14 s rs h hge pkt rest => simp only [loopStep, h, hge, ↓reduceIte, pkt, rest]

/-- the invariant holds at the head of every loop iteration. -/
theorem loopStep_ok (s : Rx) (rs : List ReadEv) (t : Rx) (rs2 : List ReadEv) (hs : s.Ok)
    (h : loopStep s rs = .inr (t, rs2)) : t.Ok := by
  unfold loopStep at h
  split at h
  · rename_i hst
    split at h
    · simp at h
    · simp at h
    · simp at h
    · simp at h
    · rename_i bs rs'
      split at h
      · simp at h
      · simp only at h
        split at h
        · split at h
          · simp only [Sum.inr.injEq, Prod.mk.injEq] at h
            obtain ⟨rfl, _⟩ := h
            exact ⟨ok_pend_append s bs hs, by simp, by simp; omega, by simp⟩
          · simp only [Sum.inr.injEq, Prod.mk.injEq] at h
            obtain ⟨rfl, _⟩ := h
            exact ⟨ok_pend_append s bs hs, by simp [hst], by simp [hst],
              fun _ => noFrame_short (s.valid ++ bs) (by omega)⟩
        · split at h
          · simp only [Sum.inr.injEq, Prod.mk.injEq] at h
            obtain ⟨rfl, _⟩ := h
            exact ⟨ok_pend_append s _ hs, by simp,
              fun _ => by show 1 ≤ (s.valid ++ bs.take _).length; omega, by simp⟩
          · simp only [Sum.inr.injEq, Prod.mk.injEq] at h
            obtain ⟨rfl, _⟩ := h
            exact ⟨ok_pend_append s _ hs, by simp [hst], by simp [hst],
              fun _ => noFrame_short (s.valid ++ bs.take _) (by omega)⟩
  · rename_i hst
    split at h
    · rename_i e k hf
      simp only [Sum.inr.injEq, Prod.mk.injEq] at h
      obtain ⟨rfl, _⟩ := h
      exact ⟨Or.inr ⟨k, hf⟩, fun _ => ⟨k, hf⟩, by simp, by simp⟩
    · rename_i hf
      simp only [Sum.inr.injEq, Prod.mk.injEq] at h
      obtain ⟨rfl, _⟩ := h
      exact ⟨hs.1, by simp, by simp, fun _ => Or.inl hf⟩
    · simp at h
  · rename_i hst
    split at h
    · rename_i hlt
      simp only [Sum.inr.injEq, Prod.mk.injEq] at h
      obtain ⟨rfl, _⟩ := h
      obtain ⟨k, hk⟩ := hs.2.1 hst
      exact ⟨hs.1, by simp, by simp, fun _ => Or.inr ⟨_, k, hk, hlt⟩⟩
    · simp at h

/-- at emission the announced length is in range and is the length of the emitted frame. -/
theorem loopStep_item (s : Rx) (rs : List ReadEv) (s' : Rx) (rs' : List ReadEv) (p : Bytes) (hs : s.Ok)
    (h : loopStep s rs = .inl (s', rs', .item p)) :
    s.st = .data ∧ s.pend ≤ s.valid.length ∧ p = s.valid.take s.pend ∧ p.length = s.pend ∧ 2 ≤ s.pend := by
  unfold loopStep at h
  split at h
  · split at h
    · simp at h
    · simp at h
    · simp at h
    · simp at h
    · split at h
      · simp at h
      · simp only at h
        split at h <;> split at h <;> simp at h
  · split at h <;> simp at h
  · rename_i hst
    split at h
    · simp at h
    · rename_i hge
      simp only [Sum.inl.injEq, Prod.mk.injEq, Out.item.injEq] at h
      obtain ⟨k, hk⟩ := hs.2.1 hst
      have := frameLen_ok_ge _ _ _ hk
      refine ⟨hst, by omega, h.2.2.symm, ?_, this.1⟩
      rw [← h.2.2]; simp; omega

/-- States at the head of any loop iteration of any `poll_next` call of any run from the initial state. -/
inductive Reach : Rx → Prop
  | init : Reach {}
  | poll {s : Rx} (rs : List ReadEv) : Reach s → Reach (pollNext s rs).1
  | iter {s t : Rx} (rs rs2 : List ReadEv) : Reach s → loopStep s rs = .inr (t, rs2) → Reach t

theorem reach_ok {s : Rx} (h : Reach s) : s.Ok := by
  induction h with
  | init => exact ok_init
  | poll rs _ ih => exact pollNext_ok _ rs ih
  | iter rs rs2 _ hstep ih => exact loopStep_ok _ rs _ rs2 ih hstep

/-! ## readable forms of `Clean` and `dataOf` -/

theorem clean_iff (rs : List ReadEv) :
    Clean rs ↔ ∀ e ∈ rs, e = .pending ∨ ∃ c, c ≠ [] ∧ e = .data c := by
  induction rs with
  | nil => simp [Clean, hasEnd]
  | cons x t ih =>
    unfold Clean at ih ⊢
    cases x with
    | data bs =>
      by_cases hb : bs = []
      · simp [hasEnd, ReadEv.isEnd, hb]
      · simp [hasEnd, ReadEv.isEnd, hb, ih]
    | pending => simp [hasEnd, ReadEv.isEnd, ih]
    | eof => simp [hasEnd, ReadEv.isEnd]
    | err => simp [hasEnd, ReadEv.isEnd]

/-- the payload of one event -/
def ReadEv.bytes : ReadEv → Bytes
  | .data c => c
  | _ => []

/-- on a script without end-of-stream events `dataOf` is the plain concatenation of all data. -/
theorem dataOf_eq_flatten (rs : List ReadEv) (h : Clean rs) : dataOf rs = (rs.map ReadEv.bytes).flatten := by
  induction rs with
  | nil => simp [dataOf]
  | cons x t ih =>
    unfold Clean at ih h
    cases x with
    | data bs =>
      simp only [hasEnd, ReadEv.isEnd, Bool.or_eq_false_iff, decide_eq_false_iff_not] at h
      simp [dataOf, h.1, ih h.2, ReadEv.bytes]
    | pending =>
      simp only [hasEnd, ReadEv.isEnd, Bool.false_or] at h
      simp [dataOf, ih h, ReadEv.bytes]
    | eof => simp [hasEnd, ReadEv.isEnd] at h
    | err => simp [hasEnd, ReadEv.isEnd] at h

/-- the reference framing loses no byte. -/
theorem framesAux_flatten (f : Nat) (bs : Bytes) (ps : List Bytes) (tl : Bytes)
    (h : framesAux f bs = some (ps, tl)) : ps.flatten ++ tl = bs := by
  induction f generalizing bs ps with
  | zero => simp [framesAux] at h; obtain ⟨rfl, rfl⟩ := h; simp
  | succ f ih =>
    cases bs with
    | nil => simp [framesAux] at h; obtain ⟨rfl, rfl⟩ := h; simp
    | cons x t =>
      simp only [framesAux] at h
      split at h
      · simp at h
      · simp at h; obtain ⟨rfl, rfl⟩ := h; simp
      · rename_i n k hd
        split at h
        · simp at h; obtain ⟨rfl, rfl⟩ := h; simp
        · cases hr : framesAux f ((x :: t).drop (1 + k + n)) with
          | none => rw [hr] at h; simp at h
          | some q =>
            obtain ⟨ps', tl'⟩ := q
            rw [hr] at h
            simp only [Option.map_some, Option.some.injEq, Prod.mk.injEq] at h
            obtain ⟨rfl, rfl⟩ := h
            have := ih _ _ hr
            rw [List.flatten_cons, List.append_assoc, this, List.take_append_drop]

theorem frames_flatten_eq (bs : Bytes) (ps : List Bytes) (tl : Bytes) (h : frames bs = some (ps, tl)) :
    ps.flatten ++ tl = bs := framesAux_flatten _ _ _ _ h

/-! ## the end event stays where it is -/

theorem pollNext_suffix (s : Rx) (rs : List ReadEv) (e : ReadEv) (more : List ReadEv) (he : e.isEnd = true) :
    ∀ a, rs = a ++ e :: more → Clean a → ∃ a', (pollNext s rs).2.1 = a' ++ e :: more ∧ Clean a' := by
  fun_induction pollNext s rs with
  | case1 => intro a h; simp at h
  | case2 s h rs' =>
    intro a h hc
    cases a with
    | nil => simp at h; obtain ⟨rfl, _⟩ := h; simp [ReadEv.isEnd] at he
    | cons x a' =>
      simp at h; obtain ⟨rfl, rfl⟩ := h
      exact ⟨a', rfl, by simpa [Clean, hasEnd, ReadEv.isEnd] using hc⟩
  | case3 => intro a h hc; exact ⟨a, h, hc⟩
  | case4 => intro a h hc; exact ⟨a, h, hc⟩
  | case5 => intro a h hc; exact ⟨a, h, hc⟩
  | case6 s h bs rs' hb0 c hb v hv ih =>
    intro a h hc
    cases a with
    | nil => simp at h; obtain ⟨rfl, _⟩ := h; simp [ReadEv.isEnd, hb0] at he
    | cons x a' =>
      simp at h; obtain ⟨rfl, rfl⟩ := h
      exact ih a' rfl (by simpa [Clean, hasEnd, ReadEv.isEnd, hb0] using hc)
  | case7 s h bs rs' hb0 c hb v hv ih =>
    intro a h hc
    cases a with
    | nil => simp at h; obtain ⟨rfl, _⟩ := h; simp [ReadEv.isEnd, hb0] at he
    | cons x a' =>
      simp at h; obtain ⟨rfl, rfl⟩ := h
      exact ih a' rfl (by simpa [Clean, hasEnd, ReadEv.isEnd, hb0] using hc)
  | case8 s h bs rs' hb0 c hb v hv ih =>
    intro a h hc
    cases a with
    | nil => simp at h; obtain ⟨rfl, _⟩ := h; simp [ReadEv.isEnd, hb0] at he
    | cons x a' =>
      simp at h; obtain ⟨rfl, rfl⟩ := h
      have : ¬ bs.length - c = 0 := by omega
      exact ih (.data (bs.drop c) :: a') rfl
        (by simpa [Clean, hasEnd, ReadEv.isEnd, hb0, this] using hc)
  | case9 s h bs rs' hb0 c hb v hv ih =>
    intro a h hc
    cases a with
    | nil => simp at h; obtain ⟨rfl, _⟩ := h; simp [ReadEv.isEnd, hb0] at he
    | cons x a' =>
      simp at h; obtain ⟨rfl, rfl⟩ := h
      have : ¬ bs.length - c = 0 := by omega
      exact ih (.data (bs.drop c) :: a') rfl
        (by simpa [Clean, hasEnd, ReadEv.isEnd, hb0, this] using hc)
  | case10 s rs h e' k hf ih => exact ih
  | case11 s rs h hf ih => exact ih
  | case12 => intro a h hc; exact ⟨a, h, hc⟩
  | case13 s rs h hlt ih => exact ih
  | case14 => intro a h hc; exact ⟨a, h, hc⟩

theorem collect_suffix (n : Nat) (s : Rx) (a : List ReadEv) (e : ReadEv) (more : List ReadEv)
    (he : e.isEnd = true) (hc : Clean a) :
    ∃ a', (collect n s (a ++ e :: more)).2.2.1 = a' ++ e :: more ∧ Clean a' := by
  induction n generalizing s a with
  | zero => exact ⟨a, rfl, hc⟩
  | succ n ih =>
    simp only [collect]
    have hsuf := pollNext_suffix s _ e more he a rfl hc
    revert hsuf
    cases hr : pollNext s (a ++ e :: more) with
    | mk s' r2 =>
    cases r2 with
    | mk rs' o =>
    intro hsuf
    obtain ⟨a', h1, h2⟩ := hsuf
    simp only at h1
    subst h1
    cases o with
    | item p => exact ih s' a' h2
    | pending =>
      simp only
      split
      · exact ih s' a' h2
      · exact ⟨a', rfl, h2⟩
    | none => exact ⟨a', rfl, h2⟩

theorem atEnd_clean_append (a : List ReadEv) (t : List ReadEv) (hc : Clean a) (h : atEnd (a ++ t) = true) :
    a = [] := by
  cases a with
  | nil => rfl
  | cons x a' =>
    simp only [List.cons_append, atEnd] at h
    simp [Clean, hasEnd, h] at hc

/-! ## the emitted packets are a function of the delivered bytes alone -/

theorem collect_items_some (n : Nat) (s : Rx) (rs : List ReadEv) (ps : List Bytes) (tl : Bytes) (hs : s.Ok)
    (hn : mu s rs < n) (hf : frames (s.valid ++ dataOf rs) = some (ps, tl)) : (collect n s rs).1 = ps := by
  cases he : hasEnd rs with
  | false => obtain ⟨s', h, _⟩ := collect_clean n s rs ps tl hs hn he hf; rw [h]
  | true => obtain ⟨s', rs', h, _⟩ := collect_end n s rs ps tl hs hn he hf; rw [h]

/-- uniqueness of "complete frames followed by a malformed length field". -/
theorem malformed_unique (ps qs : List Bytes) (v w x y : Bytes)
    (hp : ∀ p ∈ ps, ∃ k, frameLen p = .ok p.length k) (hq : ∀ q ∈ qs, ∃ k, frameLen q = .ok q.length k)
    (hv : frameLen v = .bad) (hw : frameLen w = .bad)
    (h : ps.flatten ++ (v ++ x) = qs.flatten ++ (w ++ y)) : ps = qs := by
  induction ps generalizing qs with
  | nil =>
    cases qs with
    | nil => rfl
    | cons q qs' =>
      exfalso
      obtain ⟨k, hk⟩ := hq q (by simp)
      have h1 := frameLen_bad_append v x hv
      simp only [List.flatten_nil, List.nil_append, List.flatten_cons, List.append_assoc] at h
      rw [h, frameLen_ok_append q _ _ _ hk] at h1
      simp at h1
  | cons p ps' ih =>
    cases qs with
    | nil =>
      exfalso
      obtain ⟨k, hk⟩ := hp p (by simp)
      have h1 := frameLen_bad_append w y hw
      simp only [List.flatten_nil, List.nil_append, List.flatten_cons, List.append_assoc] at h
      rw [← h, frameLen_ok_append p _ _ _ hk] at h1
      simp at h1
    | cons q qs' =>
      obtain ⟨k, hk⟩ := hp p (by simp)
      obtain ⟨k', hk'⟩ := hq q (by simp)
      simp only [List.flatten_cons, List.append_assoc] at h
      have h1 := frameLen_ok_append p (ps'.flatten ++ (v ++ x)) _ _ hk
      rw [h, frameLen_ok_append q _ _ _ hk'] at h1
      simp only [VarRes.ok.injEq] at h1
      have hpq := List.append_inj h h1.1.symm
      rw [hpq.1, ih qs' (fun r hr => hp r (by simp [hr])) (fun r hr => hq r (by simp [hr])) hpq.2]

theorem collect_items_eq (n m : Nat) (rs1 rs2 : List ReadEv) (hd : dataOf rs1 = dataOf rs2)
    (hn : mu {} rs1 < n) (hm : mu {} rs2 < m) : (collect n {} rs1).1 = (collect m {} rs2).1 := by
  have e1 : ({} : Rx).valid ++ dataOf rs1 = dataOf rs1 := rfl
  have e2 : ({} : Rx).valid ++ dataOf rs2 = dataOf rs1 := by rw [hd]; rfl
  cases hf : frames (dataOf rs1) with
  | some q =>
    obtain ⟨ps, tl⟩ := q
    rw [collect_items_some n {} rs1 ps tl ok_init hn (by rw [e1]; exact hf),
      collect_items_some m {} rs2 ps tl ok_init hm (by rw [e2]; exact hf)]
  | none =>
    obtain ⟨ps, s1, r1, h1, _, hb1, hc1, hp1⟩ := collect_malformed n {} rs1 ok_init hn (by rw [e1]; exact hf)
    obtain ⟨qs, s2, r2, h2, _, hb2, hc2, hp2⟩ := collect_malformed m {} rs2 ok_init hm (by rw [e2]; exact hf)
    rw [h1, h2]
    rw [e1] at hc1; rw [e2] at hc2
    exact malformed_unique ps qs _ _ _ _ hp1 hp2 hb1 hb2 (hc1.symm.trans hc2)

end Poster.Framing
