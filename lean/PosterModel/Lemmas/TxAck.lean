/-
  Lemmas/TxAck.lean — PUBACK / PUBREC / PUBREL / PUBCOMP, DISCONNECT, AUTH: lengths, layout (with the shortened
  forms), and the body parses to the caller's values.
-/
import PosterModel.Lemmas.CodecTx

namespace Poster
open Spec

theorem encVar_ne_nil (n : Nat) : encVar n ≠ [] := by
  intro h; have := varLen_eq n; rw [h] at this; unfold varLen at this; revert this; repeat' split
  all_goals simp

@[simp] theorem encVar_eq_nil (n : Nat) : (encVar n = []) = False := by
  simp [encVar_ne_nil]

theorem varLen_pos (n : Nat) : 0 < varLen n := by unfold varLen; repeat' split
                                                  all_goals omega

/-! ## reason code + properties (DISCONNECT, AUTH) -/

theorem parseReasonProps_enc (reasons allowed : List Nat) (rc : Nat) (ps : List Property) (hr : rc ∈ reasons)
    (hrc : rc < 256) (hwf : ∀ p ∈ ps, PropWF p) (hlegal : propsLegal allowed ps = true)
    (hl : (encProps ps).length < 268435456) :
    parseReasonProps reasons allowed (encU8 rc ++ (encVar (encProps ps).length ++ encProps ps)) = some (rc, ps) := by
  have hb := pPropBlock_enc ps hwf hl []
  simp only [List.append_nil] at hb
  have h1 : (encU8 rc ++ (encVar (encProps ps).length ++ encProps ps) = []) = False := by simp [encU8]
  simp [parseReasonProps, h1, pU8_enc _ hrc, hr, hb, hlegal]

/-! ## the acknowledgements -/

theorem ackProps_typeOk (t : AckTx) : ∀ p ∈ ackProps t, TypeOk p := by
  unfold ackProps; props_fields; simp [TypeOk]

theorem ack_propertyLen_eq (t : AckTx) : t.propertyLen = (encProps (ackProps t)).length := by
  rw [← propsLen_eq_length _ (ackProps_typeOk t)]
  simp only [AckTx.propertyLen, ackProps, propsLen_append, oLen_pStr, userLen_eq]

/-- no property bytes means no properties -/
theorem ackProps_eq_nil (t : AckTx) (h : t.propertyLen = 0) : ackProps t = [] := by
  unfold AckTx.propertyLen at h
  unfold ackProps
  cases hs : t.reasonString with
  | some s => simp [hs, propLen, Poster.pStr, valLen, strLen] at h <;> omega
  | none =>
    cases hu : t.userProps with
    | nil => simp [optP, userPs]
    | cons kv u => simp [hs, hu, userLen, propLen, pUser, valLen, pairLen] at h <;> omega

/-- the shortened form is chosen by `remaining_len() == 2`, which happens exactly for "success, no properties" -/
theorem ack_short (t : AckTx) : (t.remainingLen == 2) = (t.reason == 0 && t.propertyLen == 0) := by
  unfold AckTx.remainingLen
  have := varLen_pos t.propertyLen
  cases h : (t.reason == 0 && t.propertyLen == 0) <;> simp <;> omega

/-- everything after the remaining-length field -/
def ackBody (t : AckTx) : Bytes :=
  encU16 t.packetId ++
    (if t.remainingLen == 2 then []
     else encU8 t.reason ++ (encVar (encProps (ackProps t)).length ++ encProps (ackProps t)))

theorem ack_encode_eq (t : AckTx) : t.encode = UInt8.ofNat t.hdr :: (encVar t.remainingLen ++ ackBody t) := by
  simp only [AckTx.encode, ackBody, ack_propertyLen_eq, ackProps, encProps_append, oEnc_pStr, userEnc_eq, encU8,
    List.append_assoc, List.cons_append, List.nil_append]

theorem ack_remainingLen_eq (t : AckTx) : t.remainingLen = (ackBody t).length := by
  unfold ackBody
  rw [ack_short]
  unfold AckTx.remainingLen
  cases h : (t.reason == 0 && t.propertyLen == 0) <;>
    simp [encU16, encU8, ← ack_propertyLen_eq, varLen_eq] <;> omega

theorem ackProps_wf (t : AckTx) (hd : AckInDomain t) : ∀ p ∈ ackProps t, PropWF p := by
  unfold ackProps; props_fields
  refine ⟨?_, ?_⟩
  · intro a ha; have := hd.reasonString a ha; simp [PropWF, StrOk] at *; omega
  · intro kv hkv; have := hd.userProps kv hkv; simp [PropWF]; omega

theorem ackProps_legal (t : AckTx) : propsLegal ackPropIds (ackProps t) = true := by
  apply propsLegal_of
  · unfold ackProps; props_fields; simp [ackPropIds]
  · simp [ackPropIds, ackProps, countId_append, countId_optP_ne, countId_userPs, countId_optP_le]

theorem parseAckBody_enc (t : AckTx) (hd : AckInDomain t) :
    parseAckBody (ackReasons t.hdr) (ackBody t) = some (t.packetId, t.reason, ackProps t) := by
  obtain ⟨hp1, hp2⟩ := hd.packetId
  have hp0 : ¬ t.packetId = 0 := by omega
  have hr := hd.reason
  have hrc : t.reason < 256 := by
    have := hr; unfold ackReasons at this; split at this <;> simp [pubackReasons, pubrelReasons] at this <;> omega
  have hl : (encProps (ackProps t)).length < 268435456 := by
    have := hd.size; unfold AckTx.remainingLen at this; rw [← ack_propertyLen_eq]
    split at this
    · rename_i h; simp at h; omega
    · omega
  have hb := pPropBlock_enc _ (ackProps_wf t hd) hl []
  simp only [List.append_nil] at hb
  unfold ackBody
  rw [ack_short]
  cases h : (t.reason == 0 && t.propertyLen == 0) with
  | true =>
    simp only [Bool.and_eq_true, beq_iff_eq] at h
    have hpid := pU16_enc _ (show t.packetId < 65536 by omega) []
    simp only [List.append_nil] at hpid
    simp [parseAckBody, pPacketId, hpid, hp0, h.1, ackProps_eq_nil t h.2]
  | false =>
    have h1 : (encU8 t.reason ++ (encVar (encProps (ackProps t)).length ++ encProps (ackProps t)) = []) = False := by
      simp [encU8]
    simp [parseAckBody, pPacketId, pU16_enc _ (show t.packetId < 65536 by omega), hp0, h1, pU8_enc _ hrc, hr, hb,
      ackProps_legal]

theorem ack_body_parses (t : AckTx) (hd : AckInDomain t) :
    parseBody (t.hdr / 16) (t.hdr % 16) (ackBody t) = some (ofAck t) := by
  have hb := parseAckBody_enc t hd
  rcases hd.hdr with h | h | h | h <;> simp [h, ackReasons] at hb <;> simp [h, parseBody, hb, ofAck]

/-! ## DISCONNECT -/

theorem disconnectProps_typeOk (t : DisconnectTx) : ∀ p ∈ disconnectProps t, TypeOk p := by
  unfold disconnectProps; props_fields; simp [TypeOk]

theorem disconnect_propertyLen_eq (t : DisconnectTx) : t.propertyLen = (encProps (disconnectProps t)).length := by
  rw [← propsLen_eq_length _ (disconnectProps_typeOk t)]
  simp only [DisconnectTx.propertyLen, disconnectProps, propsLen_append, oLen_pNum, oLen_pStr, userLen_eq]

def disconnectBody (t : DisconnectTx) : Bytes :=
  encU8 t.reason ++ (encVar (encProps (disconnectProps t)).length ++ encProps (disconnectProps t))

theorem disconnect_encode_eq (t : DisconnectTx) :
    t.encode = UInt8.ofNat 224 :: (encVar t.remainingLen ++ disconnectBody t) := by
  simp only [DisconnectTx.encode, disconnectBody, disconnect_propertyLen_eq, disconnectProps, encProps_append,
    oEnc_pNum, oEnc_pStr, userEnc_eq, encU8, List.append_assoc, List.cons_append, List.nil_append]

theorem disconnect_remainingLen_eq (t : DisconnectTx) : t.remainingLen = (disconnectBody t).length := by
  simp [DisconnectTx.remainingLen, disconnectBody, encU8, ← disconnect_propertyLen_eq, varLen_eq]; omega

theorem disconnectProps_wf (t : DisconnectTx) (hd : DisconnectInDomain t) : ∀ p ∈ disconnectProps t, PropWF p := by
  unfold disconnectProps; props_fields
  refine ⟨?_, ?_, ?_⟩
  · intro a ha; have := hd.sessionExpiry a ha; simp [PropWF, nonZeroProp]; omega
  · intro a ha; have := hd.reasonString a ha; simp [PropWF, StrOk] at *; omega
  · intro kv hkv; have := hd.userProps kv hkv; simp [PropWF]; omega

theorem disconnectProps_legal (t : DisconnectTx) : propsLegal disconnectPropIds (disconnectProps t) = true := by
  apply propsLegal_of
  · unfold disconnectProps; props_fields; simp [disconnectPropIds]
  · simp [disconnectPropIds, disconnectProps, countId_append, countId_optP_ne, countId_userPs, countId_optP_le]

theorem disconnect_body_parses (t : DisconnectTx) (hd : DisconnectInDomain t) :
    parseBody 14 0 (disconnectBody t) = some (ofDisconnect t) := by
  have hr := hd.reason
  have hrc : t.reason < 256 := by have := hr; simp [disconnectReasons] at this; omega
  have hl : (encProps (disconnectProps t)).length < 268435456 := by
    have := hd.size; rw [disconnect_remainingLen_eq] at this
    simp only [disconnectBody, List.length_append] at this; omega
  simp [parseBody, parseDisconnect, disconnectBody, ofDisconnect,
    parseReasonProps_enc _ _ _ _ hr hrc (disconnectProps_wf t hd) (disconnectProps_legal t) hl]

/-! ## AUTH -/

theorem authProps_typeOk (t : AuthTx) : ∀ p ∈ authProps t, TypeOk p := by
  unfold authProps; props_fields; simp [TypeOk]

theorem auth_propertyLen_eq (t : AuthTx) : t.propertyLen = (encProps (authProps t)).length := by
  rw [← propsLen_eq_length _ (authProps_typeOk t)]
  simp only [AuthTx.propertyLen, authProps, propsLen_append, oLen_pStr, userLen_eq]

/-- everything after the remaining-length field: nothing in the shortened form -/
def authBody (t : AuthTx) : Bytes :=
  if t.shortened then []
  else encU8 t.reasonVal ++ (encVar (encProps (authProps t)).length ++ encProps (authProps t))

theorem auth_encode_eq (t : AuthTx) : t.encode = UInt8.ofNat 240 :: (encVar t.remainingLen ++ authBody t) := by
  unfold AuthTx.encode authBody AuthTx.remainingLen
  cases t.shortened
  · simp only [Bool.false_eq_true, ↓reduceIte, auth_propertyLen_eq, authProps, encProps_append, oEnc_pStr, userEnc_eq,
      encU8, List.append_assoc, List.cons_append, List.nil_append]
  · rfl

theorem auth_remainingLen_eq (t : AuthTx) : t.remainingLen = (authBody t).length := by
  unfold authBody AuthTx.remainingLen
  cases t.shortened <;> simp [encU8, ← auth_propertyLen_eq, varLen_eq]; omega

theorem authProps_wf (t : AuthTx) (hd : AuthInDomain t) : ∀ p ∈ authProps t, PropWF p := by
  unfold authProps; props_fields
  refine ⟨?_, ?_, ?_, ?_⟩
  · intro a ha; have := hd.authMethod a ha; simp [PropWF, StrOk] at *; omega
  · intro a ha; have := hd.authData a ha; simp [PropWF, StrOk] at *; omega
  · intro a ha; have := hd.reasonString a ha; simp [PropWF, StrOk] at *; omega
  · intro kv hkv; have := hd.userProps kv hkv; simp [PropWF]; omega

theorem authProps_legal (t : AuthTx) : propsLegal authPropIds (authProps t) = true := by
  apply propsLegal_of
  · unfold authProps; props_fields; simp [authPropIds]
  · simp [authPropIds, authProps, countId_append, countId_optP_ne, countId_userPs, countId_optP_le]

theorem auth_body_parses (t : AuthTx) (hv : t.valid = true) (hd : AuthInDomain t) :
    parseBody 15 0 (authBody t) = some (ofAuth t) := by
  unfold authBody
  cases hs : t.shortened with
  | true =>
    simp only [AuthTx.shortened, AuthTx.reasonVal, Bool.and_eq_true, beq_iff_eq, Option.isNone_iff_eq_none,
      List.isEmpty_iff] at hs
    obtain ⟨⟨⟨⟨h0, hm⟩, hdt⟩, hrs⟩, hu⟩ := hs
    simp [parseBody, parseAuth, parseReasonProps, ofAuth, authProps, h0, hm, hdt, hrs, hu, optP, userPs]
  | false =>
    simp only [AuthTx.valid, hs, Bool.false_or, Bool.and_eq_true] at hv
    have hr : t.reasonVal ∈ authReasons := by
      unfold AuthTx.reasonVal
      cases hrr : t.reason with
      | none => simp [authReasons]
      | some r => exact hd.reason r hrr
    have hrc : t.reasonVal < 256 := by have := hr; simp [authReasons] at this; omega
    have hl : (encProps (authProps t)).length < 268435456 := by
      have := hd.size; rw [auth_remainingLen_eq] at this
      simp only [authBody, hs, Bool.false_eq_true, ↓reduceIte, List.length_append] at this; omega
    have hm : hasId 21 (authProps t) = true := by
      simp [authProps, hasId_append, hasId_optP, hv.1]
    have h1 : (encU8 t.reasonVal ++ (encVar (encProps (authProps t)).length ++ encProps (authProps t)) = [])
        = False := by simp [encU8]
    simp [parseBody, parseAuth, ofAuth, hm, h1,
      parseReasonProps_enc _ _ _ _ hr hrc (authProps_wf t hd) (authProps_legal t) hl]
    rfl

end Poster
