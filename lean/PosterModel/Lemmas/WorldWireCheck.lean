/-
  Lemmas/WorldWireCheck.lean — an executable check of the hypothesis `ScriptInDomain` of Properties/C01World.lean:
  `scriptInDomainB evs = true → ScriptInDomain evs`. The `XInDomain` predicates are made decidable; the quantification
  over the identifiers the library may assign is discharged once and for all (the domain conditions do not depend on the
  value of the packet identifier; a subscription identifier changes the size of a SUBSCRIBE by at most 6 bytes).
-/
import PosterModel.Lemmas.WorldWire

set_option linter.unusedVariables false
set_option linter.unusedSimpArgs false

namespace Poster
open Spec

instance (s : Bytes) : Decidable (StrOk s) := by unfold StrOk; infer_instance
instance (u : List (Bytes × Bytes)) : Decidable (UserOk u) := by unfold UserOk; infer_instance

instance (t : PublishTx) : Decidable (PublishInDomain t) :=
  decidable_of_iff
    (t.qos ≤ 2 ∧ (∀ p ∈ t.packetId, 1 ≤ p ∧ p ≤ 65535 ∧ t.qos ≠ 0) ∧ (t.qos = 0 → t.dup = false) ∧
      (∀ s ∈ t.topic, StrOk s) ∧ (∀ n ∈ t.topicAlias, 1 ≤ n ∧ n ≤ 65535) ∧ (∀ n ∈ t.mei, n ≤ 4294967295) ∧
      (∀ s ∈ t.correlationData, StrOk s) ∧ (∀ s ∈ t.responseTopic, StrOk s) ∧ (∀ s ∈ t.contentType, StrOk s) ∧
      UserOk t.userProps ∧ t.remainingLen < 268435456)
    ⟨fun ⟨a, b, c, d, e, f, g, h, i, j, k⟩ => ⟨a, b, c, d, e, f, g, h, i, j, k⟩,
     fun h => ⟨h.qos, h.packetId, h.dup, h.topic, h.topicAlias, h.mei, h.correlationData, h.responseTopic,
       h.contentType, h.userProps, h.size⟩⟩

instance (t : SubscribeTx) : Decidable (SubscribeInDomain t) :=
  decidable_of_iff
    ((1 ≤ t.packetId ∧ t.packetId ≤ 65535) ∧ (∀ v ∈ t.subId, 1 ≤ v ∧ v ≤ 268435455) ∧ UserOk t.userProps ∧
      (∀ fo ∈ t.filters, StrOk fo.1 ∧ fo.2.maxQos ≤ 2 ∧ fo.2.retainHandling ≤ 2) ∧ t.remainingLen < 268435456)
    ⟨fun ⟨a, b, c, d, e⟩ => ⟨a, b, c, d, e⟩, fun h => ⟨h.packetId, h.subId, h.userProps, h.filters, h.size⟩⟩

instance (t : UnsubscribeTx) : Decidable (UnsubscribeInDomain t) :=
  decidable_of_iff
    ((1 ≤ t.packetId ∧ t.packetId ≤ 65535) ∧ UserOk t.userProps ∧ (∀ f ∈ t.filters, StrOk f) ∧
      t.remainingLen < 268435456)
    ⟨fun ⟨a, b, c, d⟩ => ⟨a, b, c, d⟩, fun h => ⟨h.packetId, h.userProps, h.filters, h.size⟩⟩

instance (t : DisconnectTx) : Decidable (DisconnectInDomain t) :=
  decidable_of_iff
    (t.reason ∈ disconnectReasons ∧ (∀ n ∈ t.sessionExpiry, n ≤ 4294967295) ∧ (∀ s ∈ t.reasonString, StrOk s) ∧
      UserOk t.userProps ∧ t.remainingLen < 268435456)
    ⟨fun ⟨a, b, c, d, e⟩ => ⟨a, b, c, d, e⟩, fun h => ⟨h.reason, h.sessionExpiry, h.reasonString, h.userProps, h.size⟩⟩

instance (t : AuthTx) : Decidable (AuthInDomain t) :=
  decidable_of_iff
    ((∀ r ∈ t.reason, r ∈ authReasons) ∧ (∀ s ∈ t.authMethod, StrOk s) ∧ (∀ s ∈ t.authData, StrOk s) ∧
      (∀ s ∈ t.reasonString, StrOk s) ∧ UserOk t.userProps ∧ t.remainingLen < 268435456)
    ⟨fun ⟨a, b, c, d, e, f⟩ => ⟨a, b, c, d, e, f⟩,
     fun h => ⟨h.reason, h.authMethod, h.authData, h.reasonString, h.userProps, h.size⟩⟩

instance (t : ConnectTx) : Decidable (ConnectInDomain t) :=
  decidable_of_iff
    (t.keepAlive ≤ 65535 ∧ (∀ n ∈ t.sessionExpiry, n ≤ 4294967295) ∧ (∀ n ∈ t.receiveMaximum, 1 ≤ n ∧ n ≤ 65535) ∧
      (∀ n ∈ t.maxPacketSize, 1 ≤ n ∧ n ≤ 4294967295) ∧ (∀ n ∈ t.topicAliasMax, n ≤ 65535) ∧
      (∀ s ∈ t.authMethod, StrOk s) ∧ (∀ s ∈ t.authData, StrOk s) ∧ UserOk t.userProps ∧ StrOk t.clientId ∧
      (∀ s ∈ t.username, StrOk s) ∧ (∀ s ∈ t.password, StrOk s) ∧ t.willQos ≤ 2 ∧
      (∀ n ∈ t.willDelay, n ≤ 4294967295) ∧ (∀ n ∈ t.willMei, n ≤ 4294967295) ∧
      (∀ s ∈ t.willContentType, StrOk s) ∧ (∀ s ∈ t.willResponseTopic, StrOk s) ∧
      (∀ s ∈ t.willCorrelationData, StrOk s) ∧ UserOk t.willUserProps ∧ (∀ s ∈ t.willTopic, StrOk s) ∧
      (∀ s ∈ t.willPayload, StrOk s) ∧ t.willTopic.isSome = t.willPayload.isSome ∧
      (t.willTopic = none →
        t.willQos = 0 ∧ t.willRetain = false ∧ t.willDelay = none ∧ t.willPfi = none ∧ t.willMei = none ∧
        t.willContentType = none ∧ t.willResponseTopic = none ∧ t.willCorrelationData = none ∧
        t.willUserProps = []) ∧
      t.remainingLen < 268435456)
    ⟨fun ⟨a1, a2, a3, a4, a5, a6, a7, a8, a9, a10, a11, a12, a13, a14, a15, a16, a17, a18, a19, a20, a21, a22, a23⟩ =>
       ⟨a1, a2, a3, a4, a5, a6, a7, a8, a9, a10, a11, a12, a13, a14, a15, a16, a17, a18, a19, a20, a21, a22, a23⟩,
     fun h => ⟨h.keepAlive, h.sessionExpiry, h.receiveMaximum, h.maxPacketSize, h.topicAliasMax, h.authMethod,
       h.authData, h.userProps, h.clientId, h.username, h.password, h.willQos, h.willDelay, h.willMei,
       h.willContentType, h.willResponseTopic, h.willCorrelationData, h.willUserProps, h.willTopic, h.willPayload,
       h.willBoth, h.noWill, h.size⟩⟩

theorem varLen_le4 (n : Nat) : varLen n ≤ 4 := by
  unfold varLen; repeat' split
  all_goals omega

/-- a subscription identifier changes the size of a SUBSCRIBE by at most 6 bytes -/
theorem subscribe_size_sid (t : SubscribeTx) (pid sid : Nat) :
    ({ t with packetId := pid, subId := some sid } : SubscribeTx).remainingLen ≤
      ({ t with packetId := 1, subId := some 1 } : SubscribeTx).remainingLen + 6 := by
  simp only [SubscribeTx.remainingLen, SubscribeTx.propertyLen, oLen, propLen, pSubId, propKind_11, valLen]
  have h1 := varLen_le4 sid
  have h2 := varLen_pos sid
  have h3 : varLen 1 = 1 := by decide
  rw [h3]
  have h4 := varLen_le4 (1 + varLen sid + userLen t.userProps)
  have h5 := varLen_pos (1 + 1 + userLen t.userProps)
  omega

/-- executable version of `ReqInDomain` -/
def reqInDomainB : Req → Bool
  | .publish t =>
    if t.qos = 0 then decide (PublishInDomain t) else decide (PublishInDomain { t with packetId := some 1 })
  | .subscribe t =>
    decide (SubscribeInDomain { t with packetId := 1, subId := some 1 }) &&
    decide (({ t with packetId := 1, subId := some 1 } : SubscribeTx).remainingLen + 6 < 268435456)
  | .unsubscribe t => decide (UnsubscribeInDomain { t with packetId := 1 })
  | .ping => true
  | .disconnect t => decide (DisconnectInDomain t)

theorem reqInDomainB_sound (r : Req) (h : reqInDomainB r = true) : ReqInDomain r := by
  cases r with
  | publish t =>
    by_cases hq : t.qos = 0
    · simp only [reqInDomainB, hq, ↓reduceIte, decide_eq_true_eq] at h
      exact ⟨fun _ => h, fun hne => absurd hq hne⟩
    · simp only [reqInDomainB, hq, ↓reduceIte, decide_eq_true_eq] at h
      refine ⟨fun h0 => absurd h0 hq, fun _ pid h1 h2 => ?_⟩
      exact ⟨h.qos, fun p hp => by simp at hp; subst hp; exact ⟨h1, h2, hq⟩, h.dup, h.topic, h.topicAlias, h.mei,
        h.correlationData, h.responseTopic, h.contentType, h.userProps, h.size⟩
  | subscribe t =>
    simp only [reqInDomainB, Bool.and_eq_true, decide_eq_true_eq] at h
    obtain ⟨h, hs⟩ := h
    intro pid sid h1 h2 h3 h4
    refine ⟨⟨h1, h2⟩, fun v hv => by simp at hv; subst hv; exact ⟨h3, h4⟩, h.userProps, h.filters, ?_⟩
    have := subscribe_size_sid t pid sid
    omega
  | unsubscribe t =>
    simp only [reqInDomainB, decide_eq_true_eq] at h
    intro pid h1 h2
    exact ⟨⟨h1, h2⟩, h.userProps, h.filters, h.size⟩
  | ping => trivial
  | disconnect t =>
    have h' : DisconnectInDomain t := by simpa [reqInDomainB] using h
    exact h'

/-- executable version of `EvInDomain` -/
def evInDomainB : Ev → Bool
  | .connect t => decide (ConnectInDomain t)
  | .authorize a => decide (AuthInDomain a)
  | .op _ _ req => reqInDomainB req
  | _ => true

/-- executable version of `ScriptInDomain`: `true` only for scripts in the domain (a SUBSCRIBE within 6 bytes of the
    protocol's size limit is conservatively rejected) -/
def scriptInDomainB (evs : List Ev) : Bool := evs.all evInDomainB

theorem scriptInDomainB_sound (evs : List Ev) (h : scriptInDomainB evs = true) : ScriptInDomain evs := by
  intro e he
  have := List.all_eq_true.mp h e he
  cases e with
  | connect t =>
    have h' : ConnectInDomain t := by simpa [evInDomainB] using this
    exact h'
  | authorize a =>
    have h' : AuthInDomain a := by simpa [evInDomainB] using this
    exact h'
  | op id hh req => exact reqInDomainB_sound req this
  | _ => trivial

end Poster
