/-
  Lemmas/WorldFuelOp.lean — every poll of a flagged handle future strictly decreases the potential `W5.phi`
  (C04, quiescence of the drain). A poll either removes the operation from the table (it completes, fails or
  panics), or moves it one phase on (first poll → waiting; PUBREC received → waiting for PUBCOMP) queueing one
  message — the phases are priced so that the flag the context may get is paid for —, or it only registers the
  waker, which happens only when the operation was flagged although its oneshot had no value.
-/
import PosterModel.Lemmas.WorldFuelUser
import PosterModel.Lemmas.CtxBasic

set_option linter.unusedVariables false
set_option linter.unusedSimpArgs false

namespace Poster
open Framing
namespace World
namespace W5

/-- what a poll of operation `id` knows about the table (in the world after `unwake`) -/
structure OpCtx (w : World) (id : Nat) (st : OpSt) : Prop where
  hst : w.opSt id = some st
  nodup : (w.ops.map (·.1)).Nodup
  others : ∀ id' s' k', (id', OpSt.wait s' k') ∈ w.ops → id' ≠ id → s' / 2 ≠ id
  unflag : Task.op id ∉ w.woken
  nh : Task.op id ∉ w.held

/-- `X` is `w` after the preliminary steps of a poll of operation `id` (counters, the operation's own oneshots
    and response channel): the table, the flags and everything the context's summands read are unchanged; the
    streams' part grew by at most `e` -/
structure XRel (id : Nat) (e : Nat) (w X : World) : Prop where
  task_eq : X.task = w.task
  rx_eq : X.rx = w.rx
  reader_eq : X.reader = w.reader
  handles_eq : X.handles = w.handles
  held_eq : X.held = w.held
  ops_eq : X.ops = w.ops
  woken_eq : X.woken = w.woken
  slotsOther : ∀ s, s / 2 ≠ id → lookupFirst s X.slots = lookupFirst s w.slots
  st : stPot X ≤ stPot w + e

theorem XRel.refl (id : Nat) (w : World) : XRel id 0 w w :=
  ⟨rfl, rfl, rfl, rfl, rfl, rfl, rfl, fun _ _ => rfl, Nat.le_refl _⟩

theorem XRel.trans {id e1 e2 : Nat} {a b c : World} (h1 : XRel id e1 a b) (h2 : XRel id e2 b c) :
    XRel id (e1 + e2) a c :=
  ⟨h2.task_eq.trans h1.task_eq, h2.rx_eq.trans h1.rx_eq, h2.reader_eq.trans h1.reader_eq,
    h2.handles_eq.trans h1.handles_eq, h2.held_eq.trans h1.held_eq, h2.ops_eq.trans h1.ops_eq,
    h2.woken_eq.trans h1.woken_eq, fun s hs => (h2.slotsOther s hs).trans (h1.slotsOther s hs),
    by have := h1.st; have := h2.st; omega⟩

theorem XRel.of_eq {id : Nat} {w X : World} (h1 : X.task = w.task) (h2 : X.rx = w.rx) (h3 : X.reader = w.reader)
    (h4 : X.handles = w.handles) (h5 : X.held = w.held) (h6 : X.ops = w.ops) (h7 : X.woken = w.woken)
    (h8 : X.slots = w.slots) (h9 : X.streams = w.streams) (h10 : X.chans = w.chans) : XRel id 0 w X :=
  ⟨h1, h2, h3, h4, h5, h6, h7, fun _ _ => by rw [h8],
    Nat.le_of_eq (stPot_congr h9 h5 (fun n => by rw [h7]) h10)⟩

theorem xrel_clearSlot (id s : Nat) (w : World) (hs : s / 2 = id) : XRel id 0 w (w.clearSlot s) := by
  refine ⟨rfl, rfl, rfl, rfl, rfl, rfl, rfl, fun s' hs' => ?_, Nat.le_of_eq (stPot_congr rfl rfl (fun _ => Iff.rfl) rfl)⟩
  show lookupFirst s' (eraseFirst s w.slots) = _
  exact lookupFirst_eraseFirst_ne _ _ _ (by intro e; subst e; exact hs' hs)

/-- the response channel of the operation is replaced or removed: at most 2 for the stream of the same name -/
theorem xrel_chans (id : Nat) (w X : World) (h1 : X.task = w.task) (h2 : X.rx = w.rx) (h3 : X.reader = w.reader)
    (h4 : X.handles = w.handles) (h5 : X.held = w.held) (h6 : X.ops = w.ops) (h7 : X.woken = w.woken)
    (h8 : X.slots = w.slots) (h9 : X.streams = w.streams)
    (hc : ∀ n, n ≠ id → lookupFirst n X.chans = lookupFirst n w.chans) (hb : bufSum X ≤ bufSum w) :
    XRel id 2 w X := by
  refine ⟨h1, h2, h3, h4, h5, h6, h7, fun _ _ => by rw [h8], ?_⟩
  have hsum : stSum X ≤ stSum w + 2 := by
    unfold stSum
    rw [h9, h5, h7]
    refine sum_map_le_one (nodup_uniq _) id 2 _ _ (fun n _ hn => ?_) ?_
    · unfold stCost; rw [hc n hn]; omega
    · have a := stCost_le w.held w.woken X.chans id
      by_cases hh : Task.st id ∈ w.held
      · unfold stCost; simp [hh]
      · have b : 1 ≤ stCost w.held w.woken w.chans id := by
          unfold stCost
          simp only [hh, ↓reduceIte]
          split
          · split <;> omega
          · split <;> split <;> omega
        omega
  unfold stPot; omega

theorem xrel_setChan (id : Nat) (w : World) : XRel id 2 w (w.setChan id {}) :=
  xrel_chans id w _ rfl rfl rfl rfl rfl rfl rfl rfl rfl
    (fun n hn => by show lookupFirst n (setAssoc id _ w.chans) = _; exact lookupFirst_setAssoc_ne _ _ _ _ hn)
    (bufSum_setChan_le w id {} rfl)

theorem xrel_dropChanRx (id : Nat) (w : World) : XRel id 2 w (w.dropChanRx id) :=
  xrel_chans id w _ rfl rfl rfl rfl rfl rfl rfl rfl rfl
    (fun n hn => by show lookupFirst n (eraseFirst id w.chans) = _; exact lookupFirst_eraseFirst_ne _ _ _ hn)
    (bufSum_dropChanRx_le w id)

/-! ## the operation leaves the table -/

/-- the operation is erased, one line is logged, the last sender gone wakes the context -/
def finO (X : World) (id : Nat) (o : Obs) : World := (({ X with ops := eraseFirst id X.ops }).emit o).senderGone

theorem finishOp_eq_finO (X : World) (id : Nat) (r : DoneRes) : X.finishOp id r = finO X id (.done id r) := rfl

theorem opCost_ge_base (held woken : List Task) (slots : List (Nat × Slot)) (id : Nat) (st : OpSt)
    (h : Task.op id ∉ held) : opBase st ≤ opCost held woken slots (id, st) := by
  unfold opCost; simp only [h, ↓reduceIte]; omega

theorem opCost_unflagged (held woken : List Task) (slots : List (Nat × Slot)) (id : Nat) (st : OpSt)
    (h : Task.op id ∉ held) (hw : Task.op id ∉ woken) : opCost held woken slots (id, st) = opBase st := by
  unfold opCost
  simp only [h, ↓reduceIte]
  cases st with
  | fresh hd r => simp [opSpur]
  | wait s k => simp [opSpur, hw]

/-- the cost of another operation's entry does not grow when flags only disappear (or the context is flagged)
    and only oneshots of `id` change -/
theorem opCost_other {w : World} {id : Nat} {st : OpSt} (hc : OpCtx w id st) (woken' : List Task)
    (slots' : List (Nat × Slot)) (hw : ∀ n, Task.op n ∈ woken' → Task.op n ∈ w.woken)
    (hs : ∀ s, s / 2 ≠ id → lookupFirst s slots' = lookupFirst s w.slots) (e : Nat × OpSt) (he : e ∈ w.ops)
    (hne : e.1 ≠ id) : opCost w.held woken' slots' e ≤ opCost w.held w.woken w.slots e := by
  obtain ⟨id', st'⟩ := e
  unfold opCost
  split
  · omega
  · cases st' with
    | fresh hd r => simp [opSpur]
    | wait s' k' =>
      have h1 := hs s' (hc.others id' s' k' he hne)
      simp only [opSpur, idle, h1]
      by_cases hf : Task.op id' ∈ woken'
      · simp [hf, hw _ hf]
      · simp only [hf, false_and, ↓reduceIte]; omega

theorem ops_pos_of_lookup {w : World} {id : Nat} {st : OpSt} (h : w.opSt id = some st) : w.senders ≠ 0 := by
  have := length_eraseFirst_of_lookup id st w.ops h
  show w.handles.length + w.ops.length ≠ 0
  omega

theorem senderGone_woken_cases (Y : World) (t : Task) (h : t ∈ Y.senderGone.woken) :
    (t = .ctx ∧ Y.senderGone.senders = 0) ∨ t ∈ Y.woken := by
  by_cases hcond : Y.senders = 0 ∧ Y.hasCtx ∧ Y.queueReg
  · have e : Y.senderGone = { Y.wake .ctx with queueReg := false } := by
      unfold senderGone; rw [if_pos hcond]
    rw [e] at h ⊢
    rcases (mem_wake_iff _ _ _).mp h with h | h
    · refine Or.inl ⟨h, ?_⟩
      have := hcond.1
      simpa [senders] using this
    · exact Or.inr h
  · have e : Y.senderGone = Y := by unfold senderGone; rw [if_neg hcond]
    rw [e] at h; exact Or.inr h

theorem finO_phi {w X : World} {id : Nat} {st : OpSt} {e : Nat} (hc : OpCtx w id st) (hx : XRel id e w X)
    (o : Obs) : phi (finO X id o) + opBase st ≤ phi w + e := by
  -- the flags after `senderGone`
  have hwk : ∀ t, t ∈ (finO X id o).woken →
      (t = .ctx ∧ (finO X id o).senders = 0) ∨ t ∈ w.woken := by
    intro t ht
    rcases senderGone_woken_cases _ t ht with h | h
    · exact Or.inl h
    · exact Or.inr (hx.woken_eq ▸ h)
  have hwk2 : ∀ t, t ∈ w.woken → t ∈ (finO X id o).woken := by
    intro t ht
    unfold finO
    exact mem_senderGone_of_mem _ t (hx.woken_eq ▸ ht)
  have hops : (finO X id o).ops = eraseFirst id w.ops := by simp [finO, hx.ops_eq]
  have hheld : (finO X id o).held = w.held := by simp [finO, hx.held_eq]
  have hslots : (finO X id o).slots = X.slots := by simp [finO]
  have htask : (finO X id o).task = w.task := by simp [finO, hx.task_eq]
  have hhandles : (finO X id o).handles = w.handles := by simp [finO, hx.handles_eq]
  -- operations
  have h1 : opsPot (finO X id o) + opBase st ≤ opsPot w := by
    have a : opsPot (finO X id o) ≤ ((eraseFirst id w.ops).map (opCost w.held w.woken w.slots)).sum := by
      unfold opsPot
      rw [hops, hheld, hslots]
      refine sum_map_le _ _ _ (fun e he => ?_)
      have hm : e ∈ w.ops := (eraseFirst_sublist id w.ops).subset he
      have hne : e.1 ≠ id := eraseFirst_no_key id w.ops hc.nodup e he
      refine opCost_other hc _ _ (fun n hn => ?_) hx.slotsOther e hm hne
      rcases hwk _ hn with ⟨h, _⟩ | h
      · cases h
      · exact h
    have b := sum_map_eraseFirst (opCost w.held w.woken w.slots) id st w.ops hc.hst
    have c := opCost_ge_base w.held w.woken w.slots id st hc.nh
    unfold opsPot at *
    omega
  -- streams
  have h2 : stPot (finO X id o) = stPot X := by
    refine stPot_congr (by simp [finO]) (by simp [finO]) (fun n => ⟨fun h => ?_, fun h => ?_⟩) (by simp [finO])
    · rcases hwk _ h with ⟨h', _⟩ | h'
      · cases h'
      · exact hx.woken_eq ▸ h'
    · exact hwk2 _ (hx.woken_eq ▸ h)
  -- the context's own summands
  have h3 : ctxFlag (finO X id o) + ctxZ (finO X id o) ≤ ctxFlag w + ctxZ w := by
    by_cases hfire : Task.ctx ∈ (finO X id o).woken ∧ Task.ctx ∉ w.woken
    · rcases hwk _ hfire.1 with ⟨_, h0⟩ | h
      · have z : ctxZ (finO X id o) = 0 := by simp [ctxZ, h0]
        have f1 := ctxFlag_le_one (finO X id o)
        by_cases hl : w.task = .none
        · have : ctxFlag (finO X id o) = 0 := ctxFlag_of_none (htask.trans hl)
          omega
        · have : ctxZ w = 1 := by simp [ctxZ, hl, ops_pos_of_lookup hc.hst]
          omega
      · exact absurd h hfire.2
    · have a : ctxFlag (finO X id o) ≤ ctxFlag w :=
        ctxFlag_le (by rw [htask]; exact fun h => h) (fun _ h => by
          by_cases hin : Task.ctx ∈ w.woken
          · exact hin
          · exact absurd ⟨h, hin⟩ hfire)
      have b : ctxZ (finO X id o) ≤ ctxZ w := ctxZ_le (by rw [htask]; exact fun h => h) (fun _ => ops_pos_of_lookup hc.hst)
      omega
  have h4 : mu (finO X id o).rx (finO X id o).reader = mu w.rx w.reader := by
    simp [finO, hx.rx_eq, hx.reader_eq]
  have h5 := hx.st
  unfold phi phiU
  rw [h4]
  omega

/-! ## the operation queues a message and waits -/

/-- the world after a successful `unbounded_send` -/
def sentW (X : World) (m : Msg) : World :=
  { X with queue := X.queue ++ [m],
           woken := if X.queueReg then (X.wake .ctx).woken else X.woken,
           queueReg := false && X.queueReg }

theorem sendAwait_phi {w X : World} {id : Nat} {st : OpSt} {e : Nat} (hc : OpCtx w id st) (hx : XRel id e w X)
    (m : Msg) (s : Nat) (k : Wait) (hs : s / 2 = id) :
    phi (X.sendAwait m id s k) + opBase st ≤ phi w + e + opBase (.wait s k) + 1 := by
  by_cases hctx : X.hasCtx = true
  · -- the explicit world
    have eW : X.sendAwait m id s k = (sentW X m).awaitSlot id s k := by
      simp only [sendAwait, sendMsg_eq, hctx, ↓reduceIte, sentW]
    rw [eW]
    generalize hW : (sentW X m).awaitSlot id s k = W
    have hwoken : W.woken = if X.queueReg then (X.wake .ctx).woken else X.woken := by rw [← hW]; rfl
    have hwk : ∀ t, t ∈ W.woken → t = .ctx ∨ t ∈ w.woken := by
      intro t ht
      rw [hwoken] at ht
      split at ht
      · rcases (mem_wake_iff _ _ _).mp ht with h | h
        · exact Or.inl h
        · exact Or.inr (hx.woken_eq ▸ h)
      · exact Or.inr (hx.woken_eq ▸ ht)
    have hwk2 : ∀ t, t ∈ w.woken → t ∈ W.woken := by
      intro t ht
      rw [hwoken]
      split
      · exact mem_wake_of_mem _ _ _ (hx.woken_eq ▸ ht)
      · exact hx.woken_eq ▸ ht
    have hops : W.ops = setAssoc id (.wait s k) w.ops := by rw [← hW, ← hx.ops_eq]; rfl
    have hheld : W.held = w.held := by rw [← hW, ← hx.held_eq]; rfl
    have hslots : W.slots = setAssoc s Slot.empty X.slots := by rw [← hW]; rfl
    have htask : W.task = w.task := by rw [← hW, ← hx.task_eq]; rfl
    have hhandles : W.handles = w.handles := by rw [← hW, ← hx.handles_eq]; rfl
    have hnf : Task.op id ∉ W.woken := by
      intro h
      rcases hwk _ h with h | h
      · cases h
      · exact hc.unflag h
    have hsl : ∀ s', s' / 2 ≠ id → lookupFirst s' W.slots = lookupFirst s' w.slots := by
      intro s' hs'
      rw [hslots, lookupFirst_setAssoc_ne _ _ _ _ (by intro e; subst e; exact hs' hs)]
      exact hx.slotsOther s' hs'
    -- operations
    have h1 : opsPot W + opBase st ≤ opsPot w + opBase (.wait s k) := by
      have a := sum_map_setAssoc (opCost w.held W.woken W.slots) id st (.wait s k) w.ops hc.hst
      have b : (w.ops.map (opCost w.held W.woken W.slots)).sum ≤
          (w.ops.map (opCost w.held w.woken w.slots)).sum := by
        refine sum_map_le _ _ _ (fun e he => ?_)
        by_cases hne : e.1 = id
        · obtain ⟨id', st'⟩ := e
          simp only at hne
          subst hne
          have : st' = st := by
            have := lookupFirst_of_mem_nodup id' st' w.ops hc.nodup he
            have h2 : lookupFirst id' w.ops = some st := hc.hst
            rw [this] at h2; exact Option.some.inj h2
          subst this
          rw [opCost_unflagged _ _ _ _ _ hc.nh hnf]
          exact opCost_ge_base _ _ _ _ _ hc.nh
        · refine opCost_other hc _ _ (fun n hn => ?_) hsl e he hne
          rcases hwk _ hn with h | h
          · cases h
          · exact h
      have c1 := opCost_unflagged w.held W.woken W.slots id st hc.nh hnf
      have c2 := opCost_unflagged w.held W.woken W.slots id (.wait s k) hc.nh hnf
      unfold opsPot
      rw [hops, hheld]
      omega
    -- streams
    have h2 : stPot W = stPot X := by
      refine stPot_congr (by rw [← hW]; rfl) (by rw [← hW]; rfl) (fun n => ⟨fun h => ?_, fun h => ?_⟩)
        (by rw [← hW]; rfl)
      · rcases hwk _ h with h' | h'
        · cases h'
        · exact hx.woken_eq ▸ h'
      · exact hwk2 _ (hx.woken_eq ▸ h)
    have h3 : ctxZ W ≤ ctxZ w := ctxZ_le (by rw [htask]; exact fun h => h) (by
      show W.handles.length + W.ops.length ≠ 0 → _
      intro _; exact ops_pos_of_lookup hc.hst)
    have h4 := ctxFlag_le_one W
    have h5 : mu W.rx W.reader = mu w.rx w.reader := by
      have e1 : W.rx = X.rx := by rw [← hW]; rfl
      have e2 : W.reader = X.reader := by rw [← hW]; rfl
      rw [e1, e2, hx.rx_eq, hx.reader_eq]
    have h6 := hx.st
    unfold phi phiU
    rw [h5]
    omega
  · rw [User.sendAwait_no_ctx X m id s k (by simpa using hctx), finishOp_eq_finO]
    have := finO_phi hc hx (.done id (.err .contextExited))
    omega

/-! ## the poll -/

theorem opBase_wait_le (s : Nat) (k : Wait) : opBase (.wait s k) ≤ 3 := by cases k <;> simp [opBase]

theorem opBase_wait_le4 (s : Nat) (k : Wait) : 0 + opBase (.wait s k) ≤ 4 := by
  have := opBase_wait_le s k; omega

theorem resumeOp_shape (w : World) (id s : Nat) (k : Wait) (v : SlotVal) :
    (∃ o, w.resumeOp id s k v = finO (w.clearSlot s) id o) ∨
    (∃ o, w.resumeOp id s k v = finO ({ (w.clearSlot s) with rsps := (w.clearSlot s).rsps ++ [id] }) id o) ∨
    (k = .pubrec ∧ ∃ m, w.resumeOp id s k v = (w.clearSlot s).sendAwait m id (s + 1) .pubcomp) := by
  cases v with
  | errSize => exact Or.inl ⟨_, rfl⟩
  | errQuota => exact Or.inl ⟨_, rfl⟩
  | unit => cases k <;> exact Or.inl ⟨_, rfl⟩
  | pkt p =>
    cases k <;> cases p <;> simp only [resumeOp] <;>
      first
      | exact Or.inl ⟨_, rfl⟩
      | exact Or.inr (Or.inl ⟨_, rfl⟩)
      | (split <;> exact Or.inl ⟨_, rfl⟩)
      | (split
         · exact Or.inl ⟨_, rfl⟩
         · first
           | exact Or.inr (Or.inr ⟨trivial, _, rfl⟩)
           | exact Or.inr (Or.inr ⟨rfl, _, rfl⟩))

theorem two_mul_half (id : Nat) : 2 * id / 2 = id := by omega

/-- the first poll of a handle future -/
theorem startOp_phi {w : World} {id h : Nat} {req : Req} (hc : OpCtx w id (.fresh h req)) :
    phi (w.startOp id req) < phi w := by
  have fin : ∀ (X : World) (e : Nat) (r : DoneRes), XRel id e w X → e ≤ 4 → phi (X.finishOp id r) < phi w := by
    intro X e r hx he
    have := finO_phi hc hx (.done id r)
    rw [finishOp_eq_finO]
    simp only [opBase] at this
    omega
  have snd : ∀ (X : World) (e : Nat) (m : Msg) (k : Wait), XRel id e w X → e + opBase (.wait (2 * id) k) ≤ 4 →
      phi (X.sendAwait m id (2 * id) k) < phi w := by
    intro X e m k hx he
    have h1 := sendAwait_phi hc hx m (2 * id) k (two_mul_half id)
    have h2 : opBase (.fresh h req) = 6 := rfl
    omega
  cases req with
  | publish t =>
    by_cases hq : t.qos = 0
    · rw [User.startOp_publish0 w id t hq]
      split
      · exact fin w 0 _ (XRel.refl id w) (by omega)
      · exact snd w 0 _ _ (XRel.refl id w) (opBase_wait_le4 _ _)
    · rw [User.startOp_publish12 w id t hq]
      have hx : XRel id 0 w w.allocPid.2 := XRel.of_eq rfl rfl rfl rfl rfl rfl rfl rfl rfl rfl
      split
      · exact fin _ 0 _ hx (by omega)
      · exact snd _ 0 _ _ hx (opBase_wait_le4 _ _)
  | subscribe t =>
    rw [User.startOp_subscribe w id t]
    simp only
    have hx1 : XRel id 0 w (w.allocPid.2).allocSub.2 := XRel.of_eq rfl rfl rfl rfl rfl rfl rfl rfl rfl rfl
    have hx2 : XRel id 2 w ((w.allocPid.2).allocSub.2.setChan id {}) := by
      have := hx1.trans (xrel_setChan id (w.allocPid.2).allocSub.2)
      simpa using this
    split
    · exact fin _ 0 _ hx1 (by omega)
    · split
      · rename_i hm
        have hx3 : XRel id 4 w (((w.allocPid.2).allocSub.2.setChan id {}).dropChanRx id) := by
          have := hx2.trans (xrel_dropChanRx id ((w.allocPid.2).allocSub.2.setChan id {}))
          simpa using this
        exact fin _ 4 _ hx3 (by omega)
      · rename_i w' hm
        have e : ((w.allocPid.2).allocSub.2.setChan id {}).sendAwait
            (.subscribe (actionId 9 w.pidCtr) w.subCtr
              ({ t with packetId := w.pidCtr, subId := some w.subCtr } : SubscribeTx).encode (2 * id) id)
            id (2 * id) .suback = w'.awaitSlot id (2 * id) .suback := by
          simp only [sendAwait, hm]
        rw [← e]
        exact snd _ 2 _ _ hx2 (by simp [opBase])
  | unsubscribe t =>
    rw [User.startOp_unsubscribe w id t]
    have hx : XRel id 0 w w.allocPid.2 := XRel.of_eq rfl rfl rfl rfl rfl rfl rfl rfl rfl rfl
    split
    · exact fin _ 0 _ hx (by omega)
    · exact snd _ 0 _ _ hx (opBase_wait_le4 _ _)
  | ping =>
    rw [User.startOp_ping w id]
    exact snd w 0 _ _ (XRel.refl id w) (opBase_wait_le4 _ _)
  | disconnect t =>
    rw [User.startOp_disconnect w id t]
    exact snd w 0 _ _ (XRel.refl id w) (opBase_wait_le4 _ _)

/-! ## un-flagging the polled operation -/

theorem unwake_op_phi (w : World) (id : Nat) : phi (w.unwake (.op id)) ≤ phi w := by
  have hu : ∀ t, t ∈ (w.unwake (.op id)).woken → t ∈ w.woken := fun t ht => (List.mem_filter.mp ht).1
  have h1 : opsPot (w.unwake (.op id)) ≤ opsPot w := opsPot_le_of_woken rfl rfl rfl (fun n h => hu _ h)
  have h2 : stPot (w.unwake (.op id)) = stPot w :=
    stPot_congr rfl rfl (fun n => ⟨hu _, fun h => List.mem_filter.mpr ⟨h, by simp⟩⟩) rfl
  exact phi_le_of (a := 0) (fun h => h) (fun _ h => hu _ h) (fun h => h) (Nat.le_refl _) (by unfold phiU; omega)

/-- … and if it was flagged although its oneshot has no value, the potential drops -/
theorem unwake_op_phi_gap (w : World) (id s : Nat) (k : Wait) (hst : w.opSt id = some (.wait s k))
    (hw : Task.op id ∈ w.woken) (hh : Task.op id ∉ w.held) (hi : idle w.slots s) :
    phi (w.unwake (.op id)) + 1 ≤ phi w := by
  have hu : ∀ t, t ∈ (w.unwake (.op id)).woken → t ∈ w.woken := fun t ht => (List.mem_filter.mp ht).1
  have hnf : Task.op id ∉ (w.unwake (.op id)).woken := by
    intro h; have := (List.mem_filter.mp h).2; simp at this
  have h1 : opsPot (w.unwake (.op id)) + 1 ≤ opsPot w := by
    unfold opsPot
    refine sum_map_le_gap _ _ _ (fun e he => ?_) (id, .wait s k) (mem_of_lookupFirst id _ w.ops (show lookupFirst id w.ops = some (.wait s k) from hst)) 1 ?_
    · obtain ⟨id', st'⟩ := e
      show opCost w.held (w.unwake (.op id)).woken w.slots (id', st') ≤ opCost w.held w.woken w.slots (id', st')
      unfold opCost
      split
      · omega
      · cases st' with
        | fresh hd r => simp [opSpur]
        | wait s' k' =>
          simp only [opSpur]
          by_cases hf : Task.op id' ∈ (w.unwake (.op id)).woken
          · simp [hf, hu _ hf]
          · simp only [hf, false_and, ↓reduceIte]; omega
    · show opCost w.held (w.unwake (.op id)).woken w.slots (id, .wait s k) + 1 ≤
        opCost w.held w.woken w.slots (id, .wait s k)
      unfold opCost
      simp only [hh, ↓reduceIte, opSpur, hnf, false_and, hw, hi, and_self]
      omega
  have h2 : stPot (w.unwake (.op id)) = stPot w :=
    stPot_congr rfl rfl (fun n => ⟨hu _, fun h => List.mem_filter.mpr ⟨h, by simp⟩⟩) rfl
  have h3 : ctxFlag (w.unwake (.op id)) ≤ ctxFlag w := ctxFlag_le (fun h => h) (fun _ h => hu _ h)
  have h4 : ctxZ (w.unwake (.op id)) ≤ ctxZ w := ctxZ_le (fun h => h) (fun h => h)
  have h5 : mu (w.unwake (.op id)).rx (w.unwake (.op id)).reader = mu w.rx w.reader := rfl
  unfold phi phiU
  rw [h5]
  omega

/-- **every poll of a flagged handle future that is not held strictly decreases the potential** -/
theorem pollOp_phi (w : World) (id : Nat) (ho : OwnInv w) (hw : Task.op id ∈ w.woken) (hh : Task.op id ∉ w.held)
    (st : OpSt) (hst : w.opSt id = some st) : phi ((w.unwake (.op id)).pollOp id) < phi w := by
  have hst0 : (w.unwake (.op id)).opSt id = some st := hst
  have hc : OpCtx (w.unwake (.op id)) id st := by
    refine ⟨hst0, ho.nodup, fun id' s' k' hm hne => ?_, ?_, hh⟩
    · have h1 : w.opSt id' = some (.wait s' k') := lookupFirst_of_mem_nodup id' _ w.ops ho.nodup hm
      have := (ho.slotOf id' s' k' h1).half
      omega
    · intro h; have := (List.mem_filter.mp h).2; simp at this
  have hle := unwake_op_phi w id
  cases st with
  | fresh h req =>
    have e : (w.unwake (.op id)).pollOp id = (w.unwake (.op id)).startOp id req := by
      simp only [pollOp, hst0]
    rw [e]
    have := startOp_phi hc
    omega
  | wait s k =>
    have hhalf : s / 2 = id := (ho.slotOf id s k hst).half
    have reg : ∀ (W : World), W.task = w.task → W.rx = w.rx → W.reader = w.reader → W.handles = w.handles →
        W.ops = w.ops → W.held = w.held → W.streams = w.streams → W.woken = (w.unwake (.op id)).woken →
        W.slots = w.slots → W.chans = w.chans → idle w.slots s → phi W < phi w := by
      intro W e1 e2 e3 e4 e5 e6 e7 e8 e9 e10 hi
      have a : phi W ≤ phi (w.unwake (.op id)) :=
        phi_le_of_fields (by rw [e1]; exact fun h => h) e2 e3 e4 e5 e6 e7 e8 e9 e10
      have b := unwake_op_phi_gap w id s k hst hw hh hi
      omega
    cases hs : (w.unwake (.op id)).slot s with
    | none =>
      have e : (w.unwake (.op id)).pollOp id = { (w.unwake (.op id)) with
          slotReg := if s ∈ (w.unwake (.op id)).slotReg then (w.unwake (.op id)).slotReg
            else (w.unwake (.op id)).slotReg ++ [s] } := by
        simp only [pollOp, hst0, hs]
      rw [e]
      exact reg _ rfl rfl rfl rfl rfl rfl rfl rfl rfl rfl (Or.inr hs)
    | some sl =>
      cases sl with
      | empty =>
        have e : (w.unwake (.op id)).pollOp id = { (w.unwake (.op id)) with
            slotReg := if s ∈ (w.unwake (.op id)).slotReg then (w.unwake (.op id)).slotReg
              else (w.unwake (.op id)).slotReg ++ [s] } := by
          simp only [pollOp, hst0, hs]
        rw [e]
        exact reg _ rfl rfl rfl rfl rfl rfl rfl rfl rfl rfl (Or.inl hs)
      | closed =>
        have e : (w.unwake (.op id)).pollOp id =
            ((w.unwake (.op id)).clearSlot s).finishOp id (.err .contextExited) := by
          simp only [pollOp, hst0, hs]
        rw [e, finishOp_eq_finO]
        have := finO_phi hc (xrel_clearSlot id s _ hhalf) (.done id (.err .contextExited))
        have := opBase_pos (.wait s k)
        omega
      | full v =>
        have e : (w.unwake (.op id)).pollOp id = (w.unwake (.op id)).resumeOp id s k v := by
          simp only [pollOp, hst0, hs]
        rw [e]
        have hx := xrel_clearSlot id s (w.unwake (.op id)) hhalf
        have hb := opBase_pos (.wait s k)
        rcases resumeOp_shape (w.unwake (.op id)) id s k v with ⟨o, e1⟩ | ⟨o, e1⟩ | ⟨hk, m, e1⟩
        · rw [e1]
          have := finO_phi hc hx o
          omega
        · rw [e1]
          have hx2 : XRel id 0 (w.unwake (.op id))
              ({ ((w.unwake (.op id)).clearSlot s) with rsps := ((w.unwake (.op id)).clearSlot s).rsps ++ [id] }) := by
            have := hx.trans (XRel.of_eq (id := id) (w := (w.unwake (.op id)).clearSlot s)
              (X := { ((w.unwake (.op id)).clearSlot s) with rsps := ((w.unwake (.op id)).clearSlot s).rsps ++ [id] })
              rfl rfl rfl rfl rfl rfl rfl rfl rfl rfl)
            simpa using this
          have := finO_phi hc hx2 o
          omega
        · rw [e1]
          subst hk
          have hs2 : s = 2 * id := by
            rcases ho.slotOf id s .pubrec hst with h | ⟨_, h⟩
            · exact h
            · cases h
          have := sendAwait_phi hc hx m (s + 1) .pubcomp (by omega)
          simp only [opBase] at this
          omega

end W5
end World
end Poster
