/-
  Lemmas/WorldQuietIds.lean — the side condition `evOk` follows from a purely syntactic condition on the script:
  the identifiers of its `op` events are pairwise distinct. The identifiers in use in a world (live streams,
  un-taken SUBACK responses, pending operations) only ever come from `op` events.
-/
import PosterModel.Lemmas.WorldQuiet
import PosterModel.Lemmas.ScriptIds

set_option linter.unusedVariables false
set_option linter.unusedSimpArgs false

namespace Poster
open Framing
namespace World

/-- identifier `id` is in use: a live stream, an un-taken SUBACK response, or a pending operation -/
def used (w : World) (id : Nat) : Prop := id ∈ w.streams ∨ id ∈ w.rsps ∨ id ∈ w.ops.map (·.1)

/-- no identifier is in use in `w'` that was not in use in `w` -/
structure UsedLe (w' w : World) : Prop where
  le : ∀ id, used w' id → used w id

theorem UsedLe.refl (w : World) : UsedLe w w := ⟨fun _ h => h⟩
theorem UsedLe.trans {a b c : World} (h1 : UsedLe a b) (h2 : UsedLe b c) : UsedLe a c :=
  ⟨fun id h => h2.le id (h1.le id h)⟩

theorem UsedLe.of_fields {w' w : World} (h1 : ∀ id, id ∈ w'.streams → used w id)
    (h2 : ∀ id, id ∈ w'.rsps → used w id) (h3 : ∀ id, id ∈ w'.ops.map (·.1) → used w id) : UsedLe w' w := by
  constructor
  rintro id (h | h | h)
  · exact h1 id h
  · exact h2 id h
  · exact h3 id h

theorem UsedLe.of_eq {w' w : World} (h1 : w'.streams = w.streams) (h2 : w'.rsps = w.rsps) (h3 : w'.ops = w.ops) :
    UsedLe w' w :=
  UsedLe.of_fields (fun id h => Or.inl (h1 ▸ h)) (fun id h => Or.inr (Or.inl (h2 ▸ h)))
    (fun id h => Or.inr (Or.inr (h3 ▸ h)))

theorem mem_keys_of_lookup {β} {k : Nat} {v : β} {l : List (Nat × β)} (h : lookupFirst k l = some v) :
    k ∈ l.map (·.1) := by
  by_cases hm : k ∈ l.map (·.1)
  · exact hm
  · rw [(User.lookupFirst_none_iff k l).2 hm] at h; cases h

/-! ## the context task does not touch the tables -/

theorem runEnd_tables {w r : World} (h : RunEnd w r) :
    r.ops = w.ops ∧ r.streams = w.streams ∧ r.rsps = w.rsps := by
  cases h with
  | msgExit m q w1 fl hq hr hne =>
    have e : w1 = (World.runHandler { w with queue := q } (fun wok => w.c.handleMsg m wok)).1 := by rw [hr]
    subst e; simp
  | closed => simp
  | pktExit rx' rd' fr p w1 fl hq hs hp hd hr hne =>
    have e : w1 = (World.runHandler { w with rx := rx', reader := rd' }
        (fun wok => w.c.handlePkt w.chanRxAlive p wok)).1 := by rw [hr]
    subst e; simp
  | codec => simp
  | panic => simp
  | sock => simp
  | pending rx' rd' hq hs hp => split <;> simp

theorem runLoop_tables (f : Nat) (w : World) :
    (runLoop f w).ops = w.ops ∧ (runLoop f w).streams = w.streams ∧ (runLoop f w).rsps = w.rsps := by
  obtain ⟨wm, hs, he⟩ := runLoop_decomp f w
  obtain ⟨_, _, a3, _, _, a6, a7, _⟩ := serve_frame hs
  rcases he with he | he
  · rw [he]; exact ⟨a3, a6, a7⟩
  · obtain ⟨b1, b2, b3⟩ := runEnd_tables he
    exact ⟨b1.trans a3, b2.trans a6, b3.trans a7⟩

theorem firstEnd_tables {w r : World} {call : Call} {t : ConnectTx} {a : AuthTx} (h : FirstEnd w call t a r) :
    r.ops = w.ops ∧ r.streams = w.streams ∧ r.rsps = w.rsps := by
  cases h with
  | pending rx' rd' hp => split <;> simp
  | _ => simp

theorem foldl_writeBytes_tables (pkts : List Bytes) (w : World) :
    (pkts.foldl (fun w p => w.writeBytes p) w).ops = w.ops ∧
    (pkts.foldl (fun w p => w.writeBytes p) w).streams = w.streams ∧
    (pkts.foldl (fun w p => w.writeBytes p) w).rsps = w.rsps := by
  induction pkts generalizing w with
  | nil => exact ⟨rfl, rfl, rfl⟩
  | cons p t ih =>
    obtain ⟨a, b, c⟩ := ih (w.writeBytes p)
    simp only [List.foldl_cons]
    exact ⟨by rw [a]; simp, by rw [b]; simp, by rw [c]; simp⟩

theorem pollCtx_tables (w : World) :
    w.pollCtx.ops = w.ops ∧ w.pollCtx.streams = w.streams ∧ w.pollCtx.rsps = w.rsps := by
  unfold World.pollCtx
  cases ht : w.task with
  | none => exact ⟨rfl, rfl, rfl⟩
  | connecting call t a started =>
    simp only
    cases started with
    | true =>
      simp only [pollConnect, ↓reduceIte]
      exact firstEnd_tables (awaitFirst_spec w call t a)
    | false =>
      rcases pollConnect_prelude w call t a with ⟨_, h2⟩ | ⟨_, h2⟩
      · rw [h2]; simp
      · cases call <;> simp only [pollConnect, Bool.false_eq_true, ↓reduceIte] <;>
          (split
           · simp
           · split
             · obtain ⟨a1, a2, a3⟩ := firstEnd_tables (awaitFirst_spec _ _ t a)
               rw [a1, a2, a3]; simp
             · simp)
  | running started =>
    simp only
    cases started with
    | true => simp only [pollRun, ↓reduceIte]; exact runLoop_tables _ w
    | false =>
      simp only [pollRun, Bool.false_eq_true, ↓reduceIte]
      split
      · obtain ⟨a1, a2, a3⟩ := runLoop_tables
          (List.foldl (fun w p => w.writeBytes p)
            (({ w with c := (w.c.resume).1, task := .running true } : World).applyEffs (w.c.resume).2.1)
            (w.c.resume).2.2).loopFuel
          (List.foldl (fun w p => w.writeBytes p)
            (({ w with c := (w.c.resume).1, task := .running true } : World).applyEffs (w.c.resume).2.1)
            (w.c.resume).2.2)
        obtain ⟨b1, b2, b3⟩ := foldl_writeBytes_tables (w.c.resume).2.2
          (({ w with c := (w.c.resume).1, task := .running true } : World).applyEffs (w.c.resume).2.1)
        rw [a1, a2, a3, b1, b2, b3]; simp
      · simp

/-! ## the user side -/

theorem usedLe_finishOp (w : World) (id : Nat) (r : DoneRes) : UsedLe (w.finishOp id r) w :=
  UsedLe.of_fields (fun j h => Or.inl (by simpa using h)) (fun j h => Or.inr (Or.inl (by simpa using h)))
    (fun j h => Or.inr (Or.inr (eraseFirst_keys_subset id j w.ops (by simpa using h))))

theorem usedLe_sendAwait (w : World) (m : Msg) (id s : Nat) (k : Wait) (st0 : OpSt)
    (hop : w.opSt id = some st0) : UsedLe (w.sendAwait m id s k) w := by
  unfold World.sendAwait
  cases hm : w.sendMsg m with
  | none => exact usedLe_finishOp w id _
  | some w' =>
    simp only
    obtain ⟨e1, e2, e3⟩ := sendMsg_fields hm
    refine UsedLe.of_fields (fun j h => Or.inl (e2 ▸ h)) (fun j h => Or.inr (Or.inl (e3 ▸ h))) (fun j h => ?_)
    have : ((w'.awaitSlot id s k).ops.map (·.1)) = w.ops.map (·.1) := by
      simp only [awaitSlot_ops', e1]
      exact map_fst_setAssoc_of_lookup id _ st0 w.ops hop
    exact Or.inr (Or.inr (this ▸ h))

theorem usedLe_startOp (w : World) (id hh : Nat) (req : Req) (hop : w.opSt id = some (.fresh hh req)) :
    UsedLe (w.startOp id req) w := by
  have hp : UsedLe w.allocPid.2 w := UsedLe.of_eq rfl rfl rfl
  cases req with
  | publish t =>
    by_cases hq : t.qos = 0
    · rw [User.startOp_publish0 w id t hq]
      split
      · exact usedLe_finishOp w id _
      · exact usedLe_sendAwait w _ id _ _ _ hop
    · rw [User.startOp_publish12 w id t hq]
      split
      · exact (usedLe_finishOp _ id _).trans hp
      · exact (usedLe_sendAwait w.allocPid.2 _ id _ _ _ hop).trans hp
  | subscribe t =>
    rw [User.startOp_subscribe]
    simp only
    have h1 : UsedLe (w.allocPid.2).allocSub.2 w := UsedLe.of_eq rfl rfl rfl
    split
    · exact (usedLe_finishOp _ id _).trans h1
    · split
      · exact (usedLe_finishOp _ id _).trans
          ((UsedLe.of_eq (w' := (((w.allocPid.2).allocSub.2).setChan id {}).dropChanRx id)
            (w := (w.allocPid.2).allocSub.2) rfl rfl rfl).trans h1)
      · rename_i w' hm
        obtain ⟨e1, e2, e3⟩ := sendMsg_fields hm
        refine UsedLe.of_fields (fun j h => Or.inl (by simpa [e2] using h))
          (fun j h => Or.inr (Or.inl (by simpa [e3] using h))) (fun j h => ?_)
        have : ((w'.awaitSlot id (2 * id) .suback).ops.map (·.1)) = w.ops.map (·.1) := by
          simp only [awaitSlot_ops', e1]
          exact map_fst_setAssoc_of_lookup id _ _ w.ops hop
        exact Or.inr (Or.inr (this ▸ h))
  | unsubscribe t =>
    rw [User.startOp_unsubscribe]
    split
    · exact (usedLe_finishOp _ id _).trans hp
    · exact (usedLe_sendAwait w.allocPid.2 _ id _ _ _ hop).trans hp
  | ping => rw [User.startOp_ping]; exact usedLe_sendAwait w _ id _ _ _ hop
  | disconnect t => rw [User.startOp_disconnect]; exact usedLe_sendAwait w _ id _ _ _ hop

theorem usedLe_resumeOp (w : World) (id s : Nat) (k : Wait) (v : SlotVal) (hop : w.opSt id = some (.wait s k)) :
    UsedLe (w.resumeOp id s k v) w := by
  have h1 : UsedLe (w.clearSlot s) w := UsedLe.of_eq rfl rfl rfl
  have hop1 : (w.clearSlot s).opSt id = some (.wait s k) := hop
  have fin : ∀ r, UsedLe ((w.clearSlot s).finishOp id r) w := fun r => (usedLe_finishOp _ id r).trans h1
  have pan : ∀ o, UsedLe (({ (w.clearSlot s) with ops := eraseFirst id (w.clearSlot s).ops }).emit o |>.senderGone) w := by
    intro o
    have e := senderGone_eq (({ (w.clearSlot s) with ops := eraseFirst id (w.clearSlot s).ops }).emit o)
    refine UsedLe.of_fields (fun j h => Or.inl ?_) (fun j h => Or.inr (Or.inl ?_)) (fun j h => Or.inr (Or.inr ?_))
    · rw [e] at h; exact h
    · rw [e] at h; exact h
    · rw [e] at h; exact eraseFirst_keys_subset id j w.ops h
  cases v with
  | errSize => exact fin _
  | errQuota => exact fin _
  | unit => simp only [World.resumeOp]; split <;> exact fin _
  | pkt p =>
    cases k <;> cases p <;> simp only [World.resumeOp] <;>
      first
      | exact fin _
      | (split <;> exact fin _)
      | exact pan _
      | skip
    · split
      · exact fin _
      · exact (usedLe_sendAwait (w.clearSlot s) _ id (s + 1) .pubcomp _ hop1).trans h1
    · rename_i a
      rw [finishOp_rsps_comm]
      refine UsedLe.of_fields (fun j h => Or.inl (by simpa using h)) (fun j h => ?_)
        (fun j h => Or.inr (Or.inr (eraseFirst_keys_subset id j w.ops (by simpa using h))))
      have h' : j ∈ w.rsps ++ [id] := by simpa using h
      rcases List.mem_append.mp h' with x | x
      · exact Or.inr (Or.inl x)
      · simp only [List.mem_singleton] at x; subst x
        exact Or.inr (Or.inr (mem_keys_of_lookup hop))

theorem usedLe_pollOp (w : World) (id : Nat) : UsedLe (w.pollOp id) w := by
  unfold World.pollOp
  cases hop : w.opSt id with
  | none => exact UsedLe.refl w
  | some st =>
    cases st with
    | fresh hh req => exact usedLe_startOp w id hh req hop
    | wait s k =>
      simp only
      split
      · exact usedLe_resumeOp w id s k _ hop
      · exact (usedLe_finishOp _ id _).trans (UsedLe.of_eq rfl rfl rfl)
      · exact UsedLe.of_eq rfl rfl rfl

theorem usedLe_dropOp (w : World) (id : Nat) : UsedLe (w.dropOp id) w := by
  unfold World.dropOp
  split
  · exact UsedLe.refl w
  · rw [senderGone_eq]
    exact UsedLe.of_fields (fun j h => Or.inl h) (fun j h => Or.inr (Or.inl h))
      (fun j h => Or.inr (Or.inr (eraseFirst_keys_subset id j w.ops h)))
  · rename_i s k _
    rw [senderGone_eq]
    cases k <;>
      exact UsedLe.of_fields (fun j h => Or.inl h) (fun j h => Or.inr (Or.inl h))
        (fun j h => Or.inr (Or.inr (eraseFirst_keys_subset id j w.ops h)))

theorem usedLe_pollStream (w : World) (id : Nat) : UsedLe (w.pollStream id) w := by
  unfold World.pollStream
  split
  · exact UsedLe.refl w
  · split
    · exact UsedLe.refl w
    · split
      · exact UsedLe.of_eq (by simp) (by simp) (by simp)
      · split
        · exact UsedLe.of_eq rfl rfl rfl
        · refine UsedLe.of_fields (fun j h => Or.inl ?_)
            (fun j h => Or.inr (Or.inl (by simpa using h))) (fun j h => Or.inr (Or.inr (by simpa using h)))
          have h' : j ∈ w.streams.filter (· ≠ id) := by simpa using h
          exact (List.mem_filter.mp h').1

theorem usedLe_pollTask (w : World) (t : Task) : UsedLe (w.pollTask t) w := by
  have hu : UsedLe (w.unwake t) w := UsedLe.of_eq rfl rfl rfl
  unfold World.pollTask
  cases t with
  | ctx =>
    obtain ⟨a, b, c⟩ := pollCtx_tables (w.unwake .ctx)
    exact (UsedLe.of_eq b c a).trans hu
  | op n => exact (usedLe_pollOp _ n).trans hu
  | st n => exact (usedLe_pollStream _ n).trans hu

theorem usedLe_drain (f : Nat) (w : World) : UsedLe (World.drain f w) w := by
  induction f generalizing w with
  | zero => exact UsedLe.refl w
  | succ f ih =>
    simp only [World.drain]
    split
    · exact UsedLe.refl w
    · exact (ih _).trans (usedLe_pollTask w _)

theorem usedLe_sweep (w : World) : UsedLe w.sweep w := by
  unfold World.sweep
  simp only
  generalize ([Task.ctx] ++ List.map Task.op (sortNat (List.map (fun x => x.1) w.ops)) ++
    List.map Task.st (sortNat w.streams)) = tasks
  suffices h : ∀ (l : List Task) (w0 : World),
      UsedLe (l.foldl (fun w t => if w.taskLive t ∧ t ∉ w.woken ∧ t ∉ w.held then w.pollTask t else w) w0) w0 from
    h tasks w
  intro l
  induction l with
  | nil => intro w0; exact UsedLe.refl w0
  | cons t rest ih =>
    intro w0
    simp only [List.foldl_cons]
    split
    · exact (ih _).trans (usedLe_pollTask w0 t)
    · exact ih _

/-! ## script events -/

/-- the identifier an event introduces -/

theorem used_applyQ (w : World) (e : Ev) (id : Nat) (h : used (w.apply e) id) : used w id ∨ evOpId e = some id := by
  have same : ∀ {w' : World}, UsedLe w' w → used w' id → used w id ∨ evOpId e = some id := fun hl hu => Or.inl (hl.le id hu)
  cases e with
  | setup =>
    revert h; simp only [World.apply]
    split
    · exact same (UsedLe.of_eq rfl rfl rfl)
    · split
      · split
        · exact same (UsedLe.of_eq rfl rfl rfl)
        · exact same (UsedLe.of_eq rfl rfl rfl)
      · refine same (UsedLe.of_eq ?_ ?_ ?_) <;> (unfold World.flushRaw; split <;> rfl)
  | connect t =>
    revert h; simp only [World.apply]; split
    · exact same (UsedLe.of_eq rfl rfl rfl)
    · exact same (UsedLe.of_eq (by simp) (by simp) (by simp))
  | authorize a =>
    revert h; simp only [World.apply]; split
    · exact same (UsedLe.of_eq rfl rfl rfl)
    · exact same (UsedLe.of_eq (by simp) (by simp) (by simp))
  | run =>
    revert h; simp only [World.apply]; split
    · exact same (UsedLe.of_eq rfl rfl rfl)
    · exact same (UsedLe.of_eq (by simp) (by simp) (by simp))
  | dropFut => exact same (UsedLe.of_eq rfl rfl rfl) h
  | dropCtx =>
    cases hc : w.hasCtx with
    | false =>
      simp only [World.apply, hc] at h
      exact same (UsedLe.of_eq rfl rfl rfl) h
    | true =>
      rw [apply_dropCtx w hc] at h
      have inv := closes_inv (closes_dropCtxClosed w)
      exact same (UsedLe.of_eq inv.streams_eq inv.rsps_eq inv.ops_eq) h
  | markDisc secs =>
    revert h; simp only [World.apply]; split <;> exact same (UsedLe.of_eq rfl rfl rfl)
  | snap =>
    revert h; simp only [World.apply]; split <;> exact same (UsedLe.of_eq rfl rfl rfl)
  | feed chunks =>
    revert h; simp only [World.apply]; split
    · exact same (UsedLe.of_eq rfl rfl rfl)
    · obtain ⟨rd, e⟩ := feedEvents_shape w (chunks.map ReadEv.data)
      rw [e]; exact same (UsedLe.of_eq rfl rfl rfl)
  | feedEof =>
    revert h; simp only [World.apply]; split
    · exact same (UsedLe.of_eq rfl rfl rfl)
    · obtain ⟨rd, e⟩ := feedEvents_shape w [.eof]
      rw [e]; exact same (UsedLe.of_eq rfl rfl rfl)
  | feedErr =>
    revert h; simp only [World.apply]; split
    · exact same (UsedLe.of_eq rfl rfl rfl)
    · obtain ⟨rd, e⟩ := feedEvents_shape w [.err]
      rw [e]; exact same (UsedLe.of_eq rfl rfl rfl)
  | op id' hh req =>
    revert h; simp only [World.apply]; split
    · exact same (UsedLe.of_eq rfl rfl rfl)
    · rintro (h | h | h)
      · exact Or.inl (Or.inl (by simpa using h))
      · exact Or.inl (Or.inr (Or.inl (by simpa using h)))
      · have h' : id ∈ w.ops.map (·.1) ∨ id = id' := by simpa using h
        rcases h' with x | x
        · exact Or.inl (Or.inr (Or.inr x))
        · exact Or.inr (by simp [evOpId, x])
  | poll t =>
    revert h; simp only [World.apply]; split
    · exact same (usedLe_pollTask w t)
    · exact same (UsedLe.refl w)
  | hold t =>
    revert h; simp only [World.apply]; split <;> exact same (UsedLe.of_eq rfl rfl rfl)
  | release t => exact same (UsedLe.of_eq rfl rfl rfl) h
  | drop t =>
    cases t with
    | ctx => exact Or.inl h
    | op id' => exact same (usedLe_dropOp w id') h
    | st id' =>
      revert h; simp only [World.apply]; split
      · exact same (UsedLe.of_fields (fun j h => Or.inl (List.mem_filter.mp h).1) (fun j h => Or.inr (Or.inl h))
          (fun j h => Or.inr (Or.inr h)))
      · exact same (UsedLe.refl w)
  | dropRsp id' =>
    revert h; simp only [World.apply]; split
    · exact same (UsedLe.of_fields (fun j h => Or.inl h) (fun j h => Or.inr (Or.inl (List.mem_filter.mp h).1))
          (fun j h => Or.inr (Or.inr h)))
    · exact same (UsedLe.refl w)
  | stream id' =>
    revert h; simp only [World.apply]; split
    · exact same (UsedLe.of_eq rfl rfl rfl)
    · rename_i hc
      refine same (UsedLe.of_fields (fun j h => ?_) (fun j h => ?_) (fun j h => Or.inr (Or.inr (by simpa using h))))
      · have h' : j ∈ w.streams ∨ j = id' := by simpa using h
        rcases h' with x | x
        · exact Or.inl x
        · subst x; exact Or.inr (Or.inl (by simpa using hc))
      · have h' : j ∈ w.rsps.filter (· ≠ id') := by simpa using h
        exact Or.inr (Or.inl (List.mem_filter.mp h').1)
  | clone hh h2 =>
    revert h; simp only [World.apply]; split <;> exact same (UsedLe.of_eq rfl rfl rfl)
  | dropHandle hh =>
    revert h; simp only [World.apply]; split
    · exact same (UsedLe.of_eq rfl rfl rfl)
    · rw [senderGone_eq]; exact same (UsedLe.of_eq rfl rfl rfl)

theorem used_stepQ (w : World) (e : Ev) (id : Nat) (h : used (w.step e) id) : used w id ∨ evOpId e = some id := by
  unfold World.step at h
  split at h
  · exact Or.inl h
  · have key : ∀ w1 : World, UsedLe w1 ((w.emit (.ev e)).apply e) → used w1 id → used w id ∨ evOpId e = some id := by
      intro w1 hl hu
      rcases used_applyQ (w.emit (.ev e)) e id (hl.le id hu) with x | x
      · exact Or.inl x
      · exact Or.inr x
    revert h
    simp only
    split
    · exact key _ (UsedLe.refl _)
    · have h2 := usedLe_drain ((w.emit (.ev e)).apply e).drainFuel ((w.emit (.ev e)).apply e)
      generalize World.drain ((w.emit (.ev e)).apply e).drainFuel ((w.emit (.ev e)).apply e) = w2 at h2 ⊢
      have h3 : UsedLe (if w2.cfg.sweep = true then World.drain w2.sweep.drainFuel w2.sweep else w2) w2 := by
        split
        · exact (usedLe_drain _ _).trans (usedLe_sweep w2)
        · exact UsedLe.refl w2
      generalize (if w2.cfg.sweep = true then World.drain w2.sweep.drainFuel w2.sweep else w2) = w3 at h3 ⊢
      split
      · exact key _ (((UsedLe.of_eq (w' := w3.emit .stall) (w := w3) rfl rfl rfl).trans h3).trans h2)
      · exact key _ (h3.trans h2)

/-! ## distinct operation identifiers imply `evsOk` -/


theorem evOk_of_unused (w : World) (e : Ev) (h : ∀ id, evOpId e = some id → ¬ used w id) : evOk w e = true := by
  cases e with
  | op id hh req =>
    cases req with
    | subscribe t =>
      have := h id rfl
      simp only [evOk, Bool.and_eq_true, decide_eq_true_eq]
      exact ⟨fun x => this (Or.inl x), fun x => this (Or.inr (Or.inl x))⟩
    | _ => rfl
  | _ => rfl

theorem evsOk_of_distinct : ∀ (evs : List Ev) (w : World), (opIds evs).Nodup →
    (∀ id, id ∈ opIds evs → ¬ used w id) → evsOk w evs = true
  | [], _, _, _ => rfl
  | e :: es, w, hn, hu => by
    simp only [evsOk, Bool.and_eq_true]
    refine ⟨evOk_of_unused w e (fun id hid => hu id (by simp [opIds, List.filterMap_cons, hid])), ?_⟩
    have hn' : (opIds es).Nodup ∧ ∀ id, evOpId e = some id → id ∉ opIds es := by
      cases he : evOpId e with
      | none => simp only [opIds, List.filterMap_cons, he] at hn; exact ⟨hn, fun id h => by cases h⟩
      | some j =>
        simp only [opIds, List.filterMap_cons, he, List.nodup_cons] at hn
        exact ⟨hn.2, fun id h => by cases h; exact hn.1⟩
    refine evsOk_of_distinct es (w.step e) hn'.1 (fun id hid hus => ?_)
    rcases used_stepQ w e id hus with x | x
    · refine hu id ?_ x
      cases he : evOpId e with
      | none => simpa [opIds, List.filterMap_cons, he] using hid
      | some j => simp only [opIds, List.filterMap_cons, he, List.mem_cons]; exact Or.inr hid
    · exact hn'.2 id x hid

/-- **a script whose `op` events carry pairwise distinct identifiers satisfies `evsOk`** from the initial world -/
theorem evsOk_init_of_distinct (cfg : Cfg) (evs : List Ev) (h : (opIds evs).Nodup) :
    evsOk { cfg := cfg } evs = true :=
  evsOk_of_distinct evs { cfg := cfg } h (fun id _ hu => by
    rcases hu with x | x | x <;> simp at x)

/-! ## the fuel condition on its own -/

/-- the drain fuel sufficed for this step: after the drain no flagged live task that is not held is left
    (exactly the side condition `stepOk` without its `evOk` part) -/
def stepFuelOk (w : World) (e : Ev) : Bool :=
  w.bad || ((w.emit (.ev e)).apply e).bad ||
    (World.drain ((w.emit (.ev e)).apply e).drainFuel ((w.emit (.ev e)).apply e)).pick.isNone

def stepsFuelOk : World → List Ev → Bool
  | _, [] => true
  | w, e :: es => stepFuelOk w e && stepsFuelOk (w.step e) es

theorem stepsOk_of_evsOk_fuelOk : ∀ (evs : List Ev) (w : World), evsOk w evs = true → stepsFuelOk w evs = true →
    stepsOk w evs = true
  | [], _, _, _ => rfl
  | e :: es, w, h1, h2 => by
    simp only [evsOk, Bool.and_eq_true] at h1
    simp only [stepsFuelOk, Bool.and_eq_true] at h2
    simp only [stepsOk, stepOk, Bool.and_eq_true]
    exact ⟨⟨h1.1, h2.1⟩, stepsOk_of_evsOk_fuelOk es _ h1.2 h2.2⟩

end World
end Poster
