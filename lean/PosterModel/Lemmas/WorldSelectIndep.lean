/-
  Lemmas/WorldSelectIndep.lean — what one poll of the loop does NOT owe to the scheduler.

  * the messages handled are a prefix of the queue, whatever the scheduler (`loopHistS_msgs`);
  * `Ctx` level: inbound packets whose handler writes nothing and never ends the loop (`RxPacket.silent`) can be
    deleted from a served history without changing what the message handlers observe and do
    (`serve_msgObs_indep`) — provided the send quota cannot make a difference: either the packets do not touch
    the quota (`RxPacket.neutral`), or the quota covers every queued QoS>0 PUBLISH (`pubCount`).
-/
import PosterModel.Lemmas.WorldSelectHist

set_option linter.unusedVariables false
set_option linter.unusedSimpArgs false

namespace Poster
open Framing

/-! ## vocabulary -/

def CIn.isMsg : CIn → Bool
  | .msg _ _ => true
  | .pkt _ _ _ => false

def CObs.isMsg : CObs → Bool
  | .msg _ _ _ => true
  | .pkt _ _ _ => false

/-- the message inputs of a history, in order -/
def msgIns (is : List CIn) : List CIn := is.filter CIn.isMsg
/-- the handled messages of a served history, in order -/
def msgObs (t : List CObs) : List CObs := t.filter CObs.isMsg

def CIn.msg? : CIn → Option Msg
  | .msg m _ => some m
  | .pkt _ _ _ => none
def CIn.pkt? : CIn → Option RxPacket
  | .msg _ _ => none
  | .pkt p _ _ => some p

/-- the messages / the inbound packets a history hands to the handlers, in order -/
def histMsgs (is : List CIn) : List Msg := is.filterMap CIn.msg?
def histPkts (is : List CIn) : List RxPacket := is.filterMap CIn.pkt?

/-- an inbound packet whose handler writes nothing and never ends the loop: everything except a PUBLISH with a
    packet identifier (QoS > 0: PUBACK / PUBREC owed), PUBREL (PUBCOMP owed) and DISCONNECT -/
def RxPacket.silent : RxPacket → Bool
  | .publish p => p.packetId.isNone
  | .pubrel _ => false
  | .disconnect _ => false
  | _ => true

/-- … and that leaves the send quota alone: not PUBACK, PUBCOMP, or a PUBREC that refuses -/
def RxPacket.neutral : RxPacket → Bool
  | .puback _ => false
  | .pubcomp _ => false
  | .pubrec a => decide (a.reason < 128)
  | _ => true

/-- a request limited by the send quota: a QoS>0 PUBLISH -/
def Msg.isPub : Msg → Bool
  | .awaitAck _ pkt _ => decide (pktType pkt = 3)
  | _ => false

def pubCountM (ms : List Msg) : Nat := (ms.filter Msg.isPub).length
def pubCount (is : List CIn) : Nat := pubCountM (histMsgs is)

theorem pubCountM_cons (m : Msg) (ms : List Msg) :
    pubCountM (m :: ms) = (if m.isPub then 1 else 0) + pubCountM ms := by
  unfold pubCountM
  rw [List.filter_cons]
  split <;> simp <;> omega

theorem pubCount_cons_msg (m : Msg) (wok : Bool) (is : List CIn) :
    pubCount (.msg m wok :: is) = (if m.isPub then 1 else 0) + pubCount is := by
  unfold pubCount histMsgs
  simp only [List.filterMap_cons, CIn.msg?]
  exact pubCountM_cons _ _

theorem pubCount_cons_pkt (p : RxPacket) (d : List Nat) (wok : Bool) (is : List CIn) :
    pubCount (.pkt p d wok :: is) = pubCount is := by
  unfold pubCount histMsgs
  simp only [List.filterMap_cons, CIn.pkt?, CIn.msg?]

namespace Ctx

/-! ## the handlers and the send quota -/

/-- the two contexts cannot be told apart by a message handler: same packet-size limit, and the send quota
    either equal (`nb = true`) or, in both, enough for the `k` quota-limited requests still to come -/
def QSim (nb : Bool) (k : Nat) (c c' : Ctx) : Prop :=
  c.maxPkt = c'.maxPkt ∧ (if nb then c.quota = c'.quota else k ≤ c.quota ∧ k ≤ c'.quota)

theorem sizeOk_congr {c c' : Ctx} (h : c.maxPkt = c'.maxPkt) (pkt : Bytes) : c.sizeOk pkt = c'.sizeOk pkt := by
  simp [sizeOk, h]

/-- **`handle_message` reads the context only through the packet-size limit and "is the quota 0"** -/
theorem handleMsg_sim (nb : Bool) (c c' : Ctx) (m : Msg) (wok : Bool) (k k' : Nat)
    (hk : k' + (if m.isPub then 1 else 0) ≤ k) (h : QSim nb k c c') :
    (c.handleMsg m wok).2 = (c'.handleMsg m wok).2 ∧ QSim nb k' (c.handleMsg m wok).1 (c'.handleMsg m wok).1 := by
  obtain ⟨hm, hq⟩ := h
  have hs := fun pkt => sizeOk_congr hm pkt
  cases m with
  | ff pkt slot =>
    simp only [handleMsg, hs]
    refine ⟨by
      split
      · rfl
      · split <;> rfl, ?_⟩
    have : QSim nb k' c c' := ⟨hm, by
      cases nb
      · simp only [Bool.false_eq_true, ↓reduceIte] at hq ⊢; simp only [Msg.isPub] at hk; omega
      · simpa using hq⟩
    split
    · exact this
    · split <;> exact this
  | subscribe aid sid pkt slot chan =>
    simp only [handleMsg, hs]
    have hq' : (if nb then c.quota = c'.quota else k' ≤ c.quota ∧ k' ≤ c'.quota) := by
      cases nb
      · simp only [Bool.false_eq_true, ↓reduceIte] at hq ⊢; simp only [Msg.isPub] at hk; omega
      · simpa using hq
    split
    · exact ⟨rfl, hm, hq'⟩
    · exact ⟨rfl, hm, hq'⟩
  | awaitAck aid pkt slot =>
    simp only [handleMsg, hs]
    by_cases hsz : c'.sizeOk pkt = true
    · simp only [hsz, Bool.not_true, Bool.false_eq_true, ↓reduceIte]
      by_cases h3 : pktType pkt = 3
      · simp only [h3, ↓reduceIte]
        simp only [Msg.isPub, h3, decide_true, ↓reduceIte] at hk
        have hz : (c.quota = 0) = (c'.quota = 0) := by
          cases nb
          · simp only [Bool.false_eq_true, ↓reduceIte] at hq
            apply propext; constructor <;> intro <;> omega
          · simp only [↓reduceIte] at hq; rw [hq]
        simp only [hz]
        by_cases h0 : c'.quota = 0
        · simp only [h0, ↓reduceIte]
          refine ⟨by first | rfl | trivial, hm, ?_⟩
          cases nb
          · simp only [Bool.false_eq_true, ↓reduceIte] at hq ⊢; omega
          · simpa using hq
        · simp only [h0, ↓reduceIte]
          have hq' : (if nb then c.quota - 1 = c'.quota - 1 else k' ≤ c.quota - 1 ∧ k' ≤ c'.quota - 1) := by
            cases nb
            · simp only [Bool.false_eq_true, ↓reduceIte] at hq ⊢; omega
            · simp only [↓reduceIte] at hq ⊢; rw [hq]
          cases wok
          · exact ⟨rfl, hm, hq'⟩
          · exact ⟨rfl, hm, hq'⟩
      · simp only [h3, ↓reduceIte]
        simp only [Msg.isPub, h3, decide_false, Bool.false_eq_true, ↓reduceIte] at hk
        have hq' : (if nb then c.quota = c'.quota else k' ≤ c.quota ∧ k' ≤ c'.quota) := by
          cases nb
          · simp only [Bool.false_eq_true, ↓reduceIte] at hq ⊢; omega
          · simpa using hq
        by_cases h6 : pktType pkt = 6
        · simp only [h6, ↓reduceIte]
          cases wok
          · exact ⟨rfl, hm, hq'⟩
          · exact ⟨rfl, hm, hq'⟩
        · simp only [h6, ↓reduceIte]
          cases wok
          · exact ⟨rfl, hm, hq'⟩
          · exact ⟨rfl, hm, hq'⟩
    · simp only [hsz, Bool.not_false, ↓reduceIte]
      refine ⟨by first | rfl | trivial, hm, ?_⟩
      cases nb
      · simp only [Bool.false_eq_true, ↓reduceIte] at hq ⊢
        have : (if (Msg.awaitAck aid pkt slot).isPub then 1 else 0) ≥ 0 := Nat.zero_le _
        omega
      · simpa using hq

theorem w14_bump_quota_ge (c : Ctx) : c.quota ≤ c.bump.quota := by unfold bump; split <;> simp

/-- a silent packet: the loop goes on, nothing is written, the packet-size limit stays, the quota can only grow —
    and stays if the packet is neutral -/
theorem handlePkt_silent (c : Ctx) (alive : Nat → Bool) (p : RxPacket) (wok : Bool) (hs : p.silent = true) :
    (c.handlePkt alive p wok).2.2 = .cont ∧ writesOf (c.handlePkt alive p wok).2.1 = [] ∧
    (c.handlePkt alive p wok).1.maxPkt = c.maxPkt ∧ c.quota ≤ (c.handlePkt alive p wok).1.quota ∧
    (p.neutral = true → (c.handlePkt alive p wok).1.quota = c.quota) := by
  cases p with
  | publish pb =>
    have hn : pb.packetId = none := by simpa [RxPacket.silent] using hs
    simp only [handlePkt, hn]
    refine ⟨by first | rfl | trivial, ?_, ?_, ?_, fun _ => ?_⟩
    · split
      · rfl
      · exact writesOf_dispatch _ _ _ _
    · split <;> rfl
    · split <;> simp
    · split <;> rfl
  | disconnect d => simp [RxPacket.silent] at hs
  | pubrel a => simp [RxPacket.silent] at hs
  | connack k => exact ⟨rfl, rfl, rfl, Nat.le_refl _, fun _ => rfl⟩
  | auth a => exact ⟨rfl, rfl, rfl, Nat.le_refl _, fun _ => rfl⟩
  | puback a =>
    refine ⟨rfl, writesOf_complete _ _ _, ?_, ?_, fun h => by simp [RxPacket.neutral] at h⟩
    · show (Ctx.complete _ _ _).1.maxPkt = _
      rw [complete_maxPkt]; exact bump_maxPkt c
    · show _ ≤ (Ctx.complete _ _ _).1.quota
      rw [complete_quota]; exact w14_bump_quota_ge c
  | pubcomp a =>
    refine ⟨rfl, writesOf_complete _ _ _, ?_, ?_, fun h => by simp [RxPacket.neutral] at h⟩
    · show (Ctx.complete _ _ _).1.maxPkt = _
      rw [complete_maxPkt]; exact bump_maxPkt c
    · show _ ≤ (Ctx.complete _ _ _).1.quota
      rw [complete_quota]; exact w14_bump_quota_ge c
  | pubrec a =>
    refine ⟨rfl, writesOf_complete _ _ _, ?_, ?_, fun h => ?_⟩
    · show (Ctx.complete _ _ _).1.maxPkt = _
      rw [complete_maxPkt]; simp only; split <;> simp
    · show _ ≤ (Ctx.complete _ _ _).1.quota
      rw [complete_quota]; simp only; split
      · exact w14_bump_quota_ge c
      · exact Nat.le_refl _
    · have h' : a.reason < 128 := by simpa [RxPacket.neutral] using h
      show (Ctx.complete _ _ _).1.quota = _
      rw [complete_quota]; simp only
      rw [if_neg (by omega)]
  | suback a =>
    exact ⟨rfl, writesOf_complete _ _ _, complete_maxPkt _ _ _,
      by show _ ≤ (Ctx.complete _ _ _).1.quota; rw [complete_quota]; exact Nat.le_refl _,
      fun _ => complete_quota _ _ _⟩
  | unsuback a =>
    exact ⟨rfl, writesOf_complete _ _ _, complete_maxPkt _ _ _,
      by show _ ≤ (Ctx.complete _ _ _).1.quota; rw [complete_quota]; exact Nat.le_refl _,
      fun _ => complete_quota _ _ _⟩
  | pingresp =>
    exact ⟨rfl, writesOf_complete _ _ _, complete_maxPkt _ _ _,
      by show _ ≤ (Ctx.complete _ _ _).1.quota; rw [complete_quota]; exact Nat.le_refl _,
      fun _ => complete_quota _ _ _⟩

/-- every inbound packet of the history is silent (and, in mode `nb`, neutral) -/
def SilentHist (nb : Bool) (is : List CIn) : Prop :=
  ∀ p d wok, CIn.pkt p d wok ∈ is → p.silent = true ∧ (nb = true → p.neutral = true)

theorem msgObs_cons_msg (m : Msg) (e : List Eff) (fl : Flow) (t : List CObs) :
    msgObs (.msg m e fl :: t) = .msg m e fl :: msgObs t := by unfold msgObs; rw [List.filter_cons]; simp [CObs.isMsg]
theorem msgObs_cons_pkt (p : RxPacket) (e : List Eff) (fl : Flow) (t : List CObs) :
    msgObs (.pkt p e fl :: t) = msgObs t := by unfold msgObs; rw [List.filter_cons]; simp [CObs.isMsg]
theorem msgIns_cons_msg (m : Msg) (wok : Bool) (is : List CIn) :
    msgIns (.msg m wok :: is) = .msg m wok :: msgIns is := by unfold msgIns; rw [List.filter_cons]; simp [CIn.isMsg]
theorem msgIns_cons_pkt (p : RxPacket) (d : List Nat) (wok : Bool) (is : List CIn) :
    msgIns (.pkt p d wok :: is) = msgIns is := by unfold msgIns; rw [List.filter_cons]; simp [CIn.isMsg]

/-- **Silent packets can be deleted from a history**: what the message handlers do (effects and flows, hence what they
    write and whether they end the loop) is the same in the history `is` served from `c` and in its message inputs
    alone served from `c'` -/
theorem serve_msgObs_indep (nb : Bool) (is : List CIn) (c c' : Ctx) (hs : SilentHist nb is)
    (h : QSim nb (pubCount is) c c') : msgObs (c.serve is).2 = (c'.serve (msgIns is)).2 := by
  induction is generalizing c c' with
  | nil => rfl
  | cons i is ih =>
    have hs' : SilentHist nb is := fun p d wok hm => hs p d wok (List.mem_cons_of_mem _ hm)
    cases i with
    | msg m wok =>
      rw [msgIns_cons_msg, serve_cons, serve_cons]
      obtain ⟨e1, e2⟩ := handleMsg_sim nb c c' m wok (pubCount (.msg m wok :: is)) (pubCount is)
        (by rw [pubCount_cons_msg]; omega) h
      have ef : (c.stepIn (.msg m wok)).2.flow = (c'.stepIn (.msg m wok)).2.flow := by
        simp only [stepIn, CObs.flow]; rw [e1]
      have eo : (c.stepIn (.msg m wok)).2 = (c'.stepIn (.msg m wok)).2 := by
        simp only [stepIn]; rw [e1]
      rw [ef]
      split
      · simp only
        rw [eo]
        rw [show (c'.stepIn (.msg m wok)).2 = CObs.msg m (c'.handleMsg m wok).2.1 (c'.handleMsg m wok).2.2 from rfl,
          msgObs_cons_msg]
        congr 1
        exact ih _ _ hs' e2
      · simp only
        rw [eo]
        rfl
    | pkt p d wok =>
      obtain ⟨s1, s2⟩ := hs p d wok List.mem_cons_self
      obtain ⟨f1, f2, f3, f4, f5⟩ := handlePkt_silent c (fun ch => ch ∉ d) p wok s1
      rw [msgIns_cons_pkt, serve_cons]
      have ef : (c.stepIn (.pkt p d wok)).2.flow = .cont := f1
      rw [if_pos ef]
      simp only
      rw [show (c.stepIn (.pkt p d wok)).2 = CObs.pkt p (c.handlePkt (fun ch => ch ∉ d) p wok).2.1
        (c.handlePkt (fun ch => ch ∉ d) p wok).2.2 from rfl, msgObs_cons_pkt]
      apply ih _ _ hs'
      rw [pubCount_cons_pkt] at h
      obtain ⟨hm, hq⟩ := h
      refine ⟨f3.trans hm, ?_⟩
      show (if nb then (c.handlePkt (fun ch => ch ∉ d) p wok).1.quota = c'.quota else _)
      cases nb
      · simp only [Bool.false_eq_true, ↓reduceIte] at hq ⊢
        have : c.quota ≤ (c.handlePkt (fun ch => ch ∉ d) p wok).1.quota := f4
        exact ⟨Nat.le_trans hq.1 this, hq.2⟩
      · simp only [↓reduceIte] at hq ⊢
        rw [← hq]; exact f5 (s2 rfl)

/-- silent packets contribute no write -/
theorem histWrites_msgObs (is : List CIn) (c : Ctx) (hs : SilentHist false is) :
    World.histWrites (c.serve is).2 = World.histWrites (msgObs (c.serve is).2) := by
  induction is generalizing c with
  | nil => rfl
  | cons i is ih =>
    have hs' : SilentHist false is := fun p d wok hm => hs p d wok (List.mem_cons_of_mem _ hm)
    cases i with
    | msg m wok =>
      rw [serve_cons]
      split
      · simp only
        rw [show (c.stepIn (.msg m wok)).2 = CObs.msg m (c.handleMsg m wok).2.1 (c.handleMsg m wok).2.2 from rfl,
          msgObs_cons_msg, World.histWrites_cons, World.histWrites_cons, ih _ hs']
      · rfl
    | pkt p d wok =>
      obtain ⟨s1, _⟩ := hs p d wok List.mem_cons_self
      obtain ⟨f1, f2, _⟩ := handlePkt_silent c (fun ch => ch ∉ d) p wok s1
      rw [serve_cons]
      have ef : (c.stepIn (.pkt p d wok)).2.flow = .cont := f1
      rw [if_pos ef]
      simp only
      rw [show (c.stepIn (.pkt p d wok)).2 = CObs.pkt p (c.handlePkt (fun ch => ch ∉ d) p wok).2.1
        (c.handlePkt (fun ch => ch ∉ d) p wok).2.2 from rfl, msgObs_cons_pkt, World.histWrites_cons]
      simp only [CObs.effs, f2, List.nil_append]
      exact ih _ hs'

theorem SilentHist.weaken {nb : Bool} {is : List CIn} (h : SilentHist nb is) : SilentHist false is :=
  fun p d wok hm => ⟨(h p d wok hm).1, fun hx => by cases hx⟩

theorem QSim.refl_nb (c : Ctx) (k : Nat) : QSim true k c c := ⟨rfl, rfl⟩
theorem QSim.refl_ample (c : Ctx) (k : Nat) (h : k ≤ c.quota) : QSim false k c c := ⟨rfl, h, h⟩

end Ctx

namespace World

/-! ## the messages handled by a poll: a prefix of the queue, whatever the scheduler -/

/-- the world an iteration leaves, whether the loop goes on or not -/
def outW : World ⊕ World → World
  | .inl w => w
  | .inr w => w

theorem msgBranch_queue (w : World) (m : Msg) (q : List Msg) : (outW (msgBranch w m q)).queue = q := by
  unfold msgBranch
  simp only
  split <;> simp [outW]

theorem pktBranch_queue (w : World) (rx' : Rx) (rd' : List ReadEv) (fr : Bytes) :
    (outW (pktBranch w rx' rd' fr)).queue = w.queue := by
  unfold pktBranch
  simp only
  split
  · split <;> simp [outW]
  · simp [outW]
  · simp [outW]

/-- how an iteration's input relates to the queue: a handled message is the head of the queue and leaves it;
    otherwise the queue is untouched -/
def QueueFacts (w : World) (i? : Option CIn) (r : World) : Prop :=
  match i? with
  | some (.msg m _) => w.queue = m :: r.queue
  | _ => r.queue = w.queue

theorem runIterS_queue (pf : Bool) (w : World) : QueueFacts w (iterInS pf w) (outW (runIterS pf w)) := by
  cases pf with
  | false =>
    simp only [runIterS, iterInS, iterIn, Bool.false_eq_true, ↓reduceIte]
    cases hq : w.queue with
    | cons m q => simp only [QueueFacts, inMsg]; rw [msgBranch_queue]; exact hq
    | nil =>
      simp only
      split
      · simp [QueueFacts, outW, hq]
      · generalize hp : pollNext w.rx w.reader = r
        obtain ⟨rx', rd', o⟩ := r
        cases o with
        | item fr =>
          simp only
          have := pktBranch_queue w rx' rd' fr
          cases decodeRx fr <;> simp only [QueueFacts, inPkt] <;> exact this
        | none => simp [QueueFacts, outW, hq]
        | pending => simp [QueueFacts, outW, hq]
  | true =>
    simp only [runIterS, iterInS, ↓reduceIte]
    generalize hp : pollNext w.rx w.reader = r
    obtain ⟨rx', rd', o⟩ := r
    cases o with
    | item fr =>
      simp only
      have := pktBranch_queue w rx' rd' fr
      cases decodeRx fr <;> simp only [QueueFacts, inPkt] <;> exact this
    | none => simp [QueueFacts, outW]
    | pending =>
      simp only
      have a1 : (armReader { w with rx := rx', reader := rd' }).queue = w.queue := by simp
      generalize armReader { w with rx := rx', reader := rd' } = wa at a1 ⊢
      rw [← a1]
      cases hqq : wa.queue with
      | cons m q => simp only [QueueFacts, inMsg]; rw [msgBranch_queue]; exact a1 ▸ hqq
      | nil =>
        simp only
        split <;> simp [QueueFacts, outW, hqq, ← a1]

theorem runLoopS_succ_outW (sched : Nat → Bool) (f : Nat) (w : World) :
    (runLoopS sched (f + 1) w).queue =
      (match runIterS (sched f) w with
       | .inl w1 => runLoopS sched f w1
       | .inr r => r).queue := rfl

/-- **The messages a poll handles are a prefix of the queue, in queue order, under every scheduler**; what is left in
    the queue afterwards is the rest -/
theorem loopHistS_msgs (sched : Nat → Bool) (f : Nat) (w : World) :
    histMsgs (loopHistS sched f w) ++ (runLoopS sched f w).queue = w.queue := by
  induction f generalizing w with
  | zero => rfl
  | succ f ih =>
    rw [runLoopS_succ, loopHistS_succ]
    have hq := runIterS_queue (sched f) w
    have hf := runIterS_facts (sched f) w
    cases h : runIterS (sched f) w with
    | inl w1 =>
      rw [h] at hq hf
      obtain ⟨i, hi, _⟩ := hf
      rw [hi] at hq
      simp only [hi, outW] at hq ⊢
      cases i with
      | msg m wok =>
        simp only [QueueFacts] at hq
        rw [hq]
        simp only [histMsgs, List.filterMap_cons, CIn.msg?, List.cons_append]
        congr 1
        exact ih w1
      | pkt p d wok =>
        simp only [QueueFacts] at hq
        rw [← hq]
        simp only [histMsgs, List.filterMap_cons, CIn.msg?]
        exact ih w1
    | inr r =>
      rw [h] at hq hf
      simp only [outW] at hq
      cases hi : iterInS (sched f) w with
      | none => rw [hi] at hq; simpa [QueueFacts, histMsgs] using hq
      | some i =>
        rw [hi] at hq
        cases i with
        | msg m wok => simp only [QueueFacts] at hq; rw [hq]; simp [histMsgs, CIn.msg?]
        | pkt p d wok => simp only [QueueFacts] at hq; rw [← hq]; simp [histMsgs, CIn.msg?]

/-! ## with an unlimited transport every handler's write succeeds -/

theorem iterInS_wok (pf : Bool) (w : World) (hl : w.cfg.wlimit = none) (i : CIn) (h : iterInS pf w = some i) :
    i.wok = true := by
  have hm : ∀ m, (w.inMsg m).wok = true := fun m => canWrite_unlimited w hl _
  have hp : ∀ p, (w.inPkt p).wok = true := fun p => canWrite_unlimited w hl _
  cases pf with
  | false =>
    simp only [iterInS, iterIn, Bool.false_eq_true, ↓reduceIte] at h
    split at h
    · cases h; exact hm _
    · split at h
      · cases h
      · split at h
        · split at h
          · cases h; exact hp _
          · cases h
        · cases h
  | true =>
    simp only [iterInS, ↓reduceIte] at h
    split at h
    · split at h
      · cases h; exact hp _
      · cases h
    · cases h
    · split at h
      · cases h; exact hm _
      · cases h

theorem loopHistS_wok (sched : Nat → Bool) (f : Nat) (w : World) (hl : w.cfg.wlimit = none) :
    ∀ i ∈ loopHistS sched f w, i.wok = true := by
  induction f generalizing w with
  | zero => intro i hi; cases hi
  | succ f ih =>
    rw [loopHistS_succ]
    have hf := runIterS_facts (sched f) w
    cases hi : iterInS (sched f) w with
    | none => intro i h; cases h
    | some i0 =>
      simp only
      intro i h
      simp only [List.mem_cons] at h
      rcases h with rfl | h
      · exact iterInS_wok _ w hl _ hi
      · cases hr : runIterS (sched f) w with
        | inl w1 =>
          rw [hr] at hf h
          obtain ⟨_, _, _, _, hcfg⟩ := hf
          exact ih w1 (by rw [hcfg]; exact hl) i h
        | inr r => rw [hr] at h; cases h

theorem msgIns_eq_of_wok (is : List CIn) (h : ∀ i ∈ is, i.wok = true) :
    msgIns is = (histMsgs is).map (fun m => CIn.msg m true) := by
  induction is with
  | nil => rfl
  | cons i is ih =>
    have h' := ih (fun j hj => h j (List.mem_cons_of_mem _ hj))
    cases i with
    | msg m wok =>
      have : wok = true := h _ List.mem_cons_self
      subst this
      rw [Ctx.msgIns_cons_msg, h']
      simp [histMsgs, CIn.msg?]
    | pkt p d wok =>
      rw [Ctx.msgIns_cons_pkt, h']
      rfl

/-- the prefix of the queue a poll has handled, given what it left -/
theorem handled_eq_take (sched : Nat → Bool) (f : Nat) (w : World) :
    histMsgs (loopHistS sched f w) = w.queue.take (w.queue.length - (runLoopS sched f w).queue.length) := by
  have h := loopHistS_msgs sched f w
  rw [← h]
  simp

/-- **What a poll writes when its inbound packets are silent** — explicit and free of the scheduler: on an unlimited
    transport, if every inbound packet handled by the poll writes nothing and does not end the loop, and the send quota
    cannot tell the orders apart (`nb = true`: the packets leave the quota alone; `nb = false`: the quota covers all
    queued QoS>0 publishes), then the poll hands to the transport exactly what the handled messages — a prefix `ms` of the
    queue — write when served alone, in queue order, from the context before the poll -/
theorem sent_of_silent_poll (nb : Bool) (sched : Nat → Bool) (f : Nat) (w : World) (hl : w.cfg.wlimit = none)
    (hs : Ctx.SilentHist nb (loopHistS sched f w))
    (hq : nb = false → pubCountM w.queue ≤ w.c.quota) :
    (runLoopS sched f w).sent = w.sent ++ (histWrites
      (w.c.serve ((histMsgs (loopHistS sched f w)).map (fun m => CIn.msg m true))).2).flatten := by
  have hp := runLoopS_pollServe sched f w
  rw [hp.sent_eq hl, Ctx.histWrites_msgObs _ _ hs.weaken]
  have hk : pubCount (loopHistS sched f w) ≤ pubCountM w.queue := by
    unfold pubCount
    have h := loopHistS_msgs sched f w
    rw [← h]
    unfold pubCountM
    rw [List.filter_append, List.length_append]
    omega
  have hsim : Ctx.QSim nb (pubCount (loopHistS sched f w)) w.c w.c := by
    cases nb
    · exact Ctx.QSim.refl_ample _ _ (Nat.le_trans hk (hq rfl))
    · exact Ctx.QSim.refl_nb _ _
  rw [Ctx.serve_msgObs_indep nb _ w.c w.c hs hsim, msgIns_eq_of_wok _ (loopHistS_wok sched f w hl)]

/-- **3(b): the bytes do not depend on the scheduler.** Two resolutions of the same poll (any schedulers, any fuels) on
    an unlimited transport, in both of which every inbound packet handled is silent, the quota cannot tell orders apart,
    and which leave the same messages in the queue (e.g. both park: nothing is left), hand the same bytes to the
    transport -/
theorem sent_scheduler_independent (nb : Bool) (s1 s2 : Nat → Bool) (f1 f2 : Nat) (w : World)
    (hl : w.cfg.wlimit = none)
    (h1 : Ctx.SilentHist nb (loopHistS s1 f1 w)) (h2 : Ctx.SilentHist nb (loopHistS s2 f2 w))
    (hq : nb = false → pubCountM w.queue ≤ w.c.quota)
    (hleft : (runLoopS s1 f1 w).queue = (runLoopS s2 f2 w).queue) :
    (runLoopS s1 f1 w).sent = (runLoopS s2 f2 w).sent := by
  rw [sent_of_silent_poll nb s1 f1 w hl h1 hq, sent_of_silent_poll nb s2 f2 w hl h2 hq,
    handled_eq_take s1, handled_eq_take s2, hleft]

/-! ## the inbound packets handled by a poll: a prefix of the decoded frames, whatever the scheduler -/

/-- the reference sequence of inbound packets: what repeated calls of `poll_next` on the framing state `rx` and the
    transport `rd` decode, in order (`Pending` results are skipped; the sequence ends with the stream, with a frame that
    does not decode, or with the fuel) -/
def pktStream : Nat → Rx → List ReadEv → List RxPacket
  | 0, _, _ => []
  | f+1, rx, rd =>
    match pollNext rx rd with
    | (rx', rd', .item fr) =>
      (match decodeRx fr with
       | .ok p => p :: pktStream f rx' rd'
       | _ => [])
    | (rx', rd', .pending) => pktStream f rx' rd'
    | (_, _, .none) => []

theorem pktStream_succ (f : Nat) (rx : Rx) (rd : List ReadEv) :
    pktStream (f + 1) rx rd = match pollNext rx rd with
      | (rx', rd', .item fr) =>
        (match decodeRx fr with
         | .ok p => p :: pktStream f rx' rd'
         | _ => [])
      | (rx', rd', .pending) => pktStream f rx' rd'
      | (_, _, .none) => [] := rfl

theorem pktStream_mono (f : Nat) (rx : Rx) (rd : List ReadEv) : pktStream f rx rd <+: pktStream (f + 1) rx rd := by
  induction f generalizing rx rd with
  | zero => exact List.nil_prefix
  | succ f ih =>
    rw [pktStream_succ f, pktStream_succ (f + 1)]
    generalize pollNext rx rd = r
    obtain ⟨rx', rd', o⟩ := r
    cases o with
    | item fr =>
      simp only
      cases decodeRx fr with
      | ok p => exact (List.prefix_cons_inj p).mpr (ih rx' rd')
      | err => exact List.nil_prefix
      | panic => exact List.nil_prefix
    | none => exact List.nil_prefix
    | pending => exact ih rx' rd'

theorem msgBranch_rx (w : World) (m : Msg) (q : List Msg) :
    (outW (msgBranch w m q)).rx = w.rx ∧ (outW (msgBranch w m q)).reader = w.reader := by
  unfold msgBranch
  simp only
  split <;> simp [outW]

theorem pktBranch_rx (w : World) (rx' : Rx) (rd' : List ReadEv) (fr : Bytes) :
    (outW (pktBranch w rx' rd' fr)).rx = rx' ∧ (outW (pktBranch w rx' rd' fr)).reader = rd' := by
  unfold pktBranch
  simp only
  split
  · split <;> simp [outW]
  · simp [outW]
  · simp [outW]

theorem histPkts_cons_msg (m : Msg) (wok : Bool) (is : List CIn) : histPkts (.msg m wok :: is) = histPkts is := rfl
theorem histPkts_cons_pkt (p : RxPacket) (d : List Nat) (wok : Bool) (is : List CIn) :
    histPkts (.pkt p d wok :: is) = p :: histPkts is := rfl

/-- the rest of a poll's history after an iteration that left the framing state `rx`, `rd` -/
theorem w14_tail_prefix (sched : Nat → Bool) (f : Nat) (x : World ⊕ World) (rx : Rx) (rd : List ReadEv)
    (hx : (outW x).rx = rx ∧ (outW x).reader = rd)
    (ih : ∀ w1 : World, histPkts (loopHistS sched f w1) <+: pktStream f w1.rx w1.reader) :
    histPkts (match (generalizing := false) x with | .inl w1 => loopHistS sched f w1 | .inr _ => []) <+:
      pktStream f rx rd := by
  cases x with
  | inl w1 =>
    simp only [outW] at hx
    have := ih w1
    rw [hx.1, hx.2] at this
    exact this
  | inr r => exact List.nil_prefix

/-- **The inbound packets a poll handles are a prefix of the decoded frames, in frame order, under every scheduler**:
    for every scheduler the packets handled by `runLoopS sched f w` are an initial segment of the one reference sequence
    `pktStream f w.rx w.reader` — so for two schedulers one sequence of handled packets is a prefix of the other. -/
theorem loopHistS_pkts (sched : Nat → Bool) (f : Nat) (w : World) :
    histPkts (loopHistS sched f w) <+: pktStream f w.rx w.reader := by
  induction f generalizing w with
  | zero => exact List.nil_prefix
  | succ f ih =>
    rw [loopHistS_succ, pktStream_succ]
    generalize hp : pollNext w.rx w.reader = r
    obtain ⟨rx', rd', o⟩ := r
    have hmono := pktStream_mono f w.rx w.reader
    rw [pktStream_succ, hp] at hmono
    -- the message branch wins without the packet branch having been polled
    have msgCase : ∀ m q, w.queue = m :: q →
        histPkts (w.inMsg m :: match msgBranch w m q with | .inl w1 => loopHistS sched f w1 | .inr _ => []) <+:
          (match (rx', rd', o) with
            | (rx', rd', .item fr) => (match decodeRx fr with | .ok p => p :: pktStream f rx' rd' | _ => [])
            | (rx', rd', .pending) => pktStream f rx' rd'
            | (_, _, .none) => []) := by
      intro m q hq
      have h1 := w14_tail_prefix sched f (msgBranch w m q) w.rx w.reader (msgBranch_rx w m q) ih
      exact h1.trans hmono
    -- the packet branch wins with the frame `fr`
    have pktCase : ∀ fr p, o = .item fr → decodeRx fr = .ok p →
        histPkts (w.inPkt p :: match pktBranch w rx' rd' fr with | .inl w1 => loopHistS sched f w1 | .inr _ => []) <+:
          p :: pktStream f rx' rd' := by
      intro fr p _ _
      have h1 := w14_tail_prefix sched f (pktBranch w rx' rd' fr) rx' rd' (pktBranch_rx w rx' rd' fr) ih
      exact (List.prefix_cons_inj p).mpr h1
    cases hpf : sched f with
    | false =>
      cases hq : w.queue with
      | cons m q =>
        rw [iterInS_false_msg w m q hq, runIterS_false_msg w m q hq]
        exact msgCase m q hq
      | nil =>
        by_cases hs : w.senders = 0
        · rw [iterInS_false_closed w hq hs]; exact List.nil_prefix
        · cases o with
          | item fr =>
            cases hd : decodeRx fr with
            | ok p =>
              rw [iterInS_false_item w rx' rd' fr p hq hs hp hd, runIterS_false_item w rx' rd' fr hq hs hp]
              simp only [hd]
              exact pktCase fr p rfl hd
            | err =>
              rw [iterInS_false_item_bad w rx' rd' fr hq hp (fun p h => by rw [hd] at h; cases h)]
              exact List.nil_prefix
            | panic =>
              rw [iterInS_false_item_bad w rx' rd' fr hq hp (fun p h => by rw [hd] at h; cases h)]
              exact List.nil_prefix
          | none => rw [iterInS_false_none w rx' rd' hq hp]; exact List.nil_prefix
          | pending => rw [iterInS_false_pending' w rx' rd' hq hp]; exact List.nil_prefix
    | true =>
      cases o with
      | item fr =>
        cases hd : decodeRx fr with
        | ok p =>
          rw [iterInS_true_item w rx' rd' fr p hp hd, runIterS_true_item w rx' rd' fr hp]
          simp only [hd]
          exact pktCase fr p rfl hd
        | err =>
          rw [iterInS_true_item_bad w rx' rd' fr hp (fun p h => by rw [hd] at h; cases h)]
          exact List.nil_prefix
        | panic =>
          rw [iterInS_true_item_bad w rx' rd' fr hp (fun p h => by rw [hd] at h; cases h)]
          exact List.nil_prefix
      | none => rw [iterInS_true_none w rx' rd' hp]; exact List.nil_prefix
      | pending =>
        cases hq : w.queue with
        | nil => rw [iterInS_true_pending_nil w rx' rd' hp hq]; exact List.nil_prefix
        | cons m q =>
          rw [iterInS_true_pending_msg w rx' rd' m q hp hq, runIterS_true_pending w rx' rd' hp]
          have a1 : (armReader { w with rx := rx', reader := rd' }).queue = m :: q := by simp [hq]
          have a2 : (armReader { w with rx := rx', reader := rd' }).rx = rx' := by simp
          have a3 : (armReader { w with rx := rx', reader := rd' }).reader = rd' := by simp
          generalize armReader { w with rx := rx', reader := rd' } = wa at a1 a2 a3 ⊢
          simp only [a1, histPkts_cons_msg]
          have h1 := w14_tail_prefix sched f (msgBranch wa m q) wa.rx wa.reader (msgBranch_rx wa m q) ih
          rw [a2, a3] at h1
          exact h1

/-- for two schedulers, the packet sequences handled by the same poll are comparable: one is a prefix of the other -/
theorem loopHistS_pkts_comparable (s1 s2 : Nat → Bool) (f : Nat) (w : World) :
    histPkts (loopHistS s1 f w) <+: histPkts (loopHistS s2 f w) ∨
    histPkts (loopHistS s2 f w) <+: histPkts (loopHistS s1 f w) := by
  have h1 := loopHistS_pkts s1 f w
  have h2 := loopHistS_pkts s2 f w
  rcases Nat.le_total (histPkts (loopHistS s1 f w)).length (histPkts (loopHistS s2 f w)).length with h | h
  · exact Or.inl (List.prefix_of_prefix_length_le h1 h2 h)
  · exact Or.inr (List.prefix_of_prefix_length_le h2 h1 h)

end World
end Poster
